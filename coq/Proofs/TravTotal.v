(* Proofs/TravTotal.v — C10, selector part: compilation and walks are total.
     - compile (the Parse* functions): its fuel never runs out (the result does not depend on the fuel beyond
       the nesting depth of the declaration), and its outcomes are a selector, an error or "unsupported" — the model
       has no panic outcome for compilation; the one Go panic site of the Parse* functions, the makeslice of
       ParseExploreRange, is captured by [compile_alloc] / [range_cap_panics] and refuted as unbounded below;
     - the walk: for every switch setting without the bare-edge panic (in particular the repaired model and the
       tree after b8b93dd), every selector, every graph without link cycles and every fuel >= walk_fuel, the
       outcome is a result or an error: never Panic, never out of fuel. *)
Require Import IP.Base.Bytes IP.DM.Value IP.Base.GoSem IP.Trav.Selector IP.Trav.Walk IP.Trav.Total
  IP.Proofs.TravFacts IP.Proofs.TravSel IP.Proofs.TravPath IP.Proofs.TravDenote IP.Proofs.TravCompile
  IP.Proofs.TravC07Refuted.
From Coq Require Import Lia.
Open Scope Z_scope.

(* ------------------------------------------------------------------ depth of sub-values *)
Lemma depth_list_in x l : In x l -> (dm_depth x < dm_depth (DList l))%nat.
Proof.
  intros H. cbn [dm_depth]. induction l as [|y l IH]; [destruct H|].
  cbn [fold_right]. destruct H as [->|H]; [lia|]. specialize (IH H). lia.
Qed.
Lemma depth_map_in k x m : In (k, x) m -> (dm_depth x < dm_depth (DMap m))%nat.
Proof.
  intros H. cbn [dm_depth]. induction m as [|y m IH]; [destruct H|].
  cbn [fold_right]. destruct H as [->|H]; [cbn [snd]; lia|]. specialize (IH H). lia.
Qed.
Lemma depth_assoc k m x : assoc k m = Some x -> (dm_depth x < dm_depth (DMap m))%nat.
Proof. intros H. destruct (assoc_In _ _ _ H) as [k' Hin]. eapply depth_map_in; eauto. Qed.

(* ------------------------------------------------------------------ compile: fuel is never the reason *)
Lemma compile_fields_ext r1 r2 l :
  (forall k x, In (k, x) l -> r1 x = r2 x) -> compile_fields r1 l = compile_fields r2 l.
Proof.
  induction l as [|[k x] t IH]; intros H; [reflexivity|].
  cbn [compile_fields]. rewrite (H k x (or_introl eq_refl)). rewrite IH; [reflexivity|].
  intros; eapply H; right; eauto.
Qed.
Lemma compile_members_ext r1 r2 l :
  (forall x, In x l -> r1 x = r2 x) -> compile_members r1 l = compile_members r2 l.
Proof.
  induction l as [|x t IH]; intros H; [reflexivity|].
  cbn [compile_members]. rewrite (H x (or_introl eq_refl)). rewrite IH; [reflexivity|].
  intros; eapply H; right; eauto.
Qed.

Ltac open_cbind :=
  repeat match goal with
         | |- context [cbind (as_map ?b) _] => destruct b; cbn [as_map cbind]; try reflexivity
         | |- context [cbind (cget ?o) _] => destruct o eqn:?; cbn [cget cbind]; try reflexivity
         end.

Ltac use_sub Hsub :=
  match goal with
  | E : assoc _ _ = Some ?x |- context [compile_f _ _ ?x] =>
      let A := fresh in let B := fresh in
      destruct (Hsub _ _ _ eq_refl E) as [A B]; (rewrite A || rewrite B)
  end.

Lemma compile_f_stable : forall f1 f2 b v,
  (dm_depth v < f1)%nat -> (dm_depth v < f2)%nat -> compile_f f1 b v = compile_f f2 b v.
Proof.
  induction f1 as [|f1 IH]; intros f2 b v H1 H2; [lia|]. destruct f2 as [|f2]; [lia|].
  cbn [compile_f]. destruct v; try reflexivity. destruct m as [|[k body] [|? ?]]; try reflexivity.
  assert (Hb : (dm_depth body < f1 /\ dm_depth body < f2)%nat) by (cbn [dm_depth fold_right snd] in *; lia).
  destruct Hb as [Hb1 Hb2].
  assert (Hsub : forall bm key x, body = DMap bm -> assoc key bm = Some x -> compile_f f1 b x = compile_f f2 b x /\
                                   compile_f f1 true x = compile_f f2 true x).
  { intros bm key x -> Hx. pose proof (depth_assoc _ _ _ Hx). split; apply IH; lia. }
  destruct (bytes_eqb k k_fields).
  { open_cbind. f_equal. apply compile_fields_ext. intros fk x Hin.
    match goal with E : assoc _ _ = Some (DMap _) |- _ => pose proof (depth_assoc _ _ _ E) end.
    pose proof (depth_map_in _ _ _ Hin). apply IH; lia. }
  destruct (bytes_eqb k k_all).
  { open_cbind. use_sub Hsub. reflexivity. }
  destruct (bytes_eqb k k_index).
  { open_cbind. use_sub Hsub. reflexivity. }
  destruct (bytes_eqb k k_range).
  { open_cbind. destruct (_ <=? _); [reflexivity|]. open_cbind. use_sub Hsub. reflexivity. }
  destruct (bytes_eqb k k_union).
  { destruct body; try reflexivity. f_equal. apply compile_members_ext. intros x Hin.
    pose proof (depth_list_in _ _ Hin). apply IH; lia. }
  destruct (bytes_eqb k k_rec).
  { open_cbind. use_sub Hsub. reflexivity. }
  reflexivity.
Qed.

Theorem compile_fuel_enough v k :
  compile_f (S (dm_depth v) + k) false v = compile_f (S (dm_depth v)) false v.
Proof. apply compile_f_stable; lia. Qed.

(* the outcomes of compilation: nothing but a (well-formed) selector, an error, or the unmodelled clause *)
Theorem compile_outcomes v :
  (exists s, compile v = COk s /\ srcw false s) \/ compile v = CErr \/ compile v = CUnsupported.
Proof.
  destruct (compile v) as [s| |] eqn:E; auto. left. exists s. split; [reflexivity|]. eapply compile_wf; eauto.
Qed.

(* ------------------------------------------------------------------ compile-time allocation of ranges *)
Lemma zrange_length a n : length (zrange a n) = n.
Proof. revert a; induction n; intros; cbn; auto. Qed.

Theorem range_interests_length a b nx l :
  interests (SRange a b nx) = Some l -> length l = Z.to_nat (b - a).
Proof. cbn. intros H; inversion H; subst. unfold range_segs. rewrite map_length. apply zrange_length. Qed.

(* the allocation is not bounded by anything the size of the declaration determines: a declaration of 6 nodes
   makes the compiler hold K path segments, for every K *)
Fixpoint dm_nodes (v : dm) : nat :=
  match v with
  | DList l => S (fold_right (fun x a => dm_nodes x + a)%nat O l)
  | DMap m => S (fold_right (fun kv a => dm_nodes (snd kv) + a)%nat O m)
  | _ => 1%nat
  end.

Theorem compile_alloc_unbounded : forall K, 0 < K < int64_lim ->
  exists s, compile (d_range 0 K d_match) = COk s /\ dm_nodes (d_range 0 K d_match) = 6%nat /\ compile_alloc s = K.
Proof.
  intros K HK. exists (SRange 0 K (SMatch None)). split; [|split; [reflexivity|cbn; lia]].
  unfold compile, d_range, d_match. cbn [dm_depth fold_right snd Nat.max compile_f].
  cbn. unfold int64_lim in *.
  replace ((-9223372036854775808 <=? K) && (K <? 9223372036854775808))%bool with true
    by (symmetry; apply andb_true_iff; split; [apply Z.leb_le|apply Z.ltb_lt]; lia).
  cbn. replace (K <=? 0) with false by (symmetry; apply Z.leb_gt; lia). reflexivity.
Qed.

(* concrete extremes: 2^40 elements (24 TiB: a fatal out-of-memory in Go), and the full int64 span, whose
   capacity expression wraps negative (makeslice panics) *)
Example range_alloc_witnesses :
  (exists s, compile (d_range 0 1099511627776 d_match) = COk s /\ compile_alloc s = 1099511627776) /\
  (exists s, compile (d_range (-9223372036854775808) 9223372036854775807 d_match) = COk s /\
             range_cap_panics (-9223372036854775808) 9223372036854775807 = true /\
             compile_alloc s = 18446744073709551615).
Proof. split; eexists; repeat split; vm_compute; reflexivity. Qed.

(* ------------------------------------------------------------------ Explore never panics *)
Lemma replace_some_not_none r s : has_edge s = true -> replace_edge s (Some r) <> None.
Proof.
  induction s as [sl|nx IH|fs IH|i nx IH|a b' nx IH|ms IH|sq cur lim stop IH1 IH2|] using sel_ind2;
    intros H; try discriminate.
  - rewrite has_edge_union in H. cbn [replace_edge].
    match goal with |- union_of (?F ms) <> None => assert (E : F ms <> []) end.
    { induction ms as [|m t IHt]; [discriminate|]. inversion IH as [|? ? Hx Ht]; subst.
      cbn in H. destruct (has_edge m) eqn:Em.
      - specialize (Hx eq_refl). destruct (replace_edge m (Some r)); [discriminate|]. exfalso. apply Hx; reflexivity.
      - cbn in H. destruct (replace_edge m (Some r)); [discriminate|]. apply IHt; assumption. }
    match goal with |- union_of ?l <> None => destruct l as [|x [|y t]]; [congruence|discriminate|discriminate] end.
Qed.

Lemma rec_wrap_no_panic q sq lim stop nx : rec_wrap q sq lim stop nx <> XPanic.
Proof.
  unfold rec_wrap. destruct (q_shared_depth q).
  - destruct (has_edge nx) eqn:He; cbn [negb]; [|discriminate].
    destruct (exhausted lim).
    + destruct (q_exhausted_unwrap q); [discriminate|]. destruct (replace_edge nx None); discriminate.
    + destruct (replace_edge nx (Some sq)) eqn:Er; [discriminate|]. exfalso. eapply replace_some_not_none; eauto.
  - destruct (_ && _)%bool; discriminate.
Qed.

Lemma explore_no_panic q (Hq : q_bare_edge_panic q = false) s : forall n p, explore q s n p <> XPanic.
Proof.
  induction s as [sl|nx IH|fs IH|i nx IH|a b' nx IH|ms IH|sq cur lim stop IH1 IH2|] using sel_ind2;
    intros n p; try (cbn; discriminate).
  - cbn. destruct n; try discriminate. destruct (seg_index p); [|discriminate].
    destruct (seg_index (seg_of_int i)); [|discriminate]. destruct (_ =? _); discriminate.
  - cbn. destruct n; try discriminate. destruct (seg_index p); [|discriminate]. destruct (_ || _)%bool; discriminate.
  - rewrite explore_union.
    assert (E : explore_all q ms n p <> XPanic).
    { induction ms as [|m t IHt]; [discriminate|]. inversion IH as [|? ? Hx Ht]; subst.
      cbn. specialize (Hx n p). destruct (explore q m n p); try congruence.
      specialize (IHt Ht). destruct (explore_all q t n p); congruence. }
    destruct (explore_all q ms n p); congruence.
  - cbn [explore]. destruct stop as [c|].
    + destruct (lookup_seg n p); [|discriminate]. destruct (cond_match c d); [discriminate|].
      destruct (is_edge cur); [discriminate|]. specialize (IH2 n p).
      destruct (explore q cur n p) as [[nx|]| |]; try congruence; apply rec_wrap_no_panic.
    + destruct (is_edge cur); [discriminate|]. specialize (IH2 n p).
      destruct (explore q cur n p) as [[nx|]| |]; try congruence; apply rec_wrap_no_panic.
  - cbn. rewrite Hq. discriminate.
Qed.

(* ------------------------------------------------------------------ the walk: a result or an error *)
Definition total_outcome (o : outcome) : Prop := o <> OPanic /\ o <> OFuel.

Lemma seqk_pred {A} (Q : outcome -> Prop) (step : A -> list event * outcome) ks :
  Q OOk -> (forall k, In k ks -> Q (snd (step k))) -> Q (snd (seqk step ks)).
Proof.
  intros H0. induction ks as [|k r IH]; intros H; [exact H0|].
  cbn. pose proof (H k (or_introl eq_refl)) as Hk. destruct (step k) as [e o]. destruct o; cbn in *; auto.
  specialize (IH (fun k' Hin => H k' (or_intror Hin))). destruct (seqk step r); cbn in *; auto.
Qed.

Definition values (n : dm) : list dm :=
  match n with DList l => l | DMap m => map snd m | _ => [] end.

Lemma lookup_values n ps x : lookup_seg n ps = Some x -> In x (values n).
Proof.
  unfold lookup_seg. destruct n; try discriminate.
  - destruct (seg_index ps); [|discriminate]. unfold list_at. destruct (_ || _)%bool; [discriminate|].
    apply nth_error_In.
  - intros H. destruct (assoc_In _ _ _ H) as [k' Hin]. cbn. apply in_map_iff. exists (k', x). auto.
Qed.

Lemma children_values q n s ps x : In (ps, x) (children q n s) -> In x (values n).
Proof.
  unfold children. destruct (interests s) as [attn|].
  - unfold interest_kids. intros H. apply in_flat_map in H. destruct H as (ps' & _ & H).
    destruct (lookup_seg n ps') eqn:E; [|destruct H]. destruct H as [H|[]]. inversion H; subst.
    eapply lookup_values; eauto.
  - unfold kids. destruct n; try (intros []).
    + intros H. apply index_from_In in H. destruct H as (j & _ & Hj). cbn. eapply nth_error_In; eauto.
    + intros H. apply in_map_iff in H. destruct H as ([k y] & H & Hin). inversion H; subst. cbn.
      apply in_map_iff. exists (k, x). auto.
Qed.

Lemma values_depth n x : In x (values n) -> (dm_depth x < dm_depth n)%nat.
Proof.
  destruct n; try (intros []).
  - apply depth_list_in.
  - cbn. intros H. apply in_map_iff in H. destruct H as ([k y] & <- & Hin). eapply depth_map_in; eauto.
Qed.

Lemma values_links_ok g chk n x : links_ok g chk n = true -> In x (values n) -> links_ok g chk x = true.
Proof.
  destruct n; try (intros _ []); cbn [links_ok values]; intros H Hin.
  - rewrite forallb_forall in H. apply H; exact Hin.
  - rewrite forallb_forall in H. apply in_map_iff in Hin. destruct Hin as ([k y] & <- & Hin). apply (H _ Hin).
Qed.
Lemma values_chain_ok g k n x : chain_ok g k n = true -> In x (values n) -> chain_ok g k x = true.
Proof. destruct k; cbn [chain_ok]; apply values_links_ok. Qed.

Lemma blocks_depth_bound g c b : assoc c g = Some b -> (dm_depth b <= blocks_depth g)%nat.
Proof.
  unfold blocks_depth. induction g as [|[c' b'] g IH]; cbn; [discriminate|].
  destruct (bytes_eqb c c'); [intros H; inversion H; subst; lia|]. intros H. specialize (IH H). lia.
Qed.

Section WalkTotal.
  Variable q : quirks.
  Hypothesis Hq : q_bare_edge_panic q = false.
  Variable g : list (bytes * dm).
  Let D := blocks_depth g.

  Lemma walk_total_gen : forall f k ls P n s,
    chain_ok g k n = true -> (dm_depth n + 1 + k * S D <= f)%nat ->
    total_outcome (snd (walk q g f ls P n s)).
  Proof.
    induction f as [|f IH]; intros k ls P n s Hc Hf; [lia|].
    rewrite walk_S. destruct (is_container n) eqn:Econt; [|cbn; split; discriminate].
    pose proof (seqk_pred total_outcome (explore_step q g (walk q g f) ls P n s) (children q n s)) as H.
    destruct (seqk (explore_step q g (walk q g f) ls P n s) (children q n s)) as [e o]. cbn [snd] in *.
    apply H; [split; discriminate|]. clear H. intros [ps x] Hin.
    pose proof (children_values q n s ps x Hin) as Hv.
    pose proof (values_depth n x Hv) as Hd. pose proof (values_chain_ok g k n x Hc Hv) as Hcx.
    unfold explore_step; cbn [fst snd].
    pose proof (explore_no_panic q Hq s n ps) as Hnp.
    destruct (explore q s n ps) as [[s'|]| |]; cbn [snd]; try (split; discriminate); [|congruence].
    assert (Hplain : forall v, v = x -> total_outcome (snd (walk q g f ls (P ++ [ps]) v s'))).
    { intros v ->. apply (IH k); [exact Hcx|lia]. }
    destruct x; try (apply Hplain; reflexivity).
    destruct (assoc c g) as [b|] eqn:Eb; [|cbn; split; discriminate].
    destruct k as [|k'].
    { cbn [chain_ok links_ok] in Hcx. rewrite Eb in Hcx. discriminate. }
    cbn [chain_ok links_ok] in Hcx. rewrite Eb in Hcx.
    pose proof (blocks_depth_bound g c b Eb) as Hb. fold D in Hb.
    specialize (IH k' (c :: ls) (P ++ [ps]) b s' Hcx).
    destruct (walk q g f (c :: ls) (P ++ [ps]) b s') as [e' o']. cbn [snd] in *. apply IH. nia.
  Qed.

  Theorem walk_total root s f :
    chain_ok g (length g) root = true -> (walk_fuel g root <= f)%nat ->
    total_outcome (snd (walk_adv q g f root s)) /\ total_outcome (snd (walk_matching q g f root s)).
  Proof.
    intros Hc Hf.
    assert (H : total_outcome (snd (walk_adv q g f root s))).
    { unfold walk_adv. apply (walk_total_gen f (length g)); [exact Hc|]. unfold walk_fuel in Hf. fold D. lia. }
    split; [exact H|]. unfold walk_matching. destruct (walk_adv q g f root s); exact H.
  Qed.
End WalkTotal.

(* the hypotheses are satisfiable, and a link cycle is what chain_ok excludes *)
Example walk_total_example :
  let g := [([1; 113; 18; 1; 170]%N, DMap [([118%N], DInt 7)])] in
  let root := DMap [([97%N], DLink [1; 113; 18; 1; 170]%N); ([98%N], DList [DInt 1; DLink [1; 113; 18; 1; 170]%N])] in
  chain_ok g (length g) root = true /\ walk_fuel g root = 5%nat /\
  chain_ok [([1%N], DList [DLink [1%N]])] 1 (DLink [1%N]) = false.
Proof. repeat split; vm_compute; reflexivity. Qed.
