(* Proofs/TravFacts.v — small facts shared by the traversal proofs. *)
Require Import IP.Base.Bytes IP.DM.Value IP.Trav.Selector IP.Trav.Walk IP.Trav.Controls IP.Trav.ControlsSpec.
From Coq Require Import Lia.
Open Scope Z_scope.

Lemma beqb_eq a b : bytes_eqb a b = true <-> a = b.
Proof.
  revert b; induction a as [|x a IH]; destruct b as [|y b]; cbn; try (split; congruence).
  rewrite andb_true_iff, N.eqb_eq, IH. split; [intros [-> ->]; reflexivity | intros H; inversion H; auto].
Qed.
Lemma beqb_refl a : bytes_eqb a a = true.
Proof. apply beqb_eq; reflexivity. Qed.

Lemma mem_bytes_In c l : mem_bytes c l = true <-> In c l.
Proof.
  induction l as [|x l IH]; cbn; [split; [discriminate | tauto]|].
  rewrite orb_true_iff, beqb_eq, IH. split; intros [H|H]; auto.
Qed.

Lemma seqk_cons {A} (step : A -> list event * outcome) k r :
  seqk step (k :: r) =
  match step k with
  | (e, OOk) => let '(e', o) := seqk step r in (e ++ e', o)
  | (e, o) => (e, o)
  end.
Proof. reflexivity. Qed.

Lemma walk_S q g f ls P n s :
  walk q g (S f) ls P n s =
  if is_container n then
    let '(e, o) := seqk (explore_step q g (walk q g f) ls P n s) (children q n s) in (visit_event P n s ls :: e, o)
  else ([visit_event P n s ls], OOk).
Proof. reflexivity. Qed.

Lemma cwalk_S q c g f st past ls P n s :
  cwalk q c g (S f) st past ls P n s =
  match check_node st with
  | None => ([], OErr WNodeBudget, st)
  | Some st1 =>
      let vis := if negb past && Nat.ltb (length P) (length (c_start c)) then []
                 else [visit_event P n s ls] in
      if is_container n then
        let '(e, o, st2) := cloop c (cexplore_step q c g (cwalk q c g f) ls P n s) P (children q n s) st1 past false in
        (vis ++ e, o, st2)
      else (vis, OOk, st1)
  end.
Proof. reflexivity. Qed.

Lemma visit_event_is_visit P n s ls : is_visit (visit_event P n s ls) = true.
Proof. unfold visit_event; destruct (match_sel s n); reflexivity. Qed.

Lemma visit_event_path P n s ls : ev_path (visit_event P n s ls) = P.
Proof. unfold visit_event; destruct (match_sel s n); reflexivity. Qed.

Lemma visit_event_stack P n s ls : ev_stack (visit_event P n s ls) = ls.
Proof. unfold visit_event; destruct (match_sel s n); reflexivity. Qed.

(* ---- seqk *)
Lemma seqk_ok_inv {A} (step : A -> list event * outcome) k r t :
  seqk step (k :: r) = (t, OOk) ->
  exists e e', step k = (e, OOk) /\ seqk step r = (e', OOk) /\ t = e ++ e'.
Proof.
  rewrite seqk_cons. destruct (step k) as [e o]. destruct o; try discriminate.
  destruct (seqk step r) as [e' o']. intros H; inversion H; subst. eauto.
Qed.

Lemma seqk_Forall {A} (Q : event -> Prop) (step : A -> list event * outcome) ks :
  (forall k, Forall Q (fst (step k))) -> Forall Q (fst (seqk step ks)).
Proof.
  intros H. induction ks as [|k r IH]; cbn; [constructor|].
  specialize (H k). destruct (step k) as [e o]. destruct o; cbn in *; auto.
  destruct (seqk step r) as [e' o']; cbn in *. apply Forall_app; auto.
Qed.

(* every event of a walk started with link stack ls has a stack that ends in ls *)
Lemma walk_stack_suffix q g f : forall ls P n s,
  Forall (fun e => exists pre, ev_stack e = pre ++ ls) (fst (walk q g f ls P n s)).
Proof.
  induction f as [|f IH]; intros; [constructor|].
  rewrite walk_S. destruct (is_container n).
  - pose proof (seqk_Forall (fun e => exists pre, ev_stack e = pre ++ ls)
                  (explore_step q g (walk q g f) ls P n s) (children q n s)) as H.
    destruct (seqk (explore_step q g (walk q g f) ls P n s) (children q n s)) as [e o]. cbn in *.
    constructor; [exists []; apply visit_event_stack|]. apply H. clear H. intros k.
    unfold explore_step. destruct (explore q s n (fst k)) as [[s'|]| |]; cbn; try constructor.
    destruct (snd k); try apply IH.
    destruct (assoc c g) as [b|]; cbn.
    + specialize (IH (c :: ls) (P ++ [fst k]) b s').
      destruct (walk q g f (c :: ls) (P ++ [fst k]) b s') as [e' o']. cbn in *.
      constructor; [exists []; reflexivity|].
      eapply Forall_impl; [|exact IH]. intros a [pre Hp]. exists (pre ++ [c]). rewrite <- app_assoc. exact Hp.
    + constructor; [exists []; reflexivity|constructor].
  - cbn. constructor; [exists []; apply visit_event_stack|constructor].
Qed.

(* ---- subseq *)
Lemma subseq_refl {A} (l : list A) : subseq l l.
Proof. induction l; constructor; auto. Qed.
Lemma subseq_app {A} (a b c d : list A) : subseq a b -> subseq c d -> subseq (a ++ c) (b ++ d).
Proof.
  induction 1; intros; cbn.
  - induction l; cbn; [assumption|constructor; assumption].
  - constructor; auto.
  - constructor; auto.
Qed.
Lemma subseq_filter {A} (p : A -> bool) (a b : list A) : subseq a b -> subseq (filter p a) (filter p b).
Proof.
  induction 1; cbn.
  - constructor.
  - destruct (p x); [constructor|]; auto.
  - destruct (p x); [constructor|]; auto.
Qed.
Lemma subseq_filter_self {A} (p : A -> bool) (l : list A) : subseq (filter p l) l.
Proof. induction l; cbn; [constructor|]. destruct (p a); constructor; auto. Qed.
