(* Proofs/CborDec.v — facts about the decoder model: one-step lemmas, totality (fuel is never
   exhausted), depth bound, and the encode/decode round trip. *)
Require Import IP.Base.Bytes IP.DM.Value IP.Codec.Cid IP.Codec.Cbor IP.Gen.FromGo.
Require Import IP.Proofs.BytesFacts IP.Proofs.CborEnc.
From Coq Require Import ZifyN ZifyNat ZifyBool Permutation Sorted.
Ltac Zify.zify_post_hook ::= Z.div_mod_to_equations.
Open Scope N_scope.

(* ------------------------------------------------------------ heads *)

Lemma head_shape mj a : a < two64 ->
  exists ai w, head mj a = (mj * 32 + ai) :: be w a /\ ai < 28 /\
    ((ai = a /\ a < 24 /\ w = 0%nat) \/ (ai = 24 /\ 24 <= a < 256 /\ w = 1%nat) \/
     (ai = 25 /\ 256 <= a < 65536 /\ w = 2%nat) \/ (ai = 26 /\ 65536 <= a < 4294967296 /\ w = 4%nat) \/
     (ai = 27 /\ 4294967296 <= a /\ w = 8%nat)).
Proof.
  intros Ha. unfold head, two64 in *.
  destruct (N.ltb_spec a 24); [exists a, 0%nat; cbn [be]; repeat split; try lia; tauto|].
  destruct (N.ltb_spec a 256); [exists 24, 1%nat; repeat split; try lia; tauto|].
  destruct (N.ltb_spec a 65536); [exists 25, 2%nat; repeat split; try lia; tauto|].
  destruct (N.ltb_spec a 4294967296); [exists 26, 4%nat; repeat split; try lia; tauto|].
  exists 27, 8%nat; repeat split; try lia; tauto.
Qed.

Lemma dec_arg_head strict mj a t ai w : mj < 7 -> a < two64 ->
  ((ai = a /\ a < 24 /\ w = 0%nat) \/ (ai = 24 /\ 24 <= a < 256 /\ w = 1%nat) \/
   (ai = 25 /\ 256 <= a < 65536 /\ w = 2%nat) \/ (ai = 26 /\ 65536 <= a < 4294967296 /\ w = 4%nat) \/
   (ai = 27 /\ 4294967296 <= a /\ w = 8%nat)) ->
  dec_arg strict ai (be w a ++ t) = Some (a, t).
Proof.
  intros Hm Ha H. unfold dec_arg, two64 in *.
  destruct H as [(-> & H1 & ->)|[(-> & H1 & ->)|[(-> & H1 & ->)|[(-> & H1 & ->)|(-> & H1 & ->)]]]].
  - destruct (N.ltb_spec a 24); [reflexivity|lia].
  - cbn [N.ltb N.eqb N.compare Pos.compare Pos.compare_cont Pos.eqb].
    change 1 with (N.of_nat 1) at 1. rewrite take_be, (unbe_be 1) by (cbn; lia).
    replace (0 * 256 ^ N.of_nat 1 + a) with a by (cbn; lia).
    destruct (N.ltb_spec a 24); [lia|]. now rewrite andb_false_r.
  - cbn [N.ltb N.eqb N.compare Pos.compare Pos.compare_cont Pos.eqb].
    change 2 with (N.of_nat 2) at 1. rewrite take_be, (unbe_be 2) by (cbn; lia).
    replace (0 * 256 ^ N.of_nat 2 + a) with a by (cbn; lia).
    destruct (N.ltb_spec a 256); [lia|]. now rewrite andb_false_r.
  - cbn [N.ltb N.eqb N.compare Pos.compare Pos.compare_cont Pos.eqb].
    change 4 with (N.of_nat 4) at 1. rewrite take_be, (unbe_be 4) by (cbn; lia).
    replace (0 * 256 ^ N.of_nat 4 + a) with a by (cbn; lia).
    destruct (N.ltb_spec a 65536); [lia|]. now rewrite andb_false_r.
  - cbn [N.ltb N.eqb N.compare Pos.compare Pos.compare_cont Pos.eqb].
    change 8 with (N.of_nat 8) at 1. rewrite take_be, (unbe_be 8) by (cbn; lia).
    replace (0 * 256 ^ N.of_nat 8 + a) with a by (cbn; lia).
    destruct (N.ltb_spec a 4294967296); [lia|]. now rewrite andb_false_r.
Qed.

(* a value starting with a head of major type < 7 goes straight to [dec_major] *)
Lemma dec_val_body_head rv ri re o depth bud pre tag mj a t : mj < 7 -> a < two64 ->
  dec_val_body rv ri re o depth bud pre tag (head mj a ++ t) = dec_major rv ri re o depth bud pre tag mj a t.
Proof.
  intros Hm Ha. destruct (head_shape mj a Ha) as (ai & w & -> & Hai & Hsh).
  cbn [app dec_val_body].
  set (b := mj * 32 + ai).
  assert (Hb1 : b / 32 = mj) by (unfold b; lia).
  assert (Hb2 : b mod 32 = ai) by (unfold b; lia).
  assert (Hb3 : b < 224) by (unfold b; lia).
  repeat match goal with
  | |- context [b =? ?c] => destruct (N.eqb_spec b c); [exfalso; unfold b in *; lia|]
  end.
  cbn [orb].
  destruct (N.leb_spec 224 b); [lia|].
  rewrite Hb1, Hb2, (dec_arg_head _ mj) by assumption. reflexivity.
Qed.

(* ------------------------------------------------------------ totality: fuel is never exhausted *)

Definition len_of (bs : bytes) : nat := length bs.

(* Every successful sub-decode returns a suffix no longer than its input, and strictly shorter
   for [dec_val]; none of the three functions reports DFuel when 2*|input|+k fuel is available. *)
Lemma take_rest_le {A} n (l p s : list A) : take n l = Some (p, s) -> (length s <= length l)%nat.
Proof. apply take_shorter. Qed.

Lemma dec_arg_rest strict ai r a r' : dec_arg strict ai r = Some (a, r') -> (length r' <= length r)%nat.
Proof.
  unfold dec_arg. destruct (ai <? 24); [intros E; inversion E; subst; lia|].
  destruct (ai =? 24); [|destruct (ai =? 25); [|destruct (ai =? 26); [|destruct (ai =? 27); [|discriminate]]]];
    (destruct (take _ r) as [[x s]|] eqn:Et; [|discriminate]);
    (destruct (strict && _); [discriminate|]); intros E; inversion E; subst; eapply take_rest_le; eassumption.
Qed.

Lemma dec_key_str_rest strict bs k r : dec_key_str strict bs = Some (k, r) -> (length r < length bs)%nat.
Proof.
  unfold dec_key_str. destruct bs as [|b t]; [discriminate|].
  destruct (b =? 127); [discriminate|]. destruct (b / 32 =? 3); [|discriminate].
  unfold dec_len. destruct (dec_arg strict (b mod 32) t) as [[a r']|] eqn:Ea; [|discriminate].
  destruct (two63 <=? a); [discriminate|]. destruct (str_cap <? a); [discriminate|].
  intros Ht. apply take_rest_le in Ht. apply dec_arg_rest in Ea. cbn [length]. lia.
Qed.

Lemma dec_key_rest strict rt bs k r : dec_key strict rt bs = Some (k, r) -> (length r < length bs)%nat.
Proof.
  unfold dec_key. destruct bs as [|b t]; [discriminate|].
  destruct ((b / 32 =? 6) && negb rt).
  - unfold dec_len. destruct (dec_arg strict (b mod 32) t) as [[a r']|] eqn:Ea; [|discriminate].
    destruct (two63 <=? a); [discriminate|]. intros H. apply dec_key_str_rest in H. apply dec_arg_rest in Ea.
    cbn [length]. lia.
  - apply dec_key_str_rest.
Qed.

Definition no_fuel_err {A} (r : res derr A) : Prop := r <> Err DFuel.

Ltac nf := unfold no_fuel_err; try discriminate.

Lemma spend_nf bud c : no_fuel_err (spend bud c).
Proof. unfold spend. destruct (_ <? 0)%Z; nf. Qed.

Lemma bind_nf {A B} (r : res derr A) (k : A -> res derr B) :
  no_fuel_err r -> (forall a, r = Ok a -> no_fuel_err (k a)) -> no_fuel_err (bind r k).
Proof.
  destruct r as [a|e]; cbn; intros H1 H2; [now apply H2|].
  unfold no_fuel_err in *. intros C. apply H1. inversion C. reflexivity.
Qed.

Lemma nf_retype {A B} e : no_fuel_err (@Err derr A e) -> no_fuel_err (@Err derr B e).
Proof. unfold no_fuel_err. intros H C. apply H. inversion C. reflexivity. Qed.

Lemma prespend_nf bud pre : no_fuel_err (prespend bud pre).
Proof. destruct pre; cbn; [apply spend_nf|nf]. Qed.

Lemma post_nf o bud pre tag k : (forall b, no_fuel_err (k b)) -> no_fuel_err (post o bud pre tag k).
Proof.
  intros Hk. unfold post. apply bind_nf; [apply prespend_nf|]. intros b _.
  destruct tag; [destruct (d_reject_tags o); [nf|apply Hk]|apply Hk].
Qed.

(* joint statement, by induction on fuel *)
Definition val_good (o : dopts) (f : nat) : Prop :=
  forall depth bud pre tag bs, (2 * length bs < f)%nat ->
    no_fuel_err (dec_val f o depth bud pre tag bs) /\
    forall v b r, dec_val f o depth bud pre tag bs = Ok (v, b, r) -> (length r < length bs)%nat.
Definition items_good (o : dopts) (f : nat) : Prop :=
  forall depth bud n bs, (2 * length bs + 1 < f)%nat ->
    no_fuel_err (dec_items f o depth bud n bs) /\
    forall v b r, dec_items f o depth bud n bs = Ok (v, b, r) -> (length r <= length bs)%nat.
Definition entries_good (o : dopts) (f : nat) : Prop :=
  forall depth bud n seen bs, (2 * length bs + 1 < f)%nat ->
    no_fuel_err (dec_entries f o depth bud n seen bs) /\
    forall v b r, dec_entries f o depth bud n seen bs = Ok (v, b, r) -> (length r <= length bs)%nat.

Lemma dec_major_good o f depth bud pre tag mj a r :
  val_good o f -> items_good o f -> entries_good o f -> (2 * length r + 1 < f)%nat ->
  no_fuel_err (dec_major (dec_val f o) (dec_items f o) (dec_entries f o) o depth bud pre tag mj a r) /\
  forall v b r', dec_major (dec_val f o) (dec_items f o) (dec_entries f o) o depth bud pre tag mj a r = Ok (v, b, r') ->
    (length r' <= length r)%nat.
Proof.
  intros Hv Hi He Hf. unfold dec_major.
  destruct (mj =? 0).
  { split; [apply post_nf; intros; apply bind_nf; [apply spend_nf|intros; nf]|].
    intros v b r'. unfold post. destruct (prespend bud pre); cbn [bind]; [|discriminate].
    destruct tag; [destruct (d_reject_tags o); [discriminate|]|];
      (destruct (spend _ 1); cbn [bind]; [|discriminate]); intros E; inversion E; subst; lia. }
  destruct (mj =? 1).
  { destruct (two63 <? _); [split; [nf|discriminate]|].
    split; [apply post_nf; intros; apply bind_nf; [apply spend_nf|intros; nf]|].
    intros v b r'. unfold post. destruct (prespend bud pre); cbn [bind]; [|discriminate].
    destruct tag; [destruct (d_reject_tags o); [discriminate|]|];
      (destruct (spend _ 1); cbn [bind]; [|discriminate]); intros E; inversion E; subst; lia. }
  destruct (two63 <=? a); [split; [nf|discriminate]|].
  destruct (mj =? 2).
  { destruct (str_cap <? a); [split; [nf|discriminate]|].
    destruct (take a r) as [[s r'']|] eqn:Et; [|split; [nf|discriminate]].
    apply take_rest_le in Et.
    split.
    - apply bind_nf; [apply prespend_nf|]. intros b1 _. apply bind_nf; [apply spend_nf|]. intros b2 _.
      destruct tag; [|nf]. destruct (_ && _); [|nf]. destruct s as [|[|p] c]; try nf. destruct (cid_valid c); nf.
    - intros v b r'. destruct (prespend bud pre); cbn [bind]; [|discriminate].
      destruct (spend _ _); cbn [bind]; [|discriminate].
      destruct tag; [|intros E; inversion E; subst; lia].
      destruct (_ && _); [|discriminate]. destruct s as [|[|p] c]; try discriminate.
      destruct (cid_valid c); [|discriminate]. intros E; inversion E; subst; lia. }
  destruct (mj =? 3).
  { destruct (str_cap <? a); [split; [nf|discriminate]|].
    destruct (take a r) as [[s r'']|] eqn:Et; [|split; [nf|discriminate]].
    apply take_rest_le in Et.
    split; [apply post_nf; intros; apply bind_nf; [apply spend_nf|intros; nf]|].
    intros v b r'. unfold post. destruct (prespend bud pre); cbn [bind]; [|discriminate].
    destruct tag; [destruct (d_reject_tags o); [discriminate|]|];
      (destruct (spend _ _); cbn [bind]; [|discriminate]); intros E; inversion E; subst; lia. }
  destruct (mj =? 4).
  { destruct (Hi depth bud a r Hf) as [_ _].
    split.
    - apply post_nf. intros b1. destruct (_ <=? _)%Z; [nf|]. apply bind_nf; [apply spend_nf|]. intros b2 _.
      destruct (Hi depth b2 a r Hf) as [Hn _]. apply bind_nf; [exact Hn|]. intros [[vs b3] r3] _. nf.
    - intros v b r'. unfold post. destruct (prespend bud pre); cbn [bind]; [|discriminate].
      assert (G : forall z, (if (max_depth o <=? depth)%Z then Err DDepth else
                 do bud' <- spend z (Z.of_N a); do res <- dec_items f o depth bud' a r;
                 let '(vs, bud'', r'') := res in Ok (DList vs, bud'', r'')) = Ok (v, b, r') -> (length r' <= length r)%nat).
      { intros z0. destruct (_ <=? _)%Z; [discriminate|]. destruct (spend z0 _) as [b2|]; cbn [bind]; [|discriminate].
        destruct (Hi depth b2 a r Hf) as [_ Hl]. destruct (dec_items f o depth b2 a r) as [[[vs b3] r3]|] eqn:Ed; cbn [bind]; [|discriminate].
        intros E; inversion E; subst. eapply Hl. reflexivity. }
      destruct tag; [destruct (d_reject_tags o); [discriminate|]|]; apply G. }
  destruct (mj =? 5).
  { split.
    - apply post_nf. intros b1. destruct (_ <=? _)%Z; [nf|]. apply bind_nf; [apply spend_nf|]. intros b2 _.
      destruct (He depth b2 a [] r Hf) as [Hn _]. apply bind_nf; [exact Hn|]. intros [[vs b3] r3] _. nf.
    - intros v b r'. unfold post. destruct (prespend bud pre); cbn [bind]; [|discriminate].
      assert (G : forall z, (if (max_depth o <=? depth)%Z then Err DDepth else
                 do bud' <- spend z (Z.of_N a); do res <- dec_entries f o depth bud' a [] r;
                 let '(vs, bud'', r'') := res in Ok (DMap vs, bud'', r'')) = Ok (v, b, r') -> (length r' <= length r)%nat).
      { intros z0. destruct (_ <=? _)%Z; [discriminate|]. destruct (spend z0 _) as [b2|]; cbn [bind]; [|discriminate].
        destruct (He depth b2 a [] r Hf) as [_ Hl]. destruct (dec_entries f o depth b2 a [] r) as [[[vs b3] r3]|] eqn:Ed; cbn [bind]; [|discriminate].
        intros E; inversion E; subst. eapply Hl. reflexivity. }
      destruct tag; [destruct (d_reject_tags o); [discriminate|]|]; apply G. }
  destruct tag; [split; [nf|discriminate]|].
  assert (Hf' : (2 * length r < f)%nat) by lia.
  destruct (Hv depth bud pre (Some a) r Hf') as [Hn Hl]. split; [exact Hn|].
  intros v b r' E. apply Hl in E. lia.
Qed.

Lemma all_good o : forall f, val_good o f /\ items_good o f /\ entries_good o f.
Proof.
  induction f as [|f (IHv & IHi & IHe)].
  - repeat split; intros; lia.
  - split; [|split].
    + (* dec_val *)
      intros depth bud pre tag bs Hf. cbn [dec_val]. unfold dec_val_body.
      destruct bs as [|b r]; [split; [nf|discriminate]|].
      cbn [length] in Hf.
      assert (Hscalar : forall k : Z -> vres, (forall z, no_fuel_err (k z)) ->
                (forall z v b' r', k z = Ok (v, b', r') -> (length r' <= length r)%nat) ->
                no_fuel_err (post o bud pre tag k) /\
                forall v b' r', post o bud pre tag k = Ok (v, b', r') -> (length r' < length (b :: r))%nat).
      { intros k Hk1 Hk2. split; [now apply post_nf|]. intros v b' r'. unfold post.
        destruct (prespend bud pre); cbn [bind]; [|discriminate].
        destruct tag; [destruct (d_reject_tags o); [discriminate|]|]; intros E; apply Hk2 in E; cbn [length]; lia. }
      destruct ((b =? 246) || (b =? 247)).
      { apply Hscalar; [intros; nf|]. intros z v b' r' E; inversion E; subst; lia. }
      destruct (b =? 244).
      { apply Hscalar; [intros; apply bind_nf; [apply spend_nf|intros; nf]|].
        intros z v b' r'. destruct (spend z 1); cbn [bind]; [|discriminate]. intros E; inversion E; subst; lia. }
      destruct (b =? 245).
      { apply Hscalar; [intros; apply bind_nf; [apply spend_nf|intros; nf]|].
        intros z v b' r'. destruct (spend z 1); cbn [bind]; [|discriminate]. intros E; inversion E; subst; lia. }
      destruct ((b =? 249) || (b =? 250) || (b =? 251)).
      { destruct (take _ r) as [[x r1]|] eqn:Et; [|split; [nf|discriminate]].
        apply take_rest_le in Et.
        destruct (check_float _ _); [|split; [nf|discriminate]].
        apply Hscalar; [intros; apply bind_nf; [apply spend_nf|intros; nf]|].
        intros z v b' r'. destruct (spend z 1); cbn [bind]; [|discriminate]. intros E; inversion E; subst; lia. }
      destruct ((b =? 95) || (b =? 127) || (b =? 159) || (b =? 191)); [split; [nf|discriminate]|].
      destruct (224 <=? b); [split; [nf|discriminate]|].
      destruct (dec_arg _ _ r) as [[a r1]|] eqn:Ea; [|split; [nf|discriminate]].
      apply dec_arg_rest in Ea.
      assert (Hf1 : (2 * length r1 + 1 < f)%nat) by lia.
      destruct (dec_major_good o f depth bud pre tag (b / 32) a r1 IHv IHi IHe Hf1) as [Hn Hl].
      split; [exact Hn|]. intros v b' r' E. apply Hl in E. cbn [length]. lia.
    + (* dec_items *)
      intros depth bud n bs Hf. cbn [dec_items]. unfold dec_items_body.
      destruct (n =? 0); [split; [nf|intros v b r E; inversion E; subst; lia]|].
      assert (Hf1 : (2 * length bs < f)%nat) by lia.
      destruct (IHv (depth + 1)%Z bud (Some go_listEntryCost) None bs Hf1) as [Hn Hl].
      destruct (dec_val f o (depth + 1) bud (Some go_listEntryCost) None bs) as [[[v b2] bs2]|e] eqn:Ed; cbn [bind].
      * specialize (Hl _ _ _ eq_refl).
        assert (Hf2 : (2 * length bs2 + 1 < f)%nat) by lia.
        destruct (IHi depth b2 (n - 1) bs2 Hf2) as [Hn2 Hl2].
        destruct (dec_items f o depth b2 (n - 1) bs2) as [[[vs b3] bs3]|e] eqn:Ed2; cbn [bind].
        -- specialize (Hl2 _ _ _ eq_refl). split; [nf|]. intros ? ? ? E; inversion E; subst; lia.
        -- split; [eapply nf_retype; exact Hn2|discriminate].
      * split; [eapply nf_retype; exact Hn|discriminate].
    + (* dec_entries *)
      intros depth bud n seen bs Hf. cbn [dec_entries]. unfold dec_entries_body.
      destruct (n =? 0); [split; [nf|intros v b r E; inversion E; subst; lia]|].
      destruct (dec_key _ _ bs) as [[k bs1]|] eqn:Ek; [|split; [nf|discriminate]].
      apply dec_key_rest in Ek.
      pose proof (spend_nf bud (Z.of_N (lenN k) + go_mapEntryCost)) as Hs.
      destruct (spend bud _) as [bud1|e]; cbn [bind]; [|split; [eapply nf_retype; exact Hs|discriminate]].
      destruct (existsb _ seen); [split; [nf|discriminate]|].
      assert (Hf1 : (2 * length bs1 < f)%nat) by lia.
      destruct (IHv (depth + 1)%Z bud1 None None bs1 Hf1) as [Hn Hl].
      destruct (dec_val f o (depth + 1) bud1 None None bs1) as [[[v b2] bs2]|e] eqn:Ed; cbn [bind].
      * specialize (Hl _ _ _ eq_refl).
        assert (Hf2 : (2 * length bs2 + 1 < f)%nat) by lia.
        destruct (IHe depth b2 (n - 1) (k :: seen) bs2 Hf2) as [Hn2 Hl2].
        destruct (dec_entries f o depth b2 (n - 1) (k :: seen) bs2) as [[[vs b3] bs3]|e] eqn:Ed2; cbn [bind].
        -- specialize (Hl2 _ _ _ eq_refl). split; [nf|]. intros ? ? ? E; inversion E; subst; lia.
        -- split; [eapply nf_retype; exact Hn2|discriminate].
      * split; [eapply nf_retype; exact Hn|discriminate].
Qed.

(* C10 (decoder part): for every configuration and every input the decoder terminates with a value
   or an error — the out-of-fuel outcome of the model is unreachable *)
Theorem decode_total o bs : decode o bs <> Err DFuel.
Proof.
  unfold decode, dec_fuel.
  destruct (all_good o (2 * length bs + 2)) as [Hv _].
  destruct (Hv 0%Z (budget0 o) None None bs ltac:(lia)) as [Hn _].
  destruct (dec_val _ o 0 (budget0 o) None None bs) as [[[v b] r]|e] eqn:E.
  - destruct (d_dont_parse_beyond o); [discriminate|]. destruct r; discriminate.
  - intros C. apply Hn. congruence.
Qed.

(* ------------------------------------------------------------ round trip *)

(* the value the decoder rebuilds: maps in the order the encoder emitted them *)
Fixpoint sortv (m : sortmode) (v : dm) : dm :=
  match v with
  | DList l => DList (map (sortv m) l)
  | DMap es => DMap (sort_entries m (map (fun kv => (fst kv, sortv m (snd kv))) es))
  | _ => v
  end.

Lemma sortv_rfc v : sortv SortRFC7049 v = sort_maps rfc_ltb v.
Proof.
  induction v as [| b | z | f | s | s | c | l IH | es IH] using dm_ind2; cbn [sortv sort_maps]; try reflexivity.
  - f_equal. induction IH as [|x r Hx _ IHr]; [reflexivity|]. cbn [map]. now rewrite Hx, IHr.
  - f_equal. cbn [sort_entries]. f_equal.
    induction IH as [|x r Hx _ IHr]; [reflexivity|]. cbn [map]. now rewrite Hx, IHr.
Qed.

Lemma sortv_lex v : sortv SortLexical v = sort_maps bytes_ltb v.
Proof.
  induction v as [| b | z | f | s | s | c | l IH | es IH] using dm_ind2; cbn [sortv sort_maps]; try reflexivity.
  - f_equal. induction IH as [|x r Hx _ IHr]; [reflexivity|]. cbn [map]. now rewrite Hx, IHr.
  - f_equal. cbn [sort_entries]. f_equal.
    induction IH as [|x r Hx _ IHr]; [reflexivity|]. cbn [map]. now rewrite Hx, IHr.
Qed.

Lemma sortv_none v : sortv SortNone v = v.
Proof.
  induction v as [| b | z | f | s | s | c | l IH | es IH] using dm_ind2; cbn [sortv]; try reflexivity.
  - f_equal. induction IH as [|x r Hx _ IHr]; [reflexivity|]. cbn [map]. now rewrite Hx, IHr.
  - f_equal. cbn [sort_entries].
    induction IH as [|[k x] r Hx _ IHr]; [reflexivity|]. cbn [map fst snd] in *. now rewrite Hx, IHr.
Qed.

(* what the decoder charges against the allocation budget for a value *)
Fixpoint cost (v : dm) : Z :=
  match v with
  | DNull => 0
  | DBool _ | DInt _ | DFloat _ => 1
  | DString s | DBytes s => Z.of_N (lenN s)
  | DLink c => Z.of_N (lenN c) + 1
  | DList l => Z.of_N (lenN l) + fold_right (fun x a => go_listEntryCost + cost x + a) 0 l
  | DMap es => Z.of_N (lenN es) +
               fold_right (fun kv a => Z.of_N (lenN (fst kv)) + go_mapEntryCost + cost (snd kv) + a) 0 es
  end%Z.

Lemma cost_nonneg v : (0 <= cost v)%Z.
Proof.
  induction v as [| b | z | f | s | s | c | l IH | es IH] using dm_ind2; cbn [cost]; try lia.
  - assert (0 <= fold_right (fun x a => go_listEntryCost + cost x + a) 0 l)%Z.
    { induction IH as [|x r Hx _ IHr]; cbn [fold_right]; [lia|]. unfold go_listEntryCost in *. lia. }
    lia.
  - assert (0 <= fold_right (fun kv a => Z.of_N (lenN (fst kv)) + go_mapEntryCost + cost (snd kv) + a) 0 es)%Z.
    { induction IH as [|x r Hx _ IHr]; cbn [fold_right]; [lia|]. unfold go_mapEntryCost in *. lia. }
    lia.
Qed.

(* fuel measure: one level per item; an item loop over n elements whose sizes are at most M
   needs n + M levels (1 when empty) *)
Fixpoint size (v : dm) : nat :=
  match v with
  | DLink _ => 2
  | DList l => S (length l + Nat.max 1 (fold_right (fun x a => Nat.max (size x) a) 0%nat l))
  | DMap es => S (length es + Nat.max 1 (fold_right (fun kv a => Nat.max (size (snd kv)) a) 0%nat es))
  | _ => 1
  end.

(* values in the range the round trip is claimed for *)
Fixpoint rt_ok (v : dm) : Prop :=
  match v with
  | DInt z => (- two63z <= z < two64z)%Z
  | DFloat f => f < two64 /\ f64_finite f = true
  | DString s | DBytes s => lenN s <= str_cap
  | DLink c => cid_valid c = true /\ lenN c + 1 <= str_cap
  | DList l => lenN l < two63 /\
               (fix all (l : list dm) := match l with [] => True | x :: r => rt_ok x /\ all r end) l
  | DMap es => lenN es < two63 /\ NoDup (map fst es) /\
               (fix all (es : list (bytes * dm)) :=
                  match es with [] => True | (k, x) :: r => lenN k <= str_cap /\ rt_ok x /\ all r end) es
  | _ => True
  end.

Lemma rt_ok_list l : rt_ok (DList l) <-> lenN l < two63 /\ Forall rt_ok l.
Proof.
  cbn [rt_ok]. split; intros [H1 H2]; (split; [exact H1|]); clear H1.
  - induction l as [|x r IH]; [constructor|]. destruct H2. constructor; auto.
  - induction l as [|x r IH]; [exact I|]. inversion H2 as [|? ? Ha Hb]; subst. split; [exact Ha|apply IH; exact Hb].
Qed.

Lemma rt_ok_map es : rt_ok (DMap es) <->
  lenN es < two63 /\ NoDup (map fst es) /\ Forall (fun kv => lenN (fst kv) <= str_cap /\ rt_ok (snd kv)) es.
Proof.
  cbn [rt_ok]. split; intros (H1 & H2 & H3); (split; [exact H1|split; [exact H2|]]); clear H1 H2.
  - induction es as [|[k x] r IH]; [constructor|]. destruct H3 as (? & ? & ?). constructor; auto.
  - induction es as [|[k x] r IH]; [exact I|]. inversion H3 as [|? ? [Ha Ha'] Hb]; subst.
    split; [exact Ha|split; [exact Ha'|apply IH; exact Hb]].
Qed.

Definition pcost (pre : option Z) : Z := match pre with Some c => c | None => 0%Z end.

Lemma spend_ok b c : (c <= b)%Z -> spend b c = Ok (b - c)%Z.
Proof. intros H. unfold spend. destruct (Z.ltb_spec (b - c) 0); [lia|reflexivity]. Qed.

Lemma prespend_ok bud pre : (0 <= pcost pre <= bud)%Z -> prespend bud pre = Ok (bud - pcost pre)%Z.
Proof.
  destruct pre as [c|]; cbn [prespend pcost]; intros H; [now apply spend_ok|]. f_equal. lia.
Qed.

Lemma post_ok o bud pre k : (0 <= pcost pre <= bud)%Z -> post o bud pre None k = k (bud - pcost pre)%Z.
Proof. intros H. unfold post. now rewrite prespend_ok. Qed.

Lemma finite_check strict f : f64_finite f = true -> check_float strict f = Some f.
Proof.
  unfold check_float, f64_finite, f64_is_nan, f64_is_inf. intros H.
  destruct (f64_exp f =? 2047); [discriminate|]. cbn. now rewrite andb_false_r.
Qed.

Lemma ok3 {E A B C} (v v' : A) (b b' : B) (t : C) : v = v' -> b = b' -> @Ok E _ (v, b, t) = Ok (v', b', t).
Proof. intros -> ->. reflexivity. Qed.

Section RoundTrip.
  Variable m : sortmode.
  Variable o : dopts.
  Hypothesis Hlinks : d_allow_links o = true.

  Definition rt_stmt (v : dm) : Prop :=
    rt_ok v -> forall f depth bud pre t,
    (size v <= f)%nat ->
    (depth + Z.of_nat (dm_depth v) <= max_depth o)%Z ->
    (0 <= pcost pre)%Z -> (pcost pre + cost v <= bud)%Z ->
    dec_val f o depth bud pre None (encb m v ++ t) = Ok (sortv m v, (bud - pcost pre - cost v)%Z, t).

  Lemma rt_scalars v : match v with DList _ | DMap _ => True | _ => rt_stmt v end.
  Proof.
    destruct v as [| b | z | f | s | s | c | l | es]; try exact I;
      intros Hok fu depth bud pre t Hf Hd Hp Hb; (destruct fu as [|fu]; [cbn [size] in Hf; lia|]);
      cbn [dec_val encb sortv cost] in *.
    - (* null *)
      cbn [app dec_val_body N.eqb Pos.eqb orb]. rewrite post_ok by lia. apply ok3; [reflexivity|lia].
    - (* bool *)
      destruct b; cbn [app dec_val_body N.eqb Pos.eqb orb]; rewrite post_ok by lia;
        rewrite spend_ok by lia; cbn [bind]; (apply ok3; [reflexivity|lia]).
    - (* int *)
      cbn [rt_ok] in Hok. unfold enc_int, two63z, two64z in *.
      destruct (Z.leb_spec 0 z).
      + rewrite dec_val_body_head by (unfold two64; lia). unfold dec_major. cbn [N.eqb].
        rewrite post_ok by lia. rewrite spend_ok by lia. cbn [bind]. apply ok3; [f_equal; lia|lia].
      + rewrite dec_val_body_head by (unfold two64; lia). unfold dec_major. cbn [N.eqb Pos.eqb].
        replace ((Z.to_N (-1 - z) + 1) mod two64) with (Z.to_N (- z)) by (unfold two64; lia).
        destruct (N.ltb_spec two63 (Z.to_N (- z))); [unfold two63 in *; lia|].
        rewrite post_ok by lia. rewrite spend_ok by lia. cbn [bind]. apply ok3; [f_equal; lia|lia].
    - (* float *)
      destruct Hok as [Hlt Hfin].
      cbn [app dec_val_body N.eqb Pos.eqb orb].
      change 8 with (N.of_nat 8) at 1. rewrite take_be, (unbe_be 8) by (unfold two64 in *; cbn; lia).
      replace (0 * 256 ^ N.of_nat 8 + f) with f by (cbn; lia).
      rewrite finite_check by assumption. rewrite post_ok by lia. rewrite spend_ok by lia. cbn [bind].
      apply ok3; [reflexivity|lia].
    - (* string *)
      cbn [rt_ok] in Hok. unfold enc_str. rewrite <- app_assoc.
      rewrite dec_val_body_head by (unfold two64, str_cap in *; lia). unfold dec_major. cbn [N.eqb Pos.eqb].
      destruct (N.leb_spec two63 (lenN s)); [unfold two63, str_cap in *; lia|].
      destruct (N.ltb_spec str_cap (lenN s)); [lia|].
      rewrite take_app, post_ok by lia. rewrite spend_ok by lia. cbn [bind]. apply ok3; [reflexivity|lia].
    - (* bytes *)
      cbn [rt_ok] in Hok. rewrite <- app_assoc.
      rewrite dec_val_body_head by (unfold two64, str_cap in *; lia). unfold dec_major. cbn [N.eqb Pos.eqb].
      destruct (N.leb_spec two63 (lenN s)); [unfold two63, str_cap in *; lia|].
      destruct (N.ltb_spec str_cap (lenN s)); [lia|].
      rewrite take_app, prespend_ok by lia. cbn [bind]. rewrite spend_ok by lia. cbn [bind]. apply ok3; [reflexivity|lia].
    - (* link *)
      destruct Hok as [Hcid Hlen]. unfold enc_link. rewrite <- !app_assoc.
      rewrite dec_val_body_head by (unfold two64, go_linkTag; lia). unfold dec_major. cbn [N.eqb Pos.eqb].
      destruct (N.leb_spec two63 go_linkTag); [unfold two63, go_linkTag in *; lia|].
      destruct fu as [|fu]; [cbn [size] in Hf; lia|]. cbn [dec_val].
      rewrite dec_val_body_head by (unfold two64, str_cap in *; lia). unfold dec_major. cbn [N.eqb Pos.eqb].
      destruct (N.leb_spec two63 (lenN c + 1)); [unfold two63, str_cap in *; lia|].
      destruct (N.ltb_spec str_cap (lenN c + 1)); [lia|].
      replace (lenN c + 1) with (lenN (0 :: c)) by (rewrite lenN_cons; lia).
      change (0 :: c ++ t) with ((0 :: c) ++ t). rewrite take_app, prespend_ok by lia. cbn [bind].
      rewrite spend_ok by (rewrite lenN_cons; lia). cbn [bind].
      rewrite N.eqb_refl, Hlinks, Hcid. cbn [andb]. apply ok3; [reflexivity|rewrite lenN_cons; lia].
  Qed.

  (* the element loop of a list *)
  Lemma rt_items l : Forall rt_stmt l -> Forall rt_ok l ->
    forall B fu depth bud t,
    Forall (fun x => size x <= B)%nat l -> (1 <= B)%nat -> (length l + B <= fu)%nat ->
    Forall (fun x => depth + 1 + Z.of_nat (dm_depth x) <= max_depth o)%Z l ->
    (fold_right (fun x a => go_listEntryCost + cost x + a) 0 l <= bud)%Z ->
    dec_items fu o depth bud (lenN l) (concat (map (encb m) l) ++ t) =
      Ok (map (sortv m) l, (bud - fold_right (fun x a => go_listEntryCost + cost x + a) 0 l)%Z, t).
  Proof.
    intros HS HO. induction l as [|x r IH]; intros B fu depth bud t HB H1 Hfu HD Hbud.
    - destruct fu as [|fu]; [lia|]. cbn. apply ok3; [reflexivity|lia].
    - destruct fu as [|fu]; [cbn [length] in Hfu; lia|].
      inversion HS as [|? ? HSx HSr]; inversion HO as [|? ? HOx HOr]; inversion HB as [|? ? HBx HBr];
        inversion HD as [|? ? HDx HDr]; subst.
      cbn [dec_items]. unfold dec_items_body. rewrite lenN_cons.
      destruct (N.eqb_spec (lenN r + 1) 0); [lia|].
      cbn [map concat fold_right] in *. rewrite <- app_assoc.
      pose proof (cost_nonneg x) as Hcx.
      assert (Hrest : (0 <= fold_right (fun x a => go_listEntryCost + cost x + a) 0 r)%Z).
      { clear. induction r as [|y r IHr]; cbn [fold_right]; [lia|]. pose proof (cost_nonneg y). unfold go_listEntryCost in *. lia. }
      rewrite (HSx HOx) by (cbn [pcost length] in *; unfold go_listEntryCost in *; lia).
      cbn [bind pcost]. replace (lenN r + 1 - 1) with (lenN r) by lia.
      rewrite (IH HSr HOr B) by (cbn [length] in *; try assumption; unfold go_listEntryCost in *; lia).
      cbn [bind]. apply ok3; [reflexivity|lia].
  Qed.

  (* the entry loop of a map, over the entries in the order they were emitted *)
  Lemma rt_entries es : Forall (fun kv => rt_stmt (snd kv)) es ->
    Forall (fun kv => lenN (fst kv) <= str_cap /\ rt_ok (snd kv)) es ->
    forall B fu depth bud seen t,
    NoDup (map fst es) -> (forall k, In k seen -> ~ In k (map fst es)) ->
    Forall (fun kv => size (snd kv) <= B)%nat es -> (1 <= B)%nat -> (length es + B <= fu)%nat ->
    Forall (fun kv => depth + 1 + Z.of_nat (dm_depth (snd kv)) <= max_depth o)%Z es ->
    (fold_right (fun kv a => Z.of_N (lenN (fst kv)) + go_mapEntryCost + cost (snd kv) + a) 0 es <= bud)%Z ->
    dec_entries fu o depth bud (lenN es) seen
        (concat (map (fun kv => enc_str (fst kv) ++ encb m (snd kv)) es) ++ t) =
      Ok (map (fun kv => (fst kv, sortv m (snd kv))) es,
          (bud - fold_right (fun kv a => Z.of_N (lenN (fst kv)) + go_mapEntryCost + cost (snd kv) + a) 0 es)%Z, t).
  Proof.
    intros HS HO. induction es as [|[k x] r IH]; intros B fu depth bud seen t Hnd Hseen HB H1 Hfu HD Hbud.
    - destruct fu as [|fu]; [lia|]. cbn. apply ok3; [reflexivity|lia].
    - destruct fu as [|fu]; [cbn [length] in Hfu; lia|].
      inversion HS as [|? ? HSx HSr]; inversion HO as [|? ? [HOk HOx] HOr]; inversion HB as [|? ? HBx HBr];
        inversion HD as [|? ? HDx HDr]; inversion Hnd as [|? ? Hnk Hndr]; subst.
      cbn [fst snd] in *.
      cbn [dec_entries]. unfold dec_entries_body. rewrite lenN_cons.
      destruct (N.eqb_spec (lenN r + 1) 0); [lia|].
      cbn [map concat fold_right fst snd] in *. rewrite <- !app_assoc.
      (* the key *)
      assert (Hkey : forall st rt rest, dec_key st rt (enc_str k ++ rest) = Some (k, rest)).
      { intros st rt rest. unfold enc_str. rewrite <- app_assoc.
        assert (Hk64 : lenN k < two64) by (unfold two64, str_cap in *; lia).
        destruct (head_shape 3 (lenN k) Hk64) as (ai & w & Eh & Hai & Hsh). rewrite Eh. cbn [app].
        unfold dec_key. set (b := 3 * 32 + ai).
        assert (Hb1 : b / 32 = 3) by (unfold b; lia).
        assert (Hb2 : b mod 32 = ai) by (unfold b; lia).
        rewrite Hb1. cbn [N.eqb Pos.eqb andb]. unfold dec_key_str.
        destruct (N.eqb_spec b 127); [unfold b in *; lia|]. rewrite Hb1. cbn [N.eqb Pos.eqb].
        unfold dec_len. rewrite Hb2, (dec_arg_head _ 3) by (assumption || lia).
        destruct (N.leb_spec two63 (lenN k)); [unfold two63, str_cap in *; lia|].
        destruct (N.ltb_spec str_cap (lenN k)); [lia|]. apply take_app. }
      rewrite Hkey.
      pose proof (cost_nonneg x) as Hcx.
      assert (Hrest : (0 <= fold_right (fun kv a => Z.of_N (lenN (fst kv)) + go_mapEntryCost + cost (snd kv) + a) 0 r)%Z).
      { clear. induction r as [|y r IHr]; cbn [fold_right]; [lia|]. pose proof (cost_nonneg (snd y)).
        unfold go_mapEntryCost in *. lia. }
      rewrite spend_ok by (unfold go_mapEntryCost in *; lia). cbn [bind].
      assert (Hns : existsb (bytes_eqb k) seen = false).
      { destruct (existsb (bytes_eqb k) seen) eqn:E; [|reflexivity]. exfalso.
        apply existsb_exists in E as (k' & Hin & Heq). apply bytes_eqb_eq in Heq. subst k'.
        apply (Hseen k Hin). now left. }
      rewrite Hns.
      rewrite (HSx HOx) by (cbn [pcost length] in *; unfold go_mapEntryCost in *; lia).
      cbn [bind pcost]. replace (lenN r + 1 - 1) with (lenN r) by lia.
      assert (Hseen' : forall k', In k' (k :: seen) -> ~ In k' (map fst r)).
      { intros k' [<-|Hin]; [exact Hnk|intros Hin2; apply (Hseen k' Hin); now right]. }
      rewrite (IH HSr HOr B fu depth _ (k :: seen) _ Hndr Hseen' HBr H1) by
        (cbn [length] in *; try assumption; unfold go_mapEntryCost in *; lia).
      cbn [bind]. apply ok3; [reflexivity|lia].
  Qed.


  Lemma fold_max_le {A} (g : A -> nat) (l : list A) :
    Forall (fun x => g x <= fold_right (fun x a => Nat.max (g x) a) 0 l)%nat l.
  Proof.
    induction l as [|x r IH]; [constructor|]. cbn [fold_right]. constructor; [lia|].
    eapply Forall_impl; [|exact IH]. cbn. intros; lia.
  Qed.

  Lemma perm_fold_max {A} (g : A -> nat) (l1 l2 : list A) : Permutation l1 l2 ->
    fold_right (fun x a => Nat.max (g x) a) 0%nat l1 = fold_right (fun x a => Nat.max (g x) a) 0%nat l2.
  Proof. induction 1; cbn [fold_right]; lia. Qed.

  Lemma perm_fold_sum {A} (g : A -> Z) (l1 l2 : list A) : Permutation l1 l2 ->
    fold_right (fun x a => g x + a)%Z 0%Z l1 = fold_right (fun x a => g x + a)%Z 0%Z l2.
  Proof. induction 1; cbn [fold_right]; lia. Qed.

  Theorem rt_all v : rt_stmt v.
  Proof.
    induction v as [| b | z | f | s | s | c | l IH | es IH] using dm_ind2;
      try (exact (rt_scalars DNull) || exact (rt_scalars (DBool b)) || exact (rt_scalars (DInt z))
           || exact (rt_scalars (DFloat f)) || exact (rt_scalars (DString s)) || exact (rt_scalars (DBytes s))
           || exact (rt_scalars (DLink c))).
    - (* list *)
      intros Hok fu depth bud pre t Hf Hd Hp Hb.
      apply rt_ok_list in Hok as [Hlen Hall].
      destruct fu as [|fu]; [cbn [size] in Hf; lia|].
      cbn [dec_val encb sortv cost size dm_depth] in *. rewrite <- app_assoc.
      rewrite dec_val_body_head by (unfold two64, two63 in *; lia). unfold dec_major. cbn [N.eqb Pos.eqb].
      destruct (N.leb_spec two63 (lenN l)); [lia|].
      assert (Hrest : (0 <= fold_right (fun x a => go_listEntryCost + cost x + a) 0 l)%Z).
      { clear. induction l as [|y r IHr]; cbn [fold_right]; [lia|]. pose proof (cost_nonneg y). unfold go_listEntryCost in *. lia. }
      rewrite post_ok by lia.
      destruct (Z.leb_spec (max_depth o) depth); [lia|].
      rewrite spend_ok by lia. cbn [bind].
      set (M := fold_right (fun x a => Nat.max (size x) a) 0%nat l) in *.
      rewrite (rt_items l IH Hall (Nat.max 1 M)).
      + cbn [bind]. apply ok3; [reflexivity|lia].
      + eapply Forall_impl; [|apply (fold_max_le size l)]. intros a Ha. cbv beta in Ha |- *. unfold M. lia.
      + lia.
      + lia.
      + eapply Forall_impl; [|apply (fold_max_le dm_depth l)]. intros a Ha. cbv beta in Ha |- *. lia.
      + lia.
    - (* map *)
      intros Hok fu depth bud pre t Hf Hd Hp Hb.
      apply rt_ok_map in Hok as (Hlen & Hnd & Hall).
      destruct fu as [|fu]; [cbn [size] in Hf; lia|].
      cbn [dec_val]. rewrite encb_map, <- app_assoc.
      cbn [sortv cost size dm_depth] in *.
      rewrite dec_val_body_head by (unfold two64, two63 in *; lia). unfold dec_major. cbn [N.eqb Pos.eqb].
      destruct (N.leb_spec two63 (lenN es)); [lia|].
      set (es' := sort_entries m es).
      assert (HP : Permutation es es') by apply sort_entries_perm.
      set (G := fun kv : bytes * dm => (Z.of_N (lenN (fst kv)) + go_mapEntryCost + cost (snd kv))%Z).
      assert (Hsum : fold_right (fun kv a => Z.of_N (lenN (fst kv)) + go_mapEntryCost + cost (snd kv) + a)%Z 0%Z es =
                     fold_right (fun kv a => Z.of_N (lenN (fst kv)) + go_mapEntryCost + cost (snd kv) + a)%Z 0%Z es').
      { apply (perm_fold_sum G es es' HP). }
      assert (Hrest : (0 <= fold_right (fun kv a => Z.of_N (lenN (fst kv)) + go_mapEntryCost + cost (snd kv) + a) 0 es)%Z).
      { clear. induction es as [|y r IHr]; cbn [fold_right]; [lia|]. pose proof (cost_nonneg (snd y)).
        unfold go_mapEntryCost in *. lia. }
      rewrite post_ok by lia.
      destruct (Z.leb_spec (max_depth o) depth); [lia|].
      rewrite spend_ok by lia. cbn [bind].
      assert (lenN es = lenN es') as Hl' by (unfold lenN; now rewrite (Permutation_length HP)).
      rewrite Hl'.
      set (M := fold_right (fun kv a => Nat.max (size (snd kv)) a) 0%nat es) in *.
      rewrite (rt_entries es') with (B := Nat.max 1 M).
      + cbn [bind]. rewrite sort_entries_map_snd. fold es'. apply ok3; [reflexivity|]. rewrite <- Hsum. lia.
      + eapply Permutation_Forall; [exact HP|exact IH].
      + eapply Permutation_Forall; [exact HP|exact Hall].
      + eapply Permutation_NoDup; [apply Permutation_map; exact HP|exact Hnd].
      + intros k [].
      + eapply Permutation_Forall; [exact HP|].
        eapply Forall_impl; [|apply (fold_max_le (fun kv => size (snd kv)) es)]. intros a Ha. cbv beta in Ha |- *. unfold M. lia.
      + lia.
      + rewrite <- (Permutation_length HP). lia.
      + eapply Permutation_Forall; [exact HP|].
        eapply Forall_impl; [|apply (fold_max_le (fun kv => dm_depth (snd kv)) es)]. intros a Ha. cbv beta in Ha |- *. lia.
      + rewrite <- Hsum. lia.
  Qed.

End RoundTrip.

(* ------------------------------------------------------------ enough fuel for any encoder output *)

Lemma head_nonempty mj a : (1 <= length (head mj a))%nat.
Proof. rewrite head_length. repeat (destruct (_ <? _); cbv iota; try lia). Qed.

Lemma encb_nonempty m v : (1 <= length (encb m v))%nat.
Proof.
  destruct v as [| [] | z | f | s | s | c | l | es]; cbn [encb]; try (cbn; lia);
    unfold enc_int, enc_str, enc_link; try destruct (0 <=? z)%Z; rewrite ?app_length;
    try (pose proof (head_nonempty 0 (Z.to_N z)); pose proof (head_nonempty 1 (Z.to_N (-1 - z))); lia).
  - pose proof (head_nonempty 3 (lenN s)); lia.
  - pose proof (head_nonempty 2 (lenN s)); lia.
  - pose proof (head_nonempty 4 (lenN l)); lia.
  - pose proof (head_nonempty 5 (lenN es)); lia.
Qed.

(* n + max size <= 2 * total length + 1, for a list of (size, length) pairs with size <= 2*length, length >= 1 *)
Lemma loop_measure {A} (sz ln : A -> nat) (l : list A) :
  Forall (fun x => sz x <= 2 * ln x /\ 1 <= ln x)%nat l ->
  (length l + fold_right (fun x a => Nat.max (sz x) a) 0 l <= 2 * fold_right (fun x a => ln x + a) 0 l + 1)%nat.
Proof.
  intros HF.
  assert (Hlen : forall l', Forall (fun x => sz x <= 2 * ln x /\ 1 <= ln x)%nat l' ->
                   (length l' <= fold_right (fun x a => ln x + a) 0 l')%nat).
  { induction 1 as [|x r [H1 H2] _ IH]; cbn [length fold_right]; lia. }
  induction HF as [|x r [H1 H2] Hr IH]; cbn [length fold_right]; [lia|].
  specialize (Hlen r Hr). lia.
Qed.

Lemma length_concat_map {A} (g : A -> bytes) (l : list A) :
  length (concat (map g l)) = fold_right (fun x a => length (g x) + a)%nat 0%nat l.
Proof. induction l as [|x r IH]; cbn [map concat fold_right]; [reflexivity|]. now rewrite app_length, IH. Qed.

Lemma perm_fold_sum_nat {A} (g : A -> nat) (l1 l2 : list A) : Permutation l1 l2 ->
  fold_right (fun x a => g x + a)%nat 0%nat l1 = fold_right (fun x a => g x + a)%nat 0%nat l2.
Proof. induction 1; cbn [fold_right]; lia. Qed.

Lemma size_pos v : (1 <= size v)%nat.
Proof. destruct v; cbn [size]; lia. Qed.

Lemma size_le_enc m v : (size v <= 2 * length (encb m v))%nat.
Proof.
  induction v as [| b | z | f | s | s | c | l IH | es IH] using dm_ind2;
    try (match goal with |- (size ?v <= _)%nat => pose proof (encb_nonempty m v) end; cbn [size] in *; lia).
  - cbn [size encb]. rewrite app_length, length_concat_map.
    pose proof (head_nonempty 4 (lenN l)).
    assert (HF : Forall (fun x => size x <= 2 * length (encb m x) /\ 1 <= length (encb m x))%nat l).
    { eapply Forall_impl; [|exact IH]. intros a Ha. split; [exact Ha|apply encb_nonempty]. }
    pose proof (loop_measure size (fun x => length (encb m x)) l HF) as HL.
    destruct l as [|x r]; cbn [length fold_right] in *; [lia|pose proof (size_pos x); lia].
  - cbn [size]. rewrite encb_map, app_length, length_concat_map.
    pose proof (head_nonempty 5 (lenN es)).
    assert (HF : Forall (fun kv => size (snd kv) <= 2 * length (enc_str (fst kv) ++ encb m (snd kv)) /\
                                   1 <= length (enc_str (fst kv) ++ encb m (snd kv)))%nat es).
    { eapply Forall_impl; [|exact IH]. intros a Ha. cbv beta in Ha. rewrite app_length.
      pose proof (encb_nonempty m (snd a)). lia. }
    pose proof (loop_measure (fun kv => size (snd kv)) (fun kv => length (enc_str (fst kv) ++ encb m (snd kv))) es HF) as HL.
    rewrite <- (perm_fold_sum_nat (fun kv => length (enc_str (fst kv) ++ encb m (snd kv))) es (sort_entries m es)
                  (sort_entries_perm m es)).
    destruct es as [|x r]; cbn [length fold_right] in *; [lia|pose proof (size_pos (snd x)); lia].
Qed.

(* C02: decoding the encoder's output gives back the value, maps in the emitted (sorted) order *)
Theorem decode_encode m o v :
  d_allow_links o = true -> rt_ok v ->
  (Z.of_nat (dm_depth v) <= max_depth o)%Z -> (cost v <= budget0 o)%Z ->
  decode o (encb m v) = Ok (sortv m v, []).
Proof.
  intros Hl Hok Hd Hc. unfold decode.
  pose proof (rt_all m o Hl v Hok (dec_fuel (encb m v)) 0%Z (budget0 o) None []) as H.
  rewrite app_nil_r in H. rewrite H.
  - destruct (d_dont_parse_beyond o); reflexivity.
  - unfold dec_fuel. pose proof (size_le_enc m v). lia.
  - lia.
  - cbn. lia.
  - cbn. lia.
Qed.
