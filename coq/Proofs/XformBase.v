(* Proofs/XformBase.v — facts about the store, key lookup, key sorting and the expanded-tree type
   used by the C16 proofs.  Self-contained (depends only on Base/Bytes, DM/Value, Xform/Transform). *)
Require Import IP.Base.Bytes IP.DM.Value IP.Xform.Transform.
From Coq Require Import Lia.
Open Scope Z_scope.

(* ---------------------------------------------------------------- byte strings *)
Lemma xb_eqb_eq a b : bytes_eqb a b = true <-> a = b.
Proof.
  revert b; induction a as [|x a IH]; destruct b as [|y b]; simpl; split; intro H; try easy.
  - apply andb_true_iff in H as [H1 H2]. apply N.eqb_eq in H1. apply IH in H2. congruence.
  - inversion H; subst. apply andb_true_iff; split; [apply N.eqb_refl | now apply IH].
Qed.
Lemma xb_eqb_refl a : bytes_eqb a a = true.
Proof. now apply xb_eqb_eq. Qed.
Lemma xb_eqb_sym a b : bytes_eqb a b = bytes_eqb b a.
Proof.
  destruct (bytes_eqb a b) eqn:E.
  - apply xb_eqb_eq in E; subst. now rewrite xb_eqb_refl.
  - destruct (bytes_eqb b a) eqn:E2; [|easy]. apply xb_eqb_eq in E2; subst. now rewrite xb_eqb_refl in E.
Qed.
Lemma xb_eqb_neq a b : bytes_eqb a b = false <-> a <> b.
Proof.
  split; intro H.
  - intro E; subst. now rewrite xb_eqb_refl in H.
  - destruct (bytes_eqb a b) eqn:E; [|easy]. apply xb_eqb_eq in E. contradiction.
Qed.

(* ---------------------------------------------------------------- store *)
Definition extends (a b : store) : Prop := forall c v, lookup c a = Some v -> lookup c b = Some v.

Lemma extends_refl a : extends a a.
Proof. now intros c v. Qed.
Lemma extends_trans a b c : extends a b -> extends b c -> extends a c.
Proof. intros H1 H2 k v H. now apply H2, H1. Qed.

Lemma put_extends c b st : extends st (put c b st).
Proof.
  intros k v H. unfold put. destruct (lookup c st) eqn:E; [exact H|].
  simpl. destruct (bytes_eqb k c) eqn:Ek; [|exact H].
  apply xb_eqb_eq in Ek; subst. congruence.
Qed.
Lemma put_lookup c b st : exists x, lookup c (put c b st) = Some x /\ (lookup c st = None -> x = b).
Proof.
  unfold put. destruct (lookup c st) eqn:E.
  - exists d. split; [exact E | discriminate].
  - exists b. simpl. now rewrite xb_eqb_refl.
Qed.

(* ---------------------------------------------------------------- association lists *)
Fixpoint uniqb {A} (m : list (bytes * A)) : bool :=
  match m with
  | [] => true
  | (k, _) :: r => negb (mem_key k r) && uniqb r
  end.

Lemma mem_key_find {A} k (m : list (bytes * A)) : mem_key k m = false <-> find_kv k m = None.
Proof.
  induction m as [|[k' v] r IH]; simpl; [easy|].
  rewrite (xb_eqb_sym k k'). destruct (bytes_eqb k' k); simpl; [easy | exact IH].
Qed.

Lemma find_kv_map {A B} (g : A -> B) k (m : list (bytes * A)) :
  find_kv k (map (fun kt => (fst kt, g (snd kt))) m) = option_map g (find_kv k m).
Proof.
  induction m as [|[k' v] r IH]; simpl; [easy|]. destruct (bytes_eqb k' k); [easy | exact IH].
Qed.
Lemma mem_key_map {A B} (g : A -> B) k (m : list (bytes * A)) :
  mem_key k (map (fun kt => (fst kt, g (snd kt))) m) = mem_key k m.
Proof. induction m as [|[k' v] r IH]; simpl; [easy|]. now rewrite IH. Qed.
Lemma uniqb_map {A B} (g : A -> B) (m : list (bytes * A)) :
  uniqb (map (fun kt => (fst kt, g (snd kt))) m) = uniqb m.
Proof. induction m as [|[k' v] r IH]; simpl; [easy|]. now rewrite IH, mem_key_map. Qed.

Lemma mem_key_replace {A} k k0 (v : A) m : mem_key k (replace_kv k0 v m) = mem_key k m.
Proof.
  induction m as [|[k' v'] r IH]; simpl; [easy|].
  destruct (bytes_eqb k' k0); simpl; [easy | now rewrite IH].
Qed.
Lemma uniqb_replace {A} k0 (v : A) m : uniqb m = true -> uniqb (replace_kv k0 v m) = true.
Proof.
  induction m as [|[k' v'] r IH]; simpl; [easy|]. intro H. apply andb_true_iff in H as [H1 H2].
  destruct (bytes_eqb k' k0); simpl; [now rewrite H1, H2|].
  now rewrite mem_key_replace, H1, IH.
Qed.
Lemma mem_key_remove {A} k k0 (m : list (bytes * A)) : mem_key k m = false -> mem_key k (remove_kv k0 m) = false.
Proof.
  induction m as [|[k' v'] r IH]; simpl; [easy|]. intro H. apply orb_false_iff in H as [H1 H2].
  destruct (bytes_eqb k' k0); simpl; [exact H2 | now rewrite H1, IH].
Qed.
Lemma uniqb_remove {A} k0 (m : list (bytes * A)) : uniqb m = true -> uniqb (remove_kv k0 m) = true.
Proof.
  induction m as [|[k' v'] r IH]; simpl; [easy|]. intro H. apply andb_true_iff in H as [H1 H2].
  destruct (bytes_eqb k' k0); simpl; [exact H2|].
  rewrite IH by exact H2. apply negb_true_iff in H1. now rewrite mem_key_remove.
Qed.
Lemma mem_key_app {A} k (a b : list (bytes * A)) : mem_key k (a ++ b) = mem_key k a || mem_key k b.
Proof. induction a as [|[k' v'] r IH]; simpl; [easy|]. now rewrite IH, orb_assoc. Qed.
Lemma uniqb_snoc {A} k (v : A) m : uniqb m = true -> mem_key k m = false -> uniqb (m ++ [(k, v)]) = true.
Proof.
  induction m as [|[k' v'] r IH]; simpl; [easy|]. intros H Hk.
  apply andb_true_iff in H as [H1 H2]. apply orb_false_iff in Hk as [Hk1 Hk2].
  rewrite IH by assumption. rewrite mem_key_app. simpl. apply negb_true_iff in H1. rewrite H1.
  rewrite xb_eqb_sym, Hk1. reflexivity.
Qed.

(* ---------------------------------------------------------------- key sorting *)
Section SortFacts.
  Context {V : Type}.
  Variable ltb : bytes -> bytes -> bool.

  Lemma insert_kv_Forall (P : bytes * V -> Prop) kv l :
    P kv -> Forall P l -> Forall P (insert_kv ltb kv l).
  Proof.
    intros Hk H. induction H as [|x r Hx Hr IH]; simpl; [now constructor|].
    destruct (ltb (fst x) (fst kv)); constructor; auto.
  Qed.
  Lemma sort_kv_Forall (P : bytes * V -> Prop) l : Forall P l -> Forall P (sort_kv ltb l).
  Proof. induction 1; simpl; [constructor | now apply insert_kv_Forall]. Qed.

  Lemma mem_key_insert k kv (l : list (bytes * V)) :
    mem_key k (insert_kv ltb kv l) = bytes_eqb k (fst kv) || mem_key k l.
  Proof.
    induction l as [|[k' v'] r IH]; simpl.
    - destruct kv; simpl. reflexivity.
    - destruct (ltb k' (fst kv)); simpl.
      + rewrite IH. destruct (bytes_eqb k k'), (bytes_eqb k (fst kv)); reflexivity.
      + destruct kv; simpl. reflexivity.
  Qed.
  Lemma mem_key_sort k (l : list (bytes * V)) : mem_key k (sort_kv ltb l) = mem_key k l.
  Proof.
    induction l as [|[k' v'] r IH]; simpl; [easy|]. now rewrite mem_key_insert, IH.
  Qed.
  Lemma uniqb_insert kv (l : list (bytes * V)) :
    uniqb l = true -> mem_key (fst kv) l = false -> uniqb (insert_kv ltb kv l) = true.
  Proof.
    induction l as [|[k' v'] r IH]; simpl; intros H Hk.
    - destruct kv; reflexivity.
    - apply andb_true_iff in H as [H1 H2]. apply orb_false_iff in Hk as [Hk1 Hk2].
      destruct (ltb k' (fst kv)); simpl.
      + rewrite mem_key_insert, IH by assumption. apply negb_true_iff in H1. rewrite H1.
        rewrite xb_eqb_sym, Hk1. reflexivity.
      + destruct kv as [k0 v0]; simpl in *. rewrite Hk1, Hk2, H1, H2. reflexivity.
  Qed.
  Lemma uniqb_sort (l : list (bytes * V)) : uniqb l = true -> uniqb (sort_kv ltb l) = true.
  Proof.
    induction l as [|[k' v'] r IH]; simpl; [easy|]. intro H. apply andb_true_iff in H as [H1 H2].
    apply uniqb_insert; [now apply IH|]. simpl. rewrite mem_key_sort. now apply negb_true_iff.
  Qed.
End SortFacts.

Lemma insert_kv_map {A B} ltb (g : A -> B) kv (l : list (bytes * A)) :
  insert_kv ltb (fst kv, g (snd kv)) (map (fun kt => (fst kt, g (snd kt))) l)
  = map (fun kt => (fst kt, g (snd kt))) (insert_kv ltb kv l).
Proof.
  induction l as [|x r IH]; simpl; [easy|].
  destruct (ltb (fst x) (fst kv)); simpl; [now rewrite IH | easy].
Qed.
Lemma sort_kv_map {A B} ltb (g : A -> B) (l : list (bytes * A)) :
  sort_kv ltb (map (fun kt => (fst kt, g (snd kt))) l) = map (fun kt => (fst kt, g (snd kt))) (sort_kv ltb l).
Proof.
  induction l as [|x r IH]; simpl; [easy|]. rewrite IH. apply (insert_kv_map ltb g x).
Qed.

(* ---------------------------------------------------------------- induction on expanded trees *)
Section xt_ind2.
  Variable P : xt -> Prop.
  Hypothesis Hleaf : forall v, P (XLeaf v).
  Hypothesis Hlist : forall l, Forall P l -> P (XList l).
  Hypothesis Hmap : forall m, Forall (fun kt => P (snd kt)) m -> P (XMap m).
  Hypothesis Hblock : forall c t, P t -> P (XBlock c t).
  Fixpoint xt_ind2 (t : xt) : P t :=
    match t with
    | XLeaf v => Hleaf v
    | XList l => Hlist l ((fix go (l : list xt) : Forall P l :=
        match l with [] => Forall_nil _ | x :: r => Forall_cons _ (xt_ind2 x) (go r) end) l)
    | XMap m => Hmap m ((fix go (m : list (bytes * xt)) : Forall (fun kt => P (snd kt)) m :=
        match m with [] => Forall_nil _ | kt :: r => Forall_cons _ (xt_ind2 (snd kt)) (go r) end) m)
    | XBlock c t' => Hblock c t' (xt_ind2 t')
    end.
End xt_ind2.

(* ---------------------------------------------------------------- well-formedness, validity *)
Definition is_container (v : dm) : bool := match v with DList _ | DMap _ => true | _ => false end.

(* unique keys in every map (as every real node has) *)
Fixpoint wf_dm (v : dm) : bool :=
  match v with
  | DList l => forallb wf_dm l
  | DMap m => uniqb m && forallb (fun kv => wf_dm (snd kv)) m
  | _ => true
  end.

(* leaves are scalars, maps have unique keys *)
Inductive wfx : xt -> Prop :=
| W_leaf v : is_container v = false -> wfx (XLeaf v)
| W_list l : Forall wfx l -> wfx (XList l)
| W_map m : uniqb m = true -> Forall (fun kt => wfx (snd kt)) m -> wfx (XMap m)
| W_block c t : wfx t -> wfx (XBlock c t).

(* every expanded link really names the block it is annotated with *)
Inductive valid (st : store) : xt -> Prop :=
| V_leaf v : valid st (XLeaf v)
| V_list l : Forall (valid st) l -> valid st (XList l)
| V_map m : Forall (fun kt => valid st (snd kt)) m -> valid st (XMap m)
| V_block c t : lookup c st = Some (raw t) -> valid st t -> valid st (XBlock c t).

Lemma valid_mono st st' t : extends st st' -> valid st t -> valid st' t.
Proof.
  intros He. induction t using xt_ind2; intro Hv; inversion Hv; subst.
  - constructor.
  - constructor. rewrite Forall_forall in *. intros x Hx. apply H; auto.
  - constructor. rewrite Forall_forall in *. intros x Hx. apply H; auto.
  - constructor; auto.
Qed.

Lemma raw_inject v : raw (inject v) = v.
Proof.
  induction v using dm_ind2; simpl; try reflexivity.
  - f_equal. rewrite map_map. rewrite <- (map_id l) at 2. apply map_ext_in.
    intros x Hx. rewrite Forall_forall in H. auto.
  - f_equal. rewrite map_map. rewrite <- (map_id m) at 2. apply map_ext_in.
    intros [k x] Hx. rewrite Forall_forall in H. simpl. f_equal. apply (H _ Hx).
Qed.
Lemma erase_inject v : erase (inject v) = v.
Proof.
  induction v using dm_ind2; simpl; try reflexivity.
  - f_equal. rewrite map_map. rewrite <- (map_id l) at 2. apply map_ext_in.
    intros x Hx. rewrite Forall_forall in H. auto.
  - f_equal. rewrite map_map. rewrite <- (map_id m) at 2. apply map_ext_in.
    intros [k x] Hx. rewrite Forall_forall in H. simpl. f_equal. apply (H _ Hx).
Qed.
Lemma valid_inject st v : valid st (inject v).
Proof.
  induction v using dm_ind2; simpl; try constructor.
  - rewrite Forall_map. exact H.
  - rewrite Forall_map. exact H.
Qed.
Lemma wfx_inject v : wf_dm v = true -> wfx (inject v).
Proof.
  induction v using dm_ind2; simpl; intro Hw; try (now constructor).
  - constructor. rewrite Forall_map. rewrite forallb_forall in Hw. rewrite Forall_forall in *. auto.
  - apply andb_true_iff in Hw as [Hu Hw]. constructor.
    + now rewrite uniqb_map.
    + rewrite Forall_map. rewrite forallb_forall in Hw. rewrite Forall_forall in *. simpl. auto.
Qed.

Lemma wfx_raw_wf t : wfx t -> wf_dm (raw t) = true.
Proof.
  induction t using xt_ind2; intro Hw; inversion Hw as [v0 Hs | l0 Hl | m0 Hu Hm | c0 t0 Ht]; subst; simpl.
  - destruct v; try reflexivity; discriminate.
  - rewrite forallb_forall. intros y Hy. apply in_map_iff in Hy as [x [<- Hx]].
    rewrite Forall_forall in *. auto.
  - rewrite uniqb_map, Hu. simpl. rewrite forallb_forall. intros y Hy.
    apply in_map_iff in Hy as [x [<- Hx]]. rewrite Forall_forall in *. simpl. auto.
  - reflexivity.
Qed.

(* the callback is only ever shown nodes with unique keys; what it hands back must be such too *)
Definition owf (x : option dm) : Prop := match x with Some d => wf_dm d = true | None => True end.

Section Canon.
  Variable ltb : bytes -> bytes -> bool.

  Lemma sort_maps_scalar v : is_container v = false -> sort_maps ltb v = v.
  Proof. destruct v; simpl; try reflexivity; discriminate. Qed.

  Lemma raw_canon_x t : wfx t -> raw (canon_x ltb t) = canon ltb (raw t).
  Proof.
    unfold canon. induction t using xt_ind2; intro Hw; inversion Hw; subst; simpl.
    - symmetry. now apply sort_maps_scalar.
    - f_equal. rewrite !map_map. apply map_ext_in. intros x Hx.
      rewrite Forall_forall in H, H1. auto.
    - f_equal.
      rewrite <- (sort_kv_map ltb raw). rewrite !map_map. simpl.
      f_equal. apply map_ext_in. intros x Hx. rewrite Forall_forall in H, H2. f_equal. auto.
    - reflexivity.
  Qed.

  Lemma valid_canon_x st t : valid st t -> valid st (canon_x ltb t).
  Proof.
    induction t using xt_ind2; intro Hv; inversion Hv; subst; simpl.
    - constructor.
    - constructor. rewrite Forall_map. rewrite Forall_forall in *. auto.
    - constructor. apply sort_kv_Forall. rewrite Forall_map. simpl. rewrite Forall_forall in *. auto.
    - exact Hv.
  Qed.

  Lemma wfx_canon_x t : wfx t -> wfx (canon_x ltb t).
  Proof.
    induction t using xt_ind2; intro Hw; inversion Hw; subst; simpl.
    - exact Hw.
    - constructor. rewrite Forall_map. rewrite Forall_forall in *. auto.
    - constructor.
      + apply uniqb_sort. now rewrite uniqb_map.
      + apply sort_kv_Forall. rewrite Forall_map. simpl. rewrite Forall_forall in *. auto.
    - exact Hw.
  Qed.
End Canon.
