(* Proofs/JsonWitness.v — the hypotheses A1, A2 and CID of Props/C04.v are jointly satisfiable
   (so the theorems are not vacuous): a toy float formatter that writes the bit pattern in decimal,
   as an integer for integral floats below 1e21 and as "0.<bits>" otherwise, with its parser, and
   the identity as CID string form. *)
Require Import IP.Base.Bytes IP.DM.Value IP.Codec.Utf8 IP.Codec.Base64 IP.Codec.DagJson.
Require Import IP.Proofs.JsonUtf8 IP.Proofs.JsonInt IP.Proofs.JsonMain.
From Coq Require Import ZifyN ZifyNat ZifyBool.
Ltac Zify.zify_post_hook ::= Z.div_mod_to_equations.
Open Scope N_scope.

Fixpoint dval (ds : bytes) (acc : N) : N :=
  match ds with [] => acc | d :: r => dval r (acc * 10 + (d - 48)) end.

Lemma ndigits_dval f : forall n acc, n < 2 ^ N.of_nat f -> (1 <= f)%nat -> dval (ndigits f n acc) 0 = dval acc n.
Proof.
  induction f as [|f IH]; intros n acc Hn Hf; [inversion Hf|].
  cbn [ndigits]. destruct (N.ltb_spec n 10) as [L|L].
  - rewrite N.mod_small by assumption. cbn [dval]. f_equal. lia.
  - assert (Hn' : n / 10 < 2 ^ N.of_nat f) by (rewrite Nat2N.inj_succ, N.pow_succ_r' in Hn; lia).
    assert (Hf' : (1 <= f)%nat) by (destruct f; [cbn in Hn'; lia|lia]).
    rewrite IH by assumption. cbn [dval]. f_equal. lia.
Qed.

Lemma print_nat_dval n : dval (print_nat n) 0 = n.
Proof. unfold print_nat. rewrite ndigits_dval; [reflexivity|apply print_nat_fuel|lia]. Qed.

Definition toy_fmt (f : N) : bytes := if f64_integral_small f then print_nat f else 48 :: 46 :: print_nat f.
Definition toy_parse (t : bytes) : option N :=
  match t with
  | a :: b :: ds => if (a =? 48) && (b =? 46) then Some (dval ds 0) else Some (dval t 0)
  | _ => Some (dval t 0)
  end.

Lemma toy_A1 : A1 toy_fmt toy_parse.
Proof.
  intros f _. unfold toy_fmt. destruct (f64_integral_small f).
  - unfold toy_parse. destruct (print_nat_shape f) as (d & D & E & Hd & HD & _).
    pose proof (print_nat_dval f) as V. rewrite E in V |- *.
    destruct D as [|b D']; [now rewrite V|].
    inversion HD as [|b0 D0 Hb HD0]. unfold digit_c in Hb.
    destruct (N.eqb_spec b 46); [lia|]. rewrite andb_false_r. now rewrite V.
  - unfold toy_parse. cbn [N.eqb Pos.eqb andb]. now rewrite print_nat_dval.
Qed.

Lemma toy_A2 : A2 toy_fmt.
Proof.
  intros f _. unfold float_text_ok, toy_fmt. destruct (f64_integral_small f).
  - destruct (print_nat_shape f) as (d & D & E & Hd & HD & H1 & H0). rewrite E.
    assert (Dd : is_digit (48 + d) = true) by (apply is_digit_iff; unfold digit_c; lia).
    assert (ND : has_dot_or_e ((48 + d) :: D) = false).
    { unfold has_dot_or_e. apply not_true_is_false. intros Ex. apply existsb_exists in Ex. destruct Ex as (c & Hin & Hc).
      assert (digit_c c) by (destruct Hin as [<-|Hin]; [unfold digit_c; lia|rewrite Forall_forall in HD; now apply HD]).
      unfold digit_c, is_e in *. repeat ncase. }
    rewrite ND. cbn [negb]. rewrite andb_true_r. unfold json_number. rewrite Dd, orb_true_r. cbn [andb].
    unfold num_start. destruct (N.eqb_spec (48 + d) 45); [lia|].
    destruct (N.eqb_spec (48 + d) 48).
    + assert (D = []) as -> by (apply H0; destruct (N.eq_dec f 0); [assumption|lia]). reflexivity.
    + now rewrite (num_run_digits D HD).
  - destruct (print_nat_shape f) as (d & D & E & Hd & HD & _). rewrite E.
    unfold float_text_frac. cbn [json_number has_dot_or_e existsb int_prefix_len lead_digits N.eqb Pos.eqb is_digit].
    change (num_start 48) with SZero. cbn [num_run num_step N.eqb Pos.eqb].
    replace (is_digit (48 + d)) with true by (symmetry; apply is_digit_iff; unfold digit_c; lia).
    assert (R : forall D, Forall digit_c D -> num_run SFrac D = Some SFrac).
    { induction 1 as [|c r Hc _ IH]; [reflexivity|]. cbn [num_run num_step].
      replace (is_digit c) with true by (symmetry; now apply is_digit_iff). exact IH. }
    rewrite (R D HD). reflexivity.
Qed.

Lemma toy_CID : CID (fun c => c) (fun s => Some s) utf8_valid.
Proof. split; intros c H; [reflexivity|exact H]. Qed.

Theorem assumptions_consistent :
  exists fmt_float parse_float cid_str cid_parse cid_ok,
    A1 fmt_float parse_float /\ A2 fmt_float /\ CID cid_str cid_parse cid_ok.
Proof. do 5 eexists. split; [exact toy_A1|split; [exact toy_A2|exact toy_CID]]. Qed.
