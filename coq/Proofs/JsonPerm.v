(* Proofs/JsonPerm.v — the DAG-JSON codec in the shape the typed layers (Schema, Bind) consume:
     json_enc d   = the text dagjson.Encode writes for d (closed form: text of the key-sorted tree)
     json_dec b   = dagjson.Decode of b, demanding that all input is consumed
     json_within  = dag-json's domain: json_safe (finite floats, none integral below 1e21 on the
                    unrepaired tree, valid UTF-8 strings and keys, int64 ints, byte-valued bytes, defined
                    CIDs, distinct keys, none of the two reserved shapes) and decoder depth <= 1024
   (a) json_codec_perm : within the domain, decoding the encoder's output returns the tree up to map
       entry order (perm_eq of Proofs/CborEnc.v = peq of Schema/Perm.v), under A1, A2, CID;
   (b) json_enc_perm   : the encoding does not depend on map entry order, for trees without repeated keys.
   Derived from Proofs/JsonMain.v (C04_partial / C04_sorted_keys / C04_deterministic). *)
Require Import IP.Base.Bytes IP.DM.Value IP.Codec.Utf8 IP.Codec.Base64 IP.Codec.DagJson.
Require Import IP.Proofs.BytesFacts IP.Proofs.CborEnc.
Require Import IP.Proofs.JsonTok IP.Proofs.JsonUnm IP.Proofs.JsonEnc IP.Proofs.JsonSort IP.Proofs.JsonMain.
From Coq Require Import Permutation.
Open Scope N_scope.

(* what the decoder returns for the encoder's output is the value up to map entry order *)
Lemma pe_sort_maps v : perm_eq v (sortv v).
Proof.
  induction v as [| x | z | f | s | s | c | l IH | es IH] using dm_ind2; try apply pe_refl.
  - cbn [sort_maps]. apply pe_list. induction IH as [|x r Hx _ IHr]; cbn [map]; constructor; auto.
  - rewrite sortv_map. apply (pe_map es (map S_ es)); [|apply sort_prm].
    induction IH as [|x r Hx _ IHr]; cbn [map]; constructor; [split; [reflexivity|exact Hx]|exact IHr].
Qed.

(* trees that differ only in map entry order have the same key-sorted form *)
Theorem perm_eq_sort v1 : forall v2, perm_eq v1 v2 -> keys_nodup v1 -> sortv v1 = sortv v2.
Proof.
  induction v1 as [| x | z | f | s | s | c | l IH | es IH] using dm_ind2; intros v2 Hp Hnd;
    inversion Hp; subst; try reflexivity.
  - cbn [sort_maps]. f_equal. apply keys_nodup_list in Hnd. clear Hp.
    match goal with F : Forall2 perm_eq l _ |- _ => induction F as [|a b r r' Hab Hr IHr] end; [reflexivity|].
    inversion IH as [|? ? Ha IHt]; inversion Hnd as [|? ? Na Nt]; subst. cbn [map].
    f_equal; [exact (Ha _ Hab Na)|exact (IHr IHt Nt)].
  - rewrite !sortv_map. f_equal. apply keys_nodup_map in Hnd. destruct Hnd as [ND Hv].
    match goal with F : Forall2 _ es ?m2, P : Permutation ?m2 _ |- _ => rename m2 into mm; rename F into F2; rename P into Pm end.
    assert (E : map S_ es = map S_ mm).
    { clear Pm ND Hp. induction F2 as [|a b r r' [Hk Hab] Hr IHr]; [reflexivity|].
      inversion IH as [|? ? Ha IHt]; inversion Hv as [|? ? Na Nt]; subst. cbn [map]. f_equal; [|exact (IHr IHt Nt)].
      unfold S_. rewrite Hk. f_equal. exact (Ha _ Hab Na). }
    rewrite E. apply sort_inv.
    + unfold keys. rewrite keys_S. replace (map fst mm) with (map fst es); [exact ND|].
      clear -F2. induction F2 as [|a b r r' [Hk _] _ IHr]; [reflexivity|]. cbn [map]. now rewrite Hk, IHr.
    + now apply Permutation_map.
Qed.

Lemma json_safe_keys_nodup co gf v : json_safe co gf v = true -> keys_nodup v.
Proof.
  induction v as [| x | z | f | s | s | c | l IH | es IH] using dm_ind2; intros H; try exact I.
  - apply keys_nodup_list. cbn [json_safe] in H. rewrite forallb_forall in H.
    rewrite Forall_forall in *. intros x Hx. apply IH; auto.
  - apply keys_nodup_map. cbn [json_safe] in H. apply andb_true_iff in H. destruct H as [H H3].
    apply andb_true_iff in H. destruct H as [H1 _]. split; [now apply nodup_keys_NoDup|].
    rewrite forallb_forall in H3. rewrite Forall_forall in *. intros kv Hkv. specialize (H3 kv Hkv).
    apply andb_true_iff in H3. apply IH; tauto.
Qed.

Section JsonCodec.
  Variable fmt_float : N -> bytes.
  Variable parse_float : bytes -> option N.
  Variable cid_str : bytes -> bytes.
  Variable cid_parse : bytes -> option bytes.
  Variable cid_ok : bytes -> bool.

  Definition json_enc (d : dm) : bytes := text fmt_float cid_str (sortv d).
  Definition json_decode (b : bytes) : res jderr (dm * bytes) := jdecode parse_float cid_parse dagjson_dopts b.
  Definition json_dec {E} (other : E) (b : bytes) : res E dm :=
    match json_decode b with
    | Ok (d, []) => Ok d
    | _ => Err other
    end.

  Definition json_within (d : dm) : Prop := json_safe cid_ok nonintegral d = true /\ jdepth d <= 1024.

  (* the registered encoder (dagjson.Encode: links and bytes encoded, lexical key order) writes json_enc *)
  Lemma json_enc_is_encode d : encodable cid_ok d = true ->
    jenc fmt_float cid_str dagjson_eopts cid_ok d = Ok (json_enc d).
  Proof. apply enc_ok. Qed.

  (* (b) no hypothesis needed: the text is a function of the key-sorted tree *)
  Theorem json_enc_perm d d' : keys_nodup d -> perm_eq d d' -> json_enc d = json_enc d'.
  Proof. intros Hnd Hp. unfold json_enc. now rewrite (perm_eq_sort d d' Hp Hnd). Qed.

  Hypothesis HA1 : A1 fmt_float parse_float.
  Hypothesis HA2 : A2 fmt_float.
  Hypothesis HCID : CID cid_str cid_parse cid_ok.

  Theorem json_decode_encode d : json_within d -> json_decode (json_enc d) = Ok (sortv d, []).
  Proof.
    intros [Hs Hd]. destruct (partial_lemma fmt_float parse_float cid_str cid_parse cid_ok HA1 HA2 HCID d Hs Hd) as (bs & E & D).
    destruct (enc_ok_inv _ _ _ _ _ E) as [_ ->]. exact D.
  Qed.

  (* (a) *)
  Theorem json_codec_perm {E} (other : E) d : json_within d ->
    exists d', json_dec other (json_enc d) = Ok d' /\ perm_eq d d'.
  Proof.
    intros Hw. exists (sortv d). split; [|apply pe_sort_maps].
    unfold json_dec. now rewrite (json_decode_encode d Hw).
  Qed.
End JsonCodec.
