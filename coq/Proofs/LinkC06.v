(* Proofs/LinkC06.v — C06: whatever the storage does, a load that is not told to trust it returns
   only data that hashes to the link; a hash mismatch wins over anything the decoder says; read and
   open errors surface as errors; a store that does not succeed commits nothing. *)
Require Import IP.Base.Bytes IP.DM.Value IP.Codec.Cbor IP.Link.LinkSys IP.Link.LinkSpec.
Require Import IP.Proofs.BytesFacts IP.Proofs.LinkBase.
From Coq Require Import ZifyN ZifyNat ZifyBool.
Open Scope N_scope.

Section C06.
  Variable hasher_ok : N -> bool.
  Variable hash : N -> bytes -> bytes.     (* arbitrary: no collision-freedom, no length law *)
  Variable encoders : N -> option codec.
  Variable decoders : N -> option codec.

  Notation verify := (verify hash).
  Notation load_raw := (load_raw hasher_ok hash).
  Notation fill := (fill hasher_ok hash decoders).
  Notation load_plus_raw := (load_plus_raw hasher_ok hash decoders).
  Notation load_any := (load_any hasher_ok hash decoders).
  Notation store := (store hasher_ok hash encoders).

  (* -------------------------------------------------------------- LoadRaw: no codec law needed *)

  Lemma load_raw_ok ro l :
    lo_status (load_raw ro l) = SOk ->
    exists chunks, ro = RStream chunks TEof /\ verify l (concat chunks) = VOk /\
                   load_raw ro l = {| lo_status := SOk; lo_node := None; lo_raw := Some (concat chunks) |}.
  Proof.
    unfold LinkSys.load_raw.
    destruct (negb (hasher_ok _)); [discriminate|].
    destruct ro as [|chunks [|]]; try discriminate.
    destruct (verify l (concat chunks)) eqn:V; try discriminate. eauto.
  Qed.

  Lemma load_plus_raw_ok ro l :
    lo_status (load_plus_raw ro l) = SOk ->
    exists chunks c n p e, ro = RStream chunks TEof /\ verify l (concat chunks) = VOk /\
      decoders (lp_codec (link_proto l)) = Some c /\ c_dec c (concat chunks) = Some (n, p, e) /\
      load_plus_raw ro l = {| lo_status := SOk; lo_node := Some n; lo_raw := Some (concat chunks) |}.
  Proof.
    unfold LinkSys.load_plus_raw.
    destruct (decoders _) as [c|] eqn:C; [|discriminate].
    destruct (lo_status (load_raw ro l)) eqn:S.
    - destruct (load_raw_ok ro l S) as (chunks & -> & V & E). rewrite E. cbn [lo_raw lo_status].
      destruct (c_dec c (concat chunks)) as [[[n p] e]|] eqn:D; [|discriminate].
      intros _. exists chunks, c, n, p, e. auto.
    - rewrite S. intros; discriminate.
    - rewrite S. intros; discriminate.
  Qed.

  (* -------------------------------------------------------------- Fill needs the codec law *)

  Hypothesis Hlaw : registry_consumes_all decoders.

  Lemma fill_ok ro l :
    lo_status (fill false ro l) = SOk ->
    exists chunks c n p e, ro = RStream chunks TEof /\ verify l (concat chunks) = VOk /\
      decoders (lp_codec (link_proto l)) = Some c /\ c_dec c (concat chunks) = Some (n, p, e) /\
      fill false ro l = {| lo_status := SOk; lo_node := Some n; lo_raw := None |}.
  Proof.
    unfold LinkSys.fill.
    destruct (decoders _) as [c|] eqn:C; [|discriminate].
    destruct (negb (hasher_ok _)); [discriminate|].
    destruct ro as [|chunks t]; [discriminate|].
    unfold stream_dec.
    destruct (c_dec c (concat chunks)) as [[[n p] e]|] eqn:D.
    - destruct (Hlaw _ _ C _ _ _ _ D) as [-> ->].
      destruct t.
      + rewrite prefixN_all. destruct (verify l (concat chunks)) eqn:V; try discriminate.
        intros _. exists chunks, c, n, (lenN (concat chunks)), true. auto.
      + destruct (verify l (concat chunks)); discriminate.
    - destruct t; [|discriminate]. destruct (verify l (concat chunks)); discriminate.
  Qed.

  (* C06_sound *)
  Theorem sound f ro l :
    lo_status (load_any f false ro l) = SOk ->
    exists chunks,
      ro = RStream chunks TEof /\
      verify l (concat chunks) = VOk /\
      (forall n, lo_node (load_any f false ro l) = Some n ->
         exists c p e, decoders (lp_codec (link_proto l)) = Some c /\ c_dec c (concat chunks) = Some (n, p, e)) /\
      (forall raw, lo_raw (load_any f false ro l) = Some raw -> raw = concat chunks).
  Proof.
    destruct f; cbn [LinkSys.load_any]; intros S.
    - destruct (fill_ok ro l S) as (chunks & c & n & p & e & -> & V & C & D & E).
      exists chunks. rewrite E. cbn. repeat split; auto.
      + intros n0 H; inversion H; subst; eauto.
      + discriminate.
    - destruct (load_raw_ok ro l S) as (chunks & -> & V & E).
      exists chunks. rewrite E. cbn. repeat split; auto.
      + discriminate.
      + intros raw H; inversion H; auto.
    - destruct (load_plus_raw_ok ro l S) as (chunks & c & n & p & e & -> & V & C & D & E).
      exists chunks. rewrite E. cbn. repeat split; auto.
      + intros n0 H; inversion H; subst; eauto.
      + intros raw H; inversion H; auto.
    - destruct (fill_ok ro l S) as (chunks & c & n & p & e & -> & V & C & D & E).
      exists chunks. rewrite E. cbn. repeat split; auto.
      + intros n0 H; inversion H; subst; eauto.
      + discriminate.
  Qed.

  (* in link terms: the bytes the storage delivered build, under the link's own prototype, a link
     with the same binary form *)
  Corollary sound_binary f ro l :
    lo_status (load_any f false ro l) = SOk ->
    exists chunks l2,
      ro = RStream chunks TEof /\
      build_link (link_proto l) (hash (lp_mhtype (link_proto l)) (concat chunks)) = Some l2 /\
      link_binary l2 = link_binary l.
  Proof.
    intros S. destruct (sound f ro l S) as (chunks & -> & V & _).
    apply verify_ok_binary in V as (l2 & B & E). eauto.
  Qed.

  (* LoadRaw and LoadPlusRaw verify even when the storage is declared trusted *)
  Lemma raw_forms_ignore_trust f trusted ro l :
    f = FLoadRaw \/ f = FLoadPlusRaw -> load_any f trusted ro l = load_any f false ro l.
  Proof. intros [->| ->]; reflexivity. Qed.

  (* C06_precedence: when the delivered bytes do not hash to the link and nothing failed at the I/O
     level, every load form reports the hash mismatch — whether the decoder would fail early,
     succeed, or run past the item *)
  Theorem precedence f chunks l c :
    decoders (lp_codec (link_proto l)) = Some c ->
    hasher_ok (lp_mhtype (link_proto l)) = true ->
    verify l (concat chunks) = VMismatch ->
    load_any f false (RStream chunks TEof) l = lfail EHashMismatch.
  Proof.
    intros C H V.
    assert (F : fill false (RStream chunks TEof) l = lfail EHashMismatch).
    { unfold LinkSys.fill. rewrite C, H. cbn [negb]. unfold stream_dec.
      destruct (c_dec c (concat chunks)) as [[[n p] e]|] eqn:D.
      - destruct (Hlaw _ _ C _ _ _ _ D) as [-> ->]. now rewrite prefixN_all, V.
      - now rewrite V. }
    assert (R : load_raw (RStream chunks TEof) l = lfail EHashMismatch).
    { unfold LinkSys.load_raw. rewrite H. cbn [negb]. now rewrite V. }
    destruct f; cbn [LinkSys.load_any]; auto.
    unfold LinkSys.load_plus_raw. rewrite C, R. reflexivity.
  Qed.

  (* the same for a block on which BuildLink panics (digest longer than the hash output) *)
  Lemma precedence_panic f chunks l c :
    decoders (lp_codec (link_proto l)) = Some c ->
    hasher_ok (lp_mhtype (link_proto l)) = true ->
    verify l (concat chunks) = VPanic ->
    load_any f false (RStream chunks TEof) l = lpanic.
  Proof.
    intros C H V.
    assert (F : fill false (RStream chunks TEof) l = lpanic).
    { unfold LinkSys.fill. rewrite C, H. cbn [negb]. unfold stream_dec.
      destruct (c_dec c (concat chunks)) as [[[n p] e]|] eqn:D.
      - destruct (Hlaw _ _ C _ _ _ _ D) as [-> ->]. now rewrite prefixN_all, V.
      - now rewrite V. }
    assert (R : load_raw (RStream chunks TEof) l = lpanic).
    { unfold LinkSys.load_raw. rewrite H. cbn [negb]. now rewrite V. }
    destruct f; cbn [LinkSys.load_any]; auto.
    unfold LinkSys.load_plus_raw. rewrite C, R. reflexivity.
  Qed.

  (* C06_io: an open error or a read error anywhere in the stream never yields Ok, a node or bytes;
     untrusted loads report exactly the open / I/O error *)
  Theorem io_open f trusted l c :
    decoders (lp_codec (link_proto l)) = Some c ->
    hasher_ok (lp_mhtype (link_proto l)) = true ->
    load_any f trusted ROpenErr l = lfail EOpen.
  Proof.
    intros C H. destruct f; cbn [LinkSys.load_any]; unfold LinkSys.fill, LinkSys.load_plus_raw, LinkSys.load_raw;
      rewrite ?C, ?H; reflexivity.
  Qed.

  Theorem io_read f chunks l c :
    decoders (lp_codec (link_proto l)) = Some c ->
    hasher_ok (lp_mhtype (link_proto l)) = true ->
    load_any f false (RStream chunks TErr) l = lfail EIo.
  Proof.
    intros C H.
    assert (F : fill false (RStream chunks TErr) l = lfail EIo).
    { unfold LinkSys.fill. rewrite C, H. cbn [negb]. unfold stream_dec.
      destruct (c_dec c (concat chunks)) as [[[n p] e]|] eqn:D; [|reflexivity].
      destruct (Hlaw _ _ C _ _ _ _ D) as [-> ->]. reflexivity. }
    assert (R : load_raw (RStream chunks TErr) l = lfail EIo).
    { unfold LinkSys.load_raw. now rewrite H. }
    destruct f; cbn [LinkSys.load_any]; auto.
    unfold LinkSys.load_plus_raw. rewrite C, R. reflexivity.
  Qed.

  Theorem io_never_ok f trusted ro l :
    ro = ROpenErr \/ (exists chunks, ro = RStream chunks TErr) ->
    let o := load_any f trusted ro l in
    lo_status o <> SOk /\ lo_node o = None /\ lo_raw o = None.
  Proof.
    intros Hro o. subst o.
    assert (F : forall tr, let o := fill tr ro l in lo_status o <> SOk /\ lo_node o = None /\ lo_raw o = None).
    { intros tr. unfold LinkSys.fill.
      destruct (decoders _) as [c|] eqn:C; [|cbn; repeat split; discriminate].
      destruct (negb (hasher_ok _)); [cbn; repeat split; discriminate|].
      destruct Hro as [->|(chunks & ->)]; [cbn; repeat split; discriminate|].
      unfold stream_dec.
      destruct (c_dec c (concat chunks)) as [[[n p] e]|] eqn:D.
      - destruct (Hlaw _ _ C _ _ _ _ D) as [-> ->]. destruct tr; cbn; repeat split; discriminate.
      - destruct tr; cbn; repeat split; discriminate. }
    assert (R : let o := load_raw ro l in lo_status o <> SOk /\ lo_node o = None /\ lo_raw o = None).
    { unfold LinkSys.load_raw. destruct (negb (hasher_ok _)); [cbn; repeat split; discriminate|].
      destruct Hro as [->|(chunks & ->)]; cbn; repeat split; discriminate. }
    destruct f; cbn [LinkSys.load_any]; auto.
    unfold LinkSys.load_plus_raw. destruct (decoders _); [|cbn; repeat split; discriminate].
    destruct R as (R1 & R2 & R3). cbv zeta in *.
    destruct (lo_status (load_raw ro l)) eqn:S; [contradiction| |]; rewrite ?S; auto.
  Qed.

  (* -------------------------------------------------------------- NodeReifier *)

  Notation load_h := (load_h hasher_ok hash decoders).
  Notation reifier_handle := (reifier_handle hasher_ok hash decoders).

  (* the reifier is handed the link system the call was made on — same TrustedStorage, same opener *)
  Lemma reifier_handle_is_users rm f h l h' : reifier_handle rm f h l = Some h' -> h' = h.
  Proof.
    unfold LinkSys.reifier_handle. destruct rm; [discriminate| |];
      destruct (reifies f && _); intros E; inversion E; auto.
  Qed.

  (* ... only by Load and LoadPlusRaw, and only after the load itself succeeded *)
  Lemma reifier_invoked_only_after_ok rm f h l h' :
    reifier_handle rm f h l = Some h' ->
    (f = FLoad \/ f = FLoadPlusRaw) /\ lo_status (load_any f (h_trusted h) (h_open h l) l) = SOk.
  Proof.
    unfold LinkSys.reifier_handle, status_ok. destruct rm; [discriminate| |];
      (destruct f; cbn [reifies andb]; try discriminate;
       destruct (lo_status _); try discriminate; auto).
  Qed.

  Lemma load_h_ok rm f h l :
    lo_status (load_h rm f h l) = SOk ->
    load_h rm f h l = load_any f (h_trusted h) (h_open h l) l.
  Proof.
    unfold LinkSys.load_h. destruct rm; auto.
    destruct (reifies f && status_ok _); [discriminate|auto].
  Qed.

  (* C06_sound for every load made through a handle the library handed to a reifier — during the
     outer call or at any later time: unless the USER declared the storage trusted, such a load
     that reports success was given a complete stream that verifies against the link *)
  Theorem reifier_loads_sound rm f h l h' rm' f' l' :
    reifier_handle rm f h l = Some h' ->
    h_trusted h = false ->
    lo_status (load_h rm' f' h' l') = SOk ->
    exists chunks,
      h_open h l' = RStream chunks TEof /\
      verify l' (concat chunks) = VOk /\
      (forall n, lo_node (load_h rm' f' h' l') = Some n ->
         exists c p e, decoders (lp_codec (link_proto l')) = Some c /\ c_dec c (concat chunks) = Some (n, p, e)) /\
      (forall raw, lo_raw (load_h rm' f' h' l') = Some raw -> raw = concat chunks).
  Proof.
    intros R T S. apply reifier_handle_is_users in R. subst h'.
    pose proof (load_h_ok _ _ _ _ S) as E. rewrite E in S |- *. rewrite T in S |- *.
    exact (sound f' (h_open h l') l' S).
  Qed.

  (* -------------------------------------------------------------- store side *)

  (* C06_store_atomic: a store that does not report success leaves the storage as it was *)
  Theorem store_atomic latch sk w st lp v s st' :
    store latch sk w st lp v = (s, st') -> so_status s <> SOk -> st' = st.
  Proof.
    unfold LinkSys.store.
    destruct (encoders _) as [c|]; [|intros E; inversion E; auto].
    destruct (negb (hasher_ok _)); [intros E; inversion E; auto|].
    destruct (w_open_err w); [intros E; inversion E; auto|].
    destruct (c_enc c v) as [chunks|]; [|intros E; inversion E; auto].
    destruct (write_all _ _ _ _ _ _ _ _) as [[[wr hs] ee] la].
    destruct (ee || (latch && la)); [intros E; inversion E; auto|].
    destruct (build_link _ _); [|intros E; inversion E; auto].
    destruct (w_commit_err w); intros E; inversion E; subst; auto.
    cbn. intros N; contradiction N; reflexivity.
  Qed.

  (* ... in particular when the encoder refuses the value *)
  Corollary store_encode_error latch sk w st lp v c :
    encoders (lp_codec lp) = Some c -> hasher_ok (lp_mhtype lp) = true -> w_open_err w = false ->
    c_enc c v = None -> store latch sk w st lp v = (sfail EEncode, st).
  Proof. intros C H O E. unfold LinkSys.store. now rewrite C, H, O, E. Qed.

  (* With the write-error latch in Store, or with an encoder that reports failed writes: whatever
     the storage writer does (sticky or transient failures, short writes, any schedule), a store
     that gets as far as the committer — it reports Ok, or the committer's own error — has handed
     the writer exactly the encoder's output, and the link is the one ComputeLink gives. *)
  Theorem store_commits_whole latch sk w st lp v c chunks s st' :
    encoders (lp_codec lp) = Some c -> c_enc c v = Some chunks ->
    latch || negb (c_werr_ignored c) = true ->
    store latch sk w st lp v = (s, st') ->
    so_status s = SOk \/ so_status s = SErr ECommit ->
    s = {| so_status := so_status s;
           so_link := so_link (compute hasher_ok hash encoders lp v) |} /\
    so_status (compute hasher_ok hash encoders lp v) = SOk /\
    (so_status s = SOk ->
     exists l, so_link s = Some l /\ st' = put sk st (skey sk l) (concat chunks)).
  Proof.
    intros C E M. unfold LinkSys.store, LinkSys.compute. rewrite C, E.
    destruct (negb (hasher_ok _)); [intros X [S|S]; inversion X; subst; cbn in S; try discriminate; unfold wfail_class in S; destruct (first_short _ _ _ _); discriminate|].
    destruct (w_open_err w); [intros X [S|S]; inversion X; subst; cbn in S; try discriminate; unfold wfail_class in S; destruct (first_short _ _ _ _); discriminate|].
    destruct (write_all _ _ _ _ _ _ _ _) as [[[wr hs] ee] la] eqn:W.
    destruct ee; [intros X [S|S]; inversion X; subst; cbn in S; try discriminate; unfold wfail_class in S; destruct (first_short _ _ _ _); discriminate|]. cbn [orb].
    destruct (latch && la) eqn:L; [intros X [S|S]; inversion X; subst; cbn in S; try discriminate; unfold wfail_class in S; destruct (first_short _ _ _ _); discriminate|].
    destruct (write_all_clean _ _ _ _ _ _ _ _ _ _ M W L) as [-> ->].
    destruct (build_link _ _) as [l|]; [|intros X [S|S]; inversion X; subst; discriminate].
    destruct (w_commit_err w); intros X S; inversion X; subst; cbn; repeat split; auto.
    - intros Z; discriminate.
    - intros _. eauto.
  Qed.

  (* the capacity-limited (sticky) writer: running out of room during the output makes the store
     fail with the write error and commit nothing *)
  Theorem store_write_error latch sk w st lp v c chunks k :
    encoders (lp_codec lp) = Some c -> hasher_ok (lp_mhtype lp) = true -> w_open_err w = false ->
    latch || negb (c_werr_ignored c) = true ->
    c_enc c v = Some chunks -> w_cap w = Some k -> k < lenN (concat chunks) ->
    store latch sk w st lp v = (sfail (wfail_class w chunks), st).
  Proof.
    intros C H O M E K L. unfold LinkSys.store. rewrite C, H, O, E, K. cbn [negb].
    destruct (write_all _ _ _ _ _ _ _ _) as [[[wr hs] ee] la] eqn:W.
    destruct ee; [reflexivity|]. cbn [orb].
    destruct (latch && la) eqn:LL; [reflexivity|]. exfalso.
    destruct (write_all_clean _ _ _ _ _ _ _ _ _ _ M W LL) as [-> _].
    pose proof (write_all_cap _ _ k _ 0 _ _ _ _ _ _ _ (N.le_0_l k) W). lia.
  Qed.

  (* a write that fails outright, at any position of the schedule that the encoder reaches *)
  Theorem store_transient_write_error latch sk w st lp v c pre x post :
    encoders (lp_codec lp) = Some c -> hasher_ok (lp_mhtype lp) = true -> w_open_err w = false ->
    latch || negb (c_werr_ignored c) = true ->
    c_enc c v = Some (pre ++ x :: post) -> w_cap w = None ->
    nth_error (w_sched w) (length pre) = Some WFail ->
    so_status (fst (store latch sk w st lp v)) <> SOk /\ snd (store latch sk w st lp v) = st.
  Proof.
    intros C H O M E K F.
    destruct (store latch sk w st lp v) as [s st'] eqn:S. cbn [fst snd].
    assert (N : so_status s <> SOk).
    { intros Sok.
      destruct (store_commits_whole latch sk w st lp v c _ s st' C E M S (or_introl Sok)) as (_ & _ & Hput).
      clear Hput. revert S. unfold LinkSys.store. rewrite C, H, O, E, K. cbn [negb].
      destruct (write_all _ _ _ _ _ _ _ _) as [[[wr hs] ee] la] eqn:W.
      destruct ee; [intros X; inversion X; subst; cbn in *; discriminate|]. cbn [orb].
      destruct (latch && la) eqn:LL; [intros X; inversion X; subst; cbn in *; discriminate|]. intros _.
      (* a clean run contradicts the scheduled failure *)
      clear - M W LL F. revert wr hs F W. generalize (w_sched w) as sched. generalize 0 as used.
      intros used sched; revert sched used.
      induction pre as [|p pre IH]; intros sched used wr hs F; cbn [app write_all length] in *.
      - destruct sched as [|a sched]; [discriminate|]. cbn in F. inversion F; subst a.
        rewrite andb_false_r. cbn [andb orb negb tl]. destruct (c_werr_ignored c) eqn:I.
        + cbn in M. rewrite orb_false_r in M. subst latch.
          destruct (write_all true true None sched used false true post) as [[[w0 h0] e0] l0] eqn:R.
          intros X; inversion X; subst. cbn in LL. subst.
          apply write_all_latched in R as [R|R]; discriminate.
        + intros X; inversion X.
      - destruct sched as [|a sched]; [discriminate|]. cbn in F.
        rewrite andb_false_r. cbn [andb orb negb tl].
        assert (OKc : (let '(w0, h0, e0, l0) := write_all latch (c_werr_ignored c) None sched (used + lenN p) false false (pre ++ x :: post) in
                       (p ++ w0, p ++ h0, e0, l0)) = (wr, hs, false, la) -> False).
        { destruct (write_all latch (c_werr_ignored c) None sched (used + lenN p) false false (pre ++ x :: post)) as [[[w0 h0] e0] l0] eqn:R.
          intros X; inversion X; subst. eapply IH; eauto. }
        assert (BAD : forall used' q,
                  (if c_werr_ignored c then
                     let '(w0, h0, e0, l0) := write_all latch (c_werr_ignored c) None sched used' false true (pre ++ x :: post) in
                     (q ++ w0, h0, e0, l0)
                   else (q, [], true, true)) = (wr, hs, false, la) -> False).
        { intros used' q. destruct (c_werr_ignored c) eqn:I; [|intros X; inversion X].
          cbn in M. rewrite orb_false_r in M. subst latch.
          destruct (write_all true true None sched used' false true (pre ++ x :: post)) as [[[w0 h0] e0] l0] eqn:R.
          intros X; inversion X; subst. cbn in LL. subst.
          apply write_all_latched in R as [R|R]; discriminate. }
        destruct a as [| |n].
        + exact OKc.
        + intros X. apply (BAD used []). destruct (c_werr_ignored c); [|exact X].
          destruct (write_all latch true None sched used false true (pre ++ x :: post)) as [[[w0 h0] e0] l0]. exact X.
        + destruct (lenN p <=? n); [exact OKc|]. apply BAD. }
    split; [exact N|]. eapply store_atomic; eauto.
  Qed.
End C06.

(* ------------------------------------------------------------------ the law for the codecs modelled *)

Lemma raw_consumes_all : consumes_all raw_codec.
Proof. intros bs v n e H. cbn in H. inversion H; auto. Qed.

Lemma cbor_family_consumes_all links sm rt : consumes_all (cbor_family_codec links sm rt).
Proof.
  intros bs v n e. cbn [cbor_family_codec c_dec]. unfold decode.
  destruct (dec_val _ _ _ _ _ _ _) as [[[v0 b0] rest]|]; [|discriminate].
  cbn [cbor_dopts d_dont_parse_beyond].
  destruct rest; [|discriminate]. intros H; inversion H; subst. split; [|reflexivity].
  unfold lenN at 2. cbn. lia.
Qed.

Lemma default_registry_consumes_all rt dagjson json :
  consumes_all dagjson -> consumes_all json ->
  registry_consumes_all (default_registry rt dagjson json).
Proof.
  intros Hd Hj code c. unfold default_registry.
  destruct (code =? 113); [intros E; inversion E; apply cbor_family_consumes_all|].
  destruct (code =? 81); [intros E; inversion E; apply cbor_family_consumes_all|].
  destruct (code =? 85); [intros E; inversion E; apply raw_consumes_all|].
  destruct (code =? 297); [intros E; inversion E; subst; exact Hd|].
  destruct (code =? 512); [intros E; inversion E; subst; exact Hj|discriminate].
Qed.

(* ------------------------------------------------------------------ witnesses *)

(* toy instance used by the satisfiability examples and the refutations: every multihash type has
   a hasher, the "hash" is the length of the input followed by its first byte *)
Definition toy_hash (_ : N) (bs : bytes) : bytes := [lenN bs; match bs with b :: _ => b | [] => 0 end].
Definition toy_ok (_ : N) : bool := true.
Definition toy_lp : lproto := {| lp_version := 1; lp_codec := 85; lp_mhtype := 18; lp_mhlen := -1 |}.

(* an encoder that writes two one-byte chunks and ignores write errors (as refmt's JSON encoder
   does), under a registry that knows only it *)
Definition sloppy_codec : codec :=
  {| c_enc := fun _ => Some [[1]; [2]]; c_dec := fun _ => None; c_werr_ignored := true |}.

(* the pinned tree: with an encoder that drops write errors, a store whose writer failed reports
   success and commits the truncated block *)
Lemma store_write_error_refuted :
  exists (encoders : N -> option codec) w lp v s st',
    store toy_ok toy_hash encoders false memstore_kind w [] lp v = (s, st') /\
    w_cap w = Some 1 /\ (exists c chunks, encoders (lp_codec lp) = Some c /\ c_enc c v = Some chunks /\
                                          1 < lenN (concat chunks)) /\
    so_status s = SOk /\ st' <> [].
Proof.
  exists (fun _ => Some sloppy_codec), {| w_open_err := false; w_cap := Some 1; w_sched := []; w_commit_err := false |},
    toy_lp, DNull.
  eexists. eexists. split; [vm_compute; reflexivity|].
  split; [reflexivity|]. split; [exists sloppy_codec, [[1]; [2]]; repeat split; vm_compute; reflexivity|].
  split; [reflexivity|discriminate].
Qed.

(* the codec law is needed: a decoder that succeeds without pulling the whole stream lets Fill
   return a node for a block that does not hash to the link *)
Definition lazy_codec : codec :=
  {| c_enc := fun _ => Some [[]]; c_dec := fun _ => Some (DNull, 0, false); c_werr_ignored := false |}.

Lemma sound_needs_consumes_all :
  exists (decoders : N -> option codec) l chunks,
    lo_status (fill toy_ok toy_hash decoders false (RStream chunks TEof) l) = SOk /\
    verify toy_hash l (concat chunks) = VMismatch.
Proof.
  exists (fun _ => Some lazy_codec),
    {| l_v0 := false; l_codec := 85; l_mhtype := 18; l_digest := [0; 0] |}, [[7; 7; 7]].
  split; vm_compute; reflexivity.
Qed.

(* the hypotheses of the theorems above are satisfiable: with the raw codec, a block that hashes to
   its link loads; a corrupted one is a mismatch *)
Definition toy_registry := default_registry true raw_codec raw_codec.
Definition toy_link : link := {| l_v0 := false; l_codec := 85; l_mhtype := 18; l_digest := [3; 9] |}.

Example sound_hyp_sat :
  lo_status (load_any toy_ok toy_hash toy_registry FLoad false (RStream [[9]; [8; 7]] TEof) toy_link) = SOk.
Proof. vm_compute. reflexivity. Qed.

Example precedence_hyp_sat :
  toy_registry (lp_codec (link_proto toy_link)) = Some raw_codec /\
  toy_ok (lp_mhtype (link_proto toy_link)) = true /\
  verify toy_hash toy_link (concat [[9]; [8]]) = VMismatch.
Proof. vm_compute. auto. Qed.

Example store_atomic_hyp_sat :
  exists s st', store toy_ok toy_hash toy_registry true memstore_kind honest_w [] toy_lp DNull = (s, st') /\
                so_status s <> SOk.
Proof. eexists. eexists. split; [vm_compute; reflexivity|discriminate]. Qed.

Example toy_registry_law : registry_consumes_all toy_registry.
Proof. apply default_registry_consumes_all; apply raw_consumes_all. Qed.

Example store_write_error_hyp_sat :
  toy_registry (lp_codec toy_lp) = Some raw_codec /\ toy_ok (lp_mhtype toy_lp) = true /\
  c_werr_ignored raw_codec = false /\ c_enc raw_codec (DBytes [1; 2; 3]) = Some [[1; 2; 3]] /\
  1 < lenN (concat [[1; 2; 3]]) /\
  store toy_ok toy_hash toy_registry true memstore_kind
        {| w_open_err := false; w_cap := Some 1; w_sched := []; w_commit_err := false |} [] toy_lp (DBytes [1; 2; 3])
  = (sfail EIo, []).
Proof. vm_compute. repeat split; reflexivity. Qed.

Example io_read_hyp_sat :
  load_any toy_ok toy_hash toy_registry FFill false (RStream [[9]; [8; 7]] TErr) toy_link = lfail EIo.
Proof. vm_compute. reflexivity. Qed.

(* the pinned tree, transient failure: one failing write in the middle (later writes succeed) and
   an encoder that ignores it — Store reports success for a block with a hole, under a link that
   is not ComputeLink's *)
Definition sloppy3_codec : codec :=
  {| c_enc := fun _ => Some [[1]; [2]; [3]]; c_dec := fun _ => None; c_werr_ignored := true |}.

Lemma store_transient_refuted :
  let encoders := fun _ : N => Some sloppy3_codec in
  let w := {| w_open_err := false; w_cap := None; w_sched := [WOk; WFail]; w_commit_err := false |} in
  exists l st',
    store toy_ok toy_hash encoders false memstore_kind w [] toy_lp DNull =
      ({| so_status := SOk; so_link := Some l |}, st') /\
    lookup st' (skey memstore_kind l) = Some [1; 3] /\
    so_link (compute toy_ok toy_hash encoders toy_lp DNull) <> Some l.
Proof. cbv zeta. eexists. eexists. split; [vm_compute; reflexivity|]. split; [vm_compute; reflexivity|]. vm_compute. discriminate. Qed.

(* ... and with the latch the same scenario fails and commits nothing *)
Example store_transient_hyp_sat :
  let encoders := fun _ : N => Some sloppy3_codec in
  let w := {| w_open_err := false; w_cap := None; w_sched := [WOk; WFail]; w_commit_err := false |} in
  store toy_ok toy_hash encoders true memstore_kind w [] toy_lp DNull = (sfail EIo, []).
Proof. vm_compute. reflexivity. Qed.
