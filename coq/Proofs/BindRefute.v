(* Proofs/BindRefute.v — where the pinned tree falls short of C19, as closed computations on the
   faithful model (each witness is also a case of the harness corpus), the repaired behaviour of
   the three switchable defects, and the Marshal/Unmarshal round trip through an abstract codec. *)
Require Import IP.Base.Bytes IP.DM.Value IP.Bind.GoVal IP.Bind.Bind IP.Bind.Spec.
Require Import IP.Proofs.BindFacts IP.Proofs.BindView IP.Proofs.BindAsm.
Open Scope N_scope.

Definition fA : bytes := [65].
Definition fV : bytes := [86].
Definition fL : bytes := [76].
Definition fE : bytes := [69].

(* ---- integer narrowing on assembly (node.go AssignInt / assignUInt: "TODO: check for overflow") *)

Definition t_narrow : sty := TStruct [78] [(fA, fA, TInt, false, false)] SRMap.
Definition s_narrow : shape := SStruct [78] [(fA, SInt I8)].          (* struct { A int8 } *)
Definition d_300 : dm := DMap [(fA, DInt 300)].

Lemma narrowing_refuted : forall n32,
  verify_compat t_narrow s_narrow = true /\
  asm pinned LType n32 t_narrow s_narrow (zero_of s_narrow) false d_300 = Ok (GStruct [GInt 44]) /\
  view pinned LType t_narrow s_narrow (GStruct [GInt 44]) = Ok (DMap [(fA, DInt 44)]) /\
  DMap [(fA, DInt 44)] <> d_300.
Proof. intros. repeat split. discriminate. Qed.

Lemma narrowing_repaired : forall n32,
  asm repaired LType n32 t_narrow s_narrow (zero_of s_narrow) false d_300 = Err XRange.
Proof. reflexivity. Qed.

(* with the range check, an integer that is stored reads back as itself *)
Lemma asm_int_checked : forall q s z g, q_range_check q = true -> asm_int q s z = Ok g ->
  exists k, deref1 s = SInt k /\ ik_in k z = true /\ g = put s (GInt z).
Proof.
  intros q s z g Hq H. unfold asm_int in H. rewrite Hq in H. cbn [andb] in H.
  destruct (deref1 s) as [|k| | | | | | | | |] eqn:Es; try discriminate.
  exists k. split; [reflexivity|].
  destruct (if q_ptr_uint q then ik_unsigned k else match s with SInt k' => ik_unsigned k' | _ => false end).
  - destruct (z <? 0)%Z; [discriminate|].
    destruct (ik_in k z) eqn:Hin; simpl in H; [|discriminate].
    rewrite (ik_narrow_in k z Hin) in H. inversion H. auto.
  - destruct (ik_unsigned k) eqn:Hu; [discriminate|].
    destruct (ik_in k z) eqn:Hin; simpl in H; [|discriminate].
    assert ((two63z <=? z)%Z = false) as E.
    { apply Z.leb_gt. pose proof (signed_below_two63 k z Hu Hin) as L. apply Z.ltb_lt in L. exact L. }
    rewrite E in H. rewrite (ik_narrow_in k z Hin) in H. inversion H. auto.
Qed.

(* ---- a Go uint (kind Uint, not Uint64) above MaxInt64 cannot be read ------------------------ *)

Definition t_bigu : sty := TStruct [66] [(fV, fV, TInt, false, false)] SRMap.
Definition s_bigu : shape := SStruct [66] [(fV, SInt UInt)].          (* struct { V uint } *)
Definition g_bigu : gv := GStruct [GInt 9223372036854775813].          (* 1<<63 + 5 *)

Lemma uint_kind_refuted : forall n32,
  verify_compat t_bigu s_bigu = true /\ gv_ok repaired n32 t_bigu s_bigu g_bigu = true /\
  view pinned LType t_bigu s_bigu g_bigu = Err XOverflow /\
  view repaired LType t_bigu s_bigu g_bigu = Ok (denote LType t_bigu g_bigu).
Proof. intros. repeat split. Qed.

(* ---- accepted by verifyCompatibility, outside [bindable] ------------------------------------- *)

(* nullable Int bound to *uint8: AssignInt takes the SetInt branch and panics in reflect *)
Definition t_nulu : sty := TStruct [78] [(fV, fV, TInt, false, true)] SRMap.
Definition s_nulu : shape := SStruct [78] [(fV, SPtr (SInt U8))].
Lemma nullable_uint_refuted : forall n32,
  verify_compat t_nulu s_nulu = true /\ bindable t_nulu s_nulu = false /\
  asm pinned LType n32 t_nulu s_nulu (zero_of s_nulu) false (DMap [(fV, DInt 5)]) = Err PReflect.
Proof. intros. repeat split. Qed.

(* optional [String] bound to a plain slice: a present empty list comes back absent *)
Definition t_optl : sty := TStruct [79] [(fL, fL, TList [] TString false, true, false)] SRMap.
Definition s_optl : shape := SStruct [79] [(fL, SSlice [] SString)].
Lemma optional_slice_refuted : forall n32,
  verify_compat t_optl s_optl = true /\ bindable t_optl s_optl = false /\
  view pinned LRepr t_optl s_optl (GStruct [GSlice []]) = Ok (DMap [(fL, DList [])]) /\
  asm pinned LRepr n32 t_optl s_optl (zero_of s_optl) false (DMap [(fL, DList [])]) = Ok (GStruct [GNil]) /\
  view pinned LRepr t_optl s_optl (GStruct [GNil]) = Ok (DMap []).
Proof. intros. repeat split. Qed.

(* enum with an int representation bound to a Go int: the type-level node reads "<int Value>",
   the type-level builder panics *)
Definition t_enum : sty :=
  TStruct [69] [(fE, fE, TEnum [67] [([82], [82], 1%Z); ([71], [71], 2%Z)] ERInt, false, false)] SRMap.
Definition s_enum : shape := SStruct [69] [(fE, SInt IInt)].
Lemma int_enum_refuted : forall n32,
  verify_compat t_enum s_enum = true /\ bindable t_enum s_enum = false /\
  view pinned LType t_enum s_enum (GStruct [GInt 2]) = Ok (DMap [(fE, DString (reflect_nonstring IInt))]) /\
  denote LType t_enum (GStruct [GInt 2]) = DMap [(fE, DString [71])] /\
  asm pinned LType n32 t_enum s_enum (zero_of s_enum) false (DMap [(fE, DString [71])]) = Err PReflect.
Proof. intros. repeat split. Qed.

(* ---- Marshal / Unmarshal through a codec ----------------------------------------------------- *)

Section Marshal.
  Variable q : quirks.
  Variable n32 : N -> N.
  (* any codec whose decoder returns what the encoder was given (for instance DAG-CBOR with map
     sorting off; the key-sorting default only permutes map entries) *)
  Variable enc : dm -> bytes.
  Variable dec : bytes -> bres dm.
  Hypothesis codec_rt : forall d, dec (enc d) = Ok d.

  Definition marshal (t : sty) (s : shape) (g : gv) : bres bytes :=
    do d <- view q LRepr t s g; Ok (enc d).
  Definition unmarshal (t : sty) (s : shape) (b : bytes) : bres gv :=
    do d <- dec b; asm q LRepr n32 t s (zero_of s) false d.

  Theorem marshal_roundtrip : forall t s g,
    is_any t = false -> bindable t s = true -> gv_ok q n32 t s g = true ->
    fits q LRepr n32 t s (denote LRepr t g) = true ->
    exists b g',
      marshal t s g = Ok b /\ unmarshal t s b = Ok g' /\
      gv_ok q n32 t s g' = true /\
      denote LRepr t g' = denote LRepr t g /\
      view q LRepr t s g' = view q LRepr t s g.
  Proof.
    intros t s g Hany Hb Hg Hfit.
    pose proof (view_denote q LRepr n32 t Hany s g Hb Hg) as Hv.
    pose proof (bindable_noptr _ _ Hb) as Hnp.
    assert (Hloc : loc_ok (fun _ => bindable t) t s = true)
      by (destruct s; simpl in *; try assumption; discriminate).
    assert (Hd : deref1 s = s) by (destruct s; simpl in *; try reflexivity; discriminate).
    rewrite <- Hd in Hfit.
    destruct (asm_denote q n32 LRepr t s (denote LRepr t g) Hloc Hfit) as [g' [Ha [Hok Hden]]].
    assert (Hok' : gv_ok q n32 t s g' = true).
    { unfold ok_loc in Hok. destruct s; simpl in *; try assumption; discriminate. }
    exists (enc (denote LRepr t g)), g'.
    unfold marshal, unmarshal. rewrite Hv. cbn [bind]. rewrite codec_rt. cbn [bind].
    repeat split; try assumption.
    rewrite (view_denote q LRepr n32 t Hany s g' Hb Hok'). rewrite Hden. reflexivity.
  Qed.
End Marshal.

(* the hypotheses are satisfiable: struct { X int64; Y string } with a value *)
Definition t_inner : sty := TStruct [73] [([88], [120], TInt, false, false); ([89], [89], TString, false, false)] SRMap.
Definition s_inner : shape := SStruct [73] [([88], SInt I64); ([89], SString)].
Definition g_inner : gv := GStruct [GInt 7; GString [97; 98]].
Example marshal_hyps_sat : forall q n32,
  is_any t_inner = false /\ bindable t_inner s_inner = true /\ gv_ok q n32 t_inner s_inner g_inner = true /\
  fits q LRepr n32 t_inner s_inner (denote LRepr t_inner g_inner) = true.
Proof. intros. repeat split. Qed.
