(* Proofs/CborBound.v — C10 (decoder part): the value a successful decode builds is no deeper than
   the configured maximum, and what it cost against the allocation budget is exactly [cost v],
   which therefore never exceeds the budget. *)
Require Import IP.Base.Bytes IP.DM.Value IP.Codec.Cid IP.Codec.Cbor IP.Gen.FromGo.
Require Import IP.Proofs.BytesFacts IP.Proofs.CborEnc IP.Proofs.CborDec.
From Coq Require Import ZifyN ZifyNat ZifyBool.
Ltac Zify.zify_post_hook ::= Z.div_mod_to_equations.
Open Scope N_scope.

Section Bound.
  Variable o : dopts.
  Local Notation maxd := (max_depth o).

  Definition okb (bud b : Z) (pre : option Z) (c : Z) : Prop :=
    (b = bud - pcost pre - c)%Z /\ (0 <= pcost pre + c -> 0 < pcost pre + c -> 0 <= b)%Z.

  Definition B_val (f : nat) : Prop := forall depth bud pre tag bs v b r,
    dec_val f o depth bud pre tag bs = Ok (v, b, r) ->
    (depth <= maxd -> depth + Z.of_nat (dm_depth v) <= maxd)%Z /\
    (b = bud - pcost pre - cost v)%Z /\ (0 <= pcost pre -> 0 <= bud -> 0 <= b)%Z.
  Definition isum (l : list dm) : Z := fold_right (fun x a => go_listEntryCost + cost x + a)%Z 0%Z l.
  Definition esum (l : list (bytes * dm)) : Z :=
    fold_right (fun kv a => Z.of_N (lenN (fst kv)) + go_mapEntryCost + cost (snd kv) + a)%Z 0%Z l.
  Definition B_items (f : nat) : Prop := forall depth bud n bs vs b r,
    dec_items f o depth bud n bs = Ok (vs, b, r) ->
    (depth + 1 <= maxd -> Forall (fun x => depth + 1 + Z.of_nat (dm_depth x) <= maxd) vs)%Z /\
    (b = bud - isum vs)%Z /\ (0 <= bud -> 0 <= b)%Z.
  Definition B_ents (f : nat) : Prop := forall depth bud n seen bs vs b r,
    dec_entries f o depth bud n seen bs = Ok (vs, b, r) ->
    (depth + 1 <= maxd -> Forall (fun kv => depth + 1 + Z.of_nat (dm_depth (snd kv)) <= maxd) vs)%Z /\
    (b = bud - esum vs)%Z /\ (0 <= bud -> 0 <= b)%Z.

  Lemma spend_inv bud c b : spend bud c = Ok b -> (b = bud - c /\ 0 <= b)%Z.
  Proof. unfold spend. destruct (Z.ltb_spec (bud - c) 0); [discriminate|]. intros E; inversion E; lia. Qed.

  Lemma prespend_inv bud pre b : prespend bud pre = Ok b -> (b = bud - pcost pre /\ (0 <= bud -> 0 <= b))%Z.
  Proof.
    destruct pre as [c|]; cbn [prespend pcost]; [intros H; apply spend_inv in H; lia|].
    intros E; inversion E; lia.
  Qed.

  Lemma post_inv bud pre tag k x : post o bud pre tag k = Ok x ->
    exists b1, (b1 = bud - pcost pre /\ (0 <= bud -> 0 <= b1))%Z /\ k b1 = Ok x.
  Proof.
    unfold post. destruct (prespend bud pre) as [b1|] eqn:E; cbn [bind]; [|discriminate].
    apply prespend_inv in E. destruct tag; [destruct (d_reject_tags o); [discriminate|]|]; eauto.
  Qed.

  Lemma fold_max_Forall (l : list dm) (d : Z) :
    Forall (fun x => d + 1 + Z.of_nat (dm_depth x) <= maxd)%Z l -> (d + 1 <= maxd)%Z ->
    (d + Z.of_nat (S (fold_right (fun x a => Nat.max (dm_depth x) a) 0%nat l)) <= maxd)%Z.
  Proof. induction 1 as [|x r Hx _ IH]; cbn [fold_right]; intros; [lia|]. specialize (IH H). lia. Qed.

  Lemma fold_max_Forall_e (l : list (bytes * dm)) (d : Z) :
    Forall (fun kv => d + 1 + Z.of_nat (dm_depth (snd kv)) <= maxd)%Z l -> (d + 1 <= maxd)%Z ->
    (d + Z.of_nat (S (fold_right (fun kv a => Nat.max (dm_depth (snd kv)) a) 0%nat l)) <= maxd)%Z.
  Proof. induction 1 as [|x r Hx _ IH]; cbn [fold_right]; intros; [lia|]. specialize (IH H). lia. Qed.

  Lemma bound_step f : B_val f -> B_items f -> B_ents f -> B_val (S f) /\ B_items (S f) /\ B_ents (S f).
  Proof.
    intros IHv IHi IHe. split; [|split].
    - intros depth bud pre tag bs v b r. cbn [dec_val]. unfold dec_val_body.
      destruct bs as [|b0 t]; [discriminate|].
      destruct ((b0 =? 246) || (b0 =? 247)).
      { intros HH. apply post_inv in HH as (b1 & Hb1 & HH). inversion HH; subst. cbn [dm_depth cost]. lia. }
      destruct (b0 =? 244).
      { intros HH. apply post_inv in HH as (b1 & Hb1 & HH). destruct (spend b1 1) eqn:Es; cbn [bind] in HH; [|discriminate].
        apply spend_inv in Es. inversion HH; subst. cbn [dm_depth cost]. lia. }
      destruct (b0 =? 245).
      { intros HH. apply post_inv in HH as (b1 & Hb1 & HH). destruct (spend b1 1) eqn:Es; cbn [bind] in HH; [|discriminate].
        apply spend_inv in Es. inversion HH; subst. cbn [dm_depth cost]. lia. }
      destruct ((b0 =? 249) || (b0 =? 250) || (b0 =? 251)).
      { destruct (take _ t) as [[x r1]|]; [|discriminate]. destruct (check_float _ _); [|discriminate].
        intros HH. apply post_inv in HH as (b1 & Hb1 & HH). destruct (spend b1 1) eqn:Es; cbn [bind] in HH; [|discriminate].
        apply spend_inv in Es. inversion HH; subst. cbn [dm_depth cost]. lia. }
      destruct ((b0 =? 95) || (b0 =? 127) || (b0 =? 159) || (b0 =? 191)); [discriminate|].
      destruct (224 <=? b0); [discriminate|].
      destruct (dec_arg _ (b0 mod 32) t) as [[a r1]|]; [|discriminate].
      generalize (b0 / 32). intros mj. unfold dec_major.
      destruct (mj =? 0).
      { intros HH. apply post_inv in HH as (b1 & Hb1 & HH). destruct (spend b1 1) eqn:Es; cbn [bind] in HH; [|discriminate].
        apply spend_inv in Es. inversion HH; subst. cbn [dm_depth cost]. lia. }
      destruct (mj =? 1).
      { destruct (two63 <? _); [discriminate|].
        intros HH. apply post_inv in HH as (b1 & Hb1 & HH). destruct (spend b1 1) eqn:Es; cbn [bind] in HH; [|discriminate].
        apply spend_inv in Es. inversion HH; subst. cbn [dm_depth cost]. lia. }
      destruct (two63 <=? a); [discriminate|].
      destruct (mj =? 2).
      { destruct (str_cap <? a); [discriminate|]. destruct (take a r1) as [[s r2]|] eqn:Et; [|discriminate].
        apply take_some in Et as [_ Hl].
        destruct (prespend bud pre) as [b1|] eqn:Ep; cbn [bind]; [|discriminate]. apply prespend_inv in Ep.
        destruct (spend b1 _) as [b2|] eqn:Es; cbn [bind]; [|discriminate]. apply spend_inv in Es.
        destruct tag.
        - destruct (_ && _); [|discriminate]. destruct s as [|[|p] c]; try discriminate.
          destruct (cid_valid c); [|discriminate]. intros HH; inversion HH; subst. cbn [dm_depth cost].
          rewrite ?lenN_cons in *. lia.
        - intros HH; inversion HH; subst. cbn [dm_depth cost]. lia. }
      destruct (mj =? 3).
      { destruct (str_cap <? a); [discriminate|]. destruct (take a r1) as [[s r2]|] eqn:Et; [|discriminate].
        apply take_some in Et as [_ Hl].
        intros HH. apply post_inv in HH as (b1 & Hb1 & HH). destruct (spend b1 _) eqn:Es; cbn [bind] in HH; [|discriminate].
        apply spend_inv in Es. inversion HH; subst. cbn [dm_depth cost]. lia. }
      destruct (mj =? 4).
      { intros HH. apply post_inv in HH as (b1 & Hb1 & HH).
        destruct (Z.leb_spec maxd depth); [discriminate|].
        destruct (spend b1 _) as [b2|] eqn:Es; cbn [bind] in HH; [|discriminate]. apply spend_inv in Es.
        destruct (dec_items f o depth b2 a r1) as [[[vs b3] r3]|] eqn:Ed; cbn [bind] in HH; [|discriminate].
        inversion HH; subst. destruct (IHi _ _ _ _ _ _ _ Ed) as (Hd & Hb & Hn).
        assert (Hlen : lenN vs = a).
        { clear - Ed. revert depth b2 a r1 b r Ed. generalize f. intros f0. revert vs.
          induction f0 as [|f0 IH]; intros vs depth b2 a r1 b r; cbn [dec_items]; [discriminate|]. unfold dec_items_body.
          destruct (N.eqb_spec a 0) as [->|]; [intros E; inversion E; reflexivity|].
          destruct (dec_val f0 o _ _ _ _ r1) as [[[v bb] rr]|]; cbn [bind]; [|discriminate].
          destruct (dec_items f0 o depth bb (a - 1) rr) as [[[vs' b3] r3]|] eqn:E2; cbn [bind]; [|discriminate].
          intros E; inversion E; subst. apply IH in E2. rewrite lenN_cons. lia. }
        cbn [dm_depth cost]. fold (isum vs). split; [|split; lia].
        intros _. apply fold_max_Forall; [apply Hd|]; lia. }
      destruct (mj =? 5).
      { intros HH. apply post_inv in HH as (b1 & Hb1 & HH).
        destruct (Z.leb_spec maxd depth); [discriminate|].
        destruct (spend b1 _) as [b2|] eqn:Es; cbn [bind] in HH; [|discriminate]. apply spend_inv in Es.
        destruct (dec_entries f o depth b2 a [] r1) as [[[vs b3] r3]|] eqn:Ed; cbn [bind] in HH; [|discriminate].
        inversion HH; subst. destruct (IHe _ _ _ _ _ _ _ _ Ed) as (Hd & Hb & Hn).
        assert (Hlen : lenN vs = a).
        { clear - Ed. revert Ed. generalize (@nil bytes). revert depth b2 a r1 b r. generalize f. intros f0. revert vs.
          induction f0 as [|f0 IH]; intros vs depth b2 a r1 b r seen; cbn [dec_entries]; [discriminate|]. unfold dec_entries_body.
          destruct (N.eqb_spec a 0) as [->|]; [intros E; inversion E; reflexivity|].
          destruct (dec_key _ _ r1) as [[k bs1]|]; [|discriminate].
          destruct (spend b2 _); cbn [bind]; [|discriminate]. destruct (existsb _ seen); [discriminate|].
          destruct (dec_val f0 o _ _ _ _ bs1) as [[[v bb] rr]|]; cbn [bind]; [|discriminate].
          destruct (dec_entries f0 o depth bb (a - 1) (k :: seen) rr) as [[[vs' b3] r3]|] eqn:E2; cbn [bind]; [|discriminate].
          intros E; inversion E; subst. apply IH in E2. rewrite lenN_cons. lia. }
        cbn [dm_depth cost]. fold (esum vs). split; [|split; lia].
        intros _. apply fold_max_Forall_e; [apply Hd|]; lia. }
      destruct tag; [discriminate|].
      intros HH. apply IHv in HH. exact HH.
    - intros depth bud n bs vs b r. cbn [dec_items]. unfold dec_items_body.
      destruct (n =? 0); [intros E; inversion E; subst; cbn; repeat split; auto; lia|].
      destruct (dec_val f o (depth + 1) bud (Some go_listEntryCost) None bs) as [[[v b2] bs2]|] eqn:Ed; cbn [bind]; [|discriminate].
      destruct (IHv _ _ _ _ _ _ _ _ Ed) as (Hd & Hb & Hn).
      destruct (dec_items f o depth b2 (n - 1) bs2) as [[[vs' b3] bs3]|] eqn:Ed2; cbn [bind]; [|discriminate].
      destruct (IHi _ _ _ _ _ _ _ Ed2) as (Hd2 & Hb2 & Hn2).
      intros E; inversion E; subst. cbn [pcost] in *. unfold isum in *. cbn [fold_right].
      split; [intros Hm; constructor; [apply Hd; lia|apply Hd2; exact Hm]|].
      unfold go_listEntryCost in *. split; lia.
    - intros depth bud n seen bs vs b r. cbn [dec_entries]. unfold dec_entries_body.
      destruct (n =? 0); [intros E; inversion E; subst; cbn; repeat split; auto; lia|].
      destruct (dec_key _ _ bs) as [[k bs1]|] eqn:Ek; [|discriminate].
      assert (Hkl : forall st rt, dec_key st rt bs = Some (k, bs1) -> True) by auto.
      destruct (spend bud _) as [bud1|] eqn:Es; cbn [bind]; [|discriminate]. apply spend_inv in Es.
      destruct (existsb _ seen); [discriminate|].
      destruct (dec_val f o (depth + 1) bud1 None None bs1) as [[[v b2] bs2]|] eqn:Ed; cbn [bind]; [|discriminate].
      destruct (IHv _ _ _ _ _ _ _ _ Ed) as (Hd & Hb & Hn).
      destruct (dec_entries f o depth b2 (n - 1) (k :: seen) bs2) as [[[vs' b3] bs3]|] eqn:Ed2; cbn [bind]; [|discriminate].
      destruct (IHe _ _ _ _ _ _ _ _ Ed2) as (Hd2 & Hb2 & Hn2).
      intros E; inversion E; subst. cbn [pcost] in *. unfold esum in *. cbn [fold_right fst snd].
      split; [intros Hm; constructor; [cbn [snd]; apply Hd; lia|apply Hd2; exact Hm]|].
      split; lia.
  Qed.

  Lemma bound_all : forall f, B_val f /\ B_items f /\ B_ents f.
  Proof.
    induction f as [|f (IHv & IHi & IHe)].
    - unfold B_val, B_items, B_ents. split; [|split]; intros; cbn in *; discriminate.
    - now apply bound_step.
  Qed.

  (* every accepted value is within the configured depth and was paid for in full *)
  Theorem decode_bounded bs v rest : decode o bs = Ok (v, rest) ->
    (0 <= maxd -> Z.of_nat (dm_depth v) <= maxd)%Z /\ (0 <= budget0 o -> cost v <= budget0 o)%Z.
  Proof.
    unfold decode.
    destruct (dec_val (dec_fuel bs) o 0 (budget0 o) None None bs) as [[[v' b] r]|] eqn:Ed; [|discriminate].
    destruct (bound_all (dec_fuel bs)) as [Hv _]. destruct (Hv _ _ _ _ _ _ _ _ Ed) as (Hd & Hb & Hn).
    cbn [pcost] in *.
    intros HE. assert (v' = v) as ->.
    { destruct (d_dont_parse_beyond o); [inversion HE; reflexivity|]. destruct r; [|discriminate]. inversion HE; reflexivity. }
    split; lia.
  Qed.
End Bound.
