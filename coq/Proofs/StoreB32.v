(* Proofs/StoreB32.v — base32 (RFC 4648 alphabet, no padding: fsstore.b32enc) is injective on byte
   strings: together with StoreBase.b32enc_alpha / b32enc_nonempty it has the shape [esc_ok]. *)
Require Import IP.Base.Bytes IP.Store.Storage IP.Store.FsStore.
Require Import IP.Proofs.StoreBase.
From Coq Require Import Lia ZArith NArith List Bool.
Import ListNotations.
Open Scope N_scope.

Lemma b32char_inj : forall v w, v < 32 -> w < 32 -> b32char v = b32char w -> v = w.
Proof.
  intros v w Hv Hw. unfold b32char.
  destruct (v <? 26) eqn:A; destruct (w <? 26) eqn:B; intros H;
    try apply N.ltb_lt in A; try apply N.ltb_lt in B; try apply N.ltb_ge in A; try apply N.ltb_ge in B; lia.
Qed.

Lemma mod_char_eq : forall u v, b32char (u mod 32) = b32char (v mod 32) -> u mod 32 = v mod 32.
Proof. intros. apply b32char_inj; auto; apply N.mod_lt; discriminate. Qed.

(* one more digit known: the quotients by k agree if those by 32k do *)
Lemma peel : forall x y k, k <> 0 -> x / (k * 32) = y / (k * 32) -> (x / k) mod 32 = (y / k) mod 32 -> x / k = y / k.
Proof.
  intros x y k K H D.
  rewrite (N.div_mod (x / k) 32) by discriminate. rewrite (N.div_mod (y / k) 32) by discriminate.
  rewrite !N.div_div by (auto; discriminate). rewrite H, D. reflexivity.
Qed.

Lemma peel1 : forall x y, x / 32 = y / 32 -> x mod 32 = y mod 32 -> x = y.
Proof.
  intros x y H D. rewrite (N.div_mod x 32) by discriminate. rewrite (N.div_mod y 32) by discriminate.
  rewrite H, D. reflexivity.
Qed.

Definition b32_word (b0 b1 b2 b3 b4 : N) : N := (((b0 * 256 + b1) * 256 + b2) * 256 + b3) * 256 + b4.

Lemma word_bound : forall a0 a1 a2 a3 a4, a0 < 256 -> a1 < 256 -> a2 < 256 -> a3 < 256 -> a4 < 256 ->
  b32_word a0 a1 a2 a3 a4 < 1099511627776.
Proof. unfold b32_word. intros. lia. Qed.

Lemma peel256 : forall p q a c, a < 256 -> c < 256 -> p * 256 + a = q * 256 + c -> p = q /\ a = c.
Proof. intros. lia. Qed.

Lemma word_inj : forall a0 a1 a2 a3 a4 c0 c1 c2 c3 c4,
  a1 < 256 -> a2 < 256 -> a3 < 256 -> a4 < 256 ->
  c1 < 256 -> c2 < 256 -> c3 < 256 -> c4 < 256 ->
  b32_word a0 a1 a2 a3 a4 = b32_word c0 c1 c2 c3 c4 ->
  a0 = c0 /\ a1 = c1 /\ a2 = c2 /\ a3 = c3 /\ a4 = c4.
Proof.
  unfold b32_word. intros a0 a1 a2 a3 a4 c0 c1 c2 c3 c4 A1 A2 A3 A4 C1 C2 C3 C4 H.
  apply peel256 in H; auto. destruct H as [H E4].
  apply peel256 in H; auto. destruct H as [H E3].
  apply peel256 in H; auto. destruct H as [H E2].
  apply peel256 in H; auto. destruct H as [E0 E1]. auto.
Qed.

Lemma group_unfold : forall b0 b1 b2 b3 b4,
  b32_group b0 b1 b2 b3 b4 =
  let x := b32_word b0 b1 b2 b3 b4 in
  [ b32char ((x / 34359738368) mod 32); b32char ((x / 1073741824) mod 32); b32char ((x / 33554432) mod 32);
    b32char ((x / 1048576) mod 32); b32char ((x / 32768) mod 32); b32char ((x / 1024) mod 32);
    b32char ((x / 32) mod 32); b32char (x mod 32) ].
Proof. reflexivity. Qed.

(* from agreement of the leading digits to agreement of the quotients *)
Lemma top_zero : forall x, x < 1099511627776 -> x / (34359738368 * 32) = 0.
Proof. intros. apply N.div_small. exact H. Qed.

Ltac peel_at k H D :=
  let X := fresh "Q" in
  assert (X := peel _ _ k ltac:(discriminate) H (mod_char_eq _ _ D)).

Lemma lead2 : forall x y, x < 1099511627776 -> y < 1099511627776 ->
  b32char ((x / 34359738368) mod 32) = b32char ((y / 34359738368) mod 32) ->
  b32char ((x / 1073741824) mod 32) = b32char ((y / 1073741824) mod 32) ->
  x / 1073741824 = y / 1073741824.
Proof.
  intros x y X Y D7 D6.
  assert (Q8 : x / (34359738368 * 32) = y / (34359738368 * 32)) by (rewrite !top_zero; auto).
  assert (Q7 := peel _ _ 34359738368 ltac:(discriminate) Q8 (mod_char_eq _ _ D7)).
  change 34359738368 with (1073741824 * 32) in Q7.
  exact (peel _ _ 1073741824 ltac:(discriminate) Q7 (mod_char_eq _ _ D6)).
Qed.

Lemma lead4 : forall x y, x < 1099511627776 -> y < 1099511627776 ->
  b32char ((x / 34359738368) mod 32) = b32char ((y / 34359738368) mod 32) ->
  b32char ((x / 1073741824) mod 32) = b32char ((y / 1073741824) mod 32) ->
  b32char ((x / 33554432) mod 32) = b32char ((y / 33554432) mod 32) ->
  b32char ((x / 1048576) mod 32) = b32char ((y / 1048576) mod 32) ->
  x / 1048576 = y / 1048576.
Proof.
  intros x y X Y D7 D6 D5 D4.
  pose proof (lead2 x y X Y D7 D6) as Q6. change 1073741824 with (33554432 * 32) in Q6.
  assert (Q5 := peel _ _ 33554432 ltac:(discriminate) Q6 (mod_char_eq _ _ D5)).
  change 33554432 with (1048576 * 32) in Q5.
  exact (peel _ _ 1048576 ltac:(discriminate) Q5 (mod_char_eq _ _ D4)).
Qed.

Lemma lead5 : forall x y, x < 1099511627776 -> y < 1099511627776 ->
  b32char ((x / 34359738368) mod 32) = b32char ((y / 34359738368) mod 32) ->
  b32char ((x / 1073741824) mod 32) = b32char ((y / 1073741824) mod 32) ->
  b32char ((x / 33554432) mod 32) = b32char ((y / 33554432) mod 32) ->
  b32char ((x / 1048576) mod 32) = b32char ((y / 1048576) mod 32) ->
  b32char ((x / 32768) mod 32) = b32char ((y / 32768) mod 32) ->
  x / 32768 = y / 32768.
Proof.
  intros x y X Y D7 D6 D5 D4 D3.
  pose proof (lead4 x y X Y D7 D6 D5 D4) as Q4. change 1048576 with (32768 * 32) in Q4.
  exact (peel _ _ 32768 ltac:(discriminate) Q4 (mod_char_eq _ _ D3)).
Qed.

Lemma lead7 : forall x y, x < 1099511627776 -> y < 1099511627776 ->
  b32char ((x / 34359738368) mod 32) = b32char ((y / 34359738368) mod 32) ->
  b32char ((x / 1073741824) mod 32) = b32char ((y / 1073741824) mod 32) ->
  b32char ((x / 33554432) mod 32) = b32char ((y / 33554432) mod 32) ->
  b32char ((x / 1048576) mod 32) = b32char ((y / 1048576) mod 32) ->
  b32char ((x / 32768) mod 32) = b32char ((y / 32768) mod 32) ->
  b32char ((x / 1024) mod 32) = b32char ((y / 1024) mod 32) ->
  b32char ((x / 32) mod 32) = b32char ((y / 32) mod 32) ->
  x / 32 = y / 32.
Proof.
  intros x y X Y D7 D6 D5 D4 D3 D2 D1.
  pose proof (lead5 x y X Y D7 D6 D5 D4 D3) as Q3. change 32768 with (1024 * 32) in Q3.
  assert (Q2 := peel _ _ 1024 ltac:(discriminate) Q3 (mod_char_eq _ _ D2)).
  change 1024 with (32 * 32) in Q2.
  exact (peel _ _ 32 ltac:(discriminate) Q2 (mod_char_eq _ _ D1)).
Qed.

Lemma group_inj : forall a0 a1 a2 a3 a4 c0 c1 c2 c3 c4,
  a0 < 256 -> a1 < 256 -> a2 < 256 -> a3 < 256 -> a4 < 256 ->
  c0 < 256 -> c1 < 256 -> c2 < 256 -> c3 < 256 -> c4 < 256 ->
  b32_group a0 a1 a2 a3 a4 = b32_group c0 c1 c2 c3 c4 ->
  a0 = c0 /\ a1 = c1 /\ a2 = c2 /\ a3 = c3 /\ a4 = c4.
Proof.
  intros a0 a1 a2 a3 a4 c0 c1 c2 c3 c4 A0 A1 A2 A3 A4 C0 C1 C2 C3 C4 H.
  rewrite !group_unfold in H. cbv zeta in H.
  injection H as D7 D6 D5 D4 D3 D2 D1 D0.
  pose proof (word_bound _ _ _ _ _ A0 A1 A2 A3 A4) as X. pose proof (word_bound _ _ _ _ _ C0 C1 C2 C3 C4) as Y.
  pose proof (lead7 _ _ X Y D7 D6 D5 D4 D3 D2 D1) as Q1.
  pose proof (peel1 _ _ Q1 (mod_char_eq _ _ D0)) as E.
  apply word_inj in E; auto.
Qed.

(* the final, shorter group: n bytes give ceil(8n/5) digits, and the quotient they determine is the
   n-byte number times a power of two *)
Lemma tail1_inj : forall a0 c0, a0 < 256 -> c0 < 256 ->
  firstn 2 (b32_group a0 0 0 0 0) = firstn 2 (b32_group c0 0 0 0 0) -> a0 = c0.
Proof.
  intros a0 c0 A0 C0 H. rewrite !group_unfold in H. cbv zeta in H. cbn [firstn] in H.
  injection H as D7 D6.
  assert (X : b32_word a0 0 0 0 0 < 1099511627776) by (apply word_bound; auto; reflexivity).
  assert (Y : b32_word c0 0 0 0 0 < 1099511627776) by (apply word_bound; auto; reflexivity).
  pose proof (lead2 _ _ X Y D7 D6) as Q.
  replace (b32_word a0 0 0 0 0) with (a0 * 4 * 1073741824) in Q by (unfold b32_word; lia).
  replace (b32_word c0 0 0 0 0) with (c0 * 4 * 1073741824) in Q by (unfold b32_word; lia).
  rewrite !N.div_mul in Q by discriminate. lia.
Qed.

Lemma tail2_inj : forall a0 a1 c0 c1, a0 < 256 -> a1 < 256 -> c0 < 256 -> c1 < 256 ->
  firstn 4 (b32_group a0 a1 0 0 0) = firstn 4 (b32_group c0 c1 0 0 0) -> a0 = c0 /\ a1 = c1.
Proof.
  intros a0 a1 c0 c1 A0 A1 C0 C1 H. rewrite !group_unfold in H. cbv zeta in H. cbn [firstn] in H.
  injection H as D7 D6 D5 D4.
  assert (X : b32_word a0 a1 0 0 0 < 1099511627776) by (apply word_bound; auto; reflexivity).
  assert (Y : b32_word c0 c1 0 0 0 < 1099511627776) by (apply word_bound; auto; reflexivity).
  pose proof (lead4 _ _ X Y D7 D6 D5 D4) as Q.
  replace (b32_word a0 a1 0 0 0) with ((a0 * 256 + a1) * 16 * 1048576) in Q by (unfold b32_word; lia).
  replace (b32_word c0 c1 0 0 0) with ((c0 * 256 + c1) * 16 * 1048576) in Q by (unfold b32_word; lia).
  rewrite !N.div_mul in Q by discriminate. lia.
Qed.

Lemma tail3_inj : forall a0 a1 a2 c0 c1 c2, a0 < 256 -> a1 < 256 -> a2 < 256 -> c0 < 256 -> c1 < 256 -> c2 < 256 ->
  firstn 5 (b32_group a0 a1 a2 0 0) = firstn 5 (b32_group c0 c1 c2 0 0) -> a0 = c0 /\ a1 = c1 /\ a2 = c2.
Proof.
  intros a0 a1 a2 c0 c1 c2 A0 A1 A2 C0 C1 C2 H. rewrite !group_unfold in H. cbv zeta in H. cbn [firstn] in H.
  injection H as D7 D6 D5 D4 D3.
  assert (X : b32_word a0 a1 a2 0 0 < 1099511627776) by (apply word_bound; auto; reflexivity).
  assert (Y : b32_word c0 c1 c2 0 0 < 1099511627776) by (apply word_bound; auto; reflexivity).
  pose proof (lead5 _ _ X Y D7 D6 D5 D4 D3) as Q.
  replace (b32_word a0 a1 a2 0 0) with (((a0 * 256 + a1) * 256 + a2) * 2 * 32768) in Q by (unfold b32_word; lia).
  replace (b32_word c0 c1 c2 0 0) with (((c0 * 256 + c1) * 256 + c2) * 2 * 32768) in Q by (unfold b32_word; lia).
  rewrite !N.div_mul in Q by discriminate. lia.
Qed.

Lemma tail4_inj : forall a0 a1 a2 a3 c0 c1 c2 c3,
  a0 < 256 -> a1 < 256 -> a2 < 256 -> a3 < 256 -> c0 < 256 -> c1 < 256 -> c2 < 256 -> c3 < 256 ->
  firstn 7 (b32_group a0 a1 a2 a3 0) = firstn 7 (b32_group c0 c1 c2 c3 0) ->
  a0 = c0 /\ a1 = c1 /\ a2 = c2 /\ a3 = c3.
Proof.
  intros a0 a1 a2 a3 c0 c1 c2 c3 A0 A1 A2 A3 C0 C1 C2 C3 H.
  rewrite !group_unfold in H. cbv zeta in H. cbn [firstn] in H.
  injection H as D7 D6 D5 D4 D3 D2 D1.
  assert (X : b32_word a0 a1 a2 a3 0 < 1099511627776) by (apply word_bound; auto; reflexivity).
  assert (Y : b32_word c0 c1 c2 c3 0 < 1099511627776) by (apply word_bound; auto; reflexivity).
  pose proof (lead7 _ _ X Y D7 D6 D5 D4 D3 D2 D1) as Q.
  replace (b32_word a0 a1 a2 a3 0) with ((((a0 * 256 + a1) * 256 + a2) * 256 + a3) * 8 * 32) in Q by (unfold b32_word; lia).
  replace (b32_word c0 c1 c2 c3 0) with ((((c0 * 256 + c1) * 256 + c2) * 256 + c3) * 8 * 32) in Q by (unfold b32_word; lia).
  rewrite !N.div_mul in Q by discriminate. lia.
Qed.

Lemma app_inj_len : forall {A} (a c b d : list A), length a = length c -> a ++ b = c ++ d -> a = c /\ b = d.
Proof.
  induction a; destruct c; intros b d L H; simpl in *; try discriminate; auto.
  inversion H; subst. destruct (IHa c b d) as [E1 E2]; auto. subst. auto.
Qed.

Lemma group_length : forall b0 b1 b2 b3 b4, length (b32_group b0 b1 b2 b3 b4) = 8%nat.
Proof. reflexivity. Qed.

Lemma b32enc_inj_aux : forall n a b, (length a <= n)%nat -> wfb a -> wfb b -> b32enc a = b32enc b -> a = b.
Proof.
  induction n as [n IH] using lt_wf_ind. intros a b Hn WA WB H.
  destruct a as [|a0 [|a1 [|a2 [|a3 [|a4 ra]]]]]; destruct b as [|c0 [|c1 [|c2 [|c3 [|c4 rb]]]]];
    cbn [b32enc] in H; auto;
    try (exfalso; apply (f_equal (@length N)) in H;
         rewrite ?app_length, ?firstn_length, ?group_length in H; simpl in H; lia).
  - inversion WA; inversion WB; subst. f_equal. eapply tail1_inj; eauto.
  - inversion WA as [|? ? A0 WA1]; inversion WA1 as [|? ? A1 _]; inversion WB as [|? ? C0 WB1]; inversion WB1 as [|? ? C1 _]; subst.
    destruct (tail2_inj _ _ _ _ A0 A1 C0 C1 H) as [E0 E1]. subst. reflexivity.
  - inversion WA as [|? ? A0 WA1]; inversion WA1 as [|? ? A1 WA2]; inversion WA2 as [|? ? A2 _];
      inversion WB as [|? ? C0 WB1]; inversion WB1 as [|? ? C1 WB2]; inversion WB2 as [|? ? C2 _]; subst.
    destruct (tail3_inj _ _ _ _ _ _ A0 A1 A2 C0 C1 C2 H) as [E0 [E1 E2]]. subst. reflexivity.
  - inversion WA as [|? ? A0 WA1]; inversion WA1 as [|? ? A1 WA2]; inversion WA2 as [|? ? A2 WA3]; inversion WA3 as [|? ? A3 _];
      inversion WB as [|? ? C0 WB1]; inversion WB1 as [|? ? C1 WB2]; inversion WB2 as [|? ? C2 WB3]; inversion WB3 as [|? ? C3 _]; subst.
    destruct (tail4_inj _ _ _ _ _ _ _ _ A0 A1 A2 A3 C0 C1 C2 C3 H) as [E0 [E1 [E2 E3]]]. subst. reflexivity.
  - inversion WA as [|? ? A0 WA1]; inversion WA1 as [|? ? A1 WA2]; inversion WA2 as [|? ? A2 WA3];
      inversion WA3 as [|? ? A3 WA4]; inversion WA4 as [|? ? A4 WRA];
      inversion WB as [|? ? C0 WB1]; inversion WB1 as [|? ? C1 WB2]; inversion WB2 as [|? ? C2 WB3];
      inversion WB3 as [|? ? C3 WB4]; inversion WB4 as [|? ? C4 WRB]; subst.
    assert (G : b32_group a0 a1 a2 a3 a4 = b32_group c0 c1 c2 c3 c4 /\ b32enc ra = b32enc rb).
    { apply app_inj_len in H; auto. }
    destruct G as [G1 G2].
    destruct (group_inj _ _ _ _ _ _ _ _ _ _ A0 A1 A2 A3 A4 C0 C1 C2 C3 C4 G1) as [E0 [E1 [E2 [E3 E4]]]]. subst.
    repeat f_equal. apply (IH (length ra)); auto. simpl in Hn. lia.
Qed.

Theorem b32enc_inj : forall a b, wfb a -> wfb b -> b32enc a = b32enc b -> a = b.
Proof. intros a b. apply (b32enc_inj_aux (length a)). lia. Qed.
