(* Proofs/TravSel.v — induction principle for selectors and basic facts about Match. *)
Require Import IP.Base.Bytes IP.DM.Value IP.Trav.Selector.
Open Scope Z_scope.

Section sel_ind2.
  Variable P : sel -> Prop.
  Hypothesis Hm : forall sl, P (SMatch sl).
  Hypothesis Ha : forall nx, P nx -> P (SAll nx).
  Hypothesis Hf : forall fs, Forall (fun kv => P (snd kv)) fs -> P (SFields fs).
  Hypothesis Hi : forall i nx, P nx -> P (SIndex i nx).
  Hypothesis Hr : forall a b nx, P nx -> P (SRange a b nx).
  Hypothesis Hu : forall ms, Forall P ms -> P (SUnion ms).
  Hypothesis Hrec : forall sq cur lim stop, P sq -> P cur -> P (SRec sq cur lim stop).
  Hypothesis He : P SEdge.
  Fixpoint sel_ind2 (s : sel) : P s :=
    match s with
    | SMatch sl => Hm sl
    | SAll nx => Ha nx (sel_ind2 nx)
    | SFields fs => Hf fs ((fix go (l : list (bytes * sel)) : Forall (fun kv => P (snd kv)) l :=
                              match l with [] => Forall_nil _ | kv :: r => Forall_cons _ (sel_ind2 (snd kv)) (go r) end) fs)
    | SIndex i nx => Hi i nx (sel_ind2 nx)
    | SRange a b nx => Hr a b nx (sel_ind2 nx)
    | SUnion ms => Hu ms ((fix go (l : list sel) : Forall P l :=
                             match l with [] => Forall_nil _ | x :: r => Forall_cons _ (sel_ind2 x) (go r) end) ms)
    | SRec sq cur lim stop => Hrec sq cur lim stop (sel_ind2 sq) (sel_ind2 cur)
    | SEdge => He
    end.
End sel_ind2.

(* named versions of the inner loops, convertible with the anonymous ones *)
Fixpoint match_any (ms : list sel) (n : dm) : option dm :=
  match ms with [] => None | m :: t => match match_sel m n with Some r => Some r | None => match_any t n end end.
Lemma match_sel_union ms n : match_sel (SUnion ms) n = match_any ms n.
Proof. induction ms as [|m t IH]; [reflexivity|]. cbn in *. destruct (match_sel m n); [reflexivity|exact IH]. Qed.

(* a matched node is the node itself or a subset slice of it *)
Lemma match_sel_shape s : forall n m, match_sel s n = Some m -> m = n \/ exists ft, slice_node ft n = Some m.
Proof.
  induction s as [sl|nx IH|fs IH|i nx IH|a b nx IH|ms IH|sq cur lim stop IH1 IH2|] using sel_ind2;
    intros n m H; try discriminate.
  - destruct sl as [ft|]; cbn in H; [right; exists ft; exact H|left; congruence].
  - rewrite match_sel_union in H. induction ms as [|x t IHt]; [discriminate|].
    inversion IH as [|? ? Hx Ht]; subst. cbn in H. destruct (match_sel x n) eqn:E.
    + inversion H; subst. apply Hx; exact E.
    + apply IHt; assumption.
  - cbn in H. apply IH2; exact H.
Qed.
