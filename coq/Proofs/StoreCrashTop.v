(* Proofs/StoreCrashTop.v — the closed form of C18_atomic: from a freshly initialised store (or any
   state satisfying the invariant), any writers, any schedule. *)
Require Import IP.Base.Bytes IP.Base.GoSem IP.Gen.FromGo IP.Store.Storage IP.Store.FsStore IP.Store.FsCrash.
Require Import IP.Proofs.StoreBase IP.Proofs.StoreMem IP.Proofs.StoreFs IP.Proofs.StoreCrash.
From Coq Require Import Lia List Bool Arith.
Import ListNotations.

(* lia compares [@length comp] and [@length (list N)] syntactically *)
Ltac nlia := lia.

Lemma assoc_dirs_of_inv : forall p pre q n, assoc_path (dirs_of pre p) q = Some n ->
  n = Dir /\ (length q <= length pre + length p)%nat.
Proof.
  induction p; intros pre q n H; simpl in H. discriminate.
  destruct (path_eqb (pre ++ [a]) q) eqn:E.
  - inversion H. apply path_eqb_eq in E. subst q. split; auto. rewrite app_length. simpl. lia.
  - apply IHp in H. destruct H. split; auto. rewrite app_length in H0. simpl in *. lia.
Qed.

Lemma fs_fresh_shape : forall cfg,
  fs_fresh cfg = dirs_of [] (f_base cfg) \/
  fs_fresh cfg = fs_set (dirs_of [] (f_base cfg)) (staging_dir (f_base cfg)) Dir.
Proof.
  intros cfg. unfold fs_fresh, fs_init.
  destruct (sys_exec (dirs_of [] (f_base cfg)) (SStat (f_base cfg))) as [f0 r0].
  destruct r0 as [[|[c|]]|e]; cbn [fst]; auto.
  destruct (sys_exec (dirs_of [] (f_base cfg)) (SMkdir (staging_dir (f_base cfg)))) as [f1 r1] eqn:S1.
  destruct r1 as [v|e].
  - cbn [fst]. simpl in S1.
    destruct (resolve (dirs_of [] (f_base cfg)) (staging_dir (f_base cfg))) as [[n|]|e]; inversion S1; auto.
  - destruct e; cbn [fst]; auto.
    destruct (sys_exec (dirs_of [] (f_base cfg)) (SStat (staging_dir (f_base cfg)))) as [f2 r2].
    destruct r2 as [[|[c|]]|e]; cbn [fst]; auto.
Qed.

Lemma fs_fresh_lookup : forall cfg p n, fs_lookup (fs_fresh cfg) p = Some n ->
  n = Dir /\ (length p <= length (f_base cfg) + 1)%nat.
Proof.
  intros cfg p n H. destruct p as [|c p']. { simpl in H. inversion H. split; auto. simpl. nlia. }
  destruct (fs_fresh_shape cfg) as [E|E]; rewrite E in H.
  - simpl in H. apply assoc_dirs_of_inv in H. simpl in H. destruct H. split; auto. simpl. lia.
  - rewrite lookup_set in H by discriminate.
    destruct (path_eqb (staging_dir (f_base cfg)) (c :: p')) eqn:X.
    + inversion H. apply path_eqb_eq in X. rewrite <- X. split; auto.
      unfold staging_dir. rewrite app_length. simpl. nlia.
    + simpl in H. apply assoc_dirs_of_inv in H. simpl in H. destruct H. split; auto. simpl. lia.
Qed.

(* a writer that has not started yet *)
Definition writer_ready (cfg : fscfg) (C : key -> bytes -> Prop) (w : writer) : Prop :=
  env_ok cfg C w /\ exists tr, w_pc w = WCreate tr (w_chunks w).

Lemma inv_initial : forall cfg C ws,
  Forall (writer_ready cfg C) ws -> inv cfg C (fs_fresh cfg) ws.
Proof.
  intros cfg C ws F. constructor.
  - intros p c L. apply fs_fresh_lookup in L. destruct L. discriminate.
  - intros p L. apply fs_fresh_lookup in L. destruct L as [_ L]. unfold short, keylen.
    destruct (f_shard cfg); simpl; lia.
  - intros i w N. apply nth_error_In in N. rewrite Forall_forall in F. destruct (F w N) as [E [tr P]].
    split; auto. unfold pc_ok, staged. rewrite P. simpl. auto.
  - intros i j wi wj st _ Ni _ Si _. apply nth_error_In in Ni. rewrite Forall_forall in F.
    destruct (F wi Ni) as [_ [tr P]]. rewrite P in Si. discriminate.
Qed.

(* what the writers commit *)
Definition committed (ws : list writer) (k : key) (c : bytes) : Prop :=
  exists w, In w ws /\ we_dest (w_env w) <> None /\ w_key w = k /\ w_content w = c.

(* writers as the store creates them: [mk_writer] for a key whose path is not subject to the C17
   defect (escaping applied, or a key without '/', '.', NUL) *)
Definition writer_started (cfg : fscfg) (w : writer) : Prop :=
  we_base (w_env w) = f_base cfg /\
  (exists tr, w_pc w = WCreate tr (w_chunks w)) /\
  match we_dest (w_env w) with
  | Some d => keypath cfg (w_key w) d
  | None => True
  end.

Lemma mk_writer_started : forall cfg names kind k chunks w,
  wfb k -> plain (enc_key cfg k) -> key_len_ok (enc_key cfg k) ->
  mk_writer cfg names kind k chunks = Some w -> writer_started cfg w.
Proof.
  intros cfg names kind k chunks w WF P L M. unfold mk_writer in M.
  destruct (path_for_key cfg k) as [d|] eqn:E; inversion M; subst; clear M.
  unfold writer_started. simpl. split; auto. split; eauto. split; auto.
Qed.

Lemma mk_aborter_started : forall cfg names chunks, writer_started cfg (mk_aborter cfg names chunks).
Proof. intros. unfold writer_started, mk_aborter. simpl. split; auto. split; eauto. Qed.

Theorem crash_atomic : forall cfg ws sched,
  (forall k k', wfb k -> wfb k' -> enc_key cfg k = enc_key cfg k' -> k = k') ->
  Forall (writer_started cfg) ws ->
  forall k p, keypath cfg k p ->
    let f := fst (exec (fs_fresh cfg) ws sched) in
    fs_lookup f p = None \/ exists c, fs_lookup f p = Some (File c) /\ committed ws k c.
Proof.
  intros cfg ws sched EI F k p K f.
  assert (R : Forall (writer_ready cfg (committed ws)) ws).
  { apply Forall_forall. intros w Hin. rewrite Forall_forall in F. destruct (F w Hin) as [B [T D]].
    split; auto. split; auto. destruct (we_dest (w_env w)) eqn:X; auto. split; auto.
    exists w. repeat split; auto. congruence. }
  pose proof (exec_inv cfg (committed ws) sched _ _ (inv_initial cfg _ ws R)) as I.
  eapply inv_atomic; eauto.
Qed.

(* the same from any state of the store that satisfies the invariant, e.g. after an earlier crash:
   [C0] is what was committed before *)
Theorem crash_atomic_from : forall cfg C0 f0 ws0 ws sched,
  (forall k k', wfb k -> wfb k' -> enc_key cfg k = enc_key cfg k' -> k = k') ->
  inv cfg C0 f0 ws0 ->
  Forall (writer_started cfg) ws ->
  forall k p, keypath cfg k p ->
    let f := fst (exec f0 ws sched) in
    fs_lookup f p = None \/ exists c, fs_lookup f p = Some (File c) /\ (C0 k c \/ committed ws k c).
Proof.
  intros cfg C0 f0 ws0 ws sched EI I0 F k p K f.
  set (C := fun k c => C0 k c \/ committed ws k c).
  assert (I1 : inv cfg C f0 ws).
  { constructor.
    - intros q c L. destruct (inv_files _ _ _ _ I0 q c L) as [S|[k' [K' HC]]]; auto.
      right. exists k'. split; auto. left. auto.
    - apply (inv_dirs _ _ _ _ I0).
    - intros i w N. apply nth_error_In in N. rewrite Forall_forall in F. destruct (F w N) as [B [[tr T] D]].
      split; [|split].
      + split; auto. destruct (we_dest (w_env w)) eqn:X; auto. split; auto.
        right. exists w. repeat split; auto. congruence.
      + unfold pc_ok. rewrite T. auto.
      + unfold staged. rewrite T. simpl. auto.
    - intros i j wi wj st _ Ni _ Si _. apply nth_error_In in Ni. rewrite Forall_forall in F.
      destruct (F wi Ni) as [_ [[tr T] _]]. rewrite T in Si. discriminate. }
  pose proof (exec_inv cfg C sched _ _ I1) as I.
  exact (inv_atomic cfg EI C _ _ I k p K).
Qed.

(* staging files and key paths are disjoint sets of names *)
Theorem staging_never_a_key_path : forall cfg name k p,
  keypath cfg k p -> stage_path (f_base cfg) name <> p.
Proof.
  intros cfg name k p K E. eapply keypath_not_staging; eauto. exists name. auto.
Qed.

(* when the escaping function is applied, every non-empty key is such a key *)
Lemma escaping_keypath : forall cfg k p, escaping cfg -> wfb k -> k <> [] -> key_len_ok (enc_key cfg k) ->
  path_for_key cfg k = Some p -> keypath cfg k p.
Proof. intros cfg k p E WF N L P. split; auto. split; [apply esc_plain; auto|]. split; auto. Qed.

Lemma escaping_enc_inj : forall cfg, escaping cfg -> forall k k', wfb k -> wfb k' -> enc_key cfg k = enc_key cfg k' -> k = k'.
Proof. intros cfg [Q E] k k' W W' H. unfold enc_key in H. rewrite Q in H. apply (esc_inj _ E); auto. Qed.

Lemma no_escape_enc_inj : forall cfg, q_no_escape cfg = true -> forall k k', wfb k -> wfb k' -> enc_key cfg k = enc_key cfg k' -> k = k'.
Proof. intros cfg Q k k' _ _ H. unfold enc_key in H. rewrite Q in H. auto. Qed.
