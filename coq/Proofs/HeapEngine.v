(* Proofs/HeapEngine.v — the history part of C11 for ANY node engine modelled over the Go heap of
   Heap/GoMem.v, and what an engine has to supply for it.

   The typed engines (bindnode, gendemo) have no model yet; the C11 check covers them at the oracle
   level only.  This file states exactly which two facts a model of such an engine must come with for
   the all-histories theorem to follow, by proving that theorem from them alone ([engine_stable]),
   and shows that the two facts are what the basicnode development proved ([basic_engine],
   [basic_engine_stable]: the instance re-derives C11_stable / C11_stable_partial).

   An engine is: a state with a heap, calls, a Legal predicate on calls, the handles (node + accessor)
   handed out so far, and what a read through a handle returns in a heap.  It must supply
     (E1) every Legal call preserves the ownership invariant [Inv] (the engine's objects tagged
          frozen / owned / assembler), keeps every handed-out handle referring to frozen cells, and
          extends the heap ([Ext]: frozen cells are not stored to);
     (E2) what a read through a handed-out handle returns depends on frozen cells only.
   Nothing else about the engine enters. *)
Require Import IP.Base.Bytes IP.DM.Value IP.Gen.FromGo IP.Heap.GoMem IP.Heap.BasicHeap.
Require Import IP.Proofs.HeapMem IP.Proofs.HeapLogic IP.Proofs.HeapSteps IP.Proofs.HeapOps IP.Proofs.HeapPrims IP.Proofs.HeapC11.
From Coq Require Import List Arith Bool Lia.
Import ListNotations.
Local Open Scope nat_scope.

Section Engine.
  Variables (St Call Hd Obs : Type).
  Variable hp_of : St -> mheap.
  Variable stepE : St -> Call -> St.
  Variable legalE : St -> Call -> bool.
  Variable knownE : St -> Hd -> Prop.            (* handed out so far *)
  Variable readE : mheap -> Hd -> Obs.           (* what a read through the handle returns *)
  Variable okE : Hd -> tags -> mheap -> Prop.    (* what the handle refers to is frozen *)
  Variable KE : tags -> St -> Prop.              (* bookkeeping: every handed-out handle is ok *)

  Fixpoint runE (s : St) (cs : list Call) : St :=
    match cs with [] => s | c :: r => runE (stepE s c) r end.
  Fixpoint legalhE (s : St) (cs : list Call) : bool :=
    match cs with [] => true | c :: r => legalE s c && legalhE (stepE s c) r end.

  Hypothesis KE_known : forall tg s hd, KE tg s -> knownE s hd -> okE hd tg (hp_of s).

  (* (E1) *)
  Hypothesis step_inv : forall tg s c, Inv tg (hp_of s) -> KE tg s -> legalE s c = true ->
    exists tg', Inv tg' (hp_of (stepE s c)) /\ KE tg' (stepE s c) /\ Ext tg (hp_of s) tg' (hp_of (stepE s c)).

  (* (E2) *)
  Hypothesis read_frozen : forall tg h tg' h' hd, Inv tg h -> Ext tg h tg' h' -> okE hd tg h ->
    readE h hd = readE h' hd.

  Lemma runE_inv : forall cs tg s, Inv tg (hp_of s) -> KE tg s -> legalhE s cs = true ->
    exists tg', Inv tg' (hp_of (runE s cs)) /\ KE tg' (runE s cs) /\ Ext tg (hp_of s) tg' (hp_of (runE s cs)).
  Proof.
    induction cs as [|c cs IH]; cbn; intros tg s HI HK Hl.
    - exists tg. split; [assumption|]. split; [assumption | apply Ext_refl].
    - apply andb_true_iff in Hl. destruct Hl as [L1 L2].
      destruct (step_inv tg s c HI HK L1) as (tg1 & I1 & K1 & E1).
      destruct (IH tg1 _ I1 K1 L2) as (tg2 & I2 & K2 & E2).
      exists tg2. split; [assumption|]. split; [assumption | eapply Ext_trans; eauto].
  Qed.

  Lemma legalhE_app : forall cs1 cs2 s, legalhE s (cs1 ++ cs2) = true ->
    legalhE s cs1 = true /\ legalhE (runE s cs1) cs2 = true.
  Proof.
    induction cs1; cbn; intros cs2 s H; [auto|].
    apply andb_true_iff in H. destruct H as [H1 H2]. destruct (IHcs1 _ _ H2) as [H3 H4]. rewrite H1, H3. auto.
  Qed.

  Lemma runE_app : forall cs1 cs2 s, runE s (cs1 ++ cs2) = runE (runE s cs1) cs2.
  Proof. induction cs1; cbn; intros; auto. Qed.

  Theorem engine_stable : forall tg0 s0, Inv tg0 (hp_of s0) -> KE tg0 s0 ->
    forall cs1 cs2, legalhE s0 (cs1 ++ cs2) = true ->
    forall hd, knownE (runE s0 cs1) hd ->
    readE (hp_of (runE s0 cs1)) hd = readE (hp_of (runE s0 (cs1 ++ cs2))) hd.
  Proof.
    intros tg0 s0 I0 K0 cs1 cs2 Hl hd Hk.
    destruct (legalhE_app _ _ _ Hl) as [L1 L2].
    destruct (runE_inv cs1 _ _ I0 K0 L1) as (tg1 & I1 & K1 & _).
    destruct (runE_inv cs2 _ _ I1 K1 L2) as (tg2 & I2 & K2 & E2).
    rewrite runE_app. eapply read_frozen; eauto.
  Qed.
End Engine.

(* ------------------------------------------------------------------ basicnode is such an engine *)

Section Basic.
  Variable cf : cfg.

  (* handles: a node and an accessor the statement covers on this configuration *)
  Definition bknown (ps : pstate) (hd : nref * acc) : Prop :=
    known_b (kn ps) (HNode (fst hd)) = true /\ (cf_stream_shared cf = false \/ stream_acc (fst hd) (snd hd) = false).
  Definition bread (h : mheap) (hd : nref * acc) : outcome ares := fst (exec 0 (acc_prog cf (fst hd) (snd hd)) h).
  Definition bok (hd : nref * acc) (tg : tags) (h : mheap) : Prop :=
    fref tg h (fst hd) /\ (cf_stream_shared cf = false \/ stream_acc (fst hd) (snd hd) = false).
  Definition bstep (ps : pstate) (p : prim) : pstate := fst (pstep cf ps p).
  Definition bK (tg : tags) (ps : pstate) : Prop := KInv tg (hp ps) (kn ps).

  Lemma basic_runE : forall hs ps, runE _ _ bstep ps hs = runh cf ps hs.
  Proof. induction hs; cbn; intros; auto. Qed.
  Lemma basic_legalhE : forall hs ps, legalhE _ _ bstep legal ps hs = legalh cf ps hs.
  Proof. induction hs; cbn; intros; [reflexivity|]. rewrite IHhs. reflexivity. Qed.

  (* the instance: (E1) is pstep_inv, (E2) is acc_stable *)
  Theorem basic_engine_stable : forall hs1 hs2, legalh cf pinit (hs1 ++ hs2) = true ->
    forall r a, bknown (runh cf pinit hs1) (r, a) ->
    bread (hp (runh cf pinit hs1)) (r, a) = bread (hp (runh cf pinit (hs1 ++ hs2))) (r, a).
  Proof.
    intros hs1 hs2 Hl r a Hk. rewrite <- !basic_runE.
    apply (engine_stable pstate prim (nref * acc) (outcome ares) hp bstep legal bknown bread bok bK)
      with (tg0 := fun _ => TFree).
    - intros tg s hd K [H1 H2]. split; [exact (known_ok _ _ _ _ K H1) | exact H2].
    - intros tg s c HI HK L. destruct (pstep_inv cf tg s c (conj HI HK) L) as (tg' & [I' K'] & E'). eauto.
    - intros tg h tg' h' [r0 a0] HI HE [H1 H2]. unfold bread. cbn [fst snd] in *. apply (acc_stable tg h tg' h' HI HE); assumption.
    - apply inv_init.
    - constructor.
    - rewrite basic_legalhE. assumption.
    - rewrite basic_runE. assumption.
  Qed.
End Basic.
