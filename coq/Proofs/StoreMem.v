(* Proofs/StoreMem.v — memstore and cidlink.Memory (heap model with explicit aliasing) refine the
   finite-map specification, for every history within the quantifier of C17 ([hist_ok]);
   consequently later writes to the slice handed to put never reach the store. *)
Require Import IP.Base.Bytes IP.Codec.Cid IP.Store.Storage.
Require Import IP.Proofs.StoreBase.
From Coq Require Import Lia List Bool Arith.
Import ListNotations.

(* ------------------------------------------------------------------ list facts *)

Lemma upd_length : forall {A} (l : list A) i x, length (upd l i x) = length l.
Proof. induction l; intros [|i] x; simpl; auto. Qed.

Lemma upd_nth_same : forall {A} (l : list A) i x d, (i < length l)%nat -> nth i (upd l i x) d = x.
Proof. induction l; intros [|i] x d H; simpl in *; try lia; auto. apply IHl. lia. Qed.

Lemma upd_nth_other : forall {A} (l : list A) i j x d, i <> j -> nth j (upd l i x) d = nth j l d.
Proof. induction l; intros [|i] [|j] x d H; simpl; auto; try congruence. Qed.

Lemma upd_nth_error_same : forall {A} (l : list A) i x, (i < length l)%nat -> nth_error (upd l i x) i = Some x.
Proof. induction l; intros [|i] x H; simpl in *; try lia; auto. apply IHl. lia. Qed.

Lemma upd_nth_error_other : forall {A} (l : list A) i j x, i <> j -> nth_error (upd l i x) j = nth_error l j.
Proof. induction l; intros [|i] [|j] x H; simpl; auto; try congruence. Qed.

Lemma nth_error_snoc : forall {A} (l : list A) x h y,
  nth_error (l ++ [x]) h = Some y ->
  ((h < length l)%nat /\ nth_error l h = Some y) \/ (h = length l /\ x = y).
Proof.
  intros A l x h y H. destruct (lt_dec h (length l)).
  - left. rewrite nth_error_app1 in H; auto.
  - right. rewrite nth_error_app2 in H by lia.
    destruct (h - length l)%nat eqn:E; simpl in H.
    + inversion H. split; auto. lia.
    + destruct n0; discriminate.
Qed.

Lemma nth_error_snoc_new : forall {A} (l : list A) x, nth_error (l ++ [x]) (length l) = Some x.
Proof. intros. rewrite nth_error_app2 by lia. rewrite Nat.sub_diag. auto. Qed.

Lemma nth_error_snoc_old : forall {A} (l : list A) x h, (h < length l)%nat -> nth_error (l ++ [x]) h = nth_error l h.
Proof. intros. apply nth_error_app1. auto. Qed.

Lemma nth_error_lt : forall {A} (l : list A) h y, nth_error l h = Some y -> (h < length l)%nat.
Proof. intros. apply nth_error_Some. congruence. Qed.

Lemma gather_ext : forall {A} (f g : nat -> option A) hs, (forall h, f h = g h) -> gather f hs = gather g hs.
Proof. induction hs; intros H; simpl; auto. rewrite H, IHhs; auto. Qed.

Lemma lookup_cons_eq : forall {V} k (v : V) l, lookup k ((k, v) :: l) = Some v.
Proof. intros. simpl. rewrite bytes_eqb_refl. auto. Qed.

Lemma lookup_cons_neq : forall {V} k k' (v : V) l, k <> k' -> lookup k ((k', v) :: l) = lookup k l.
Proof. intros. simpl. apply bytes_eqb_neq in H. rewrite H. auto. Qed.

(* ------------------------------------------------------------------ the simulation *)

Definition borrowed (s : spec) (h : nat) : Prop := exists c, nth_error (s_hnd s) h = Some (c, true).

Record sim (m : mem) (s : spec) : Prop := {
  sim_hnd : forall h, handle_buf m h = s_handle s h;
  sim_ids : forall h id, nth_error (m_hnd m) h = Some id -> (id < length (m_heap m))%nat;
  sim_map : forall pk, lookup pk (s_map s) = option_map (hget m) (lookup pk (m_bag m));
  sim_bag : forall pk id, lookup pk (m_bag m) = Some id -> (id < length (m_heap m))%nat;
  sim_own : forall pk id h, lookup pk (m_bag m) = Some id -> nth_error (m_hnd m) h = Some id -> borrowed s h;
  sim_uniq : forall h1 h2 id, h1 <> h2 -> nth_error (m_hnd m) h1 = Some id ->
                              nth_error (m_hnd m) h2 = Some id -> borrowed s h1;
  sim_str : m_str m = s_str s
}.

Lemma sim_empty : sim mem_empty spec_empty.
Proof.
  constructor; simpl; intros; auto; try discriminate.
  - unfold handle_buf, s_handle. simpl. destruct h; auto.
  - destruct h; discriminate.
  - destruct h1; discriminate.
Qed.

Lemma sim_len : forall m s, sim m s -> length (m_hnd m) = length (s_hnd s).
Proof.
  intros m s H.
  assert (A : forall h, (h < length (m_hnd m))%nat <-> (h < length (s_hnd s))%nat).
  { intros h. pose proof (sim_hnd _ _ H h) as E. unfold handle_buf, s_handle in E.
    split; intros L.
    - apply nth_error_Some. destruct (nth_error (m_hnd m) h) eqn:X.
      + destruct (nth_error (s_hnd s) h); congruence.
      + apply nth_error_None in X. lia.
    - apply nth_error_Some. destruct (nth_error (s_hnd s) h) as [[c b]|] eqn:X.
      + destruct (nth_error (m_hnd m) h); congruence.
      + apply nth_error_None in X. lia. }
  destruct (lt_eq_lt_dec (length (m_hnd m)) (length (s_hnd s))) as [[L|L]|L]; auto.
  - apply A in L. lia.
  - apply A in L. lia.
Qed.

Lemma hget_alloc_old : forall m c id, (id < length (m_heap m))%nat -> hget (fst (alloc m c)) id = hget m id.
Proof. intros. unfold hget, alloc. simpl. apply app_nth1. auto. Qed.

Lemma hget_alloc_new : forall m c, hget (fst (alloc m c)) (length (m_heap m)) = c.
Proof. intros. unfold hget, alloc. simpl. rewrite app_nth2 by lia. rewrite Nat.sub_diag. auto. Qed.

Lemma hget_app : forall m m' c id, m_heap m' = m_heap m ++ [c] -> (id < length (m_heap m))%nat ->
  hget m' id = hget m id.
Proof. intros. unfold hget. rewrite H. apply app_nth1. auto. Qed.

Lemma hget_app_new : forall m m' c, m_heap m' = m_heap m ++ [c] -> hget m' (length (m_heap m)) = c.
Proof. intros. unfold hget. rewrite H. rewrite app_nth2 by lia. rewrite Nat.sub_diag. auto. Qed.

Lemma borrowed_add : forall s c b h, borrowed s h -> borrowed (s_add s c b) h.
Proof.
  intros s c b h [c' H]. exists c'. unfold s_add. simpl.
  rewrite nth_error_snoc_old; auto. eapply nth_error_lt; eauto.
Qed.

(* a fresh caller-owned slice with content c: ONew, and the copy made by Get *)
Lemma sim_new_handle : forall m s c, sim m s ->
  sim (add_handle (fst (alloc m c)) (length (m_heap m))) (s_add s c false).
Proof.
  intros m s c H. pose proof (sim_len _ _ H) as L.
  constructor; simpl.
  - intros h. unfold handle_buf, s_handle. simpl.
    destruct (lt_dec h (length (m_hnd m))) as [l|l].
    + rewrite !nth_error_snoc_old by lia.
      pose proof (sim_hnd _ _ H h) as E. unfold handle_buf, s_handle in E.
      destruct (nth_error (m_hnd m) h) eqn:X.
      * erewrite hget_app; [exact E|reflexivity|]. eapply sim_ids; eauto.
      * exact E.
    + destruct (Nat.eq_dec h (length (m_hnd m))).
      * subst h. rewrite nth_error_snoc_new. rewrite L. rewrite nth_error_snoc_new.
        erewrite hget_app_new; [reflexivity|reflexivity].
      * rewrite (proj2 (nth_error_None _ _)) by (rewrite app_length; simpl; lia).
        rewrite (proj2 (nth_error_None _ _)) by (rewrite app_length; simpl; lia). auto.
  - intros h id E. rewrite app_length. simpl.
    apply nth_error_snoc in E. destruct E as [[_ E]|[_ E]].
    + apply (sim_ids _ _ H) in E. lia.
    + subst. lia.
  - intros pk. rewrite (sim_map _ _ H pk). destruct (lookup pk (m_bag m)) eqn:X; simpl; auto.
    f_equal. symmetry. eapply hget_app; [reflexivity|]. eapply sim_bag; eauto.
  - intros pk id E. rewrite app_length. apply (sim_bag _ _ H) in E. lia.
  - intros pk id h E1 E2. apply nth_error_snoc in E2. destruct E2 as [[_ E2]|[_ E2]].
    + apply borrowed_add. eapply sim_own; eauto.
    + subst id. apply (sim_bag _ _ H) in E1. lia.
  - intros h1 h2 id N E1 E2.
    apply nth_error_snoc in E1. apply nth_error_snoc in E2.
    destruct E1 as [[L1 E1]|[L1 E1]]; destruct E2 as [[L2 E2]|[L2 E2]].
    + apply borrowed_add. eapply sim_uniq; eauto.
    + subst id. apply (sim_ids _ _ H) in E1. lia.
    + subst id. apply (sim_ids _ _ H) in E2. lia.
    + lia.
  - apply (sim_str _ _ H).
Qed.

(* the store takes a private copy of c under a key that is absent, or (overwrite) present with the
   same content *)
Lemma sim_bind : forall m s pk c, sim m s ->
  (lookup pk (s_map s) = None \/ lookup pk (s_map s) = Some c) ->
  sim (bind_key (fst (alloc m c)) pk (length (m_heap m))) (s_put s pk c).
Proof.
  intros m s pk c H HC.
  assert (SH : s_hnd (s_put s pk c) = s_hnd s).
  { unfold s_put. destruct (lookup pk (s_map s)); auto. }
  assert (BR : forall h, borrowed s h -> borrowed (s_put s pk c) h).
  { intros h [c' B]. exists c'. rewrite SH. auto. }
  constructor; simpl.
  - intros h. unfold handle_buf, s_handle. simpl. rewrite SH.
    pose proof (sim_hnd _ _ H h) as E. unfold handle_buf, s_handle in E.
    destruct (nth_error (m_hnd m) h) eqn:X; auto.
    erewrite hget_app; [exact E|reflexivity|]. eapply sim_ids; eauto.
  - intros h id E. rewrite app_length. apply (sim_ids _ _ H) in E. lia.
  - intros pk'. destruct (bytes_eqb pk' pk) eqn:EQ.
    + apply bytes_eqb_eq in EQ. subst pk'. simpl.
      erewrite hget_app_new by reflexivity.
      unfold s_put. destruct HC as [HC|HC]; rewrite HC; simpl.
      * rewrite bytes_eqb_refl. auto.
      * auto.
    + assert (lookup pk' (s_map (s_put s pk c)) = lookup pk' (s_map s)) as ->.
      { unfold s_put. destruct (lookup pk (s_map s)); auto. simpl. rewrite EQ. auto. }
      rewrite (sim_map _ _ H pk').
      destruct (lookup pk' (m_bag m)) eqn:X; simpl; auto.
      f_equal. symmetry. eapply hget_app; [reflexivity|]. eapply sim_bag; eauto.
  - intros pk' id. destruct (bytes_eqb pk' pk) eqn:EQ; intros E; rewrite app_length; simpl.
    + inversion E. lia.
    + apply (sim_bag _ _ H) in E. lia.
  - intros pk' id h. destruct (bytes_eqb pk' pk) eqn:EQ; intros E1 E2.
    + inversion E1; subst id. apply (sim_ids _ _ H) in E2. lia.
    + apply BR. eapply sim_own; eauto.
  - intros h1 h2 id N E1 E2. apply BR. eapply sim_uniq; eauto.
  - unfold s_put. destruct (lookup pk (s_map s)); simpl; apply (sim_str _ _ H).
Qed.

Lemma sim_put : forall cfg m s k pk c m' ob, sim m s -> mc_proj cfg k = Some pk ->
  put_consistent s pk c = true -> mem_put cfg m k c = (m', ob) ->
  ob = OOk /\ sim m' (s_put s pk c).
Proof.
  intros cfg m s k pk c m' ob H HP HC HM. unfold mem_put in HM. rewrite HP in HM.
  unfold put_consistent in HC. pose proof (sim_map _ _ H pk) as SM.
  destruct (lookup pk (m_bag m)) as [id|] eqn:B; simpl in SM.
  - rewrite SM in HC. apply bytes_eqb_eq in HC.
    destruct (mc_overwrite cfg).
    + inversion HM; subst. split; auto. apply sim_bind; auto; right; rewrite SM; congruence.
    + inversion HM; subst. split; auto.
      unfold s_put. rewrite SM. auto.
  - inversion HM; subst. split; auto. apply sim_bind; auto.
Qed.

Lemma hget_upd_other : forall m id id' c, id <> id' ->
  hget {| m_heap := upd (m_heap m) id c; m_bag := m_bag m; m_hnd := m_hnd m; m_str := m_str m |} id' = hget m id'.
Proof. intros. unfold hget. simpl. apply upd_nth_other. auto. Qed.

Lemma sim_set_str : forall m s l, sim m s -> sim (set_str m l) (s_set_str s l).
Proof.
  intros m s l H. constructor; simpl.
  - apply (sim_hnd _ _ H).
  - apply (sim_ids _ _ H).
  - apply (sim_map _ _ H).
  - apply (sim_bag _ _ H).
  - apply (sim_own _ _ H).
  - apply (sim_uniq _ _ H).
  - reflexivity.
Qed.

Lemma step_sim : forall cfg m s o, sim m s -> op_ok (mc_proj cfg) s o = true ->
  snd (mem_step cfg m o) = snd (spec_step (mc_proj cfg) (mc_storage_api cfg) s o) /\
  sim (fst (mem_step cfg m o)) (fst (spec_step (mc_proj cfg) (mc_storage_api cfg) s o)).
Proof.
  intros cfg m s o H OK.
  pose proof (sim_hnd _ _ H) as HH.
  destruct o; simpl in OK |- *.
  - (* new *) split; auto. apply sim_new_handle. auto.
  - (* mut *)
    destruct (nth_error (s_hnd s) h) as [[old b]|] eqn:SH; try discriminate.
    destruct b; try discriminate.
    pose proof (HH h) as E. unfold handle_buf, s_handle in E. rewrite SH in E.
    destruct (nth_error (m_hnd m) h) as [id|] eqn:MH; try discriminate.
    inversion E as [E']. simpl. split; auto.
    assert (IL : (id < length (m_heap m))%nat) by (eapply sim_ids; eauto).
    assert (NB : ~ borrowed s h). { intros [c' B]. rewrite SH in B. discriminate. }
    constructor; simpl.
    + intros h'. unfold handle_buf, s_handle. simpl.
      destruct (Nat.eq_dec h h').
      * subst h'. rewrite MH. rewrite upd_nth_error_same by (eapply nth_error_lt; eauto).
        f_equal. apply (upd_nth_same (m_heap m) id _ [] IL).
      * rewrite upd_nth_error_other by auto.
        pose proof (HH h') as E2. unfold handle_buf, s_handle in E2.
        destruct (nth_error (m_hnd m) h') as [id'|] eqn:MH'; auto.
        rewrite hget_upd_other. exact E2.
        intros EQ. subst id'. apply NB. eapply sim_uniq; eauto.
    + intros h' id' X. rewrite upd_length. eapply sim_ids; eauto.
    + intros pk. rewrite (sim_map _ _ H pk).
      destruct (lookup pk (m_bag m)) as [id'|] eqn:B; simpl; auto.
      rewrite hget_upd_other; auto.
      intros EQ. subst id'. apply NB. eapply sim_own; eauto.
    + intros pk id' X. rewrite upd_length. eapply sim_bag; eauto.
    + intros pk id' h' X1 X2.
      destruct (sim_own _ _ H pk id' h' X1 X2) as [c' B].
      exists c'. simpl. destruct (Nat.eq_dec h h').
      * subst h'. rewrite SH in B. discriminate.
      * rewrite upd_nth_error_other; auto.
    + intros h1 h2 id' N X1 X2.
      destruct (sim_uniq _ _ H h1 h2 id' N X1 X2) as [c' B].
      exists c'. simpl. destruct (Nat.eq_dec h h1).
      * subst h1. rewrite SH in B. discriminate.
      * rewrite upd_nth_error_other; auto.
    + apply (sim_str _ _ H).
  - (* put *)
    rewrite HH. destruct (s_handle s h) as [c|] eqn:SH; try discriminate.
    destruct (mc_proj cfg k) as [pk|] eqn:P; try discriminate.
    destruct (mem_put cfg m k c) as [m' ob] eqn:MP.
    destruct (sim_put cfg m s k pk c m' ob H P OK MP). subst. simpl. auto.
  - (* put-stream *)
    rewrite (gather_ext _ _ hs HH).
    destruct (gather (s_handle s) hs) as [cs|] eqn:G; try discriminate.
    destruct (mc_proj cfg k) as [pk|] eqn:P; try discriminate.
    destruct (mem_put cfg m k (concat cs)) as [m' ob] eqn:MP.
    destruct (sim_put cfg m s k pk (concat cs) m' ob H P OK MP). subst. simpl. auto.
  - (* put-vec *)
    destruct (mc_storage_api cfg); [|simpl; auto].
    rewrite (gather_ext _ _ hs HH).
    destruct (gather (s_handle s) hs) as [cs|] eqn:G; try discriminate.
    destruct (mc_proj cfg k) as [pk|] eqn:P; try discriminate.
    destruct (mem_put cfg m k (concat cs)) as [m' ob] eqn:MP.
    destruct (sim_put cfg m s k pk (concat cs) m' ob H P OK MP). subst. simpl. auto.
  - (* get *)
    unfold mem_find. destruct (mc_proj cfg k) as [pk|] eqn:P; try discriminate.
    rewrite (sim_map _ _ H pk). destruct (lookup pk (m_bag m)) as [id|] eqn:B; simpl; auto.
    split; auto. apply sim_new_handle. auto.
  - (* get-stream *)
    destruct (mc_storage_api cfg); [|simpl; auto].
    unfold mem_find. destruct (mc_proj cfg k) as [pk|] eqn:P; try discriminate.
    rewrite (sim_map _ _ H pk). destruct (lookup pk (m_bag m)) as [id|] eqn:B; simpl; auto.
  - (* peek: the caller now holds the stored slice itself *)
    destruct (mc_storage_api cfg); [|simpl; auto].
    unfold mem_find. destruct (mc_proj cfg k) as [pk|] eqn:P; try discriminate.
    rewrite (sim_map _ _ H pk). destruct (lookup pk (m_bag m)) as [id|] eqn:B; simpl; auto.
    split; auto.
    pose proof (sim_len _ _ H) as L.
    assert (IL : (id < length (m_heap m))%nat) by (eapply sim_bag; eauto).
    constructor; simpl.
    + intros h. unfold handle_buf, s_handle. simpl.
      destruct (lt_dec h (length (m_hnd m))) as [l|l].
      * rewrite !nth_error_snoc_old by lia. apply (HH h).
      * destruct (Nat.eq_dec h (length (m_hnd m))).
        -- subst h. rewrite nth_error_snoc_new. rewrite L. rewrite nth_error_snoc_new. auto.
        -- rewrite (proj2 (nth_error_None _ _)) by (rewrite app_length; simpl; lia).
           rewrite (proj2 (nth_error_None _ _)) by (rewrite app_length; simpl; lia). auto.
    + intros h id' X. apply nth_error_snoc in X. destruct X as [[_ X]|[_ X]].
      * eapply sim_ids; eauto.
      * subst. auto.
    + intros pk'. apply (sim_map _ _ H pk').
    + intros pk' id' X. eapply sim_bag; eauto.
    + intros pk' id' h X1 X2. apply nth_error_snoc in X2. destruct X2 as [[_ X2]|[X2 _]].
      * apply borrowed_add. eapply sim_own; eauto.
      * subst h. exists (hget m id). unfold s_add. simpl. rewrite L. apply nth_error_snoc_new.
    + intros h1 h2 id' N X1 X2.
      apply nth_error_snoc in X1. apply nth_error_snoc in X2.
      destruct X1 as [[L1 X1]|[L1 X1]]; destruct X2 as [[L2 X2]|[L2 X2]].
      * apply borrowed_add. eapply sim_uniq; eauto.
      * subst id'. apply borrowed_add. eapply sim_own; eauto.
      * subst h1. exists (hget m id). unfold s_add. simpl. rewrite L. apply nth_error_snoc_new.
      * lia.
    + apply (sim_str _ _ H).
  - (* has *)
    destruct (mc_storage_api cfg); [|simpl; auto].
    unfold mem_find. destruct (mc_proj cfg k) as [pk|] eqn:P; try discriminate.
    rewrite (sim_map _ _ H pk). destruct (lookup pk (m_bag m)) as [id|] eqn:B; simpl; auto.
  - (* open a stream *)
    split; auto. rewrite (sim_str _ _ H). apply sim_set_str. auto.
  - (* write to a stream: the buffer copies *)
    rewrite (sim_str _ _ H), HH.
    destruct (nth_error (s_str s) sid) as [[c u]|]; simpl; auto.
    destruct (s_handle s h) as [b|]; simpl; auto. split; auto. apply sim_set_str. auto.
  - (* commit a stream *)
    rewrite (sim_str _ _ H).
    destruct (nth_error (s_str s) sid) as [[c u]|] eqn:ST; try discriminate.
    destruct (mc_proj cfg k) as [pk|] eqn:P; try discriminate.
    apply andb_true_iff in OK. destruct OK as [U PC]. destruct u; try discriminate.
    rewrite !andb_false_r.
    destruct (mem_put cfg (set_str m (upd (s_str s) sid (c, true))) k c) as [m' ob] eqn:MP.
    destruct (sim_put cfg _ (s_set_str s (upd (s_str s) sid (c, true))) k pk c m' ob
                (sim_set_str m s _ H) P PC MP) as [E S'].
    subst. simpl. auto.
Qed.

Theorem mem_refines_from : forall cfg ops m s, sim m s ->
  hist_ok (mc_proj cfg) (mc_storage_api cfg) s ops = true ->
  mem_run cfg m ops = spec_run (mc_proj cfg) (mc_storage_api cfg) s ops.
Proof.
  induction ops; intros m s H OK; simpl in *; auto.
  apply andb_true_iff in OK. destruct OK as [O1 O2].
  destruct (step_sim cfg m s a H O1) as [E S].
  destruct (mem_step cfg m a) as [m1 ob1]. destruct (spec_step (mc_proj cfg) (mc_storage_api cfg) s a) as [s1 ob2].
  simpl in *. subst. f_equal. apply IHops; auto.
Qed.

Theorem mem_refines : forall cfg ops,
  hist_ok (mc_proj cfg) (mc_storage_api cfg) spec_empty ops = true ->
  mem_run cfg mem_empty ops = spec_run (mc_proj cfg) (mc_storage_api cfg) spec_empty ops.
Proof. intros. apply mem_refines_from; auto. apply sim_empty. Qed.

(* ------------------------------------------------------------------ the map view of the spec *)

(* what the specification answers is a function of the finite map alone *)
Lemma spec_reads : forall proj full s k pk, proj k = Some pk ->
  snd (spec_step proj full s (OGet k)) = match lookup pk (s_map s) with Some c => OBytes c | None => OErr E404 end /\
  (full = true ->
   snd (spec_step proj full s (OHas k)) = OBool (match lookup pk (s_map s) with Some _ => true | None => false end) /\
   snd (spec_step proj full s (OGetStream k)) = match lookup pk (s_map s) with Some c => OBytes c | None => OErr E404 end /\
   snd (spec_step proj full s (OPeek k)) = match lookup pk (s_map s) with Some c => OBytes c | None => OErr E404 end).
Proof.
  intros. split.
  - simpl. rewrite H. destruct (lookup pk (s_map s)); auto.
  - intros F. subst full. simpl. rewrite H. destruct (lookup pk (s_map s)); auto.
Qed.

(* keys that differ never alias: a put changes the answer for its own (projected) key only *)
Lemma spec_put_other : forall s pk pk' c, pk <> pk' -> lookup pk' (s_map (s_put s pk c)) = lookup pk' (s_map s).
Proof.
  intros. unfold s_put. destruct (lookup pk (s_map s)); auto. simpl.
  assert (pk' <> pk) by congruence. apply bytes_eqb_neq in H0. rewrite H0. auto.
Qed.

Lemma spec_put_same : forall s pk c, put_consistent s pk c = true -> lookup pk (s_map (s_put s pk c)) = Some c.
Proof.
  intros. unfold s_put, put_consistent in *. destruct (lookup pk (s_map s)) eqn:E.
  - apply bytes_eqb_eq in H. subst. auto.
  - simpl. rewrite bytes_eqb_refl. auto.
Qed.

(* writes by the caller to its own slices leave the map alone *)
Lemma spec_mut_map : forall proj full s h c, s_map (fst (spec_step proj full s (OMut h c))) = s_map s.
Proof. intros. simpl. destruct (nth_error (s_hnd s) h) as [[? ?]|]; auto. Qed.

Lemma spec_new_map : forall proj full s c, s_map (fst (spec_step proj full s (ONew c))) = s_map s.
Proof. intros. auto. Qed.

Definition is_caller_write (o : op) : bool := match o with OMut _ _ | ONew _ => true | _ => false end.

Lemma spec_run_app : forall proj full a s b,
  spec_run proj full s (a ++ b) =
  spec_run proj full s a ++ spec_run proj full (fold_left (fun s o => fst (spec_step proj full s o)) a s) b.
Proof.
  induction a; intros s b; simpl; auto.
  destruct (spec_step proj full s a) as [s1 ob] eqn:E. simpl.
  f_equal. rewrite IHa. replace s1 with (fst (spec_step proj full s a)) by (rewrite E; auto). auto.
Qed.

Lemma fold_caller_writes_map : forall proj full ws s, forallb is_caller_write ws = true ->
  s_map (fold_left (fun s o => fst (spec_step proj full s o)) ws s) = s_map s.
Proof.
  induction ws; intros s H; simpl in *; auto.
  apply andb_true_iff in H. destruct H as [H1 H2]. rewrite IHws by auto.
  destruct a; try discriminate. apply spec_new_map. apply spec_mut_map.
Qed.

(* INSULATION.  After Put(k, slice h) the caller scribbles over any slices it owns (h included):
   Get(k) still returns the bytes h held at the time of the put. *)
Theorem mem_insulated : forall cfg m s k h c ws,
  sim m s -> s_handle s h = Some c ->
  forallb is_caller_write ws = true ->
  hist_ok (mc_proj cfg) (mc_storage_api cfg) s (OPut k h :: ws ++ [OGet k]) = true ->
  last (mem_run cfg m (OPut k h :: ws ++ [OGet k])) OUnit = OBytes c.
Proof.
  intros cfg m s k h c ws H SH W OK.
  rewrite (mem_refines_from cfg _ m s H OK).
  simpl in OK. rewrite SH in OK.
  destruct (mc_proj cfg k) as [pk|] eqn:P; try discriminate.
  apply andb_true_iff in OK. destruct OK as [PC _].
  cbn [spec_run]. cbn [spec_step]. rewrite SH, P.
  remember (s_put s pk c) as s1.
  change (last (OOk :: spec_run (mc_proj cfg) (mc_storage_api cfg) s1 (ws ++ [OGet k])) OUnit = OBytes c).
  rewrite spec_run_app.
  remember (fold_left (fun s o => fst (spec_step (mc_proj cfg) (mc_storage_api cfg) s o)) ws s1) as s2.
  assert (M : lookup pk (s_map s2) = Some c).
  { subst s2. rewrite fold_caller_writes_map by auto. subst s1. apply spec_put_same. auto. }
  simpl spec_run at 2. rewrite P, M.
  rewrite app_comm_cons. rewrite last_last. auto.
Qed.
