(* Proofs/LinkC05.v — C05: Store and ComputeLink agree after every history; the link is a function
   of prototype and value (and of the value up to map order for key-sorting codecs); every stored
   block sits under a link it hashes to; loading a stored link gives back the canonical value and
   the stored bytes. *)
Require Import IP.Base.Bytes IP.DM.Value IP.Codec.Cbor IP.Link.LinkSys IP.Link.LinkSpec.
Require Import IP.Proofs.BytesFacts IP.Proofs.LinkBase IP.Proofs.LinkC06.
From Coq Require Import ZifyN ZifyNat ZifyBool Permutation.
Open Scope N_scope.

Section C05.
  Variable hasher_ok : N -> bool.
  Variable hash : N -> bytes -> bytes.
  Variable encoders : N -> option codec.
  Variable decoders : N -> option codec.

  Notation verify := (verify hash).
  Notation load_any := (load_any hasher_ok hash decoders).
  Notation store := (store hasher_ok hash encoders true).
  Notation compute := (compute hasher_ok hash encoders).
  Notation step := (step hasher_ok hash encoders decoders true).
  Notation run := (run hasher_ok hash encoders decoders true).
  Notation store_plan := (store_plan hasher_ok hash encoders).
  Notation blocks_ok := (blocks_ok hash).
  Notation no_collision := (no_collision hasher_ok hash encoders).

  (* -------------------------------------------------------------- store = compute *)

  Lemma compute_plan lp v :
    match store_plan lp v with
    | Some (l, _) => compute lp v = {| so_status := SOk; so_link := Some l |}
    | None => so_status (compute lp v) <> SOk
    end.
  Proof.
    unfold LinkSpec.store_plan, LinkSys.compute.
    destruct (encoders _) as [c|]; [|discriminate].
    destruct (negb (hasher_ok _)); [discriminate|].
    destruct (c_enc c v) as [chunks|]; [|discriminate].
    destruct (build_link _ _); [reflexivity|discriminate].
  Qed.

  Lemma store_honest sk st lp v :
    store sk honest_w st lp v =
    match store_plan lp v with
    | Some (l, b) => ({| so_status := SOk; so_link := Some l |}, put sk st (skey sk l) b)
    | None => (compute lp v, st)
    end.
  Proof.
    unfold LinkSys.store, LinkSpec.store_plan, LinkSys.compute. cbn [honest_w w_open_err w_cap w_sched w_commit_err].
    destruct (encoders _) as [c|]; [|reflexivity].
    destruct (negb (hasher_ok _)); [reflexivity|].
    destruct (c_enc c v) as [chunks|]; [|reflexivity].
    rewrite write_all_honest. cbn [andb orb].
    destruct (build_link _ _); reflexivity.
  Qed.

  (* whatever state the storage is in, Store returns what ComputeLink returns *)
  Theorem store_eq_compute sk st lp v : fst (store sk honest_w st lp v) = compute lp v.
  Proof.
    rewrite store_honest. pose proof (compute_plan lp v) as P.
    destruct (store_plan lp v) as [[l b]|]; cbn [fst]; auto.
  Qed.

  (* ... in particular after any history of operations (no hidden state) *)
  Corollary store_eq_compute_history sk trusted h lp v :
    fst (store sk honest_w (snd (run sk trusted [] h)) lp v) = compute lp v.
  Proof. apply store_eq_compute. Qed.

  (* the link is the same whatever happened before, and whichever of the two calls makes it *)
  Corollary link_fn_history sk trusted h1 h2 lp v :
    fst (store sk honest_w (snd (run sk trusted [] h1)) lp v) =
    fst (store sk honest_w (snd (run sk trusted [] h2)) lp v).
  Proof. now rewrite !store_eq_compute. Qed.

  (* for a codec whose encoder sorts map entries, the link does not depend on entry order *)
  Theorem link_fn_perm (same : dm -> dm -> Prop) lp c dom v1 v2 :
    encoders (lp_codec lp) = Some c -> order_insensitive same c dom ->
    dom v1 -> dom v2 -> same v1 v2 -> compute lp v1 = compute lp v2.
  Proof.
    intros C O D1 D2 P. unfold LinkSys.compute. rewrite C. now rewrite (O v1 v2 D1 D2 P).
  Qed.

  (* -------------------------------------------------------------- histories *)

  Lemma run_app sk tr st h1 h2 :
    snd (run sk tr st (h1 ++ h2)) = snd (run sk tr (snd (run sk tr st h1)) h2).
  Proof.
    revert st; induction h1 as [|op r IH]; intros st; cbn [app LinkSys.run]; [reflexivity|].
    destruct (step sk tr st op) as [o st1]. specialize (IH st1).
    destruct (run sk tr st1 (r ++ h2)) as [os st2]. cbn [snd] in *.
    destruct (run sk tr st1 r) as [os' st2']. cbn [snd] in *. exact IH.
  Qed.

  Lemma step_state_store sk tr st lp v :
    snd (step sk tr st (OStore lp v)) =
    match store_plan lp v with
    | Some (l, b) => put sk st (skey sk l) b
    | None => st
    end.
  Proof.
    cbn [LinkSys.step]. rewrite store_honest. destruct (store_plan lp v) as [[l b]|]; reflexivity.
  Qed.

  (* a store through a misbehaving writer (Store has the write-error latch): either nothing is
     committed, or it reports Ok with ComputeLink's link and commits exactly what an honest store
     commits *)
  Lemma storeW_cases sk w st lp v :
    snd (store sk w st lp v) = st \/
    exists l b, store_plan lp v = Some (l, b) /\
                store sk w st lp v = ({| so_status := SOk; so_link := Some l |}, put sk st (skey sk l) b).
  Proof.
    destruct (store sk w st lp v) as [s st'] eqn:S. cbn [snd].
    destruct (so_status s) eqn:St; [|left; eapply (store_atomic hasher_ok hash encoders); eauto; congruence
                                    |left; eapply (store_atomic hasher_ok hash encoders); eauto; congruence].
    destruct (encoders (lp_codec lp)) as [c|] eqn:C;
      [|unfold LinkSys.store in S; rewrite C in S; inversion S; subst; discriminate].
    destruct (c_enc c v) as [chunks|] eqn:E.
    2:{ unfold LinkSys.store in S; rewrite C, E in S.
        destruct (negb (hasher_ok _)); [inversion S; subst; discriminate|].
        destruct (w_open_err w); inversion S; subst; discriminate. }
    destruct (store_commits_whole hasher_ok hash encoders true sk w st lp v c chunks s st' C E eq_refl S (or_introl St))
      as (Hs & Hc & Hput).
    destruct (Hput St) as (l & Hl & ->). right.
    pose proof (compute_plan lp v) as CP.
    destruct (store_plan lp v) as [[l0 b0]|] eqn:P; [|congruence].
    assert (b0 = concat chunks).
    { unfold LinkSpec.store_plan in P. rewrite C, E in P.
      destruct (negb (hasher_ok _)); [discriminate|]. destruct (build_link _ _); inversion P; auto. }
    subst b0. rewrite CP in Hs. cbn in Hs. rewrite Hs in Hl. cbn in Hl. inversion Hl; subst l0.
    exists l, (concat chunks). split; [reflexivity|]. rewrite Hs, St. reflexivity.
  Qed.

  (* whatever the writer does, a Store that reports Ok returns ComputeLink's result *)
  Theorem storeW_ok_eq_compute sk w st lp v :
    so_status (fst (store sk w st lp v)) = SOk -> fst (store sk w st lp v) = compute lp v.
  Proof.
    intros Sok. destruct (storeW_cases sk w st lp v) as [E|(l & b & P & E)].
    - (* nothing committed although Ok: only possible when the put was a no-op; use the link *)
      destruct (store sk w st lp v) as [s st'] eqn:S. cbn [fst snd] in *.
      destruct (encoders (lp_codec lp)) as [c|] eqn:C;
        [|unfold LinkSys.store in S; rewrite C in S; inversion S; subst; discriminate].
      destruct (c_enc c v) as [chunks|] eqn:En.
      2:{ unfold LinkSys.store in S; rewrite C, En in S.
          destruct (negb (hasher_ok _)); [inversion S; subst; discriminate|].
          destruct (w_open_err w); inversion S; subst; discriminate. }
      destruct (store_commits_whole hasher_ok hash encoders true sk w st lp v c chunks s st' C En eq_refl S (or_introl Sok))
        as (Hs & Hc & _).
      rewrite Hs, Sok. destruct (compute lp v) as [cs cl]. cbn in *. now subst.
    - rewrite E. cbn [fst]. pose proof (compute_plan lp v) as CP. rewrite P in CP. now rewrite CP.
  Qed.

  Lemma step_state_cases sk tr st op :
    snd (step sk tr st op) = st \/
    exists lp v l b,
      (op = OStore lp v \/ exists w, op = OStoreW w lp v) /\ store_plan lp v = Some (l, b) /\
      snd (step sk tr st op) = put sk st (skey sk l) b.
  Proof.
    destruct op as [lp v|w lp v|lp v|f l]; try (left; reflexivity).
    - rewrite step_state_store. destruct (store_plan lp v) as [[l b]|] eqn:P; [|auto].
      right. exists lp, v, l, b. auto.
    - cbn [LinkSys.step]. destruct (storeW_cases sk w st lp v) as [E|(l & b & P & E)].
      + left. destruct (store sk w st lp v). exact E.
      + right. exists lp, v, l, b. split; [right; eauto|]. split; [exact P|]. now rewrite E.
  Qed.

  Lemma run_cons sk tr st op r :
    snd (run sk tr st (op :: r)) = snd (run sk tr (snd (step sk tr st op)) r).
  Proof.
    cbn [LinkSys.run]. destruct (step sk tr st op) as [o st1]. cbn [snd].
    destruct (run sk tr st1 r) as [os st2]. reflexivity.
  Qed.

  Lemma store_plan_verifies lp v l b : store_plan lp v = Some (l, b) -> verify l b = VOk.
  Proof.
    unfold LinkSpec.store_plan.
    destruct (encoders _) as [c|]; [|discriminate].
    destruct (negb (hasher_ok _)); [discriminate|].
    destruct (c_enc c v) as [chunks|]; [|discriminate].
    destruct (build_link _ _) as [l0|] eqn:B; [|discriminate].
    intros E; inversion E; subst. eapply verify_built; eauto.
  Qed.

  (* the invariant: every stored block sits under the key of a link that its bytes hash to *)
  Theorem blocks_ok_run sk tr h st : blocks_ok sk st -> blocks_ok sk (snd (run sk tr st h)).
  Proof.
    revert st; induction h as [|op r IH]; intros st I; [exact I|].
    rewrite run_cons. apply IH.
    destruct (step_state_cases sk tr st op) as [E|(lp & v & l & b & _ & P & E)]; rewrite E; auto.
    intros k x L. apply lookup_put_cases in L as [[-> ->]|L]; [|auto].
    exists l. split; [reflexivity|]. eapply store_plan_verifies; eauto.
  Qed.

  Corollary blocks_ok_history sk tr h : blocks_ok sk (snd (run sk tr [] h)).
  Proof. apply blocks_ok_run. intros k b L. discriminate. Qed.

  (* a key that holds b, or nothing, keeps doing so while no store collides on it *)
  Lemma run_keeps_or_none sk tr k b h st :
    no_collision sk k b h ->
    (lookup st k = None \/ lookup st k = Some b) ->
    let st' := snd (run sk tr st h) in lookup st' k = None \/ lookup st' k = Some b.
  Proof.
    revert st; induction h as [|op r IH]; intros st NC L; [exact L|].
    cbv zeta. rewrite run_cons. inversion NC as [|? ? Hop Hr]; subst. apply IH; auto.
    destruct (step_state_cases sk tr st op) as [E0|(lp & v & l' & b' & Hop' & P & E0)]; rewrite E0; auto.
    assert (Hop2 : skey sk l' = k -> b' = b).
    { destruct Hop' as [-> |[w ->]]; cbn in Hop; rewrite P in Hop; exact Hop. }
    clear Hop. rename Hop2 into Hop.
    destruct (bytes_eqb k (skey sk l')) eqn:E.
    - apply bytes_eqb_eq in E. subst k. rewrite (Hop eq_refl) in *. rewrite lookup_put_same.
      destruct L as [-> | ->]; [auto|]. destruct (sk_overwrite sk); auto.
    - rewrite lookup_put_other; auto. intros ->. rewrite bytes_eqb_refl in E. discriminate.
  Qed.

  Lemma run_keeps sk tr k b h st :
    no_collision sk k b h -> lookup st k = Some b -> lookup (snd (run sk tr st h)) k = Some b.
  Proof.
    intros NC L. destruct (run_keeps_or_none sk tr k b h st NC (or_intror L)) as [N|S]; auto.
    exfalso. revert st L N. induction h as [|op r IH]; intros st L N; [cbn in N; congruence|].
    rewrite run_cons in N. inversion NC as [|? ? Hop Hr]; subst.
    apply (IH Hr (snd (step sk tr st op))); [|exact N].
    destruct (step_state_cases sk tr st op) as [E0|(lp & v & l' & b' & Hop' & P & E0)]; rewrite E0; auto.
    assert (Hop2 : skey sk l' = k -> b' = b).
    { destruct Hop' as [-> |[w ->]]; cbn in Hop; rewrite P in Hop; exact Hop. }
    clear Hop. rename Hop2 into Hop.
    destruct (bytes_eqb k (skey sk l')) eqn:E.
    - apply bytes_eqb_eq in E. subst k. rewrite (Hop eq_refl) in *. rewrite lookup_put_same, L.
      destruct (sk_overwrite sk); auto.
    - rewrite lookup_put_other; auto. intros ->. rewrite bytes_eqb_refl in E. discriminate.
  Qed.

  (* after a history in which the store of (lp, v) is not collided with, the block is there *)
  Lemma stored_block_present sk tr h1 h2 lp v l b :
    store_plan lp v = Some (l, b) ->
    no_collision sk (skey sk l) b (h1 ++ OStore lp v :: h2) ->
    lookup (snd (run sk tr [] (h1 ++ OStore lp v :: h2))) (skey sk l) = Some b.
  Proof.
    intros P NC. apply Forall_app in NC as [NC1 NC2]. inversion NC2 as [|? ? _ NC3]; subst.
    rewrite run_app, run_cons. apply run_keeps; auto.
    rewrite step_state_store, P, lookup_put_same.
    destruct (run_keeps_or_none sk tr (skey sk l) b h1 [] NC1 (or_introl eq_refl)) as [-> | ->]; auto.
    destruct (sk_overwrite sk); auto.
  Qed.

  (* loading a block that verifies and decodes, from honest storage *)
  Lemma load_present sk tr st f l b cl v' e :
    lookup st (skey sk l) = Some b -> verify l b = VOk ->
    hasher_ok (lp_mhtype (link_proto l)) = true ->
    decoders (lp_codec (link_proto l)) = Some cl -> c_dec cl b = Some (v', lenN b, e) ->
    load_any f tr (honest_read sk st l) l = loaded f v' b.
  Proof.
    intros L V H C D. unfold honest_read. rewrite L.
    assert (R : load_raw hasher_ok hash (RStream [b] TEof) l =
                {| lo_status := SOk; lo_node := None; lo_raw := Some b |}).
    { unfold LinkSys.load_raw. rewrite H. cbn [negb concat]. rewrite app_nil_r, V. reflexivity. }
    assert (F : fill hasher_ok hash decoders tr (RStream [b] TEof) l =
                {| lo_status := SOk; lo_node := Some v'; lo_raw := None |}).
    { unfold LinkSys.fill. rewrite C, H. cbn [negb concat]. rewrite app_nil_r.
      unfold stream_dec. rewrite D. destruct tr; [reflexivity|].
      now rewrite prefixN_all, V. }
    destruct f; cbn [LinkSys.load_any loaded]; auto.
    unfold LinkSys.load_plus_raw. rewrite C, R. cbn [lo_status lo_raw]. now rewrite D.
  Qed.

  (* C05_store_load *)
  Theorem store_load sk tr h1 h2 lp v l b f cl v' e :
    store_plan lp v = Some (l, b) ->
    no_collision sk (skey sk l) b (h1 ++ OStore lp v :: h2) ->
    decoders (lp_codec (link_proto l)) = Some cl -> c_dec cl b = Some (v', lenN b, e) ->
    let st := snd (run sk tr [] (h1 ++ OStore lp v :: h2)) in
    load_any f tr (honest_read sk st l) l = loaded f v' b /\ verify l b = VOk.
  Proof.
    intros P NC C D st. pose proof (store_plan_verifies _ _ _ _ P) as V. split; [|exact V].
    eapply load_present; eauto.
    - subst st. apply stored_block_present; auto.
    - (* the hasher was available to the store *)
      unfold LinkSpec.store_plan in P.
      destruct (encoders (lp_codec lp)) as [c|]; [|discriminate].
      destruct (hasher_ok (lp_mhtype lp)) eqn:H; [|discriminate]. cbn [negb] in P.
      destruct (c_enc c v); [|discriminate].
      destruct (build_link lp _) as [lb|] eqn:B; [|discriminate]. inversion P; subst.
      now rewrite (build_link_mhtype _ _ _ B).
  Qed.

  (* with the codec's round-trip law: the node read back is the canonicalised value.  For a CIDv1
     prototype the decoder chosen for the link is the codec the prototype named. *)
  Theorem store_load_roundtrip sk tr h1 h2 lp v l b f c dom canon :
    lp_version lp = 1 ->
    encoders (lp_codec lp) = Some c -> decoders (lp_codec lp) = Some c ->
    roundtrips c dom canon -> dom v ->
    store_plan lp v = Some (l, b) ->
    no_collision sk (skey sk l) b (h1 ++ OStore lp v :: h2) ->
    let st := snd (run sk tr [] (h1 ++ OStore lp v :: h2)) in
    load_any f tr (honest_read sk st l) l = loaded f (canon v) b /\ verify l b = VOk.
  Proof.
    intros V1 C Cd RT Dv P NC.
    assert (Hb : exists chunks, c_enc c v = Some chunks /\ b = concat chunks /\
                                lp_codec (link_proto l) = lp_codec lp).
    { unfold LinkSpec.store_plan in P. rewrite C in P.
      destruct (negb (hasher_ok _)); [discriminate|].
      destruct (c_enc c v) as [chunks|]; [|discriminate].
      destruct (build_link lp _) as [lb|] eqn:B; [|discriminate]. inversion P; subst.
      exists chunks. repeat split.
      unfold build_link in B. rewrite V1 in B. cbn [N.eqb Pos.eqb andb] in B.
      match type of B with match ?x with _ => _ end = _ => destruct x; [|discriminate] end.
      inversion B; subst. reflexivity. }
    destruct Hb as (chunks & E & -> & LC).
    apply (store_load sk tr h1 h2 lp v l (concat chunks) f c (canon v) true); auto.
    now rewrite LC.
  Qed.
End C05.

(* ------------------------------------------------------------------ laws for the codecs modelled *)

Lemma raw_roundtrips : roundtrips raw_codec (fun _ => True) (fun v => v).
Proof.
  intros v chunks _. destruct v; cbn; try discriminate. intros E; inversion E; subst. cbn.
  now rewrite app_nil_r.
Qed.

(* ------------------------------------------------------------------ witnesses *)

Example store_load_hyp_sat :
  exists l b,
    store_plan toy_ok toy_hash toy_registry toy_lp (DBytes [5; 6]) = Some (l, b) /\
    no_collision toy_ok toy_hash toy_registry memstore_kind (skey memstore_kind l) b
      ([OCompute toy_lp DNull] ++ OStore toy_lp (DBytes [5; 6]) :: [OStore toy_lp (DBytes [1])]) /\
    toy_registry (lp_codec (link_proto l)) = Some raw_codec /\
    c_dec raw_codec b = Some (DBytes [5; 6], lenN b, true).
Proof.
  eexists. eexists. split; [vm_compute; reflexivity|]. split; [|split; vm_compute; reflexivity].
  repeat constructor; vm_compute; intros H; try reflexivity; discriminate.
Qed.

(* two stores whose (here: one-byte-of-content) digests coincide do collide: the hypothesis
   [no_collision] is not vacuous and cannot be dropped — the second value is what memstore keeps *)
Example collision_possible :
  let h := [OStore toy_lp (DBytes [5; 6]); OStore toy_lp (DBytes [5; 7]); OLoad FLoadRaw
            {| l_v0 := false; l_codec := 85; l_mhtype := 18; l_digest := [2; 5] |}] in
  fst (run toy_ok toy_hash toy_registry toy_registry true cidmem_kind false [] h) =
  [OutS {| so_status := SOk; so_link := Some {| l_v0 := false; l_codec := 85; l_mhtype := 18; l_digest := [2; 5] |} |};
   OutS {| so_status := SOk; so_link := Some {| l_v0 := false; l_codec := 85; l_mhtype := 18; l_digest := [2; 5] |} |};
   OutL {| lo_status := SOk; lo_node := None; lo_raw := Some [5; 7] |}].
Proof. vm_compute. reflexivity. Qed.
