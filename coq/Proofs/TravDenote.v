(* Proofs/TravDenote.v — C07: the walk of the repaired model visits exactly what the selector denotes.
   The runtime selector (a rewritten tree) is related to the specification's thread set by [rep];
   Explore / Interests / Match of the code correspond to sstep / sinterests / smatch on rep. *)
Require Import IP.Base.Bytes IP.DM.Value IP.Base.GoSem IP.Trav.Selector IP.Trav.Walk IP.Trav.SelectorSpec
  IP.Proofs.TravFacts IP.Proofs.TravSel IP.Proofs.TravSlice.
From Coq Require Import Lia.
Open Scope Z_scope.

(* ------------------------------------------------------------------ named inner loops *)
Fixpoint explore_all (q : quirks) (ms : list sel) (n : dm) (p : seg) : xr (list sel) :=
  match ms with
  | [] => XOk []
  | m :: t => match explore q m n p with
              | XOk r => match explore_all q t n p with
                         | XOk rs => XOk (match r with Some x => x :: rs | None => rs end)
                         | XErr => XErr
                         | XPanic => XPanic
                         end
              | XErr => XErr
              | XPanic => XPanic
              end
  end.
Lemma explore_union q ms n p :
  explore q (SUnion ms) n p =
  match explore_all q ms n p with XOk l => XOk (union_of l) | XErr => XErr | XPanic => XPanic end.
Proof.
  cbn. match goal with |- match ?a with _ => _ end = match ?b with _ => _ end => replace a with b; [reflexivity|] end.
  induction ms as [|m t IH]; [reflexivity|]. cbn. destruct (explore q m n p); try reflexivity. rewrite IH. reflexivity.
Qed.

Fixpoint wrap_list (sq : sel) (lim : option Z) (stop : option bytes) (ms : list sel) : list sel :=
  match ms with
  | [] => []
  | m :: t => match wrap_members sq lim stop m with
              | Some m' => m' :: wrap_list sq lim stop t
              | None => wrap_list sq lim stop t
              end
  end.
Lemma wrap_members_union sq lim stop m ms :
  wrap_members sq lim stop (SUnion (m :: ms)) = union_of (wrap_list sq lim stop (m :: ms)).
Proof.
  cbn [wrap_members wrap_list].
  match goal with |- union_of (match _ with Some m' => m' :: ?F ms | None => _ end) = _ =>
    assert (E : forall l, F l = wrap_list sq lim stop l) end.
  { induction l as [|x t IH]; [reflexivity|]. cbn [wrap_list]. destruct (wrap_members sq lim stop x); rewrite IH; reflexivity. }
  rewrite E. reflexivity.
Qed.

Fixpoint interests_all (ms : list sel) : option (list seg) :=
  match ms with
  | [] => Some []
  | m :: t => match interests m, interests_all t with Some a, Some b => Some (a ++ b) | _, _ => None end
  end.
Lemma interests_union ms : interests (SUnion ms) = interests_all ms.
Proof. cbn [interests]. induction ms as [|m t IH]; [reflexivity|]. cbn [interests_all]. rewrite <- IH. reflexivity. Qed.

Fixpoint has_edge_any (ms : list sel) : bool :=
  match ms with [] => false | m :: t => has_edge m || has_edge_any t end.
Lemma has_edge_union ms : has_edge (SUnion ms) = has_edge_any ms.
Proof. cbn [has_edge]. induction ms as [|m t IH]; [reflexivity|]. cbn [has_edge_any]. rewrite <- IH. reflexivity. Qed.

(* ------------------------------------------------------------------ rep: runtime selector -> threads *)
Definition mkframe (sq : sel) (lim : option Z) (stop : option bytes) : frame :=
  {| fr_seq := sq; fr_lim := lim; fr_stop := stop |}.

Fixpoint rep (s : sel) (fr : list frame) : list thr :=
  match s with
  | SUnion [] => [Thr s fr]
  | SUnion ms => (fix go (l : list sel) : list thr :=
                    match l with [] => [] | m :: t => rep m fr ++ go t end) ms
  | SRec sq cur lim stop => let fr' := mkframe sq lim stop :: fr in or_nop fr' (rep cur fr')
  | SEdge => []
  | _ => [Thr s fr]
  end.
Fixpoint rep_list (ms : list sel) (fr : list frame) : list thr :=
  match ms with [] => [] | m :: t => rep m fr ++ rep_list t fr end.
Lemma rep_union m ms fr : rep (SUnion (m :: ms)) fr = rep_list (m :: ms) fr.
Proof.
  cbn [rep rep_list]. f_equal.
  match goal with |- ?F ms = _ => assert (E : forall l, F l = rep_list l fr) end.
  { induction l as [|x t IH]; [reflexivity|]. cbn [rep_list]. rewrite IH. reflexivity. }
  apply E.
Qed.

Fixpoint enter0_list (ms : list sel) (fr : list frame) : list thr :=
  match ms with [] => [] | m :: t => enter0 m fr ++ enter0_list t fr end.
Lemma enter0_union m ms fr : enter0 (SUnion (m :: ms)) fr = enter0_list (m :: ms) fr.
Proof.
  cbn [enter0 enter0_list]. f_equal.
  match goal with |- ?F ms = _ => assert (E : forall l, F l = enter0_list l fr) end.
  { induction l as [|x t IH]; [reflexivity|]. cbn [enter0_list]. rewrite IH. reflexivity. }
  apply E.
Qed.
Fixpoint enter_list (ms : list sel) (fr : list frame) : list thr :=
  match ms with [] => [] | m :: t => enter m fr ++ enter_list t fr end.
Lemma enter_union m ms fr : enter (SUnion (m :: ms)) fr = enter_list (m :: ms) fr.
Proof.
  cbn [enter enter_list]. f_equal.
  match goal with |- ?F ms = _ => assert (E : forall l, F l = enter_list l fr) end.
  { induction l as [|x t IH]; [reflexivity|]. cbn [enter_list]. rewrite IH. reflexivity. }
  apply E.
Qed.

(* live representation of a raw Explore result: top-level (union-level) edges re-enter the innermost frame *)
Definition reenter (fr : list frame) : list thr :=
  match fr with
  | [] => []
  | f :: rest =>
      if exhausted (fr_lim f) then []
      else let fr' := mkframe (fr_seq f) (lim_pred (fr_lim f)) (fr_stop f) :: rest in
           or_nop fr' (enter0 (fr_seq f) fr')
  end.
Fixpoint lrep (s : sel) (fr : list frame) : list thr :=
  match s with
  | SEdge => reenter fr
  | SUnion [] => [Thr s fr]
  | SUnion ms => (fix go (l : list sel) : list thr :=
                    match l with [] => [] | m :: t => lrep m fr ++ go t end) ms
  | _ => rep s fr
  end.
Fixpoint lrep_list (ms : list sel) (fr : list frame) : list thr :=
  match ms with [] => [] | m :: t => lrep m fr ++ lrep_list t fr end.
Lemma lrep_union m ms fr : lrep (SUnion (m :: ms)) fr = lrep_list (m :: ms) fr.
Proof.
  cbn [lrep lrep_list]. f_equal.
  match goal with |- ?F ms = _ => assert (E : forall l, F l = lrep_list l fr) end.
  { induction l as [|x t IH]; [reflexivity|]. cbn [lrep_list]. rewrite IH. reflexivity. }
  apply E.
Qed.
Definition lrep_opt (r : option sel) (fr : list frame) : list thr :=
  match r with Some s => lrep s fr | None => [] end.

(* ------------------------------------------------------------------ well-formedness *)
(* srcw b s: s is a declared (source) selector — every ExploreRecursive still has current = sequence — and
   edges occur only beneath a recursion (b = "an enclosing recursion exists") *)
Inductive srcw : bool -> sel -> Prop :=
| sw_match b sl : slice_ok sl -> srcw b (SMatch sl)
| sw_all b nx : srcw b nx -> srcw b (SAll nx)
| sw_fields b fs : Forall (fun kv => srcw b (snd kv)) fs -> srcw b (SFields fs)
| sw_index b i nx : srcw b nx -> srcw b (SIndex i nx)
| sw_range b x y nx : srcw b nx -> srcw b (SRange x y nx)
| sw_union b ms : Forall (srcw b) ms -> srcw b (SUnion ms)
| sw_rec b sq lim stop : srcw true sq -> srcw b (SRec sq sq lim stop)
| sw_edge : srcw true SEdge.

(* rt b s: a selector as it occurs during a walk *)
Inductive rt : bool -> sel -> Prop :=
| rt_match b sl : slice_ok sl -> rt b (SMatch sl)
| rt_all b nx : srcw b nx -> rt b (SAll nx)
| rt_fields b fs : Forall (fun kv => srcw b (snd kv)) fs -> rt b (SFields fs)
| rt_index b i nx : srcw b nx -> rt b (SIndex i nx)
| rt_range b x y nx : srcw b nx -> rt b (SRange x y nx)
| rt_union b ms : Forall (rt b) ms -> rt b (SUnion ms)
| rt_rec b sq cur lim stop : srcw true sq -> rt true cur -> rt b (SRec sq cur lim stop)
| rt_edge : rt true SEdge.

Lemma srcw_rt s : forall b, srcw b s -> rt b s.
Proof.
  induction s as [sl|nx IH|fs IH|i nx IH|a b' nx IH|ms IH|sq cur lim stop IH1 IH2|] using sel_ind2;
    intros b H; inversion H; subst; try (constructor; assumption).
  - constructor. rewrite Forall_forall in *. intros x Hx. apply IH; auto.
  - constructor; [assumption|]. apply IH2. assumption.
Qed.

Lemma srcw_weaken s : forall b, srcw b s -> srcw true s.
Proof.
  induction s as [sl|nx IH|fs IH|i nx IH|a b' nx IH|ms IH|sq cur lim stop IH1 IH2|] using sel_ind2;
    intros b H; inversion H; subst; try (constructor; eauto).
  - rewrite Forall_forall in *. intros x Hx. eapply IH; eauto.
  - rewrite Forall_forall in *. intros x Hx. eapply IH; eauto.
Qed.

Lemma rt_weaken s : forall b, rt b s -> rt true s.
Proof.
  induction s as [sl|nx IH|fs IH|i nx IH|a b' nx IH|ms IH|sq cur lim stop IH1 IH2|] using sel_ind2;
    intros b H; inversion H; subst; try (constructor; eauto using srcw_weaken).
  - rewrite Forall_forall in *. intros x Hx. eapply srcw_weaken; eauto.
  - rewrite Forall_forall in *. intros x Hx. eapply IH; eauto.
Qed.

Lemma rt_closed s : rt false s -> has_edge s = false.
Proof.
  induction s as [sl|nx IH|fs IH|i nx IH|a b' nx IH|ms IH|sq cur lim stop IH1 IH2|] using sel_ind2;
    intros H; inversion H; subst; try reflexivity.
  rewrite has_edge_union. induction ms as [|m t IHt]; [reflexivity|].
  inversion IH; subst. inversion H2; subst. cbn. rewrite H3 by assumption. apply IHt; auto. constructor; assumption.
Qed.

(* ------------------------------------------------------------------ rep / lrep facts *)
Lemma or_nop_nonempty fr l : or_nop fr l <> [].
Proof. destruct l; cbn; discriminate. Qed.
Lemma or_nop_id fr l : l <> [] -> or_nop fr l = l.
Proof. destruct l; [congruence|reflexivity]. Qed.

Lemma rep_src s : forall b fr, srcw b s -> rep s fr = enter0 s fr.
Proof.
  induction s as [sl|nx IH|fs IH|i nx IH|a b' nx IH|ms IH|sq cur lim stop IH1 IH2|] using sel_ind2;
    intros b fr H; try reflexivity.
  - destruct ms as [|m ms]; [reflexivity|]. rewrite rep_union, enter0_union.
    inversion H; subst. clear H. revert IH H2. generalize (m :: ms). intros l IH Hl.
    induction l as [|x t IHt]; [reflexivity|]. inversion IH; subst. inversion Hl; subst.
    cbn. erewrite H1 by eassumption. rewrite IHt by assumption. reflexivity.
  - inversion H; subst. cbn [rep enter0]. unfold mkframe. erewrite IH1 by eassumption. reflexivity.
Qed.

Lemma lrep_src s : forall b fr, srcw b s -> lrep s fr = enter s fr.
Proof.
  induction s as [sl|nx IH|fs IH|i nx IH|a b' nx IH|ms IH|sq cur lim stop IH1 IH2|] using sel_ind2;
    intros b fr H; try reflexivity.
  - destruct ms as [|m ms]; [reflexivity|]. rewrite lrep_union, enter_union.
    inversion H; subst. clear H. revert IH H2. generalize (m :: ms). intros l IH Hl.
    induction l as [|x t IHt]; [reflexivity|]. inversion IH; subst. inversion Hl; subst.
    cbn. erewrite H1 by eassumption. rewrite IHt by assumption. reflexivity.
  - inversion H; subst. cbn [lrep rep enter]. unfold mkframe. erewrite rep_src by eassumption. reflexivity.
Qed.

Lemma lrep_noedge s : forall fr, has_edge s = false -> lrep s fr = rep s fr.
Proof.
  induction s as [sl|nx IH|fs IH|i nx IH|a b' nx IH|ms IH|sq cur lim stop IH1 IH2|] using sel_ind2;
    intros fr H; try reflexivity; try discriminate.
  destruct ms as [|m ms]; [reflexivity|]. rewrite lrep_union, rep_union. rewrite has_edge_union in H.
  revert IH H. generalize (m :: ms). intros l IH Hl.
  induction l as [|x t IHt]; [reflexivity|]. inversion IH; subst. cbn in Hl. apply orb_false_iff in Hl.
  destruct Hl as [Hx Ht]. cbn. rewrite H1 by assumption. rewrite IHt by assumption. reflexivity.
Qed.

(* anything that is not an edge and not a non-empty union stands for at least one thread *)
Definition atomic (s : sel) : bool :=
  match s with SEdge => false | SUnion (_ :: _) => false | _ => true end.
Lemma rep_atomic s fr : atomic s = true -> rep s fr <> [].
Proof.
  destruct s; cbn; try discriminate.
  - destruct ms; [discriminate|]. discriminate.
  - intros _. apply or_nop_nonempty.
Qed.

Lemma rep_closed_nonempty s : forall fr, rt false s -> rep s fr <> [].
Proof.
  induction s as [sl|nx IH|fs IH|i nx IH|a b' nx IH|ms IH|sq cur lim stop IH1 IH2|] using sel_ind2;
    intros fr H; try (cbn; discriminate).
  - destruct ms as [|m ms]; [cbn; discriminate|]. rewrite rep_union. inversion H; subst.
    inversion IH; subst. inversion H2; subst. cbn. intros E. apply app_eq_nil in E. destruct E as [E _].
    eapply H3; eauto.
  - cbn. apply or_nop_nonempty.
  - inversion H.
Qed.

Definition orep (r : option sel) (fr : list frame) : list thr :=
  match r with Some s => rep s fr | None => [] end.

Lemma orep_union_of l fr : orep (union_of l) fr = rep_list l fr.
Proof.
  destruct l as [|x [|y t]]; cbn [union_of orep rep_list]; [reflexivity|rewrite app_nil_r; reflexivity|].
  apply rep_union.
Qed.
Lemma lrep_union_of l fr : lrep_opt (union_of l) fr = lrep_list l fr.
Proof.
  destruct l as [|x [|y t]]; cbn [union_of lrep_opt lrep_list]; [reflexivity|rewrite app_nil_r; reflexivity|].
  apply lrep_union.
Qed.

(* ------------------------------------------------------------------ the recursion wrapper *)
Lemma wrap_rep sq lim stop (Hsq : srcw true sq) nx : forall fr,
  orep (wrap_members sq lim stop nx) fr = lrep nx (mkframe sq lim stop :: fr).
Proof.
  induction nx as [sl|nx0 IH|fs IH|i nx0 IH|a b' nx0 IH|ms IH|sq' cur lim' stop' IH1 IH2|] using sel_ind2;
    intros fr;
    try (cbn [wrap_members orep rep lrep]; fold (mkframe sq lim stop); reflexivity).
  - (* union *)
    destruct ms as [|m ms].
    + cbn [wrap_members orep rep lrep or_nop]. reflexivity.
    + rewrite wrap_members_union, orep_union_of, lrep_union.
      revert IH. generalize (m :: ms). intros l IH.
      induction l as [|x t IHt]; [reflexivity|]. inversion IH; subst.
      cbn [wrap_list lrep_list]. rewrite <- H1, <- IHt by assumption.
      destruct (wrap_members sq lim stop x); reflexivity.
  - (* a nested recursion: wrapped as a whole; it stands for at least one thread *)
    cbn [wrap_members orep]. cbn [rep]. fold (mkframe sq lim stop).
    rewrite or_nop_id; [reflexivity|]. apply or_nop_nonempty.
  - (* an edge: a fresh iteration with the depth decremented, or nothing when exhausted *)
    cbn [wrap_members lrep reenter fr_lim fr_seq fr_stop mkframe].
    destruct (exhausted lim); [reflexivity|].
    cbn [orep rep]. unfold mkframe. erewrite rep_src by eassumption. reflexivity.
Qed.

Lemma wrap_rt sq lim stop (Hsq : srcw true sq) nx : forall b w,
  rt true nx -> wrap_members sq lim stop nx = Some w -> rt b w.
Proof.
  induction nx as [sl|nx0 IH|fs IH|i nx0 IH|a b' nx0 IH|ms IH|sq' cur lim' stop' IH1 IH2|] using sel_ind2;
    intros b w Hn Hw;
    try (cbn in Hw; inversion Hw; subst; constructor; assumption).
  - destruct ms as [|m ms].
    + cbn in Hw. inversion Hw; subst. constructor; assumption.
    + rewrite wrap_members_union in Hw. inversion Hn; subst.
      assert (Hl : Forall (rt b) (wrap_list sq lim stop (m :: ms))).
      { revert IH H1. generalize (m :: ms). intros l IH Hl.
        induction l as [|x t IHt]; [constructor|]. inversion IH; subst. inversion Hl; subst.
        cbn [wrap_list]. destruct (wrap_members sq lim stop x) eqn:E; [constructor|]; eauto. }
      destruct (wrap_list sq lim stop (m :: ms)) as [|x [|y t]]; cbn in Hw; inversion Hw; subst.
      * inversion Hl; assumption.
      * constructor; assumption.
  - cbn in Hw. destruct (exhausted lim); inversion Hw; subst. constructor; [assumption|].
    apply srcw_rt. assumption.
Qed.

(* ------------------------------------------------------------------ Explore = sstep on rep *)
Lemma seg_index_of_int i : seg_index (seg_of_int i) = if i <? 0 then None else Some i.
Proof. unfold seg_of_int. destruct (i <? 0); reflexivity. Qed.

Lemma assoc_Forall {V} (P : V -> Prop) k (l : list (bytes * V)) v :
  Forall (fun kv => P (snd kv)) l -> assoc k l = Some v -> P v.
Proof.
  induction 1 as [|[k' v'] l H Hl IH]; cbn; [discriminate|].
  destruct (bytes_eqb k k'); [intros E; inversion E; subst; exact H|exact IH].
Qed.

Lemma flat_map_or_nop n ps v fr l :
  flat_map (sstep n ps v) (or_nop fr l) = flat_map (sstep n ps v) l.
Proof.
  destruct l; [|reflexivity]. cbn. destruct (stopped fr v); reflexivity.
Qed.

Definition explore_ok (s : sel) : Prop :=
  forall b fr n ps v,
    rt b s -> lookup_seg n ps = Some v -> stopped fr v = false ->
    exists r, explore repaired s n ps = XOk r /\
              (forall s', r = Some s' -> rt b s') /\
              lrep_opt r fr = flat_map (sstep n ps v) (rep s fr).

(* the frame stacks of rep s fr all end in fr *)
Definition thr_frames (t : thr) : list frame := match t with Thr _ f => f end.
Lemma rep_frames s : forall fr, Forall (fun t => exists pre, thr_frames t = pre ++ fr) (rep s fr).
Proof.
  induction s as [sl|nx IH|fs IH|i nx IH|a b' nx IH|ms IH|sq cur lim stop IH1 IH2|] using sel_ind2;
    intros fr; try (constructor; [exists []; reflexivity|constructor]).
  - destruct ms as [|m ms]; [constructor; [exists []; reflexivity|constructor]|].
    rewrite rep_union. revert IH. generalize (m :: ms). intros l IH.
    induction l as [|x t IHt]; [constructor|]. inversion IH; subst. cbn. apply Forall_app. split; auto.
  - cbn [rep]. specialize (IH2 (mkframe sq lim stop :: fr)).
    destruct (rep cur (mkframe sq lim stop :: fr)) as [|t l] eqn:E; cbn [or_nop].
    + constructor; [exists [mkframe sq lim stop]; reflexivity|constructor].
    + eapply Forall_impl; [|exact IH2]. intros a [pre Hp]. exists (pre ++ [mkframe sq lim stop]).
      rewrite <- app_assoc. exact Hp.
  - constructor.
Qed.

Lemma stopped_app a b v : stopped (a ++ b) v = (stopped a v || stopped b v)%bool.
Proof. unfold stopped. apply existsb_app. Qed.

Lemma sstep_dead n ps v fr l :
  stopped fr v = true -> Forall (fun t => exists pre, thr_frames t = pre ++ fr) l ->
  flat_map (sstep n ps v) l = [].
Proof.
  intros Hs H. induction H as [|t l [pre Hp] Hl IH]; [reflexivity|].
  cbn [flat_map]. rewrite IH, app_nil_r. destruct t as [pos frt]. cbn in Hp. subst frt.
  cbn [sstep]. rewrite stopped_app, Hs, orb_true_r. reflexivity.
Qed.

Ltac fin := split; [reflexivity|split; [intros ? E; try discriminate E; inversion E; subst|]].

Lemma explore_sstep : forall s, explore_ok s.
Proof.
  induction s as [sl|nx IH|fs IH|i nx IH|a b' nx IH|ms IH|sq cur lim stop IH1 IH2|] using sel_ind2;
    intros b fr n ps v Hrt Hl Hs.
  - (* matcher *)
    exists None. cbn. rewrite Hs. fin. reflexivity.
  - (* all *)
    inversion Hrt; subst. exists (Some nx). cbn. rewrite Hs, app_nil_r. fin.
    + apply srcw_rt; assumption.
    + eapply lrep_src; eassumption.
  - (* fields *)
    inversion Hrt; subst. exists (assoc (seg_string ps) fs). cbn. rewrite Hs, app_nil_r.
    destruct (assoc (seg_string ps) fs) as [nx|] eqn:E0; fin; try reflexivity.
    + apply srcw_rt. eapply (assoc_Forall (srcw b)); eassumption.
    + eapply lrep_src. eapply (assoc_Forall (srcw b)); eassumption.
  - (* index *)
    inversion Hrt; subst. cbn [explore rep flat_map sstep]. rewrite Hs, app_nil_r, seg_index_of_int.
    destruct n; cbn [is_list andb];
      try (exists None; destruct (seg_index ps); fin; reflexivity).
    destruct (seg_index ps) as [x|]; [|exists None; fin; reflexivity].
    destruct (Z.ltb_spec i 0).
    + exists None. replace (0 <=? i) with false by (symmetry; apply Z.leb_gt; lia). fin. reflexivity.
    + replace (0 <=? i) with true by (symmetry; apply Z.leb_le; lia). cbn [andb].
      destruct (x =? i); [exists (Some nx)|exists None]; fin; try reflexivity.
      * apply srcw_rt; assumption.
      * eapply lrep_src; eassumption.
  - (* range *)
    inversion Hrt; subst. cbn [explore rep flat_map sstep]. rewrite Hs, app_nil_r.
    destruct n; cbn [is_list andb];
      try (exists None; destruct (seg_index ps); fin; reflexivity).
    destruct (seg_index ps) as [x|]; [|exists None; fin; reflexivity].
    destruct (Z.ltb_spec x a); destruct (Z.leb_spec b' x); cbn [orb];
      destruct (Z.leb_spec a x); destruct (Z.ltb_spec x b'); try lia; cbn [andb];
      try (exists None; fin; reflexivity).
    exists (Some nx). fin.
    + apply srcw_rt; assumption.
    + eapply lrep_src; eassumption.
  - (* union *)
    destruct ms as [|m ms].
    + exists None. cbn. rewrite Hs. fin. reflexivity.
    + rewrite explore_union, rep_union. inversion Hrt; subst.
      assert (Hall : exists rs, explore_all repaired (m :: ms) n ps = XOk rs /\ Forall (rt b) rs /\
                                lrep_list rs fr = flat_map (sstep n ps v) (rep_list (m :: ms) fr)).
      { revert IH H1. generalize (m :: ms). intros l IH Hlr.
        induction l as [|x t IHt]; [exists []; repeat split; constructor|].
        inversion IH as [|? ? Hx Ht]; subst. inversion Hlr as [|? ? Rx Rt]; subst.
        destruct (Hx b fr n ps v Rx Hl Hs) as (r & Er & Rr & Lr).
        destruct (IHt Ht Rt) as (rs & Ers & Rrs & Lrs).
        cbn [explore_all rep_list]. rewrite Er, Ers, flat_map_app, <- Lr, <- Lrs.
        destruct r as [x'|]; eexists; (split; [reflexivity|split]); auto. }
      destruct Hall as (rs & Ers & Rrs & Lrs). rewrite Ers. exists (union_of rs).
      split; [reflexivity|split].
      * intros s' E. destruct rs as [|x [|y t]]; cbn in E; inversion E; subst.
        -- inversion Rrs; assumption.
        -- constructor; assumption.
      * rewrite lrep_union_of. exact Lrs.
  - (* recursion *)
    inversion Hrt as [| | | | | |? ? ? ? ? Hsq Hcur|]; subst.
    cbn [explore rep]. fold (mkframe sq lim stop). rewrite flat_map_or_nop, Hl.
    set (fr' := mkframe sq lim stop :: fr).
    assert (Hst : stopped fr' v = match stop with Some c => cond_match c v | None => false end).
    { unfold fr'. cbn [stopped existsb mkframe fr_stop]. fold (stopped fr v). rewrite Hs.
      destruct stop; [apply orb_false_r|reflexivity]. }
    match goal with |- context [if is_edge cur then ?A else ?B] => set (cont := if is_edge cur then A else B) end.
    assert (Hmain : stopped fr' v = false ->
                    exists r, cont = XOk r /\ (forall s', r = Some s' -> rt b s') /\
                              lrep_opt r fr = flat_map (sstep n ps v) (rep cur fr')).
    { intros Est. unfold cont. destruct (is_edge cur) eqn:Ee.
      - destruct cur; try discriminate. exists None. fin. reflexivity.
      - destruct (IH2 true fr' n ps v Hcur Hl Est) as (r & Er & Rr & Lr). rewrite Er.
        destruct r as [nx|].
        + cbn [rec_wrap repaired q_shared_depth q_exhausted_unwrap andb].
          exists (wrap_members sq lim stop nx). split; [reflexivity|split].
          * intros s' E. apply (wrap_rt sq lim stop Hsq nx b s' (Rr nx eq_refl) E).
          * rewrite <- Lr. cbn [lrep_opt].
            pose proof (wrap_rep sq lim stop Hsq nx fr) as W. fold fr' in W.
            destruct (wrap_members sq lim stop nx) as [w|] eqn:Ew; cbn [orep lrep_opt] in *.
            -- rewrite lrep_noedge; [exact W|]. apply rt_closed.
               apply (wrap_rt sq lim stop Hsq nx false w (Rr nx eq_refl) Ew).
            -- exact W.
        + exists None. fin. exact Lr. }
    destruct stop as [c|].
    + cbn iota beta. destruct (cond_match c v) eqn:Ec.
      * exists None. fin. symmetry.
        apply (sstep_dead n ps v fr'); [exact Hst|apply rep_frames].
      * apply Hmain. exact Hst.
    + apply Hmain. exact Hst.
  - (* edge *)
    exists None. cbn. fin. reflexivity.
Qed.

(* ------------------------------------------------------------------ Match and Interests on rep *)
Lemma smatch_app a b n : smatch (a ++ b) n = match smatch a n with Some m => Some m | None => smatch b n end.
Proof. induction a as [|t a IH]; [reflexivity|]. cbn. destruct (thr_match t n); [reflexivity|exact IH]. Qed.

Lemma smatch_or_nop fr l n : smatch (or_nop fr l) n = smatch l n.
Proof. destruct l; reflexivity. Qed.

Lemma match_rep s : forall b fr n, rt b s -> small_top n -> match_sel s n = smatch (rep s fr) n.
Proof.
  induction s as [sl|nx IH|fs IH|i nx IH|a b' nx IH|ms IH|sq cur lim stop IH1 IH2|] using sel_ind2;
    intros b fr n Hrt Hn; try reflexivity.
  - inversion Hrt; subst. destruct sl as [ft|]; cbn; [|reflexivity].
    rewrite slice_node_spec by assumption. destruct (spec_slice_node ft n); reflexivity.
  - rewrite match_sel_union. destruct ms as [|m ms]; [reflexivity|]. rewrite rep_union.
    inversion Hrt as [| | | | |? ? Hms| |]; subst.
    revert IH Hms. generalize (m :: ms). intros l IH Hl.
    induction l as [|x t IHt]; [reflexivity|]. inversion IH as [|? ? Hx Ht]; subst.
    inversion Hl as [|? ? Rx Rt]; subst.
    cbn [match_any rep_list]. rewrite smatch_app, <- (Hx b fr n Rx Hn), <- IHt by assumption. reflexivity.
  - inversion Hrt as [| | | | | |? ? ? ? ? Hsq Hcur|]; subst.
    cbn [match_sel rep]. rewrite smatch_or_nop. eapply IH2; eassumption.
Qed.

Definition comb (a b : option (list seg)) : option (list seg) :=
  match a, b with Some x, Some y => Some (x ++ y) | _, _ => None end.
Lemma sinterests_app a b : sinterests (a ++ b) = comb (sinterests a) (sinterests b).
Proof.
  induction a as [|t a IH]; [cbn; destruct (sinterests b); reflexivity|].
  cbn [app sinterests]. rewrite IH. destruct (thr_interests t), (sinterests a), (sinterests b); cbn;
    try reflexivity. rewrite app_assoc. reflexivity.
Qed.

Lemma interests_rep s : forall fr, interests s = sinterests (rep s fr).
Proof.
  induction s as [sl|nx IH|fs IH|i nx IH|a b' nx IH|ms IH|sq cur lim stop IH1 IH2|] using sel_ind2;
    intros fr; try (cbn; rewrite ?app_nil_r; reflexivity).
  - rewrite interests_union. destruct ms as [|m ms]; [reflexivity|]. rewrite rep_union.
    revert IH. generalize (m :: ms). intros l IH.
    induction l as [|x t IHt]; [reflexivity|]. inversion IH as [|? ? Hx Ht]; subst.
    cbn [interests_all rep_list]. rewrite sinterests_app, <- (Hx fr), <- IHt by assumption. reflexivity.
  - cbn [interests rep]. rewrite (IH2 (mkframe sq lim stop :: fr)).
    destruct (rep cur (mkframe sq lim stop :: fr)); reflexivity.
Qed.

Lemma children_rep n s fr : children repaired n s = schildren n (rep s fr).
Proof. unfold children, schildren. rewrite (interests_rep s fr). reflexivity. Qed.

(* ------------------------------------------------------------------ walk = denote *)
Lemma denote_S g f ls P n ts :
  denote g (S f) ls P n ts =
  let ev := match smatch ts n with Some m => EVisit P m RMatch ls | None => EVisit P n RCand ls end in
  if is_container n then
    let '(e, o) := seqk (denote_step g (denote g f) ls P n ts) (schildren n ts) in (ev :: e, o)
  else ([ev], OOk).
Proof. reflexivity. Qed.

Lemma seqk_ext_in {A} (s1 s2 : A -> list event * outcome) ks :
  (forall k, In k ks -> s1 k = s2 k) -> seqk s1 ks = seqk s2 ks.
Proof.
  induction ks as [|k r IH]; intros H; [reflexivity|].
  cbn. rewrite (H k (or_introl eq_refl)). rewrite IH; [reflexivity|]. intros; apply H; right; assumption.
Qed.
