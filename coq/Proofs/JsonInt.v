(* Proofs/JsonInt.v — decimal integers: strconv.AppendInt / ParseInt round trip for every int64,
   and the number scanner on a number text followed by a delimiter. *)
Require Import IP.Base.Bytes IP.Codec.Utf8 IP.Codec.Base64 IP.Codec.DagJson IP.Proofs.JsonUtf8.
From Coq Require Import ZifyN ZifyNat ZifyBool.
Ltac Zify.zify_post_hook ::= Z.div_mod_to_equations.
Open Scope N_scope.

Definition digit_c (c : N) : Prop := 48 <= c <= 57.

Lemma is_digit_iff c : is_digit c = true <-> digit_c c.
Proof. unfold is_digit, digit_c. repeat ncase; split; intros; try lia; auto. Qed.

(* shape of ndigits: a leading digit (non-zero unless n = 0), then digits, then the accumulator *)
Lemma ndigits_shape f : forall n acc, n < 2 ^ N.of_nat f -> (1 <= f)%nat ->
  exists d D, ndigits f n acc = (48 + d) :: D ++ acc /\ d < 10 /\ Forall digit_c D /\
              (1 <= n -> 1 <= d) /\ (n < 10 -> D = []).
Proof.
  induction f as [|f IH]; intros n acc Hn Hf; [inversion Hf|].
  cbn [ndigits]. destruct (N.ltb_spec n 10) as [L|L].
  - rewrite N.mod_small by assumption. exists n, []. repeat split; auto; try lia; try constructor.
  - assert (Hn' : n / 10 < 2 ^ N.of_nat f).
    { rewrite Nat2N.inj_succ, N.pow_succ_r' in Hn. lia. }
    assert (Hf' : (1 <= f)%nat).
    { destruct f; [|lia]. cbn in Hn'. lia. }
    destruct (IH (n / 10) ((48 + n mod 10) :: acc) Hn' Hf') as (d & D & E & Hd & HD & H1 & _).
    exists d, (D ++ [48 + n mod 10]). rewrite E. repeat split.
    + now rewrite <- app_assoc.
    + assumption.
    + apply Forall_app. split; [assumption|]. constructor; [unfold digit_c; lia|constructor].
    + intros _. apply H1. lia.
    + lia.
Qed.

Lemma ndigits_value f : forall n acc, n < 2 ^ N.of_nat f -> (1 <= f)%nat -> n < two64 ->
  digits_scan (ndigits f n acc) 0 = digits_scan acc n.
Proof.
  induction f as [|f IH]; intros n acc Hn Hf H64; [inversion Hf|].
  cbn [ndigits]. destruct (N.ltb_spec n 10) as [L|L].
  - rewrite N.mod_small by assumption. cbn [digits_scan]. replace (is_digit (48 + n)) with true by (symmetry; apply is_digit_iff; unfold digit_c; lia).
    replace (0 * 10 + (48 + n - 48)) with n by lia.
    destruct (N.leb_spec two64 n); [lia|reflexivity].
  - assert (Hn' : n / 10 < 2 ^ N.of_nat f).
    { rewrite Nat2N.inj_succ, N.pow_succ_r' in Hn. lia. }
    assert (Hf' : (1 <= f)%nat).
    { destruct f; [|lia]. cbn in Hn'. lia. }
    rewrite IH by (try assumption; unfold two64 in *; lia).
    cbn [digits_scan]. replace (is_digit (48 + n mod 10)) with true by (symmetry; apply is_digit_iff; unfold digit_c; lia).
    replace (n / 10 * 10 + (48 + n mod 10 - 48)) with n by lia.
    destruct (N.leb_spec two64 n); [lia|reflexivity].
Qed.

Lemma print_nat_fuel n : n < 2 ^ N.of_nat (S (N.to_nat (N.log2 n))).
Proof.
  rewrite Nat2N.inj_succ, N2Nat.id.
  destruct (N.eq_dec n 0) as [->|NZ]; [cbn; lia|].
  apply N.log2_spec. lia.
Qed.

Lemma print_nat_shape n :
  exists d D, print_nat n = (48 + d) :: D /\ d < 10 /\ Forall digit_c D /\ (1 <= n -> 1 <= d) /\ (n = 0 -> D = []).
Proof.
  destruct (ndigits_shape _ n [] (print_nat_fuel n) ltac:(lia)) as (d & D & E & Hd & HD & H1 & H0).
  exists d, D. unfold print_nat. rewrite E, app_nil_r. repeat split; auto. intros ->. apply H0. lia.
Qed.

Lemma print_nat_value n : n < two64 -> digits_scan (print_nat n) 0 = PVal n.
Proof. intros H. unfold print_nat. rewrite ndigits_value; [reflexivity|apply print_nat_fuel|lia|assumption]. Qed.

(* the integer part of C04 *)
Theorem int_roundtrip z : in_int64 z = true -> parse_int (print_int z) = PIVal z.
Proof.
  unfold in_int64, two63z. intros H. unfold print_int.
  destruct (Z.ltb_spec z 0) as [Neg|Pos].
  - unfold parse_int. change (45 =? 45) with true. cbv iota.
    destruct (print_nat_shape (Z.to_N (- z))) as (d & D & E & _).
    rewrite print_nat_value by (unfold two64; lia). rewrite E.
    destruct (N.ltb_spec two63 (Z.to_N (- z))); [unfold two63 in *; lia|]. f_equal. lia.
  - unfold parse_int. destruct (print_nat_shape (Z.to_N z)) as (d & D & E & Hd & _).
    rewrite print_nat_value by (unfold two64; lia). rewrite E.
    destruct (N.eqb_spec (48 + d) 45); [lia|].
    destruct (N.leb_spec two63 (Z.to_N z)); [unfold two63 in *; lia|]. f_equal. lia.
Qed.

(* ---------------------------------------------------------------- the scanner *)

Definition delim_ok (rest : bytes) : Prop :=
  match rest with [] => True | c :: _ => c = 44 \/ c = 93 \/ c = 125 end.

Lemma num_step_delim st c : c = 44 \/ c = 93 \/ c = 125 -> num_step st c = None.
Proof. intros [H|[H|H]]; subst c; destruct st; reflexivity. Qed.

Lemma num_scan_run t : forall st st' rest, num_run st t = Some st' -> delim_ok rest ->
  num_scan st (t ++ rest) = (t, rest).
Proof.
  induction t as [|c t IH]; intros st st' rest R Dl.
  - cbn [app]. destruct rest as [|c r]; [reflexivity|]. cbn [num_scan]. now rewrite num_step_delim.
  - cbn [num_run] in R. cbn [app num_scan]. destruct (num_step st c) as [st1|]; [|discriminate].
    now rewrite (IH _ _ _ R Dl).
Qed.

Lemma num_run_digits D : Forall digit_c D -> num_run SInt D = Some SInt.
Proof.
  induction 1 as [|c D Hc _ IH]; [reflexivity|]. cbn [num_run num_step].
  replace (is_digit c) with true by (symmetry; now apply is_digit_iff). exact IH.
Qed.

(* the text of an int64 is a JSON number for the scanner, whatever follows a delimiter *)
Lemma print_int_scan z : exists mb t,
  print_int z = mb :: t /\ (mb = 45 \/ digit_c mb) /\
  forall rest, delim_ok rest -> num_scan (num_start mb) (t ++ rest) = (t, rest).
Proof.
  unfold print_int. destruct (Z.ltb_spec z 0) as [Neg|Pos].
  - destruct (print_nat_shape (Z.to_N (- z))) as (d & D & E & Hd & HD & H1 & _).
    exists 45, (print_nat (Z.to_N (- z))). repeat split; auto.
    intros rest Dl. apply (num_scan_run _ _ SInt); [|assumption].
    rewrite E. cbn [num_run]. change (num_start 45) with SNeg. cbn [num_step].
    assert (1 <= d) by (apply H1; lia).
    destruct (N.eqb_spec (48 + d) 48); [lia|].
    replace (is_digit (48 + d)) with true by (symmetry; apply is_digit_iff; unfold digit_c; lia).
    now apply num_run_digits.
  - destruct (print_nat_shape (Z.to_N z)) as (d & D & E & Hd & HD & H1 & H0).
    exists (48 + d), D. rewrite E. repeat split; [right; unfold digit_c; lia|].
    intros rest Dl. unfold num_start. destruct (N.eqb_spec (48 + d) 45); [lia|].
    destruct (N.eqb_spec (48 + d) 48) as [Z0|NZ].
    + assert (D = []) as -> by (apply H0; destruct (N.eq_dec (Z.to_N z) 0); [assumption|lia]).
      now apply (num_scan_run [] SZero SZero).
    + apply (num_scan_run _ _ SInt); [now apply num_run_digits|assumption].
Qed.
