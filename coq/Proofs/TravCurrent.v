(* Proofs/TravCurrent.v — C07 for the CURRENT tree (only the shared depth counter left): on every compiled selector
   satisfying the syntactic condition [no_shared_depth] the walk is exactly what the selector denotes.
   The shared counter gives mid-sequence members a smaller remaining depth than the specification's per-thread
   counters; under the condition such members contain no edge of their recursion, so the difference can never be
   consulted.  Thread lists are therefore compared up to [norm], which erases depth counters that cannot be read:
   those of frames below the innermost one (edges bind to the innermost recursion) and that of the innermost frame of
   a clause without a free edge. *)
Require Import IP.Base.Bytes IP.DM.Value IP.Base.GoSem IP.Trav.Selector IP.Trav.Walk IP.Trav.Controls IP.Trav.SelectorSpec
  IP.Trav.Path IP.Trav.QuirkFree IP.Proofs.TravFacts IP.Proofs.TravSel IP.Proofs.TravStart IP.Proofs.TravPath
  IP.Proofs.TravSlice IP.Proofs.TravDenote IP.Proofs.TravDenoteWalk IP.Proofs.TravPinned.
From Coq Require Import Lia.
Open Scope Z_scope.

(* ------------------------------------------------------------------ edge depths *)
Fixpoint ed_list (d : nat) (ms : list sel) : list nat :=
  match ms with [] => [] | m :: t => edge_depths d m ++ ed_list d t end.
Fixpoint ed_fields (d : nat) (fs : list (bytes * sel)) : list nat :=
  match fs with [] => [] | kv :: t => edge_depths d (snd kv) ++ ed_fields d t end.
Lemma ed_union d ms : edge_depths d (SUnion ms) = ed_list d ms.
Proof.
  cbn [edge_depths].
  match goal with |- ?F ms = _ => assert (E : forall l, F l = ed_list d l) end.
  { induction l as [|x t IH]; [reflexivity|]. cbn [ed_list]. rewrite IH. reflexivity. }
  apply E.
Qed.
Lemma ed_fields_eq d fs : edge_depths d (SFields fs) = ed_fields (S d) fs.
Proof.
  cbn [edge_depths].
  match goal with |- ?F fs = _ => assert (E : forall l, F l = ed_fields (S d) l) end.
  { induction l as [|x t IH]; [reflexivity|]. cbn [ed_fields]. rewrite IH. reflexivity. }
  apply E.
Qed.

Lemma ed_shift s : forall d, edge_depths d s = map (Nat.add d) (edge_depths 0 s).
Proof.
  induction s as [sl|nx IH|fs IH|i nx IH|a b' nx IH|ms IH|sq cur lim stop IH1 IH2|] using sel_ind2;
    intros d; try reflexivity.
  - cbn [edge_depths]. rewrite (IH (S d)), (IH 1%nat), map_map. apply map_ext. intros; lia.
  - rewrite !ed_fields_eq. induction fs as [|kv t IHt]; [reflexivity|]. inversion IH as [|? ? Hx Ht]; subst.
    cbn [ed_fields]. rewrite !map_app, (Hx (S d)), (Hx 1%nat), map_map, (IHt Ht). f_equal. apply map_ext. intros; lia.
  - cbn [edge_depths]. rewrite (IH (S d)), (IH 1%nat), map_map. apply map_ext. intros; lia.
  - cbn [edge_depths]. rewrite (IH (S d)), (IH 1%nat), map_map. apply map_ext. intros; lia.
  - rewrite !ed_union. induction ms as [|m t IHt]; [reflexivity|]. inversion IH as [|? ? Hx Ht]; subst.
    cbn [ed_list]. rewrite map_app, (Hx d), (IHt Ht). reflexivity.
  - cbn. f_equal. lia.
Qed.

Definition is_efree (s : sel) : bool := match edge_depths 0 s with [] => true | _ => false end.
Definition phase (r : nat) (s : sel) : Prop := Forall (fun d => d = r) (edge_depths 0 s).

Lemma phase_cont r nx : Forall (fun d => d = r) (edge_depths 1 nx) -> phase (pred r) nx.
Proof.
  unfold phase. rewrite (ed_shift nx 1). intros H. apply Forall_forall. intros d Hd.
  rewrite Forall_forall in H. specialize (H (1 + d)%nat (in_map _ _ _ Hd)). lia.
Qed.
Lemma efree_cont nx : edge_depths 1 nx = [] -> is_efree nx = true.
Proof. unfold is_efree. rewrite (ed_shift nx 1). destruct (edge_depths 0 nx); [reflexivity|discriminate]. Qed.
Lemma efree_phase r s : is_efree s = true -> phase r s.
Proof. unfold is_efree, phase. destruct (edge_depths 0 s); [constructor|discriminate]. Qed.

(* ------------------------------------------------------------------ norm: erase unreadable depth counters *)
Definition erase (f : frame) : frame := {| fr_seq := fr_seq f; fr_lim := None; fr_stop := fr_stop f |}.
Definition norm_fr (b : bool) (fr : list frame) : list frame :=
  match fr with [] => [] | f :: r => (if b then f else erase f) :: map erase r end.
Definition norm (t : thr) : thr :=
  match t with Thr p fr => Thr p (norm_fr (negb (is_efree p)) fr) end.

Lemma erase_idem f : erase (erase f) = erase f.
Proof. reflexivity. Qed.
Lemma map_erase_idem l : map erase (map erase l) = map erase l.
Proof. rewrite map_map. reflexivity. Qed.

Lemma norm_fr_erase b frA frB : norm_fr b frA = norm_fr b frB -> map erase frA = map erase frB.
Proof.
  destruct frA as [|a ta], frB as [|b0 tb]; cbn; try discriminate; [reflexivity|].
  intros H. inversion H as [[H1 H2]]. rewrite H2. f_equal.
  destruct b; [rewrite H1; reflexivity|exact H1].
Qed.

Lemma norm_fr_mono b b' frA frB :
  (b' = true -> b = true) -> norm_fr b frA = norm_fr b frB -> norm_fr b' frA = norm_fr b' frB.
Proof.
  intros Hb H. destruct b'; [rewrite (Hb eq_refl) in H; exact H|].
  pose proof (norm_fr_erase b frA frB H) as E.
  destruct frA as [|a ta], frB as [|b0 tb]; cbn in *; try discriminate; [reflexivity|]. congruence.
Qed.

Lemma stopped_erase fr v : stopped (map erase fr) v = stopped fr v.
Proof. unfold stopped. induction fr as [|f r IH]; [reflexivity|]. cbn. rewrite IH. reflexivity. Qed.

Lemma norm_nil_iff a b : map norm a = map norm b -> (a = [] <-> b = []).
Proof. destruct a, b; cbn; try discriminate; intros _; split; try discriminate; auto. Qed.

Lemma map_norm_or_nop frA frB a b :
  map erase frA = map erase frB -> frA <> [] -> map norm a = map norm b ->
  map norm (or_nop frA a) = map norm (or_nop frB b).
Proof.
  intros Hf Hne H. destruct a, b; cbn in H; try discriminate; [|exact H].
  cbn. f_equal. f_equal.
  destruct frA as [|x ta], frB as [|y tb]; cbn in *; try discriminate; try congruence.
Qed.

(* frames that differ only below the head, in depth counters *)
Lemma enter0_tail s : forall h tA tB,
  map erase tA = map erase tB -> map norm (enter0 s (h :: tA)) = map norm (enter0 s (h :: tB)).
Proof.
  induction s as [sl|nx IH|fs IH|i nx IH|a b' nx IH|ms IH|sq cur lim stop IH1 IH2|] using sel_ind2;
    intros h tA tB H; try reflexivity; try (cbn; rewrite H; reflexivity).
  - destruct ms as [|m ms]; [cbn; rewrite H; reflexivity|]. rewrite !enter0_union.
    revert IH. generalize (m :: ms). intros l IH. induction l as [|x t IHt]; [reflexivity|].
    inversion IH as [|? ? Hx Ht]; subst. cbn [enter0_list]. rewrite !map_app, (Hx h tA tB H), (IHt Ht). reflexivity.
  - cbn [enter0]. apply map_norm_or_nop; [cbn; rewrite H; reflexivity|discriminate|].
    apply IH1. cbn. rewrite H. reflexivity.
Qed.

Lemma rep_tail s : forall h tA tB,
  map erase tA = map erase tB -> map norm (rep s (h :: tA)) = map norm (rep s (h :: tB)).
Proof.
  induction s as [sl|nx IH|fs IH|i nx IH|a b' nx IH|ms IH|sq cur lim stop IH1 IH2|] using sel_ind2;
    intros h tA tB H; try reflexivity; try (cbn; rewrite H; reflexivity).
  - destruct ms as [|m ms]; [cbn; rewrite H; reflexivity|]. rewrite !rep_union.
    revert IH. generalize (m :: ms). intros l IH. induction l as [|x t IHt]; [reflexivity|].
    inversion IH as [|? ? Hx Ht]; subst. cbn [rep_list]. rewrite !map_app, (Hx h tA tB H), (IHt Ht). reflexivity.
  - cbn [rep]. apply map_norm_or_nop; [cbn; rewrite H; reflexivity|discriminate|].
    apply IH2. cbn. rewrite H. reflexivity.
Qed.

(* ------------------------------------------------------------------ the specification cannot see what norm erases *)
Lemma efree_all nx : is_efree (SAll nx) = true -> is_efree nx = true.
Proof. unfold is_efree at 1. cbn [edge_depths]. intros H. apply efree_cont. destruct (edge_depths 1 nx); [reflexivity|discriminate]. Qed.
Lemma efree_index i nx : is_efree (SIndex i nx) = true -> is_efree nx = true.
Proof. unfold is_efree at 1. cbn [edge_depths]. intros H. apply efree_cont. destruct (edge_depths 1 nx); [reflexivity|discriminate]. Qed.
Lemma efree_range a b nx : is_efree (SRange a b nx) = true -> is_efree nx = true.
Proof. unfold is_efree at 1. cbn [edge_depths]. intros H. apply efree_cont. destruct (edge_depths 1 nx); [reflexivity|discriminate]. Qed.
Lemma efree_fields fs k nx : is_efree (SFields fs) = true -> assoc k fs = Some nx -> is_efree nx = true.
Proof.
  unfold is_efree at 1. rewrite ed_fields_eq. intros H Ha. apply efree_cont.
  induction fs as [|[k' x] t IH]; [discriminate|]. cbn in Ha, H.
  destruct (edge_depths 1 x) eqn:Ex; [|discriminate]. cbn in H.
  destruct (bytes_eqb k k'); [inversion Ha; subst; exact Ex|]. apply IH; assumption.
Qed.
Lemma efree_union ms m : is_efree (SUnion ms) = true -> In m ms -> is_efree m = true.
Proof.
  unfold is_efree. rewrite ed_union. induction ms as [|x t IH]; intros H Hin; [destruct Hin|].
  cbn in H. destruct (edge_depths 0 x) eqn:Ex; [|discriminate]. cbn in H.
  destruct Hin as [->|Hin]; [rewrite Ex; reflexivity|]. apply IH; assumption.
Qed.

Lemma enter_norm nx : forall frA frB,
  norm_fr (negb (is_efree nx)) frA = norm_fr (negb (is_efree nx)) frB ->
  map norm (enter nx frA) = map norm (enter nx frB).
Proof.
  induction nx as [sl|nx IH|fs IH|i nx IH|a b' nx IH|ms IH|sq cur lim stop IH1 IH2|] using sel_ind2;
    intros frA frB H; try (cbn [enter map norm]; rewrite H; reflexivity).
  - destruct ms as [|m ms]; [cbn [enter map norm]; rewrite H; reflexivity|]. rewrite !enter_union.
    assert (Hm : forall x, In x (m :: ms) -> norm_fr (negb (is_efree x)) frA = norm_fr (negb (is_efree x)) frB).
    { intros x Hx. eapply norm_fr_mono; [|exact H]. intros E. apply negb_true_iff in E. apply negb_true_iff.
      destruct (is_efree (SUnion (m :: ms))) eqn:Eu; [|reflexivity]. rewrite (efree_union _ _ Eu Hx) in E. discriminate. }
    clear H. revert IH Hm. generalize (m :: ms). intros l IH Hm. induction l as [|x t IHt]; [reflexivity|].
    inversion IH as [|? ? Hx Ht]; subst. cbn [enter_list]. rewrite !map_app.
    rewrite (Hx frA frB (Hm x (or_introl eq_refl))), (IHt Ht); [reflexivity|]. intros; apply Hm; right; assumption.
  - cbn [enter]. pose proof (norm_fr_erase _ _ _ H) as He.
    apply map_norm_or_nop; [cbn; rewrite He; reflexivity|discriminate|]. apply enter0_tail. exact He.
  - cbn [is_efree edge_depths negb] in H. change (negb (is_efree SEdge)) with true in H.
    destruct frA as [|x ta], frB as [|y tb]; cbn in H; try discriminate; [reflexivity|].
    inversion H as [[H1 H2]]. subst y. cbn [enter]. destruct (exhausted (fr_lim x)); [reflexivity|].
    apply map_norm_or_nop; [cbn; rewrite H2; reflexivity|discriminate|]. apply enter0_tail. exact H2.
Qed.

Lemma sstep_norm n ps v p frA frB :
  norm_fr (negb (is_efree p)) frA = norm_fr (negb (is_efree p)) frB ->
  map norm (sstep n ps v (Thr p frA)) = map norm (sstep n ps v (Thr p frB)).
Proof.
  intros H. cbn [sstep].
  assert (Es : stopped frA v = stopped frB v).
  { rewrite <- (stopped_erase frA), <- (stopped_erase frB), (norm_fr_erase _ _ _ H). reflexivity. }
  rewrite Es. destruct (stopped frB v); [reflexivity|].
  assert (Hc : forall nx, (is_efree p = true -> is_efree nx = true) ->
                          map norm (enter nx frA) = map norm (enter nx frB)).
  { intros nx Hnx. apply enter_norm. eapply norm_fr_mono; [|exact H]. intros E. apply negb_true_iff in E.
    apply negb_true_iff. destruct (is_efree p); [rewrite Hnx in E by reflexivity; discriminate|reflexivity]. }
  destruct p; try reflexivity.
  - apply Hc. apply efree_all.
  - destruct (assoc (seg_string ps) fs) as [nx|] eqn:Ea; [|reflexivity]. apply Hc. intros E. eapply efree_fields; eauto.
  - destruct (seg_index ps); [|reflexivity]. destruct (_ && _)%bool; [|reflexivity]. apply Hc. apply efree_index.
  - destruct (seg_index ps); [|reflexivity]. destruct (_ && _)%bool; [|reflexivity]. apply Hc. apply efree_range.
Qed.

Lemma flat_sstep_norm n ps v : forall A B,
  map norm A = map norm B -> map norm (flat_map (sstep n ps v) A) = map norm (flat_map (sstep n ps v) B).
Proof.
  induction A as [|x A IH]; destruct B as [|y B]; cbn [map]; try discriminate; [reflexivity|].
  intros H. inversion H as [[H1 H2]]. cbn [flat_map]. rewrite !map_app, (IH B H2). f_equal.
  destruct x as [p frA], y as [p' frB]. cbn [norm] in H1. inversion H1 as [[Hp Hf]]. subst p'. apply sstep_norm. exact Hf.
Qed.

Lemma thr_match_norm t n : thr_match (norm t) n = thr_match t n.
Proof. destruct t as [p fr]. reflexivity. Qed.
Lemma smatch_norm A n : smatch (map norm A) n = smatch A n.
Proof. induction A as [|t A IH]; [reflexivity|]. cbn. rewrite thr_match_norm, IH. reflexivity. Qed.
Lemma thr_interests_norm t : thr_interests (norm t) = thr_interests t.
Proof. destruct t as [p fr]. reflexivity. Qed.
Lemma sinterests_norm A : sinterests (map norm A) = sinterests A.
Proof. induction A as [|t A IH]; [reflexivity|]. cbn. rewrite thr_interests_norm, IH. reflexivity. Qed.

Theorem denote_norm g f : forall ls P n A B,
  map norm A = map norm B -> denote g f ls P n A = denote g f ls P n B.
Proof.
  induction f as [|f IH]; intros ls P n A B H; [reflexivity|].
  rewrite !denote_S.
  assert (Em : smatch A n = smatch B n) by (rewrite <- (smatch_norm A), <- (smatch_norm B), H; reflexivity).
  assert (Ec : schildren n A = schildren n B).
  { unfold schildren. rewrite <- (sinterests_norm A), <- (sinterests_norm B), H. reflexivity. }
  rewrite Em, Ec. destruct (is_container n); [|reflexivity].
  rewrite (seqk_ext_in (denote_step g (denote g f) ls P n A) (denote_step g (denote g f) ls P n B)); [reflexivity|].
  intros [ps v] _. unfold denote_step; cbn [fst snd].
  pose proof (flat_sstep_norm n ps v A B H) as Hs.
  destruct (flat_map (sstep n ps v) A) as [|a0 A'] eqn:EA; destruct (flat_map (sstep n ps v) B) as [|b0 B'] eqn:EB;
    cbn [map] in Hs; try discriminate; [reflexivity|].
  destruct v; try (apply IH; exact Hs).
  destruct (assoc c g); [|reflexivity]. rewrite (IH (c :: ls) (P ++ [ps]) d (a0 :: A') (b0 :: B') Hs). reflexivity.
Qed.

(* ------------------------------------------------------------------ unfoldings *)
Ltac by_list_ind named :=
  first [ reflexivity
        | match goal with |- ?F ?l = _ =>
            let E := fresh "E" in
            assert (E : forall l0, F l0 = named l0)
              by (let l0 := fresh "l0" in let IH := fresh "IH" in
                  intros l0; induction l0 as [|? ? IH]; [reflexivity|]; cbn; rewrite ?IH; reflexivity);
            apply E end ].

Fixpoint noempty_list (ms : list sel) : bool :=
  match ms with [] => true | m :: t => noempty m && noempty_list t end.
Lemma noempty_union m ms : noempty (SUnion (m :: ms)) = noempty_list (m :: ms).
Proof. cbn [noempty noempty_list]. f_equal; by_list_ind noempty_list. Qed.
Fixpoint noempty_fields (fs : list (bytes * sel)) : bool :=
  match fs with [] => true | kv :: t => noempty (snd kv) && noempty_fields t end.
Lemma noempty_fields_eq fs : noempty (SFields fs) = noempty_fields fs.
Proof. cbn [noempty]. by_list_ind noempty_fields. Qed.
Fixpoint nsd_list (ms : list sel) : bool :=
  match ms with [] => true | m :: t => nsd_rec m && nsd_list t end.
Lemma nsd_union ms : nsd_rec (SUnion ms) = nsd_list ms.
Proof. cbn [nsd_rec]. by_list_ind nsd_list. Qed.
Fixpoint nsd_fields (fs : list (bytes * sel)) : bool :=
  match fs with [] => true | kv :: t => nsd_rec (snd kv) && nsd_fields t end.
Lemma nsd_fields_eq fs : nsd_rec (SFields fs) = nsd_fields fs.
Proof. cbn [nsd_rec]. by_list_ind nsd_fields. Qed.
Lemma assoc_fields_prop (P : sel -> bool) (pf : list (bytes * sel) -> bool)
  (Hpf : forall kv t, pf (kv :: t) = (P (snd kv) && pf t)%bool) k fs nx :
  pf fs = true -> assoc k fs = Some nx -> P nx = true.
Proof.
  induction fs as [|[k' x] t IH]; cbn; [discriminate|]. rewrite Hpf. cbn. intros H. apply andb_true_iff in H.
  destruct H as [H1 H2]. destruct (bytes_eqb k k'); [intros E; inversion E; subst; exact H1|apply IH; exact H2].
Qed.

(* ------------------------------------------------------------------ phases *)
Lemma phase_union r ms : phase r (SUnion ms) <-> Forall (phase r) ms.
Proof.
  unfold phase. rewrite ed_union. induction ms as [|m t IH]; cbn [ed_list]; [split; constructor|].
  rewrite Forall_app, IH. split; [intros [A B]; constructor; assumption|intros H; inversion H; auto].
Qed.
Lemma phase_union_of r l : Forall (phase r) l -> forall c, union_of l = Some c -> phase r c.
Proof.
  intros H c E. destruct l as [|x [|y t]]; cbn in E; inversion E; subst.
  - inversion H; assumption.
  - apply phase_union; exact H.
Qed.
Lemma phase_rec r sq cur lim stop : phase r (SRec sq cur lim stop).
Proof. constructor. Qed.
Lemma uniform_phase sq : uniform sq = true -> exists k, phase k sq.
Proof.
  unfold uniform, phase. destruct (edge_depths 0 sq) as [|d r]; [exists O; constructor|].
  intros H. exists d. constructor; [reflexivity|]. rewrite forallb_forall in H. apply Forall_forall.
  intros x Hx. specialize (H x Hx). apply Nat.eqb_eq in H. auto.
Qed.
(* a clause that is neither an edge nor a union has its edges at least one step away *)
Lemma atomic_phase0 s : atomic s = true -> phase 0 s -> is_efree s = true.
Proof.
  assert (Hc : forall nx, Forall (fun d => d = 0%nat) (edge_depths 1 nx) -> edge_depths 1 nx = []).
  { intros nx H. rewrite (ed_shift nx 1) in *. destruct (edge_depths 0 nx); [reflexivity|]. inversion H; discriminate. }
  unfold phase, is_efree. destruct s; try discriminate; try (intros _ _; reflexivity).
  - cbn [edge_depths]. intros _ H. rewrite (Hc _ H). reflexivity.
  - rewrite ed_fields_eq. intros _ H. destruct (ed_fields 1 fs) as [|d l] eqn:E; [reflexivity|]. exfalso.
    inversion H; subst. clear H H3. induction fs as [|kv t IH]; [discriminate|]. cbn in E.
    rewrite (ed_shift (snd kv) 1) in E. destruct (edge_depths 0 (snd kv)); [apply IH; exact E|discriminate].
  - cbn [edge_depths]. intros _ H. rewrite (Hc _ H). reflexivity.
  - cbn [edge_depths]. intros _ H. rewrite (Hc _ H). reflexivity.
  - destruct ms; [intros _ _; reflexivity|discriminate].
Qed.

(* ------------------------------------------------------------------ the runtime invariant *)
Inductive nsdr : sel -> Prop :=
| nr_match sl : nsdr (SMatch sl)
| nr_all nx : nsd_rec nx = true -> nsdr (SAll nx)
| nr_fields fs : nsd_fields fs = true -> nsdr (SFields fs)
| nr_index i nx : nsd_rec nx = true -> nsdr (SIndex i nx)
| nr_range a b nx : nsd_rec nx = true -> nsdr (SRange a b nx)
| nr_union ms : Forall nsdr ms -> nsdr (SUnion ms)
| nr_rec sq cur lim stop :
    nsd_rec sq = true -> live sq = true -> nsdr cur ->
    (lim = None \/ (uniform sq = true /\ exists r, phase r cur)) -> nsdr (SRec sq cur lim stop)
| nr_edge : nsdr SEdge.

Lemma nsd_src s : forall b, srcw b s -> nsd_rec s = true -> nsdr s.
Proof.
  induction s as [sl|nx IH|fs IH|i nx IH|a b' nx IH|ms IH|sq cur lim stop IH1 IH2|] using sel_ind2;
    intros b Hs Hn.
  - constructor.
  - constructor. exact Hn.
  - constructor. rewrite <- nsd_fields_eq. exact Hn.
  - constructor. exact Hn.
  - constructor. exact Hn.
  - constructor. rewrite nsd_union in Hn. inversion Hs as [| | | | |? ? Hms| |]; subst. clear Hs.
    induction ms as [|m t IHt]; [constructor|].
    inversion IH as [|? ? Hx Ht]; subst. inversion Hms as [|? ? Sx St]; subst.
    cbn in Hn. apply andb_true_iff in Hn. destruct Hn as [N1 N2]. constructor; eauto.
  - inversion Hs as [| | | | | |? ? ? ? Hsq|]; subst.
    cbn [nsd_rec] in Hn. apply andb_true_iff in Hn. destruct Hn as [Hn Hu]. apply andb_true_iff in Hn.
    destruct Hn as [Hn Hl]. constructor; auto; [eapply IH1; eauto|].
    destruct lim; [right; split; [exact Hu|apply uniform_phase; exact Hu]|left; reflexivity].
  - constructor.
Qed.

(* ------------------------------------------------------------------ what replaceRecursiveEdge leaves *)
Lemma has_edge_depth0 s : has_edge s = true -> In 0%nat (edge_depths 0 s).
Proof.
  induction s as [sl|nx IH|fs IH|i nx IH|a b' nx IH|ms IH|sq cur lim stop IH1 IH2|] using sel_ind2;
    intros H; try discriminate; [|left; reflexivity].
  rewrite has_edge_union in H. rewrite ed_union. induction ms as [|m t IHt]; [discriminate|].
  inversion IH as [|? ? Hx Ht]; subst. cbn in *. apply in_or_app. apply orb_true_iff in H.
  destruct H as [H|H]; [left; auto|right; auto].
Qed.

Lemma union_of_some cs c fr : union_of cs = Some c ->
  rep c fr = rep_list cs fr /\ has_edge c = has_edge_any cs /\ emptyrep c = emptyrep_list cs /\
  (Forall (rt true) cs -> rt true c) /\ (noempty_list cs = true -> noempty c = true) /\
  (Forall nsdr cs -> nsdr c) /\ (forall r, Forall (phase r) cs -> phase r c).
Proof.
  intros E. destruct cs as [|x [|y t]]; cbn in E; inversion E; subst.
  - cbn [rep_list has_edge_any emptyrep_list noempty_list]. rewrite app_nil_r, orb_false_r, !andb_true_r.
    repeat apply conj; try reflexivity; try (intros H; inversion H; assumption); try (intros r H; inversion H; assumption); auto.
  - rewrite rep_union, has_edge_union, emptyrep_union, noempty_union.
    repeat apply conj; try reflexivity; auto.
    + intros H; constructor; exact H.
    + intros H; constructor; exact H.
    + intros r H; apply phase_union; exact H.
Qed.

Section Replace.
  Variables (sq : sel) (lim : option Z) (stop : option bytes) (fr : list frame).
  Let fr' := mkframe sq lim stop :: fr.

  (* the limit is exhausted: the edges go, everything else stays as it is *)
  Section Exhausted.
    Hypothesis Hex : exhausted lim = true.

    Definition r1_ok (nx : sel) : Prop :=
      noempty nx = true -> rt true nx -> nsdr nx ->
      match replace_edge nx None with
      | Some c => rep c fr' = lrep nx fr' /\ has_edge c = false /\ rt true c /\ noempty c = true /\ nsdr c /\
                  (forall r, phase r nx -> phase r c)
      | None => lrep nx fr' = []
      end.

    Lemma r1_list l : Forall r1_ok l -> noempty_list l = true -> Forall (rt true) l -> Forall nsdr l ->
      rep_list (replace_list None l) fr' = lrep_list l fr' /\ has_edge_any (replace_list None l) = false /\
      Forall (rt true) (replace_list None l) /\ noempty_list (replace_list None l) = true /\
      Forall nsdr (replace_list None l) /\ (forall r, Forall (phase r) l -> Forall (phase r) (replace_list None l)).
    Proof.
      induction l as [|x t IHt]; intros IH Hne Hrt Hns; [repeat split; auto|].
      inversion IH as [|? ? Hx Ht]; subst. inversion Hrt as [|? ? Rx Rt]; subst. inversion Hns as [|? ? Nx Nt]; subst.
      cbn in Hne. apply andb_true_iff in Hne. destruct Hne as [E1 E2].
      destruct (IHt Ht E2 Rt Nt) as (A & B & C & D & E & F). specialize (Hx E1 Rx Nx).
      cbn [replace_list lrep_list]. destruct (replace_edge x None) as [c|].
      - destruct Hx as (a & b & c0 & d & e & f). cbn [rep_list has_edge_any noempty_list]. rewrite a, A, b, B, d, D.
        repeat split; auto. intros r H; inversion H; subst. constructor; auto.
      - rewrite Hx. cbn [app]. repeat split; auto. intros r H; inversion H; subst. auto.
    Qed.

    Lemma r1_all nx : r1_ok nx.
    Proof.
      induction nx as [sl|nx IH|fs IH|i nx IH|a b' nx IH|ms IH|sq0 cur lim0 stop0 IH1 IH2|] using sel_ind2;
        intros Hne Hrt Hns; try (cbn [replace_edge]; repeat split; auto; fail).
      - destruct ms as [|m ms]; [discriminate|]. rewrite replace_edge_union, lrep_union. rewrite noempty_union in Hne.
        inversion Hrt as [| | | | |? ? Rms| |]; subst. inversion Hns as [| | | | |? Nms| |]; subst.
        destruct (r1_list (m :: ms) IH Hne Rms Nms) as (A & B & C & D & E & F).
        destruct (union_of (replace_list None (m :: ms))) as [c|] eqn:Eu.
        + destruct (union_of_some _ c fr' Eu) as (a & b & _ & c0 & d & e & f).
          rewrite a, b. repeat split; auto. intros r H. apply f. apply F. apply phase_union. exact H.
        + destruct (replace_list None (m :: ms)) as [|x [|y t]]; cbn in Eu; try discriminate. rewrite <- A. reflexivity.
      - cbn [replace_edge lrep reenter fr' mkframe fr_lim]. rewrite Hex. reflexivity.
    Qed.
  End Exhausted.

  (* the limit is not exhausted: every edge becomes a fresh copy of the sequence, the depth drops for everybody *)
  Section Continue.
    Hypothesis Hsq : srcw true sq.
    Hypothesis Hlive : live sq = true.
    Hypothesis Hnes : noempty sq = true.
    Hypothesis Hnsd : nsd_rec sq = true.
    Hypothesis Hex : exhausted lim = false.
    Let fr'' := mkframe sq (lim_pred lim) stop :: fr.

    Definition r2_ok (nx : sel) : Prop :=
      noempty nx = true -> rt true nx -> nsdr nx -> (lim = None \/ phase 0 nx) ->
      exists c, replace_edge nx (Some sq) = Some c /\ rt true c /\ noempty c = true /\ nsdr c /\ emptyrep c = false /\
                (forall k, phase k sq -> phase 0 nx -> phase k c) /\
                map norm (rep c fr'') = map norm (lrep nx fr').

    Lemma head_norm p : (lim = None \/ is_efree p = true) ->
      norm (Thr p fr'') = norm (Thr p fr').
    Proof.
      intros [->|E]; [reflexivity|]. cbn [norm]. rewrite E. reflexivity.
    Qed.

    Lemma r2_atomic nx : atomic nx = true -> (forall sq0 cur lim0 stop0, nx <> SRec sq0 cur lim0 stop0) ->
      replace_edge nx (Some sq) = Some nx -> rep nx fr'' = [Thr nx fr''] -> rep nx fr' = [Thr nx fr'] ->
      lrep nx fr' = rep nx fr' -> emptyrep nx = false -> r2_ok nx.
    Proof.
      intros Ha Hnr Er E2 E1 El Ee Hne Hrt Hns Hph. exists nx. repeat split; auto.
      - intros k _ H0. apply efree_phase. apply atomic_phase0; assumption.
      - rewrite El, E2, E1. cbn [map]. f_equal. apply head_norm.
        destruct Hph as [H|H]; [left; exact H|right; apply atomic_phase0; assumption].
    Qed.

    Lemma r2_list l : Forall r2_ok l -> noempty_list l = true -> Forall (rt true) l -> Forall nsdr l ->
      (lim = None \/ Forall (phase 0) l) ->
      Forall (rt true) (replace_list (Some sq) l) /\ noempty_list (replace_list (Some sq) l) = true /\
      Forall nsdr (replace_list (Some sq) l) /\ (l <> [] -> emptyrep_list (replace_list (Some sq) l) = false) /\
      (forall k, phase k sq -> Forall (phase 0) l -> Forall (phase k) (replace_list (Some sq) l)) /\
      map norm (rep_list (replace_list (Some sq) l) fr'') = map norm (lrep_list l fr') /\
      (l <> [] -> replace_list (Some sq) l <> []).
    Proof.
      induction l as [|x t IHt]; intros IH Hne Hrt Hns Hph;
        [repeat apply conj; try reflexivity; try (intros; constructor); try (intros HH; exfalso; apply HH; reflexivity)|].
      inversion IH as [|? ? Hx Ht]; subst. inversion Hrt as [|? ? Rx Rt]; subst. inversion Hns as [|? ? Nx Nt]; subst.
      cbn in Hne. apply andb_true_iff in Hne. destruct Hne as [E1 E2].
      assert (Hpx : lim = None \/ phase 0 x) by (destruct Hph as [H|H]; [left; exact H|right; inversion H; assumption]).
      assert (Hpt : lim = None \/ Forall (phase 0) t) by (destruct Hph as [H|H]; [left; exact H|right; inversion H; assumption]).
      destruct (Hx E1 Rx Nx Hpx) as (c & Ec & a & b & c0 & d & e & f).
      destruct (IHt Ht E2 Rt Nt Hpt) as (A & B & C & D & E & F & G).
      cbn [replace_list]. rewrite Ec. cbn [rep_list lrep_list noempty_list emptyrep_list]. rewrite !map_app, f, F, b, B, d.
      repeat split; auto; try discriminate.
      intros k Hk H; inversion H; subst. constructor; auto.
    Qed.

    Lemma r2_all nx : r2_ok nx.
    Proof.
      induction nx as [sl|nx IH|fs IH|i nx IH|a b' nx IH|ms IH|sq0 cur lim0 stop0 IH1 IH2|] using sel_ind2;
        try (apply r2_atomic; try reflexivity; intros; discriminate).
      - destruct ms as [|m ms]; [intros Hne; discriminate|].
        intros Hne Hrt Hns Hph. rewrite replace_edge_union, lrep_union. rewrite noempty_union in Hne.
        inversion Hrt as [| | | | |? ? Rms| |]; subst. inversion Hns as [| | | | |? Nms| |]; subst.
        assert (Hpl : lim = None \/ Forall (phase 0) (m :: ms))
          by (destruct Hph as [H|H]; [left; exact H|right; apply phase_union; exact H]).
        destruct (r2_list (m :: ms) IH Hne Rms Nms Hpl) as (A & B & C & D & E & F & G).
        specialize (D ltac:(discriminate)). specialize (G ltac:(discriminate)).
        destruct (union_of (replace_list (Some sq) (m :: ms))) as [c|] eqn:Eu.
        + destruct (union_of_some _ c fr'' Eu) as (a & b & e & c0 & d & n0 & f).
          exists c. rewrite a, e. repeat apply conj; auto;
            try (intros k Hk H0; apply f; apply E; [exact Hk|]; apply phase_union; exact H0).
        + destruct (replace_list (Some sq) (m :: ms)) as [|x [|y t]]; cbn in Eu; try discriminate; try congruence.
      - (* a nested recursion: a member of its own; below its frame nothing of ours is readable *)
        intros Hne Hrt Hns Hph. exists (SRec sq0 cur lim0 stop0). cbn [replace_edge]. repeat apply conj; auto.
        + intros k _ _. apply phase_rec.
        + cbn [lrep rep]. apply map_norm_or_nop; [reflexivity|discriminate|]. apply rep_tail. reflexivity.
      - (* an edge *)
        intros Hne Hrt Hns Hph. exists sq. cbn [replace_edge lrep]. repeat apply conj; auto.
        + apply srcw_rt; exact Hsq.
        + eapply nsd_src; eauto.
        + unfold live in Hlive. apply negb_true_iff in Hlive. exact Hlive.
        + unfold fr', fr''. rewrite (reenter_live sq lim stop fr Hsq Hlive Hex). reflexivity.
    Qed.
  End Continue.
End Replace.

(* ------------------------------------------------------------------ the recursion wrapper of the current tree *)
Lemma wrap_cur sq lim stop nx b fr :
  srcw true sq -> live sq = true -> noempty sq = true -> nsd_rec sq = true ->
  noempty nx = true -> rt true nx -> nsdr nx ->
  (lim = None \/ (uniform sq = true /\ exists r, phase r nx)) ->
  exists r', rec_wrap current sq lim stop nx = XOk r' /\
    (forall w, r' = Some w -> rt b w /\ has_edge w = false /\ noempty w = true /\ nsdr w) /\
    map norm (orep r' fr) = map norm (lrep nx (mkframe sq lim stop :: fr)).
Proof.
  intros Hsq Hlive Hnes Hnsd Hne Hrt Hns Hph. unfold rec_wrap. cbn [current q_shared_depth q_exhausted_unwrap].
  destruct (has_edge nx) eqn:He; cbn [negb].
  - assert (Hph0 : lim = None \/ phase 0 nx).
    { destruct Hph as [H|(_ & r & Hr)]; [left; exact H|right].
      pose proof (has_edge_depth0 nx He) as H0. unfold phase in Hr. rewrite Forall_forall in Hr.
      pose proof (Hr _ H0) as E0. subst r. apply Forall_forall. exact Hr. }
    destruct (exhausted lim) eqn:Hex.
    + pose proof (r1_all sq lim stop fr Hex nx Hne Hrt Hns) as H1.
      destruct (replace_edge nx None) as [c|].
      * destruct H1 as (a & b0 & c0 & d & e & f).
        exists (Some (SRec sq c lim stop)). split; [reflexivity|]. split.
        -- intros w E; inversion E; subst. repeat apply conj.
           ++ constructor; assumption.
           ++ reflexivity.
           ++ cbn [noempty]. rewrite Hnes, d. reflexivity.
           ++ constructor; auto. destruct Hph as [H|(Hu & r & Hr)]; [subst lim; discriminate|].
              right. split; [exact Hu|]. exists r. apply f. exact Hr.
        -- cbn [orep rep]. rewrite or_nop_id by (apply rep_noedge_nonempty; exact b0). rewrite a. reflexivity.
      * exists None. split; [reflexivity|]. split; [discriminate|]. cbn [orep]. rewrite H1. reflexivity.
    + destruct (r2_all sq lim stop fr Hsq Hlive Hnes Hnsd Hex nx Hne Hrt Hns Hph0) as (c & Ec & a & b0 & c0 & d & e & f).
      rewrite Ec. exists (Some (SRec sq c (lim_pred lim) stop)). split; [reflexivity|]. split.
      * intros w E; inversion E; subst. repeat apply conj.
        -- constructor; assumption.
        -- reflexivity.
        -- cbn [noempty]. rewrite Hnes, b0. reflexivity.
        -- constructor; auto. destruct Hph as [H|(Hu & r & Hr)]; [subst lim; left; reflexivity|].
           destruct lim as [z|]; [|left; reflexivity]. right. split; [exact Hu|].
           destruct (uniform_phase sq Hu) as [k Hk]. exists k. apply e; [exact Hk|].
           destruct Hph0 as [H|H]; [discriminate|exact H].
      * cbn [orep rep]. rewrite or_nop_id; [exact f|]. intros E. apply rep_empty_iff in E. congruence.
  - exists (Some (SRec sq nx lim stop)). split; [reflexivity|]. split.
    + intros w E; inversion E; subst. repeat apply conj.
      * constructor; assumption.
      * reflexivity.
      * cbn [noempty]. rewrite Hnes, Hne. reflexivity.
      * constructor; auto.
    + cbn [orep rep]. rewrite or_nop_id by (apply rep_noedge_nonempty; exact He).
      rewrite (lrep_noedge nx _ He). reflexivity.
Qed.

(* ------------------------------------------------------------------ phases along Explore *)
Lemma explore_rec_shape sq cur lim stop n p w :
  explore current (SRec sq cur lim stop) n p = XOk (Some w) -> exists c l', w = SRec sq c l' stop.
Proof.
  cbn [explore].
  assert (Hw : forall nx, rec_wrap current sq lim stop nx = XOk (Some w) -> exists c l', w = SRec sq c l' stop).
  { intros nx. unfold rec_wrap. cbn [current q_shared_depth q_exhausted_unwrap].
    destruct (has_edge nx); cbn [negb]; [|intros E; inversion E; eauto].
    destruct (exhausted lim); [destruct (replace_edge nx None)|destruct (replace_edge nx (Some sq))];
      intros E; inversion E; eauto. }
  assert (Hc : (if is_edge cur then XOk None
                else match explore current cur n p with
                     | XOk (Some nx) => rec_wrap current sq lim stop nx
                     | XOk None => XOk None | XErr => XOk None | XPanic => XPanic end) = XOk (Some w) ->
               exists c l', w = SRec sq c l' stop).
  { destruct (is_edge cur); [discriminate|]. destruct (explore current cur n p) as [[nx|]| |]; try discriminate. apply Hw. }
  destruct stop as [c|]; [|exact Hc].
  destruct (lookup_seg n p); [|discriminate]. destruct (cond_match c d); [discriminate|exact Hc].
Qed.

Lemma fields_phase r fs k nx :
  Forall (fun d => d = r) (ed_fields 1 fs) -> assoc k fs = Some nx -> Forall (fun d => d = r) (edge_depths 1 nx).
Proof.
  induction fs as [|[k' x] t IH]; cbn; [discriminate|]. intros H. apply Forall_app in H. destruct H as [H1 H2].
  destruct (bytes_eqb k k'); [intros E; inversion E; subst; exact H1|apply IH; exact H2].
Qed.

Lemma explore_phase s : forall r n p nx,
  phase r s -> explore current s n p = XOk (Some nx) -> phase (pred r) nx.
Proof.
  induction s as [sl|nx0 IH|fs IH|i nx0 IH|a b' nx0 IH|ms IH|sq cur lim stop IH1 IH2|] using sel_ind2;
    intros r n p nx Hp E; try discriminate.
  - cbn in E. inversion E; subst. apply phase_cont. exact Hp.
  - cbn in E. inversion E as [E']. unfold phase in Hp. rewrite ed_fields_eq in Hp. apply phase_cont.
    eapply fields_phase; eauto.
  - cbn in E. destruct n; try discriminate. destruct (seg_index p); [|discriminate].
    destruct (seg_index (seg_of_int i)); [|discriminate]. destruct (_ =? _); inversion E; subst.
    apply phase_cont. exact Hp.
  - cbn in E. destruct n; try discriminate. destruct (seg_index p); [|discriminate].
    destruct (_ || _)%bool; inversion E; subst. apply phase_cont. exact Hp.
  - rewrite explore_union in E. apply phase_union in Hp.
    assert (Hall : forall rs, explore_all current ms n p = XOk rs -> Forall (phase (pred r)) rs).
    { clear E. induction ms as [|m t IHt]; intros rs Ers; [inversion Ers; constructor|].
      inversion IH as [|? ? Hx Ht]; subst. inversion Hp as [|? ? Px Pt]; subst.
      cbn in Ers. destruct (explore current m n p) as [ro| |] eqn:Em; try discriminate.
      destruct (explore_all current t n p) as [rs'| |] eqn:Et; try discriminate. inversion Ers; subst.
      specialize (IHt Ht Pt rs' eq_refl). destruct ro as [x|]; [|exact IHt]. constructor; [|exact IHt].
      eapply Hx; eauto. }
    destruct (explore_all current ms n p) as [rs| |]; try discriminate. inversion E as [E'].
    eapply phase_union_of; [apply (Hall rs eq_refl)|exact E'].
  - destruct (explore_rec_shape _ _ _ _ _ _ _ E) as (c & l' & ->). apply phase_rec.
Qed.

(* ------------------------------------------------------------------ Explore of the current tree = sstep, up to norm *)
Definition explore_ok_cur (s : sel) : Prop :=
  forall b fr n ps v,
    rt b s -> nsdr s -> noempty s = true -> lookup_seg n ps = Some v -> stopped fr v = false ->
    exists r, explore current s n ps = XOk r /\
              (forall s', r = Some s' -> rt b s' /\ nsdr s' /\ noempty s' = true) /\
              map norm (lrep_opt r fr) = map norm (flat_map (sstep n ps v) (rep s fr)).

Lemma explore_cur : forall s, explore_ok_cur s.
Proof.
  induction s as [sl|nx IH|fs IH|i nx IH|a b' nx IH|ms IH|sq cur lim stop IH1 IH2|] using sel_ind2;
    intros b fr n ps v Hrt Hns Hne Hl Hs.
  - destruct (explore_sstep (SMatch sl) b fr n ps v Hrt Hl Hs) as (r & Er & Rr & Lr).
    exists r. split; [exact Er|]. split; [|rewrite Lr; reflexivity]. cbn in Er. inversion Er; subst. discriminate.
  - destruct (explore_sstep (SAll nx) b fr n ps v Hrt Hl Hs) as (r & Er & Rr & Lr).
    exists r. split; [exact Er|]. split; [|rewrite Lr; reflexivity]. cbn in Er. inversion Er; subst.
    intros s' E; inversion E; subst. inversion Hrt; subst. inversion Hns; subst. repeat apply conj.
    + apply srcw_rt; assumption.
    + eapply nsd_src; eauto.
    + exact Hne.
  - destruct (explore_sstep (SFields fs) b fr n ps v Hrt Hl Hs) as (r & Er & Rr & Lr).
    exists r. split; [exact Er|]. split; [|rewrite Lr; reflexivity]. cbn in Er. inversion Er; subst.
    intros s' E. inversion Hrt; subst. inversion Hns; subst. rewrite noempty_fields_eq in Hne. repeat apply conj.
    + apply srcw_rt. eapply (assoc_Forall (srcw b)); eauto.
    + eapply nsd_src; [eapply (assoc_Forall (srcw b)); eauto|].
      eapply (assoc_fields_prop nsd_rec nsd_fields); eauto.
    + eapply (assoc_fields_prop noempty noempty_fields); eauto.
  - destruct (explore_sstep (SIndex i nx) b fr n ps v Hrt Hl Hs) as (r & Er & Rr & Lr).
    exists r. split; [exact Er|]. split; [|rewrite Lr; reflexivity].
    intros s' E. subst r. inversion Hrt; subst. inversion Hns; subst.
    assert (s' = nx).
    { cbn in Er. destruct n; try discriminate. destruct (seg_index ps); [|discriminate].
      destruct (seg_index (seg_of_int i)); [|discriminate]. destruct (_ =? _); inversion Er; reflexivity. }
    subst s'. repeat apply conj; [apply srcw_rt; assumption|eapply nsd_src; eauto|exact Hne].
  - destruct (explore_sstep (SRange a b' nx) b fr n ps v Hrt Hl Hs) as (r & Er & Rr & Lr).
    exists r. split; [exact Er|]. split; [|rewrite Lr; reflexivity].
    intros s' E. subst r. inversion Hrt; subst. inversion Hns; subst.
    assert (s' = nx).
    { cbn in Er. destruct n; try discriminate. destruct (seg_index ps); [|discriminate].
      destruct (_ || _)%bool; inversion Er; reflexivity. }
    subst s'. repeat apply conj; [apply srcw_rt; assumption|eapply nsd_src; eauto|exact Hne].
  - (* union *)
    destruct ms as [|m ms]; [discriminate|].
    rewrite explore_union, rep_union. rewrite noempty_union in Hne.
    inversion Hrt as [| | | | |? ? Hms| |]; subst. inversion Hns as [| | | | |? Nms| |]; subst.
    assert (Hall : exists rs, explore_all current (m :: ms) n ps = XOk rs /\
                              Forall (rt b) rs /\ Forall nsdr rs /\ noempty_list rs = true /\
                              map norm (lrep_list rs fr) = map norm (flat_map (sstep n ps v) (rep_list (m :: ms) fr))).
    { revert IH Hms Nms Hne. generalize (m :: ms). intros l IH Hlr Hln Hle.
      induction l as [|x t IHt]; [exists []; repeat apply conj; try constructor; reflexivity|].
      inversion IH as [|? ? Hx Ht]; subst. inversion Hlr as [|? ? Rx Rt]; subst. inversion Hln as [|? ? Nx Nt]; subst.
      cbn in Hle. apply andb_true_iff in Hle. destruct Hle as [E1 E2].
      destruct (Hx b fr n ps v Rx Nx E1 Hl Hs) as (r & Er & Rr & Lr).
      destruct (IHt Ht Rt Nt E2) as (rs & Ers & Rrs & Nrs & Ers2 & Lrs).
      cbn [explore_all rep_list]. rewrite Er, Ers, flat_map_app, map_app, <- Lr, <- Lrs.
      destruct r as [x'|].
      - destruct (Rr x' eq_refl) as (R1 & R2 & R3). exists (x' :: rs). cbn [lrep_list lrep_opt noempty_list].
        rewrite map_app, R3, Ers2. repeat apply conj; auto.
      - exists rs. repeat apply conj; auto. }
    destruct Hall as (rs & Ers & Rrs & Nrs & Ners & Lrs). rewrite Ers. exists (union_of rs).
    split; [reflexivity|split].
    + intros s' E. destruct (union_of_some rs s' fr E) as (_ & _ & _ & _ & d & e & _).
      repeat apply conj; auto.
      destruct rs as [|x [|y t]]; cbn in E; inversion E; subst; [inversion Rrs; assumption|constructor; assumption].
    + rewrite lrep_union_of. exact Lrs.
  - (* recursion *)
    inversion Hrt as [| | | | | |? ? ? ? ? Hsq Hcur|]; subst.
    inversion Hns as [| | | | | |? ? ? ? Hnsq Hlive Hncur Hph|]; subst.
    cbn [noempty] in Hne. apply andb_true_iff in Hne. destruct Hne as [Hnes Hnec].
    cbn [explore rep]. fold (mkframe sq lim stop). rewrite flat_map_or_nop, Hl.
    set (fr' := mkframe sq lim stop :: fr).
    assert (Hst : stopped fr' v = match stop with Some c => cond_match c v | None => false end).
    { unfold fr'. cbn [stopped existsb mkframe fr_stop]. fold (stopped fr v). rewrite Hs.
      destruct stop; [apply orb_false_r|reflexivity]. }
    match goal with |- context [if is_edge cur then ?A else ?B] => set (cont := if is_edge cur then A else B) end.
    assert (Hmain : stopped fr' v = false ->
                    exists r, cont = XOk r /\ (forall s', r = Some s' -> rt b s' /\ nsdr s' /\ noempty s' = true) /\
                              map norm (lrep_opt r fr) = map norm (flat_map (sstep n ps v) (rep cur fr'))).
    { intros Est. unfold cont. destruct (is_edge cur) eqn:Ee.
      - destruct cur; try discriminate. exists None. fin. reflexivity.
      - destruct (IH2 true fr' n ps v Hcur Hncur Hnec Hl Est) as (r & Er & Rr & Lr). rewrite Er.
        destruct r as [nx|].
        + destruct (Rr nx eq_refl) as (R1 & R2 & R3).
          assert (Hphn : lim = None \/ (uniform sq = true /\ exists r, phase r nx)).
          { destruct Hph as [H|(Hu & r & Hr)]; [left; exact H|right; split; [exact Hu|]].
            exists (pred r). eapply explore_phase; eauto. }
          destruct (wrap_cur sq lim stop nx b fr Hsq Hlive Hnes Hnsq R3 R1 R2 Hphn) as (r' & Er' & Rr' & Lr').
          rewrite Er'. exists r'. split; [reflexivity|split].
          * intros s' E. destruct (Rr' s' E) as (A & _ & C & D). auto.
          * rewrite <- Lr. cbn [lrep_opt]. fold fr' in Lr'. rewrite <- Lr'.
            destruct r' as [w|]; cbn [orep lrep_opt]; [|reflexivity].
            rewrite lrep_noedge; [reflexivity|]. apply (Rr' w eq_refl).
        + exists None. fin. exact Lr. }
    destruct stop as [c|].
    + cbn iota beta. destruct (cond_match c v) eqn:Ec.
      * exists None. fin. rewrite (sstep_dead n ps v fr' _ Hst (rep_frames cur fr')). reflexivity.
      * apply Hmain. exact Hst.
    + apply Hmain. exact Hst.
  - (* edge *)
    exists None. cbn. fin. reflexivity.
Qed.

(* ------------------------------------------------------------------ the walk of the current tree = denote *)
Section WC.
  Variable g : list (bytes * dm).
  Hypothesis Hg : keys_graph g = true.
  Hypothesis Hsg : small_graph g = true.

  Theorem walk_denote_cur f : forall ls P n s,
    rt false s -> nsdr s -> noempty s = true -> keys_ok n = true -> small_dm n = true ->
    walk current g f ls P n s = denote g f ls P n (rep s []).
  Proof.
    induction f as [|f IH]; intros ls P n s Hrt Hns Hne Hk Hsm; [reflexivity|].
    rewrite walk_S, denote_S. unfold visit_event. rewrite (match_rep s false [] n Hrt (small_dm_top n Hsm)).
    destruct (is_container n); [|reflexivity].
    replace (children current n s) with (children repaired n s) by reflexivity.
    rewrite <- (children_rep n s []).
    rewrite (seqk_ext_in (explore_step current g (walk current g f) ls P n s)
                         (denote_step g (denote g f) ls P n (rep s []))); [reflexivity|].
    intros [ps v] Hin.
    pose proof (children_lookup repaired n s ps v Hk Hin) as Hl.
    pose proof (lookup_keys_ok n ps v Hk Hl) as Hkv.
    pose proof (lookup_small n ps v Hsm Hl) as Hsv.
    destruct (explore_cur s false [] n ps v Hrt Hns Hne Hl eq_refl) as (r & Er & Rr & Lr).
    unfold explore_step, denote_step; cbn [fst snd]. rewrite Er.
    destruct r as [s'|].
    - destruct (Rr s' eq_refl) as (R1 & R2 & R3). cbn [lrep_opt] in Lr.
      rewrite (lrep_noedge s' [] (rt_closed s' R1)) in Lr.
      pose proof (rep_closed_nonempty s' [] R1) as Hne'.
      destruct (flat_map (sstep n ps v) (rep s [])) as [|a0 A'] eqn:EA.
      { destruct (rep s' []); [congruence|discriminate]. }
      destruct v; try (rewrite (IH _ _ _ s' R1 R2 R3) by assumption; apply denote_norm; exact Lr).
      destruct (assoc c g) as [b|] eqn:Eb; [|reflexivity].
      rewrite (IH (c :: ls) (P ++ [ps]) b s' R1 R2 R3 (keys_block g c b Hg Eb) (small_block g c b Hsg Eb)).
      rewrite (denote_norm g f (c :: ls) (P ++ [ps]) b _ _ Lr). reflexivity.
    - cbn [lrep_opt map] in Lr. destruct (flat_map (sstep n ps v) (rep s [])); [reflexivity|discriminate].
  Qed.
End WC.

Theorem walk_denote_current g f root s :
  keys_graph g = true -> small_graph g = true -> keys_ok root = true -> small_dm root = true ->
  srcw false s -> no_shared_depth s = true ->
  walk_adv current g f root s = denote_sel g f root s.
Proof.
  intros Hg Hsg Hk Hsm Hs Hn. unfold no_shared_depth in Hn. apply andb_true_iff in Hn. destruct Hn as [Hne Hnsd].
  unfold walk_adv, denote_sel.
  rewrite (walk_denote_cur g Hg Hsg f [] [] root s (srcw_rt s false Hs) (nsd_src s false Hs Hnsd) Hne Hk Hsm).
  rewrite (rep_src s false [] Hs), (enter_closed s [] Hs). reflexivity.
Qed.

(* ------------------------------------------------------------------ examples and what lies outside the condition *)
Require Import IP.Proofs.TravC07Refuted.

(* the realistic selector: recursive(depth 5, union(match, all(edge))) *)
Example no_shared_depth_realistic :
  exists s, compile (d_rec_depth 5 (d_union [d_match; d_all d_edge])) = COk s /\ no_shared_depth s = true.
Proof. eexists; split; vm_compute; reflexivity. Qed.
(* depth limit with mid-sequence matchers next to the edge, a nested recursion, fields: still inside *)
Example no_shared_depth_more :
  exists s, compile (d_rec_depth 3 (d_union [d_all d_match; d_all d_edge;
                                             d_fields [([97%N], d_rec_none (d_all d_edge))]])) = COk s /\
            no_shared_depth s = true.
Proof. eexists; split; vm_compute; reflexivity. Qed.

(* the known witness of the shared counter is outside, and there the current tree does differ from the specification *)
Lemma shared_depth_outside :
  exists s, compile w4_sel = COk s /\ no_shared_depth s = false /\
            walk_adv current [] 20 w4_root s <> denote_sel [] 20 w4_root s.
Proof. eexists; split; [vm_compute; reflexivity|split; [vm_compute; reflexivity|vm_compute; discriminate]]. Qed.

(* found while proving: replaceRecursiveEdge drops an EMPTY union that sits next to an edge, so at exhaustion the
   node is not visited although the empty union (which visits its node and explores nothing, as all(union()) does)
   is still there: R(depth 1, all(union(edge, union()))) over [[1]] does not visit the element *)
Definition w5_sel : dm := d_rec_depth 1 (d_all (d_union [d_edge; d_union []])).
Definition w5_root : dm := DList [DList [DInt 1]].
Lemma empty_union_dropped :
  exists s, compile w5_sel = COk s /\ noempty s = false /\ nsd_rec s = true /\
            length (fst (walk_adv current [] 20 w5_root s)) = 1%nat /\
            length (fst (denote_sel [] 20 w5_root s)) = 2%nat /\
            walk_adv repaired [] 20 w5_root s = denote_sel [] 20 w5_root s.
Proof. eexists; split; [vm_compute; reflexivity|repeat split; vm_compute; reflexivity]. Qed.
