(* Proofs/TravCurrent.v — C07 for the CURRENT tree (only the shared depth counter left): on every compiled selector
   satisfying the syntactic condition [no_shared_depth] the walk is exactly what the selector denotes.
   The shared counter gives mid-sequence members a smaller remaining depth than the specification's per-thread
   counters; under the condition such members contain no edge of their recursion, so the difference can never be
   consulted.  Thread lists are therefore compared up to [norm], which erases depth counters that cannot be read:
   those of frames below the innermost one (edges bind to the innermost recursion) and that of the innermost frame of
   a clause without a free edge. *)
Require Import IP.Base.Bytes IP.DM.Value IP.Base.GoSem IP.Trav.Selector IP.Trav.Walk IP.Trav.Controls IP.Trav.SelectorSpec
  IP.Trav.Path IP.Trav.QuirkFree IP.Proofs.TravFacts IP.Proofs.TravSel IP.Proofs.TravStart IP.Proofs.TravPath
  IP.Proofs.TravSlice IP.Proofs.TravDenote IP.Proofs.TravDenoteWalk IP.Proofs.TravPinned.
From Coq Require Import Lia.
Open Scope Z_scope.

(* ------------------------------------------------------------------ edge depths *)
Fixpoint ed_list (d : nat) (ms : list sel) : list nat :=
  match ms with [] => [] | m :: t => edge_depths d m ++ ed_list d t end.
Fixpoint ed_fields (d : nat) (fs : list (bytes * sel)) : list nat :=
  match fs with [] => [] | kv :: t => edge_depths d (snd kv) ++ ed_fields d t end.
Lemma ed_union d ms : edge_depths d (SUnion ms) = ed_list d ms.
Proof.
  cbn [edge_depths].
  match goal with |- ?F ms = _ => assert (E : forall l, F l = ed_list d l) end.
  { induction l as [|x t IH]; [reflexivity|]. cbn [ed_list]. rewrite IH. reflexivity. }
  apply E.
Qed.
Lemma ed_fields_eq d fs : edge_depths d (SFields fs) = ed_fields (S d) fs.
Proof.
  cbn [edge_depths].
  match goal with |- ?F fs = _ => assert (E : forall l, F l = ed_fields (S d) l) end.
  { induction l as [|x t IH]; [reflexivity|]. cbn [ed_fields]. rewrite IH. reflexivity. }
  apply E.
Qed.

Lemma ed_shift s : forall d, edge_depths d s = map (Nat.add d) (edge_depths 0 s).
Proof.
  induction s as [sl|nx IH|fs IH|i nx IH|a b' nx IH|ms IH|sq cur lim stop IH1 IH2|] using sel_ind2;
    intros d; try reflexivity.
  - cbn [edge_depths]. rewrite (IH (S d)), (IH 1%nat), map_map. apply map_ext. intros; lia.
  - rewrite !ed_fields_eq. induction fs as [|kv t IHt]; [reflexivity|]. inversion IH as [|? ? Hx Ht]; subst.
    cbn [ed_fields]. rewrite !map_app, (Hx (S d)), (Hx 1%nat), map_map, (IHt Ht). f_equal. apply map_ext. intros; lia.
  - cbn [edge_depths]. rewrite (IH (S d)), (IH 1%nat), map_map. apply map_ext. intros; lia.
  - cbn [edge_depths]. rewrite (IH (S d)), (IH 1%nat), map_map. apply map_ext. intros; lia.
  - rewrite !ed_union. induction ms as [|m t IHt]; [reflexivity|]. inversion IH as [|? ? Hx Ht]; subst.
    cbn [ed_list]. rewrite map_app, (Hx d), (IHt Ht). reflexivity.
  - cbn. f_equal. lia.
Qed.

Definition is_efree (s : sel) : bool := match edge_depths 0 s with [] => true | _ => false end.
Definition phase (r : nat) (s : sel) : Prop := Forall (fun d => d = r) (edge_depths 0 s).

Lemma phase_cont r nx : Forall (fun d => d = r) (edge_depths 1 nx) -> phase (pred r) nx.
Proof.
  unfold phase. rewrite (ed_shift nx 1). intros H. apply Forall_forall. intros d Hd.
  rewrite Forall_forall in H. specialize (H (1 + d)%nat (in_map _ _ _ Hd)). lia.
Qed.
Lemma efree_cont nx : edge_depths 1 nx = [] -> is_efree nx = true.
Proof. unfold is_efree. rewrite (ed_shift nx 1). destruct (edge_depths 0 nx); [reflexivity|discriminate]. Qed.
Lemma efree_phase r s : is_efree s = true -> phase r s.
Proof. unfold is_efree, phase. destruct (edge_depths 0 s); [constructor|discriminate]. Qed.

(* ------------------------------------------------------------------ norm: erase unreadable depth counters *)
Definition erase (f : frame) : frame := {| fr_seq := fr_seq f; fr_lim := None; fr_stop := fr_stop f |}.
Definition norm_fr (b : bool) (fr : list frame) : list frame :=
  match fr with [] => [] | f :: r => (if b then f else erase f) :: map erase r end.
Definition norm (t : thr) : thr :=
  match t with Thr p fr => Thr p (norm_fr (negb (is_efree p)) fr) end.

Lemma erase_idem f : erase (erase f) = erase f.
Proof. reflexivity. Qed.
Lemma map_erase_idem l : map erase (map erase l) = map erase l.
Proof. rewrite map_map. reflexivity. Qed.

Lemma norm_fr_erase b frA frB : norm_fr b frA = norm_fr b frB -> map erase frA = map erase frB.
Proof.
  destruct frA as [|a ta], frB as [|b0 tb]; cbn; try discriminate; [reflexivity|].
  intros H. inversion H as [[H1 H2]]. rewrite H2. f_equal.
  destruct b; [rewrite H1; reflexivity|exact H1].
Qed.

Lemma norm_fr_mono b b' frA frB :
  (b' = true -> b = true) -> norm_fr b frA = norm_fr b frB -> norm_fr b' frA = norm_fr b' frB.
Proof.
  intros Hb H. destruct b'; [rewrite (Hb eq_refl) in H; exact H|].
  pose proof (norm_fr_erase b frA frB H) as E.
  destruct frA as [|a ta], frB as [|b0 tb]; cbn in *; try discriminate; [reflexivity|]. congruence.
Qed.

Lemma stopped_erase fr v : stopped (map erase fr) v = stopped fr v.
Proof. unfold stopped. induction fr as [|f r IH]; [reflexivity|]. cbn. rewrite IH. reflexivity. Qed.

Lemma norm_nil_iff a b : map norm a = map norm b -> (a = [] <-> b = []).
Proof. destruct a, b; cbn; try discriminate; intros _; split; try discriminate; auto. Qed.

Lemma map_norm_or_nop frA frB a b :
  map erase frA = map erase frB -> frA <> [] -> map norm a = map norm b ->
  map norm (or_nop frA a) = map norm (or_nop frB b).
Proof.
  intros Hf Hne H. destruct a, b; cbn in H; try discriminate; [|exact H].
  cbn. f_equal. f_equal.
  destruct frA as [|x ta], frB as [|y tb]; cbn in *; try discriminate; try congruence.
Qed.

(* frames that differ only below the head, in depth counters *)
Lemma enter0_tail s : forall h tA tB,
  map erase tA = map erase tB -> map norm (enter0 s (h :: tA)) = map norm (enter0 s (h :: tB)).
Proof.
  induction s as [sl|nx IH|fs IH|i nx IH|a b' nx IH|ms IH|sq cur lim stop IH1 IH2|] using sel_ind2;
    intros h tA tB H; try reflexivity; try (cbn; rewrite H; reflexivity).
  - destruct ms as [|m ms]; [cbn; rewrite H; reflexivity|]. rewrite !enter0_union.
    revert IH. generalize (m :: ms). intros l IH. induction l as [|x t IHt]; [reflexivity|].
    inversion IH as [|? ? Hx Ht]; subst. cbn [enter0_list]. rewrite !map_app, (Hx h tA tB H), (IHt Ht). reflexivity.
  - cbn [enter0]. apply map_norm_or_nop; [cbn; rewrite H; reflexivity|discriminate|].
    apply IH1. cbn. rewrite H. reflexivity.
Qed.

Lemma rep_tail s : forall h tA tB,
  map erase tA = map erase tB -> map norm (rep s (h :: tA)) = map norm (rep s (h :: tB)).
Proof.
  induction s as [sl|nx IH|fs IH|i nx IH|a b' nx IH|ms IH|sq cur lim stop IH1 IH2|] using sel_ind2;
    intros h tA tB H; try reflexivity; try (cbn; rewrite H; reflexivity).
  - destruct ms as [|m ms]; [cbn; rewrite H; reflexivity|]. rewrite !rep_union.
    revert IH. generalize (m :: ms). intros l IH. induction l as [|x t IHt]; [reflexivity|].
    inversion IH as [|? ? Hx Ht]; subst. cbn [rep_list]. rewrite !map_app, (Hx h tA tB H), (IHt Ht). reflexivity.
  - cbn [rep]. apply map_norm_or_nop; [cbn; rewrite H; reflexivity|discriminate|].
    apply IH2. cbn. rewrite H. reflexivity.
Qed.

(* ------------------------------------------------------------------ the specification cannot see what norm erases *)
Lemma efree_all nx : is_efree (SAll nx) = true -> is_efree nx = true.
Proof. unfold is_efree at 1. cbn [edge_depths]. intros H. apply efree_cont. destruct (edge_depths 1 nx); [reflexivity|discriminate]. Qed.
Lemma efree_index i nx : is_efree (SIndex i nx) = true -> is_efree nx = true.
Proof. unfold is_efree at 1. cbn [edge_depths]. intros H. apply efree_cont. destruct (edge_depths 1 nx); [reflexivity|discriminate]. Qed.
Lemma efree_range a b nx : is_efree (SRange a b nx) = true -> is_efree nx = true.
Proof. unfold is_efree at 1. cbn [edge_depths]. intros H. apply efree_cont. destruct (edge_depths 1 nx); [reflexivity|discriminate]. Qed.
Lemma efree_fields fs k nx : is_efree (SFields fs) = true -> assoc k fs = Some nx -> is_efree nx = true.
Proof.
  unfold is_efree at 1. rewrite ed_fields_eq. intros H Ha. apply efree_cont.
  induction fs as [|[k' x] t IH]; [discriminate|]. cbn in Ha, H.
  destruct (edge_depths 1 x) eqn:Ex; [|discriminate]. cbn in H.
  destruct (bytes_eqb k k'); [inversion Ha; subst; exact Ex|]. apply IH; assumption.
Qed.
Lemma efree_union ms m : is_efree (SUnion ms) = true -> In m ms -> is_efree m = true.
Proof.
  unfold is_efree. rewrite ed_union. induction ms as [|x t IH]; intros H Hin; [destruct Hin|].
  cbn in H. destruct (edge_depths 0 x) eqn:Ex; [|discriminate]. cbn in H.
  destruct Hin as [->|Hin]; [rewrite Ex; reflexivity|]. apply IH; assumption.
Qed.

Lemma enter_norm nx : forall frA frB,
  norm_fr (negb (is_efree nx)) frA = norm_fr (negb (is_efree nx)) frB ->
  map norm (enter nx frA) = map norm (enter nx frB).
Proof.
  induction nx as [sl|nx IH|fs IH|i nx IH|a b' nx IH|ms IH|sq cur lim stop IH1 IH2|] using sel_ind2;
    intros frA frB H; try (cbn [enter map norm]; rewrite H; reflexivity).
  - destruct ms as [|m ms]; [cbn [enter map norm]; rewrite H; reflexivity|]. rewrite !enter_union.
    assert (Hm : forall x, In x (m :: ms) -> norm_fr (negb (is_efree x)) frA = norm_fr (negb (is_efree x)) frB).
    { intros x Hx. eapply norm_fr_mono; [|exact H]. intros E. apply negb_true_iff in E. apply negb_true_iff.
      destruct (is_efree (SUnion (m :: ms))) eqn:Eu; [|reflexivity]. rewrite (efree_union _ _ Eu Hx) in E. discriminate. }
    clear H. revert IH Hm. generalize (m :: ms). intros l IH Hm. induction l as [|x t IHt]; [reflexivity|].
    inversion IH as [|? ? Hx Ht]; subst. cbn [enter_list]. rewrite !map_app.
    rewrite (Hx frA frB (Hm x (or_introl eq_refl))), (IHt Ht); [reflexivity|]. intros; apply Hm; right; assumption.
  - cbn [enter]. pose proof (norm_fr_erase _ _ _ H) as He.
    apply map_norm_or_nop; [cbn; rewrite He; reflexivity|discriminate|]. apply enter0_tail. exact He.
  - cbn [is_efree edge_depths negb] in H. change (negb (is_efree SEdge)) with true in H.
    destruct frA as [|x ta], frB as [|y tb]; cbn in H; try discriminate; [reflexivity|].
    inversion H as [[H1 H2]]. subst y. cbn [enter]. destruct (exhausted (fr_lim x)); [reflexivity|].
    apply map_norm_or_nop; [cbn; rewrite H2; reflexivity|discriminate|]. apply enter0_tail. exact H2.
Qed.

Lemma sstep_norm n ps v p frA frB :
  norm_fr (negb (is_efree p)) frA = norm_fr (negb (is_efree p)) frB ->
  map norm (sstep n ps v (Thr p frA)) = map norm (sstep n ps v (Thr p frB)).
Proof.
  intros H. cbn [sstep].
  assert (Es : stopped frA v = stopped frB v).
  { rewrite <- (stopped_erase frA), <- (stopped_erase frB), (norm_fr_erase _ _ _ H). reflexivity. }
  rewrite Es. destruct (stopped frB v); [reflexivity|].
  assert (Hc : forall nx, (is_efree p = true -> is_efree nx = true) ->
                          map norm (enter nx frA) = map norm (enter nx frB)).
  { intros nx Hnx. apply enter_norm. eapply norm_fr_mono; [|exact H]. intros E. apply negb_true_iff in E.
    apply negb_true_iff. destruct (is_efree p); [rewrite Hnx in E by reflexivity; discriminate|reflexivity]. }
  destruct p; try reflexivity.
  - apply Hc. apply efree_all.
  - destruct (assoc (seg_string ps) fs) as [nx|] eqn:Ea; [|reflexivity]. apply Hc. intros E. eapply efree_fields; eauto.
  - destruct (seg_index ps); [|reflexivity]. destruct (_ && _)%bool; [|reflexivity]. apply Hc. apply efree_index.
  - destruct (seg_index ps); [|reflexivity]. destruct (_ && _)%bool; [|reflexivity]. apply Hc. apply efree_range.
Qed.

Lemma flat_sstep_norm n ps v : forall A B,
  map norm A = map norm B -> map norm (flat_map (sstep n ps v) A) = map norm (flat_map (sstep n ps v) B).
Proof.
  induction A as [|x A IH]; destruct B as [|y B]; cbn [map]; try discriminate; [reflexivity|].
  intros H. inversion H as [[H1 H2]]. cbn [flat_map]. rewrite !map_app, (IH B H2). f_equal.
  destruct x as [p frA], y as [p' frB]. cbn [norm] in H1. inversion H1 as [[Hp Hf]]. subst p'. apply sstep_norm. exact Hf.
Qed.

Lemma thr_match_norm t n : thr_match (norm t) n = thr_match t n.
Proof. destruct t as [p fr]. reflexivity. Qed.
Lemma smatch_norm A n : smatch (map norm A) n = smatch A n.
Proof. induction A as [|t A IH]; [reflexivity|]. cbn. rewrite thr_match_norm, IH. reflexivity. Qed.
Lemma thr_interests_norm t : thr_interests (norm t) = thr_interests t.
Proof. destruct t as [p fr]. reflexivity. Qed.
Lemma sinterests_norm A : sinterests (map norm A) = sinterests A.
Proof. induction A as [|t A IH]; [reflexivity|]. cbn. rewrite thr_interests_norm, IH. reflexivity. Qed.

Theorem denote_norm g f : forall ls P n A B,
  map norm A = map norm B -> denote g f ls P n A = denote g f ls P n B.
Proof.
  induction f as [|f IH]; intros ls P n A B H; [reflexivity|].
  rewrite !denote_S.
  assert (Em : smatch A n = smatch B n) by (rewrite <- (smatch_norm A), <- (smatch_norm B), H; reflexivity).
  assert (Ec : schildren n A = schildren n B).
  { unfold schildren. rewrite <- (sinterests_norm A), <- (sinterests_norm B), H. reflexivity. }
  rewrite Em, Ec. destruct (is_container n); [|reflexivity].
  rewrite (seqk_ext_in (denote_step g (denote g f) ls P n A) (denote_step g (denote g f) ls P n B)); [reflexivity|].
  intros [ps v] _. unfold denote_step; cbn [fst snd].
  pose proof (flat_sstep_norm n ps v A B H) as Hs.
  destruct (flat_map (sstep n ps v) A) as [|a0 A'] eqn:EA; destruct (flat_map (sstep n ps v) B) as [|b0 B'] eqn:EB;
    cbn [map] in Hs; try discriminate; [reflexivity|].
  destruct v; try (apply IH; exact Hs).
  destruct (assoc c g); [|reflexivity]. rewrite (IH (c :: ls) (P ++ [ps]) d (a0 :: A') (b0 :: B') Hs). reflexivity.
Qed.

(* ------------------------------------------------------------------ unfoldings *)
Ltac by_list_ind named :=
  first [ reflexivity
        | match goal with |- ?F ?l = _ =>
            let E := fresh "E" in
            assert (E : forall l0, F l0 = named l0)
              by (let l0 := fresh "l0" in let IH := fresh "IH" in
                  intros l0; induction l0 as [|? ? IH]; [reflexivity|]; cbn; rewrite ?IH; reflexivity);
            apply E end ].

Fixpoint noempty_list (ms : list sel) : bool :=
  match ms with [] => true | m :: t => noempty m && noempty_list t end.
Lemma noempty_union m ms : noempty (SUnion (m :: ms)) = noempty_list (m :: ms).
Proof. cbn [noempty noempty_list]. f_equal; by_list_ind noempty_list. Qed.
Fixpoint noempty_fields (fs : list (bytes * sel)) : bool :=
  match fs with [] => true | kv :: t => noempty (snd kv) && noempty_fields t end.
Lemma noempty_fields_eq fs : noempty (SFields fs) = noempty_fields fs.
Proof. cbn [noempty]. by_list_ind noempty_fields. Qed.
Fixpoint nsd_list (ms : list sel) : bool :=
  match ms with [] => true | m :: t => nsd_rec m && nsd_list t end.
Lemma nsd_union ms : nsd_rec (SUnion ms) = nsd_list ms.
Proof. cbn [nsd_rec]. by_list_ind nsd_list. Qed.
Fixpoint nsd_fields (fs : list (bytes * sel)) : bool :=
  match fs with [] => true | kv :: t => nsd_rec (snd kv) && nsd_fields t end.
Lemma nsd_fields_eq fs : nsd_rec (SFields fs) = nsd_fields fs.
Proof. cbn [nsd_rec]. by_list_ind nsd_fields. Qed.
Lemma assoc_fields_prop (P : sel -> bool) (pf : list (bytes * sel) -> bool)
  (Hpf : forall kv t, pf (kv :: t) = (P (snd kv) && pf t)%bool) k fs nx :
  pf fs = true -> assoc k fs = Some nx -> P nx = true.
Proof.
  induction fs as [|[k' x] t IH]; cbn; [discriminate|]. rewrite Hpf. cbn. intros H. apply andb_true_iff in H.
  destruct H as [H1 H2]. destruct (bytes_eqb k k'); [intros E; inversion E; subst; exact H1|apply IH; exact H2].
Qed.

(* ------------------------------------------------------------------ phases *)
Lemma phase_union r ms : phase r (SUnion ms) <-> Forall (phase r) ms.
Proof.
  unfold phase. rewrite ed_union. induction ms as [|m t IH]; cbn [ed_list]; [split; constructor|].
  rewrite Forall_app, IH. split; [intros [A B]; constructor; assumption|intros H; inversion H; auto].
Qed.
Lemma phase_union_of r l : Forall (phase r) l -> forall c, union_of l = Some c -> phase r c.
Proof.
  intros H c E. destruct l as [|x [|y t]]; cbn in E; inversion E; subst.
  - inversion H; assumption.
  - apply phase_union; exact H.
Qed.
Lemma phase_rec r sq cur lim stop : phase r (SRec sq cur lim stop).
Proof. constructor. Qed.
Lemma uniform_phase sq : uniform sq = true -> exists k, phase k sq.
Proof.
  unfold uniform, phase. destruct (edge_depths 0 sq) as [|d r]; [exists O; constructor|].
  intros H. exists d. constructor; [reflexivity|]. rewrite forallb_forall in H. apply Forall_forall.
  intros x Hx. specialize (H x Hx). apply Nat.eqb_eq in H. auto.
Qed.
(* a clause that is neither an edge nor a union has its edges at least one step away *)
Lemma atomic_phase0 s : atomic s = true -> phase 0 s -> is_efree s = true.
Proof.
  assert (Hc : forall nx, Forall (fun d => d = 0%nat) (edge_depths 1 nx) -> edge_depths 1 nx = []).
  { intros nx H. rewrite (ed_shift nx 1) in *. destruct (edge_depths 0 nx); [reflexivity|]. inversion H; discriminate. }
  unfold phase, is_efree. destruct s; try discriminate; try (intros _ _; reflexivity).
  - cbn [edge_depths]. intros _ H. rewrite (Hc _ H). reflexivity.
  - rewrite ed_fields_eq. intros _ H. destruct (ed_fields 1 fs) as [|d l] eqn:E; [reflexivity|]. exfalso.
    inversion H; subst. clear H H3. induction fs as [|kv t IH]; [discriminate|]. cbn in E.
    rewrite (ed_shift (snd kv) 1) in E. destruct (edge_depths 0 (snd kv)); [apply IH; exact E|discriminate].
  - cbn [edge_depths]. intros _ H. rewrite (Hc _ H). reflexivity.
  - cbn [edge_depths]. intros _ H. rewrite (Hc _ H). reflexivity.
  - destruct ms; [intros _ _; reflexivity|discriminate].
Qed.

(* ------------------------------------------------------------------ the runtime invariant *)
Inductive nsdr : sel -> Prop :=
| nr_match sl : nsdr (SMatch sl)
| nr_all nx : nsd_rec nx = true -> nsdr (SAll nx)
| nr_fields fs : nsd_fields fs = true -> nsdr (SFields fs)
| nr_index i nx : nsd_rec nx = true -> nsdr (SIndex i nx)
| nr_range a b nx : nsd_rec nx = true -> nsdr (SRange a b nx)
| nr_union ms : Forall nsdr ms -> nsdr (SUnion ms)
| nr_rec sq cur lim stop :
    nsd_rec sq = true -> live sq = true -> nsdr cur ->
    (lim = None \/ (uniform sq = true /\ exists r, phase r cur)) -> nsdr (SRec sq cur lim stop)
| nr_edge : nsdr SEdge.

Lemma nsd_src s : forall b, srcw b s -> nsd_rec s = true -> nsdr s.
Proof.
  induction s as [sl|nx IH|fs IH|i nx IH|a b' nx IH|ms IH|sq cur lim stop IH1 IH2|] using sel_ind2;
    intros b Hs Hn.
  - constructor.
  - constructor. exact Hn.
  - constructor. rewrite <- nsd_fields_eq. exact Hn.
  - constructor. exact Hn.
  - constructor. exact Hn.
  - constructor. rewrite nsd_union in Hn. inversion Hs as [| | | | |? ? Hms| |]; subst. clear Hs.
    induction ms as [|m t IHt]; [constructor|].
    inversion IH as [|? ? Hx Ht]; subst. inversion Hms as [|? ? Sx St]; subst.
    cbn in Hn. apply andb_true_iff in Hn. destruct Hn as [N1 N2]. constructor; eauto.
  - inversion Hs as [| | | | | |? ? ? ? Hsq|]; subst.
    cbn [nsd_rec] in Hn. apply andb_true_iff in Hn. destruct Hn as [Hn Hu]. apply andb_true_iff in Hn.
    destruct Hn as [Hn Hl]. constructor; auto; [eapply IH1; eauto|].
    destruct lim; [right; split; [exact Hu|apply uniform_phase; exact Hu]|left; reflexivity].
  - constructor.
Qed.

(* ------------------------------------------------------------------ what replaceRecursiveEdge leaves *)
Lemma has_edge_depth0 s : has_edge s = true -> In 0%nat (edge_depths 0 s).
Proof.
  induction s as [sl|nx IH|fs IH|i nx IH|a b' nx IH|ms IH|sq cur lim stop IH1 IH2|] using sel_ind2;
    intros H; try discriminate; [|left; reflexivity].
  rewrite has_edge_union in H. rewrite ed_union. induction ms as [|m t IHt]; [discriminate|].
  inversion IH as [|? ? Hx Ht]; subst. cbn in *. apply in_or_app. apply orb_true_iff in H.
  destruct H as [H|H]; [left; auto|right; auto].
Qed.

Lemma union_of_some cs c fr : union_of cs = Some c ->
  rep c fr = rep_list cs fr /\ has_edge c = has_edge_any cs /\ emptyrep c = emptyrep_list cs /\
  (Forall (rt true) cs -> rt true c) /\ (noempty_list cs = true -> noempty c = true) /\
  (Forall nsdr cs -> nsdr c) /\ (forall r, Forall (phase r) cs -> phase r c).
Proof.
  intros E. destruct cs as [|x [|y t]]; cbn in E; inversion E; subst.
  - cbn [rep_list has_edge_any emptyrep_list noempty_list]. rewrite app_nil_r, orb_false_r, !andb_true_r.
    repeat apply conj; try reflexivity; try (intros H; inversion H; assumption); try (intros r H; inversion H; assumption); auto.
  - rewrite rep_union, has_edge_union, emptyrep_union, noempty_union.
    repeat apply conj; try reflexivity; auto.
    + intros H; constructor; exact H.
    + intros H; constructor; exact H.
    + intros r H; apply phase_union; exact H.
Qed.

Section Replace.
  Variables (sq : sel) (lim : option Z) (stop : option bytes) (fr : list frame).
  Let fr' := mkframe sq lim stop :: fr.

  (* the limit is exhausted: the edges go, everything else stays as it is *)
  Section Exhausted.
    Hypothesis Hex : exhausted lim = true.

    Definition r1_ok (nx : sel) : Prop :=
      noempty nx = true -> rt true nx -> nsdr nx ->
      match replace_edge nx None with
      | Some c => rep c fr' = lrep nx fr' /\ has_edge c = false /\ rt true c /\ noempty c = true /\ nsdr c /\
                  (forall r, phase r nx -> phase r c)
      | None => lrep nx fr' = []
      end.

    Lemma r1_list l : Forall r1_ok l -> noempty_list l = true -> Forall (rt true) l -> Forall nsdr l ->
      rep_list (replace_list None l) fr' = lrep_list l fr' /\ has_edge_any (replace_list None l) = false /\
      Forall (rt true) (replace_list None l) /\ noempty_list (replace_list None l) = true /\
      Forall nsdr (replace_list None l) /\ (forall r, Forall (phase r) l -> Forall (phase r) (replace_list None l)).
    Proof.
      induction l as [|x t IHt]; intros IH Hne Hrt Hns; [repeat split; auto|].
      inversion IH as [|? ? Hx Ht]; subst. inversion Hrt as [|? ? Rx Rt]; subst. inversion Hns as [|? ? Nx Nt]; subst.
      cbn in Hne. apply andb_true_iff in Hne. destruct Hne as [E1 E2].
      destruct (IHt Ht E2 Rt Nt) as (A & B & C & D & E & F). specialize (Hx E1 Rx Nx).
      cbn [replace_list lrep_list]. destruct (replace_edge x None) as [c|].
      - destruct Hx as (a & b & c0 & d & e & f). cbn [rep_list has_edge_any noempty_list]. rewrite a, A, b, B, d, D.
        repeat split; auto. intros r H; inversion H; subst. constructor; auto.
      - rewrite Hx. cbn [app]. repeat split; auto. intros r H; inversion H; subst. auto.
    Qed.

    Lemma r1_all nx : r1_ok nx.
    Proof.
      induction nx as [sl|nx IH|fs IH|i nx IH|a b' nx IH|ms IH|sq0 cur lim0 stop0 IH1 IH2|] using sel_ind2;
        intros Hne Hrt Hns; try (cbn [replace_edge]; repeat split; auto; fail).
      - destruct ms as [|m ms]; [discriminate|]. rewrite replace_edge_union, lrep_union. rewrite noempty_union in Hne.
        inversion Hrt as [| | | | |? ? Rms| |]; subst. inversion Hns as [| | | | |? Nms| |]; subst.
        destruct (r1_list (m :: ms) IH Hne Rms Nms) as (A & B & C & D & E & F).
        destruct (union_of (replace_list None (m :: ms))) as [c|] eqn:Eu.
        + destruct (union_of_some _ c fr' Eu) as (a & b & _ & c0 & d & e & f).
          rewrite a, b. repeat split; auto. intros r H. apply f. apply F. apply phase_union. exact H.
        + destruct (replace_list None (m :: ms)) as [|x [|y t]]; cbn in Eu; try discriminate. rewrite <- A. reflexivity.
      - cbn [replace_edge lrep reenter fr' mkframe fr_lim]. rewrite Hex. reflexivity.
    Qed.
  End Exhausted.

  (* the limit is not exhausted: every edge becomes a fresh copy of the sequence, the depth drops for everybody *)
  Section Continue.
    Hypothesis Hsq : srcw true sq.
    Hypothesis Hlive : live sq = true.
    Hypothesis Hnes : noempty sq = true.
    Hypothesis Hnsd : nsd_rec sq = true.
    Hypothesis Hex : exhausted lim = false.
    Let fr'' := mkframe sq (lim_pred lim) stop :: fr.

    Definition r2_ok (nx : sel) : Prop :=
      noempty nx = true -> rt true nx -> nsdr nx -> (lim = None \/ phase 0 nx) ->
      exists c, replace_edge nx (Some sq) = Some c /\ rt true c /\ noempty c = true /\ nsdr c /\ emptyrep c = false /\
                (forall k, phase k sq -> phase 0 nx -> phase k c) /\
                map norm (rep c fr'') = map norm (lrep nx fr').

    Lemma head_norm p : (lim = None \/ is_efree p = true) ->
      norm (Thr p fr'') = norm (Thr p fr').
    Proof.
      intros [->|E]; [reflexivity|]. cbn [norm]. rewrite E. reflexivity.
    Qed.

    Lemma r2_atomic nx : atomic nx = true -> (forall sq0 cur lim0 stop0, nx <> SRec sq0 cur lim0 stop0) ->
      replace_edge nx (Some sq) = Some nx -> rep nx fr'' = [Thr nx fr''] -> rep nx fr' = [Thr nx fr'] ->
      lrep nx fr' = rep nx fr' -> emptyrep nx = false -> r2_ok nx.
    Proof.
      intros Ha Hnr Er E2 E1 El Ee Hne Hrt Hns Hph. exists nx. repeat split; auto.
      - intros k _ H0. apply efree_phase. apply atomic_phase0; assumption.
      - rewrite El, E2, E1. cbn [map]. f_equal. apply head_norm.
        destruct Hph as [H|H]; [left; exact H|right; apply atomic_phase0; assumption].
    Qed.

    Lemma r2_list l : Forall r2_ok l -> noempty_list l = true -> Forall (rt true) l -> Forall nsdr l ->
      (lim = None \/ Forall (phase 0) l) ->
      Forall (rt true) (replace_list (Some sq) l) /\ noempty_list (replace_list (Some sq) l) = true /\
      Forall nsdr (replace_list (Some sq) l) /\ (l <> [] -> emptyrep_list (replace_list (Some sq) l) = false) /\
      (forall k, phase k sq -> Forall (phase 0) l -> Forall (phase k) (replace_list (Some sq) l)) /\
      map norm (rep_list (replace_list (Some sq) l) fr'') = map norm (lrep_list l fr') /\
      (l <> [] -> replace_list (Some sq) l <> []).
    Proof.
      induction l as [|x t IHt]; intros IH Hne Hrt Hns Hph;
        [repeat apply conj; try reflexivity; try (intros; constructor); try (intros HH; exfalso; apply HH; reflexivity)|].
      inversion IH as [|? ? Hx Ht]; subst. inversion Hrt as [|? ? Rx Rt]; subst. inversion Hns as [|? ? Nx Nt]; subst.
      cbn in Hne. apply andb_true_iff in Hne. destruct Hne as [E1 E2].
      assert (Hpx : lim = None \/ phase 0 x) by (destruct Hph as [H|H]; [left; exact H|right; inversion H; assumption]).
      assert (Hpt : lim = None \/ Forall (phase 0) t) by (destruct Hph as [H|H]; [left; exact H|right; inversion H; assumption]).
      destruct (Hx E1 Rx Nx Hpx) as (c & Ec & a & b & c0 & d & e & f).
      destruct (IHt Ht E2 Rt Nt Hpt) as (A & B & C & D & E & F & G).
      cbn [replace_list]. rewrite Ec. cbn [rep_list lrep_list noempty_list emptyrep_list]. rewrite !map_app, f, F, b, B, d.
      repeat split; auto; try discriminate.
      intros k Hk H; inversion H; subst. constructor; auto.
    Qed.

    Lemma r2_all nx : r2_ok nx.
    Proof.
      induction nx as [sl|nx IH|fs IH|i nx IH|a b' nx IH|ms IH|sq0 cur lim0 stop0 IH1 IH2|] using sel_ind2;
        try (apply r2_atomic; try reflexivity; intros; discriminate).
      - destruct ms as [|m ms]; [intros Hne; discriminate|].
        intros Hne Hrt Hns Hph. rewrite replace_edge_union, lrep_union. rewrite noempty_union in Hne.
        inversion Hrt as [| | | | |? ? Rms| |]; subst. inversion Hns as [| | | | |? Nms| |]; subst.
        assert (Hpl : lim = None \/ Forall (phase 0) (m :: ms))
          by (destruct Hph as [H|H]; [left; exact H|right; apply phase_union; exact H]).
        destruct (r2_list (m :: ms) IH Hne Rms Nms Hpl) as (A & B & C & D & E & F & G).
        specialize (D ltac:(discriminate)). specialize (G ltac:(discriminate)).
        destruct (union_of (replace_list (Some sq) (m :: ms))) as [c|] eqn:Eu.
        + destruct (union_of_some _ c fr'' Eu) as (a & b & e & c0 & d & n0 & f).
          exists c. rewrite a, e. repeat apply conj; auto;
            try (intros k Hk H0; apply f; apply E; [exact Hk|]; apply phase_union; exact H0).
        + destruct (replace_list (Some sq) (m :: ms)) as [|x [|y t]]; cbn in Eu; try discriminate; try congruence.
      - (* a nested recursion: a member of its own; below its frame nothing of ours is readable *)
        intros Hne Hrt Hns Hph. exists (SRec sq0 cur lim0 stop0). cbn [replace_edge]. repeat apply conj; auto.
        + intros k _ _. apply phase_rec.
        + cbn [lrep rep]. apply map_norm_or_nop; [reflexivity|discriminate|]. apply rep_tail. reflexivity.
      - (* an edge *)
        intros Hne Hrt Hns Hph. exists sq. cbn [replace_edge lrep]. repeat apply conj; auto.
        + apply srcw_rt; exact Hsq.
        + eapply nsd_src; eauto.
        + unfold live in Hlive. apply negb_true_iff in Hlive. exact Hlive.
        + rewrite (reenter_live sq lim stop fr Hsq Hlive Hex). reflexivity.
    Qed.
  End Continue.
End Replace.
