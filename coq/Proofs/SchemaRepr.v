(* Proofs/SchemaRepr.v — facts about the specified representation of typed values (its kind, never
   null) and the C08 view theorem: with the view defects off, the representation view the impl-model
   computes is the canonical view of [repr_spec], and the type-level view is [tview_spec]. *)
Require Import IP.Base.Bytes IP.DM.Value IP.Schema.Types IP.Schema.View IP.Schema.Conform IP.Schema.Sem
  IP.Proofs.SchemaBase IP.Proofs.SchemaBuild.
From Coq Require Import Lia.
Open Scope N_scope.

Lemma existsb_find {A} (p : A -> bool) l : existsb p l = true -> exists x, find p l = Some x /\ p x = true.
Proof.
  induction l as [|a l IH]; cbn; [discriminate|].
  destruct (p a) eqn:E; [intros _; eauto|]. cbn. auto.
Qed.

Lemma has_fields_length hs fs vs : has_fields hs fs vs = true -> length vs = length fs.
Proof.
  revert vs; induction fs as [|f fs IH]; destruct vs; cbn; try discriminate; auto.
  rewrite andb_true_iff. intros [_ H]. f_equal. auto.
Qed.

(* ================================================================== kind of the representation *)
Definition kinds_ok (hs : ty -> tv -> bool) (rp : ty -> tv -> dm) : Prop :=
  forall c v, hs c v = true -> wf c = true ->
    kind_of (rp c v) <> KNull /\ (forall k, repr_kind c = Some k -> kind_of (rp c v) = k).

Lemma kinds_step hs rp : kinds_ok hs rp -> kinds_ok (has_step hs rp) (repr_step rp).
Proof.
  intros IH t v Hh Hwf.
  destruct t; destruct v; cbn [has_step] in Hh; try discriminate; try (destruct w; discriminate);
    try (cbn; split; [discriminate|intros k E; inversion E; reflexivity]).
  - (* any *)
    cbn. apply andb_true_iff in Hh as [Hn _]. apply negb_true_iff in Hn.
    split; [|discriminate]. intros E. rewrite E in Hn. discriminate.
  - (* struct *)
    destruct r; cbn; split; try discriminate; intros k E; inversion E; reflexivity.
  - (* union *)
    destruct (nth_error ms i) as [m|] eqn:En; [|discriminate].
    cbn [repr_step]. rewrite En.
    destruct r; cbn; try (split; [discriminate|intros k E; inversion E; reflexivity]).
    destruct (wf_children_union _ _ Hwf) as [_ Hch]. rewrite Forall_forall in Hch.
    destruct (IH (snd m) v Hh (Hch m (nth_error_In _ _ En))) as [H1 _]. split; [exact H1|discriminate].
  - (* enum *)
    cbn [repr_step]. destruct (existsb_find _ _ Hh) as [x [Hx _]]. rewrite Hx.
    destruct int_repr; cbn; split; try discriminate; intros k E; inversion E; reflexivity.
Qed.

Theorem repr_kinds n : kinds_ok (has_f n) (repr_f n).
Proof.
  induction n as [|n IH].
  - intros c v H. discriminate.
  - unfold repr_f. cbn [has_f fuel_rec]. apply kinds_step. exact IH.
Qed.

(* ================================================================== views *)
Definition views_off (e : engine) (q : quirks) : Prop :=
  on e q q_listpairs_iter_index = false /\ on e q q_kinded_enum_kind = false /\
  on e q q_kinded_len = false /\ on e q q_union_any = false.

Lemma views_off_bind : views_off Bind qoff.
Proof. unfold views_off, on; cbn. repeat split. Qed.
Lemma views_off_gen q : views_off Gen q.
Proof. unfold views_off, on; cbn. repeat split. Qed.

Lemma indexed_map {A B} (f : A -> B) l i : indexed i (map f l) = map (fun x => (fst x, f (snd x))) (indexed i l).
Proof. revert i; induction l as [|x l IH]; intros i; cbn; auto. now rewrite IH. Qed.

Lemma map_snd_indexed {A} (l : list A) i : map snd (indexed i l) = l.
Proof. revert i; induction l as [|x l IH]; intros i; cbn; auto. now rewrite IH. Qed.

Lemma filter_indexed {A} (p : A -> bool) l i :
  map snd (filter (fun ix => p (snd ix)) (indexed i l)) = filter p l.
Proof.
  revert i; induction l as [|x l IH]; intros i; cbn; auto.
  destruct (p x); cbn; now rewrite IH.
Qed.

(* beyond reprEnd every slot is absent *)
Lemma repr_end_le (vs : list (maybe tv)) : (repr_end vs <= length vs)%nat.
Proof. induction vs as [|v vs IH]; cbn; auto. destruct (Nat.eqb (repr_end vs) 0 && is_absent v); cbn; lia. Qed.

Lemma filter_upto_end {F} (fs : list F) (vs : list (maybe tv)) :
  filter (fun x => negb (is_absent (snd x))) (firstn (repr_end vs) (zip fs vs)) =
  filter (fun x => negb (is_absent (snd x))) (zip fs vs).
Proof.
  revert fs; induction vs as [|v vs IH]; intros fs; destruct fs as [|f fs]; cbn [zip]; auto.
  { now rewrite firstn_nil. }
  cbn. destruct (Nat.eqb (repr_end vs) 0) eqn:E0.
  - apply Nat.eqb_eq in E0. destruct (is_absent v) eqn:Ea; cbn.
    + specialize (IH fs). rewrite E0 in IH. cbn in IH. exact IH.
    + rewrite Ea. cbn. f_equal. apply IH.
  - cbn. destruct (negb (is_absent v)); [f_equal|]; apply IH.
Qed.

(* with only trailing absents, the slots up to reprEnd are exactly the present ones *)
Lemma firstn_end_present {F} (fs : list F) (vs : list (maybe tv)) :
  trailing_opt (map is_absent vs) = true ->
  firstn (repr_end vs) (zip fs vs) = filter (fun x => negb (is_absent (snd x))) (zip fs vs).
Proof.
  revert fs; induction vs as [|v vs IH]; intros fs Ht; destruct fs as [|f fs]; cbn [zip]; auto.
  - now rewrite firstn_nil.
  - cbn. cbn in Ht. destruct (is_absent v) eqn:Ea.
    + (* all later slots are absent *)
      assert (Hall : forall (gs : list F), repr_end vs = O /\
                filter (fun x : F * maybe tv => negb (is_absent (snd x))) (zip gs vs) = []).
      { clear -Ht. induction vs as [|w ws IHw]; intros gs; cbn; [destruct gs; auto|].
        cbn in Ht. apply andb_true_iff in Ht as [Hw Ht]. destruct (IHw Ht []) as [H0 _].
        rewrite H0, Hw. cbn. split; auto. destruct gs as [|g gs]; cbn; auto. rewrite Hw. cbn.
        apply (IHw Ht gs). }
      destruct (Hall fs) as [H0 Hf]. rewrite H0. cbn. exact (eq_sym Hf).
    + cbn. rewrite andb_false_r. cbn. f_equal. apply IH. exact Ht.
Qed.

Lemma count_absent_present {F} (fs : list F) (vs : list (maybe tv)) :
  length vs = length fs ->
  (Z.of_nat (length fs) - Z.of_nat (length (filter is_absent vs)))%Z =
  Z.of_nat (length (filter (fun x : F * maybe tv => negb (is_absent (snd x))) (zip fs vs))).
Proof.
  revert fs; induction vs as [|v vs IH]; intros fs H; destruct fs as [|f fs]; try discriminate; auto.
  cbn [length] in H. specialize (IH fs ltac:(lia)). cbn [zip filter snd length].
  destruct (is_absent v); cbn [negb length]; lia.
Qed.

Section ViewStep.
  Variables (e : engine) (q : quirks).
  Hypothesis Hv : views_off e q.
  Variables (hs : ty -> tv -> bool) (rp : ty -> tv -> dm) (rv : ty -> tv -> ov).
  Hypothesis Hk : kinds_ok hs rp.
  Hypothesis Hrec : forall c v, hs c v = true -> wf c = true -> rv c v = ov_of_dm (rp c v).

  Lemma rv_maybe_ok opt nul c m :
    wf c = true -> has_maybe hs opt nul c m = true -> is_absent m = false ->
    rv_maybe rv c m = ov_of_dm (repr_maybe rp c m).
  Proof.
    intros Hc Hh Ha. destruct m; cbn in *; try discriminate; auto.
  Qed.

  Lemma has_fields_present fs vs :
    Forall (fun f => wf (snd f) = true) fs -> has_fields hs fs vs = true ->
    forall x, In x (filter (fun x => negb (is_absent (snd x))) (zip fs vs)) ->
      rv_maybe rv (snd (fst x)) (snd x) = ov_of_dm (repr_maybe rp (snd (fst x)) (snd x)).
  Proof.
    revert vs; induction fs as [|f fs IH]; intros vs Hwf Hh x; destruct vs as [|v vs]; cbn in *; try contradiction.
    apply andb_true_iff in Hh as [H1 H2]. inversion Hwf; subst.
    destruct (is_absent v) eqn:Ea; cbn.
    - apply (IH vs); auto.
    - intros [<-|Hin]; [|apply (IH vs); auto]. cbn. eapply rv_maybe_ok; eauto.
  Qed.

  Lemma has_fields_all fs vs :
    Forall (fun f => wf (snd f) = true) fs -> has_fields hs fs vs = true ->
    forall x, In x (zip fs vs) ->
      has_maybe hs (f_opt (fst (fst x))) (f_nul (fst (fst x))) (snd (fst x)) (snd x) = true /\ wf (snd (fst x)) = true.
  Proof.
    revert vs; induction fs as [|f fs IH]; intros vs Hwf Hh x; destruct vs as [|v vs]; cbn in *; try contradiction.
    apply andb_true_iff in Hh as [H1 H2]. inversion Hwf; subst.
    intros [<-|Hin]; [cbn; auto|apply (IH vs); auto].
  Qed.

  Lemma view_step t v :
    has_step hs rp t v = true -> wf t = true ->
    rview_step e q rv t v = ov_of_dm (repr_step rp t v).
  Proof.
    intros Hh Hwf. destruct Hv as (Hli & Hke & Hkl & Hua).
    destruct t; destruct v; cbn [has_step] in Hh; try discriminate; try (destruct w; discriminate);
      try reflexivity.
    - (* list *)
      cbn [rview_step repr_step ov_of_dm]. rewrite !map_length. f_equal. f_equal.
      rewrite map_map. apply map_ext_in. intros x Hx.
      rewrite forallb_forall in Hh. specialize (Hh x Hx).
      destruct x; cbn in *; try discriminate; auto.
    - (* map *)
      cbn [rview_step repr_step ov_of_dm]. rewrite !map_length. f_equal.
      rewrite map_map. apply map_ext_in. intros x Hx. cbn. f_equal.
      apply andb_true_iff in Hh as [_ Hh]. rewrite forallb_forall in Hh. specialize (Hh x Hx).
      destruct (snd x); cbn in *; try discriminate; auto.
    - (* struct *)
      destruct (wf_children_struct _ _ Hwf) as [Hloc Hch].
      apply andb_true_iff in Hh as [Hf Hr].
      pose proof (has_fields_length _ _ _ Hf) as Hlen.
      pose proof (has_fields_present fs fs0 Hch Hf) as Hp.
      destruct r; cbn [rview_step repr_step ov_of_dm].
      + unfold len_minus_absents, fields_upto_end, present. rewrite filter_upto_end.
        rewrite (count_absent_present fs fs0 Hlen), !map_length. f_equal.
        rewrite map_map. apply map_ext_in. intros x Hx. cbn. f_equal. apply Hp; auto.
      + unfold fields_upto_end, present. rewrite (firstn_end_present fs fs0 Hr).
        rewrite !map_length. f_equal.
        * pose proof (firstn_end_present fs fs0 Hr) as E. apply (f_equal (@length _)) in E.
          rewrite firstn_length in E. rewrite <- E. rewrite zip_length by auto.
          pose proof (repr_end_le fs0). rewrite <- Hlen. f_equal. lia.
        * f_equal. rewrite map_map. apply map_ext_in. intros x Hx. apply Hp; auto.
      + (* stringjoin *)
        assert (Hparts : mapM (fun x => str_of_ov (rv_maybe rv (snd (fst x)) (snd x))) (zip fs fs0) =
                         Some (map (fun x => str_of (repr_maybe rp (snd (fst x)) (snd x))) (zip fs fs0))).
        { unfold wf_struct_local in Hloc. apply andb_true_iff in Hloc as [_ Hloc].
          apply andb_true_iff in Hloc as [_ Hj]. rewrite forallb_forall in Hj.
          pose proof (has_fields_all fs fs0 Hch Hf) as Hall.
          assert (Hin : forall x, In x (zip fs fs0) -> In (fst x) fs).
          { clear. revert fs0. induction fs as [|g l IHl]; intros st x; destruct st; cbn; try contradiction.
            intros [<-|H]; [now left|right; eauto]. }
          revert Hall Hin. generalize (zip fs fs0). intros l Hall Hin.
          induction l as [|x l IHl]; cbn; auto.
          rewrite IHl; [|intros; apply Hall; now right|intros; apply Hin; now right].
          destruct (Hall x (or_introl eq_refl)) as [Hm Hc].
          specialize (Hj (fst x) (Hin x (or_introl eq_refl))).
          apply andb_true_iff in Hj as [Hj _]. apply andb_true_iff in Hj as [Hj Hkd].
          apply andb_true_iff in Hj as [Ho Hn]. apply negb_true_iff in Ho, Hn.
          rewrite Ho, Hn in Hm. destruct (snd x) as [| |w] eqn:Ex; cbn in Hm; try discriminate.
          cbn [rv_maybe repr_maybe]. rewrite (Hrec _ _ Hm Hc).
          destruct (Hk _ _ Hm Hc) as [_ Hkk].
          unfold okind_eqb in Hkd. destruct (repr_kind (snd (fst x))) as [k|] eqn:Erk; [|discriminate].
          apply kind_eqb_eq in Hkd. subst k. specialize (Hkk KString eq_refl).
          destruct (rp (snd (fst x)) w); cbn in Hkk; try discriminate. cbn. reflexivity. }
        rewrite Hparts. reflexivity.
      + (* listpairs *)
        rewrite Hli. unfold len_minus_absents, fields_upto_end, present.
        rewrite (count_absent_present fs fs0 Hlen), !map_length. f_equal. f_equal.
        rewrite map_map.
        rewrite <- (filter_upto_end fs fs0).
        rewrite <- (filter_indexed (fun x => negb (is_absent (snd x))) (firstn (repr_end fs0) (zip fs fs0)) 0%Z).
        rewrite !map_map. apply map_ext_in. intros ix Hix. cbn.
        unfold pair_view. f_equal. f_equal. f_equal. f_equal.
        apply Hp. rewrite <- (filter_upto_end fs fs0).
        rewrite <- (filter_indexed (fun x => negb (is_absent (snd x))) (firstn (repr_end fs0) (zip fs fs0)) 0%Z).
        apply in_map. exact Hix.
    - (* union *)
      destruct (nth_error ms i) as [m|] eqn:En; [|discriminate].
      destruct (wf_children_union _ _ Hwf) as [Hloc Hch]. rewrite Forall_forall in Hch.
      pose proof (Hch m (nth_error_In _ _ En)) as Hc.
      cbn [rview_step repr_step]. rewrite En.
      assert (Hmv : member_view e q rv (snd m) v = ov_of_dm (rp (snd m) v)).
      { unfold member_view. rewrite Hua. destruct (snd m); apply Hrec; auto. }
      rewrite Hmv. destruct r.
      + reflexivity.
      + rewrite Hke, Hkl. destruct (snd m); try reflexivity. destruct int_repr; reflexivity.
      + unfold wf_union_local in Hloc. apply andb_true_iff in Hloc as [_ Hloc].
        apply andb_true_iff in Hloc as [_ Hs]. rewrite forallb_forall in Hs.
        specialize (Hs m (nth_error_In _ _ En)).
        destruct (Hk _ _ Hh Hc) as [_ Hkk].
        unfold okind_eqb in Hs. destruct (repr_kind (snd m)) as [k|]; [|discriminate].
        apply kind_eqb_eq in Hs. subst k. specialize (Hkk KString eq_refl).
        destruct (rp (snd m) v); cbn in Hkk; try discriminate. reflexivity.
    - (* enum *)
      cbn [rview_step repr_step]. destruct (existsb_find _ _ Hh) as [x [Hx _]]. rewrite Hx.
      destruct int_repr; reflexivity.
  Qed.
End ViewStep.

Theorem views_ok e q : views_off e q ->
  forall n t v, has_f n t v = true -> wf t = true -> rview_f e q n t v = ov_of_dm (repr_f n t v).
Proof.
  intros Hv. induction n as [|n IH]; intros t v Hh Hwf; [discriminate|].
  unfold rview_f, repr_f. cbn [fuel_rec]. cbn [has_f] in Hh.
  apply (view_step e q Hv (has_f n) (repr_f n)); auto. apply repr_kinds.
Qed.

(* the type-level view is the specified one (the impl-model reads every field, absent ones as Absent) *)
Theorem tview_ok e q : on e q q_union_any = false ->
  forall n t v, tvw_f e q n t v = tview_f n t v.
Proof.
  intros Hua. induction n as [|n IH]; intros t v; [reflexivity|].
  unfold tvw_f, tview_f in *. cbn [fuel_rec].
  destruct t; destruct v; cbn; try reflexivity.
  - f_equal. f_equal. apply map_ext. intros x. destruct x; cbn; auto.
  - f_equal. apply map_ext. intros x. f_equal. destruct (snd x); cbn; auto.
  - f_equal. apply map_ext. intros x. f_equal. destruct (snd x); cbn; auto.
  - destruct (nth_error ms i); auto. rewrite Hua. f_equal. f_equal. f_equal. destruct (snd p); auto.
Qed.
