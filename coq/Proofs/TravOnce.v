(* Proofs/TravOnce.v — C15, LinkVisitOnlyOnce: when the unrestricted walk completes, the visit-once walk
   completes too, its trace is a sub-sequence of the unrestricted trace, and no link is loaded twice. *)
Require Import IP.Base.Bytes IP.DM.Value IP.Trav.Selector IP.Trav.Walk IP.Trav.Controls IP.Trav.ControlsSpec
  IP.Proofs.TravFacts IP.Proofs.TravSkip.
From Coq Require Import Lia.
Open Scope Z_scope.

Definition once_ctl : ctl := {| c_start := []; c_once := true; c_skip := [] |}.

(* SeenLinks after a trace, and "every load of the trace was of a link not seen before it" *)
Fixpoint seen_after (seen : list bytes) (t : list event) : list bytes :=
  match t with
  | [] => seen
  | ELoad _ c _ :: r => seen_after (c :: seen) r
  | _ :: r => seen_after seen r
  end.
Fixpoint loads_fresh (seen : list bytes) (t : list event) : Prop :=
  match t with
  | [] => True
  | ELoad _ c _ :: r => mem_bytes c seen = false /\ loads_fresh (c :: seen) r
  | _ :: r => loads_fresh seen r
  end.

Lemma seen_after_app a : forall seen b, seen_after seen (a ++ b) = seen_after (seen_after seen a) b.
Proof. induction a as [|e a IH]; intros; [reflexivity|]. destruct e; cbn; apply IH. Qed.

Lemma loads_fresh_app a : forall seen b,
  loads_fresh seen a -> loads_fresh (seen_after seen a) b -> loads_fresh seen (a ++ b).
Proof.
  induction a as [|e a IH]; intros seen b Ha Hb; [exact Hb|].
  destruct e; cbn in *.
  - apply IH; assumption.
  - destruct Ha as [H1 H2]. split; [exact H1|]. apply IH; assumption.
Qed.

Lemma loads_fresh_nodup t : forall seen,
  loads_fresh seen t -> NoDup (load_cids t) /\ (forall c, In c (load_cids t) -> ~ In c seen).
Proof.
  induction t as [|e t IH]; intros seen H.
  - split; [constructor|intros c []].
  - destruct e as [p n r ls|p c ls]; cbn in *.
    + apply IH; exact H.
    + destruct H as [H1 H2]. destruct (IH _ H2) as [ND NI]. split.
      * constructor; [|exact ND]. intros Hin. apply (NI c Hin). left; reflexivity.
      * intros c' [<-|Hin].
        -- intros Hs. apply mem_bytes_In in Hs. congruence.
        -- intros Hs. apply (NI c' Hin). right; exact Hs.
Qed.

Section Once.
  Variable q : quirks.
  Variable g : list (bytes * dm).

  Definition once_form (f : nat) : Prop :=
    forall seen past ls P n s t,
      walk q g f ls P n s = (t, OOk) ->
      exists t', cwalk q once_ctl g f (nst seen) past ls P n s = (t', OOk, nst (seen_after seen t'))
                 /\ subseq t' t /\ loads_fresh seen t'.

  Lemma step_once f (IH : once_form f) seen past ls P n s k t :
    explore_step q g (walk q g f) ls P n s k = (t, OOk) ->
    exists t', cexplore_step q once_ctl g (cwalk q once_ctl g f) ls P n s (nst seen) past k
               = (t', OOk, nst (seen_after seen t'))
               /\ subseq t' t /\ loads_fresh seen t'.
  Proof.
    unfold explore_step, cexplore_step.
    destruct (explore q s n (fst k)) as [[s'|]| |]; try discriminate.
    2:{ intros H; inversion H. exists []. repeat split; constructor. }
    destruct (snd k) eqn:Ek; try (intros H; apply IH; assumption).
    cbn [c_once once_ctl andb c_skip mem_bytes w_seen nst].
    destruct (assoc c g) as [b|]; [|discriminate].
    destruct (walk q g f (c :: ls) (P ++ [fst k]) b s') as [e o] eqn:Ew.
    intros H; inversion H; subst. clear H.
    destruct (mem_bytes c seen) eqn:Em.
    - exists []. repeat split; constructor.
    - unfold check_link, mark_seen; cbn [w_budget w_seen nst].
      fold (nst (c :: seen)).
      destruct (IH (c :: seen) past (c :: ls) (P ++ [fst k]) b s' e Ew) as (t' & Hc & Hs & Hf).
      rewrite Hc. exists (ELoad (P ++ [fst k]) c ls :: t'). repeat split.
      + constructor; exact Hs.
      + exact Em.
      + exact Hf.
  Qed.

  Lemma loop_once f (IH : once_form f) ls P n s :
    forall ks seen past reached t,
      seqk (explore_step q g (walk q g f) ls P n s) ks = (t, OOk) ->
      exists t', cloop once_ctl (cexplore_step q once_ctl g (cwalk q once_ctl g f) ls P n s) P ks (nst seen) past reached
                 = (t', OOk, nst (seen_after seen t'))
                 /\ subseq t' t /\ loads_fresh seen t'.
  Proof.
    induction ks as [|k r IHr]; intros seen past reached t H.
    - inversion H. exists []. repeat split; constructor.
    - apply seqk_ok_inv in H. destruct H as (e & e' & Hk & Hr & ->).
      cbn [cloop]. unfold start_decide; cbn [c_start once_ctl].
      destruct (step_once f IH seen past ls P n s k e Hk) as (t1 & H1 & S1 & F1). rewrite H1.
      destruct (IHr (seen_after seen t1) past reached e' Hr) as (t2 & H2 & S2 & F2). rewrite H2.
      exists (t1 ++ t2). rewrite seen_after_app. repeat split.
      + apply subseq_app; assumption.
      + apply loads_fresh_app; assumption.
  Qed.

  Theorem once_closed_form : forall f, once_form f.
  Proof.
    induction f as [|f IH]; intros seen past ls P n s t H.
    - discriminate.
    - rewrite walk_S in H. rewrite cwalk_S. unfold check_node; cbn [w_budget nst c_start once_ctl length].
      replace (negb past && Nat.ltb (length P) 0)%bool with false
        by (destruct past; cbn; [reflexivity | destruct (length P); reflexivity]).
      assert (Hv : forall sn r, seen_after sn (visit_event P n s ls :: r) = seen_after sn r)
        by (intros; unfold visit_event; destruct (match_sel s n); reflexivity).
      assert (Hf : forall sn r, loads_fresh sn r -> loads_fresh sn (visit_event P n s ls :: r))
        by (intros sn r; unfold visit_event; destruct (match_sel s n); cbn; auto).
      destruct (is_container n).
      + destruct (seqk (explore_step q g (walk q g f) ls P n s) (children q n s)) as [e o] eqn:Es.
        inversion H; subst. clear H.
        fold (nst seen).
        destruct (loop_once f IH ls P n s _ seen past false e Es) as (t' & Hc & Hs & Hfr). rewrite Hc.
        exists (visit_event P n s ls :: t'). cbn [app]. rewrite Hv. repeat split.
        * constructor; exact Hs.
        * apply Hf; exact Hfr.
      + inversion H; subst. exists [visit_event P n s ls]. rewrite Hv. repeat split.
        * apply subseq_refl.
        * apply Hf; exact I.
  Qed.
End Once.

Theorem once_run q g f root s t :
  walk_adv q g f root s = (t, OOk) ->
  exists t', cwalk_adv q once_ctl g f None root s = (t', OOk)
             /\ subseq t' t /\ subseq (visits t') (visits t) /\ NoDup (load_cids t').
Proof.
  intros H. unfold cwalk_adv. change {| w_budget := None; w_seen := [] |} with (nst []).
  destruct (once_closed_form q g f [] false [] [] root s t H) as (t' & Hc & Hs & Hf).
  exists t'. rewrite Hc. repeat split; auto.
  - apply subseq_filter; exact Hs.
  - apply (loads_fresh_nodup t' [] Hf).
Qed.
