(* Proofs/NodeTypedAll.v — the all-scripts protocol theorem for the typed engines (Node/Typed.v):
   every annotated legal script of Node/TypedProtocol.v, for every type of the family, both engines,
   every quirk setting with the protocol defects off, runs with exactly the annotated per-call results
   and delivers exactly the value; each rejected request leaves the assembler in the state it was in. *)
Require Import IP.Base.Bytes IP.DM.Value IP.Node.Basic IP.Node.Typed IP.Node.TypedProtocol.
Open Scope N_scope.

(* ------------------------------------------------------------------ trun_tol algebra *)
Definition tpre (tr : list tsres) (r : list tsres * option tstate) : list tsres * option tstate :=
  (tr ++ fst r, snd r).

Lemma tpre_nil : forall r, tpre [] r = r.
Proof. destruct r; reflexivity. Qed.

Lemma tpre_tpre : forall a b r, tpre a (tpre b r) = tpre (a ++ b) r.
Proof. intros. unfold tpre. simpl. rewrite app_assoc. reflexivity. Qed.

Lemma trun_ok : forall e q s o s' r,
  tstep e q s o = TOk s' -> trun_tol e q s (o :: r) = tpre [TSOk] (trun_tol e q s' r).
Proof. intros. simpl. rewrite H. destruct (trun_tol e q s' r). reflexivity. Qed.

Lemma trun_err : forall e q s o c s' r,
  tstep e q s o = TErr c s' -> trun_tol e q s (o :: r) = tpre [TSErr c] (trun_tol e q s' r).
Proof. intros. simpl. rewrite H. destruct (trun_tol e q s' r). reflexivity. Qed.

Lemma trun_app : forall e q ops s more,
  trun_tol e q s (ops ++ more) =
  match trun_tol e q s ops with
  | (tr, Some s') => tpre tr (trun_tol e q s' more)
  | (tr, None) => (tr, None)
  end.
Proof.
  induction ops; intros; simpl.
  - rewrite tpre_nil. reflexivity.
  - destruct (tstep e q s a) eqn:E; auto; rewrite IHops;
      destruct (trun_tol e q s0 ops) as [tr [s'|]]; auto;
      unfold tpre; simpl; destruct (trun_tol e q s' more); reflexivity.
Qed.

Lemma trun_done : forall e q s, trun_tol e q s [] = ([], Some s).
Proof. reflexivity. Qed.

Lemma tpre_done : forall tr s, tpre tr ([], Some s) = (tr, Some s).
Proof. intros. unfold tpre. simpl. rewrite app_nil_r. reflexivity. Qed.

(* a run of calls each of which is refused and leaves the state s *)
Lemma tries_run : forall e q s (P : aop * tsres -> Prop),
  (forall o c, P (o, c) -> exists err, c = TSErr err /\ tstep e q s o = TErr err s) ->
  forall tries, Forall P tries -> forall more,
  trun_tol e q s (map fst tries ++ more) = tpre (map snd tries) (trun_tol e q s more).
Proof.
  intros e q s P HP. induction 1 as [|[o c] tries Ha _ IH]; intros more; simpl app.
  - rewrite tpre_nil. reflexivity.
  - destruct (HP o c Ha) as (err & Hc & Hs). subst c. cbn [map fst snd].
    rewrite (trun_err e q s o err s) by auto. rewrite IH, tpre_tpre. reflexivity.
Qed.

(* ------------------------------------------------------------------ positions *)
Definition tpos (stk : list tframe) (ty : tty) : Prop :=
  match stk with
  | TRoot t :: _ => t = ty
  | TMap vt _ (TmMidValue _) :: _ => vt = ty
  | TList et _ TlMidValue :: _ => et = ty
  | _ => False
  end.

Definition tdeliver_st (stk : list tframe) (v : tval) : tstate :=
  match stk with
  | TRoot _ :: _ => TDone v
  | TMap vt t (TmMidValue k) :: r => TOpen (TMap vt (t ++ [(k, v)]) TmInitial :: r)
  | TList et x TlMidValue :: r => TOpen (TList et (x ++ [v]) TlInitial :: r)
  | _ => TOpen stk
  end.

Lemma tdeliver_pos : forall stk ty v, tpos stk ty -> tdeliver stk v = TOk (tdeliver_st stk v).
Proof.
  intros [|[t|d vs st|vt t [| |k|k]|et x []] r] ty v H; simpl in *; try contradiction; reflexivity.
Qed.

Lemma tstep_pos : forall e q stk ty o,
  tpos stk ty -> is_map_op o = false ->
  tstep e q (TOpen stk) o = pos_op e q ty stk (TOpen stk) o.
Proof.
  intros e q [|[t|d vs st|vt t [| |k|k]|et x []] r] ty o H Ho; simpl in H; try contradiction; subst;
    destruct o; simpl in Ho; try discriminate; reflexivity.
Qed.

Lemma as_msg3_kind : forall n vals, as_msg3 n = Some vals -> kind_of n = KMap.
Proof. intros n vals H. destruct n; simpl in H; try discriminate; reflexivity. Qed.

Lemma node_tval_kind : forall ty n v, node_tval ty n = Some v -> kind_of n = want_kind ty.
Proof.
  intros ty n v H. destruct ty; simpl in H.
  - destruct (as_msg3 n) eqn:E; try discriminate. apply (as_msg3_kind n s E).
  - destruct n; simpl in H; try discriminate; reflexivity.
  - destruct n; simpl in H; try discriminate; reflexivity.
Qed.

Lemma pos_wrong_step : forall e q ty stk s o,
  pos_wrong ty o = true -> pos_op e q ty stk s o = TErr TEWrong s.
Proof.
  intros e q ty stk s o H. destruct o; simpl in H; try discriminate.
  - destruct ty; try discriminate; reflexivity.
  - destruct ty; try discriminate; reflexivity.
  - reflexivity.
  - reflexivity.
  - reflexivity.
  - reflexivity.
  - reflexivity.
  - reflexivity.
  - reflexivity.
  - (* AssignNode of another kind *)
    unfold pos_op. destruct (node_tval ty n) eqn:E.
    + apply node_tval_kind in E. rewrite E in H.
      assert (Hk : kind_eqb (want_kind ty) (want_kind ty) = true) by (destruct (want_kind ty); reflexivity).
      rewrite Hk in H. discriminate.
    + apply Bool.negb_true_iff in H. unfold want_kind in H. destruct ty; rewrite H; reflexivity.
Qed.

Lemma pos_tries : forall e q ty stk tries,
  tpos stk ty -> Forall (PosTry ty) tries -> forall more,
  trun_tol e q (TOpen stk) (map fst tries ++ more) =
  tpre (map snd tries) (trun_tol e q (TOpen stk) more).
Proof.
  intros e q ty stk tries Hp Ht. apply (tries_run e q (TOpen stk) (PosTry ty)); auto.
  intros o c H. inversion H as [o' Hw]; subst. exists TEWrong. split; auto.
  rewrite (tstep_pos e q stk ty); auto.
  - apply pos_wrong_step; auto.
  - destruct o; simpl in Hw; try discriminate; reflexivity.
Qed.

(* ------------------------------------------------------------------ refused calls, one by one *)
Lemma int_try_step : forall e q done vals f r o c, IntTry (o, c) ->
  exists err, c = TSErr err /\
    tstep e q (TOpen (TStruct done vals (TsMidValue f) :: r)) o =
    TErr err (TOpen (TStruct done vals (TsMidValue f) :: r)).
Proof.
  intros e q done vals f r o c H.
  inversion H as [o' Hw | n Hn | n e0 Hn Hne]; subst.
  - exists TEWrong. split; auto. destruct o; simpl in Hw; try discriminate; reflexivity.
  - exists TEWrong. split; auto. simpl. rewrite Hn. reflexivity.
  - exists TEOther. split; auto. simpl. rewrite Hn. destruct e0; try reflexivity. contradiction.
Qed.

Lemma tkey_try_struct_step : forall e q done vals r o c, TKeyTry (o, c) ->
  exists err, c = TSErr err /\
    tstep e q (TOpen (TStruct done vals TsMidKey :: r)) o = TErr err (TOpen (TStruct done vals TsMidKey :: r)).
Proof.
  intros e q done vals r o c H. inversion H as [o' Hw | n e0 Hn]; subst.
  - exists TEWrong. split; auto. destruct o; simpl in Hw; try discriminate; reflexivity.
  - exists TEWrong. split; auto. simpl. rewrite Hn. reflexivity.
Qed.

Lemma skey_try_step : forall e q done vals r o c, SKeyTry e (o, c) ->
  exists err, c = TSErr err /\
    tstep e q (TOpen (TStruct done vals TsMidKey :: r)) o = TErr err (TOpen (TStruct done vals TsMidKey :: r)).
Proof.
  intros e q done vals r o c H. inversion H as [a Ht | k g He Hg Hf]; subst.
  - apply tkey_try_struct_step; auto.
  - exists TEInvalidKey. split; auto.
    inversion Hg as [|n Hn]; subst; simpl; try rewrite Hn; rewrite Hf; reflexivity.
Qed.

Lemma mkey_try_step : forall e q vt t r o c, TKeyTry (o, c) ->
  exists err, c = TSErr err /\
    tstep e q (TOpen (TMap vt t TmMidKey :: r)) o = TErr err (TOpen (TMap vt t TmMidKey :: r)).
Proof.
  intros e q vt t r o c H. inversion H as [o' Hw | n e0 Hn]; subst.
  - exists TEWrong. split; auto. destruct o; simpl in Hw; try discriminate; reflexivity.
  - exists TEWrong. split; auto. simpl. rewrite Hn. reflexivity.
Qed.

(* ------------------------------------------------------------------ int fields *)
Lemma int_value : forall e q done vals f r tries g z,
  Forall IntTry tries -> IntGive z g -> forall more,
  trun_tol e q (TOpen (TStruct done vals (TsMidValue f) :: r)) (map fst tries ++ g :: more) =
  tpre (map snd tries ++ [TSOk])
       (trun_tol e q (TOpen (TStruct done (vals ++ [(f, z)]) TsInitial :: r)) more).
Proof.
  intros e q done vals f r tries g z Ht Hg more.
  rewrite (tries_run e q _ IntTry); auto.
  - rewrite (trun_ok e q _ g (TOpen (TStruct done (vals ++ [(f, z)]) TsInitial :: r))).
    + rewrite tpre_tpre. reflexivity.
    + inversion Hg as [|n Hn]; subst; simpl; try rewrite Hn; reflexivity.
  - intros o c H. apply int_try_step; auto.
Qed.

(* ------------------------------------------------------------------ key assemblers *)
Lemma skey_tries : forall e q done vals r ktries,
  Forall (SKeyTry e) ktries -> forall more,
  trun_tol e q (TOpen (TStruct done vals TsMidKey :: r)) (map fst ktries ++ more) =
  tpre (map snd ktries) (trun_tol e q (TOpen (TStruct done vals TsMidKey :: r)) more).
Proof.
  intros e q done vals r ktries Ht. apply (tries_run e q _ (SKeyTry e)); auto.
  intros o c H. apply skey_try_step; auto.
Qed.

Lemma mkey_tries : forall e q vt t r ktries,
  Forall TKeyTry ktries -> forall more,
  trun_tol e q (TOpen (TMap vt t TmMidKey :: r)) (map fst ktries ++ more) =
  tpre (map snd ktries) (trun_tol e q (TOpen (TMap vt t TmMidKey :: r)) more).
Proof.
  intros e q vt t r ktries Ht. apply (tries_run e q _ TKeyTry); auto.
  intros o c H. apply mkey_try_step; auto.
Qed.

(* key + AssembleValue for a fresh field: both engines end with the field marked as started *)
Lemma skey_fresh : forall e q done vals r k f kg,
  field_index k = Some f -> has f done = false -> TKeyGive k kg -> forall more,
  trun_tol e q (TOpen (TStruct done vals TsMidKey :: r)) (kg :: AssembleValue :: more) =
  tpre [TSOk; TSOk] (trun_tol e q (TOpen (TStruct (f :: done) vals (TsMidValue f) :: r)) more).
Proof.
  intros e q done vals r k f kg Hf Hd Hg more. destruct e.
  - rewrite (trun_ok EBind q _ kg (TOpen (TStruct done vals (TsExpectValue f) :: r))).
    + rewrite (trun_ok EBind q _ AssembleValue (TOpen (TStruct (f :: done) vals (TsMidValue f) :: r))).
      * rewrite tpre_tpre. reflexivity.
      * simpl. rewrite Hd. reflexivity.
    + inversion Hg as [|n Hn]; subst; simpl; try rewrite Hn; rewrite Hf, Hd; reflexivity.
  - rewrite (trun_ok EGen q _ kg (TOpen (TStruct (f :: done) vals (TsExpectValue f) :: r))).
    + rewrite (trun_ok EGen q _ AssembleValue (TOpen (TStruct (f :: done) vals (TsMidValue f) :: r))) by reflexivity.
      rewrite tpre_tpre. reflexivity.
    + inversion Hg as [|n Hn]; subst; simpl; try rewrite Hn; rewrite Hf, Hd; reflexivity.
Qed.

Lemma skey_dup : forall e q done vals r k f kg,
  tq_ok e q -> field_index k = Some f -> has f done = true -> TKeyGive k kg ->
  tstep e q (TOpen (TStruct done vals TsMidKey :: r)) kg =
  TErr TERepeated (TOpen (TStruct done vals TsInitial :: r)).
Proof.
  intros e q done vals r k f kg Hq Hf Hd Hg.
  destruct e; simpl in Hq; destruct Hq as [Q1 Q2];
    inversion Hg as [|n Hn]; subst; simpl; try rewrite Hn; rewrite Hf, Hd; unfold struct_dup_checked;
    try rewrite Q1; try rewrite Q2; reflexivity.
Qed.

Lemma sentry_dup : forall e q done vals r k f,
  tq_ok e q -> field_index k = Some f -> has f done = true ->
  tstep e q (TOpen (TStruct done vals TsInitial :: r)) (AssembleEntry k) =
  TErr TERepeated (TOpen (TStruct done vals TsInitial :: r)).
Proof.
  intros e q done vals r k f Hq Hf Hd.
  destruct e; simpl in Hq; destruct Hq as [Q1 Q2]; simpl; rewrite Hf, Hd; unfold struct_dup_checked;
    try rewrite Q1; reflexivity.
Qed.

Lemma mkey_dup : forall e q vt t r k kg,
  tq_ok e q -> mem_key k t = true -> TKeyGive k kg ->
  tstep e q (TOpen (TMap vt t TmMidKey :: r)) kg = TErr TERepeated (TOpen (TMap vt t TmInitial :: r)).
Proof.
  intros e q vt t r k kg Hq Hm Hg.
  destruct e; simpl in Hq; destruct Hq as [Q1 Q2];
    inversion Hg as [|n Hn]; subst; simpl; try rewrite Hn; rewrite Hm; try rewrite Q1; try rewrite Q2; reflexivity.
Qed.

Lemma mkey_fresh : forall e q vt t r k kg,
  mem_key k t = false -> TKeyGive k kg ->
  tstep e q (TOpen (TMap vt t TmMidKey :: r)) kg = TOk (TOpen (TMap vt t (TmExpectValue k) :: r)).
Proof.
  intros e q vt t r k kg Hm Hg. inversion Hg as [|n Hn]; subst; simpl; try rewrite Hn; rewrite Hm; reflexivity.
Qed.

Lemma mentry_dup : forall e q vt t r k,
  tq_ok e q -> mem_key k t = true ->
  tstep e q (TOpen (TMap vt t TmInitial :: r)) (AssembleEntry k) =
  TErr TERepeated (TOpen (TMap vt t TmInitial :: r)).
Proof.
  intros e q vt t r k Hq Hm.
  destruct e; simpl in Hq; destruct Hq as [Q1 Q2]; simpl; rewrite Hm; try rewrite Q2; reflexivity.
Qed.

(* ------------------------------------------------------------------ each rejected request is a no-op *)
Lemma rejected_noop : forall e q s rej,
  tq_ok e q -> Rejected e s rej -> forall more,
  trun_tol e q s (map fst rej ++ more) = tpre (map snd rej) (trun_tol e q s more).
Proof.
  intros e q s rej Hq H more. inversion H; subst; cbn [map fst snd tok app].
  - rewrite (trun_err e q _ _ TERepeated (TOpen (TMap vt t TmInitial :: r))) by (apply mentry_dup; auto).
    reflexivity.
  - rewrite (trun_ok e q _ AssembleKey (TOpen (TMap vt t TmMidKey :: r))) by reflexivity.
    rewrite !map_app, <- ?app_assoc. rewrite mkey_tries by auto. cbn [map fst snd app].
    rewrite (trun_err e q _ kg TERepeated (TOpen (TMap vt t TmInitial :: r))) by (apply (mkey_dup e q vt t r k); auto).
    rewrite !tpre_tpre. cbn [app]. rewrite <- ?app_assoc. reflexivity.
  - rewrite (trun_err e q _ _ TERepeated (TOpen (TStruct done vals TsInitial :: r))) by (apply (sentry_dup e q done vals r k f); auto).
    reflexivity.
  - rewrite (trun_ok e q _ AssembleKey (TOpen (TStruct done vals TsMidKey :: r))) by reflexivity.
    rewrite !map_app, <- ?app_assoc. rewrite skey_tries by auto. cbn [map fst snd app].
    rewrite (trun_err e q _ kg TERepeated (TOpen (TStruct done vals TsInitial :: r))) by (apply (skey_dup e q done vals r k f); auto).
    rewrite !tpre_tpre. cbn [app]. rewrite <- ?app_assoc. reflexivity.
  - rewrite (trun_err EGen q _ _ TEInvalidKey (TOpen (TStruct done vals TsInitial :: r))).
    + reflexivity.
    + simpl. rewrite H1. reflexivity.
  - rewrite (trun_err e q _ _ TEMissing (TOpen (TStruct done vals TsInitial :: r))).
    + reflexivity.
    + simpl. unfold all_done in H0. rewrite H0. reflexivity.
Qed.

Lemma rejected_cons : forall e q s rej body more,
  tq_ok e q -> Rejected e s rej ->
  trun_tol e q s (map fst (rej ++ body) ++ more) =
  tpre (map snd rej) (trun_tol e q s (map fst body ++ more)).
Proof. intros. rewrite map_app, <- app_assoc. apply rejected_noop; auto. Qed.

(* ------------------------------------------------------------------ struct bodies *)
Lemma struct_body : forall e q, tq_ok e q ->
  forall done vals fin body, StructBody e done vals fin body ->
  forall r more, tpos r TyS ->
  trun_tol e q (TOpen (TStruct done vals TsInitial :: r)) (map fst body ++ more) =
  tpre (map snd body) (trun_tol e q (tdeliver_st r (TVS fin)) more).
Proof.
  intros e q Hq. induction 1; intros r more Hr.
  - (* finish *)
    cbn [map fst snd tok app].
    rewrite (trun_ok e q _ Finish (tdeliver_st r (TVS vals))); [reflexivity|].
    simpl. unfold all_done in H. rewrite H. apply (tdeliver_pos r TyS); auto.
  - (* entry shortcut *)
    cbn [map fst snd tok app].
    rewrite (trun_ok e q _ (AssembleEntry k) (TOpen (TStruct (f :: done) vals (TsMidValue f) :: r)))
      by (simpl; rewrite H, H0; reflexivity).
    rewrite !map_app, <- ?app_assoc. cbn [map fst snd tok app].
    rewrite (int_value e q (f :: done) vals f r tries g z) by auto.
    rewrite IHStructBody by auto. rewrite !tpre_tpre. cbn [app]. rewrite <- ?app_assoc. reflexivity.
  - (* key assembler + value *)
    cbn [map fst snd tok app].
    rewrite (trun_ok e q _ AssembleKey (TOpen (TStruct done vals TsMidKey :: r))) by reflexivity.
    rewrite !map_app, <- ?app_assoc. rewrite skey_tries by auto. cbn [map fst snd tok app].
    rewrite (skey_fresh e q done vals r k f kg) by auto.
    rewrite !map_app, <- ?app_assoc. cbn [map fst snd tok app].
    rewrite (int_value e q (f :: done) vals f r tries g z) by auto.
    rewrite IHStructBody by auto. rewrite !tpre_tpre. cbn [app]. rewrite <- ?app_assoc. reflexivity.
  - (* repeated field, entry *)
    change ((AssembleEntry k, TSErr TERepeated) :: body) with ([(AssembleEntry k, TSErr TERepeated)] ++ body).
    rewrite (rejected_cons e q _ _ body more Hq (RJ_field_entry e done vals r k f H H0)).
    rewrite IHStructBody by auto. rewrite map_app, tpre_tpre. reflexivity.
  - (* repeated field, key assembler *)
    replace (tok AssembleKey :: ktries ++ (kg, TSErr TERepeated) :: body)
      with ((tok AssembleKey :: ktries ++ [(kg, TSErr TERepeated)]) ++ body)
      by (cbn [app]; rewrite <- app_assoc; reflexivity).
    rewrite (rejected_cons e q _ _ body more Hq (RJ_field_key e done vals r k f ktries kg H H0 H1 H2)).
    rewrite IHStructBody by auto. rewrite map_app, tpre_tpre. reflexivity.
  - (* unknown field (generated code) *)
    change ((AssembleEntry k, TSErr TEInvalidKey) :: body) with ([(AssembleEntry k, TSErr TEInvalidKey)] ++ body).
    rewrite (rejected_cons e q _ _ body more Hq (RJ_unknown_entry e done vals r k H H0)).
    rewrite IHStructBody by auto. rewrite map_app, tpre_tpre. reflexivity.
  - (* Finish too early *)
    change ((Finish, TSErr TEMissing) :: body) with ([(Finish, TSErr TEMissing)] ++ body).
    rewrite (rejected_cons e q _ _ body more Hq (RJ_missing e done vals r H)).
    rewrite IHStructBody by auto. rewrite map_app, tpre_tpre. reflexivity.
Qed.

(* ------------------------------------------------------------------ the main induction *)
Definition VPT (e : engine) (q : tquirks) (ty : tty) : Prop :=
  forall v aops, TScript e q ty v aops ->
  forall stk more, tpos stk ty ->
  trun_tol e q (TOpen stk) (map fst aops ++ more) =
  tpre (map snd aops) (trun_tol e q (tdeliver_st stk v) more).

Lemma map_body_t : forall e q vt, tq_ok e q -> VPT e q vt ->
  forall t fin body, MapBodyT (TScript e q vt) t fin body ->
  forall r more, tpos r (TyM vt) ->
  trun_tol e q (TOpen (TMap vt t TmInitial :: r)) (map fst body ++ more) =
  tpre (map snd body) (trun_tol e q (tdeliver_st r (TVM fin)) more).
Proof.
  intros e q vt Hq HV. induction 1; intros r more Hr.
  - cbn [map fst snd tok app].
    rewrite (trun_ok e q _ Finish (tdeliver_st r (TVM t))); [reflexivity|].
    simpl. apply (tdeliver_pos r (TyM vt)); auto.
  - cbn [map fst snd tok app].
    rewrite (trun_ok e q _ (AssembleEntry k) (TOpen (TMap vt t (TmMidValue k) :: r)))
      by (simpl; rewrite H; reflexivity).
    rewrite !map_app, <- ?app_assoc.
    rewrite (HV v s H0 (TMap vt t (TmMidValue k) :: r)) by reflexivity.
    simpl tdeliver_st. rewrite IHMapBodyT by auto. rewrite !tpre_tpre. cbn [app]. reflexivity.
  - cbn [map fst snd tok app].
    rewrite (trun_ok e q _ AssembleKey (TOpen (TMap vt t TmMidKey :: r))) by reflexivity.
    rewrite !map_app, <- ?app_assoc. rewrite mkey_tries by auto. cbn [map fst snd tok app].
    rewrite (trun_ok e q _ kg (TOpen (TMap vt t (TmExpectValue k) :: r))) by (apply mkey_fresh; auto).
    rewrite (trun_ok e q _ AssembleValue (TOpen (TMap vt t (TmMidValue k) :: r))) by reflexivity.
    rewrite !map_app, <- ?app_assoc.
    rewrite (HV v s H2 (TMap vt t (TmMidValue k) :: r)) by reflexivity.
    simpl tdeliver_st. rewrite IHMapBodyT by auto. rewrite !tpre_tpre. cbn [app].
    rewrite <- ?app_assoc. reflexivity.
  - change ((AssembleEntry k, TSErr TERepeated) :: body) with ([(AssembleEntry k, TSErr TERepeated)] ++ body).
    rewrite (rejected_cons e q _ _ body more Hq (RJ_map_entry e vt t r k H)).
    rewrite IHMapBodyT by auto. rewrite map_app, tpre_tpre. reflexivity.
  - replace (tok AssembleKey :: ktries ++ (kg, TSErr TERepeated) :: body)
      with ((tok AssembleKey :: ktries ++ [(kg, TSErr TERepeated)]) ++ body)
      by (cbn [app]; rewrite <- app_assoc; reflexivity).
    rewrite (rejected_cons e q _ _ body more Hq (RJ_map_key e vt t r k ktries kg H H0 H1)).
    rewrite IHMapBodyT by auto. rewrite map_app, tpre_tpre. reflexivity.
Qed.

Lemma list_body_t : forall e q et, VPT e q et ->
  forall x fin body, ListBodyT (TScript e q et) x fin body ->
  forall r more, tpos r (TyL et) ->
  trun_tol e q (TOpen (TList et x TlInitial :: r)) (map fst body ++ more) =
  tpre (map snd body) (trun_tol e q (tdeliver_st r (TVL fin)) more).
Proof.
  intros e q et HV. induction 1; intros r more Hr.
  - cbn [map fst snd tok app].
    rewrite (trun_ok e q _ Finish (tdeliver_st r (TVL x))); [reflexivity|].
    simpl. apply (tdeliver_pos r (TyL et)); auto.
  - cbn [map fst snd tok app].
    rewrite (trun_ok e q _ AssembleValue (TOpen (TList et x TlMidValue :: r))) by reflexivity.
    rewrite !map_app, <- ?app_assoc.
    rewrite (HV v s H (TList et x TlMidValue :: r)) by reflexivity.
    simpl tdeliver_st. rewrite IHListBodyT by auto. rewrite !tpre_tpre. cbn [app]. reflexivity.
Qed.

Lemma single_call : forall e q stk ty o v more,
  tpos stk ty -> is_map_op o = false -> pos_op e q ty stk (TOpen stk) o = tdeliver stk v ->
  trun_tol e q (TOpen stk) (o :: more) = tpre [TSOk] (trun_tol e q (tdeliver_st stk v) more).
Proof.
  intros. apply trun_ok. rewrite (tstep_pos e q stk ty); auto. rewrite H1. apply (tdeliver_pos stk ty); auto.
Qed.

Theorem tscript_run : forall e q, tq_ok e q -> forall ty, VPT e q ty.
Proof.
  intros e q Hq. induction ty; intros v aops HS stk more Hp; simpl in HS; inversion HS; subst.
  - (* struct, assembled *)
    rewrite !map_app, <- ?app_assoc. rewrite (pos_tries e q TyS) by auto. cbn [map fst snd tok app].
    rewrite (trun_ok e q _ (BeginMap h) (TOpen (TStruct [] [] TsInitial :: stk)))
      by (rewrite (tstep_pos e q stk TyS); auto).
    rewrite (struct_body e q Hq [] [] fin body H0 stk more Hp). rewrite !tpre_tpre. rewrite <- ?app_assoc. cbn [app]. reflexivity.
  - (* struct, AssignNode *)
    rewrite !map_app, <- ?app_assoc. rewrite (pos_tries e q TyS) by auto. cbn [map fst snd tok app].
    rewrite (single_call e q stk TyS (AssignNode n) (TVS vals)); auto.
    + rewrite tpre_tpre. rewrite <- ?app_assoc. cbn [app]. reflexivity.
    + unfold pos_op. simpl node_tval. rewrite H0. destruct e; reflexivity.
  - (* map, assembled *)
    rewrite !map_app, <- ?app_assoc. rewrite (pos_tries e q (TyM ty)) by auto. cbn [map fst snd tok app].
    rewrite (trun_ok e q _ (BeginMap h) (TOpen (TMap ty [] TmInitial :: stk)))
      by (rewrite (tstep_pos e q stk (TyM ty)); auto).
    rewrite (map_body_t e q ty Hq IHty [] fin body H0 stk more Hp). rewrite !tpre_tpre. rewrite <- ?app_assoc. cbn [app]. reflexivity.
  - (* map, AssignNode *)
    rewrite !map_app, <- ?app_assoc. rewrite (pos_tries e q (TyM ty)) by auto. cbn [map fst snd tok app].
    rewrite (single_call e q stk (TyM ty) (AssignNode n) v); auto.
    + rewrite tpre_tpre. rewrite <- ?app_assoc. cbn [app]. reflexivity.
    + unfold pos_op. rewrite H0. destruct e; auto.
      simpl in H1. destruct H1 as [H1|[H1|H1]].
      * rewrite H1. reflexivity.
      * subst v. simpl. rewrite Bool.andb_false_r. reflexivity.
      * rewrite H1. simpl. rewrite Bool.andb_false_r. reflexivity.
  - (* list, assembled *)
    rewrite !map_app, <- ?app_assoc. rewrite (pos_tries e q (TyL ty)) by auto. cbn [map fst snd tok app].
    rewrite (trun_ok e q _ (BeginList h) (TOpen (TList ty [] TlInitial :: stk)))
      by (rewrite (tstep_pos e q stk (TyL ty)); auto).
    rewrite (list_body_t e q ty IHty [] fin body H0 stk more Hp). rewrite !tpre_tpre. rewrite <- ?app_assoc. cbn [app]. reflexivity.
  - (* list, AssignNode *)
    rewrite !map_app, <- ?app_assoc. rewrite (pos_tries e q (TyL ty)) by auto. cbn [map fst snd tok app].
    rewrite (single_call e q stk (TyL ty) (AssignNode n) v); auto.
    + rewrite tpre_tpre. rewrite <- ?app_assoc. cbn [app]. reflexivity.
    + unfold pos_op. rewrite H0. destruct e; reflexivity.
Qed.

(* ------------------------------------------------------------------ at the root of a builder *)
Theorem typed_all_scripts : forall e q ty v aops,
  tq_ok e q -> TScript e q ty v aops ->
  trun_tol e q (tinit ty) (map fst aops) = (map snd aops, Some (TDone v)) /\
  tbuild e (TDone v) = Some (tval_dm e v).
Proof.
  intros e q ty v aops Hq HS. split; [|reflexivity].
  pose proof (tscript_run e q Hq ty v aops HS [TRoot ty] [] eq_refl) as H.
  rewrite app_nil_r in H. unfold tinit. rewrite H. simpl tdeliver_st. rewrite trun_done, tpre_done. reflexivity.
Qed.

(* run (pre ++ rejected ++ post) = run (pre ++ post), the rejected calls' own results spliced in *)
Theorem typed_rollback : forall e q s0 pre_ops s rej post tr,
  tq_ok e q -> trun_tol e q s0 pre_ops = (tr, Some s) -> Rejected e s rej ->
  trun_tol e q s0 (pre_ops ++ map fst rej ++ post) = tpre (tr ++ map snd rej) (trun_tol e q s post) /\
  trun_tol e q s0 (pre_ops ++ post) = tpre tr (trun_tol e q s post).
Proof.
  intros e q s0 pre_ops s rej post tr Hq Hr Hj. split.
  - rewrite trun_app, Hr. rewrite (rejected_noop e q s rej Hq Hj). rewrite tpre_tpre. reflexivity.
  - rewrite trun_app, Hr. reflexivity.
Qed.

(* a wrong-kind call is answered with an error by that call and changes nothing, at every position *)
Theorem typed_bad_kind : forall e q,
  (forall ty stk o, tpos stk ty -> pos_wrong ty o = true ->
     tstep e q (TOpen stk) o = TErr TEWrong (TOpen stk)) /\
  (forall done vals f r o c, IntTry (o, c) ->
     exists err, c = TSErr err /\
       tstep e q (TOpen (TStruct done vals (TsMidValue f) :: r)) o =
       TErr err (TOpen (TStruct done vals (TsMidValue f) :: r))) /\
  (forall done vals r o c, SKeyTry e (o, c) ->
     exists err, c = TSErr err /\
       tstep e q (TOpen (TStruct done vals TsMidKey :: r)) o = TErr err (TOpen (TStruct done vals TsMidKey :: r))) /\
  (forall vt t r o c, TKeyTry (o, c) ->
     exists err, c = TSErr err /\
       tstep e q (TOpen (TMap vt t TmMidKey :: r)) o = TErr err (TOpen (TMap vt t TmMidKey :: r))).
Proof.
  intros e q. split; [|split; [|split]].
  - intros ty stk o Hp Hw. rewrite (tstep_pos e q stk ty); auto.
    + apply pos_wrong_step; auto.
    + destruct o; simpl in Hw; try discriminate; reflexivity.
  - intros done vals f r o c H. apply int_try_step; auto.
  - intros done vals r o c H. apply skey_try_step; auto.
  - intros vt t r o c H. apply mkey_try_step; auto.
Qed.

(* misuse orders are detected by the generated code: a map-assembler call while a key or a value is
   pending panics (bindnode keeps no such state: outside its model) *)
Theorem gen_misuse_panics : forall q r,
  (forall done vals o, is_map_op o = true ->
     tstep EGen q (TOpen (TStruct done vals TsMidKey :: r)) o = TPanic) /\
  (forall done vals f o, is_map_op o = true -> o <> AssembleValue ->
     tstep EGen q (TOpen (TStruct done vals (TsExpectValue f) :: r)) o = TPanic) /\
  (forall done vals f o, is_map_op o = true ->
     tstep EGen q (TOpen (TStruct done vals (TsMidValue f) :: r)) o = TPanic) /\
  (forall vt t o, is_map_op o = true -> tstep EGen q (TOpen (TMap vt t TmMidKey :: r)) o = TPanic) /\
  (forall vt t k o, is_map_op o = true -> o <> AssembleValue ->
     tstep EGen q (TOpen (TMap vt t (TmExpectValue k) :: r)) o = TPanic) /\
  (forall vt t k o, is_map_op o = true -> tstep EGen q (TOpen (TMap vt t (TmMidValue k) :: r)) o = TPanic) /\
  (forall done vals, tstep EGen q (TOpen (TStruct done vals TsInitial :: r)) AssembleValue = TPanic) /\
  (forall vt t, tstep EGen q (TOpen (TMap vt t TmInitial :: r)) AssembleValue = TPanic) /\
  (forall v o, tstep EGen q (TDone v) o = TNoMethod).
Proof.
  intros q r. repeat split; intros; try (destruct o; simpl in *; try discriminate; try reflexivity; congruence).
Qed.
