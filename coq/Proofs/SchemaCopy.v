(* Proofs/SchemaCopy.v — copying the type-level view of a typed value (datamodel.Copy: absent struct
   fields are skipped) yields its type-level tree [tdm_spec]; so "feed the type-level builder with the
   type-level view" is "feed it tdm_spec" (C08_two_routes). *)
Require Import IP.Base.Bytes IP.DM.Value IP.Schema.Types IP.Schema.View IP.Schema.Conform IP.Schema.Sem
  IP.Proofs.SchemaBase IP.Proofs.SchemaBuild IP.Proofs.SchemaRepr IP.Proofs.SchemaShape IP.Proofs.SchemaTop.
From Coq Require Import Lia.
Open Scope N_scope.

Lemma ov_copy_of_dm d : ov_copy (ov_of_dm d) = Some d.
Proof.
  induction d using dm_ind2; try reflexivity.
  - cbn [ov_of_dm ov_copy].
    match goal with |- context [?f (indexed 0%Z _)] => set (go := f) end.
    assert (G : forall i, go (indexed i (map ov_of_dm l)) = Some l).
    { induction H as [|x l Hx Hl IH]; intros i; [reflexivity|].
      cbn [map indexed]. unfold go. cbn [fst snd]. fold go. rewrite Hx, IH.
      destruct (ov_of_dm x) eqn:E; auto. destruct x; discriminate. }
    now rewrite G.
  - cbn [ov_of_dm ov_copy].
    match goal with |- context [?f (map _ m)] => set (go := f) end.
    assert (G : go (map (fun kv => (fst kv, ov_of_dm (snd kv))) m) = Some m).
    { induction H as [|[k x] l Hx Hl IH]; [reflexivity|].
      cbn [map]. unfold go. cbn [fst snd]. fold go. cbn [snd] in Hx. rewrite Hx, IH.
      destruct (ov_of_dm x) eqn:E; auto. destruct x; discriminate. }
    now rewrite G.
Qed.

Section CopyStep.
  Variables (hs : ty -> tv -> bool) (tvw : ty -> tv -> ov) (td : ty -> tv -> dm).
  Hypothesis Hrec : forall c v, hs c v = true -> ov_copy (tvw c v) = Some (td c v).

  (* a slot of a list or map: never absent *)
  Lemma copy_slot nul c m : has_maybe hs false nul c m = true ->
    tview_maybe tvw c m <> OAbsent /\ ov_copy (tview_maybe tvw c m) = Some (tdm_maybe td c m).
  Proof.
    destruct m as [| |w]; cbn; try discriminate; intros H.
    - split; [discriminate|reflexivity].
    - pose proof (Hrec _ _ H) as Hc. split; auto. intros E. rewrite E in Hc. discriminate.
  Qed.

  Lemma copy_step t v : shape_step hs t v = true -> ov_copy (tview_step tvw t v) = Some (tdm_step td t v).
  Proof.
    intros Hh.
    destruct t; destruct v; cbn [shape_step] in Hh; try discriminate; try (destruct w; discriminate);
      try reflexivity.
    - (* any *) cbn [tview_step tdm_step]. apply ov_copy_of_dm.
    - (* list *)
      cbn [tview_step tdm_step ov_copy].
      match goal with |- context [?f (indexed 0%Z _)] => set (go := f) end.
      assert (G : forall i, go (indexed i (map (tview_maybe tvw t) l)) = Some (map (tdm_maybe td t) l)).
      { rewrite forallb_forall in Hh. induction l as [|x l IH]; intros i; [reflexivity|].
        cbn [map indexed]. unfold go. cbn [fst snd]. fold go.
        destruct (copy_slot nul t x (Hh x (or_introl eq_refl))) as [Hn Hc].
        rewrite Hc, IH by (intros; apply Hh; now right).
        destruct (tview_maybe tvw t x); auto. contradiction. }
      now rewrite G.
    - (* map *)
      cbn [tview_step tdm_step ov_copy]. apply andb_true_iff in Hh as [_ Hh].
      match goal with |- context [?f (map _ m)] => set (go := f) end.
      assert (G : go (map (fun kv => (fst kv, tview_maybe tvw t (snd kv))) m) =
                  Some (map (fun kv => (fst kv, tdm_maybe td t (snd kv))) m)).
      { rewrite forallb_forall in Hh. induction m as [|[k x] m IH]; [reflexivity|].
        cbn [map]. unfold go. cbn [fst snd]. fold go.
        destruct (copy_slot nul t x (Hh (k, x) (or_introl eq_refl))) as [Hn Hc].
        rewrite Hc, IH by (intros; apply Hh; now right).
        destruct (tview_maybe tvw t x); auto. contradiction. }
      now rewrite G.
    - (* struct: absent fields are skipped *)
      cbn [tview_step tdm_step ov_copy]. unfold present.
      match goal with |- context [?f (map _ (zip fs fs0))] => set (go := f) end.
      assert (G : go (map (fun x => (f_name (fst (fst x)), tview_maybe tvw (snd (fst x)) (snd x))) (zip fs fs0)) =
                  Some (map (fun x => (f_name (fst (fst x)), tdm_maybe td (snd (fst x)) (snd x)))
                            (filter (fun x => negb (is_absent (snd x))) (zip fs fs0)))).
      { revert fs0 Hh. induction fs as [|f fs IH]; intros vs Hh; destruct vs as [|w vs]; try discriminate; try reflexivity.
        cbn in Hh. apply andb_true_iff in Hh as [Hm Hh].
        cbn [zip map filter fst snd]. unfold go. cbn [fst snd]. fold go.
        rewrite (IH vs Hh).
        destruct w as [| |u]; cbn [tview_maybe is_absent negb map fst snd tdm_maybe]; auto.
        cbn in Hm. pose proof (Hrec _ _ Hm) as Hc. rewrite Hc.
        destruct (tvw (snd f) u); auto. discriminate. }
      now rewrite G.
    - (* union *)
      cbn [tview_step tdm_step]. destruct (nth_error ms i) as [m|]; [|discriminate].
      cbn [ov_copy fst snd]. pose proof (Hrec _ _ Hh) as Hc. rewrite Hc.
      destruct (tvw (snd m) v); auto. discriminate.
  Qed.
End CopyStep.

Theorem copy_tview n : forall t v, shape_f n t v = true -> ov_copy (tview_f n t v) = Some (tdm_f n t v).
Proof.
  induction n as [|n IH]; intros t v H; [discriminate|].
  unfold shape_f, tview_f, tdm_f in *. cbn [fuel_rec] in *.
  apply (copy_step (fuel_rec shape_step (fun _ _ => false) n)); auto.
Qed.

(* the literal form of the two-routes statement: copy either view, feed the builder of that level *)
Theorem two_routes_views e t v : (e = Bind \/ e = Gen) -> wf t = true -> has_type t v = true ->
  (exists d, ov_copy (type_view e qoff t v) = Some d /\ tbuild e qoff t d = BOk v) /\
  (exists d, ov_copy (repr_view e qoff t v) = Some d /\ rbuild e qoff t d = BOk v).
Proof.
  intros He Hwf Hh.
  assert (Hv : views_off e qoff) by (destruct He; subst; [apply views_off_bind|apply views_off_gen]).
  assert (Hu : on e qoff q_union_any = false) by (destruct He; subst; reflexivity).
  destruct (views_top e qoff t v Hv Hu Hwf Hh) as [Hr [_ Ht]].
  destruct (two_routes_top e t v He Hwf Hh) as [Hb1 [Hb2 _]].
  split.
  - exists (tdm_spec t v). split; auto. rewrite Ht. apply copy_tview. now apply shape_of_has.
  - exists (repr_spec t v). split; auto. rewrite Hr. apply ov_copy_of_dm.
Qed.
