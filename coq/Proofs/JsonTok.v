(* Proofs/JsonTok.v — the refmt tokenizer model run on the text of a JSON syntax tree yields
   exactly the tree's token sequence (with the stack discipline of Decoder.Step). *)
Require Import IP.Base.Bytes IP.DM.Value IP.Codec.Utf8 IP.Codec.Base64 IP.Codec.DagJson.
Require Import IP.Proofs.JsonUtf8 IP.Proofs.JsonString IP.Proofs.JsonInt.
From Coq Require Import ZifyN ZifyNat ZifyBool.
Open Scope N_scope.

(* JSON syntax trees: what Marshal asks the encoder to write *)
Inductive js :=
| JNull | JBool (b : bool) | JNum (t : bytes) (k : tok) | JStr (s : bytes)
| JArr (l : list js) | JObj (m : list (bytes * js)).

Section js_ind2.
  Variable P : js -> Prop.
  Hypothesis Hn : P JNull.
  Hypothesis Hb : forall b, P (JBool b).
  Hypothesis Hnum : forall t k, P (JNum t k).
  Hypothesis Hs : forall s, P (JStr s).
  Hypothesis Hl : forall l, Forall P l -> P (JArr l).
  Hypothesis Hm : forall m, Forall (fun kv => P (snd kv)) m -> P (JObj m).
  Fixpoint js_ind2 (x : js) : P x :=
    match x with
    | JNull => Hn | JBool b => Hb b | JNum t k => Hnum t k | JStr s => Hs s
    | JArr l => Hl l ((fix go (l : list js) : Forall P l :=
        match l with [] => Forall_nil _ | y :: r => Forall_cons _ (js_ind2 y) (go r) end) l)
    | JObj m => Hm m ((fix go (m : list (bytes * js)) : Forall (fun kv => P (snd kv)) m :=
        match m with [] => Forall_nil _ | kv :: r => Forall_cons _ (js_ind2 (snd kv)) (go r) end) m)
    end.
End js_ind2.

Definition entry_text (jt : js -> bytes) (kv : bytes * js) : bytes := emit_string (fst kv) ++ 58 :: jt (snd kv).

Fixpoint jtext (x : js) : bytes :=
  match x with
  | JNull => [110; 117; 108; 108]
  | JBool true => [116; 114; 117; 101]
  | JBool false => [102; 97; 108; 115; 101]
  | JNum t _ => t
  | JStr s => emit_string s
  | JArr l => 91 :: join_comma (map jtext l) ++ [93]
  | JObj m => 123 :: join_comma (map (entry_text jtext) m) ++ [125]
  end.

Fixpoint jtoks (x : js) : list tok :=
  match x with
  | JNull => [TNull]
  | JBool b => [TBool b]
  | JNum _ k => [k]
  | JStr s => [TString s]
  | JArr l => TArrOpen :: flat_map jtoks l ++ [TArrClose]
  | JObj m => TMapOpen :: flat_map (fun kv => TString (fst kv) :: jtoks (snd kv)) m ++ [TMapClose]
  end.

Section Tok.
  Variable parse_float : bytes -> option N.

  Definition num_ok (t : bytes) (k : tok) : Prop :=
    exists mb r, t = mb :: r /\ (mb = 45 \/ digit_c mb) /\
      (forall rest, delim_ok rest -> num_scan (num_start mb) (r ++ rest) = (r, rest)) /\
      num_token parse_float t = Ok k.

  Fixpoint js_ok (x : js) : Prop :=
    match x with
    | JNum t k => num_ok t k
    | JStr s => str_ok s
    | JArr l => (fix go (l : list js) : Prop := match l with [] => True | y :: r => js_ok y /\ go r end) l
    | JObj m => (fix go (m : list (bytes * js)) : Prop :=
                   match m with [] => True | kv :: r => str_ok (fst kv) /\ js_ok (snd kv) /\ go r end) m
    | _ => True
    end.

  Lemma js_ok_arr l : js_ok (JArr l) <-> Forall js_ok l.
  Proof.
    cbn [js_ok]. induction l as [|y r IH]; [split; auto|]. split.
    - intros [H1 H2]. constructor; [assumption|now apply IH].
    - intros H. inversion H; subst. split; [assumption|now apply IH].
  Qed.

  Lemma js_ok_obj m : js_ok (JObj m) <-> Forall (fun kv => str_ok (fst kv) /\ js_ok (snd kv)) m.
  Proof.
    cbn [js_ok]. induction m as [|y r IH]; [split; auto|]. split.
    - intros (H1 & H2 & H3). constructor; [split; assumption|now apply IH].
    - intros H. inversion H as [|? ? [H1 H2] H3]; subst. repeat split; try assumption. now apply IH.
  Qed.

  (* ---------------------------------------------------------------- runs of the tokenizer *)

  Inductive Yields : tstate -> bytes -> list tok -> tstate -> bytes -> Prop :=
  | Y_nil ts bs : Yields ts bs [] ts bs
  | Y_cons ts bs k ts1 bs1 L ts2 bs2 :
      tstep parse_float ts bs = Ok (k, ts1, bs1) -> Yields ts1 bs1 L ts2 bs2 -> Yields ts bs (k :: L) ts2 bs2.

  Lemma Yields_app ts bs L1 ts1 bs1 L2 ts2 bs2 :
    Yields ts bs L1 ts1 bs1 -> Yields ts1 bs1 L2 ts2 bs2 -> Yields ts bs (L1 ++ L2) ts2 bs2.
  Proof. induction 1; intros; cbn [app]; [assumption|econstructor; eauto]. Qed.

  Lemma Yields_one ts bs k ts1 bs1 : tstep parse_float ts bs = Ok (k, ts1, bs1) -> Yields ts bs [k] ts1 bs1.
  Proof. intros. econstructor; [eassumption|constructor]. Qed.

  Definition st (S : list frame) (F : frame) : tstate := {| ts_stk := S; ts_frm := F |}.

  Inductive ctx := CMap | CArr (some : bool).
  Definition ctx_frm (c : ctx) : frame := match c with CMap => (PMapVal, false) | CArr s => (PArr, s) end.
  Definition ctx_pre (c : ctx) : bytes := match c with CArr true => [44] | _ => [] end.
  Definition ctx_after (c : ctx) : frame := match c with CMap => (PMapKey, true) | CArr _ => (PArr, true) end.

  Definition head_ok (mb : N) : Prop := is_ws mb = false /\ mb <> 93 /\ mb <> 125 /\ mb <> 44.

  Lemma neqb a b : a <> b -> (a =? b) = false.
  Proof. intros. now apply N.eqb_neq. Qed.

  Lemma tstep_ctx c S mb r : head_ok mb ->
    tstep parse_float (st S (ctx_frm c)) (ctx_pre c ++ mb :: r)
    = match accept_kv parse_float (st S (ctx_after c)) mb r with
      | Ok (k, ts', r', _) => Ok (k, ts', r')
      | Err e => Err e
      end.
  Proof.
    intros (Hw & H93 & H125 & H44). unfold tstep.
    destruct c as [|[|]]; cbn [ctx_pre ctx_frm ctx_after app skip_ws st ts_frm].
    - rewrite Hw. reflexivity.
    - change (is_ws 44) with false. cbv iota. change (44 =? 93) with false. change (44 =? 44) with true.
      cbv iota. cbn [skip_ws]. rewrite Hw. rewrite (neqb _ _ H93). reflexivity.
    - rewrite Hw. rewrite (neqb _ _ H93). reflexivity.
  Qed.

  Lemma tstep_top mb r : is_ws mb = false ->
    tstep parse_float ts_init (mb :: r)
    = match accept_kv parse_float ts_init mb r with Ok x => Ok (finish_step x) | Err e => Err e end.
  Proof. intros Hw. unfold tstep. cbn [skip_ws]. rewrite Hw. reflexivity. Qed.

  (* ---------------------------------------------------------------- scalars *)

  Definition is_scalar (x : js) : Prop := match x with JArr _ | JObj _ => False | _ => True end.

  Lemma accept_scalar x ts rest : is_scalar x -> js_ok x -> delim_ok rest ->
    exists mb r k, jtext x ++ rest = mb :: r /\ head_ok mb /\ jtoks x = [k] /\
                   accept_kv parse_float ts mb r = Ok (k, ts, rest, true).
  Proof.
    intros Sc Ok Dl. destruct x as [|b|t k|s|l|m]; try contradiction.
    - exists 110, ([117; 108; 108] ++ rest), TNull. repeat split; try (intro; discriminate).
    - destruct b.
      + exists 116, ([114; 117; 101] ++ rest), (TBool true). repeat split; try (intro; discriminate).
      + exists 102, ([97; 108; 115; 101] ++ rest), (TBool false). repeat split; try (intro; discriminate).
    - destruct Ok as (mb & r & -> & Hmb & Hscan & Htok).
      exists mb, (r ++ rest), k. cbn [jtext jtoks app].
      assert (B : mb = 45 \/ 48 <= mb <= 57) by (destruct Hmb; [left|right]; assumption).
      repeat split; try lia.
      + unfold is_ws. destruct B as [->|B]; [reflexivity|]. repeat ncase; reflexivity.
      + unfold accept_kv.
        destruct (N.eqb_spec mb 123); [lia|]. destruct (N.eqb_spec mb 91); [lia|].
        destruct (N.eqb_spec mb 110); [lia|]. destruct (N.eqb_spec mb 34); [lia|].
        destruct (N.eqb_spec mb 102); [lia|]. destruct (N.eqb_spec mb 116); [lia|].
        replace ((mb =? 45) || is_digit mb) with true.
        2:{ symmetry. destruct B as [->|B]; [reflexivity|]. apply orb_true_iff. right. now apply is_digit_iff. }
        rewrite (Hscan rest Dl). rewrite Htok. reflexivity.
    - exists 34, (emit_body (length s) s ++ 34 :: rest), (TString s). cbn [jtext jtoks].
      repeat split; try (intro; discriminate).
      + unfold emit_string. cbn [app]. now rewrite <- app_assoc.
      + unfold accept_kv. change (34 =? 123) with false. change (34 =? 91) with false.
        change (34 =? 110) with false. change (34 =? 34) with true. cbv iota.
        now rewrite (string_roundtrip s rest Ok).
  Qed.

  Lemma jtext_head x : js_ok x -> exists mb r, jtext x = mb :: r /\ head_ok mb.
  Proof.
    intros Ok. destruct x as [|b|t k|s|l|m].
    - destruct (accept_scalar JNull ts_init [] I Ok I) as (mb & r & k & E & H & _). rewrite app_nil_r in E. eauto.
    - destruct (accept_scalar (JBool b) ts_init [] I Ok I) as (mb & r & k & E & H & _). rewrite app_nil_r in E. eauto.
    - destruct (accept_scalar (JNum t k) ts_init [] I Ok I) as (mb & r & k' & E & H & _). rewrite app_nil_r in E. eauto.
    - destruct (accept_scalar (JStr s) ts_init [] I Ok I) as (mb & r & k & E & H & _). rewrite app_nil_r in E. eauto.
    - eexists 91, _. split; [reflexivity|]. repeat split; intro; discriminate.
    - eexists 123, _. split; [reflexivity|]. repeat split; intro; discriminate.
  Qed.

  (* ---------------------------------------------------------------- closing brackets, keys *)

  Lemma tstep_arr_close F S b rest : S <> [] ->
    tstep parse_float (st (F :: S) (PArr, b)) (93 :: rest) = Ok (TArrClose, st S F, rest).
  Proof. intros NE. destruct S as [|s0 S0]; [congruence|]. destruct b; reflexivity. Qed.

  Lemma tstep_map_close F S b rest : S <> [] ->
    tstep parse_float (st (F :: S) (PMapKey, b)) (125 :: rest) = Ok (TMapClose, st S F, rest).
  Proof. intros NE. destruct S as [|s0 S0]; [congruence|]. destruct b; reflexivity. Qed.

  Lemma tstep_arr_close_top b rest :
    tstep parse_float (st [(PValue, false)] (PArr, b)) (93 :: rest)
    = Ok (TArrClose, st [(PValue, false)] (PArr, b), rest).
  Proof. destruct b; reflexivity. Qed.

  Lemma tstep_map_close_top b rest :
    tstep parse_float (st [(PValue, false)] (PMapKey, b)) (125 :: rest)
    = Ok (TMapClose, st [(PValue, false)] (PMapKey, b), rest).
  Proof. destruct b; reflexivity. Qed.

  Lemma tstep_key S some k Z : str_ok k ->
    tstep parse_float (st S (PMapKey, some)) ((if some then [44] else []) ++ emit_string k ++ 58 :: Z)
    = Ok (TString k, st S (PMapVal, false), Z).
  Proof.
    intros Hk.
    assert (A : accept_kv parse_float (st S (PMapKey, true)) 34 (emit_body (length k) k ++ 34 :: 58 :: Z)
                = Ok (TString k, st S (PMapKey, true), 58 :: Z, true)).
    { unfold accept_kv. change (34 =? 123) with false. change (34 =? 91) with false.
      change (34 =? 110) with false. change (34 =? 34) with true. cbv iota.
      now rewrite (string_roundtrip k (58 :: Z) Hk). }
    assert (E : emit_string k ++ 58 :: Z = 34 :: emit_body (length k) k ++ 34 :: 58 :: Z).
    { unfold emit_string. cbn [app]. now rewrite <- app_assoc. }
    rewrite E. unfold tstep. destruct some; cbn [app skip_ws st ts_frm].
    - change (is_ws 44) with false. cbv iota. change (44 =? 125) with false. change (44 =? 44) with true. cbv iota.
      cbn [skip_ws]. change (is_ws 34) with false. cbv iota. change (34 =? 125) with false. cbv iota.
      unfold set_frm. cbn [ts_stk st]. fold (st S (PMapKey, true)). rewrite A.
      cbn [skip_ws]. change (is_ws 58) with false. cbv iota. change (58 =? 58) with true. reflexivity.
    - change (is_ws 34) with false. cbv iota. change (34 =? 125) with false. cbv iota.
      unfold set_frm. cbn [ts_stk st]. fold (st S (PMapKey, true)). rewrite A.
      cbn [skip_ws]. change (is_ws 58) with false. cbv iota. change (58 =? 58) with true. reflexivity.
  Qed.

  (* ---------------------------------------------------------------- values in context *)

  Lemma join_comma_cons2 (x y : bytes) l : join_comma (x :: y :: l) = x ++ 44 :: join_comma (y :: l).
  Proof. reflexivity. Qed.

  Lemma delim_comma r : delim_ok (44 :: r). Proof. cbn. auto. Qed.
  Lemma delim_rbracket r : delim_ok (93 :: r). Proof. cbn. auto. Qed.
  Lemma delim_rbrace r : delim_ok (125 :: r). Proof. cbn. auto. Qed.
  Hint Resolve delim_comma delim_rbracket delim_rbrace : core.

  Definition InCtx (x : js) : Prop :=
    forall c S rest, S <> [] -> delim_ok rest ->
      Yields (st S (ctx_frm c)) (ctx_pre c ++ jtext x ++ rest) (jtoks x) (st S (ctx_after c)) rest.

  (* elements after the first: each preceded by a comma *)
  Lemma arr_tail l : Forall InCtx l -> l <> [] -> forall S rest, S <> [] ->
    Yields (st S (PArr, true)) (44 :: join_comma (map jtext l) ++ 93 :: rest) (flat_map jtoks l)
           (st S (PArr, true)) (93 :: rest).
  Proof.
    induction 1 as [|y l Hy Hl IH]; intros NE S rest HS; [congruence|].
    destruct l as [|z zs].
    - cbn [map join_comma flat_map]. rewrite app_nil_r.
      exact (Hy (CArr true) S (93 :: rest) HS (delim_rbracket _)).
    - cbn [map]. rewrite join_comma_cons2. cbn [flat_map]. rewrite <- app_assoc. cbn [app].
      eapply Yields_app.
      + exact (Hy (CArr true) S _ HS (delim_comma _)).
      + apply IH; [discriminate|assumption].
  Qed.

  Lemma arr_body l : Forall InCtx l -> forall S rest, S <> [] ->
    Yields (st S (PArr, false)) (join_comma (map jtext l) ++ 93 :: rest) (flat_map jtoks l)
           (st S (PArr, match l with [] => false | _ => true end)) (93 :: rest).
  Proof.
    intros Hl S rest HS. destruct l as [|y l]; [constructor|].
    inversion Hl as [|? ? Hy Hl']; subst. destruct l as [|z zs].
    - cbn [map join_comma flat_map]. rewrite app_nil_r.
      exact (Hy (CArr false) S (93 :: rest) HS (delim_rbracket _)).
    - cbn [map]. rewrite join_comma_cons2. cbn [flat_map]. rewrite <- app_assoc. cbn [app].
      eapply Yields_app.
      + exact (Hy (CArr false) S _ HS (delim_comma _)).
      + exact (arr_tail (z :: zs) Hl' ltac:(discriminate) S rest HS).
  Qed.

  Definition entry_toks (kv : bytes * js) : list tok := TString (fst kv) :: jtoks (snd kv).

  Lemma obj_entry kv some S rest : str_ok (fst kv) -> InCtx (snd kv) -> S <> [] -> delim_ok rest ->
    Yields (st S (PMapKey, some)) ((if some then [44] else []) ++ entry_text jtext kv ++ rest) (entry_toks kv)
           (st S (PMapKey, true)) rest.
  Proof.
    intros Hk Hv HS Dl. unfold entry_text, entry_toks. rewrite <- app_assoc. cbn [app].
    econstructor.
    - apply tstep_key. assumption.
    - exact (Hv CMap S rest HS Dl).
  Qed.

  Definition EntryOk (kv : bytes * js) : Prop := str_ok (fst kv) /\ InCtx (snd kv).

  Lemma obj_tail m : Forall EntryOk m -> m <> [] -> forall S rest, S <> [] ->
    Yields (st S (PMapKey, true)) (44 :: join_comma (map (entry_text jtext) m) ++ 125 :: rest)
           (flat_map entry_toks m) (st S (PMapKey, true)) (125 :: rest).
  Proof.
    induction 1 as [|y l [Hk Hy] Hl IH]; intros NE S rest HS; [congruence|].
    destruct l as [|z zs].
    - cbn [map join_comma flat_map]. rewrite app_nil_r.
      exact (obj_entry y true S (125 :: rest) Hk Hy HS (delim_rbrace _)).
    - cbn [map]. rewrite join_comma_cons2. cbn [flat_map]. rewrite <- app_assoc. cbn [app].
      eapply Yields_app.
      + exact (obj_entry y true S _ Hk Hy HS (delim_comma _)).
      + apply IH; [discriminate|assumption].
  Qed.

  Lemma obj_body m : Forall EntryOk m -> forall S rest, S <> [] ->
    Yields (st S (PMapKey, false)) (join_comma (map (entry_text jtext) m) ++ 125 :: rest) (flat_map entry_toks m)
           (st S (PMapKey, match m with [] => false | _ => true end)) (125 :: rest).
  Proof.
    intros Hl S rest HS. destruct m as [|y l]; [constructor|].
    inversion Hl as [|? ? [Hk Hy] Hl']; subst. destruct l as [|z zs].
    - cbn [map join_comma flat_map]. rewrite app_nil_r.
      exact (obj_entry y false S (125 :: rest) Hk Hy HS (delim_rbrace _)).
    - cbn [map]. rewrite join_comma_cons2. cbn [flat_map]. rewrite <- app_assoc. cbn [app].
      eapply Yields_app.
      + exact (obj_entry y false S _ Hk Hy HS (delim_comma _)).
      + exact (obj_tail (z :: zs) Hl' ltac:(discriminate) S rest HS).
  Qed.

  Lemma entries_ok m : Forall (fun kv => js_ok (snd kv) -> InCtx (snd kv)) m -> js_ok (JObj m) -> Forall EntryOk m.
  Proof.
    intros H Ok. apply js_ok_obj in Ok. induction m as [|kv r IH]; [constructor|].
    inversion H; inversion Ok as [|? ? [Hk Hv] ?]; subst. constructor; [split; auto|auto].
  Qed.

  Lemma elems_ok l : Forall (fun y => js_ok y -> InCtx y) l -> js_ok (JArr l) -> Forall InCtx l.
  Proof.
    intros H Ok. apply js_ok_arr in Ok. induction l as [|y r IH]; [constructor|].
    inversion H; inversion Ok; subst. constructor; auto.
  Qed.

  Lemma scalar_in_ctx x : is_scalar x -> js_ok x -> InCtx x.
  Proof.
    intros Sc Ok c S rest HS Dl.
    destruct (accept_scalar x (st S (ctx_after c)) rest Sc Ok Dl) as (mb & r & k & E & Hh & Tk & A).
    rewrite E, Tk. apply Yields_one. rewrite tstep_ctx by assumption. now rewrite A.
  Qed.

  Theorem tok_value x : js_ok x -> InCtx x.
  Proof.
    induction x as [| | | |l IH|m IH] using js_ind2; intros Ok.
    1-4: apply scalar_in_ctx; [exact I|assumption].
    - (* array *)
      assert (Hl : Forall InCtx l).
      { apply elems_ok; assumption. }
      intros c S rest HS Dl. cbn [jtext jtoks]. cbn [app]. rewrite <- app_assoc. cbn [app].
      econstructor.
      + rewrite (tstep_ctx c S 91) by (repeat split; intro; discriminate). reflexivity.
      + eapply Yields_app.
        * apply (arr_body l Hl (ctx_after c :: S) rest). discriminate.
        * apply Yields_one. apply tstep_arr_close. assumption.
    - (* object *)
      assert (Hm : Forall EntryOk m).
      { apply entries_ok; assumption. }
      intros c S rest HS Dl. cbn [jtext jtoks]. cbn [app]. rewrite <- app_assoc. cbn [app].
      econstructor.
      + rewrite (tstep_ctx c S 123) by (repeat split; intro; discriminate). reflexivity.
      + eapply Yields_app.
        * apply (obj_body m Hm (ctx_after c :: S) rest). discriminate.
        * apply Yields_one. apply tstep_map_close. assumption.
  Qed.
End Tok.

Section TokTop.
  Variable parse_float : bytes -> option N.

  (* the whole document: the first token is what Unmarshal reads before calling unmarshal *)
  Theorem tok_top x rest : js_ok parse_float x -> delim_ok rest ->
    exists k L ts1 r1 ts',
      jtoks x = k :: L /\ tstep parse_float ts_init (jtext x ++ rest) = Ok (k, ts1, r1) /\
      Yields parse_float ts1 r1 L ts' rest /\
      (match k with TInt _ | TFloat _ => L = [] /\ r1 = rest | _ => True end).
  Proof.
    intros Ok Dl. destruct x as [|b|t k|s|l|m].
    1-4: match goal with |- context[jtext ?x] =>
           destruct (accept_scalar parse_float x ts_init rest I Ok Dl) as (mb & r & k' & E & (Hw & _) & Tk & A);
           exists k', [], ts_init, rest, ts_init; rewrite E, Tk; repeat split;
           [rewrite tstep_top by assumption; rewrite A; reflexivity|constructor|destruct k'; auto] end.
    - assert (Hl : Forall (InCtx parse_float) l).
      { apply js_ok_arr in Ok. eapply Forall_impl; [|exact Ok]. intros y. apply tok_value. }
      exists TArrOpen, (flat_map jtoks l ++ [TArrClose]), (st [(PValue, false)] (PArr, false)),
             (join_comma (map jtext l) ++ 93 :: rest),
             (st [(PValue, false)] (PArr, match l with [] => false | _ => true end)).
      repeat split.
      + cbn [jtext app]. rewrite <- app_assoc. reflexivity.
      + eapply Yields_app.
        * apply (arr_body parse_float l Hl [(PValue, false)] rest). discriminate.
        * apply Yields_one. apply tstep_arr_close_top.
    - assert (Hm : Forall (EntryOk parse_float) m).
      { apply js_ok_obj in Ok. eapply Forall_impl; [|exact Ok]. intros kv [Hk Hv]. split; [assumption|]. now apply tok_value. }
      exists TMapOpen, (flat_map entry_toks m ++ [TMapClose]), (st [(PValue, false)] (PMapKey, false)),
             (join_comma (map (entry_text jtext) m) ++ 125 :: rest),
             (st [(PValue, false)] (PMapKey, match m with [] => false | _ => true end)).
      repeat split.
      + cbn [jtext app]. rewrite <- app_assoc. reflexivity.
      + eapply Yields_app.
        * apply (obj_body parse_float m Hm [(PValue, false)] rest). discriminate.
        * apply Yields_one. apply tstep_map_close_top.
  Qed.
End TokTop.
