(* Proofs/HeapDrf.v — data-race freedom from disjoint footprints (the classical theorem), for the
   goroutine model of Heap/Footprint.v.  If no thread's writes (stores and allocations, as logged
   when it runs ALONE from the initial heap) touch an address in another thread's footprint, and the
   threads allocate in distinct, initially empty arenas, then in EVERY interleaving of single
   accesses every thread performs exactly the accesses it performs alone — so no two threads are
   ever about to make conflicting accesses, and each thread that finishes has the result it has
   alone.  Proof: a simulation between the interleaved run and the solo runs. *)
Require Import IP.Base.Bytes IP.Heap.GoMem IP.Heap.Footprint IP.Proofs.HeapMem.
From Coq Require Import List Arith Bool Lia.
Import ListNotations.
Local Open Scope nat_scope.

Section Drf.
  Variables V R : Type.
  Notation heap := (heap V).
  Notation thread := (thread V R).

  (* ------------------------------------------------------------ the premise, as propositions *)

  Definition premise (h0 : heap) (ts : list thread) : Prop :=
    NoDup (map t_ar ts) /\
    (forall t, In t ts -> nth (t_ar t) h0 [] = []) /\
    (forall i j ti tj, i <> j -> nth_error ts i = Some ti -> nth_error ts j = Some tj ->
       forall a, In a (wfp (alone_log h0 ti)) -> ~ In a (fp (alone_log h0 tj))).

  Lemma existsb_addr_false : forall a l, existsb (addr_eqb a) l = false -> ~ In a l.
  Proof.
    intros a l H Hin. assert (existsb (addr_eqb a) l = true); [|congruence].
    apply existsb_exists. exists a. split; [assumption | apply addr_eqb_refl].
  Qed.

  Lemma disjoint_b_sound : forall xs ys, disjoint_b xs ys = true -> forall a, In a xs -> ~ In a ys.
  Proof.
    unfold disjoint_b; intros xs ys H a Ha. rewrite forallb_forall in H. specialize (H a Ha).
    apply negb_true_iff in H. apply existsb_addr_false; assumption.
  Qed.

  Lemma nodup_b_sound : forall l, nodup_b l = true -> NoDup l.
  Proof.
    induction l as [|x l IH]; cbn; intros H; constructor.
    - apply andb_true_iff in H. destruct H as [H _]. apply negb_true_iff in H.
      intros Hin. assert (existsb (Nat.eqb x) l = true); [|congruence].
      apply existsb_exists. exists x. split; [assumption | apply Nat.eqb_refl].
    - apply andb_true_iff in H. apply IH. tauto.
  Qed.

  Lemma others_ok_sound : forall h0 w i ts k, others_ok V R h0 w i ts k = true ->
    forall j tj, nth_error ts j = Some tj -> i <> k + j -> forall a, In a w -> ~ In a (fp (alone_log h0 tj)).
  Proof.
    induction ts as [|t ts IH]; cbn; intros k H j tj Hj Hn a Ha; [destruct j; discriminate|].
    apply andb_true_iff in H. destruct H as [H1 H2]. destruct j as [|j]; cbn in Hj.
    - inversion Hj; subst. apply orb_true_iff in H1. destruct H1 as [H1|H1].
      + apply Nat.eqb_eq in H1. lia.
      + eapply disjoint_b_sound; eauto.
    - eapply (IH (S k)); eauto. lia.
  Qed.

  Lemma all_ok_sound : forall h0 all ts i, all_ok V R h0 all ts i = true ->
    forall n ti, nth_error ts n = Some ti ->
    forall j tj, nth_error all j = Some tj -> i + n <> j -> forall a, In a (wfp (alone_log h0 ti)) -> ~ In a (fp (alone_log h0 tj)).
  Proof.
    induction ts as [|t ts IH]; cbn; intros i H n ti Hn j tj Hj Hne a Ha; [destruct n; discriminate|].
    apply andb_true_iff in H. destruct H as [H1 H2]. destruct n as [|n]; cbn in Hn.
    - inversion Hn; subst. eapply (others_ok_sound _ _ _ _ 0 H1 j); eauto. lia.
    - eapply (IH (S i)); eauto. lia.
  Qed.

  Lemma drf_check_sound : forall h0 ts, drf_check h0 ts = true -> premise h0 ts.
  Proof.
    unfold drf_check; intros h0 ts H. apply andb_true_iff in H. destruct H as [H H3].
    apply andb_true_iff in H. destruct H as [H1 H2]. split; [|split].
    - apply nodup_b_sound; assumption.
    - intros t Ht. rewrite forallb_forall in H2. specialize (H2 t Ht). destruct (nth (t_ar t) h0 []); [reflexivity | discriminate].
    - intros i j ti tj Hij Hi Hj a Ha. eapply (all_ok_sound _ _ _ 0 H3 i ti Hi j tj Hj); eauto.
  Qed.

  (* ------------------------------------------------------------ one access, on two heaps that agree *)

  Lemma run_step1 : forall (p : prog V R) ar h p' h1 e o hf l,
    step1 ar p h = Some (p', h1, e) -> run ar p h = (o, hf, l) ->
    exists l', l = e :: l' /\ run ar p' h1 = (o, hf, l').
  Proof.
    intros p ar h p' h1 e o hf l Hs Hr. destruct p as [x|a k|a c k|c k|]; cbn in *; try discriminate.
    - destruct (hget h a) as [c|]; inversion Hs; subst.
      + destruct (run ar (k c) h1) as [[o1 h2] l1]. inversion Hr; subst. eauto.
      + inversion Hr; subst. eauto.
    - destruct (hget h a) as [c0|]; inversion Hs; subst.
      + destruct (run ar p' (hset h a c)) as [[o1 h2] l1]. inversion Hr; subst. eauto.
      + inversion Hr; subst. eauto.
    - destruct (halloc ar h c) as [h2 a] eqn:Ea. inversion Hs; subst.
      destruct (run ar (k a) h1) as [[o1 h3] l1]. inversion Hr; subst. eauto.
  Qed.

  Lemma arena_len : forall (H hi : heap) ar, (forall idx, hgetv H (ar, idx) = hgetv hi (ar, idx)) ->
    length (nth ar H []) = length (nth ar hi []).
  Proof.
    intros H hi ar Hag. unfold hgetv in Hag. cbn in Hag.
    destruct (Nat.lt_trichotomy (length (nth ar H [])) (length (nth ar hi []))) as [Hlt|[Heq|Hgt]]; [|assumption|].
    - specialize (Hag (length (nth ar H []))).
      rewrite (proj2 (nth_error_None _ _)) in Hag by lia. symmetry in Hag. apply nth_error_None in Hag. lia.
    - specialize (Hag (length (nth ar hi []))).
      rewrite (proj2 (nth_error_None (nth ar hi []) _)) in Hag by lia. apply nth_error_None in Hag. lia.
  Qed.

  Lemma hget_of_hgetv : forall (H hi : heap) a, hgetv H a = hgetv hi a -> hget H a = hget hi a.
  Proof. intros H hi a E. unfold hget. rewrite E. reflexivity. Qed.

  Lemma hgetv_hset_any : forall (h : heap) a c x, x <> a -> hgetv (hset h a c) x = hgetv h x.
  Proof. intros. apply hgetv_hset_other. congruence. Qed.

  (* what one access changes *)
  Lemma step1_frame : forall (p : prog V R) ar h p' h1 e, step1 ar p h = Some (p', h1, e) ->
    forall x, x <> ev_addr e -> hgetv h1 x = hgetv h x.
  Proof.
    intros p ar h p' h1 e Hs x Hx. destruct p as [y|a k|a c k|c k|]; cbn in *; try discriminate.
    - destruct (hget h a); inversion Hs; subst; reflexivity.
    - destruct (hget h a); inversion Hs; subst; [|reflexivity]. apply hgetv_hset_other. cbn in Hx. congruence.
    - destruct (halloc ar h c) as [h2 a] eqn:Ea. inversion Hs; subst. cbn in Hx. eapply hgetv_halloc_old; eauto.
  Qed.

  Lemma step1_read_same : forall (p : prog V R) ar h p' h1 e, step1 ar p h = Some (p', h1, e) ->
    ev_is_write e = false -> h1 = h.
  Proof.
    intros p ar h p' h1 e Hs Hw. destruct p as [y|a k|a c k|c k|]; cbn in *; try discriminate.
    - destruct (hget h a); inversion Hs; subst; reflexivity.
    - destruct (hget h a); inversion Hs; subst; discriminate.
    - destruct (halloc ar h c) as [h2 a]. inversion Hs; subst. discriminate.
  Qed.

  (* a store that changed the heap hit an existing cell; an allocation lands in the thread's arena *)
  Lemma step1_change : forall (p : prog V R) ar h p' h1 e, step1 ar p h = Some (p', h1, e) ->
    h1 = h \/
    (exists a, e = EWr a /\ hgetv h a <> None) \/ (exists a, e = ENew a /\ fst a = ar /\ hgetv h a = None).
  Proof.
    intros p ar h p' h1 e Hs. destruct p as [y|a k|a c k|c k|]; cbn in *; try discriminate.
    - destruct (hget h a); inversion Hs; subst; auto.
    - destruct (hget h a) eqn:G; inversion Hs; subst; auto. right. left. exists a. split; [reflexivity|].
      intros E. apply hget_none in E. congruence.
    - destruct (halloc ar h c) as [h2 a] eqn:Ea. inversion Hs; subst. right. right. exists a. split; [reflexivity|].
      split; [unfold halloc in Ea; inversion Ea; reflexivity | eapply hgetv_halloc_new; eauto].
  Qed.

  Lemma step1_agree : forall (p : prog V R) ar (H hi : heap) (S : addr -> Prop),
    (forall a, S a -> hgetv H a = hgetv hi a) ->
    (forall idx, S (ar, idx)) ->
    (forall p' h' e, step1 ar p hi = Some (p', h', e) -> S (ev_addr e)) ->
    match step1 ar p H, step1 ar p hi with
    | Some (p1, H1, e1), Some (p2, h2, e2) =>
        p1 = p2 /\ e1 = e2 /\ (forall a, S a -> hgetv H1 a = hgetv h2 a)
    | None, None => True
    | _, _ => False
    end.
  Proof.
    intros p ar H hi S Hag Har Hev. destruct p as [y|a k|a c k|c k|]; cbn in *; auto.
    - assert (Sa : S a) by (destruct (hget hi a); exact (Hev _ _ (ERd a) eq_refl)).
      rewrite (hget_of_hgetv _ _ _ (Hag a Sa)). destruct (hget hi a); auto.
    - assert (Sa : S a) by (destruct (hget hi a); exact (Hev _ _ (EWr a) eq_refl)).
      rewrite (hget_of_hgetv _ _ _ (Hag a Sa)). destruct (hget hi a) eqn:G; auto.
      split; [reflexivity|]. split; [reflexivity|]. intros x Sx.
      destruct (addr_dec a x) as [<-|Hn].
      + apply hget_some in G. destruct G as [v G]. pose proof (Hag a Sa) as E. rewrite G in E.
        erewrite hgetv_hset_same by eauto. erewrite hgetv_hset_same by eauto. reflexivity.
      + rewrite !hgetv_hset_other by assumption. auto.
    - pose proof (arena_len H hi ar (fun idx => Hag _ (Har idx))) as Hlen.
      destruct (halloc ar H c) as [H1 a1] eqn:E1. destruct (halloc ar hi c) as [h2 a2] eqn:E2.
      assert (a1 = a2) by (unfold halloc in *; inversion E1; inversion E2; congruence). subst a2.
      split; [reflexivity|]. split; [reflexivity|]. intros x Sx.
      destruct (addr_dec x a1) as [->|Hn].
      + rewrite (proj1 (hgetv_halloc_new _ _ _ _ _ _ E1)), (proj1 (hgetv_halloc_new _ _ _ _ _ _ E2)). reflexivity.
      + rewrite (hgetv_halloc_old _ _ _ _ _ _ x E1), (hgetv_halloc_old _ _ _ _ _ _ x E2) by assumption. auto.
  Qed.

  (* ------------------------------------------------------------ the simulation *)

  Section Sim.
    Variables (h0 : heap) (ts0 : list thread).
    Hypothesis HP : premise h0 ts0.

    (* thread t (now) is the residue of t0 after the accesses [pre]; hi is t0's private heap after them *)
    Definition sim1 (H : heap) (t0 t : thread) : Prop :=
      t_ar t = t_ar t0 /\
      exists hi pre rest o hf,
        alone h0 t0 = (o, hf, pre ++ rest) /\
        run (t_ar t) (t_prog t) hi = (o, hf, rest) /\
        (forall a, In a (fp (pre ++ rest)) \/ fst a = t_ar t0 -> hgetv H a = hgetv hi a) /\
        (forall a, fst a = t_ar t0 -> hgetv hi a <> None -> In a (wfp pre)).

    Definition sim (c : conf V R) : Prop :=
      length (snd c) = length ts0 /\
      forall i t0 t, nth_error ts0 i = Some t0 -> nth_error (snd c) i = Some t -> sim1 (fst c) t0 t.

    Lemma sim_init : sim (h0, ts0).
    Proof.
      split; [reflexivity|]. intros i t0 t H0 H1. cbn in H1. assert (t = t0) by congruence. subst t.
      split; [reflexivity|]. destruct (alone h0 t0) as [[o hf] l] eqn:E.
      exists h0, [], l, o, hf. cbn. repeat split; auto.
      intros a Ha Hn. destruct HP as (_ & Hemp & _). exfalso. apply Hn.
      unfold hgetv. rewrite Ha. rewrite (Hemp t0 (nth_error_In _ _ H0)). destruct (snd a); reflexivity.
    Qed.

    Lemma ar_distinct : forall i j ti tj, i <> j -> nth_error ts0 i = Some ti -> nth_error ts0 j = Some tj ->
      t_ar ti <> t_ar tj.
    Proof.
      intros i j ti tj Hij Hi Hj E. destruct HP as (Hnd & _).
      assert (Ei : nth_error (map t_ar ts0) i = Some (t_ar ti)) by (rewrite nth_error_map, Hi; reflexivity).
      assert (Ej : nth_error (map t_ar ts0) j = Some (t_ar tj)) by (rewrite nth_error_map, Hj; reflexivity).
      rewrite E in Ei. apply Hij. eapply (proj1 (NoDup_nth_error _) Hnd); [|congruence].
      apply nth_error_Some. congruence.
    Qed.

    Lemma in_fp_app_r : forall pre rest a, In a (fp rest) -> In a (fp (pre ++ rest)).
    Proof. intros. unfold fp in *. rewrite map_app. apply in_or_app. auto. Qed.
    Lemma in_fp_app_l : forall pre rest a, In a (fp pre) -> In a (fp (pre ++ rest)).
    Proof. intros. unfold fp in *. rewrite map_app. apply in_or_app. auto. Qed.
    Lemma wfp_fp : forall l a, In a (wfp l) -> In a (fp l).
    Proof. intros l a H. unfold wfp, fp in *. apply in_map_iff in H. destruct H as (e & <- & He). apply in_map. apply filter_In in He. tauto. Qed.
    Lemma wfp_app : forall l1 l2, wfp (l1 ++ l2) = wfp l1 ++ wfp l2.
    Proof. intros. unfold wfp. rewrite filter_app, map_app. reflexivity. Qed.

    (* the next access of a simulated thread is the next access of its solo run *)
    Lemma sim1_next : forall H t0 t, sim1 H t0 t ->
      forall p' H1 e, step1 (t_ar t) (t_prog t) H = Some (p', H1, e) ->
      In e (alone_log h0 t0) /\
      sim1 H1 t0 {| t_ar := t_ar t; t_prog := p' |}.
    Proof.
      intros H t0 t (Har & hi & pre & rest & o & hf & Hal & Hrun & Hag & Hmine) p' H1 e Hs.
      set (S := fun a => In a (fp (pre ++ rest)) \/ fst a = t_ar t0).
      pose proof (step1_agree (t_prog t) (t_ar t) H hi S Hag) as Hst.
      assert (Hs2 : exists h2, step1 (t_ar t) (t_prog t) hi = Some (p', h2, e) /\ forall a, S a -> hgetv H1 a = hgetv h2 a).
      { rewrite Hs in Hst. destruct (step1 (t_ar t) (t_prog t) hi) as [[[p2 h2] e2]|] eqn:E2.
        - destruct Hst as (-> & -> & Hag'); eauto.
          + intros idx. right. cbn. congruence.
          + intros p3 h3 e3 E3. inversion E3; subst. destruct (run_step1 _ _ _ _ _ _ _ _ _ E2 Hrun) as (l' & -> & _).
            left. apply in_fp_app_r. left. reflexivity.
        - exfalso. apply Hst.
          + intros idx. right. cbn. congruence.
          + intros p3 h3 e3 E3. discriminate. }
      destruct Hs2 as (h2 & Hs2 & Hag').
      destruct (run_step1 _ _ _ _ _ _ _ _ _ Hs2 Hrun) as (rest' & -> & Hrun').
      split.
      - unfold alone_log. rewrite Hal. cbn. apply in_or_app. right. left. reflexivity.
      - split; [exact Har|]. exists h2, (pre ++ [e]), rest', o, hf. cbn [t_ar t_prog].
        rewrite <- app_assoc. cbn. split; [assumption|]. split; [assumption|]. split; [exact Hag'|].
        intros a Ha Hn. rewrite wfp_app. apply in_or_app.
        destruct (addr_dec a (ev_addr e)) as [->|Hne].
        + destruct (hgetv hi (ev_addr e)) eqn:G.
          * left. apply Hmine; [assumption | congruence].
          * right. destruct (step1_change _ _ _ _ _ _ Hs2) as [->|[(x & -> & Hx)|(x & -> & _)]].
            -- congruence.
            -- cbn in *. congruence.
            -- cbn. left. reflexivity.
        + left. apply Hmine; [assumption|]. rewrite <- (step1_frame _ _ _ _ _ _ Hs2 a Hne). assumption.
    Qed.

    Lemma sim_step : forall c k c', sim c -> tstep k c = Some c' -> sim c'.
    Proof.
      intros [H ts] k c' [Hlen Hs] Hk. unfold tstep in Hk.
      destruct (nth_error ts k) as [tk|] eqn:Ek; [|discriminate].
      destruct (step1 (t_ar tk) (t_prog tk) H) as [[[p' H1] e]|] eqn:Es; [|discriminate].
      inversion Hk; subst c'. clear Hk. cbn [fst snd] in *.
      assert (Hk0 : exists t0k, nth_error ts0 k = Some t0k).
      { destruct (nth_error ts0 k) eqn:E; eauto. apply nth_error_None in E.
        assert (k < length ts) by (apply nth_error_Some; congruence). lia. }
      destruct Hk0 as [t0k Hk0].
      destruct (sim1_next H t0k tk (Hs k t0k tk Hk0 Ek) p' H1 e Es) as [Hin Hsk].
      split; [cbn [snd]; rewrite length_upd; assumption|].
      intros i t0 t Hi0 Hi. cbn [fst snd] in *.
      destruct (Nat.eq_dec k i) as [<-|Hne].
      - rewrite nth_error_upd_same in Hi by (apply nth_error_Some; congruence).
        inversion Hi; subst t. assert (t0 = t0k) by congruence. subst. assumption.
      - rewrite nth_error_upd_other in Hi by assumption.
        destruct (Hs i t0 t Hi0 Hi) as (Har & hi & pre & rest & o & hf & Hal & Hrun & Hag & Hmine).
        split; [assumption|]. exists hi, pre, rest, o, hf. repeat split; try assumption.
        intros a Ha. rewrite <- (Hag a Ha).
        destruct (addr_dec a (ev_addr e)) as [->|Hd]; [|eapply step1_frame; eauto].
        destruct (step1_change _ _ _ _ _ _ Es) as [->|Hch]; [reflexivity|].
        exfalso.
        assert (Hw : In (ev_addr e) (wfp (alone_log h0 t0k))).
        { unfold wfp. apply in_map. apply filter_In. split; [assumption|].
          destruct Hch as [(x & -> & _)|(x & -> & _)]; reflexivity. }
        destruct HP as (_ & _ & Hdisj).
        pose proof (Hdisj k i t0k t0 Hne Hk0 Hi0 _ Hw) as Hnot.
        destruct Ha as [Ha|Ha].
        + apply Hnot. unfold alone_log. rewrite Hal. assumption.
        + (* the address lies in thread i's arena *)
          destruct Hch as [(x & -> & Hx)|(x & -> & Hx & _)].
          * cbn in *. apply Hnot. unfold alone_log. rewrite Hal. cbn. apply in_fp_app_l. apply wfp_fp.
            apply Hmine; [assumption|]. rewrite <- (Hag x (or_intror Ha)). assumption.
          * cbn in *. destruct (Hs k t0k tk Hk0 Ek) as (Hark & _).
            apply (ar_distinct k i t0k t0 Hne Hk0 Hi0). congruence.
    Qed.

    Lemma sim_sched : forall s c, sim c -> sim (sched_run s c).
    Proof.
      induction s as [|i s IH]; cbn; intros c Hc; [assumption|].
      destruct (tstep i c) as [c'|] eqn:E; [apply IH; eapply sim_step; eauto | apply IH; assumption].
    Qed.

    Lemma sim_not_racy : forall c, sim c -> ~ racy c.
    Proof.
      intros [H ts] [Hlen Hs] (i & j & ti & tj & ei & ej & Hij & Hi & Hj & Ni & Nj & Hc). cbn [fst snd] in *.
      assert (Hi0 : exists t0, nth_error ts0 i = Some t0).
      { destruct (nth_error ts0 i) eqn:E; eauto. apply nth_error_None in E.
        assert (i < length ts) by (apply nth_error_Some; congruence). lia. }
      assert (Hj0 : exists t0, nth_error ts0 j = Some t0).
      { destruct (nth_error ts0 j) eqn:E; eauto. apply nth_error_None in E.
        assert (j < length ts) by (apply nth_error_Some; congruence). lia. }
      destruct Hi0 as [t0i Hi0]. destruct Hj0 as [t0j Hj0].
      unfold next_ev in Ni, Nj.
      destruct (step1 (t_ar ti) (t_prog ti) H) as [[[pi Hi1] ei']|] eqn:Si; [|discriminate]. inversion Ni; subst ei'.
      destruct (step1 (t_ar tj) (t_prog tj) H) as [[[pj Hj1] ej']|] eqn:Sj; [|discriminate]. inversion Nj; subst ej'.
      destruct (sim1_next H t0i ti (Hs i t0i ti Hi0 Hi) _ _ _ Si) as [Ini _].
      destruct (sim1_next H t0j tj (Hs j t0j tj Hj0 Hj) _ _ _ Sj) as [Inj _].
      unfold conflict in Hc. apply andb_true_iff in Hc. destruct Hc as [Ha Hw]. apply addr_eqb_eq in Ha.
      destruct HP as (_ & _ & Hdisj). apply orb_true_iff in Hw. destruct Hw as [Hw|Hw].
      - apply (Hdisj i j t0i t0j Hij Hi0 Hj0 (ev_addr ei)).
        + unfold wfp. apply in_map. apply filter_In. auto.
        + rewrite Ha. unfold fp. apply in_map. assumption.
      - apply (Hdisj j i t0j t0i (not_eq_sym Hij) Hj0 Hi0 (ev_addr ej)).
        + unfold wfp. apply in_map. apply filter_In. auto.
        + rewrite <- Ha. unfold fp. apply in_map. assumption.
    Qed.

    Lemma sim_finished : forall c, sim c -> forall i t o, nth_error (snd c) i = Some t -> finished t = Some o ->
      exists t0, nth_error ts0 i = Some t0 /\ alone_out h0 t0 = o.
    Proof.
      intros [H ts] [Hlen Hs] i t o Hi Hf. cbn [fst snd] in *.
      assert (Hi0 : exists t0, nth_error ts0 i = Some t0).
      { destruct (nth_error ts0 i) eqn:E; eauto. apply nth_error_None in E.
        assert (i < length ts) by (apply nth_error_Some; congruence). lia. }
      destruct Hi0 as [t0 Hi0]. exists t0. split; [assumption|].
      destruct (Hs i t0 t Hi0 Hi) as (Har & hi & pre & rest & o' & hf & Hal & Hrun & _).
      unfold alone_out. rewrite Hal. cbn. unfold finished in Hf.
      destruct (t_prog t); try discriminate; cbn in Hrun; inversion Hrun; inversion Hf; subst; reflexivity.
    Qed.
  End Sim.

  (* ------------------------------------------------------------ the theorem *)

  Theorem drf_of_premise : forall (h0 : heap) (ts : list thread), premise h0 ts ->
    race_free (h0, ts) /\
    forall s i t o, nth_error (snd (sched_run s (h0, ts))) i = Some t -> finished t = Some o ->
      exists t0 : thread, nth_error ts i = Some t0 /\ alone_out h0 t0 = o.
  Proof.
    intros h0 ts HP. split.
    - intros s. apply (sim_not_racy h0 ts HP). apply sim_sched; [assumption | apply sim_init; assumption].
    - intros s i t o Hi Hf. eapply (sim_finished h0 ts); eauto. apply sim_sched; [assumption | apply sim_init; assumption].
  Qed.

  Theorem drf : forall (h0 : heap) (ts : list thread), drf_check h0 ts = true ->
    race_free (h0, ts) /\
    forall s i t o, nth_error (snd (sched_run s (h0, ts))) i = Some t -> finished t = Some o ->
      exists t0 : thread, nth_error ts i = Some t0 /\ alone_out h0 t0 = o.
  Proof.
    intros h0 ts Hc. pose proof (drf_check_sound _ _ Hc) as HP. split.
    - intros s. apply (sim_not_racy h0 ts HP). apply sim_sched; [assumption | apply sim_init; assumption].
    - intros s i t o Hi Hf. eapply (sim_finished h0 ts); eauto. apply sim_sched; [assumption | apply sim_init; assumption].
  Qed.

End Drf.
