(* Proofs/TravStart.v — C15, StartAtPath: when the unrestricted walk completes, visits the start path, and
   explored siblings are pairwise distinct, the walk started at that path yields exactly: the loads of the
   links lying on the start path, followed by the unrestricted trace from the first visit of the start
   path on. *)
Require Import IP.Base.Bytes IP.DM.Value IP.Trav.Selector IP.Trav.Walk IP.Trav.Controls IP.Trav.ControlsSpec
  IP.Proofs.TravFacts IP.Proofs.TravSkip.
From Coq Require Import Lia.
Open Scope Z_scope.

(* the start path as ParsePath / the harness give it: string segments *)
Definition start_ctl (sp : list bytes) : ctl := {| c_start := map SegS sp; c_once := false; c_skip := [] |}.

Definition lift (r : list event * outcome) (st : wst) : list event * outcome * wst := (fst r, snd r, st).

Fixpoint nodup_strs (l : list bytes) : bool :=
  match l with [] => true | x :: r => negb (mem_bytes x r) && nodup_strs r end.

Definition kid_strs (ks : list (seg * dm)) : list bytes := map (fun k => seg_string (fst k)) ks.

(* at every node the unrestricted walk enters, the explored children have pairwise different segment
   strings (false only for selectors whose Interests() repeat a segment, or maps with repeated keys) *)
Fixpoint walk_distinct (q : quirks) (g : list (bytes * dm)) (f : nat) (n : dm) (s : sel) : bool :=
  match f with
  | O => true
  | S f' =>
      if is_container n then
        nodup_strs (kid_strs (children q n s)) &&
        forallb (fun k => match explore q s n (fst k) with
                          | XOk (Some s') =>
                              match snd k with
                              | DLink c => match assoc c g with Some b => walk_distinct q g f' b s' | None => true end
                              | v => walk_distinct q g f' v s'
                              end
                          | _ => true
                          end) (children q n s)
      else true
  end.

Lemma path_strs_SegS sp : path_strs (map SegS sp) = sp.
Proof. unfold path_strs. rewrite map_map. cbn. apply map_id. Qed.

Lemma path_strs_app a b : path_strs (a ++ b) = path_strs a ++ path_strs b.
Proof. apply map_app. Qed.

Lemma seg_equals_SegS ps y : seg_equals ps (SegS y) = bytes_eqb (seg_string ps) y.
Proof. destruct ps; reflexivity. Qed.

(* ---- paths of events *)
Lemma walk_path_prefix q g f : forall ls P n s,
  Forall (fun e => exists sfx, ev_path e = P ++ sfx) (fst (walk q g f ls P n s)).
Proof.
  induction f as [|f IH]; intros; [constructor|].
  rewrite walk_S. destruct (is_container n).
  - pose proof (seqk_Forall (fun e => exists sfx, ev_path e = P ++ sfx)
                  (explore_step q g (walk q g f) ls P n s) (children q n s)) as H.
    destruct (seqk (explore_step q g (walk q g f) ls P n s) (children q n s)) as [e o]. cbn in *.
    constructor; [exists []; rewrite app_nil_r; apply visit_event_path|]. apply H. clear H. intros k.
    unfold explore_step. destruct (explore q s n (fst k)) as [[s'|]| |]; cbn; try constructor.
    assert (Hlift : forall l, Forall (fun e => exists sfx, ev_path e = (P ++ [fst k]) ++ sfx) l ->
                              Forall (fun e => exists sfx, ev_path e = P ++ sfx) l).
    { intros l Hl. eapply Forall_impl; [|exact Hl]. intros a [sfx Hq]. exists ([fst k] ++ sfx).
      rewrite app_assoc. exact Hq. }
    destruct (snd k); try (apply Hlift; apply IH).
    destruct (assoc c g) as [b|]; cbn.
    + specialize (IH (c :: ls) (P ++ [fst k]) b s').
      destruct (walk q g f (c :: ls) (P ++ [fst k]) b s') as [e' o']. cbn in *.
      constructor; [exists [fst k]; reflexivity|]. apply Hlift; exact IH.
    + constructor; [exists [fst k]; reflexivity|constructor].
  - cbn. constructor; [exists []; rewrite app_nil_r; apply visit_event_path|constructor].
Qed.

Lemma step_path_prefix q g f ls P n s k :
  Forall (fun e => exists sfx, ev_path e = (P ++ [fst k]) ++ sfx) (fst (explore_step q g (walk q g f) ls P n s k)).
Proof.
  unfold explore_step. destruct (explore q s n (fst k)) as [[s'|]| |]; cbn; try constructor.
  destruct (snd k); try apply walk_path_prefix.
  destruct (assoc c g) as [b|]; cbn.
  - pose proof (walk_path_prefix q g f (c :: ls) (P ++ [fst k]) b s') as H.
    destruct (walk q g f (c :: ls) (P ++ [fst k]) b s') as [e' o']. cbn in *.
    constructor; [exists []; rewrite app_nil_r; reflexivity|exact H].
  - constructor; [exists []; rewrite app_nil_r; reflexivity|constructor].
Qed.

(* ---- string-list comparisons *)
Lemma strs_eqb_refl a : strs_eqb a a = true.
Proof. induction a; cbn; [reflexivity|]. rewrite beqb_refl; exact IHa. Qed.
Lemma strs_prefixb_app a b : strs_prefixb a (a ++ b) = true.
Proof. induction a; cbn; [reflexivity|]. rewrite beqb_refl; exact IHa. Qed.
Lemma strs_eqb_cancel a b c : strs_eqb (a ++ b) (a ++ c) = strs_eqb b c.
Proof. induction a; cbn; [reflexivity|]. rewrite beqb_refl; exact IHa. Qed.
Lemma strs_prefixb_cancel a b c : strs_prefixb (a ++ b) (a ++ c) = strs_prefixb b c.
Proof. induction a; cbn; [reflexivity|]. rewrite beqb_refl; exact IHa. Qed.
Lemma strs_eqb_length a : forall b, strs_eqb a b = true -> length a = length b.
Proof.
  induction a as [|x a IH]; destruct b; cbn; try discriminate; auto.
  intros H. apply andb_true_iff in H. destruct H as [_ H]. f_equal. apply IH; exact H.
Qed.

(* an event below a sibling whose segment differs from the start path's is neither at the start path nor
   a load on it *)
Lemma off_path sp A x y rest e sfx :
  sp = A ++ y :: rest -> bytes_eqb x y = false ->
  path_strs (ev_path e) = (A ++ [x]) ++ sfx ->
  at_path (map SegS sp) e = false /\ on_path_load (map SegS sp) e = false.
Proof.
  intros -> Hxy Hp. unfold at_path, on_path_load. rewrite path_strs_SegS, Hp.
  rewrite <- app_assoc. cbn [app]. rewrite strs_eqb_cancel, strs_prefixb_cancel. cbn. rewrite Hxy. cbn.
  split; apply andb_false_r.
Qed.

Lemma split_at_none sp t : Forall (fun e => at_path sp e = false) t -> split_at sp t = (t, []).
Proof.
  induction 1 as [|e t He Ht IH]; [reflexivity|]. cbn. rewrite He, IH. reflexivity.
Qed.

Lemma start_spec_skip sp a b :
  Forall (fun e => at_path sp e = false /\ on_path_load sp e = false) a ->
  start_spec sp (a ++ b) = start_spec sp b.
Proof.
  unfold start_spec. induction 1 as [|e a [H1 H2] Ha IH]; [reflexivity|].
  cbn [app split_at]. rewrite H1.
  destruct (split_at sp (a ++ b)) as [x y]. destruct (split_at sp b) as [x' y'].
  cbn [filter]. rewrite H2. exact IH.
Qed.

Lemma start_spec_app sp a b :
  Exists (fun e => at_path sp e = true) a -> start_spec sp (a ++ b) = start_spec sp a ++ b.
Proof.
  unfold start_spec. induction a as [|e a IH]; intros H; [inversion H|].
  cbn [app split_at]. destruct (at_path sp e) eqn:E.
  - reflexivity.
  - inversion H as [? ? H1|? ? H1]; subst; [congruence|].
    specialize (IH H1).
    destruct (split_at sp (a ++ b)) as [x y]. destruct (split_at sp a) as [x' y'].
    cbn [filter]. destruct (on_path_load sp e); cbn [app]; rewrite IH; reflexivity.
Qed.

Section Start.
  Variable q : quirks.
  Variable g : list (bytes * dm).
  Variable sp : list bytes.
  Let SP := map SegS sp.
  Let C := start_ctl sp.

  Definition pastok (past : bool) (P : list seg) : Prop := past = true \/ (length sp <= length P)%nat.

  Lemma vis_cond_false past P : pastok past P ->
    (negb past && Nat.ltb (length P) (length (c_start C)))%bool = false.
  Proof.
    intros [->|H]; [reflexivity|]. cbn [c_start C start_ctl]. rewrite map_length.
    destruct (Nat.ltb_spec (length P) (length sp)); [lia|]. apply andb_false_r.
  Qed.

  Lemma start_decide_past P ps past reached : pastok past P \/ reached = true ->
    exists past' reached', start_decide C P ps past reached = (past', reached', true) /\ pastok past' P.
  Proof.
    intros H. unfold start_decide.
    destruct (c_start C) eqn:Ec.
    { eexists _, _; split; [reflexivity|]. right. cbn [C start_ctl c_start] in Ec.
      apply (f_equal (@length _)) in Ec. rewrite map_length in Ec. cbn in Ec. lia. }
    rewrite <- Ec.
    destruct reached; [exists true, true; split; [reflexivity|left; reflexivity]|].
    destruct H as [H|H]; [|discriminate].
    rewrite (vis_cond_false past P H). eexists _, _; split; [reflexivity|exact H].
  Qed.

  Definition past_form (f : nat) : Prop :=
    forall seen past ls P n s, pastok past P ->
      cwalk q C g f (nst seen) past ls P n s = lift (walk q g f ls P n s) (nst seen).

  Lemma step_past f (IH : past_form f) seen past ls P n s k : pastok past P ->
    cexplore_step q C g (cwalk q C g f) ls P n s (nst seen) past k
    = lift (explore_step q g (walk q g f) ls P n s k) (nst seen).
  Proof.
    intros Hp. unfold cexplore_step, explore_step.
    destruct (explore q s n (fst k)) as [[s'|]| |]; try reflexivity.
    assert (Hp' : pastok past (P ++ [fst k])).
    { destruct Hp as [->|H]; [left; reflexivity|right]. rewrite app_length. lia. }
    destruct (snd k); try (apply IH; exact Hp').
    cbn [c_once C start_ctl andb c_skip mem_bytes]. unfold check_link; cbn [w_budget nst].
    destruct (assoc c g) as [b|]; [|reflexivity].
    fold (nst seen). rewrite (IH seen past (c :: ls) (P ++ [fst k]) b s' Hp').
    destruct (walk q g f (c :: ls) (P ++ [fst k]) b s') as [e o]. reflexivity.
  Qed.

  Lemma loop_past f (IH : past_form f) ls P n s : forall ks seen past reached, pastok past P \/ reached = true ->
    cloop C (cexplore_step q C g (cwalk q C g f) ls P n s) P ks (nst seen) past reached
    = lift (seqk (explore_step q g (walk q g f) ls P n s) ks) (nst seen).
  Proof.
    induction ks as [|k r IHr]; intros seen past reached Hp; [reflexivity|].
    cbn [cloop]. destruct (start_decide_past P (fst k) past reached Hp) as (p' & r' & -> & Hp').
    rewrite (step_past f IH seen p' ls P n s k Hp'). rewrite seqk_cons.
    destruct (explore_step q g (walk q g f) ls P n s k) as [e o]. unfold lift at 1; cbn [fst snd].
    destruct o; try reflexivity.
    rewrite (IHr seen p' r' (or_introl Hp')).
    destruct (seqk (explore_step q g (walk q g f) ls P n s) r) as [e' o']. reflexivity.
  Qed.

  Theorem past_closed_form : forall f, past_form f.
  Proof.
    induction f as [|f IH]; intros seen past ls P n s Hp; [reflexivity|].
    rewrite cwalk_S, walk_S. unfold check_node; cbn [w_budget nst].
    rewrite (vis_cond_false past P Hp).
    destruct (is_container n); [|reflexivity].
    fold (nst seen). rewrite (loop_past f IH ls P n s _ seen past false (or_introl Hp)).
    destruct (seqk (explore_step q g (walk q g f) ls P n s) (children q n s)) as [e o]. reflexivity.
  Qed.

  (* ---- the part before the start path is reached *)
  Definition start_form (f : nat) : Prop :=
    forall seen ls P n s t rest,
      walk q g f ls P n s = (t, OOk) -> walk_distinct q g f n s = true ->
      sp = path_strs P ++ rest ->
      Exists (fun e => at_path SP e = true) t ->
      cwalk q C g f (nst seen) false ls P n s = (start_spec SP t, OOk, nst seen).

  (* the per-child condition of walk_distinct *)
  Definition kid_distinct (f : nat) (n : dm) (s : sel) (k : seg * dm) : bool :=
    match explore q s n (fst k) with
    | XOk (Some s') =>
        match snd k with
        | DLink c => match assoc c g with Some b => walk_distinct q g f b s' | None => true end
        | v => walk_distinct q g f v s'
        end
    | _ => true
    end.

  Lemma step_start f (IH : start_form f) seen ls P n s k t y rest :
    explore_step q g (walk q g f) ls P n s k = (t, OOk) ->
    kid_distinct f n s k = true ->
    sp = path_strs P ++ y :: rest -> seg_string (fst k) = y ->
    Exists (fun e => at_path SP e = true) t ->
    cexplore_step q C g (cwalk q C g f) ls P n s (nst seen) false k = (start_spec SP t, OOk, nst seen).
  Proof.
    intros Hk Hd Hsp Hy Hex. unfold explore_step in Hk. unfold cexplore_step. unfold kid_distinct in Hd.
    destruct (explore q s n (fst k)) as [[s'|]| |]; try discriminate.
    2:{ inversion Hk; subst. inversion Hex. }
    assert (Hsp' : sp = path_strs (P ++ [fst k]) ++ rest).
    { rewrite path_strs_app. cbn. rewrite Hy, <- app_assoc. exact Hsp. }
    destruct (snd k) eqn:Ek; try (apply (IH seen ls (P ++ [fst k]) _ s' t rest Hk Hd Hsp' Hex)).
    cbn [c_once C start_ctl andb c_skip mem_bytes]. unfold check_link; cbn [w_budget nst].
    destruct (assoc c g) as [b|]; [|discriminate].
    destruct (walk q g f (c :: ls) (P ++ [fst k]) b s') as [e o] eqn:Ew.
    inversion Hk; subst. clear Hk.
    assert (Hex' : Exists (fun e => at_path SP e = true) e).
    { inversion Hex as [? ? H1|? ? H1]; subst; [discriminate H1|exact H1]. }
    fold (nst seen). rewrite (IH seen (c :: ls) (P ++ [fst k]) b s' e rest Ew Hd Hsp' Hex').
    unfold start_spec. cbn [split_at]. change (at_path SP (ELoad (P ++ [fst k]) c ls)) with false.
    destruct (split_at SP e) as [x z]. cbn [filter].
    replace (on_path_load SP (ELoad (P ++ [fst k]) c ls)) with true; [reflexivity|].
    unfold on_path_load, SP. rewrite path_strs_SegS. cbn [is_load ev_path andb].
    symmetry. rewrite Hsp' at 1. apply strs_prefixb_app.
  Qed.

  Lemma start_decide_before P ps y rest : sp = path_strs P ++ y :: rest ->
    start_decide C P ps false false
    = if bytes_eqb (seg_string ps) y then (false, true, true) else (false, false, false).
  Proof.
    intros Hsp. unfold start_decide.
    assert (Hlen : (length P < length sp)%nat).
    { rewrite Hsp, app_length. unfold path_strs. rewrite map_length. cbn. lia. }
    assert (Hnth : nth_error (c_start C) (length P) = Some (SegS y)).
    { cbn [c_start C start_ctl]. rewrite Hsp. rewrite map_app. rewrite nth_error_app2.
      - unfold path_strs. rewrite !map_length, Nat.sub_diag. reflexivity.
      - unfold path_strs. rewrite !map_length. lia. }
    assert (Hc : (negb false && Nat.ltb (length P) (length (c_start C)))%bool = true).
    { cbn [c_start C start_ctl negb andb]. rewrite map_length. apply Nat.ltb_lt. exact Hlen. }
    assert (Hne : c_start C <> []).
    { cbn [C start_ctl c_start]. intros Ec. apply (f_equal (@length _)) in Ec. rewrite map_length in Ec.
      cbn in Ec. lia. }
    destruct (c_start C); [congruence|].
    rewrite Hc, Hnth, seg_equals_SegS. destruct (bytes_eqb (seg_string ps) y); reflexivity.
  Qed.

  Lemma loop_start f (IH : start_form f) (IHp : past_form f) seen ls P n s y rest :
    sp = path_strs P ++ y :: rest ->
    forall ks t,
      seqk (explore_step q g (walk q g f) ls P n s) ks = (t, OOk) ->
      nodup_strs (kid_strs ks) = true ->
      forallb (kid_distinct f n s) ks = true ->
      Exists (fun e => at_path SP e = true) t ->
      cloop C (cexplore_step q C g (cwalk q C g f) ls P n s) P ks (nst seen) false false
      = (start_spec SP t, OOk, nst seen).
  Proof.
    intros Hsp. induction ks as [|k r IHr]; intros t Hs Hnd Hkd Hex.
    - inversion Hs; subst. inversion Hex.
    - apply seqk_ok_inv in Hs. destruct Hs as (e & e' & Hk & Hr & ->).
      cbn [kid_strs map nodup_strs] in Hnd. apply andb_true_iff in Hnd. destruct Hnd as [Hnm Hnd].
      cbn [forallb] in Hkd. apply andb_true_iff in Hkd. destruct Hkd as [Hkd1 Hkd].
      cbn [cloop]. rewrite (start_decide_before P (fst k) y rest Hsp).
      destruct (bytes_eqb (seg_string (fst k)) y) eqn:Eq.
      + (* the child on the start path: explored with PastStartAtPath still false; all later siblings
           are walked in full *)
        apply beqb_eq in Eq.
        assert (He' : Forall (fun a => at_path SP a = false) e').
        { clear - Hr Hnm Hsp Eq.
          revert e' Hr. induction r as [|k' r IH]; intros e' Hr.
          - inversion Hr; constructor.
          - apply seqk_ok_inv in Hr. destruct Hr as (a & a' & Hk' & Hr' & ->).
            cbn [kid_strs map mem_bytes] in Hnm. apply negb_true_iff in Hnm.
            apply orb_false_iff in Hnm. destruct Hnm as [Hne Hnm].
            apply Forall_app. split.
            + pose proof (step_path_prefix q g f ls P n s k') as Hpp. rewrite Hk' in Hpp. cbn [fst] in Hpp.
              eapply Forall_impl; [|exact Hpp]. intros x [sfx Hq].
              refine (proj1 (off_path sp (path_strs P) (seg_string (fst k')) y rest x (path_strs sfx) Hsp _ _)).
              * rewrite <- Eq. destruct (bytes_eqb (seg_string (fst k')) (seg_string (fst k))) eqn:E; [|reflexivity].
                apply beqb_eq in E. rewrite E, beqb_refl in Hne. discriminate.
              * rewrite Hq, !path_strs_app. reflexivity.
            + apply IH; [|exact Hr']. apply negb_true_iff. exact Hnm. }
        assert (Hexe : Exists (fun a => at_path SP a = true) e).
        { apply Exists_app in Hex. destruct Hex as [H|H]; [exact H|].
          apply Exists_exists in H. destruct H as (x & Hin & Hx).
          rewrite Forall_forall in He'. rewrite (He' x Hin) in Hx. discriminate. }
        rewrite (step_start f IH seen ls P n s k e y rest Hk Hkd1 Hsp Eq Hexe).
        rewrite (loop_past f IHp ls P n s r seen false true (or_intror eq_refl)).
        rewrite Hr. unfold lift; cbn [fst snd]. rewrite start_spec_app by exact Hexe. reflexivity.
      + (* a sibling before the start path: skipped entirely *)
        assert (Hoff : Forall (fun a => at_path SP a = false /\ on_path_load SP a = false) e).
        { pose proof (step_path_prefix q g f ls P n s k) as Hpp. rewrite Hk in Hpp. cbn [fst] in Hpp.
          eapply Forall_impl; [|exact Hpp]. intros x [sfx Hq].
          apply (off_path sp (path_strs P) (seg_string (fst k)) y rest x (path_strs sfx) Hsp Eq).
          rewrite Hq, !path_strs_app. reflexivity. }
        rewrite start_spec_skip by exact Hoff.
        apply IHr; auto.
        apply Exists_app in Hex. destruct Hex as [H|H]; [|exact H].
        apply Exists_exists in H. destruct H as (x & Hin & Hx).
        rewrite Forall_forall in Hoff. destruct (Hoff x Hin) as [H1 _]. rewrite H1 in Hx. discriminate.
  Qed.

  Theorem start_closed_form : forall f, start_form f.
  Proof.
    induction f as [|f IH]; intros seen ls P n s t rest Hw Hd Hsp Hex; [discriminate|].
    destruct rest as [|y rest].
    - (* the start path has been reached: from here on the walk is unrestricted *)
      rewrite app_nil_r in Hsp.
      rewrite (past_closed_form (S f) seen false ls P n s).
      2:{ right. rewrite Hsp. unfold path_strs. rewrite map_length. lia. }
      rewrite Hw. unfold lift; cbn [fst snd]. f_equal. f_equal.
      rewrite walk_S in Hw.
      assert (Hhd : exists r, t = visit_event P n s ls :: r).
      { destruct (is_container n).
        - destruct (seqk (explore_step q g (walk q g f) ls P n s) (children q n s)) as [e o].
          inversion Hw; eauto.
        - inversion Hw; eauto. }
      destruct Hhd as [r ->]. unfold start_spec. cbn [split_at].
      replace (at_path SP (visit_event P n s ls)) with true; [reflexivity|].
      unfold at_path, SP. rewrite visit_event_is_visit, visit_event_path, path_strs_SegS, Hsp.
      symmetry. apply strs_eqb_refl.
    - rewrite walk_S in Hw. rewrite cwalk_S. unfold check_node; cbn [w_budget nst].
      assert (Hlen : (length P < length sp)%nat).
      { rewrite Hsp, app_length. unfold path_strs. rewrite map_length. cbn. lia. }
      replace (negb false && Nat.ltb (length P) (length (c_start C)))%bool with true.
      2:{ cbn [c_start C start_ctl negb andb]. rewrite map_length. symmetry. apply Nat.ltb_lt. exact Hlen. }
      assert (Hnv : at_path SP (visit_event P n s ls) = false /\ on_path_load SP (visit_event P n s ls) = false).
      { unfold at_path, on_path_load, SP. rewrite path_strs_SegS, visit_event_path.
        split.
        - destruct (strs_eqb (path_strs P) sp) eqn:E; [|apply andb_false_r].
          apply strs_eqb_length in E. unfold path_strs in E. rewrite map_length in E. lia.
        - unfold visit_event. destruct (match_sel s n); reflexivity. }
      cbn [walk_distinct] in Hd.
      destruct (is_container n).
      + destruct (seqk (explore_step q g (walk q g f) ls P n s) (children q n s)) as [e o] eqn:Es.
        inversion Hw; subst. clear Hw.
        apply andb_true_iff in Hd. destruct Hd as [Hnd Hkd].
        fold (nst seen).
        rewrite (loop_start f IH (past_closed_form f) seen ls P n s y rest Hsp (children q n s) e Es Hnd Hkd).
        * cbn [app]. change (visit_event P n s ls :: e) with ([visit_event P n s ls] ++ e).
          rewrite start_spec_skip; [reflexivity|]. constructor; [exact Hnv|constructor].
        * inversion Hex as [? ? H1|? ? H1]; subst; [|exact H1].
          destruct Hnv as [Hn _]. rewrite Hn in H1. discriminate.
      + inversion Hw; subst. inversion Hex as [? ? H1|? ? H1]; subst.
        * destruct Hnv as [Hn _]. rewrite Hn in H1. discriminate.
        * inversion H1.
  Qed.
End Start.

(* ------------------------------------------------------------------ whole runs *)

Theorem start_run q g sp f root s t :
  walk_adv q g f root s = (t, OOk) -> walk_distinct q g f root s = true ->
  Exists (fun e => at_path (map SegS sp) e = true) t ->
  cwalk_adv q (start_ctl sp) g f None root s = (start_spec (map SegS sp) t, OOk).
Proof.
  intros H Hd Hex. unfold cwalk_adv. change {| w_budget := None; w_seen := [] |} with (nst []).
  rewrite (start_closed_form q g sp f [] [] [] root s t sp H Hd eq_refl Hex). reflexivity.
Qed.

(* with every control off the controlled walk is the walk of Walk.v *)
Theorem controls_off q g f root s : cwalk_adv q no_ctl g f None root s = walk_adv q g f root s.
Proof.
  unfold cwalk_adv, walk_adv. change {| w_budget := None; w_seen := [] |} with (nst []).
  change no_ctl with (start_ctl []).
  rewrite (past_closed_form q g [] f [] false [] [] root s); [|right; cbn; lia].
  unfold lift. destruct (walk q g f [] [] root s); reflexivity.
Qed.

(* what start_spec means: the trace splits at the first visit of the start path; the visits of the restricted
   walk are exactly the visits of the second part; its loads are the on-path loads of the first part
   followed by the loads of the second part *)
Lemma split_at_spec sp t :
  let '(b, a) := split_at sp t in
  t = b ++ a /\ Forall (fun e => at_path sp e = false) b /\
  match a with [] => True | e :: _ => at_path sp e = true end.
Proof.
  induction t as [|e t IH]; cbn; [repeat split; constructor|].
  destruct (at_path sp e) eqn:E.
  - repeat split; [constructor|exact E].
  - destruct (split_at sp t) as [b a]. destruct IH as (-> & Hb & Ha). repeat split; auto.
Qed.

Lemma start_spec_visits sp t : visits (start_spec sp t) = visits (snd (split_at sp t)).
Proof.
  unfold start_spec. destruct (split_at sp t) as [b a]. cbn [snd]. unfold visits. rewrite filter_app.
  replace (filter is_visit (filter (on_path_load sp) b)) with (@nil event); [reflexivity|].
  induction b as [|e b IH]; [reflexivity|]. cbn. unfold on_path_load at 1.
  destruct e; cbn; [exact IH|]. destruct (strs_prefixb _ _); cbn; exact IH.
Qed.

Lemma start_spec_loads sp t :
  loads (start_spec sp t) = filter (on_path_load sp) (fst (split_at sp t)) ++ loads (snd (split_at sp t)).
Proof.
  unfold start_spec. destruct (split_at sp t) as [b a]. cbn [fst snd]. unfold loads. rewrite filter_app.
  f_equal. induction b as [|e b IH]; [reflexivity|]. cbn. unfold on_path_load at 1 3.
  destruct e; cbn; [exact IH|]. destruct (strs_prefixb _ _); cbn; [f_equal|]; exact IH.
Qed.
