(* Proofs/NodeEq.v — datamodel.DeepEqual is Go-equality of abstract values; datamodel.Copy reproduces
   the abstract value in any builder that can hold it. *)
Require Import IP.Base.Bytes IP.DM.Value IP.Node.Basic IP.Node.Protocol
  IP.Proofs.NodeBuild IP.Proofs.NodeRoot IP.Proofs.NodeRead.
Open Scope N_scope.

(* ------------------------------------------------------------------ DeepEqual *)

(* the inline loops of deep_equal / dm_goeq as the named combinators *)
Lemma de_list_loop : forall q xs ys,
  (fix go (xs ys : list node) : rres bool :=
     match xs, ys with
     | a :: xs', b :: ys' => and_r (deep_equal q a b) (go xs' ys')
     | _, _ => ROk true
     end) xs ys = zip_r (deep_equal q) xs ys.
Proof. induction xs; destruct ys; simpl; auto. rewrite IHxs. reflexivity. Qed.

Lemma de_map_loop : forall q xs ys,
  (fix go (xs : list (bytes * node)) (ys : list (node * node)) : rres bool :=
     match xs, ys with
     | (k, a) :: xs', (kn, b) :: ys' => and_r (key_eq k kn) (and_r (deep_equal q a b) (go xs' ys'))
     | _, _ => ROk true
     end) xs ys = zip_kv (deep_equal q) xs ys.
Proof. induction xs as [|[k a] xs]; destruct ys as [|[kn b] ys]; simpl; auto. rewrite IHxs. reflexivity. Qed.

Lemma goeq_list_loop : forall x y,
  (fix go (x y : list dm) : bool :=
     match x, y with
     | a :: x', b :: y' => dm_goeq a b && go x' y'
     | _, _ => true
     end) x y = zip_b dm_goeq x y.
Proof. induction x; destruct y; simpl; auto. rewrite IHx. reflexivity. Qed.

Lemma goeq_map_loop : forall x y,
  (fix go (x y : list (bytes * dm)) : bool :=
     match x, y with
     | (k, a) :: x', (k', b) :: y' => bytes_eqb k k' && (dm_goeq a b && go x' y')
     | _, _ => true
     end) x y = zip_kvb dm_goeq x y.
Proof. induction x as [|[k a] x]; destruct y as [|[k' b] y]; simpl; auto. rewrite IHx. reflexivity. Qed.

Lemma goeq_list : forall x y,
  dm_goeq (DList x) (DList y) = Nat.eqb (length x) (length y) && zip_b dm_goeq x y.
Proof. intros. simpl. rewrite goeq_list_loop. reflexivity. Qed.

Lemma goeq_map : forall x y,
  dm_goeq (DMap x) (DMap y) = Nat.eqb (length x) (length y) && zip_kvb dm_goeq x y.
Proof. intros. simpl. rewrite goeq_map_loop. reflexivity. Qed.

(* where the comparison is total: repaired tree, or no int above MaxInt64 on either side *)
Definition eq_total (q : quirks) (x y : node) : Prop :=
  q_eq_asint q = false \/ (nobig x = true /\ nobig y = true).

Lemma eq_total_list : forall q a xs b ys,
  eq_total q (NList (a :: xs)) (NList (b :: ys)) -> eq_total q a b /\ eq_total q (NList xs) (NList ys).
Proof.
  intros q a xs b ys [H|[H1 H2]]; [split; left; auto|].
  simpl in H1, H2. apply andb_true_iff in H1, H2. destruct H1, H2. split; right; auto.
Qed.

Definition DE (q : quirks) (x : node) : Prop :=
  forall y, eq_total q x y -> deep_equal q x y = ROk (dm_goeq (abs x) (abs y)).

Lemma zip_lists : forall q xs, Forall (DE q) xs -> forall ys,
  (q_eq_asint q = false \/ (forallb nobig xs = true /\ forallb nobig ys = true)) ->
  zip_r (deep_equal q) xs ys = ROk (zip_b dm_goeq (map abs xs) (map abs ys)).
Proof.
  induction 1 as [|a xs Ha Hxs IH]; intros ys Hq; destruct ys as [|b ys]; simpl; auto.
  assert (Hab : eq_total q a b /\ (q_eq_asint q = false \/ (forallb nobig xs = true /\ forallb nobig ys = true))).
  { destruct Hq as [Hq|[H1 H2]]; [split; left; auto|].
    simpl in H1, H2. apply andb_true_iff in H1, H2. destruct H1, H2. split; right; auto. }
  destruct Hab as [Hab Hrest]. rewrite (Ha b Hab). rewrite (IH ys Hrest).
  destruct (dm_goeq (abs a) (abs b)); reflexivity.
Qed.

Lemma zip_maps : forall q xt, Forall (fun kv => DE q (snd kv)) xt -> forall yt : list (bytes * node),
  (q_eq_asint q = false \/
   (forallb (fun kv => nobig (snd kv)) xt = true /\ forallb (fun kv => nobig (snd kv)) yt = true)) ->
  zip_kv (deep_equal q) xt (map (fun kv => (NString (fst kv), snd kv)) yt) =
  ROk (zip_kvb dm_goeq (map absent xt) (map absent yt)).
Proof.
  induction 1 as [|[k a] xt Ha Hxs IH]; intros yt Hq; destruct yt as [|[k' b] yt]; simpl; auto.
  assert (Hab : eq_total q a b /\ (q_eq_asint q = false \/
     (forallb (fun kv => nobig (snd kv)) xt = true /\ forallb (fun kv => nobig (snd kv)) yt = true))).
  { destruct Hq as [Hq|[H1 H2]]; [split; left; auto|].
    simpl in H1, H2. apply andb_true_iff in H1, H2. destruct H1, H2. split; right; auto. }
  destruct Hab as [Hab Hrest]. simpl in Ha. rewrite (Ha b Hab). rewrite (IH yt Hrest).
  unfold key_eq. simpl.
  destruct (bytes_eqb k k'); simpl; auto. destruct (dm_goeq (abs a) (abs b)); reflexivity.
Qed.

Lemma len_eqb : forall a b : nat, Z.eqb (Z.of_nat a) (Z.of_nat b) = Nat.eqb a b.
Proof.
  intros. destruct (Nat.eqb a b) eqn:E.
  - apply Nat.eqb_eq in E. subst. apply Z.eqb_refl.
  - apply Nat.eqb_neq in E. apply Z.eqb_neq. lia.
Qed.

Lemma nobig_children_l : forall q x y xs ys,
  eq_total q x y -> nobig x = forallb nobig xs -> nobig y = forallb nobig ys ->
  q_eq_asint q = false \/ (forallb nobig xs = true /\ forallb nobig ys = true).
Proof. intros q x y xs ys [H|[H1 H2]] Hx Hy; [left; auto|right; split; congruence]. Qed.

Lemma nobig_children_m : forall q x y (xs ys : list (bytes * node)),
  eq_total q x y -> nobig x = forallb (fun kv => nobig (snd kv)) xs ->
  nobig y = forallb (fun kv => nobig (snd kv)) ys ->
  q_eq_asint q = false \/
  (forallb (fun kv => nobig (snd kv)) xs = true /\ forallb (fun kv => nobig (snd kv)) ys = true).
Proof. intros q x y xs ys [H|[H1 H2]] Hx Hy; [left; auto|right; split; congruence]. Qed.

Lemma de_list_case : forall q xs x y,
  (x = NList xs \/ x = NFList xs) -> Forall (DE q) xs -> eq_total q x y ->
  deep_equal q x y = ROk (dm_goeq (abs x) (abs y)).
Proof.
  intros q xs x y Hx HF Ht.
  assert (Hd : deep_equal q x y =
    if negb (kind_eqb KList (kind_of y)) then ROk false else
    match list_entries y with
    | None => RPanic
    | Some ys => if negb (Z.eqb (Z.of_nat (length xs)) (length_of y)) then ROk false
                 else zip_r (deep_equal q) xs ys
    end).
  { destruct Hx; subst x; simpl; destruct (list_entries y) as [ys|]; try rewrite de_list_loop; reflexivity. }
  rewrite Hd. clear Hd.
  assert (Ha : abs x = DList (map abs xs)) by (destruct Hx; subst x; reflexivity).
  assert (Hn : nobig x = forallb nobig xs) by (destruct Hx; subst x; reflexivity).
  rewrite Ha.
  destruct y; try reflexivity.
  - simpl. rewrite goeq_list_loop, !map_length, len_eqb.
    destruct (Nat.eqb (length xs) (length x0)); simpl; auto.
    apply zip_lists; auto. apply (nobig_children_l q x (NList x0)); auto.
  - simpl. rewrite goeq_list_loop, !map_length, len_eqb.
    destruct (Nat.eqb (length xs) (length x0)); simpl; auto.
    apply zip_lists; auto. apply (nobig_children_l q x (NFList x0)); auto.
Qed.

Lemma de_map_case : forall q xt x y,
  (exists m, x = NMap xt m) \/ x = NFMap xt -> Forall (fun kv => DE q (snd kv)) xt -> eq_total q x y ->
  deep_equal q x y = ROk (dm_goeq (abs x) (abs y)).
Proof.
  intros q xt x y Hx HF Ht.
  assert (Hd : deep_equal q x y =
    if negb (kind_eqb KMap (kind_of y)) then ROk false else
    match map_entries y with
    | None => RPanic
    | Some ys => if negb (Z.eqb (Z.of_nat (length xt)) (length_of y)) then ROk false
                 else zip_kv (deep_equal q) xt ys
    end).
  { destruct Hx as [[m Hx]|Hx]; subst x; simpl; destruct (map_entries y) as [ys|]; try rewrite de_map_loop; reflexivity. }
  rewrite Hd. clear Hd.
  assert (Ha : abs x = DMap (map absent xt)) by (destruct Hx as [[m Hx]|Hx]; subst x; reflexivity).
  assert (Hn : nobig x = forallb (fun kv => nobig (snd kv)) xt) by (destruct Hx as [[m Hx]|Hx]; subst x; reflexivity).
  rewrite Ha.
  destruct y; try reflexivity.
  - simpl. rewrite goeq_map_loop, !map_length, len_eqb.
    destruct (Nat.eqb (length xt) (length t)); simpl; auto.
    apply (zip_maps q xt HF t). apply (nobig_children_m q x (NMap t m)); auto.
  - simpl. rewrite goeq_map_loop, !map_length, len_eqb.
    destruct (Nat.eqb (length xt) (length t)); simpl; auto.
    apply (zip_maps q xt HF t). apply (nobig_children_m q x (NFMap t)); auto.
Qed.

Theorem deep_equal_spec : forall q x, DE q x.
Proof.
  intros q. induction x using node_ind2; intros y Ht.
  10: { apply (de_list_case q x); auto. }
  10: { apply (de_map_case q t); auto. left. eauto. }
  10: { apply (de_list_case q x); auto. }
  10: { apply (de_map_case q t); auto. }
  all: destruct y; try reflexivity.
  all: try (simpl; unfold scalar_equal; simpl; destruct (q_eq_asint q) eqn:Eq; try reflexivity;
            destruct Ht as [Hq|[H1 H2]]; [congruence|]; simpl in H1, H2; try rewrite H1; try rewrite H2; reflexivity).
  all: simpl; unfold scalar_equal; simpl; destruct (q_eq_asint q); reflexivity.
Qed.

(* ------------------------------------------------------------------ Copy *)

Lemma copy_list_body : forall xs, Forall wf xs ->
  ListBody AScript (map abs xs) (map ok (flat_map (fun v => [AssembleValue; AssignNode v]) xs ++ [Finish])).
Proof.
  induction 1; simpl.
  - constructor.
  - apply (LB_value AScript (abs x) (map abs l) [ok (AssignNode x)]); auto. constructor. auto.
Qed.

Lemma copy_map_body : forall t ks,
  NoDup (map fst t) -> (forall k, In k (map fst t) -> ~ In k ks) -> Forall (fun kv => wf (snd kv)) t ->
  MapBody AScript ks (map absent t)
    (map ok (flat_map (fun kv : node * node => [AssembleKey; AssignNode (fst kv); AssembleValue; AssignNode (snd kv)])
                      (map (fun kv => (NString (fst kv), snd kv)) t) ++ [Finish])).
Proof.
  induction t as [|[k v] t]; intros ks Hnd Hdis Hwf; simpl.
  - constructor.
  - inversion Hnd; subst. inversion Hwf; subst. simpl in *.
    apply (MB_key AScript ks k (abs v) (map absent t) [] (AssignNode (NString k)) [ok (AssignNode v)]).
    + apply Hdis. auto.
    + constructor.
    + constructor. reflexivity.
    + constructor. auto.
    + apply IHt; auto. intros k0 Hin [E|Hk]; [subst; contradiction|]. apply (Hdis k0); auto.
Qed.

(* the calls Copy makes form a legal script for the node's abstract value *)
Lemma copy_script_legal : forall q n,
  wf n -> (q_copy_asint q = false \/ forall z, n = NUint z -> (z < two63z)%Z) ->
  exists ops, copy_script q n = Ok ops /\ AScript (abs n) (map ok ops).
Proof.
  intros q n Hw Hu. destruct n; unfold copy_script; simpl.
  all: try (eexists; split; [reflexivity|]; simpl; constructor; fail).
  - (* NInt *) destruct (q_copy_asint q); eexists; (split; [reflexivity|]); simpl; constructor.
  - (* NUint *)
    destruct (q_copy_asint q) eqn:Eq.
    + destruct Hu as [Hu|Hu]; [discriminate|]. specialize (Hu z eq_refl).
      apply Z.ltb_lt in Hu. rewrite Hu. eexists. split; [reflexivity|]. simpl. constructor.
    + destruct (z <? two63z)%Z; eexists; (split; [reflexivity|]); simpl.
      * constructor.
      * apply (AS_node (NUint z)). auto.
  - (* NList *) inversion Hw; subst. eexists. split; [reflexivity|]. simpl map.
    constructor. apply copy_list_body. auto.
  - (* NMap *) inversion Hw; subst. eexists. split; [reflexivity|]. simpl map.
    constructor. apply copy_map_body; auto.
  - (* NFList *) inversion Hw; subst. eexists. split; [reflexivity|]. simpl map.
    constructor. apply copy_list_body. auto.
  - (* NFMap *) inversion Hw; subst. eexists. split; [reflexivity|]. simpl map.
    constructor. apply copy_map_body; auto.
Qed.

(* Copy into Prototype.Any reproduces the value *)
Theorem copy_any : forall q n,
  wf n -> (q_copy_asint q = false \/ forall z, n = NUint z -> (z < two63z)%Z) ->
  exists n', copy q PAny n = ROk n' /\ abs n' = abs n /\ wf n'.
Proof.
  intros q n Hw Hu.
  destruct (copy_script_legal q n Hw Hu) as (ops & Hc & Hs).
  destruct (ascript_run q PAny (abs n) (map ok ops) (AP_any q _ _ Hs)) as (n' & Hr & Hn & Hw').
  exists n'. split; auto. unfold copy. rewrite Hc.
  rewrite !map_map in Hr. simpl in Hr. rewrite map_id in Hr.
  rewrite (run_tol_steps q ops (init PAny) (SDone PAny n')); auto.
Qed.

(* Copy of a map into Prototype.Map, of a list into Prototype.List *)
Lemma copy_script_map : forall q n, wf n -> kind_of n = KMap ->
  exists h body m', copy_script q n = Ok (BeginMap h :: body) /\ abs n = DMap m' /\
                    MapBody AScript [] m' (map ok body).
Proof.
  intros q n Hw Hk. destruct n; simpl in Hk; try discriminate; inversion Hw; subst.
  - eexists. eexists. eexists. split; [reflexivity|]. split; [reflexivity|]. apply copy_map_body; auto.
  - eexists. eexists. eexists. split; [reflexivity|]. split; [reflexivity|]. apply copy_map_body; auto.
Qed.

Lemma copy_script_list : forall q n, wf n -> kind_of n = KList ->
  exists h body l', copy_script q n = Ok (BeginList h :: body) /\ abs n = DList l' /\
                    ListBody AScript l' (map ok body).
Proof.
  intros q n Hw Hk. destruct n; simpl in Hk; try discriminate; inversion Hw; subst.
  - eexists. eexists. eexists. split; [reflexivity|]. split; [reflexivity|]. apply copy_list_body; auto.
  - eexists. eexists. eexists. split; [reflexivity|]. split; [reflexivity|]. apply copy_list_body; auto.
Qed.

Theorem copy_map : forall q n,
  wf n -> kind_of n = KMap ->
  exists n', copy q PMap n = ROk n' /\ abs n' = abs n /\ wf n'.
Proof.
  intros q n Hw Hk.
  destruct (copy_script_map q n Hw Hk) as (h & body & m' & Hc & Ha & Hb).
  assert (Hp : AScriptP q PMap (abs n) (map ok (BeginMap h :: body))).
  { rewrite Ha. apply (AP_map_begin q [] h m' (map ok body)); auto. }
  destruct (ascript_run q PMap (abs n) _ Hp) as (n' & Hr & Hn & Hw').
  exists n'. split; auto. unfold copy. rewrite Hc.
  rewrite !map_map in Hr. simpl in Hr. rewrite map_id in Hr.
  rewrite (run_tol_steps q _ (init PMap) (SDone PMap n')); auto.
Qed.

Theorem copy_list : forall q n,
  wf n -> kind_of n = KList ->
  exists n', copy q PList n = ROk n' /\ abs n' = abs n /\ wf n'.
Proof.
  intros q n Hw Hk.
  destruct (copy_script_list q n Hw Hk) as (h & body & l' & Hc & Ha & Hb).
  assert (Hp : AScriptP q PList (abs n) (map ok (BeginList h :: body))).
  { rewrite Ha. apply (AP_list_begin q [] h l' (map ok body)); auto. }
  destruct (ascript_run q PList (abs n) _ Hp) as (n' & Hr & Hn & Hw').
  exists n'. split; auto. unfold copy. rewrite Hc.
  rewrite !map_map in Hr. simpl in Hr. rewrite map_id in Hr.
  rewrite (run_tol_steps q _ (init PList) (SDone PList n')); auto.
Qed.

(* the pinned tree: Copy of an int above MaxInt64 fails, DeepEqual on it panics *)
Lemma copy_uint_refuted : exists n, wf n /\ copy pinned PAny n = RErr EOther.
Proof. exists (NUint two63z). split; [constructor|reflexivity]. Qed.

Lemma deep_equal_uint_refuted : exists n, wf n /\ deep_equal pinned n n = RPanic.
Proof. exists (NUint two63z). split; [constructor|reflexivity]. Qed.

(* ------------------------------------------------------------------ the settled tree *)
(* Copy of an int node above MaxInt64 fails, for every builder, and that is the only failure *)
Lemma copy_uint_fails : forall p z, (two63z <= z)%Z -> copy settled p (NUint z) = RErr EOther.
Proof.
  intros p z Hz. unfold copy, copy_script. simpl.
  destruct (z <? two63z)%Z eqn:E; [apply Z.ltb_lt in E; lia|reflexivity].
Qed.

Lemma settled_equal : forall x y, deep_equal settled x y = ROk (dm_goeq (abs x) (abs y)).
Proof. intros. apply deep_equal_spec. left. reflexivity. Qed.

Lemma settled_copy : forall n, wf n -> (forall z, n = NUint z -> (z < two63z)%Z) ->
  exists n', copy settled PAny n = ROk n' /\ abs n' = abs n /\ wf n'.
Proof. intros n Hw Hu. apply copy_any; auto. Qed.
