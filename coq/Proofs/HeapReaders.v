(* Proofs/HeapReaders.v — which reader cell a call may store to.

   A reader the library handed out (AsLargeBytes) is a cell of its own; the ownership invariant of
   HeapLogic.v keeps it among the frozen cells "up to its position", which is too weak to say WHO may
   move it.  This file adds the missing ownership fact, for the repaired configuration
   (cf_stream_shared = false):

   - [nrw x p]: the store footprint of program [p], as a property of its text: every store of a READER
     value goes to a cell other than [x] (or to one [p] allocated itself).  Every call of the model
     other than Read/Seek on the reader [x] has this footprint ([prim_nrw]); Read/Seek on another
     handed-out reader has it in every state where that reader is a leaf ([reader_prim_untouched]).
   - [RInv]: every handed-out reader is a leaf reader (bytes.Reader or streamCursor: its Read/Seek
     stores to its own cell only); preserved by every Legal call ([rinv_step]).
   - a cell that is a reader before and after a run with footprint [nrw x] was not stored to at all
     ([nrw_untouched]); that it still is a reader is the ownership invariant (Ext).

   Together: along a Legal history nothing but a Read/Seek on the reader itself stores to its cell
   ([reader_untouched_step], [reader_independent]). *)
Require Import IP.Base.Bytes IP.DM.Value IP.Gen.FromGo IP.Heap.GoMem IP.Heap.BasicHeap.
Require Import IP.Proofs.HeapMem IP.Proofs.HeapLogic IP.Proofs.HeapSteps IP.Proofs.HeapOps IP.Proofs.HeapPrims IP.Proofs.HeapC11.
From Coq Require Import List Arith Bool Lia ZArith.
Import ListNotations.
Local Open Scope nat_scope.

(* ------------------------------------------------------------------ the reader-store footprint *)

Section Footprint.
  Variable x : addr.

  Inductive nrw {A} : mprog A -> Prop :=
  | nrw_ret : forall a, nrw (Ret a)
  | nrw_crash : nrw Crash
  | nrw_rd : forall a k, (forall c, nrw (k c)) -> nrw (Rd a k)
  | nrw_wr : forall a c k, (a <> x \/ forall r, c <> CRdr r) -> nrw k -> nrw (Wr a c k)
  | nrw_new : forall c k, (forall a, a <> x -> nrw (k a)) -> nrw (New c k).

  Lemma nrw_bind : forall A B (p : mprog A) (f : A -> mprog B), nrw p -> (forall a, nrw (f a)) -> nrw (pbind p f).
  Proof. induction 1; cbn; intros; auto; constructor; auto. Qed.

  Lemma wfree_nrw : forall A (p : mprog A), wfree p -> nrw p.
  Proof. induction 1; constructor; auto. Qed.

  (* [x] holds something that is not a reader *)
  Definition nonrdr (h : mheap) : Prop := exists c v, hgetv h x = Some (c, v) /\ forall r, c <> CRdr r.

  Lemma nrw_nonrdr : forall A (p : mprog A), nrw p -> forall ar h o h' l,
    run ar p h = (o, h', l) -> nonrdr h -> nonrdr h'.
  Proof.
    induction 1 as [a | | a k Hk IH | a c k Hc Hk IH | c k Hk IH]; cbn; intros ar h o h' l Hr Hn.
    - inversion Hr; subst; assumption.
    - inversion Hr; subst; assumption.
    - destruct (hget h a) as [c|]; [|inversion Hr; subst; assumption].
      destruct (run ar (k c) h) as [[o1 h1] l1] eqn:R. inversion Hr; subst. eapply IH; eauto.
    - destruct (hget h a) as [c0|] eqn:G; [|inversion Hr; subst; assumption].
      destruct (run ar k (hset h a c)) as [[o1 h1] l1] eqn:R. inversion Hr; subst. eapply IH; eauto.
      destruct Hn as (c1 & v1 & G1 & N1).
      destruct (addr_dec a x) as [->|Ne].
      + destruct Hc as [Hc|Hc]; [contradiction|]. exists c, (S v1). split; [eapply hgetv_hset_same; eauto | assumption].
      + exists c1, v1. split; [rewrite hgetv_hset_other by assumption; assumption | assumption].
    - destruct (halloc ar h c) as [h1 a] eqn:Ea. destruct (run ar (k a) h1) as [[o1 h2] l2] eqn:R. inversion Hr; subst.
      destruct Hn as (c1 & v1 & G1 & N1).
      assert (Ne : a <> x). { intros ->. destruct (hgetv_halloc_new _ _ _ _ _ _ Ea) as [_ Hn']. congruence. }
      eapply IH; eauto. exists c1, v1. split; [|assumption].
      erewrite hgetv_halloc_old; eauto.
  Qed.

  (* what a run does to the reader in [x]: nothing at all — same value, same write counter, no store in
     the log — or it replaced it by something that is not a reader *)
  Definition untouched {A} (p : mprog A) (ar : nat) (h : mheap) : Prop :=
    forall o h' l r0 v0, run ar p h = (o, h', l) -> hgetv h x = Some (CRdr r0, v0) ->
      (hgetv h' x = Some (CRdr r0, v0) /\ ~ In x (stores l)) \/ nonrdr h'.

  Lemma nrw_untouched : forall A (p : mprog A), nrw p -> forall ar h, untouched p ar h.
  Proof.
    unfold untouched.
    induction 1 as [a | | a k Hk IH | a c k Hc Hk IH | c k Hk IH]; cbn; intros ar h o h' l r0 v0 Hr Hx.
    - inversion Hr; subst. left. split; [assumption | intros []].
    - inversion Hr; subst. left. split; [assumption | intros []].
    - destruct (hget h a) as [c|].
      + destruct (run ar (k c) h) as [[o1 h1] l1] eqn:R. inversion Hr; subst. cbn. eapply IH; eauto.
      + inversion Hr; subst. left. split; [assumption | intros []].
    - destruct (hget h a) as [c0|] eqn:G.
      + destruct (run ar k (hset h a c)) as [[o1 h1] l1] eqn:R. inversion Hr; subst.
        destruct (addr_dec a x) as [->|Ne].
        * destruct Hc as [Hc|Hc]; [contradiction|]. right.
          eapply (nrw_nonrdr _ _ Hk); eauto. exists c, (S v0). split; [eapply hgetv_hset_same; eauto | assumption].
        * destruct (IH ar (hset h a c) _ _ _ r0 v0 R) as [[E N]|N].
          -- rewrite hgetv_hset_other by assumption. assumption.
          -- left. split; [assumption|]. cbn. intros [E'|E']; [contradiction | apply N; assumption].
          -- right. assumption.
      + inversion Hr; subst. left. split; [assumption|]. cbn. intros [E|[]]. subst a.
        apply hget_none in G. congruence.
    - destruct (halloc ar h c) as [h1 a] eqn:Ea. destruct (run ar (k a) h1) as [[o1 h2] l2] eqn:R. inversion Hr; subst.
      assert (Ne : a <> x). { intros ->. destruct (hgetv_halloc_new _ _ _ _ _ _ Ea) as [_ Hn']. congruence. }
      cbn. eapply IH; eauto. erewrite hgetv_halloc_old; eauto.
  Qed.

  (* a load of a cell whose content is known: only the continuation for that content matters *)
  Lemma untouched_rd : forall A a (k : mcell -> mprog A) ar h c,
    hget h a = Some c -> nrw (k c) -> untouched (Rd a k) ar h.
  Proof.
    intros A a k ar h c G Hk o h' l r0 v0 Hr Hx. cbn in Hr. rewrite G in Hr.
    destruct (run ar (k c) h) as [[o1 h1] l1] eqn:R. inversion Hr; subst. cbn.
    eapply (nrw_untouched _ _ Hk); eauto.
  Qed.

  (* if [x] is still a reader afterwards it was not stored to *)
  Lemma untouched_rdr : forall A (p : mprog A) ar h o h' l r0 v0 r',
    untouched p ar h -> run ar p h = (o, h', l) -> hgetv h x = Some (CRdr r0, v0) ->
    hget h' x = Some (CRdr r') ->
    hgetv h' x = Some (CRdr r0, v0) /\ ~ In x (stores l).
  Proof.
    intros * U Hr Hx Hx'. destruct (U _ _ _ _ _ Hr Hx) as [H|(c & v & G & N)]; [assumption|].
    exfalso. apply hget_some in Hx'. destruct Hx' as [v' Hx']. rewrite G in Hx'. inversion Hx'; subst. eapply N; reflexivity.
  Qed.
End Footprint.

(* ------------------------------------------------------------------ the footprint of every operation *)

Create HintDb nrw.

Ltac nrw_step :=
  match goal with
  | |- nrw _ (Ret _) => apply nrw_ret
  | |- nrw _ Crash => apply nrw_crash
  | |- nrw _ (pbind _ _) => apply nrw_bind; [|intros]
  | |- nrw _ (Rd _ _) => apply nrw_rd; intros
  | |- nrw _ (rdv _ _) => unfold rdv
  | |- nrw _ (wrv _ _ _) => unfold wrv
  | |- nrw _ (newv _ _) => unfold newv
  | |- nrw _ (rd_masm _ _) => unfold rd_masm
  | |- nrw _ (rd_lasm _ _) => unfold rd_lasm
  | |- nrw _ (Wr _ (CRdr _) _) => apply nrw_wr; [left; assumption|]
  | |- nrw _ (Wr _ _ _) => apply nrw_wr; [right; intros ?; discriminate|]
  | |- nrw _ (New _ _) => apply nrw_new; intros
  | |- nrw _ (match ?v with _ => _ end) => destruct v
  end.

Ltac nrw_auto := repeat first [ solve [auto 2 with nrw nocore] | nrw_step ].

Section Ops.
  Variable cf : cfg.
  Variable x : addr.

  Lemma nrw_read_bytes : forall s, nrw x (@read_bytes val s).
  Proof. intros; apply wfree_nrw, wfree_read_bytes. Qed.
  Lemma nrw_read_slice : forall s, nrw x (@read_slice val s).
  Proof. intros; apply wfree_nrw, wfree_read_slice. Qed.
  Lemma nrw_rd_content : forall fuel a, nrw x (@rd_content val fuel a).
  Proof. intros; apply wfree_nrw, wfree_rd_content. Qed.
  Lemma nrw_gomap_has : forall g k, nrw x (gomap_has g k).
  Proof. intros; apply wfree_nrw, wfree_gomap_has. Qed.
  Lemma nrw_va_parent : forall pf pa, nrw x (va_parent pf pa).
  Proof. intros; apply wfree_nrw, wfree_va_parent. Qed.
  Lemma nrw_builder_build : forall a, nrw x (builder_build a).
  Proof. intros; apply wfree_nrw, wfree_builder_build. Qed.
  Hint Resolve nrw_read_bytes nrw_read_slice nrw_rd_content nrw_gomap_has nrw_va_parent nrw_builder_build : nrw.

  Lemma nrw_append1 : forall gr zero s v, nrw x (@append1 val gr zero s v).
  Proof. intros. unfold append1. nrw_auto. Qed.
  Lemma nrw_make_slice : forall zero n, nrw x (@make_slice val zero n).
  Proof. intros. unfold make_slice. nrw_auto. Qed.
  Hint Resolve nrw_append1 nrw_make_slice : nrw.

  Lemma nrw_map_begin : forall a hint, nrw x (map_begin a hint).
  Proof. intros. unfold map_begin. nrw_auto. Qed.
  Lemma nrw_map_assemble_entry : forall a k, nrw x (map_assemble_entry cf a k).
  Proof. intros. unfold map_assemble_entry. nrw_auto. Qed.
  Lemma nrw_map_assemble_key : forall a, nrw x (map_assemble_key a).
  Proof. intros. unfold map_assemble_key. nrw_auto. Qed.
  Lemma nrw_map_assemble_value : forall a, nrw x (map_assemble_value a).
  Proof. intros. unfold map_assemble_value. nrw_auto. Qed.
  Lemma nrw_key_assign_string : forall a k, nrw x (key_assign_string cf a k).
  Proof. intros. unfold key_assign_string. nrw_auto. Qed.
  Lemma nrw_va_assign_m : forall a r, nrw x (va_assign_m a r).
  Proof. intros. unfold va_assign_m. nrw_auto. Qed.
  Lemma nrw_map_finish_top : forall a, nrw x (map_finish_top a).
  Proof. intros. unfold map_finish_top. nrw_auto. Qed.
  Lemma nrw_list_begin : forall a hint, nrw x (list_begin a hint).
  Proof. intros. unfold list_begin. nrw_auto. Qed.
  Lemma nrw_list_assemble_value : forall a, nrw x (list_assemble_value a).
  Proof. intros. unfold list_assemble_value. nrw_auto. Qed.
  Lemma nrw_va_assign_l : forall a r, nrw x (va_assign_l cf a r).
  Proof. intros. unfold va_assign_l. nrw_auto. Qed.
  Lemma nrw_list_finish_top : forall a, nrw x (list_finish_top a).
  Proof. intros. unfold list_finish_top. nrw_auto. Qed.
  Hint Resolve nrw_map_begin nrw_map_assemble_entry nrw_map_assemble_key nrw_map_assemble_value nrw_key_assign_string
    nrw_va_assign_m nrw_map_finish_top nrw_list_begin nrw_list_assemble_value nrw_va_assign_l nrw_list_finish_top : nrw.

  Lemma nrw_va_assign : forall pf a r, nrw x (va_assign cf pf a r).
  Proof. intros. unfold va_assign. nrw_auto. Qed.
  Hint Resolve nrw_va_assign : nrw.
  Lemma nrw_val_begin_map : forall pf pa hint, nrw x (val_begin_map pf pa hint).
  Proof. intros. unfold val_begin_map. nrw_auto. Qed.
  Lemma nrw_val_begin_list : forall pf pa hint, nrw x (val_begin_list pf pa hint).
  Proof. intros. unfold val_begin_list. nrw_auto. Qed.
  Lemma nrw_map_finish : forall a, nrw x (map_finish cf a).
  Proof. intros. unfold map_finish. nrw_auto. Qed.
  Lemma nrw_list_finish : forall a, nrw x (list_finish cf a).
  Proof. intros. unfold list_finish. nrw_auto. Qed.
  Hint Resolve nrw_val_begin_map nrw_val_begin_list nrw_map_finish nrw_list_finish : nrw.

  Lemma nrw_new_scalar_node : forall sv, nrw x (new_scalar_node sv).
  Proof. intros. unfold new_scalar_node. nrw_auto. Qed.
  Hint Resolve nrw_new_scalar_node : nrw.
  Lemma nrw_sval_node : forall v, nrw x (sval_node v).
  Proof. intros. unfold sval_node. nrw_auto. Qed.
  Hint Resolve nrw_sval_node : nrw.

  Lemma nrw_map_copy_loop : forall es a, nrw x (map_copy_loop cf a es).
  Proof. induction es as [|[k d] es IH]; intros; cbn [map_copy_loop]; nrw_auto. Qed.
  Lemma nrw_list_copy_loop : forall l a, nrw x (list_copy_loop cf a l).
  Proof. induction l as [|d l IH]; intros; cbn [list_copy_loop]; nrw_auto. Qed.
  Hint Resolve nrw_map_copy_loop nrw_list_copy_loop : nrw.

  Lemma nrw_map_assign_node : forall a r, nrw x (map_assign_node cf a r).
  Proof. intros. unfold map_assign_node. nrw_auto. Qed.
  Lemma nrw_list_assign_node : forall a r, nrw x (list_assign_node cf a r).
  Proof. intros. unfold list_assign_node. nrw_auto. Qed.
  Lemma nrw_bytes_assign_node : forall a r, nrw x (bytes_assign_node a r).
  Proof. intros. unfold bytes_assign_node. nrw_auto. Qed.
  Lemma nrw_new_builder : forall p, nrw x (new_builder p).
  Proof. intros. unfold new_builder. nrw_auto. Qed.
  Lemma nrw_builder_reset : forall a, nrw x (builder_reset a).
  Proof. intros. unfold builder_reset. nrw_auto. Qed.
  Hint Resolve nrw_map_assign_node nrw_list_assign_node nrw_bytes_assign_node nrw_new_builder nrw_builder_reset : nrw.

  (* from here on: the repaired configuration — a read of a stream node does not move any reader *)
  Hypothesis Hrep : cf_stream_shared cf = false.

  Lemma nrw_acc_prog : forall r a, nrw x (acc_prog cf r a).
  Proof.
    intros r a. destruct r; [constructor| | | | | | |];
      destruct a; cbn; unfold stream_read; rewrite ?Hrep; nrw_auto.
  Qed.
  Hint Resolve nrw_acc_prog : nrw.

  Lemma nrw_builder_op : forall a o, nrw x (builder_op cf a o).
  Proof. intros. unfold builder_op. nrw_auto. Qed.
  Lemma nrw_value_op : forall pf a o, nrw x (value_op cf pf a o).
  Proof. intros. unfold value_op. nrw_auto. Qed.
  Lemma nrw_key_op : forall a o, nrw x (key_op cf a o).
  Proof. intros. unfold key_op. nrw_auto. Qed.
  Hint Resolve nrw_builder_op nrw_value_op nrw_key_op : nrw.
  Lemma nrw_asm_op : forall h o, nrw x (asm_op cf h o).
  Proof. intros. unfold asm_op. nrw_auto. Qed.
  Hint Resolve nrw_asm_op : nrw.

  Lemma nrw_rd_seek_end : forall a, a <> x -> nrw x (@rd_seek_end val a).
  Proof. intros. unfold rd_seek_end. nrw_auto. Qed.
  Lemma nrw_rd_seek : forall a o, a <> x -> nrw x (@rd_seek val a o).
  Proof. intros. unfold rd_seek. nrw_auto. Qed.
  Hint Resolve nrw_rd_seek_end nrw_rd_seek : nrw.

  Lemma nrw_match_subset : forall r from to, nrw x (match_subset cf r from to).
  Proof. intros. unfold match_subset. rewrite Hrep. nrw_auto. Qed.
  Hint Resolve nrw_match_subset : nrw.

  (* every call except Read/Seek on a handed-out reader: the footprint excludes every existing reader *)
  Definition reader_prim (p : prim) : bool :=
    match p with PReaderRead _ _ | PReaderSeek _ _ _ => true | _ => false end.

  Lemma prim_nrw : forall p, reader_prim p = false -> nrw x (prim_prog cf p).
  Proof.
    intros p Hp. destruct p; try discriminate Hp; cbn [prim_prog]; try rewrite Hrep; nrw_auto.
  Qed.
End Ops.

(* ------------------------------------------------------------------ which calls hand out a reader *)

(* a property of every value a program can return *)
Inductive retp {A} (P : A -> Prop) : mprog A -> Prop :=
| retp_ret : forall a, P a -> retp P (Ret a)
| retp_crash : retp P Crash
| retp_rd : forall a k, (forall c, retp P (k c)) -> retp P (Rd a k)
| retp_wr : forall a c k, retp P k -> retp P (Wr a c k)
| retp_new : forall c k, (forall a, retp P (k a)) -> retp P (New c k).

Lemma retp_any : forall A (p : mprog A), retp (fun _ => True) p.
Proof. induction p; constructor; auto. Qed.

Lemma retp_bind : forall A B (P : B -> Prop) (p : mprog A) (f : A -> mprog B),
  (forall a, retp P (f a)) -> retp P (pbind p f).
Proof. induction p; cbn; intros; auto; constructor; auto. Qed.

Lemma retp_run : forall A (P : A -> Prop) (p : mprog A), retp P p -> forall ar h a h' l, run ar p h = (Done a, h', l) -> P a.
Proof.
  induction 1 as [a Pa | | a k Hk IH | a c k Hk IH | c k Hk IH]; cbn; intros ar h r h' l Hr.
  - inversion Hr; subst; assumption.
  - discriminate.
  - destruct (hget h a) as [c|]; [|discriminate].
    destruct (run ar (k c) h) as [[o1 h1] l1] eqn:R. inversion Hr; subst. eapply IH; eauto.
  - destruct (hget h a); [|discriminate].
    destruct (run ar k (hset h a c)) as [[o1 h1] l1] eqn:R. inversion Hr; subst. eapply IH; eauto.
  - destruct (halloc ar h c) as [h1 a]. destruct (run ar (k a) h1) as [[o1 h2] l2] eqn:R. inversion Hr; subst. eapply IH; eauto.
Qed.

Definition no_reader_out (o : pout) : Prop := forall y, ~ In (HReader y) (out_handles o).

Lemma no_reader_acc : forall r, no_reader_out (PAcc r).
Proof.
  intros r y. destruct r; cbn; try tauto.
  - intros [E|[]]; discriminate.
  - intros H. apply in_map_iff in H. destruct H as (? & E & _). discriminate.
  - intros H. apply in_map_iff in H. destruct H as (? & E & _). discriminate.
  - destruct alias; cbn; [intros [E|[]]; discriminate | tauto].
Qed.

Ltac retp_step :=
  match goal with
  | |- retp _ (Ret (PAcc _)) => apply retp_ret, no_reader_acc
  | |- retp _ (Ret _) => apply retp_ret; intros ? ; cbn; intuition discriminate
  | |- retp _ Crash => apply retp_crash
  | |- retp _ (pbind _ _) => apply retp_bind; intros
  | |- retp _ (Rd _ _) => apply retp_rd; intros
  | |- retp _ (rdv _ _) => unfold rdv
  | |- retp _ (Wr _ _ _) => apply retp_wr
  | |- retp _ (New _ _) => apply retp_new; intros
  | |- retp _ (match ?v with _ => _ end) => destruct v
  end.

(* the only call that returns a reader handle is AsLargeBytes *)
Lemma prim_no_reader_out : forall cf p, (forall n, p <> PLargeBytes n) -> returns_caps p = true ->
  retp no_reader_out (prim_prog cf p).
Proof.
  intros cf p Hp Hc. destruct p; try discriminate Hc; cbn [prim_prog].
  - destruct h; try apply retp_crash. unfold builder_build. repeat retp_step.
  - repeat retp_step.
  - repeat retp_step.
  - repeat retp_step.
  - repeat retp_step.
  - unfold sval_node, new_scalar_node, newv. repeat retp_step.
  - repeat retp_step.
  - destruct n; try apply retp_crash. unfold match_subset, new_scalar_node, newv, rd_seek_end, rd_seek. repeat retp_step.
  - exfalso. eapply Hp; reflexivity.
Qed.

(* ------------------------------------------------------------------ handed-out readers are leaf readers *)

Definition leaf_rdr (r : rdr) : Prop := match r with RdSect _ _ _ _ _ => False | _ => True end.

Lemma leaf_eqv : forall r r', rdr_eqv r r' -> leaf_rdr r -> leaf_rdr r'.
Proof. destruct r, r'; cbn; tauto. Qed.

(* every reader the client holds is a bytes.Reader or a streamCursor: a Read/Seek on it stores to its
   own cell and to no other *)
Definition RInv (ps : pstate) : Prop :=
  forall y, In (HReader y) (kn ps) -> exists r, hget (hp ps) y = Some (CRdr r) /\ leaf_rdr r.

Lemma in_add_known : forall k hd h0, In h0 (add_known k hd) -> In h0 k \/ h0 = hd.
Proof.
  intros k hd h0. unfold add_known.
  destruct hd; auto; try (destruct (existsb _ k); cbn; intuition auto; fail).
  destruct r; auto; destruct (existsb _ k); cbn; intuition auto.
Qed.

Lemma in_fold_add_known : forall l k h0, In h0 (fold_left add_known l k) -> In h0 k \/ In h0 l.
Proof.
  induction l as [|hd l IH]; cbn; intros k h0 H; auto.
  destruct (IH _ _ H) as [H1|H1]; auto. destruct (in_add_known _ _ _ H1); auto.
Qed.

Lemma existsb_add_known : forall f k hd, existsb f k = true -> existsb f (add_known k hd) = true.
Proof.
  intros f k hd H. unfold add_known.
  assert (G : forall h0, existsb f (if existsb (handle_eqb h0) k then k else h0 :: k) = true).
  { intros h0. destruct (existsb (handle_eqb h0) k); cbn; rewrite ?H, ?orb_true_r; reflexivity. }
  destruct hd; auto. destruct r; auto.
Qed.

Lemma existsb_fold_add_known : forall f l k, existsb f k = true -> existsb f (fold_left add_known l k) = true.
Proof. induction l; cbn; intros; auto using existsb_add_known. Qed.

Lemma known_reader_step : forall cf ps p x, known_b (kn ps) (HReader x) = true ->
  known_b (kn (fst (pstep cf ps p))) (HReader x) = true.
Proof.
  intros cf ps p x H. rewrite pstep_exec. cbn [known_b] in *.
  destruct (exec (par ps) (prim_prog cf p) (hp ps)) as [[po|] h']; cbn; [|assumption].
  destruct (returns_caps p); [apply existsb_fold_add_known|]; assumption.
Qed.

Lemma known_reader_in : forall k x, known_b k (HReader x) = true -> In (HReader x) k.
Proof. intros k x H. apply existsb_handle_in. exact H. Qed.

Lemma exec_run : forall A ar (p : mprog A) h, exec ar p h = (fst (fst (run ar p h)), snd (fst (run ar p h))).
Proof. intros. unfold exec. destruct (run ar p h) as [[o h'] l]. reflexivity. Qed.

(* AsLargeBytes on the repaired configuration: the reader handed out is a fresh leaf *)
Lemma large_bytes_leaf : forall cf n ar h po h' y, cf_stream_shared cf = false ->
  exec ar (prim_prog cf (PLargeBytes n)) h = (Done po, h') -> In (HReader y) (out_handles po) ->
  exists r, hget h' y = Some (CRdr r) /\ leaf_rdr r.
Proof.
  intros cf n ar h po h' y Hrep He Hin. cbn [prim_prog] in He. rewrite Hrep in He.
  destruct n; try (rewrite exec_crash in He; discriminate He).
  destruct r; try (rewrite exec_crash in He; discriminate He);
    try (rewrite exec_ret in He; inversion He; subst; cbn in Hin; tauto).
  - rewrite exec_new in He. destruct (halloc ar h (CRdr (RdBytes s 0))) as [h1 a] eqn:Ea.
    rewrite exec_ret in He. inversion He; subst. cbn in Hin. destruct Hin as [E|[]]. inversion E; subst.
    destruct (hget_halloc_new _ _ _ _ _ _ Ea) as [G _]. eexists; split; [exact G | exact I].
  - rewrite exec_new in He. destruct (halloc ar h (CRdr (RdCursor a 0))) as [h1 a'] eqn:Ea.
    rewrite exec_ret in He. inversion He; subst. cbn in Hin. destruct Hin as [E|[]]. inversion E; subst.
    destruct (hget_halloc_new _ _ _ _ _ _ Ea) as [G _]. eexists; split; [exact G | exact I].
Qed.

Lemma no_reader_from : forall cf p ar h po h' y, (forall n, p <> PLargeBytes n) -> returns_caps p = true ->
  exec ar (prim_prog cf p) h = (Done po, h') -> ~ In (HReader y) (out_handles po).
Proof.
  intros cf p ar h po h' y Hp Hc He. unfold exec in He.
  destruct (run ar (prim_prog cf p) h) as [[o1 h1] l1] eqn:R. inversion He; subst.
  exact (retp_run _ _ _ (prim_no_reader_out cf p Hp Hc) _ _ _ _ _ R y).
Qed.

Lemma rinv_step : forall cf tg ps p, cf_stream_shared cf = false -> SInv tg ps -> RInv ps -> legal ps p = true ->
  RInv (fst (pstep cf ps p)).
Proof.
  intros cf tg ps p Hrep HS HR Hl.
  destruct (pstep_inv cf tg ps p HS Hl) as (tg' & _ & HE).
  destruct HS as [HI HK].
  assert (Old : forall y, In (HReader y) (kn ps) -> exists r, hget (hp (fst (pstep cf ps p))) y = Some (CRdr r) /\ leaf_rdr r).
  { intros y Hy. destruct (HR y Hy) as (r & G & L).
    unfold KInv in HK. rewrite Forall_forall in HK. destruct (HK _ Hy) as [Ty _].
    destruct (ext_rdr _ _ _ _ _ _ HE Ty G) as (r' & G' & Eq). exists r'. split; [assumption | eapply leaf_eqv; eauto]. }
  revert Old. rewrite pstep_exec.
  destruct (exec (par ps) (prim_prog cf p) (hp ps)) as [[po|] h'] eqn:He; cbn; intros Old y Hy; [|auto].
  destruct (returns_caps p) eqn:Rc; [|auto].
  apply in_fold_add_known in Hy. destruct Hy as [Hy|Hy]; [auto|].
  cbn [hp].
  destruct p; try discriminate Rc;
    try (exfalso; refine (no_reader_from cf _ _ _ _ _ y _ Rc He Hy); intros ?; discriminate).
  eapply large_bytes_leaf; eauto.
Qed.

(* ------------------------------------------------------------------ Read / Seek on ANOTHER reader *)

(* the calls that are a Read or Seek on the reader in cell [x] itself *)
Definition touches (x : addr) (p : prim) : bool :=
  match p with
  | PReaderRead (HReader y) _ | PReaderSeek (HReader y) _ _ => addr_eqb x y
  | _ => false
  end.

Lemma reader_prim_untouched : forall cf x p ar h, reader_prim p = true -> touches x p = false ->
  (forall y, In (HReader y) (prim_operands p) -> exists r, hget h y = Some (CRdr r) /\ leaf_rdr r) ->
  untouched x (prim_prog cf p) ar h.
Proof.
  intros cf x p ar h Hp Ht Hy.
  destruct p; try discriminate Hp; cbn [prim_prog]; (destruct r as [| | | | | | | | |y]; try solve [apply nrw_untouched; constructor]);
    cbn in Ht; apply addr_eqb_neq in Ht; destruct (Hy y (or_introl eq_refl)) as (r & G & L).
  - change rd_fuel with (S (Nat.pred rd_fuel)). cbn [rd_read pbind].
    apply (untouched_rd x _ _ _ _ _ _ G). destruct r as [s pos| |src off]; [| destruct L |]; cbn [pbind].
    + apply nrw_bind; [|intros; constructor]. apply nrw_bind; [apply nrw_read_bytes|].
      intros data. apply nrw_wr; [left; congruence | constructor].
    + apply nrw_bind; [|intros; constructor]. apply nrw_bind; [apply nrw_rd_content|].
      intros data. apply nrw_wr; [left; congruence | constructor].
  - unfold rd_seekw. cbn [pbind].
    apply (untouched_rd x _ _ _ _ _ _ G). destruct r as [s pos| |src o]; [| destruct L |].
    + destruct (_ <? 0)%Z; cbn [pbind]; [constructor | apply nrw_wr; [left; congruence | constructor]].
    + destruct wh.
      * destruct (_ <? 0)%Z; cbn [pbind]; [constructor | apply nrw_wr; [left; congruence | constructor]].
      * destruct (_ <? 0)%Z; cbn [pbind]; [constructor | apply nrw_wr; [left; congruence | constructor]].
      * apply nrw_bind; [|intros; constructor]. apply nrw_bind; [apply nrw_rd_content|].
        intros data. destruct (_ <? 0)%Z; [constructor | apply nrw_wr; [left; congruence | constructor]].
Qed.

(* ------------------------------------------------------------------ one Legal call, then histories *)

(* the access log of one call *)
Definition call_log (cf : cfg) (ps : pstate) (p : prim) : list ev := snd (run (par ps) (prim_prog cf p) (hp ps)).

Lemma pstep_hp : forall cf ps p, hp (fst (pstep cf ps p)) = snd (fst (run (par ps) (prim_prog cf p) (hp ps))).
Proof. intros. unfold pstep. destruct (run (par ps) (prim_prog cf p) (hp ps)) as [[[po|] h'] l]; reflexivity. Qed.

(* One Legal call on the repaired configuration that is not a Read/Seek on the handed-out reader [x]
   does not store to [x]'s cell: no store in its access log, same content, same write counter. *)
Theorem reader_untouched_step : forall cf tg ps p x, cf_stream_shared cf = false ->
  SInv tg ps -> RInv ps -> legal ps p = true ->
  known_b (kn ps) (HReader x) = true -> touches x p = false ->
  hgetv (hp (fst (pstep cf ps p))) x = hgetv (hp ps) x /\ ~ In x (stores (call_log cf ps p)).
Proof.
  intros cf tg ps p x Hrep HS HR Hl Hk Ht.
  destruct (pstep_inv cf tg ps p HS Hl) as (tg' & _ & HE).
  destruct HS as [HI HK].
  destruct (known_ok _ _ _ _ HK Hk) as [Tx [r0 G]].
  destruct (ext_rdr _ _ _ _ _ _ HE Tx G) as (r' & G' & _).
  apply hget_some in G. destruct G as [v0 G].
  assert (U : untouched x (prim_prog cf p) (par ps) (hp ps)).
  { destruct (reader_prim p) eqn:Rp.
    - apply reader_prim_untouched; [assumption | assumption |].
      intros y Hy. apply HR. apply known_reader_in.
      unfold legal in Hl. apply andb_true_iff in Hl. destruct Hl as [Hops _].
      rewrite forallb_forall in Hops. apply Hops. assumption.
    - apply nrw_untouched. apply prim_nrw; assumption. }
  rewrite pstep_hp in *. unfold call_log.
  destruct (run (par ps) (prim_prog cf p) (hp ps)) as [[o h'] l] eqn:R. cbn [fst snd] in *.
  rewrite G. eapply untouched_rdr; eauto.
Qed.

Lemma rinv_init : RInv pinit.
Proof. intros y []. Qed.

Lemma runh_rinv : forall cf, cf_stream_shared cf = false -> forall hs tg ps, SInv tg ps -> RInv ps -> legalh cf ps hs = true ->
  exists tg', SInv tg' (runh cf ps hs) /\ RInv (runh cf ps hs).
Proof.
  intros cf Hrep. induction hs as [|p hs IH]; cbn; intros tg ps HS HR Hl; [eauto|].
  apply andb_true_iff in Hl. destruct Hl as [L1 L2].
  destruct (pstep_inv cf tg ps p HS L1) as (tg1 & S1 & _).
  eapply IH; eauto. eapply rinv_step; eauto.
Qed.

Lemma reader_untouched_runh : forall cf, cf_stream_shared cf = false -> forall hs tg ps x, SInv tg ps -> RInv ps ->
  legalh cf ps hs = true -> known_b (kn ps) (HReader x) = true ->
  forallb (fun p => negb (touches x p)) hs = true ->
  hgetv (hp (runh cf ps hs)) x = hgetv (hp ps) x.
Proof.
  intros cf Hrep. induction hs as [|p hs IH]; cbn [runh legalh forallb]; intros tg ps x HS HR Hl Hk Ht; [reflexivity|].
  apply andb_true_iff in Hl. destruct Hl as [L1 L2]. apply andb_true_iff in Ht. destruct Ht as [T1 T2].
  apply negb_true_iff in T1.
  destruct (pstep_inv cf tg ps p HS L1) as (tg1 & S1 & _).
  rewrite (IH tg1 _ x S1 (rinv_step cf tg ps p Hrep HS HR L1) L2 (known_reader_step cf ps p x Hk) T2).
  apply (reader_untouched_step cf tg ps p x Hrep HS HR L1 Hk T1).
Qed.

(* Along a Legal history of the repaired configuration a handed-out reader is moved only by the reads
   and seeks made on it: whatever other readers (of the same node or of others), accessors, subset
   matches, builders did in between, its cell was not stored to. *)
Theorem reader_untouched : forall cf, cf_stream_shared cf = false -> forall hs1 hs2,
  legalh cf pinit (hs1 ++ hs2) = true ->
  forall x, known_b (kn (runh cf pinit hs1)) (HReader x) = true ->
  forallb (fun p => negb (touches x p)) hs2 = true ->
  hgetv (hp (runh cf pinit (hs1 ++ hs2))) x = hgetv (hp (runh cf pinit hs1)) x.
Proof.
  intros cf Hrep hs1 hs2 Hl x Hk Ht.
  destruct (legalh_app _ _ _ _ Hl) as [L1 L2].
  destruct (runh_rinv cf Hrep hs1 _ _ sinv_init rinv_init L1) as (tg1 & S1 & R1).
  rewrite runh_app. eapply reader_untouched_runh; eauto.
Qed.

Theorem reader_independent : forall cf, cf_stream_shared cf = false -> forall hs1 hs2,
  legalh cf pinit (hs1 ++ hs2) = true ->
  forall x, known_b (kn (runh cf pinit hs1)) (HReader x) = true ->
  forallb (fun p => negb (touches x p)) hs2 = true ->
  hget (hp (runh cf pinit (hs1 ++ hs2))) x = hget (hp (runh cf pinit hs1)) x.
Proof. intros. unfold hget. rewrite reader_untouched; auto. Qed.

(* hence: what a reader yields next depends only on the reads and seeks made on it (and on the
   content of its source, which never changes) *)
Theorem reader_next_read : forall cf, cf_stream_shared cf = false -> forall hs1 hs2,
  legalh cf pinit (hs1 ++ hs2) = true ->
  forall x src off, known_b (kn (runh cf pinit hs1)) (HReader x) = true ->
  hget (hp (runh cf pinit hs1)) x = Some (CRdr (RdCursor src off)) ->
  forallb (fun p => negb (touches x p)) hs2 = true ->
  forall k c, source_content (runh cf pinit hs1) src = Done c ->
    snd (pstep cf (runh cf pinit (hs1 ++ hs2)) (PReaderRead (HReader x) k))
      = RDone (PAcc (XBytes (take_k k (skipn off c)) None)).
Proof.
  intros cf Hrep hs1 hs2 Hl x src off Hk Hx Ht k c Hc.
  destruct (reader_independent_partial cf hs1 hs2 Hl x src off Hk Hx) as (o2 & Hx2 & Hs & Hrd).
  rewrite (reader_independent cf Hrep hs1 hs2 Hl x Hk Ht), Hx in Hx2. inversion Hx2; subst o2.
  apply Hrd. rewrite Hs. assumption.
Qed.
