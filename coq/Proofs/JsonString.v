(* Proofs/JsonString.v — refmt emitString / decodeString round trip:
   for every valid UTF-8 string s, scanning and parsing the emitted text gives s back. *)
Require Import IP.Base.Bytes IP.Codec.Utf8 IP.Codec.Base64 IP.Codec.DagJson IP.Proofs.JsonUtf8.
From Coq Require Import ZifyN ZifyNat ZifyBool.
Ltac Zify.zify_post_hook ::= Z.div_mod_to_equations.
Open Scope N_scope.

Lemma hexd_ok v : v < 16 -> is_hex (hexd v) = true /\ hex_val (hexd v) = v.
Proof.
  intros H. unfold hexd, is_hex, hex_val.
  destruct (N.ltb_spec v 10); repeat ncase; split; try reflexivity; lia.
Qed.

Definition prepend (u : bytes) (o : option (bytes * bytes)) : option (bytes * bytes) :=
  match o with Some (raw, rest) => Some (u ++ raw, rest) | None => None end.

Lemma prepend_app u w o : prepend (u ++ w) o = prepend u (prepend w o).
Proof. destruct o as [[a b]|]; cbn; [now rewrite app_assoc|reflexivity]. Qed.

Definition plain_byte (b : N) : Prop := 32 <= b /\ b <> 34 /\ b <> 92.

Lemma scan_plain u X : Forall plain_byte u ->
  str_scan SNormal (u ++ X) = prepend u (str_scan SNormal X).
Proof.
  induction 1 as [|b u [H1 [H2 H3]] _ IH]; cbn [app].
  - destruct (str_scan SNormal X) as [[a c]|]; reflexivity.
  - cbn [str_scan]. destruct (N.eqb_spec b 34); [lia|]. destruct (N.eqb_spec b 92); [lia|].
    destruct (N.ltb_spec b 32); [lia|]. rewrite IH.
    destruct (str_scan SNormal X) as [[a c]|]; reflexivity.
Qed.

Lemma scan_esc1 e X :
  (e = 98 \/ e = 102 \/ e = 110 \/ e = 114 \/ e = 116 \/ e = 92 \/ e = 47 \/ e = 34) ->
  str_scan SNormal (92 :: e :: X) = prepend [92; e] (str_scan SNormal X).
Proof.
  intros H. cbn [str_scan]. change (92 =? 34) with false. change (92 =? 92) with true. cbv iota.
  replace ((e =? 98) || (e =? 102) || (e =? 110) || (e =? 114) || (e =? 116) || (e =? 92) || (e =? 47) || (e =? 34)) with true
    by (repeat destruct H as [H|H]; subst e; reflexivity).
  destruct (str_scan SNormal X) as [[a c]|]; reflexivity.
Qed.

Lemma scan_escu a b c d X :
  is_hex a = true -> is_hex b = true -> is_hex c = true -> is_hex d = true ->
  str_scan SNormal (92 :: 117 :: a :: b :: c :: d :: X) = prepend [92; 117; a; b; c; d] (str_scan SNormal X).
Proof.
  intros Ha Hb Hc Hd. cbn [str_scan]. rewrite Ha, Hb, Hc, Hd.
  change (92 =? 34) with false. change (92 =? 92) with true. cbv iota.
  change ((117 =? 98) || (117 =? 102) || (117 =? 110) || (117 =? 114) || (117 =? 116) || (117 =? 92) || (117 =? 47) || (117 =? 34)) with false.
  change (117 =? 117) with true. cbv iota.
  destruct (str_scan SNormal X) as [[x y]|]; reflexivity.
Qed.

Lemma scan_esc_ascii b X : b < 128 ->
  str_scan SNormal (esc_ascii b ++ X) = prepend (esc_ascii b) (str_scan SNormal X).
Proof.
  intros Hb. unfold esc_ascii.
  destruct ((32 <=? b) && negb (b =? 92) && negb (b =? 34)) eqn:P.
  { apply (scan_plain [b]). constructor; [|constructor]. unfold plain_byte. repeat ncase. }
  destruct ((b =? 92) || (b =? 34)) eqn:Q.
  { apply scan_esc1. repeat ncase. }
  destruct (N.eqb_spec b 10); [apply scan_esc1; lia|].
  destruct (N.eqb_spec b 13); [apply scan_esc1; lia|].
  destruct (N.eqb_spec b 9); [apply scan_esc1; lia|].
  assert (b < 32) by (repeat ncase).
  cbn [app]. apply scan_escu; try reflexivity; apply hexd_ok; lia.
Qed.

(* ---------------------------------------------------------------- parsing, chunk by chunk *)

Lemma parse_plain b f Y : 32 <= b -> b < 128 -> b <> 34 -> b <> 92 ->
  parse_str (S f) (b :: Y) = ocons [b] (parse_str f Y).
Proof.
  intros. cbn [parse_str]. destruct (N.eqb_spec b 92); [lia|].
  destruct (N.eqb_spec b 34); [lia|]. destruct (N.ltb_spec b 32); [lia|]. cbn [orb].
  destruct (N.ltb_spec b 128); [reflexivity|lia].
Qed.

Lemma parse_esc_quote e f Y : e = 34 \/ e = 92 ->
  parse_str (S f) (92 :: e :: Y) = ocons [e] (parse_str f Y).
Proof. intros [H|H]; subst e; reflexivity. Qed.

Lemma parse_esc_nrt f Y :
  parse_str (S f) (92 :: 110 :: Y) = ocons [10] (parse_str f Y) /\
  parse_str (S f) (92 :: 114 :: Y) = ocons [13] (parse_str f Y) /\
  parse_str (S f) (92 :: 116 :: Y) = ocons [9] (parse_str f Y).
Proof. repeat split; reflexivity. Qed.

Lemma getu4_eq a b c d Y :
  is_hex a = true -> is_hex b = true -> is_hex c = true -> is_hex d = true ->
  getu4 (92 :: 117 :: a :: b :: c :: d :: Y)
  = Some (hex_val a * 4096 + hex_val b * 256 + hex_val c * 16 + hex_val d).
Proof. intros Ha Hb Hc Hd. unfold getu4. rewrite Ha, Hb, Hc, Hd. reflexivity. Qed.

(* \uXXXX for a rune outside the surrogate range *)
Lemma parse_escu a b c d f Y :
  is_hex a = true -> is_hex b = true -> is_hex c = true -> is_hex d = true ->
  let rr := hex_val a * 4096 + hex_val b * 256 + hex_val c * 16 + hex_val d in
  is_surrogate rr = false ->
  parse_str (S f) (92 :: 117 :: a :: b :: c :: d :: Y) = ocons (utf8_encode rr) (parse_str f Y).
Proof.
  intros Ha Hb Hc Hd rr Hs. cbn [parse_str].
  change (92 =? 92) with true. cbv iota.
  change ((117 =? 34) || (117 =? 92) || (117 =? 47) || (117 =? 39)) with false.
  change (117 =? 98) with false. change (117 =? 102) with false. change (117 =? 110) with false.
  change (117 =? 114) with false. change (117 =? 116) with false. change (117 =? 117) with true. cbv iota.
  rewrite getu4_eq by assumption. fold rr. rewrite Hs. reflexivity.
Qed.

Lemma parse_esc_ascii b f Y : b < 128 ->
  parse_str (S f) (esc_ascii b ++ Y) = ocons [b] (parse_str f Y).
Proof.
  intros Hb. unfold esc_ascii.
  destruct ((32 <=? b) && negb (b =? 92) && negb (b =? 34)) eqn:P.
  { apply parse_plain; repeat ncase. }
  destruct ((b =? 92) || (b =? 34)) eqn:Q.
  { apply parse_esc_quote. repeat ncase. }
  destruct (N.eqb_spec b 10); [subst; apply parse_esc_nrt|].
  destruct (N.eqb_spec b 13); [subst; apply parse_esc_nrt|].
  destruct (N.eqb_spec b 9); [subst; apply parse_esc_nrt|].
  assert (b < 32) by (repeat ncase).
  cbn [app].
  destruct (hexd_ok (b / 16)) as [H1 V1]; [lia|]. destruct (hexd_ok (b mod 16)) as [H2 V2]; [lia|].
  rewrite parse_escu; try assumption; try reflexivity.
  - rewrite V1, V2. change (hex_val 48) with 0.
    replace (0 * 4096 + 0 * 256 + b / 16 * 16 + b mod 16) with b by lia.
    unfold utf8_encode. destruct (N.ltb_spec b 128); [reflexivity|lia].
  - rewrite V1, V2. change (hex_val 48) with 0. unfold is_surrogate. repeat ncase.
Qed.

(* a valid multi-byte sequence is copied *)
Lemma parse_multi s c sz f Y :
  s <> [] -> utf8_decode s = (c, sz) -> dec_err (c, sz) = false -> 128 <= c ->
  parse_str (S f) (firstn sz s ++ Y) = ocons (firstn sz s) (parse_str f Y).
Proof.
  intros NE D E Hc.
  destruct (utf8_decode_inv _ _ _ D E NE) as (En & Hsz & Hl & H1 & _ & _ & _).
  destruct (utf8_decode_prefix _ _ _ D E NE) as (Hp & Hall). specialize (Hall Hc). specialize (Hp Y).
  destruct (firstn sz s) as [|b0 u] eqn:F.
  { apply (f_equal (@length N)) in F. rewrite firstn_length in F. cbn in F. lia. }
  inversion Hall as [|? ? Hb0 _]; subst.
  cbn [app parse_str]. cbn [app] in Hp.
  destruct (N.eqb_spec b0 92); [lia|]. destruct (N.eqb_spec b0 34); [lia|].
  destruct (N.ltb_spec b0 32); [lia|]. cbn [orb]. destruct (N.ltb_spec b0 128); [lia|].
  rewrite Hp. rewrite En.
  replace (skipn sz (b0 :: u ++ Y)) with Y; [reflexivity|].
  change (b0 :: u ++ Y) with ((b0 :: u) ++ Y).
  assert (L : length (b0 :: u) = sz).
  { rewrite <- F, firstn_length. lia. }
  rewrite <- L. now rewrite skipn_app, skipn_all, Nat.sub_diag.
Qed.

(* the escaped U+2028 / U+2029 *)
Lemma parse_2028 c f Y : c = 8232 \/ c = 8233 ->
  parse_str (S f) ([92; 117; 50; 48; 50; hexd (c mod 16)] ++ Y) = ocons [226; 128; 168 + (c - 8232)] (parse_str f Y).
Proof. intros [H|H]; subst c; reflexivity. Qed.

(* ---------------------------------------------------------------- the round trip *)

Lemma prepend_nil o : prepend [] o = o.
Proof. destruct o as [[a b]|]; reflexivity. Qed.

Lemma parse_str_nil f : parse_str f [] = Some [].
Proof. destruct f; reflexivity. Qed.

Lemma emit_roundtrip f : forall s, (length s <= f)%nat -> utf8_valid_fuel f s = true ->
  (forall X, str_scan SNormal (emit_body f s ++ X) = prepend (emit_body f s) (str_scan SNormal X)) /\
  (forall f2, (length (emit_body f s) <= f2)%nat -> parse_str f2 (emit_body f s) = Some s).
Proof.
  induction f as [|f IH]; intros s L V.
  { destruct s; [|cbn in L; lia]. cbn [emit_body app]. split; intros; [now rewrite prepend_nil|apply parse_str_nil]. }
  destruct s as [|b r].
  { cbn [emit_body app]. split; intros; [now rewrite prepend_nil|apply parse_str_nil]. }
  cbn [utf8_valid_fuel] in V. cbn [emit_body].
  destruct (utf8_decode (b :: r)) as [c sz] eqn:D.
  assert (NE : b :: r <> []) by congruence.
  destruct ((c =? rune_error) && Nat.eqb sz 1) eqn:E; [discriminate|].
  assert (E' : dec_err (c, sz) = false) by exact E.
  destruct (utf8_decode_inv _ _ _ D E' NE) as (En & Hsz & Hl & H1 & Hasc & Hsur & Hmax).
  destruct (N.ltb_spec b 128) as [Hb|Hb].
  - (* ASCII *)
    assert (c = b /\ sz = 1%nat) as [-> ->].
    { unfold utf8_decode in D. destruct (N.ltb_spec b 128); [now inversion D|lia]. }
    cbn [skipn] in V. cbn [length] in L.
    destruct (IH r ltac:(lia) V) as [IHs IHp]. split.
    + intros X. rewrite <- app_assoc, scan_esc_ascii by assumption. rewrite IHs. now rewrite prepend_app.
    + intros f2 Lf. rewrite app_length in Lf.
      assert (1 <= length (esc_ascii b))%nat.
      { unfold esc_ascii. repeat match goal with |- context[if ?x then _ else _] => destruct x end; cbn; lia. }
      destruct f2 as [|f2]; [lia|]. rewrite parse_esc_ascii by assumption.
      rewrite IHp by lia. reflexivity.
  - (* multi-byte *)
    assert (Hc : 128 <= c).
    { destruct (N.ltb_spec c 128) as [Hlt|]; [|assumption]. specialize (Hasc Hlt). inversion Hasc. lia. }
    assert (Ls : (length (skipn sz (b :: r)) <= f)%nat) by (rewrite skipn_length; cbn [length] in *; lia).
    destruct (IH _ Ls V) as [IHs IHp].
    assert (Hfs : firstn sz (b :: r) ++ skipn sz (b :: r) = b :: r) by apply firstn_skipn.
    destruct ((c =? 8232) || (c =? 8233)) eqn:U.
    + assert (Hu : c = 8232 \/ c = 8233) by (repeat ncase).
      destruct (utf8_decode_2028 _ _ _ D E' Hu) as [F3 S3].
      destruct (hexd_ok (c mod 16)) as [Hh _]; [lia|].
      split.
      * intros X. rewrite <- app_assoc. cbn [app]. rewrite scan_escu by (try reflexivity; assumption).
        rewrite IHs. rewrite <- prepend_app. reflexivity.
      * intros f2 Lf. destruct f2 as [|f2]; [cbn in Lf; lia|].
        rewrite parse_2028 by assumption. rewrite IHp by (cbn in Lf; lia).
        cbn [ocons]. rewrite <- F3. now rewrite Hfs.
    + destruct (utf8_decode_prefix _ _ _ D E' NE) as (_ & Hall). specialize (Hall Hc).
      split.
      * intros X. rewrite <- app_assoc, scan_plain.
        -- rewrite IHs. now rewrite prepend_app.
        -- eapply Forall_impl; [|exact Hall]. intros a Ha. cbv beta in Ha. unfold plain_byte. lia.
      * intros f2 Lf. rewrite app_length, firstn_length in Lf.
        destruct f2 as [|f2]; [lia|].
        rewrite (parse_multi _ _ _ _ _ NE D E' Hc). rewrite IHp by lia. cbn [ocons]. now rewrite Hfs.
Qed.

Definition str_ok (s : bytes) : Prop := utf8_valid s = true.

(* the string part of C04: decodeString after the opening quote of emitString's output *)
Theorem string_roundtrip s rest : str_ok s ->
  decode_string (emit_body (length s) s ++ 34 :: rest) = Some (s, rest).
Proof.
  intros V. destruct (emit_roundtrip (length s) s (le_n _) V) as [Hs Hp].
  unfold decode_string. rewrite Hs. cbn [str_scan]. change (34 =? 34) with true. cbv iota. cbn [prepend].
  rewrite app_nil_r. rewrite Hp by lia. reflexivity.
Qed.

Lemma emit_string_head s : exists body, emit_string s = 34 :: body.
Proof. eexists. reflexivity. Qed.
