(* Proofs/BindFacts.v — basic facts about the bind model: pointers, integer ranges, list helpers. *)
Require Import IP.Base.Bytes IP.DM.Value IP.Bind.GoVal IP.Bind.Bind IP.Bind.Spec.
From Coq Require Import ZifyN ZifyNat ZifyBool.
Open Scope N_scope.

Lemma bres_bind_ok : forall {A B} (r : bres A) (f : A -> bres B) a, r = Ok a -> bind r f = f a.
Proof. intros; subst; reflexivity. Qed.

Lemma andb3 : forall a b c, a && b && c = true -> a = true /\ b = true /\ c = true.
Proof. intros a b c H; destruct a, b, c; auto. Qed.

(* ---- pointers -------------------------------------------------------------------------------- *)

Lemma bindable_noptr : forall t s, bindable t s = true -> shape_is_ptr s = false.
Proof. intros t s H; destruct t, s; simpl in *; congruence. Qed.

Lemma gv_ok_noptr : forall q n32 t s v, gv_ok q n32 t s (GPtr v) = false.
Proof.
  intros q n32 t s v; destruct t; simpl; try reflexivity.
  - destruct s; reflexivity.
  - destruct s as [| | [|] | | | | | | | |]; reflexivity.
  - destruct s; reflexivity.
  - destruct s as [| | | | | | | | |n fs|]; try reflexivity.
    destruct fs as [|[a b] [|[c e] [|]]]; try reflexivity;
      destruct b; try reflexivity; destruct e; reflexivity.
  - destruct s; reflexivity.
  - destruct s; reflexivity.
  - destruct s; reflexivity.
Qed.

Lemma unptr_noptr : forall g, (forall w, g <> GPtr w) -> unptr g = g.
Proof. intros g H; destruct g; try reflexivity. exfalso; eapply H; reflexivity. Qed.

Lemma gv_ok_unptr : forall q n32 t s g, gv_ok q n32 t s g = true -> unptr g = g.
Proof.
  intros. apply unptr_noptr. intros w ->. rewrite gv_ok_noptr in H. discriminate.
Qed.

Lemma nonptr_noptr : forall s g, shape_is_ptr s = false -> nonptr s g = Ok (s, g).
Proof. intros s g H; destruct s; simpl in *; try reflexivity; discriminate. Qed.

(* view looks through exactly one pointer *)
Lemma view_ptr : forall q lv t s v, shape_is_ptr s = false ->
  view q lv t (SPtr s) (GPtr v) = view q lv t s v.
Proof.
  intros q lv t s v H. destruct t; simpl; rewrite (nonptr_noptr s v H); reflexivity.
Qed.

Lemma denote_ptr : forall lv t v, (forall w, v <> GPtr w) -> denote lv t (GPtr v) = denote lv t v.
Proof.
  intros lv t v H. destruct t; simpl; rewrite (unptr_noptr v H); reflexivity.
Qed.

(* ---- integer ranges -------------------------------------------------------------------------- *)

Lemma ik_narrow_in : forall k z, ik_in k z = true -> ik_narrow k z = z.
Proof.
  intros k z H. unfold ik_in, ik_lo, ik_hi, ik_narrow in *.
  destruct k; cbn [ik_unsigned ik_bits] in *;
    change (2 ^ (8 - 1))%Z with 128%Z in *; change (2 ^ 8)%Z with 256%Z in *;
    change (2 ^ (16 - 1))%Z with 32768%Z in *; change (2 ^ 16)%Z with 65536%Z in *;
    change (2 ^ (32 - 1))%Z with 2147483648%Z in *; change (2 ^ 32)%Z with 4294967296%Z in *;
    change (2 ^ (64 - 1))%Z with 9223372036854775808%Z in *;
    change (2 ^ 64)%Z with 18446744073709551616%Z in *;
    apply andb_prop in H; destruct H as [H1 H2];
    apply Z.leb_le in H1; apply Z.ltb_lt in H2;
    first [ apply Z.mod_small; lia
          | match goal with |- ((?z + ?a) mod ?m - ?a)%Z = ?z => rewrite (Z.mod_small (z + a) m) by lia; lia end ].
Qed.

Lemma signed_below_two63 : forall k z, ik_unsigned k = false -> ik_in k z = true -> (z <? two63z)%Z = true.
Proof.
  intros k z Hu H. unfold ik_in, ik_lo, ik_hi in H. rewrite Hu in H.
  apply andb_prop in H; destruct H as [_ H2]. apply Z.ltb_lt in H2. apply Z.ltb_lt.
  unfold two63z.
  destruct k; cbn [ik_bits] in *; try discriminate;
    change (2 ^ (8 - 1))%Z with 128%Z in *;
    change (2 ^ (16 - 1))%Z with 32768%Z in *;
    change (2 ^ (32 - 1))%Z with 2147483648%Z in *;
    change (2 ^ (64 - 1))%Z with 9223372036854775808%Z in *; lia.
Qed.

Lemma unsigned_nonneg : forall k z, ik_unsigned k = true -> ik_in k z = true -> (z <? 0)%Z = false.
Proof.
  intros k z Hu H. unfold ik_in, ik_lo in H. rewrite Hu in H.
  apply andb_prop in H; destruct H as [H1 _]. apply Z.leb_le in H1. apply Z.ltb_ge. exact H1.
Qed.

(* ---- list helpers ---------------------------------------------------------------------------- *)

Lemma mapM_ok : forall {A B} (f : A -> bres B) (h : A -> B) l,
  Forall (fun x => f x = Ok (h x)) l -> mapM f l = Ok (map h l).
Proof.
  intros A B f h l H; induction H; simpl; [reflexivity|].
  rewrite H. simpl. rewrite IHForall. reflexivity.
Qed.

Lemma forallb_Forall : forall {A} (p : A -> bool) l, forallb p l = true -> Forall (fun x => p x = true) l.
Proof.
  intros A p l; induction l; simpl; intros H; constructor.
  - apply andb_prop in H; tauto.
  - apply IHl; apply andb_prop in H; tauto.
Qed.

Lemma set_nth_app : forall {A} (pre : list A) x y post,
  set_nth (length pre) x (pre ++ y :: post) = pre ++ x :: post.
Proof. intros A pre; induction pre; simpl; intros; [reflexivity | f_equal; apply IHpre]. Qed.

Lemma nth_app_here : forall {A} (pre : list A) y post d, nth (length pre) (pre ++ y :: post) d = y.
Proof. intros A pre; induction pre; simpl; intros; [reflexivity | apply IHpre]. Qed.

Lemma bytes_eqb_refl : forall b, bytes_eqb b b = true.
Proof. induction b; simpl; [reflexivity | rewrite N.eqb_refl; exact IHb]. Qed.

Lemma bytes_eqb_eq : forall a b, bytes_eqb a b = true -> a = b.
Proof.
  induction a; destruct b; simpl; intros H; try discriminate; [reflexivity|].
  apply andb_prop in H; destruct H as [H1 H2]. apply N.eqb_eq in H1. subst. f_equal. auto.
Qed.

Lemma bytes_eqb_sym : forall a b, bytes_eqb a b = bytes_eqb b a.
Proof.
  induction a; destruct b; simpl; try reflexivity. rewrite N.eqb_sym, IHa. reflexivity.
Qed.

Lemma existsb_false_In : forall k l, existsb (bytes_eqb k) l = false -> forall x, In x l -> bytes_eqb k x = false.
Proof.
  intros k l; induction l; simpl; intros H x Hin; [contradiction|].
  apply orb_false_elim in H; destruct H. destruct Hin; [subst; assumption | auto].
Qed.
