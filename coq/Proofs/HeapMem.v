(* Proofs/HeapMem.v — facts about the heap of Heap/GoMem.v: get/set/alloc algebra, the interpreter
   on binds, the frame property of the access log (cells not written or allocated are unchanged). *)
Require Import IP.Base.Bytes IP.Heap.GoMem.
From Coq Require Import List Arith Bool Lia.
Import ListNotations.
Local Open Scope nat_scope.

Lemma addr_eqb_eq : forall a b, addr_eqb a b = true <-> a = b.
Proof.
  intros [a1 a2] [b1 b2]; unfold addr_eqb; cbn. rewrite andb_true_iff, !Nat.eqb_eq.
  split; [intros [-> ->]; reflexivity | intros H; inversion H; auto].
Qed.

Lemma addr_eqb_refl : forall a, addr_eqb a a = true.
Proof. intros; apply addr_eqb_eq; reflexivity. Qed.

Lemma addr_eqb_neq : forall a b, addr_eqb a b = false <-> a <> b.
Proof.
  intros a b; split; intros H.
  - intros ->. rewrite addr_eqb_refl in H; discriminate.
  - destruct (addr_eqb a b) eqn:E; [apply addr_eqb_eq in E; contradiction | reflexivity].
Qed.

Lemma addr_dec : forall a b : addr, {a = b} + {a <> b}.
Proof. decide equality; apply Nat.eq_dec. Qed.

Section Mem.
  Variable V : Type.
  Notation cell := (cell V).
  Notation heap := (heap V).

  Lemma nth_set_arena_same : forall r (h : heap) x, nth r (set_arena r h x) [] = x.
  Proof. induction r; destruct h; cbn; auto. Qed.

  Lemma nth_set_arena_other : forall r r' (h : heap) x, r <> r' -> nth r' (set_arena r h x) [] = nth r' h [].
  Proof.
    induction r; destruct r', h; cbn; intros; try congruence; auto.
    - destruct r'; reflexivity.
    - rewrite IHr by congruence. destruct r'; reflexivity.
  Qed.

  Lemma nth_error_upd_same : forall A n (l : list A) x, n < length l -> nth_error (upd n l x) n = Some x.
  Proof. induction n; destruct l; cbn; intros; try lia; auto. apply IHn; lia. Qed.

  Lemma nth_error_upd_other : forall A n m (l : list A) x, n <> m -> nth_error (upd n l x) m = nth_error l m.
  Proof. induction n; destruct m, l; cbn; intros; try congruence; auto. Qed.

  Lemma length_upd : forall A n (l : list A) x, length (upd n l x) = length l.
  Proof. induction n; destruct l; cbn; auto. Qed.

  Lemma hget_hset_same : forall (h : heap) a c c0, hget h a = Some c0 -> hget (hset h a c) a = Some c.
  Proof.
    unfold hget, hset; intros h [r i] c c0 H; cbn in *.
    rewrite nth_set_arena_same. apply nth_error_upd_same. apply nth_error_Some. congruence.
  Qed.

  Lemma hget_hset_other : forall (h : heap) a a' c, a <> a' -> hget (hset h a c) a' = hget h a'.
  Proof.
    unfold hget, hset; intros h [r i] [r' i'] c H; cbn in *.
    destruct (Nat.eq_dec r r') as [->|Hr].
    - rewrite nth_set_arena_same. apply nth_error_upd_other. congruence.
    - rewrite nth_set_arena_other by assumption. reflexivity.
  Qed.

  Lemma hget_halloc_new : forall r (h h' : heap) c a, halloc r h c = (h', a) -> hget h' a = Some c /\ hget h a = None.
  Proof.
    unfold halloc, hget; intros r h h' c a H; inversion H; subst; cbn.
    rewrite nth_set_arena_same. split.
    - rewrite nth_error_app2 by lia. rewrite Nat.sub_diag. reflexivity.
    - apply nth_error_None. lia.
  Qed.

  Lemma hget_halloc_old : forall r (h h' : heap) c a a', halloc r h c = (h', a) -> a' <> a -> hget h' a' = hget h a'.
  Proof.
    unfold halloc, hget; intros r h h' c a [r' i'] H Hn; inversion H; subst; cbn in *.
    destruct (Nat.eq_dec r r') as [->|Hr].
    - rewrite nth_set_arena_same.
      destruct (Nat.lt_ge_cases i' (length (nth r' h []))).
      + rewrite nth_error_app1 by assumption. reflexivity.
      + assert (i' <> length (nth r' h [])) by congruence.
        transitivity (@None cell); [|symmetry]; apply nth_error_None; rewrite ?app_length; cbn; lia.
    - rewrite nth_set_arena_other by assumption. reflexivity.
  Qed.

  Lemma hget_halloc_mono : forall r (h h' : heap) c a a' c', halloc r h c = (h', a) -> hget h a' = Some c' -> hget h' a' = Some c'.
  Proof.
    intros. destruct (hget_halloc_new _ _ _ _ _ H) as [_ Hn].
    rewrite (hget_halloc_old _ _ _ _ _ a' H); auto. congruence.
  Qed.

  (* ------------------------------------------------------------ the interpreter *)

  Arguments halloc : simpl never.
  Arguments hget : simpl never.
  Arguments hset : simpl never.

  Lemma run_bind : forall A B (p : prog V A) (f : A -> prog V B) ar h,
    run ar (pbind p f) h =
    match run ar p h with
    | (Done a, h1, l1) => let '(o, h2, l2) := run ar (f a) h1 in (o, h2, l1 ++ l2)
    | (Crashed, h1, l1) => (Crashed, h1, l1)
    end.
  Proof.
    induction p as [x0 | a k IH | a c k IH | c k IH | ]; intros; cbn.
    - destruct (run ar (f x0) h) as [[o h2] l2]; reflexivity.
    - destruct (hget h a) as [c|]; [|reflexivity].
      rewrite IH. destruct (run ar (k c) h) as [[[x|] h1] l1]; cbn; [|reflexivity].
      destruct (run ar (f x) h1) as [[o h2] l2]; reflexivity.
    - destruct (hget h a); [|reflexivity].
      rewrite IH. destruct (run ar k (hset h a c)) as [[[x|] h1] l1]; cbn; [|reflexivity].
      destruct (run ar (f x) h1) as [[o h2] l2]; reflexivity.
    - destruct (halloc ar h c) as [h1 a].
      rewrite IH. destruct (run ar (k a) h1) as [[[x|] h2] l2]; cbn; [|reflexivity].
      destruct (run ar (f x) h2) as [[o h3] l3]; reflexivity.
    - reflexivity.
  Qed.

  Definition writes (l : list ev) : list addr :=
    flat_map (fun e => match e with EWr a | ENew a => [a] | ERd _ => [] end) l.
  Definition reads (l : list ev) : list addr :=
    flat_map (fun e => match e with ERd a => [a] | _ => [] end) l.

  (* frame: what the log does not name as written is unchanged; cells never disappear *)
  Lemma run_frame : forall A (p : prog V A) ar h o h' l,
    run ar p h = (o, h', l) ->
    forall a, ~ In a (writes l) -> hget h' a = hget h a.
  Proof.
    induction p as [x0 | a k IH | a c k IH | c k IH | ]; cbn; intros ar h o h' l Hr x Hx.
    - inversion Hr; subst; reflexivity.
    - destruct (hget h a) as [c|] eqn:E.
      + destruct (run ar (k c) h) as [[o1 h1] l1] eqn:R. inversion Hr; subst.
        eapply IH; eauto.
      + inversion Hr; subst; reflexivity.
    - destruct (hget h a) eqn:E.
      + destruct (run ar k (hset h a c)) as [[o1 h1] l1] eqn:R. inversion Hr; subst. cbn in Hx.
        rewrite (IH _ _ _ _ _ R x) by tauto. apply hget_hset_other. tauto.
      + inversion Hr; subst; reflexivity.
    - destruct (halloc ar h c) as [h1 a] eqn:Ea.
      destruct (run ar (k a) h1) as [[o1 h2] l2] eqn:R. inversion Hr; subst. cbn in Hx.
      rewrite (IH _ _ _ _ _ _ R x) by tauto. eapply hget_halloc_old; eauto; try (intros ->; tauto).
    - inversion Hr; subst; reflexivity.
  Qed.

  Lemma run_mono : forall A (p : prog V A) ar h o h' l,
    run ar p h = (o, h', l) -> forall a, hget h a <> None -> hget h' a <> None.
  Proof.
    induction p as [x0 | a k IH | a c k IH | c k IH | ]; cbn; intros ar h o h' l Hr x Hx.
    - inversion Hr; subst; assumption.
    - destruct (hget h a) as [c|] eqn:E.
      + destruct (run ar (k c) h) as [[o1 h1] l1] eqn:R. inversion Hr; subst. eapply IH; eauto.
      + inversion Hr; subst; assumption.
    - destruct (hget h a) eqn:E.
      + destruct (run ar k (hset h a c)) as [[o1 h1] l1] eqn:R. inversion Hr; subst.
        eapply IH; eauto. destruct (addr_dec a x) as [->|Hn].
        * erewrite hget_hset_same by eauto. discriminate.
        * rewrite hget_hset_other by assumption. assumption.
      + inversion Hr; subst; assumption.
    - destruct (halloc ar h c) as [h1 a] eqn:Ea.
      destruct (run ar (k a) h1) as [[o1 h2] l2] eqn:R. inversion Hr; subst.
      eapply IH; eauto. destruct (hget h x) eqn:E; [|congruence].
      erewrite hget_halloc_mono by eauto. discriminate.
    - inversion Hr; subst; assumption.
  Qed.

  (* a program without Wr/New leaves the heap alone *)
  Inductive wfree {A} : prog V A -> Prop :=
  | wf_ret : forall a, wfree (Ret a)
  | wf_rd : forall a k, (forall c, wfree (k c)) -> wfree (Rd a k)
  | wf_crash : wfree Crash.

  Lemma wfree_run : forall A (p : prog V A), wfree p -> forall ar h o h' l, run ar p h = (o, h', l) -> h' = h /\ writes l = [].
  Proof.
    induction 1 as [x0 | a k Hk IH | ]; cbn; intros ar h o h' l Hr.
    - inversion Hr; auto.
    - destruct (hget h a) as [c|].
      + destruct (run ar (k c) h) as [[o1 h1] l1] eqn:R. inversion Hr; subst. cbn. eapply IH; eauto.
      + inversion Hr; auto.
    - inversion Hr; auto.
  Qed.

  Lemma wfree_bind : forall A B (p : prog V A) (f : A -> prog V B), wfree p -> (forall a, wfree (f a)) -> wfree (pbind p f).
  Proof. induction 1; cbn; intros; auto; constructor; auto. Qed.

End Mem.

Arguments writes l.
Arguments reads l.
Arguments wfree {V A} p.
Global Arguments halloc : simpl never.
Global Arguments hget : simpl never.
Global Arguments hset : simpl never.
