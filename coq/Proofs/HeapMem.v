(* Proofs/HeapMem.v — facts about the heap of Heap/GoMem.v: get/set/alloc algebra, the interpreter
   on binds, the frame property of the access log (cells not written or allocated are unchanged). *)
Require Import IP.Base.Bytes IP.Heap.GoMem.
From Coq Require Import List Arith Bool Lia.
Import ListNotations.
Local Open Scope nat_scope.

Lemma addr_eqb_eq : forall a b, addr_eqb a b = true <-> a = b.
Proof.
  intros [a1 a2] [b1 b2]; unfold addr_eqb; cbn. rewrite andb_true_iff, !Nat.eqb_eq.
  split; [intros [-> ->]; reflexivity | intros H; inversion H; auto].
Qed.

Lemma addr_eqb_refl : forall a, addr_eqb a a = true.
Proof. intros; apply addr_eqb_eq; reflexivity. Qed.

Lemma addr_eqb_neq : forall a b, addr_eqb a b = false <-> a <> b.
Proof.
  intros a b; split; intros H.
  - intros ->. rewrite addr_eqb_refl in H; discriminate.
  - destruct (addr_eqb a b) eqn:E; [apply addr_eqb_eq in E; contradiction | reflexivity].
Qed.

Lemma addr_dec : forall a b : addr, {a = b} + {a <> b}.
Proof. decide equality; apply Nat.eq_dec. Qed.

Section Mem.
  Variable V : Type.
  Notation cell := (cell V).
  Notation heap := (heap V).

  Lemma nth_set_arena_same : forall r (h : heap) x, nth r (set_arena r h x) [] = x.
  Proof. induction r; destruct h; cbn; auto. Qed.

  Lemma nth_set_arena_other : forall r r' (h : heap) x, r <> r' -> nth r' (set_arena r h x) [] = nth r' h [].
  Proof.
    induction r; destruct r', h; cbn; intros; try congruence; auto.
    - destruct r'; reflexivity.
    - rewrite IHr by congruence. destruct r'; reflexivity.
  Qed.

  Lemma nth_error_upd_same : forall A n (l : list A) x, n < length l -> nth_error (upd n l x) n = Some x.
  Proof. induction n; destruct l; cbn; intros; try lia; auto. apply IHn; lia. Qed.

  Lemma nth_error_upd_other : forall A n m (l : list A) x, n <> m -> nth_error (upd n l x) m = nth_error l m.
  Proof. induction n; destruct m, l; cbn; intros; try congruence; auto. Qed.

  Lemma length_upd : forall A n (l : list A) x, length (upd n l x) = length l.
  Proof. induction n; destruct l; cbn; auto. Qed.

  Lemma nth_error_updv_same : forall n (l : list (cell * nat)) c c0 v,
    nth_error l n = Some (c0, v) -> nth_error (updv n l c) n = Some (c, S v).
  Proof. induction n; destruct l as [|[c1 v1] l]; cbn; intros; try discriminate; [congruence | eauto]. Qed.

  Lemma nth_error_updv_none : forall n (l : list (cell * nat)) c, nth_error l n = None -> nth_error (updv n l c) n = None.
  Proof. induction n; destruct l as [|[c1 v1] l]; cbn; intros; try discriminate; auto. Qed.

  Lemma nth_error_updv_other : forall n m (l : list (cell * nat)) c, n <> m -> nth_error (updv n l c) m = nth_error l m.
  Proof. induction n; destruct m, l as [|[c1 v1] l]; cbn; intros; try congruence; auto. Qed.

  Lemma hgetv_hset_same : forall (h : heap) a c c0 v, hgetv h a = Some (c0, v) -> hgetv (hset h a c) a = Some (c, S v).
  Proof.
    unfold hgetv, hset; intros h [r i] c c0 v H; cbn in *.
    rewrite nth_set_arena_same. eapply nth_error_updv_same; eauto.
  Qed.

  Lemma hgetv_hset_none : forall (h : heap) a c, hgetv h a = None -> hgetv (hset h a c) a = None.
  Proof.
    unfold hgetv, hset; intros h [r i] c H; cbn in *.
    rewrite nth_set_arena_same. apply nth_error_updv_none; assumption.
  Qed.

  Lemma hgetv_hset_other : forall (h : heap) a a' c, a <> a' -> hgetv (hset h a c) a' = hgetv h a'.
  Proof.
    unfold hgetv, hset; intros h [r i] [r' i'] c H; cbn in *.
    destruct (Nat.eq_dec r r') as [->|Hr].
    - rewrite nth_set_arena_same. apply nth_error_updv_other. congruence.
    - rewrite nth_set_arena_other by assumption. reflexivity.
  Qed.

  Lemma hgetv_halloc_new : forall r (h h' : heap) c a, halloc r h c = (h', a) -> hgetv h' a = Some (c, 0) /\ hgetv h a = None.
  Proof.
    unfold halloc, hgetv; intros r h h' c a H; inversion H; subst; cbn.
    rewrite nth_set_arena_same. split.
    - rewrite nth_error_app2 by lia. rewrite Nat.sub_diag. reflexivity.
    - apply nth_error_None. lia.
  Qed.

  Lemma hgetv_halloc_old : forall r (h h' : heap) c a a', halloc r h c = (h', a) -> a' <> a -> hgetv h' a' = hgetv h a'.
  Proof.
    unfold halloc, hgetv; intros r h h' c a [r' i'] H Hn; inversion H; subst; cbn in *.
    destruct (Nat.eq_dec r r') as [->|Hr].
    - rewrite nth_set_arena_same.
      destruct (Nat.lt_ge_cases i' (length (nth r' h []))).
      + rewrite nth_error_app1 by assumption. reflexivity.
      + assert (i' <> length (nth r' h [])) by congruence.
        transitivity (@None (cell * nat)); [|symmetry]; apply nth_error_None; rewrite ?app_length; cbn; lia.
    - rewrite nth_set_arena_other by assumption. reflexivity.
  Qed.

  Lemma hget_some : forall (h : heap) a c, hget h a = Some c <-> exists v, hgetv h a = Some (c, v).
  Proof.
    unfold hget; intros h a c. destruct (hgetv h a) as [[c1 v1]|]; split.
    - intros E; inversion E; eauto.
    - intros [v E]; inversion E; reflexivity.
    - discriminate.
    - intros [v E]; discriminate.
  Qed.

  Lemma hget_none : forall (h : heap) a, hget h a = None <-> hgetv h a = None.
  Proof. unfold hget; intros h a. destruct (hgetv h a) as [[c1 v1]|]; split; congruence. Qed.

  Lemma hget_hset_same : forall (h : heap) a c c0, hget h a = Some c0 -> hget (hset h a c) a = Some c.
  Proof.
    intros h a c c0 H. apply hget_some in H. destruct H as [v H]. apply hget_some. exists (S v).
    eapply hgetv_hset_same; eauto.
  Qed.

  Lemma hget_hset_other : forall (h : heap) a a' c, a <> a' -> hget (hset h a c) a' = hget h a'.
  Proof. intros. unfold hget. rewrite hgetv_hset_other by assumption. reflexivity. Qed.

  Lemma hget_halloc_new : forall r (h h' : heap) c a, halloc r h c = (h', a) -> hget h' a = Some c /\ hget h a = None.
  Proof.
    intros * H. destruct (hgetv_halloc_new _ _ _ _ _ H) as [H1 H2]. unfold hget. rewrite H1, H2. auto.
  Qed.

  Lemma hget_halloc_old : forall r (h h' : heap) c a a', halloc r h c = (h', a) -> a' <> a -> hget h' a' = hget h a'.
  Proof. intros. unfold hget. erewrite hgetv_halloc_old by eauto. reflexivity. Qed.

  Lemma hget_halloc_mono : forall r (h h' : heap) c a a' c', halloc r h c = (h', a) -> hget h a' = Some c' -> hget h' a' = Some c'.
  Proof.
    intros. destruct (hget_halloc_new _ _ _ _ _ H) as [_ Hn].
    rewrite (hget_halloc_old _ _ _ _ _ a' H); auto. congruence.
  Qed.

  (* ------------------------------------------------------------ the interpreter *)

  Arguments halloc : simpl never.
  Arguments hget : simpl never.
  Arguments hgetv : simpl never.
  Arguments hset : simpl never.

  Lemma run_bind : forall A B (p : prog V A) (f : A -> prog V B) ar h,
    run ar (pbind p f) h =
    match run ar p h with
    | (Done a, h1, l1) => let '(o, h2, l2) := run ar (f a) h1 in (o, h2, l1 ++ l2)
    | (Crashed, h1, l1) => (Crashed, h1, l1)
    end.
  Proof.
    induction p as [x0 | a k IH | a c k IH | c k IH | ]; intros; cbn.
    - destruct (run ar (f x0) h) as [[o h2] l2]; reflexivity.
    - destruct (hget h a) as [c|]; [|reflexivity].
      rewrite IH. destruct (run ar (k c) h) as [[[x|] h1] l1]; cbn; [|reflexivity].
      destruct (run ar (f x) h1) as [[o h2] l2]; reflexivity.
    - destruct (hget h a); [|reflexivity].
      rewrite IH. destruct (run ar k (hset h a c)) as [[[x|] h1] l1]; cbn; [|reflexivity].
      destruct (run ar (f x) h1) as [[o h2] l2]; reflexivity.
    - destruct (halloc ar h c) as [h1 a].
      rewrite IH. destruct (run ar (k a) h1) as [[[x|] h2] l2]; cbn; [|reflexivity].
      destruct (run ar (f x) h2) as [[o h3] l3]; reflexivity.
    - reflexivity.
  Qed.

  Definition writes (l : list ev) : list addr :=
    flat_map (fun e => match e with EWr a | ENew a => [a] | ERd _ => [] end) l.
  Definition reads (l : list ev) : list addr :=
    flat_map (fun e => match e with ERd a => [a] | _ => [] end) l.

  (* frame: what the log does not name as written is unchanged; cells never disappear *)
  Lemma run_frame : forall A (p : prog V A) ar h o h' l,
    run ar p h = (o, h', l) ->
    forall a, ~ In a (writes l) -> hget h' a = hget h a.
  Proof.
    induction p as [x0 | a k IH | a c k IH | c k IH | ]; cbn; intros ar h o h' l Hr x Hx.
    - inversion Hr; subst; reflexivity.
    - destruct (hget h a) as [c|] eqn:E.
      + destruct (run ar (k c) h) as [[o1 h1] l1] eqn:R. inversion Hr; subst.
        eapply IH; eauto.
      + inversion Hr; subst; reflexivity.
    - destruct (hget h a) eqn:E.
      + destruct (run ar k (hset h a c)) as [[o1 h1] l1] eqn:R. inversion Hr; subst. cbn in Hx.
        rewrite (IH _ _ _ _ _ R x) by tauto. apply hget_hset_other. tauto.
      + inversion Hr; subst; reflexivity.
    - destruct (halloc ar h c) as [h1 a] eqn:Ea.
      destruct (run ar (k a) h1) as [[o1 h2] l2] eqn:R. inversion Hr; subst. cbn in Hx.
      rewrite (IH _ _ _ _ _ _ R x) by tauto. eapply hget_halloc_old; eauto; try (intros ->; tauto).
    - inversion Hr; subst; reflexivity.
  Qed.

  Lemma run_mono : forall A (p : prog V A) ar h o h' l,
    run ar p h = (o, h', l) -> forall a, hget h a <> None -> hget h' a <> None.
  Proof.
    induction p as [x0 | a k IH | a c k IH | c k IH | ]; cbn; intros ar h o h' l Hr x Hx.
    - inversion Hr; subst; assumption.
    - destruct (hget h a) as [c|] eqn:E.
      + destruct (run ar (k c) h) as [[o1 h1] l1] eqn:R. inversion Hr; subst. eapply IH; eauto.
      + inversion Hr; subst; assumption.
    - destruct (hget h a) eqn:E.
      + destruct (run ar k (hset h a c)) as [[o1 h1] l1] eqn:R. inversion Hr; subst.
        eapply IH; eauto. destruct (addr_dec a x) as [->|Hn].
        * erewrite hget_hset_same by eauto. discriminate.
        * rewrite hget_hset_other by assumption. assumption.
      + inversion Hr; subst; assumption.
    - destruct (halloc ar h c) as [h1 a] eqn:Ea.
      destruct (run ar (k a) h1) as [[o1 h2] l2] eqn:R. inversion Hr; subst.
      eapply IH; eauto. destruct (hget h x) eqn:E; [|congruence].
      erewrite hget_halloc_mono by eauto. discriminate.
    - inversion Hr; subst; assumption.
  Qed.

  (* write counters: they never decrease, and every store to an existing cell increases its counter *)
  Definition stores (l : list ev) : list addr :=
    flat_map (fun e => match e with EWr a => [a] | _ => [] end) l.

  Lemma run_ver_mono : forall A (p : prog V A) ar h o h' l,
    run ar p h = (o, h', l) ->
    forall a c v, hgetv h a = Some (c, v) -> exists c' v', hgetv h' a = Some (c', v') /\ v <= v'.
  Proof.
    induction p as [x0 | a k IH | a c k IH | c k IH | ]; cbn; intros ar h o h' l Hr x cx vx Hx.
    - inversion Hr; subst; eauto.
    - destruct (hget h a) as [c|] eqn:E.
      + destruct (run ar (k c) h) as [[o1 h1] l1] eqn:R. inversion Hr; subst. eapply IH; eauto.
      + inversion Hr; subst; eauto.
    - destruct (hget h a) eqn:E.
      + destruct (run ar k (hset h a c)) as [[o1 h1] l1] eqn:R. inversion Hr; subst.
        destruct (addr_dec a x) as [->|Hn].
        * pose proof (hgetv_hset_same _ _ c _ _ Hx) as H1.
          destruct (IH _ _ _ _ _ R _ _ _ H1) as (c' & v' & H2 & H3). exists c', v'. split; [assumption | lia].
        * eapply IH; eauto. rewrite hgetv_hset_other by assumption. eassumption.
      + inversion Hr; subst; eauto.
    - destruct (halloc ar h c) as [h1 a] eqn:Ea.
      destruct (run ar (k a) h1) as [[o1 h2] l2] eqn:R. inversion Hr; subst.
      eapply IH; eauto. destruct (hgetv_halloc_new _ _ _ _ _ Ea) as [_ Hn].
      rewrite (hgetv_halloc_old _ _ _ _ _ x Ea); [eassumption | congruence].
    - inversion Hr; subst; eauto.
  Qed.

  Lemma run_store_bumps : forall A (p : prog V A) ar h o h' l,
    run ar p h = (o, h', l) ->
    forall a c v, In a (stores l) -> hgetv h a = Some (c, v) -> exists c' v', hgetv h' a = Some (c', v') /\ v < v'.
  Proof.
    induction p as [x0 | a k IH | a c k IH | c k IH | ]; cbn; intros ar h o h' l Hr x cx vx Hin Hx.
    - inversion Hr; subst. contradiction.
    - destruct (hget h a) as [c|] eqn:E.
      + destruct (run ar (k c) h) as [[o1 h1] l1] eqn:R. inversion Hr; subst. cbn in Hin. eapply IH; eauto.
      + inversion Hr; subst. cbn in Hin. contradiction.
    - destruct (hget h a) eqn:E.
      + destruct (run ar k (hset h a c)) as [[o1 h1] l1] eqn:R. inversion Hr; subst. cbn in Hin.
        destruct (addr_dec a x) as [->|Hn].
        * pose proof (hgetv_hset_same _ _ c _ _ Hx) as H1.
          destruct (run_ver_mono _ _ _ _ _ _ _ R _ _ _ H1) as (c' & v' & H2 & H3). exists c', v'. split; [assumption | lia].
        * destruct Hin as [->|Hin]; [contradiction|]. eapply IH; eauto. rewrite hgetv_hset_other by assumption. eassumption.
      + inversion Hr; subst. cbn in Hin. destruct Hin as [->|[]].
        apply hget_none in E. congruence.
    - destruct (halloc ar h c) as [h1 a] eqn:Ea.
      destruct (run ar (k a) h1) as [[o1 h2] l2] eqn:R. inversion Hr; subst. cbn in Hin.
      eapply IH; eauto. destruct (hgetv_halloc_new _ _ _ _ _ Ea) as [_ Hn].
      rewrite (hgetv_halloc_old _ _ _ _ _ x Ea); [eassumption | congruence].
    - inversion Hr; subst. contradiction.
  Qed.

  (* a program without Wr/New leaves the heap alone *)
  Inductive wfree {A} : prog V A -> Prop :=
  | wf_ret : forall a, wfree (Ret a)
  | wf_rd : forall a k, (forall c, wfree (k c)) -> wfree (Rd a k)
  | wf_crash : wfree Crash.

  Lemma wfree_run : forall A (p : prog V A), wfree p -> forall ar h o h' l, run ar p h = (o, h', l) -> h' = h /\ writes l = [].
  Proof.
    induction 1 as [x0 | a k Hk IH | ]; cbn; intros ar h o h' l Hr.
    - inversion Hr; auto.
    - destruct (hget h a) as [c|].
      + destruct (run ar (k c) h) as [[o1 h1] l1] eqn:R. inversion Hr; subst. cbn. eapply IH; eauto.
      + inversion Hr; auto.
    - inversion Hr; auto.
  Qed.

  Lemma wfree_bind : forall A B (p : prog V A) (f : A -> prog V B), wfree p -> (forall a, wfree (f a)) -> wfree (pbind p f).
  Proof. induction 1; cbn; intros; auto; constructor; auto. Qed.

End Mem.

Arguments writes l.
Arguments stores l.
Arguments reads l.
Arguments wfree {V A} p.
Global Arguments halloc : simpl never.
Global Arguments hget : simpl never.
Global Arguments hgetv : simpl never.
Global Arguments hset : simpl never.
