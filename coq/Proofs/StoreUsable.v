(* Proofs/StoreUsable.v — the freshly initialised store is [good]; every system call preserves
   well-formedness; no step of any writer touches the base directory chain or .temp; hence after ANY
   execution (crashes, failures) the store is [good]: a new process can open it, put and get (C18_usable),
   and the sequential store refines the finite map from its initial state (C17_refines, fs). *)
Require Import IP.Base.Bytes IP.Base.GoSem IP.Gen.FromGo IP.Store.Storage IP.Store.FsStore IP.Store.FsCrash.
Require Import IP.Proofs.StoreBase IP.Proofs.StoreMem IP.Proofs.StoreFs IP.Proofs.StoreCrash IP.Proofs.StoreCrashTop
               IP.Proofs.StoreSeq IP.Proofs.StoreGood IP.Proofs.StoreFsRefine.
From Coq Require Import Lia List Bool Arith NArith.
Import ListNotations.

(* ------------------------------------------------------------------ the fresh store *)

Lemma assoc_dirs_of_shape : forall b pre q n, assoc_path (dirs_of pre b) q = Some n ->
  exists i, (0 < i <= length b)%nat /\ q = pre ++ firstn i b.
Proof.
  induction b; intros pre q n H; simpl in H. discriminate.
  destruct (path_eqb (pre ++ [a]) q) eqn:E.
  - apply path_eqb_eq in E. exists 1%nat. simpl. split. lia. auto.
  - apply IHb in H. destruct H as [i [Hi X]]. exists (S i). simpl. split. lia.
    rewrite X. rewrite <- app_assoc. auto.
Qed.

Lemma dirs_of_lookup : forall b i, (0 < i <= length b)%nat -> fs_lookup (dirs_of [] b) (firstn i b) = Some Dir.
Proof. intros b i H. apply (dirs_of_prefixes b i H). Qed.

Lemma dirs_of_wf : forall b, fs_wf (dirs_of [] b).
Proof.
  intros b p n PN L. destruct p as [|c p']; try congruence. simpl in L.
  apply assoc_dirs_of_shape in L. destruct L as [i [Hi X]]. simpl in X. rewrite X.
  destruct i; try lia. destruct (firstn_succ_snoc b i) as [x FX]. lia.
  rewrite FX. rewrite dirname_snoc. destruct i. reflexivity. apply dirs_of_lookup. lia.
Qed.

Section Fresh.
  Variable cfg : fscfg.
  Hypothesis base_ok : path_ok (f_base cfg).

  Lemma staging_ok : path_ok (staging_dir (f_base cfg)).
  Proof. unfold staging_dir. apply path_ok_app. split; auto. constructor; [apply temp_comp_ok|constructor]. Qed.

  Lemma stat_dir : forall f q, path_ok q -> all_dirs f q -> sys_exec f (SStat q) = (f, Ok (RVNode Dir)).
  Proof.
    intros f q P D. simpl. destruct q as [|c q'].
    - unfold resolve. simpl. auto.
    - rewrite resolve_ok; auto; try discriminate.
      + rewrite (all_dirs_self f (c :: q')); auto. discriminate.
      + destruct (exists_last (l := c :: q')) as [a [l E]]. discriminate. rewrite E in *. rewrite dirname_snoc.
        eapply all_dirs_prefix. exact D.
  Qed.

  Lemma fs_fresh_eq : fs_fresh cfg = fs_set (dirs_of [] (f_base cfg)) (staging_dir (f_base cfg)) Dir.
  Proof.
    unfold fs_fresh, fs_init.
    rewrite stat_dir; auto; [|apply dirs_of_prefixes].
    rewrite exec_mkdir_ok; auto.
    - unfold staging_dir. destruct (f_base cfg); discriminate.
    - apply staging_ok.
    - unfold staging_dir. rewrite dirname_snoc. apply dirs_of_prefixes.
    - destruct (fs_lookup (dirs_of [] (f_base cfg)) (staging_dir (f_base cfg))) as [n|] eqn:X; auto.
      unfold staging_dir in X. destruct (f_base cfg ++ [temp_name]) eqn:Y. { destruct (f_base cfg); discriminate. }
      simpl in X. apply assoc_dirs_of_inv in X. destruct X as [_ X]. rewrite <- Y in X.
      rewrite app_length in X. simpl in X. lia.
  Qed.

  Lemma fresh_good : good cfg (fs_fresh cfg).
  Proof.
    assert (SN : staging_dir (f_base cfg) <> []). { unfold staging_dir. destruct (f_base cfg); discriminate. }
    constructor.
    - (* wf *)
      rewrite fs_fresh_eq. intros p n PN L.
      destruct (path_eqb (staging_dir (f_base cfg)) p) eqn:X.
      + apply path_eqb_eq in X. subst p. unfold staging_dir at 2. rewrite dirname_snoc.
        rewrite lookup_set_other.
        * destruct (f_base cfg) as [|b0 bs] eqn:B. reflexivity. rewrite <- B.
          pose proof (dirs_of_prefixes (f_base cfg) (length (f_base cfg))) as X. rewrite firstn_all in X.
          apply X. rewrite B. simpl. lia.
        * unfold staging_dir. intros Y. apply (f_equal (@length _)) in Y. rewrite app_length in Y. simpl in Y. lia.
      + apply path_eqb_neq in X. rewrite lookup_set_other in L by auto.
        pose proof (dirs_of_wf (f_base cfg) p n PN L) as D.
        rewrite lookup_set_other; auto. intros Y.
        destruct p as [|c p']; try congruence. simpl in L. apply assoc_dirs_of_inv in L. destruct L as [_ L].
        simpl in L. assert (length (dirname (c :: p')) <= length (c :: p'))%nat by apply removelast_length_le.
        rewrite <- Y in H. unfold staging_dir in H. rewrite app_length in H. simpl in H. lia.
    - apply fs_fresh_prefixes.
    - rewrite fs_fresh_eq. apply lookup_set_same. auto.
    - intros p c L. apply fs_fresh_lookup in L. destruct L. discriminate.
    - intros p L. apply fs_fresh_lookup in L. destruct L as [_ L]. unfold short, keylen.
      destruct (f_shard cfg); simpl; lia.
  Qed.

  (* C17_refines for the file-system store, from the freshly initialised store *)
  Theorem fs_refines : forall ops,
    (forall k k', wfb k -> wfb k' -> enc_key cfg k = enc_key cfg k' -> k = k') ->
    hist_ok (@Some (list N)) true spec_empty ops = true -> Forall (op_storable cfg) ops ->
    (N.of_nat (length ops) < 2 ^ 254)%N ->
    fs_obs cfg (fstate0 cfg) ops = spec_run (@Some (list N)) true spec_empty ops.
  Proof.
    intros ops EI OK ST CT. apply (fs_refines_from cfg base_ok EI); auto.
    constructor; simpl; auto.
    - apply fresh_good.
    - intros name HN. exfalso. apply HN.
      destruct (fs_lookup (fs_fresh cfg) (stage_path (f_base cfg) name)) eqn:X; auto.
      apply fs_fresh_lookup in X. destruct X as [_ X]. unfold stage_path in X. rewrite app_length in X. simpl in X. lia.
    - intros k d [_ [K _]]. destruct (fs_lookup (fs_fresh cfg) d) eqn:X; auto.
      apply fs_fresh_lookup in X. destruct X as [_ X]. rewrite (keypath_length cfg k d K) in X.
      unfold keylen in X. destruct (f_shard cfg); simpl in X; lia.
    - intros sid sp H. destruct sid; discriminate.
    - intros sid H. destruct sid; discriminate.
    - intros i j sp H. destruct i; discriminate.
  Qed.
End Fresh.

(* ------------------------------------------------------------------ nothing a writer does touches the base chain or .temp *)

Section Usable.
  Variable cfg : fscfg.
  Hypothesis base_ok : path_ok (f_base cfg).
  Hypothesis enc_inj : forall k k', wfb k -> wfb k' -> enc_key cfg k = enc_key cfg k' -> k = k'.
  Variable C : list N -> list N -> Prop.

  Definition protected_len (q : list (list N)) : Prop := (length q <= length (f_base cfg) + 1)%nat.

  Lemma eff_protected : forall f s f1 r q, eff f s f1 r -> fs_lookup f q = Some Dir ->
    (forall p, s = SUnlink p -> p <> q) -> (forall p p', s = SRename p p' -> p <> q /\ p' <> q) ->
    fs_lookup f1 q = Some Dir.
  Proof.
    intros f s f1 r q E L U RN.
    inversion E; subst; auto; try (rewrite lookup_set_other; auto; intros X; subst; congruence).
    - destruct (RN p q0 eq_refl) as [A B]. rewrite lookup_set_other by auto. rewrite lookup_remove_other; auto.
    - rewrite lookup_remove_other; auto; exact (U p eq_refl).
  Qed.

  Lemma staging_len : forall p, in_staging cfg p -> length p = (length (f_base cfg) + 2)%nat.
  Proof. intros p [name E]. subst. unfold stage_path. rewrite app_length. reflexivity. Qed.

  Lemma step_protected : forall f ws i w s f1 r q,
    inv cfg C f ws -> nth_error ws i = Some w -> w_next (w_env w) (w_pc w) = Some s -> eff f s f1 r ->
    protected_len q -> fs_lookup f q = Some Dir -> fs_lookup f1 q = Some Dir.
  Proof.
    intros f ws i w s f1 r q I N NX EF PL L.
    destruct (inv_w _ _ _ _ I i w N) as [[EB ED] [PO SG]].
    eapply eff_protected; eauto.
    - intros p HS X. subst s q. unfold staged in SG.
      destruct (w_pc w) as [tr ch|st ch|st a|st a|st b|st b|st b|st p0 sk|st p0 sk|st|r0];
        simpl in NX; try discriminate; try (destruct ch; discriminate);
        injection NX as NX; subst; simpl in SG; apply staging_len in SG; unfold protected_len in PL; lia.
    - intros p p' HS. subst s. unfold staged in SG. unfold pc_ok in PO.
      destruct (w_pc w) as [tr ch|st ch|st a|st a|st b|st b|st b|st p0 sk|st p0 sk|st|r0];
        simpl in NX; try discriminate; try (destruct ch; discriminate).
      injection NX as NX1 NX2. subst. simpl in SG. split.
      + intros X. subst q. apply staging_len in SG. unfold protected_len in PL. lia.
      + intros X. subst q. destruct PO as [_ D]. unfold w_dest in PL.
        destruct (we_dest (w_env w)) as [d|]; try congruence.
        destruct ED as [K _]. apply (keypath_length cfg) in K. unfold protected_len in PL. unfold keylen in K.
        destruct (f_shard cfg); simpl in K; lia.
  Qed.

  Definition steady (f : fs) : Prop :=
    fs_wf f /\ all_dirs f (f_base cfg) /\ fs_lookup f (staging_dir (f_base cfg)) = Some Dir.

  Lemma exec_ev_steady : forall f ws e, inv cfg C f ws -> steady f -> steady (fst (exec_ev f ws e)).
  Proof.
    intros f ws e I [W [B T]].
    assert (PB : forall n, (0 < n <= length (f_base cfg))%nat -> protected_len (firstn n (f_base cfg))).
    { intros n Hn. unfold protected_len. rewrite firstn_length. lia. }
    assert (PT : protected_len (staging_dir (f_base cfg))).
    { unfold protected_len, staging_dir. rewrite app_length. simpl. lia. }
    destruct e as [i|i err part]; simpl.
    - destruct (nth_error ws i) as [w|] eqn:N; simpl; [|repeat split; auto].
      destruct (w_next (w_env w) (w_pc w)) as [s|] eqn:NX; simpl; [|repeat split; auto].
      pose proof (sys_exec_eff f s) as EF. pose proof (sys_exec_wf f s W) as W1.
      destruct (sys_exec f s) as [f1 r]. simpl in *. split; auto. split.
      + intros n Hn. eapply step_protected; eauto.
      + eapply step_protected; eauto.
    - destruct (nth_error ws i) as [w|] eqn:N; simpl; [|repeat split; auto].
      destruct (w_next (w_env w) (w_pc w)) as [s|] eqn:NX; simpl; [|repeat split; auto].
      split. apply fail_effect_wf; auto. split.
      + intros n Hn. apply (step_protected f ws i w s (fail_effect f s part) (Err err) _ I N NX (fail_eff f s part err)); auto.
      + apply (step_protected f ws i w s (fail_effect f s part) (Err err) _ I N NX (fail_eff f s part err)); auto.
  Qed.

  Lemma exec_steady : forall sched f ws, inv cfg C f ws -> steady f -> steady (fst (exec f ws sched)).
  Proof.
    induction sched; intros f ws I S; simpl; auto.
    pose proof (exec_ev_inv cfg C f ws a I) as I1.
    pose proof (exec_ev_steady f ws a I S) as S1.
    destruct (exec_ev f ws a) as [f1 ws1]. simpl in *. apply IHsched; auto.
  Qed.

  Lemma inv_steady_good : forall f ws, inv cfg C f ws -> steady f -> good cfg f.
  Proof.
    intros f ws I [W [B T]]. constructor; auto.
    - intros p c L. destruct (inv_files _ _ _ _ I p c L) as [S|[k [K _]]]; eauto.
    - apply (inv_dirs _ _ _ _ I).
  Qed.
End Usable.

(* C18_usable: after any execution from a freshly initialised store — any writers, any
   interleaving, cut anywhere, any failures — a new process can open the store, and a put of any
   storable key under an unused staging name succeeds and can be read back *)
Theorem crash_usable : forall cfg ws sched,
  path_ok (f_base cfg) ->
  (forall k k', wfb k -> wfb k' -> enc_key cfg k = enc_key cfg k' -> k = k') ->
  Forall (writer_started cfg) ws ->
  let f := fst (exec (fs_fresh cfg) ws sched) in
  good cfg f /\
  fs_init cfg f = (f, Ok tt) /\
  forall k d env chunks, storable cfg k d ->
    we_base env = f_base cfg -> we_dest env = Some d -> comp_ok (we_names env 0) ->
    fs_lookup f (stage_path (f_base cfg) (we_names env 0)) = None ->
    exists f' log, w_run (w_fuel env chunks) env f (WCreate 0 chunks) [] = (f', Ok tt, log) /\
                   good cfg f' /\
                   sys_exec f' (SOpenRd d) = (f', Ok (RVNode (File (concat chunks)))).
Proof.
  intros cfg ws sched BO EI F f.
  assert (R : Forall (writer_ready cfg (committed ws)) ws).
  { apply Forall_forall. intros w Hin. rewrite Forall_forall in F. destruct (F w Hin) as [B [T D]].
    split; auto. split; auto. destruct (we_dest (w_env w)) eqn:X; auto. split; auto.
    exists w. repeat split; auto. congruence. }
  pose proof (inv_initial cfg (committed ws) ws R) as I0.
  pose proof (exec_inv cfg (committed ws) sched _ _ I0) as I.
  pose proof (fresh_good cfg BO) as G0.
  assert (S0 : steady cfg (fs_fresh cfg)) by (repeat split; apply G0).
  assert (S : steady cfg (fst (exec (fs_fresh cfg) ws sched))) by (eapply exec_steady; eauto).
  pose proof (inv_steady_good cfg (committed ws) _ _ I S) as G. fold f in G, S.
  split; auto. split.
  - destruct S as [W [B T]]. unfold fs_init.
    rewrite (stat_dir f (f_base cfg)); auto.
    assert (TD : all_dirs f (staging_dir (f_base cfg))) by (unfold staging_dir; apply all_dirs_snoc; auto).
    assert (MK : sys_exec f (SMkdir (staging_dir (f_base cfg))) = (f, Err EEXIST)).
    { simpl. rewrite resolve_ok. rewrite T. auto.
      unfold staging_dir. destruct (f_base cfg); discriminate. apply staging_ok; auto.
      unfold staging_dir. rewrite dirname_snoc. auto. }
    rewrite MK. rewrite (stat_dir f (staging_dir (f_base cfg))); auto. apply staging_ok; auto.
  - intros k d env chunks ST EB ED NO FR.
    destruct (put_good cfg BO f k d env chunks G ST EB ED NO FR) as [f' [log [RUN [G' [LD _]]]]].
    exists f', log. split; auto. split; auto.
    rewrite (read_result cfg BO EI f' k d (SOpenRd d) G' ST) by auto. rewrite LD. auto.
Qed.

(* with the escaping function applied, every non-empty key whose escaped form fits a file name is storable *)
Lemma escaping_storable : forall cfg k, escaping cfg -> wfb k -> k <> [] -> key_len_ok (enc_key cfg k) ->
  (lenN (enc_key cfg k) <=? name_max)%N = true -> exists d, storable cfg k d.
Proof.
  intros cfg k E WF N L S. pose proof (esc_plain cfg k E N) as P.
  destruct (path_for_key_plain cfg k L P) as [cs [X _]].
  eexists. split; auto. split; auto. split; auto. split; eauto.
Qed.

(* without it (the pinned code), exactly the keys without '/', '.', NUL *)
Lemma plain_storable : forall cfg k, q_no_escape cfg = true -> wfb k -> plain k -> key_len_ok k ->
  (lenN k <=? name_max)%N = true -> exists d, storable cfg k d.
Proof.
  intros cfg k Q WF P L S.
  assert (E : enc_key cfg k = k) by (unfold enc_key; rewrite Q; auto).
  assert (P' : plain (enc_key cfg k)) by (rewrite E; auto).
  assert (L' : key_len_ok (enc_key cfg k)) by (rewrite E; auto).
  destruct (path_for_key_plain cfg k L' P') as [cs [X _]].
  eexists. split. destruct P; auto. split. split; eauto. rewrite E. auto.
Qed.
