(* Proofs/NodeSeg.v — strconv.ParseInt (FormatInt i) = i on int64 (as modelled): a list index given
   as PathSegmentOfInt(i) and as PathSegmentOfString(FormatInt(i)) addresses the same element. *)
Require Import IP.Base.Bytes IP.DM.Value IP.Node.Basic IP.Node.Protocol IP.Proofs.NodeRead.
From Coq Require Import ZifyN ZifyNat ZifyBool.
Ltac Zify.zify_post_hook ::= Z.div_mod_to_equations.
Open Scope N_scope.

Definition is_digit (c : N) : Prop := 48 <= c <= 57.

Lemma fmt_dec_S : forall f n acc,
  fmt_dec (S f) n acc =
  (if n <? 10 then (48 + n mod 10) :: acc else fmt_dec f (n / 10) ((48 + n mod 10) :: acc)).
Proof. reflexivity. Qed.

Lemma parse_digit_step : forall c rest a, is_digit c ->
  parse_digits (c :: rest) a = parse_digits rest (a * 10 + (c - 48)).
Proof.
  intros c rest a [H1 H2]. simpl.
  assert (E1 : (48 <=? c) = true) by (apply N.leb_le; auto).
  assert (E2 : (c <=? 57) = true) by (apply N.leb_le; auto).
  rewrite E1, E2. reflexivity.
Qed.

Lemma fmt_dec_spec : forall f n acc,
  n < 10 ^ N.of_nat (S f) ->
  exists ds d, fmt_dec (S f) n acc = ds ++ acc /\ ds <> [] /\ Forall is_digit ds /\
               forall rest a, parse_digits (ds ++ rest) a = parse_digits rest (a * 10 ^ d + n).
Proof.
  induction f as [|f IH]; intros n acc Hn; rewrite fmt_dec_S.
  - assert (n < 10) by (change (N.of_nat 1) with 1 in Hn; rewrite N.pow_1_r in Hn; auto).
    assert (E : (n <? 10) = true) by (apply N.ltb_lt; auto). rewrite E.
    assert (Hd : is_digit (48 + n mod 10)) by (unfold is_digit; lia).
    assert (Hv : 48 + n mod 10 - 48 = n) by lia.
    remember (48 + n mod 10) as c eqn:Hc.
    exists [c], 1. split; [reflexivity|]. split; [discriminate|].
    split; [constructor; auto|].
    intros rest a. cbn [app]. rewrite parse_digit_step by auto.
    rewrite Hv, N.pow_1_r. reflexivity.
  - destruct (n <? 10) eqn:E.
    + apply N.ltb_lt in E.
      assert (Hd : is_digit (48 + n mod 10)) by (unfold is_digit; lia).
      assert (Hv : 48 + n mod 10 - 48 = n) by lia.
      remember (48 + n mod 10) as c eqn:Hc.
      exists [c], 1. split; [reflexivity|]. split; [discriminate|].
      split; [constructor; auto|].
      intros rest a. cbn [app]. rewrite parse_digit_step by auto.
      rewrite Hv, N.pow_1_r. reflexivity.
    + apply N.ltb_ge in E.
      assert (Hq : n / 10 < 10 ^ N.of_nat (S f)).
      { replace (N.of_nat (S (S f))) with (N.succ (N.of_nat (S f))) in Hn by lia.
        rewrite N.pow_succ_r' in Hn. apply N.div_lt_upper_bound; lia. }
      assert (Hd : is_digit (48 + n mod 10)) by (unfold is_digit; lia).
      assert (Hv : 48 + n mod 10 - 48 = n mod 10) by lia.
      assert (Hn10 : n = 10 * (n / 10) + n mod 10) by (apply N.div_mod').
      remember (48 + n mod 10) as c eqn:Hc.
      destruct (IH (n / 10) (c :: acc) Hq) as (ds & d & Hf & Hne & Hall & Hp).
      exists (ds ++ [c]), (d + 1). split.
      { rewrite Hf. rewrite <- app_assoc. reflexivity. }
      split. { destruct ds; discriminate. }
      split. { apply Forall_app. split; auto. }
      intros rest a. rewrite <- app_assoc. rewrite Hp. cbn [app].
      rewrite parse_digit_step by auto. rewrite Hv. f_equal.
      rewrite N.pow_add_r, N.pow_1_r.
      remember (n / 10) as qn. remember (n mod 10) as rn. remember (10 ^ d) as pd. lia.
Qed.

Lemma fmt_dec_parse : forall n, n < 10 ^ 20 ->
  exists c ds, fmt_dec 20 n [] = c :: ds /\ is_digit c /\ parse_udec (c :: ds) = Some n.
Proof.
  intros n Hn. destruct (fmt_dec_spec 19 n [] Hn) as (ds & d & Hf & Hne & Hall & Hp).
  rewrite app_nil_r in Hf. destruct ds as [|c ds]; [congruence|].
  exists c, ds. split; auto. inversion Hall; subst. split; auto.
  unfold parse_udec. specialize (Hp [] 0). rewrite app_nil_r in Hp. rewrite Hp. simpl. f_equal.
Qed.

Theorem parse_format : forall z, (- two63z <= z < two63z)%Z -> parse_int (format_int z) = Some z.
Proof.
  intros z Hz. unfold format_int. unfold two63z in Hz.
  destruct (z <? 0)%Z eqn:E.
  - apply Z.ltb_lt in E.
    assert (Hn : Z.to_N (- z) < 10 ^ 20) by (change (10 ^ 20) with 100000000000000000000; lia).
    destruct (fmt_dec_parse _ Hn) as (c & ds & Hf & Hc & Hp). rewrite Hf.
    unfold parse_int. change (45 =? 43) with false. change (45 =? 45) with true. cbv iota.
    rewrite Hp.
    assert (El : (Z.to_N (- z) <=? two63) = true) by (apply N.leb_le; unfold two63; lia).
    rewrite El. f_equal. lia.
  - apply Z.ltb_ge in E.
    assert (Hn : Z.to_N z < 10 ^ 20) by (change (10 ^ 20) with 100000000000000000000; lia).
    destruct (fmt_dec_parse _ Hn) as (c & ds & Hf & [Hc1 Hc2] & Hp). rewrite Hf.
    unfold parse_int.
    assert (E1 : (c =? 43) = false) by (apply N.eqb_neq; lia).
    assert (E2 : (c =? 45) = false) by (apply N.eqb_neq; lia).
    rewrite E1, E2. rewrite Hp.
    assert (El : (Z.to_N z <? two63) = true) by (apply N.ltb_lt; unfold two63; lia).
    rewrite El. f_equal. lia.
Qed.

(* on a list, the int form and the decimal-string form of a segment address the same element *)
Theorem segment_forms_agree : forall n i,
  kind_of n = KList -> (0 <= i < two63z)%Z ->
  lookup_by_segment n (seg_of_string (format_int i)) = lookup_by_segment n (seg_of_int i) /\
  lookup_by_segment n (seg_of_int i) = lookup_by_index n i.
Proof.
  intros n i Hk Hi.
  destruct (list_views n Hk) as (_ & _ & _ & _ & Hint & Hstr & _).
  rewrite (Hint i) by lia. split; auto.
  apply Hstr. apply parse_format. unfold two63z in *. lia.
Qed.
