(* Proofs/XformRefute.v — the full statement of C16 as a predicate over the quirk record; it holds for
   the repaired model and is refuted, with witnesses, for each confirmed defect of the pinned tree.
   Also: examples showing that the hypotheses of the theorems are satisfiable (with a link crossed). *)
Require Import IP.Base.Bytes IP.DM.Value IP.Xform.Transform IP.Proofs.XformBase IP.Proofs.XformFocus
  IP.Proofs.XformLaws.
From Coq Require Import Lia.
Open Scope Z_scope.

(* A completed transform returns the tree the SPEC describes. *)
Definition C16_returns_spec (q : quirks) : Prop :=
  forall ltb mklink f cp fault fuel st root p t res st' log,
    (forall x v, owf x -> f x = Some v -> wf_dm v = true) ->
    raw t = root -> valid st t -> wfx t ->
    focused_transform ltb mklink q f cp fault fuel st root p = Ok (res, (st', log)) ->
    match xupdate ltb mklink f cp st t p with
    | XNeedLoad => True
    | XOk (Some t') _ => res = raw t'
    | _ => False
    end.

(* Where the SPEC defines a result (and the root's prototype accepts it), the transform does not panic. *)
Definition C16_no_panic (q : quirks) : Prop :=
  forall ltb mklink f cp fault fuel st root p t t' seen,
    (forall x v, owf x -> f x = Some v -> wf_dm v = true) ->
    raw t = root -> valid st t -> wfx t ->
    xupdate ltb mklink f cp st t p = XOk (Some t') seen ->
    (p = [] -> root_accepts root (raw t') = true) ->
    focused_transform ltb mklink q f cp fault fuel st root p <> Err EPanic.

Lemma returns_spec_fixed : C16_returns_spec q_fixed.
Proof.
  intros ltb mklink f cp fault fuel st root p t res st' log Hf Hr Hv Hw HF.
  pose proof (focus_ok ltb mklink f cp fault Hf fuel st root p t res st' log Hr Hv Hw HF) as H.
  destruct (xupdate ltb mklink f cp st t p) as [[t'|] seen| |]; auto. now destruct H.
Qed.

Lemma no_panic_fixed : C16_no_panic q_fixed.
Proof.
  intros ltb mklink f cp fault fuel st root p t t' seen Hf Hr Hv Hw HX Hacc HF.
  assert (Hne : EPanic <> EFuel) by discriminate.
  assert (Hns : EPanic <> EStore) by discriminate.
  pose proof (focus_err ltb mklink f cp fault Hf fuel st root p t EPanic Hr Hv Hw HF Hne Hns) as H.
  rewrite HX in H. destruct H as (Hp & Hna & _). rewrite (Hacc Hp) in Hna. discriminate.
Qed.

(* ---- witnesses *)
Definition no_order : bytes -> bytes -> bool := fun _ _ => false.
Definition no_link : dm -> cid := fun _ => [].
Definition fdel : option dm -> option dm := fun _ => None.
Definition fconst (v : dm) : option dm -> option dm := fun _ => Some v.
Lemma fdel_wf : forall x v, owf x -> fdel x = Some v -> wf_dm v = true.
Proof. discriminate. Qed.
Lemma fconst_wf c : wf_dm c = true -> forall x v, owf x -> fconst c x = Some v -> wf_dm v = true.
Proof. intros H x v _ E. inversion E; subst. exact H. Qed.

Definition l123 : dm := DList [DInt 1; DInt 2; DInt 3].
Definition seg1 : bytes := [49%N].           (* "1" *)
Definition segzz : bytes := [122%N; 122%N].  (* "zz" *)
Definition sega : bytes := [97%N].           (* "a" *)
Definition mab : dm := DMap [(sega, DInt 1)].

Ltac wf_leafs := repeat (constructor; try reflexivity).

(* fn -> nil on a list element: a nil node in a list of unchanged length *)
Lemma refuted_list_delete : ~ C16_returns_spec (Build_quirks true false false false false false).
Proof.
  intro H.
  specialize (H no_order no_link fdel false false 10%nat [] l123 [seg1] (inject l123)
                (DList [DInt 1; nil_node; DInt 3]) [] [Some (DInt 2)] fdel_wf eq_refl).
  assert (Hv : valid [] (inject l123)) by apply valid_inject.
  assert (Hw : wfx (inject l123)) by (apply wfx_inject; reflexivity).
  specialize (H Hv Hw eq_refl). vm_compute in H. discriminate.
Qed.

(* fn -> nil on "-": a nil node is appended *)
Lemma refuted_append_nil : ~ C16_returns_spec (Build_quirks false true false false false false).
Proof.
  intro H.
  specialize (H no_order no_link fdel false false 10%nat [] l123 [dash] (inject l123)
                (DList [DInt 1; DInt 2; DInt 3; nil_node]) [] [None] fdel_wf eq_refl).
  assert (Hv : valid [] (inject l123)) by apply valid_inject.
  assert (Hw : wfx (inject l123)) by (apply wfx_inject; reflexivity).
  specialize (H Hv Hw eq_refl). vm_compute in H. discriminate.
Qed.

(* fn -> nil on a missing map key: the key is inserted with a nil node *)
Lemma refuted_missing_key : ~ C16_returns_spec (Build_quirks false false true false false false).
Proof.
  intro H.
  specialize (H no_order no_link fdel false false 10%nat [] mab [segzz] (inject mab)
                (DMap [(sega, DInt 1); (segzz, nil_node)]) [] [None; None] fdel_wf eq_refl).
  assert (Hv : valid [] (inject mab)) by apply valid_inject.
  assert (Hw : wfx (inject mab)) by (apply wfx_inject; reflexivity).
  specialize (H Hv Hw eq_refl). vm_compute in H. discriminate.
Qed.

(* a negative index appends *)
Lemma refuted_negative_index : ~ C16_returns_spec (Build_quirks false false false true false false).
Proof.
  intro H.
  specialize (H no_order no_link (fconst (DInt 7)) false false 10%nat [] l123 [[45%N; 53%N]] (inject l123)
                (DList [DInt 1; DInt 2; DInt 3; DInt 7]) [] [None] (fconst_wf (DInt 7) eq_refl) eq_refl).
  assert (Hv : valid [] (inject l123)) by apply valid_inject.
  assert (Hw : wfx (inject l123)) by (apply wfx_inject; reflexivity).
  specialize (H Hv Hw eq_refl). vm_compute in H. exact H.
Qed.

(* "-" then further segments creates parents although createParents = false *)
Lemma refuted_append_parents : ~ C16_returns_spec (Build_quirks false false false false true false).
Proof.
  intro H.
  specialize (H no_order no_link (fconst (DInt 7)) false false 10%nat [] l123 [dash; sega] (inject l123)
                (DList [DInt 1; DInt 2; DInt 3; DMap [(sega, DInt 7)]]) [] [None]
                (fconst_wf (DInt 7) eq_refl) eq_refl).
  assert (Hv : valid [] (inject l123)) by apply valid_inject.
  assert (Hw : wfx (inject l123)) by (apply wfx_inject; reflexivity).
  specialize (H Hv Hw eq_refl). vm_compute in H. exact H.
Qed.

(* a Null root panics even under the identity *)
Lemma refuted_null_root : ~ C16_no_panic (Build_quirks false false false false false true).
Proof.
  intro H.
  specialize (H no_order no_link fid false false 10%nat [] DNull [] (XLeaf DNull) (XLeaf DNull) (Some DNull)
                fid_wf eq_refl (V_leaf [] DNull) (W_leaf DNull eq_refl) eq_refl (fun _ => eq_refl)).
  apply H. reflexivity.
Qed.

(* deleting a list element inside a linked block: the block with the nil node cannot be encoded *)
Definition blk : dm := DList [DInt 1; DInt 2].
Definition st1 : store := [([9%N], blk)].
Definition root1 : dm := DMap [(sega, DLink [9%N])].
Definition t1 : xt := XMap [(sega, XBlock [9%N] (inject blk))].
Lemma t1_valid : valid st1 t1.
Proof. constructor. constructor; [|constructor]. simpl. constructor; [reflexivity | apply (valid_inject st1 blk)]. Qed.
Lemma t1_wfx : wfx t1.
Proof. constructor; [reflexivity|]. constructor; [|constructor]. simpl. constructor. apply (wfx_inject blk). reflexivity. Qed.

Lemma refuted_delete_in_block_panics : ~ C16_no_panic (Build_quirks true false false false false false).
Proof.
  intro H.
  eapply (H no_order no_link fdel false false 10%nat st1 root1 [sega; seg1] t1 _ _ fdel_wf eq_refl t1_valid t1_wfx).
  - vm_compute. reflexivity.
  - discriminate.
  - vm_compute. reflexivity.
Qed.

Theorem pinned_refuted : ~ C16_returns_spec q_pinned /\ ~ C16_no_panic q_pinned.
Proof.
  split; intro H.
  - specialize (H no_order no_link fdel false false 10%nat [] l123 [seg1] (inject l123)
                  (DList [DInt 1; nil_node; DInt 3]) [] [Some (DInt 2)] fdel_wf eq_refl).
    assert (Hv : valid [] (inject l123)) by apply valid_inject.
    assert (Hw : wfx (inject l123)) by (apply wfx_inject; reflexivity).
    specialize (H Hv Hw eq_refl). vm_compute in H. discriminate.
  - specialize (H no_order no_link fid false false 10%nat [] DNull [] (XLeaf DNull) (XLeaf DNull) (Some DNull)
                  fid_wf eq_refl (V_leaf [] DNull) (W_leaf DNull eq_refl) eq_refl (fun _ => eq_refl)).
    apply H. reflexivity.
Qed.

(* ---------------------------------------------------------------- satisfiable hypotheses *)
(* a link function for the examples: lists of one int are linked by that int, everything else by [] *)
Definition ex_link (b : dm) : cid := match b with DList [DInt z] => [Z.to_N z] | _ => [] end.
Definition ex_st : store := [([1%N], DList [DInt 1])].
Definition ex_root : dm := DMap [(sega, DLink [1%N])].
Definition ex_t : xt := XMap [(sega, XBlock [1%N] (XList [XLeaf (DInt 1)]))].
Definition ex_path : path := [sega; [48%N]].   (* a/0 *)
Definition ex_st' : store := [([2%N], DList [DInt 2]); ([1%N], DList [DInt 1])].

Lemma ex_valid : valid ex_st ex_t.
Proof. repeat constructor. Qed.
Lemma ex_wfx : wfx ex_t.
Proof. repeat (constructor; try reflexivity). Qed.

Lemma ex_coherent : coherent ex_link ex_st'.
Proof.
  intros b v. unfold ex_link.
  destruct b as [| | | | | | |l|]; try discriminate.
  destruct l as [|d [|? ?]]; try discriminate; [|destruct d; discriminate]. destruct d; try discriminate.
  simpl. destruct (N.eqb (Z.to_N z) 2) eqn:E2; simpl.
  - apply N.eqb_eq in E2. intro E; inversion E; subst. f_equal. f_equal. f_equal. lia.
  - destruct (N.eqb (Z.to_N z) 1) eqn:E1; simpl; [|discriminate].
    apply N.eqb_eq in E1. intro E; inversion E; subst. f_equal. f_equal. f_equal. lia.
Qed.

(* all hypotheses of focus_ok hold together, a link is crossed, and the final store is coherent *)
Example focus_ok_satisfiable :
  raw ex_t = ex_root /\ valid ex_st ex_t /\ wfx ex_t /\
  focused_transform rfc_ltb ex_link q_fixed (fconst (DInt 2)) false false 10 ex_st ex_root ex_path
  = Ok (DMap [(sega, DLink [2%N])], (ex_st', [Some (DInt 1)])) /\
  coherent ex_link ex_st' /\
  (exists t', xupdate rfc_ltb ex_link (fconst (DInt 2)) false ex_st ex_t ex_path = XOk (Some t') (Some (DInt 1))
              /\ valid ex_st' t').
Proof.
  split; [reflexivity|]. split; [exact ex_valid|]. split; [exact ex_wfx|].
  split; [vm_compute; reflexivity|]. split; [exact ex_coherent|].
  eexists. split; [vm_compute; reflexivity|]. repeat constructor.
Qed.

Lemma ex_store_wf : store_wf rfc_ltb ex_link ex_st.
Proof.
  intros c b. simpl. destruct (bytes_eqb c [1%N]) eqn:E; [|discriminate].
  apply xb_eqb_eq in E; subst. intro H; inversion H; subst. split; reflexivity.
Qed.

Example focus_identity_satisfiable :
  store_wf rfc_ltb ex_link ex_st /\ xfocus (Some ex_t) ex_path = Some (XLeaf (DInt 1)) /\
  focused_transform rfc_ltb ex_link q_fixed fid false false 10 ex_st ex_root ex_path
  = Ok (ex_root, (ex_st, [Some (DInt 1)])).
Proof. split; [exact ex_store_wf|]. split; [reflexivity | vm_compute; reflexivity]. Qed.

Example focus_seq_satisfiable :
  let steps := [(ex_path, fconst (DInt 2), false, false); ([segzz], fconst (DString sega), false, false)] in
  Forall step_wf steps /\
  mseq rfc_ltb ex_link 10 steps ex_st ex_root
  = Ok (DMap [(sega, DLink [2%N]); (segzz, DString sega)], ex_st') /\
  coherent ex_link ex_st' /\
  exists t_f, xseq rfc_ltb ex_link steps ex_t = Some t_f.
Proof.
  cbv zeta. split.
  - repeat constructor; intros x v _ E; inversion E; reflexivity.
  - split; [vm_compute; reflexivity|]. split; [exact ex_coherent|]. eexists. vm_compute. reflexivity.
Qed.

Example quirks_irrelevant_satisfiable :
  (forall x, fconst (DInt 2) x <> None) /\ path_ok false ex_path /\
  focused_transform rfc_ltb ex_link q_pinned (fconst (DInt 2)) false false 10 ex_st ex_root ex_path
  = Ok (DMap [(sega, DLink [2%N])], (ex_st', [Some (DInt 1)])).
Proof.
  split; [discriminate|]. split; [split; [reflexivity | right; reflexivity]|]. vm_compute. reflexivity.
Qed.
