(* Proofs/HeapC11.v — from the per-call triples to histories: every Legal history preserves the
   ownership invariant; frozen cells are preserved along it; what a read of a finished node returns
   depends on frozen cells only — hence C11. *)
Require Import IP.Base.Bytes IP.DM.Value IP.Gen.FromGo IP.Heap.GoMem IP.Heap.BasicHeap.
Require Import IP.Proofs.HeapMem IP.Proofs.HeapLogic IP.Proofs.HeapSteps IP.Proofs.HeapOps IP.Proofs.HeapPrims.
From Coq Require Import List Arith Bool Lia ZArith.
Import ListNotations.
Local Open Scope nat_scope.

(* ------------------------------------------------------------------ handles the client holds *)

Lemma skind_eqb_eq : forall a b, skind_eqb a b = true -> a = b.
Proof. destruct a, b; cbn; congruence. Qed.

Lemma slice_eqb_eq : forall a b, slice_eqb a b = true -> a = b.
Proof.
  intros [a1 a2 a3 a4] [b1 b2 b3 b4]; unfold slice_eqb; cbn. rewrite !andb_true_iff, !Nat.eqb_eq.
  intros [[[H1 ->] ->] ->]. destruct a1, b1; try discriminate; [apply addr_eqb_eq in H1; subst|]; reflexivity.
Qed.

Lemma nref_eqb_eq : forall a b, nref_eqb a b = true -> a = b.
Proof.
  destruct a, b; cbn; try discriminate; intros H; auto;
    try (apply addr_eqb_eq in H; subst; reflexivity).
  - apply andb_true_iff in H. destruct H as [H1 H2]. apply skind_eqb_eq in H1. apply addr_eqb_eq in H2. subst; reflexivity.
  - apply slice_eqb_eq in H. subst; reflexivity.
Qed.

Lemma handle_eqb_eq : forall a b, handle_eqb a b = true -> a = b.
Proof.
  destruct a, b; cbn; try discriminate; intros H; auto;
    try (apply addr_eqb_eq in H; subst; reflexivity).
  - apply nref_eqb_eq in H. subst; reflexivity.
  - apply slice_eqb_eq in H. subst; reflexivity.
Qed.

Definition KInv (tg : tags) (h : mheap) (k : list handle) : Prop := Forall (fun hd => handle_ok hd tg h) k.

Lemma handle_ok_ext : forall tg h tg' h' hd, Ext tg h tg' h' -> handle_ok hd tg h -> handle_ok hd tg' h'.
Proof.
  intros * HE. destruct hd; cbn; auto; [apply fref_ext | apply bslice_ok_ext | intros H; eapply rdr_at_stable; eauto]; assumption.
Qed.

Lemma KInv_ext : forall tg h tg' h' k, Ext tg h tg' h' -> KInv tg h k -> KInv tg' h' k.
Proof. intros * HE. apply Forall_impl. intros; eapply handle_ok_ext; eauto. Qed.

Lemma existsb_handle_in : forall hd k, existsb (handle_eqb hd) k = true -> In hd k.
Proof. intros hd k H. apply existsb_exists in H. destruct H as (x & Hx & E). apply handle_eqb_eq in E. subst; assumption. Qed.

Lemma known_ok : forall tg h k hd, KInv tg h k -> known_b k hd = true -> handle_ok hd tg h.
Proof.
  intros * HK Hk. unfold KInv in HK. rewrite Forall_forall in HK.
  destruct hd; cbn in *; auto.
  - destruct r; cbn; auto; try (apply existsb_handle_in in Hk; apply (HK _ Hk)).
    apply orb_true_iff in Hk. destruct Hk as [Hk|Hk]; apply existsb_handle_in in Hk; apply (HK _ Hk).
  - apply existsb_handle_in in Hk. apply (HK _ Hk).
  - apply existsb_handle_in in Hk. apply (HK _ Hk).
Qed.

Lemma add_known_ok : forall tg h k hd, KInv tg h k -> handle_ok hd tg h -> KInv tg h (add_known k hd).
Proof.
  intros * HK Hh. unfold add_known.
  destruct hd; auto.
  - destruct r; auto; destruct (existsb _ k); auto; constructor; auto.
  - destruct (existsb _ k); auto; constructor; auto.
  - destruct (existsb _ k); auto; constructor; auto.
Qed.

Lemma fold_add_known_ok : forall tg h l k, KInv tg h k -> Forall (fun hd => handle_ok hd tg h) l ->
  KInv tg h (fold_left add_known l k).
Proof.
  induction l; cbn; intros k HK HF; auto. inversion HF; subst. apply IHl; auto using add_known_ok.
Qed.

Lemma out_handles_ok : forall tg h o, pout_ok o tg h -> Forall (fun hd => handle_ok hd tg h) (out_handles o).
Proof.
  intros tg h o H. destruct o; cbn in *; auto.
  destruct x; cbn in *; auto.
  - apply Forall_map. revert H. apply Forall_impl. auto.
  - apply Forall_map. revert H. apply Forall_impl. auto.
  - destruct alias; auto.
Qed.

(* ------------------------------------------------------------------ one legal call *)

Definition SInv (tg : tags) (ps : pstate) : Prop := Inv tg (hp ps) /\ KInv tg (hp ps) (kn ps).

Lemma pstep_exec : forall cf ps p,
  pstep cf ps p =
  match exec (par ps) (prim_prog cf p) (hp ps) with
  | (Done po, h') => ({| hp := h'; kn := if returns_caps p then fold_left add_known (out_handles po) (kn ps) else kn ps;
                         par := par ps; ptr := p :: ptr ps |}, RDone po)
  | (Crashed, h') => ({| hp := h'; kn := kn ps; par := par ps; ptr := p :: ptr ps |}, RPanic)
  end.
Proof.
  intros. unfold pstep, exec. destruct (run (par ps) (prim_prog cf p) (hp ps)) as [[[po|] h'] l]; reflexivity.
Qed.

Lemma pstep_par : forall cf ps p, par (fst (pstep cf ps p)) = par ps.
Proof. intros. rewrite pstep_exec. destruct (exec (par ps) (prim_prog cf p) (hp ps)) as [[po|] h']; reflexivity. Qed.

Lemma runh_par : forall cf hs ps, par (runh cf ps hs) = par ps.
Proof. induction hs; cbn; intros; auto. rewrite IHhs. apply pstep_par. Qed.

Lemma pstep_inv : forall cf tg ps p, SInv tg ps -> legal ps p = true ->
  exists tg', SInv tg' (fst (pstep cf ps p)) /\ Ext tg (hp ps) tg' (hp (fst (pstep cf ps p))).
Proof.
  intros cf tg ps p [HI HK] Hl. unfold legal in Hl. apply andb_true_iff in Hl. destruct Hl as [Hops Hheap].
  assert (Hpre : prim_pre p tg (hp ps)).
  { split; [|assumption]. rewrite forallb_forall in Hops. apply Forall_forall. intros hd Hin.
    eapply known_ok; eauto. }
  rewrite pstep_exec. destruct (exec (par ps) (prim_prog cf p) (hp ps)) as [[po|] h'] eqn:He.
  - destruct (t_prim_prog cf p tg (hp ps) (par ps) _ _ HI Hpre He) as (tg' & [I' E'] & Hpost).
    exists tg'. cbn. split; [|assumption]. split; [assumption|]. cbn.
    pose proof (KInv_ext _ _ _ _ _ E' HK) as HK'.
    destruct (returns_caps p) eqn:Rc; [|assumption].
    apply fold_add_known_ok; [assumption|]. apply out_handles_ok. apply Hpost. exact Rc.
  - destruct (t_prim_prog cf p tg (hp ps) (par ps) _ _ HI Hpre He) as (tg' & [I' E'] & _).
    exists tg'. cbn. split; [|assumption]. split; [assumption|]. eapply KInv_ext; eauto.
Qed.

Lemma runh_inv : forall cf hs tg ps, SInv tg ps -> legalh cf ps hs = true ->
  exists tg', SInv tg' (runh cf ps hs) /\ Ext tg (hp ps) tg' (hp (runh cf ps hs)).
Proof.
  induction hs as [|p hs IH]; cbn; intros tg ps HS Hl.
  - exists tg. split; [assumption | apply Ext_refl].
  - apply andb_true_iff in Hl. destruct Hl as [L1 L2].
    destruct (pstep_inv cf tg ps p HS L1) as (tg1 & S1 & E1).
    destruct (IH tg1 _ S1 L2) as (tg2 & S2 & E2).
    exists tg2. split; [assumption | eapply Ext_trans; eauto].
Qed.

Lemma sinv_init : SInv (fun _ => TFree) pinit.
Proof. split; [apply inv_init | constructor]. Qed.

Lemma legalh_app : forall cf hs1 hs2 ps, legalh cf ps (hs1 ++ hs2) = true ->
  legalh cf ps hs1 = true /\ legalh cf (runh cf ps hs1) hs2 = true.
Proof.
  induction hs1; cbn; intros hs2 ps H; [auto|].
  apply andb_true_iff in H. destruct H as [H1 H2]. destruct (IHhs1 _ _ H2) as [H3 H4].
  rewrite H1, H3. auto.
Qed.

Lemma runh_app : forall cf hs1 hs2 ps, runh cf ps (hs1 ++ hs2) = runh cf (runh cf ps hs1) hs2.
Proof. induction hs1; cbn; intros; auto. Qed.

(* ------------------------------------------------------------------ reads depend on frozen cells only *)

Lemma exec_wfree_fst : forall A (p : mprog A) ar h, wfree p -> exec ar p h = (fst (exec ar p h), h).
Proof.
  intros A p ar h W. destruct (exec ar p h) as [o h1] eqn:E. pose proof (exec_wfree _ _ W _ _ _ _ E). subst. reflexivity.
Qed.

Section Stable.
  Variables (tg : tags) (h : mheap) (tg' : tags) (h' : mheap).
  Hypothesis HI : Inv tg h.
  Hypothesis HE : Ext tg h tg' h'.

  Lemma same_frozen : forall x c, tg x = TFrozen -> hget h x = Some c -> (forall r, c <> CRdr r) -> hget h' x = Some c.
  Proof. intros; eapply ext_same; eauto. Qed.

  Lemma read_bytes_stable : forall ar s, bslice_ok tg h s ->
    fst (exec ar (read_bytes s) h) = fst (exec ar (read_bytes s) h').
  Proof.
    intros ar s Hs. unfold read_bytes, bslice_ok in *. destruct (s_arr s) as [ba|]; [|reflexivity].
    destruct Hs as [Tb [bs Gb]]. rewrite !exec_rd, Gb. rewrite (same_frozen _ _ Tb Gb) by discriminate. reflexivity.
  Qed.

  Lemma read_slice_stable : forall ar s, slice_ok tg h TFrozen s ->
    fst (exec ar (read_slice s) h) = fst (exec ar (read_slice s) h').
  Proof.
    intros ar s Hs. unfold read_slice, slice_ok in *. destruct (s_arr s) as [ba|]; [|reflexivity].
    destruct Hs as [Tb [l Gb]]. rewrite !exec_rd, Gb. rewrite (same_frozen _ _ Tb Gb) by discriminate. reflexivity.
  Qed.

  Lemma rd_content_stable : forall fuel ar x, rdr_at x tg h ->
    fst (exec ar (rd_content fuel x) h) = fst (exec ar (rd_content fuel x) h').
  Proof.
    induction fuel; intros ar x [Tx [rd Gx]]; cbn [rd_content]; [reflexivity|].
    destruct (ext_rdr _ _ _ _ _ _ HE Tx Gx) as [rd' [Gx' Eq]].
    destruct (inv_frozen _ _ _ HI Tx) as [c [Gc Fc]]. rewrite Gx in Gc; inversion Gc; subst c.
    rewrite !exec_rd, Gx, Gx'. destruct rd as [s pos|p ra base off lim|src off], rd' as [s' pos'|p' ra' base' off' lim'|src' off']; cbn in Eq; try contradiction;
      [| |reflexivity].
    - subst s'. apply read_bytes_stable. exact Fc.
    - destruct Eq as (-> & -> & ->). cbn in Fc.
      rewrite !exec_bind.
      rewrite (exec_wfree_fst _ _ ar h (wfree_rd_content fuel p')).
      rewrite (exec_wfree_fst _ _ ar h' (wfree_rd_content fuel p')).
      rewrite <- (IHfuel ar p' Fc).
      destruct (fst (exec ar (rd_content fuel p') h)); [rewrite !exec_ret|]; reflexivity.
  Qed.

  Lemma acc_stable : forall ar cf r a, fref tg h r ->
    (cf_stream_shared cf = false \/ stream_acc r a = false) ->
    fst (exec ar (acc_prog cf r a) h) = fst (exec ar (acc_prog cf r a) h').
  Proof.
    intros ar cf r a Hr Hs.
    destruct r as [| |k x|sl|x|s|s|d].
    - reflexivity.
    - destruct a; reflexivity.
    - (* scalar *)
      destruct Hr as [Tx [sv Gx]].
      destruct a as [| | | | | |k'| |]; try reflexivity. cbn. destruct (skind_eqb k' k); [|reflexivity].
      unfold rdv. rewrite !exec_rd, Gx. rewrite (same_frozen _ _ Tx Gx) by discriminate. reflexivity.
    - (* plainBytes *)
      destruct a; try reflexivity; cbn; rewrite !exec_bind;
        rewrite (exec_wfree_fst _ _ ar h (wfree_read_bytes sl)), (exec_wfree_fst _ _ ar h' (wfree_read_bytes sl));
        rewrite <- (read_bytes_stable ar sl Hr);
        (destruct (fst (exec ar (read_bytes sl) h)); [rewrite !exec_ret|]; reflexivity).
    - (* streamBytes *)
      destruct a; try reflexivity; cbn; cbn in Hs;
        (destruct Hs as [Hs|Hs]; [|discriminate]); unfold stream_read; rewrite Hs; rewrite !exec_bind;
        rewrite (exec_wfree_fst _ _ ar h (wfree_rd_content rd_fuel x)), (exec_wfree_fst _ _ ar h' (wfree_rd_content rd_fuel x));
        rewrite <- (rd_content_stable rd_fuel ar x Hr);
        (destruct (fst (exec ar (rd_content rd_fuel x) h)); [rewrite !exec_ret|]; reflexivity).
    - (* map *)
      pose proof Hr as [Ts (t & g & Gs)].
      destruct (inv_frozen _ _ _ HI Ts) as [c [Gc Fc]]. rewrite Gs in Gc; inversion Gc; subst c. destruct Fc as [Hsl Hgm].
      pose proof (same_frozen _ _ Ts Gs ltac:(discriminate)) as Gs'.
      destruct a as [| |key|i| | |k'| |]; try reflexivity; cbn; unfold rdv; rewrite !exec_rd, Gs, Gs'; cbv beta iota.
      + reflexivity.
      + destruct g as [ga|]; [|reflexivity]. destruct Hgm as [Tg [es Ge]].
        rewrite !exec_rd, Ge. rewrite (same_frozen _ _ Tg Ge) by discriminate. reflexivity.
      + rewrite !exec_bind.
        rewrite (exec_wfree_fst _ _ ar h (wfree_read_slice t)), (exec_wfree_fst _ _ ar h' (wfree_read_slice t)).
        rewrite <- (read_slice_stable ar t Hsl).
        destruct (fst (exec ar (read_slice t) h)); [rewrite !exec_ret|]; reflexivity.
    - (* list *)
      pose proof Hr as [Ts (x & Gs)].
      destruct (inv_frozen _ _ _ HI Ts) as [c [Gc Hsl]]. rewrite Gs in Gc; inversion Gc; subst c. cbn in Hsl.
      pose proof (same_frozen _ _ Ts Gs ltac:(discriminate)) as Gs'.
      destruct a as [| |key|i| | |k'| |]; try reflexivity; cbn; unfold rdv; rewrite !exec_rd, Gs, Gs'; cbv beta iota.
      + reflexivity.
      + destruct ((i <? 0)%Z || (Z.of_nat (s_len x) <=? i)%Z); [reflexivity|].
        rewrite !exec_bind.
        rewrite (exec_wfree_fst _ _ ar h (wfree_read_slice x)), (exec_wfree_fst _ _ ar h' (wfree_read_slice x)).
        rewrite <- (read_slice_stable ar x Hsl).
        destruct (fst (exec ar (read_slice x) h)); [rewrite !exec_ret|]; reflexivity.
      + rewrite !exec_bind.
        rewrite (exec_wfree_fst _ _ ar h (wfree_read_slice x)), (exec_wfree_fst _ _ ar h' (wfree_read_slice x)).
        rewrite <- (read_slice_stable ar x Hsl).
        destruct (fst (exec ar (read_slice x) h)); [rewrite !exec_ret|]; reflexivity.
    - (* foreign *)
      destruct a; cbn; repeat match goal with |- context [match ?x with _ => _ end] => destruct x end; reflexivity.
  Qed.
End Stable.

(* ------------------------------------------------------------------ the theorems *)

Lemma read_obs_fst : forall cf ps r a,
  read_obs cf ps r a =
  match fst (exec (par ps) (acc_prog cf r a) (hp ps)) with Done x => RDone (PAcc x) | Crashed => RPanic end.
Proof.
  intros. unfold read_obs. rewrite pstep_exec. cbn [prim_prog]. rewrite exec_bind.
  destruct (exec (par ps) (acc_prog cf r a) (hp ps)) as [[x|] h1]; cbn; rewrite ?exec_ret; reflexivity.
Qed.

(* For every Legal history, every node handed out during a prefix of it, and every accessor: the
   read returns the same after the rest of the history — for all accessors when streamBytes reads are
   position-independent, and for all but AsBytes / AsLargeBytes of a streamBytes node otherwise. *)
Theorem stable_gen : forall cf hs1 hs2,
  legalh cf pinit (hs1 ++ hs2) = true ->
  forall r, known_b (kn (runh cf pinit hs1)) (HNode r) = true ->
  forall a, cf_stream_shared cf = false \/ stream_acc r a = false ->
  read_obs cf (runh cf pinit hs1) r a = read_obs cf (runh cf pinit (hs1 ++ hs2)) r a.
Proof.
  intros cf hs1 hs2 Hl r Hk a Hs.
  destruct (legalh_app _ _ _ _ Hl) as [L1 L2].
  destruct (runh_inv cf hs1 _ _ sinv_init L1) as (tg1 & [I1 K1] & _).
  destruct (runh_inv cf hs2 _ _ (conj I1 K1) L2) as (tg2 & [I2 K2] & E2).
  rewrite runh_app. rewrite !read_obs_fst. rewrite !runh_par.
  rewrite (acc_stable tg1 _ tg2 _ I1 E2 (par pinit) cf r a); [reflexivity | | assumption].
  exact (known_ok _ _ _ _ K1 Hk).
Qed.

Theorem repeat_gen : forall cf hs,
  legalh cf pinit hs = true ->
  forall r, known_b (kn (runh cf pinit hs)) (HNode r) = true ->
  forall a, cf_stream_shared cf = false \/ stream_acc r a = false ->
  read_obs cf (runh cf pinit hs) r a = read_obs cf (fst (pstep cf (runh cf pinit hs) (PRead (HNode r) a))) r a.
Proof.
  intros cf hs Hl r Hk a Hs.
  assert (L : legalh cf pinit (hs ++ [PRead (HNode r) a]) = true).
  { clear Hs. revert Hl Hk. generalize pinit. induction hs as [|p hs IH]; cbn; intros ps Hl Hk.
    - unfold legal. cbn. rewrite Hk. reflexivity.
    - apply andb_true_iff in Hl. destruct Hl as [H1 H2]. rewrite H1. cbn. apply IH; assumption. }
  rewrite (stable_gen cf hs [PRead (HNode r) a] L r Hk a Hs). rewrite runh_app. reflexivity.
Qed.

(* the invariant itself, for the record: along every Legal history every node the client holds is frozen *)
Theorem legal_history_invariant : forall cf hs, legalh cf pinit hs = true ->
  exists tg, Inv tg (hp (runh cf pinit hs)) /\ Forall (fun hd => handle_ok hd tg (hp (runh cf pinit hs))) (kn (runh cf pinit hs)).
Proof.
  intros cf hs Hl. destruct (runh_inv cf hs _ _ sinv_init Hl) as (tg & [I K] & _). eauto.
Qed.

(* ------------------------------------------------------------------ handed-out readers (cursors) *)

Definition take_k (k : option nat) (l : list N) : list N := match k with None => l | Some n => firstn n l end.

(* what the reader in cell [src] denotes, read from its start *)
Definition source_content (ps : pstate) (src : addr) : outcome (list N) :=
  fst (exec (par ps) (rd_content (Nat.pred rd_fuel) src) (hp ps)).

(* A read of a cursor yields exactly the source's content from the cursor's own offset on, and moves
   only that offset. *)
Lemma cursor_read_spec : forall cf ps x src off k c,
  hget (hp ps) x = Some (CRdr (RdCursor src off)) ->
  source_content ps src = Done c ->
  snd (pstep cf ps (PReaderRead (HReader x) k)) = RDone (PAcc (XBytes (take_k k (skipn off c)) None)) /\
  hget (hp (fst (pstep cf ps (PReaderRead (HReader x) k)))) x =
    Some (CRdr (RdCursor src (off + length (take_k k (skipn off c))))).
Proof.
  intros cf ps x src off k c Hx Hc. unfold source_content in Hc.
  rewrite pstep_exec. cbn [prim_prog]. rewrite exec_bind.
  change rd_fuel with (S (Nat.pred rd_fuel)). cbn [rd_read].
  rewrite exec_rd, Hx. rewrite exec_bind.
  rewrite (exec_wfree_fst _ _ (par ps) (hp ps) (wfree_rd_content (Nat.pred rd_fuel) src)). rewrite Hc.
  rewrite exec_wr, Hx, !exec_ret. cbn.
  split; [destruct k; reflexivity|].
  rewrite hget_hset, addr_eqb_refl, Hx. destruct k; reflexivity.
Qed.

(* Along a Legal history a handed-out cursor stays a cursor over the same source, and what that source
   denotes does not change — whatever other readers, accessors and matches did in between. *)
Theorem reader_independent_partial : forall cf hs1 hs2,
  legalh cf pinit (hs1 ++ hs2) = true ->
  forall x src o1,
  known_b (kn (runh cf pinit hs1)) (HReader x) = true ->
  hget (hp (runh cf pinit hs1)) x = Some (CRdr (RdCursor src o1)) ->
  exists o2,
    hget (hp (runh cf pinit (hs1 ++ hs2))) x = Some (CRdr (RdCursor src o2)) /\
    source_content (runh cf pinit (hs1 ++ hs2)) src = source_content (runh cf pinit hs1) src /\
    forall k c, source_content (runh cf pinit (hs1 ++ hs2)) src = Done c ->
      snd (pstep cf (runh cf pinit (hs1 ++ hs2)) (PReaderRead (HReader x) k))
        = RDone (PAcc (XBytes (take_k k (skipn o2 c)) None)).
Proof.
  intros cf hs1 hs2 Hl x src o1 Hk Hx.
  destruct (legalh_app _ _ _ _ Hl) as [L1 L2].
  destruct (runh_inv cf hs1 _ _ sinv_init L1) as (tg1 & [I1 K1] & _).
  destruct (runh_inv cf hs2 _ _ (conj I1 K1) L2) as (tg2 & [I2 K2] & E2).
  rewrite runh_app.
  pose proof (known_ok _ _ _ _ K1 Hk) as [Tx _]. cbn in Tx.
  destruct (ext_rdr _ _ _ _ _ _ E2 Tx Hx) as (r2 & Hx2 & Eq).
  destruct r2 as [| |src2 o2]; cbn in Eq; try contradiction. subst src2.
  exists o2. split; [assumption|].
  destruct (inv_frozen _ _ _ I1 Tx) as [c0 [Gc Fc]]. rewrite Hx in Gc. inversion Gc; subst c0. cbn in Fc.
  split.
  - unfold source_content. rewrite !runh_par. symmetry.
    apply (rd_content_stable tg1 _ tg2 _ I1 E2). exact Fc.
  - intros k c Hc. apply (cursor_read_spec cf _ x src o2 k c Hx2 Hc).
Qed.
