(* Proofs/StoreBase.v — basic facts for the storage cluster: decidable equalities, association
   lists, the sharding functions generated from Go, filepath.Join/Clean on components. *)
Require Import IP.Base.Bytes IP.Base.GoSem IP.Gen.FromGo IP.Store.Storage IP.Store.FsStore.
From Coq Require Import Lia ZArith NArith List Bool.
Import ListNotations.
Open Scope N_scope.

(* ------------------------------------------------------------------ equalities *)

Lemma bytes_eqb_refl : forall a, bytes_eqb a a = true.
Proof. induction a; simpl; auto. rewrite N.eqb_refl. auto. Qed.

Lemma bytes_eqb_eq : forall a b, bytes_eqb a b = true <-> a = b.
Proof.
  induction a; destruct b; simpl; split; intros H; try discriminate; auto.
  - apply andb_true_iff in H. destruct H as [H1 H2]. apply N.eqb_eq in H1. apply IHa in H2. congruence.
  - inversion H; subst. rewrite N.eqb_refl. simpl. apply IHa. auto.
Qed.

Lemma bytes_eqb_neq : forall a b, bytes_eqb a b = false <-> a <> b.
Proof.
  intros. split; intros H.
  - intros E. apply bytes_eqb_eq in E. congruence.
  - destruct (bytes_eqb a b) eqn:E; auto. apply bytes_eqb_eq in E. contradiction.
Qed.

Lemma path_eqb_refl : forall a, path_eqb a a = true.
Proof. induction a; simpl; auto. rewrite bytes_eqb_refl. auto. Qed.

Lemma path_eqb_eq : forall a b, path_eqb a b = true <-> a = b.
Proof.
  induction a; destruct b; simpl; split; intros H; try discriminate; auto.
  - apply andb_true_iff in H. destruct H as [H1 H2]. apply bytes_eqb_eq in H1. apply IHa in H2. congruence.
  - inversion H; subst. rewrite bytes_eqb_refl. simpl. apply IHa. auto.
Qed.

Lemma path_eqb_neq : forall a b, path_eqb a b = false <-> a <> b.
Proof.
  intros. split; intros H.
  - intros E. apply path_eqb_eq in E. congruence.
  - destruct (path_eqb a b) eqn:E; auto. apply path_eqb_eq in E. contradiction.
Qed.

Lemma path_eqb_sym : forall a b, path_eqb a b = path_eqb b a.
Proof.
  intros. destruct (path_eqb a b) eqn:E.
  - apply path_eqb_eq in E. subst. symmetry. apply path_eqb_refl.
  - symmetry. apply path_eqb_neq. apply path_eqb_neq in E. congruence.
Qed.

(* byte strings proper: every element below 256 (what a Go string can hold) *)
Definition wfb (s : list N) : Prop := Forall (fun b => b < 256) s.

Lemma wfb_bytes_ok : forall s, bytes_ok s = true <-> wfb s.
Proof.
  intros s. unfold bytes_ok, wfb, byte_ok. rewrite forallb_forall, Forall_forall.
  split; intros H b Hb; specialize (H b Hb); apply N.ltb_lt; auto.
Qed.

(* ------------------------------------------------------------------ the file-system map *)

Lemma assoc_remove : forall f p q,
  assoc_path (fs_remove f p) q = if path_eqb p q then None else assoc_path f q.
Proof.
  induction f as [|[r n] f IH]; intros; simpl.
  - destruct (path_eqb p q); auto.
  - destruct (path_eqb r p) eqn:E1; simpl.
    + apply path_eqb_eq in E1. subst r. rewrite IH.
      destruct (path_eqb p q) eqn:E2; auto.
    + rewrite IH. destruct (path_eqb r q) eqn:E2; auto.
      apply path_eqb_eq in E2. subst r. rewrite path_eqb_sym, E1. auto.
Qed.

Lemma lookup_remove : forall f p q, q <> [] ->
  fs_lookup (fs_remove f p) q = if path_eqb p q then None else fs_lookup f q.
Proof. intros. destruct q; try congruence. simpl. apply assoc_remove. Qed.

Lemma lookup_set : forall f p n q, q <> [] ->
  fs_lookup (fs_set f p n) q = if path_eqb p q then Some n else fs_lookup f q.
Proof.
  intros. destruct q as [|c q]; try congruence. unfold fs_set. simpl.
  destruct (path_eqb p (c :: q)) eqn:E; auto. rewrite assoc_remove, E. auto.
Qed.

Lemma lookup_set_same : forall f p n, p <> [] -> fs_lookup (fs_set f p n) p = Some n.
Proof. intros. rewrite lookup_set by auto. rewrite path_eqb_refl. auto. Qed.

Lemma lookup_set_other : forall f p n q, p <> q -> fs_lookup (fs_set f p n) q = fs_lookup f q.
Proof.
  intros. destruct q; auto. rewrite lookup_set by congruence.
  apply path_eqb_neq in H. rewrite H. auto.
Qed.

Lemma lookup_remove_same : forall f p, p <> [] -> fs_lookup (fs_remove f p) p = None.
Proof. intros. rewrite lookup_remove by auto. rewrite path_eqb_refl. auto. Qed.

Lemma lookup_remove_other : forall f p q, p <> q -> fs_lookup (fs_remove f p) q = fs_lookup f q.
Proof.
  intros. destruct q; auto. rewrite lookup_remove by congruence.
  apply path_eqb_neq in H. rewrite H. auto.
Qed.

(* ------------------------------------------------------------------ the sharding functions *)

Definition shard_depth (s : shardfn) : nat := match s with R133 | R122 => 2 | R12 => 1 end.

(* what a shard prefix is made of: bytes of the key, or the padding character '0' *)
Definition shard_comp_ok (k c : bytes) : Prop :=
  c <> [] /\ (length c <= 3)%nat /\ forall b, In b c -> In b k \/ b = 48.

Definition key_len_ok (k : bytes) : Prop := (len64 k < 9223372036854775808)%Z.

Lemma In_firstn : forall {A} n (l : list A) x, In x (firstn n l) -> In x l.
Proof. induction n; intros l x H; simpl in H. contradiction. destruct l; simpl in *; intuition. Qed.
Lemma In_skipn : forall {A} n (l : list A) x, In x (skipn n l) -> In x l.
Proof. induction n; intros l x H; simpl in H; auto. destruct l; simpl in *; auto. Qed.

Lemma substr_ok : forall (k : bytes) lo hi,
  (0 <= lo)%Z -> (lo < hi)%Z -> (hi <= len64 k)%Z -> (hi - lo <= 3)%Z ->
  exists c, substr k lo hi = Some c /\ shard_comp_ok k c.
Proof.
  intros k lo hi H0 H1 H2 H3. unfold substr.
  replace ((0 <=? lo)%Z && (lo <=? hi)%Z && (hi <=? len64 k)%Z) with true
    by (symmetry; rewrite !andb_true_iff; repeat split; apply Z.leb_le; lia).
  eexists. split. reflexivity.
  unfold len64 in *.
  assert (L : length (firstn (Z.to_nat (hi - lo)) (skipn (Z.to_nat lo) k)) = Z.to_nat (hi - lo)).
  { rewrite firstn_length, skipn_length. lia. }
  repeat split.
  - intros E. rewrite E in L. simpl in L. lia.
  - rewrite L. lia.
  - intros b Hb. left. apply In_firstn in Hb. apply In_skipn in Hb. exact Hb.
Qed.

Lemma wrap64_small : forall z, (- 9223372036854775808 <= z < 9223372036854775808)%Z -> wrap64 z = z.
Proof.
  intros. unfold wrap64, GoSem.two63.
  rewrite Z.mod_small; lia.
Qed.

Lemma pad_ok : forall k c, (c = [48; 48] \/ c = [48; 48; 48]) -> shard_comp_ok k c.
Proof.
  intros k c [E|E]; subst; repeat split; try discriminate; simpl; try lia;
    intros b Hb; right; simpl in Hb; intuition.
Qed.

Theorem shard_apply_spec : forall sh k, key_len_ok k ->
  exists cs, shard_apply sh k = Some (cs ++ [k]) /\ length cs = shard_depth sh /\ Forall (shard_comp_ok k) cs.
Proof.
  intros sh k HL. unfold key_len_ok in HL.
  assert (H0 : (0 <= len64 k)%Z) by (unfold len64; lia).
  destruct sh; simpl.
  - (* r133 *)
    unfold go_Shard_r133. destruct (Z.gtb (len64 k) 6) eqn:E1.
    + apply Z.gtb_lt in E1. unfold sub64. rewrite !wrap64_small by lia.
      destruct (substr_ok k (len64 k - 7) (len64 k - 4)) as [c1 [S1 O1]]; try lia.
      destruct (substr_ok k (len64 k - 4) (len64 k - 1)) as [c2 [S2 O2]]; try lia.
      rewrite S1, S2. simpl. exists [c1; c2]. repeat split; auto.
    + destruct (Z.gtb (len64 k) 3) eqn:E2.
      * apply Z.gtb_lt in E2. unfold sub64. rewrite !wrap64_small by lia.
        destruct (substr_ok k (len64 k - 4) (len64 k - 1)) as [c2 [S2 O2]]; try lia.
        rewrite S2. simpl. exists [[48; 48; 48]; c2]. repeat split; auto.
        constructor; [apply pad_ok; auto | auto].
      * simpl. exists [[48; 48; 48]; [48; 48; 48]]. repeat split; auto.
        constructor; [apply pad_ok; auto | constructor; [apply pad_ok; auto | constructor]].
  - (* r122 *)
    unfold go_Shard_r122. destruct (Z.gtb (len64 k) 4) eqn:E1.
    + apply Z.gtb_lt in E1. unfold sub64. rewrite !wrap64_small by lia.
      destruct (substr_ok k (len64 k - 5) (len64 k - 3)) as [c1 [S1 O1]]; try lia.
      destruct (substr_ok k (len64 k - 3) (len64 k - 1)) as [c2 [S2 O2]]; try lia.
      rewrite S1, S2. simpl. exists [c1; c2]. repeat split; auto.
    + destruct (Z.gtb (len64 k) 2) eqn:E2.
      * apply Z.gtb_lt in E2. unfold sub64. rewrite !wrap64_small by lia.
        destruct (substr_ok k (len64 k - 3) (len64 k - 1)) as [c2 [S2 O2]]; try lia.
        rewrite S2. simpl. exists [[48; 48]; c2]. repeat split; auto.
        constructor; [apply pad_ok; auto | auto].
      * simpl. exists [[48; 48]; [48; 48]]. repeat split; auto.
        constructor; [apply pad_ok; auto | constructor; [apply pad_ok; auto | constructor]].
  - (* r12 *)
    unfold go_Shard_r12. destruct (Z.gtb (len64 k) 2) eqn:E1.
    + apply Z.gtb_lt in E1. unfold sub64. rewrite !wrap64_small by lia.
      destruct (substr_ok k (len64 k - 3) (len64 k - 1)) as [c1 [S1 O1]]; try lia.
      rewrite S1. simpl. exists [c1]. repeat split; auto.
    + simpl. exists [[48; 48]]. repeat split; auto.
      constructor; [apply pad_ok; auto | constructor].
Qed.

Corollary shard_never_panics : forall sh k, key_len_ok k -> shard_apply sh k <> None.
Proof. intros. destruct (shard_apply_spec sh k H) as [cs [E _]]. congruence. Qed.

(* ------------------------------------------------------------------ Join / Clean on components *)

(* a component that filepath.Join leaves alone and the kernel accepts as a name:
   not empty, no '/', no '.', no NUL *)
Definition plain_byte (b : N) : Prop := b <> 47 /\ b <> 46 /\ b <> 0.
Definition plain (c : bytes) : Prop := c <> [] /\ Forall plain_byte c.

Lemma split_slash_plain : forall c, Forall plain_byte c -> split_slash c = [c].
Proof.
  induction c; intros H; simpl; auto.
  inversion H; subst. destruct H2 as [A _].
  destruct (a =? c_slash) eqn:E. { apply N.eqb_eq in E. unfold c_slash in E. congruence. }
  rewrite IHc; auto.
Qed.

Lemma plain_not_special : forall c, plain c -> is_empty c = false /\ is_dot c = false /\ is_dotdot c = false.
Proof.
  intros c [Hne Hall]. destruct c as [|b c]; try congruence.
  inversion Hall; subst. destruct H1 as [_ [Hd _]].
  repeat split; auto; unfold is_dot, is_dotdot, c_dot; simpl;
    destruct (b =? 46) eqn:E; auto; apply N.eqb_eq in E; congruence.
Qed.

Lemma clean_go_plain : forall cs stack, Forall plain cs -> clean_go stack cs = rev stack ++ cs.
Proof.
  induction cs; intros stack H; simpl.
  - rewrite app_nil_r. auto.
  - inversion H; subst. destruct (plain_not_special a H2) as [E1 [E2 E3]].
    rewrite E1, E2, E3. simpl. rewrite IHcs by auto. simpl. rewrite <- app_assoc. auto.
Qed.

Lemma flat_map_split_plain : forall cs, Forall plain cs -> flat_map split_slash cs = cs.
Proof.
  induction cs; intros H; simpl; auto. inversion H; subst.
  rewrite split_slash_plain by apply H2. simpl. rewrite IHcs; auto.
Qed.

Theorem join_clean_plain : forall base cs, Forall plain cs -> join_clean base cs = base ++ cs.
Proof.
  intros. unfold join_clean. rewrite flat_map_split_plain by auto.
  rewrite clean_go_plain by auto. rewrite rev_involutive. auto.
Qed.

(* shard components of a plain string are plain *)
Lemma shard_comp_plain : forall k c, plain k -> shard_comp_ok k c -> plain c.
Proof.
  intros k c [_ Hk] [Hne [_ Hb]]. split; auto.
  apply Forall_forall. intros b Hin. destruct (Hb b Hin) as [H|H].
  - rewrite Forall_forall in Hk. auto.
  - subst. unfold plain_byte. repeat split; discriminate.
Qed.

(* the path of a key whose escaped form is plain: base ++ shards ++ [escaped key] *)
Theorem path_for_key_plain : forall cfg k,
  key_len_ok (enc_key cfg k) -> plain (enc_key cfg k) ->
  exists cs, path_for_key cfg k = Some (f_base cfg ++ cs ++ [enc_key cfg k])
             /\ length cs = shard_depth (f_shard cfg) /\ Forall plain cs.
Proof.
  intros cfg k HL HP. unfold path_for_key.
  destruct (shard_apply_spec (f_shard cfg) (enc_key cfg k) HL) as [cs [E [L F]]].
  rewrite E. exists cs.
  assert (FP : Forall plain cs).
  { eapply Forall_impl; [|exact F]. intros c Hc. eapply shard_comp_plain; eauto. }
  repeat split; auto.
  rewrite join_clean_plain; auto.
  apply Forall_app. split; auto.
Qed.

(* base32 output is plain bytes *)
Definition b32_alpha (b : N) : Prop := (65 <= b <= 90) \/ (50 <= b <= 55).

Lemma b32_alpha_plain : forall b, b32_alpha b -> plain_byte b.
Proof. intros b [H|H]; unfold plain_byte; lia. Qed.

Lemma b32char_alpha : forall v, v < 32 -> b32_alpha (b32char v).
Proof.
  intros v H. unfold b32char, b32_alpha. destruct (v <? 26) eqn:E.
  - apply N.ltb_lt in E. left. lia.
  - apply N.ltb_ge in E. right. lia.
Qed.

Lemma b32_group_alpha : forall b0 b1 b2 b3 b4, Forall b32_alpha (b32_group b0 b1 b2 b3 b4).
Proof.
  intros. unfold b32_group. cbn [map].
  repeat (constructor; [apply b32char_alpha; apply N.mod_lt; discriminate|]). constructor.
Qed.

Lemma Forall_firstn : forall {A} (P : A -> Prop) n l, Forall P l -> Forall P (firstn n l).
Proof.
  intros A P n. induction n; intros l H; simpl. constructor.
  destruct l; [constructor|]. inversion H; subst. constructor; auto.
Qed.

(* strong induction in steps of five *)
Lemma b32enc_alpha_aux : forall n s, (length s <= n)%nat -> Forall b32_alpha (b32enc s).
Proof.
  induction n as [n IH] using lt_wf_ind. intros s Hn.
  destruct s as [|b0 [|b1 [|b2 [|b3 [|b4 r]]]]]; cbn [b32enc].
  - constructor.
  - apply Forall_firstn, b32_group_alpha.
  - apply Forall_firstn, b32_group_alpha.
  - apply Forall_firstn, b32_group_alpha.
  - apply Forall_firstn, b32_group_alpha.
  - apply Forall_app. split. apply b32_group_alpha.
    apply (IH (length r)). simpl in Hn. lia. lia.
Qed.

Theorem b32enc_alpha : forall s, Forall b32_alpha (b32enc s).
Proof. intros. apply (b32enc_alpha_aux (length s)). lia. Qed.

Theorem b32enc_nonempty : forall s, s <> [] -> b32enc s <> [].
Proof.
  intros s H. destruct s as [|b0 [|b1 [|b2 [|b3 [|b4 r]]]]]; try congruence;
    cbn [b32enc b32_group map firstn app]; discriminate.
Qed.
