(* Proofs/TravSlice.v — the GENERATED sliceBounds (Gen/FromGo.v, regenerated from matcher.go on every run)
   meets its specification and never yields bounds that would make the Go slicing panic. *)
Require Import IP.Base.Bytes IP.DM.Value IP.Base.GoSem IP.Gen.FromGo IP.Trav.Selector IP.Trav.Walk IP.Trav.SelectorSpec.
From Coq Require Import Lia ZArith.
Open Scope Z_scope.

Lemma wrap64_id z : in64 z -> wrap64 z = z.
Proof.
  unfold in64, wrap64, two63. intros H.
  rewrite Z.mod_small by lia. lia.
Qed.

Theorem slice_bounds_spec from to len :
  in64 from -> in64 to -> 0 <= len < two63 -> go_sliceBounds from to len = slice_spec from to len.
Proof.
  intros Hf Ht Hl. unfold in64, two63 in *. unfold go_sliceBounds, slice_spec.
  assert (W1 : to < 0 -> add64 len to = len + to) by (intros; unfold add64; apply wrap64_id; unfold in64, two63; lia).
  assert (W2 : from < 0 -> add64 len from = len + from) by (intros; unfold add64; apply wrap64_id; unfold in64, two63; lia).
  destruct (Z.ltb_spec to 0); destruct (Z.ltb_spec from 0);
    rewrite ?W1, ?W2 by assumption;
    repeat match goal with
           | |- context [Z.ltb ?a ?b] => destruct (Z.ltb_spec a b)
           | |- context [Z.gtb ?a ?b] => rewrite (Z.gtb_ltb a b); destruct (Z.ltb_spec b a)
           | |- context [Z.geb ?a ?b] => rewrite (Z.geb_leb a b); destruct (Z.leb_spec b a)
           end; cbn [orb]; try reflexivity; try lia;
    repeat match goal with
           | |- context [Z.max ?a ?b] => (rewrite (Z.max_l a b) by lia) || (rewrite (Z.max_r a b) by lia)
           | |- context [Z.min ?a ?b] => (rewrite (Z.min_l a b) by lia) || (rewrite (Z.min_r a b) by lia)
           end; try reflexivity; try lia.
Qed.

Theorem slice_bounds_safe from to len ok f t :
  in64 from -> in64 to -> 0 <= len < two63 ->
  go_sliceBounds from to len = (ok, f, t) -> ok = true -> 0 <= f <= t /\ t <= len /\ f < len.
Proof.
  intros Hf Ht Hl H Hok. rewrite slice_bounds_spec in H by assumption. unfold slice_spec in H.
  unfold in64, two63 in *.
  destruct (Z.ltb_spec to 0); destruct (Z.ltb_spec from 0);
    match type of H with (if ?c then _ else _) = _ => destruct c eqn:Ec end;
    inversion H; subst; try discriminate;
    apply orb_false_iff in Ec; destruct Ec as [E1 E2];
    rewrite Z.gtb_ltb in E1; apply Z.ltb_ge in E1; rewrite Z.geb_leb in E2; apply Z.leb_gt in E2; lia.
Qed.

(* the code's Slice on a node = the specification's, for 64-bit bounds and strings shorter than 2^63 *)
Definition slice_ok (sl : option (Z * Z)) : Prop :=
  match sl with Some (f, t) => in64 f /\ in64 t | None => True end.
Definition small_top (n : dm) : Prop :=
  match n with DString s | DBytes s => len64 s < two63 | _ => True end.

Lemma slice_node_spec ft n : slice_ok (Some ft) -> small_top n -> slice_node ft n = spec_slice_node ft n.
Proof.
  destruct ft as [f t]. intros [Hf Ht] Hn. unfold slice_node, spec_slice_node, slice_bytes, spec_slice_bytes.
  destruct n; try reflexivity; cbn [fst snd]; cbn in Hn;
    rewrite slice_bounds_spec by (auto; unfold len64 in *; lia); reflexivity.
Qed.
