(* Proofs/LinkInj.v — Link.Binary() is injective on well-formed links (64-bit codec / multihash
   codes and digest length; CIDv0 = dag-pb + sha2-256), so "same binary form" in the C05/C06 theorems
   can be read as "same link". *)
Require Import IP.Base.Bytes IP.DM.Value IP.Link.LinkSys IP.Link.LinkSpec.
Require Import IP.Proofs.BytesFacts IP.Proofs.LinkBase IP.Proofs.LinkC06.
From Coq Require Import ZifyN ZifyNat ZifyBool.
Ltac Zify.zify_post_hook ::= Z.div_mod_to_equations.
Open Scope N_scope.

(* the varint code is prefix-free on numbers that fit the fuel *)
Lemma varint_go_S f n :
  varint_go (S f) n = if n <? 128 then [n] else (128 + n mod 128) :: varint_go f (n / 128).
Proof. reflexivity. Qed.

Lemma varint_go_inj f : forall a b r r',
  a < 128 ^ N.of_nat (S f) -> b < 128 ^ N.of_nat (S f) ->
  varint_go f a ++ r = varint_go f b ++ r' -> a = b /\ r = r'.
Proof.
  induction f as [|f IH]; intros a b r r' Ha Hb E.
  - cbn in E. inversion E; auto.
  - rewrite !varint_go_S in E.
    rewrite Nat2N.inj_succ, N.pow_succ_r' in Ha, Hb.
    remember (128 + a mod 128) as ha eqn:Hha. remember (128 + b mod 128) as hb eqn:Hhb.
    destruct (N.ltb_spec a 128) as [A|A]; destruct (N.ltb_spec b 128) as [B|B];
      cbn [app] in E; injection E as E1 E2.
    + auto.
    + exfalso. clear - A B E1 Hhb. lia.
    + exfalso. clear - A B E1 Hha. lia.
    + destruct (IH (a / 128) (b / 128) r r') as [Q ->]; auto.
      * apply N.div_lt_upper_bound; lia.
      * apply N.div_lt_upper_bound; lia.
      * split; [|reflexivity]. clear - E1 Hha Hhb Q. lia.
Qed.

Definition u64 (n : N) : Prop := n < 18446744073709551616.

Lemma varint_inj a b r r' : u64 a -> u64 b -> varint a ++ r = varint b ++ r' -> a = b /\ r = r'.
Proof.
  unfold u64, varint. intros Ha Hb. apply varint_go_inj.
  - eapply N.lt_trans; [exact Ha|]. vm_compute. reflexivity.
  - eapply N.lt_trans; [exact Hb|]. vm_compute. reflexivity.
Qed.

Definition wf_link (l : link) : Prop :=
  (l_v0 l = true -> l_codec l = mc_dagpb /\ l_mhtype l = mh_sha2_256) /\
  u64 (l_codec l) /\ u64 (l_mhtype l) /\ u64 (lenN (l_digest l)).

Lemma multihash_bytes_inj a b r r' :
  u64 (l_mhtype a) -> u64 (lenN (l_digest a)) -> u64 (l_mhtype b) -> u64 (lenN (l_digest b)) ->
  multihash_bytes a ++ r = multihash_bytes b ++ r' ->
  lenN (l_digest a) = lenN (l_digest b) ->
  l_mhtype a = l_mhtype b /\ l_digest a = l_digest b /\ r = r'.
Proof.
  unfold multihash_bytes. intros A1 A2 B1 B2 E L. rewrite <- !app_assoc in E.
  apply varint_inj in E as [M E]; auto.
  apply varint_inj in E as [_ E]; auto.
  split; [exact M|].
  apply (f_equal (take (lenN (l_digest a)))) in E as E'.
  rewrite take_app in E'. rewrite L, take_app in E'. inversion E'; auto.
Qed.

(* without knowing the digest lengths agree beforehand: they are in the framing *)
Lemma multihash_bytes_inj' a b r r' :
  u64 (l_mhtype a) -> u64 (lenN (l_digest a)) -> u64 (l_mhtype b) -> u64 (lenN (l_digest b)) ->
  multihash_bytes a ++ r = multihash_bytes b ++ r' ->
  l_mhtype a = l_mhtype b /\ l_digest a = l_digest b /\ r = r'.
Proof.
  intros A1 A2 B1 B2 E. apply multihash_bytes_inj; auto.
  unfold multihash_bytes in E. rewrite <- !app_assoc in E.
  apply varint_inj in E as [_ E]; auto.
  apply varint_inj in E as [L _]; auto.
Qed.

Theorem link_binary_inj a b : wf_link a -> wf_link b -> link_binary a = link_binary b -> a = b.
Proof.
  intros (Av0 & Ac & Am & Ad) (Bv0 & Bc & Bm & Bd) E. unfold link_binary in E.
  pose proof (multihash_bytes_inj' a b [] [] Am Ad Bm Bd) as H. rewrite !app_nil_r in H.
  destruct a as [av ac am ad], b as [bv bc bm bd]; cbn [l_v0 l_codec l_mhtype l_digest] in *.
  destruct av, bv.
  - destruct (Av0 eq_refl) as [-> ->]. destruct (Bv0 eq_refl) as [-> ->].
    destruct (H E) as (_ & -> & _). reflexivity.
  - exfalso. destruct (Av0 eq_refl) as [-> ->]. unfold multihash_bytes in E. cbn in E. inversion E.
  - exfalso. destruct (Bv0 eq_refl) as [-> ->]. unfold multihash_bytes in E. cbn in E. inversion E.
  - injection E as E1. apply varint_inj in E1 as [-> E1]; auto.
    unfold multihash_bytes in *. cbn [l_mhtype l_digest] in *.
    destruct (H E1) as (-> & -> & _). reflexivity.
Qed.

(* links built by BuildLink from 64-bit prototypes and digests of representable length are well formed *)
Lemma build_link_wf lp d l :
  u64 (lp_codec lp) -> u64 (lp_mhtype lp) -> u64 (lenN d) -> build_link lp d = Some l -> wf_link l.
Proof.
  unfold build_link. intros Hc Hm Hd H.
  destruct ((lp_version lp =? 0) && _); [discriminate|].
  match type of H with match ?x with _ => _ end = _ => destruct x as [dg|] eqn:D; [|discriminate] end.
  assert (Hdig : u64 (lenN dg)).
  { match type of D with (if ?c then _ else _) = _ => destruct c end;
      [inversion D; subst; exact Hd|].
    destruct (lp_mhlen lp <? 0)%Z; [discriminate|].
    destruct (take _ d) as [[p s]|] eqn:T; [|discriminate]. inversion D; subst.
    apply take_some in T as [-> _]. rewrite lenN_app in Hd. unfold u64 in *. lia. }
  destruct (lp_version lp =? 0).
  - destruct (lenN dg =? 32); inversion H; subst. unfold wf_link; cbn.
    repeat split; auto; unfold u64, mc_dagpb, mh_sha2_256; lia.
  - destruct (lp_version lp =? 1); inversion H; subst. unfold wf_link; cbn.
    repeat split; auto; discriminate.
Qed.

Lemma link_proto_u64 l : wf_link l -> u64 (lp_codec (link_proto l)) /\ u64 (lp_mhtype (link_proto l)).
Proof.
  intros (_ & C & M & _). unfold link_proto. destruct (l_v0 l); cbn; auto.
  unfold u64, mc_dagpb, mh_sha2_256. lia.
Qed.

Section VerifyEq.
  Variable hash : N -> bytes -> bytes.
  (* the only thing asked of the hash here: its output has a length that fits 64 bits *)
  Hypothesis Hlen : forall mht bs, u64 (lenN (hash mht bs)).

  Theorem verify_ok_eq l bs :
    wf_link l ->
    (verify hash l bs = VOk <-> build_link (link_proto l) (hash (lp_mhtype (link_proto l)) bs) = Some l).
  Proof.
    intros W. rewrite verify_ok_binary. split.
    - intros (l2 & B & E). rewrite B. f_equal. apply link_binary_inj; auto.
      destruct (link_proto_u64 l W). eapply build_link_wf; eauto.
    - intros B. eauto.
  Qed.
End VerifyEq.

(* C06_sound with equality of links instead of equality of binaries *)
Theorem sound_eq (hasher_ok : N -> bool) (hash : N -> bytes -> bytes) (decoders : N -> option codec) :
  (forall mht bs, u64 (lenN (hash mht bs))) ->
  registry_consumes_all decoders ->
  forall f ro l, wf_link l ->
    lo_status (load_any hasher_ok hash decoders f false ro l) = SOk ->
    exists chunks, ro = RStream chunks TEof /\
      build_link (link_proto l) (hash (lp_mhtype (link_proto l)) (concat chunks)) = Some l.
Proof.
  intros Hlen Hlaw f ro l W S.
  destruct (sound hasher_ok hash decoders Hlaw f ro l S) as (chunks & -> & V & _).
  exists chunks. split; [reflexivity|]. now apply (verify_ok_eq hash Hlen).
Qed.
