(* Proofs/BindAsm.v — writing is faithful: on a bindable pair, assembling a data tree that fits the
   type (at type level or at representation level) into the zero Go value succeeds, yields a well
   formed Go value, and that value denotes exactly the tree that was assembled. *)
Require Import IP.Base.Bytes IP.DM.Value IP.Bind.GoVal IP.Bind.Bind IP.Bind.Spec IP.Proofs.BindFacts.
From Coq Require Import ZifyN ZifyNat ZifyBool.
Open Scope N_scope.

Lemma dm_null_dec : forall d : dm, {d = DNull} + {d <> DNull}.
Proof. destruct d; (left; reflexivity) || (right; discriminate). Qed.

Lemma existsb_map_strings : forall k ks,
  existsb (gv_eqb (GString k)) (map GString ks) = existsb (bytes_eqb k) ks.
Proof. intros k ks; induction ks; [reflexivity|]. cbn [map existsb]. rewrite IHks. reflexivity. Qed.

Section AsmFaithful.
  Variable q : quirks.
  Variable n32 : N -> N.

  Definition built (lv : level) (t : sty) (s : shape) (d : dm) (g : gv) : Prop :=
    ok_loc (gv_ok q n32 t) s g = true /\ denote lv t g = d.

  Definition asm_spec (lv : level) (t : sty) : Prop :=
    forall s d, loc_ok (fun _ => bindable t) t s = true ->
      fits q lv n32 t (deref1 s) d = true ->
      exists g, asm q lv n32 t s (zero_of s) false d = Ok g /\ built lv t s d g.

  (* ---- generic facts ------------------------------------------------------------------------ *)

  Lemma asm_nullable_irrel : forall lv t s cur nl d, d <> DNull ->
    asm q lv n32 t s cur nl d = asm q lv n32 t s cur false d.
  Proof. intros lv t s cur nl d H. destruct t; destruct d; try reflexivity; congruence. Qed.

  Lemma fits_nonnull : forall lv t s, fits q lv n32 t s DNull = false.
  Proof.
    intros lv t s. destruct t; simpl; try reflexivity;
      repeat match goal with
             | |- context [match ?x with _ => _ end] => destruct x; try reflexivity
             end.
  Qed.

  Lemma loc_ok_direct : forall t s, loc_ok (fun _ => bindable t) t s = true ->
    bindable t (deref1 s) = true.
  Proof.
    intros t s H. destruct s; simpl in *; try assumption.
    apply andb3 in H. tauto.
  Qed.

  Lemma nullable_loc_ok : forall t s, nullable_ok (fun _ => bindable t) t s = true ->
    loc_ok (fun _ => bindable t) t s = true.
  Proof.
    intros t s H. destruct s as [| | | | |k| | | | |]; simpl in *; try discriminate; try assumption.
    destruct k; try discriminate; assumption.
  Qed.

  Lemma nullable_zero : forall t s, nullable_ok (fun _ => bindable t) t s = true -> zero_of s = GNil.
  Proof.
    intros t s H. destruct s as [| | | | |k| | | | |]; simpl in *; try discriminate; try reflexivity.
    destruct k; try discriminate; reflexivity.
  Qed.

  Lemma nullable_built_nonnil : forall lv t s g, nullable_ok (fun _ => bindable t) t s = true ->
    ok_loc (gv_ok q n32 t) s g = true -> g <> GNil /\ denote lv t (unptr g) = denote lv t g.
  Proof.
    intros lv t s g Hs Hg.
    destruct s as [| | | | |k| | s1 | | |]; simpl in Hs; try discriminate.
    - destruct k; try discriminate.
      assert (t = TLink) by (destruct t; simpl in Hs; try discriminate; reflexivity). subst.
      destruct g; simpl in Hg; try discriminate. split; [discriminate | reflexivity].
    - assert (t = TAny) by (destruct t; simpl in Hs; try discriminate; reflexivity). subst.
      destruct g; simpl in Hg; try discriminate. split; [discriminate | reflexivity].
    - destruct g; simpl in Hg; try discriminate. split; [discriminate|].
      simpl. symmetry. apply denote_ptr. intros w ->. rewrite gv_ok_noptr in Hg. discriminate.
  Qed.

  (* a position that may be null *)
  Lemma child_asm : forall lv t (nl : bool) s d, asm_spec lv t ->
    (if nl then nullable_ok (fun _ => bindable t) t s else loc_ok (fun _ => bindable t) t s) = true ->
    fits_child (fits q lv n32 t) nl s d = true ->
    exists g, asm q lv n32 t s (zero_of s) nl d = Ok g
              /\ ok_child (gv_ok q n32 t) nl s g = true
              /\ den_child (denote lv t) nl g = d.
  Proof.
    intros lv t nl s d IH Hs Hf. unfold fits_child in Hf.
    destruct nl.
    - destruct (dm_null_dec d) as [->|Hd].
      + exists (zero_of s). split.
        * destruct t; reflexivity.
        * rewrite (nullable_zero t s Hs). split; reflexivity.
      + assert (Hf' : fits q lv n32 t (deref1 s) d = true) by (destruct d; congruence).
        destruct (IH s d (nullable_loc_ok t s Hs) Hf') as [g [Ha [Hok Hden]]].
        exists g. rewrite asm_nullable_irrel by assumption. split; [assumption|].
        destruct (nullable_built_nonnil lv t s g Hs Hok) as [Hnn Hun].
        unfold ok_child, den_child. destruct g; try congruence; split; try assumption;
          try (rewrite Hun; assumption).
    - assert (Hd : d <> DNull) by (intros ->; discriminate).
      assert (Hf' : fits q lv n32 t (deref1 s) d = true) by (destruct d; congruence).
      destruct (IH s d Hs Hf') as [g [Ha [Hok Hden]]].
      exists g. split; [assumption|]. split; assumption.
  Qed.

  (* ---- scalars ------------------------------------------------------------------------------- *)

  Lemma asm_int_ok : forall s k z,
    loc_ok (fun _ => bindable TInt) TInt s = true -> deref1 s = SInt k -> int_ok q k z = true ->
    asm_int q s z = Ok (put s (GInt z)).
  Proof.
    intros s k z Hl Hd Hi. unfold int_ok in Hi. apply andb_prop in Hi. destruct Hi as [Hin _].
    unfold asm_int. rewrite Hd.
    destruct s as [| k0 | | | | | | s1 | | |]; simpl in Hd; try discriminate.
    - inversion Hd; subst k0.
      assert ((if q_ptr_uint q then ik_unsigned k else ik_unsigned k) = ik_unsigned k) as -> by (destruct (q_ptr_uint q); reflexivity).
      destruct (ik_unsigned k) eqn:Hu.
      + rewrite (unsigned_nonneg k z Hu Hin). rewrite Hin. rewrite andb_false_r.
        rewrite (ik_narrow_in k z Hin). reflexivity.
      + rewrite Hin. rewrite andb_false_r.
        pose proof (signed_below_two63 k z Hu Hin) as Hlt.
        assert ((two63z <=? z)%Z = false) as ->.
        { apply Z.leb_gt. apply Z.ltb_lt in Hlt. exact Hlt. }
        rewrite (ik_narrow_in k z Hin). reflexivity.
    - subst s1. simpl in Hl. rewrite andb_true_r in Hl.
      assert (Hu : ik_unsigned k = false) by (apply negb_true_iff; exact Hl).
      assert ((if q_ptr_uint q then ik_unsigned k else false) = false) as -> by (rewrite Hu; destruct (q_ptr_uint q); reflexivity).
      rewrite Hu. rewrite Hin. rewrite andb_false_r.
      pose proof (signed_below_two63 k z Hu Hin) as Hlt.
      assert ((two63z <=? z)%Z = false) as ->.
      { apply Z.leb_gt. apply Z.ltb_lt in Hlt. exact Hlt. }
      rewrite (ik_narrow_in k z Hin). reflexivity.
  Qed.

  (* a value put into a location is well formed there and denotes what the bare value denotes *)
  Lemma put_built : forall lv t s x d,
    loc_ok (fun _ => bindable t) t s = true ->
    gv_ok q n32 t (deref1 s) x = true -> denote lv t x = d ->
    built lv t s d (put s x).
  Proof.
    intros lv t s x d Hl Hok Hden. unfold built.
    destruct s; simpl in *; try (split; assumption).
    split; [assumption|].
    rewrite denote_ptr; [assumption|].
    intros w ->. rewrite gv_ok_noptr in Hok. discriminate.
  Qed.

  (* ---- enums --------------------------------------------------------------------------------- *)

  Lemma enum_by_repr_name : forall ms x m,
    names_nodup (map (fun e : bytes * bytes * Z => fst (fst e)) ms) = true ->
    enum_by_repr x ms = Some m -> exists ir, enum_by_name m ms = Some (x, ir).
  Proof.
    induction ms as [|[[mn sr] ir] ms IH]; intros x m Hnd H; [discriminate|].
    simpl in *. apply andb_prop in Hnd. destruct Hnd as [Hnot Hnd].
    destruct (bytes_eqb x sr) eqn:E.
    - inversion H; subst m. rewrite bytes_eqb_refl. apply bytes_eqb_eq in E. subst. eauto.
    - destruct (IH x m Hnd H) as [ir' Hn].
      destruct (bytes_eqb m mn) eqn:E2; [|eauto].
      apply bytes_eqb_eq in E2. subst m. exfalso.
      apply negb_true_iff in Hnot.
      assert (Hin : In mn (map (fun e : bytes * bytes * Z => fst (fst e)) ms)).
      { clear - Hn. induction ms as [|[[a b] c] ms IHm]; simpl in *; [discriminate|].
        destruct (bytes_eqb mn a) eqn:E3; [left; symmetry; apply bytes_eqb_eq; assumption | right; auto]. }
      pose proof (existsb_false_In mn _ Hnot mn Hin) as C. rewrite bytes_eqb_refl in C. discriminate.
  Qed.

  Lemma enum_by_int_name : forall ms z m,
    names_nodup (map (fun e : bytes * bytes * Z => fst (fst e)) ms) = true ->
    enum_by_int z ms = Some m -> exists sr, enum_by_name m ms = Some (sr, z).
  Proof.
    induction ms as [|[[mn sr] ir] ms IH]; intros z m Hnd H; [discriminate|].
    simpl in *. apply andb_prop in Hnd. destruct Hnd as [Hnot Hnd].
    destruct (Z.eqb z ir) eqn:E.
    - inversion H; subst m. rewrite bytes_eqb_refl. apply Z.eqb_eq in E. subst. eauto.
    - destruct (IH z m Hnd H) as [sr' Hn].
      destruct (bytes_eqb m mn) eqn:E2; [|eauto].
      apply bytes_eqb_eq in E2. subst m. exfalso.
      apply negb_true_iff in Hnot.
      assert (Hin : In mn (map (fun e : bytes * bytes * Z => fst (fst e)) ms)).
      { clear - Hn. induction ms as [|[[a b] c] ms IHm]; simpl in *; [discriminate|].
        destruct (bytes_eqb mn a) eqn:E3; [left; symmetry; apply bytes_eqb_eq; assumption | right; auto]. }
      pose proof (existsb_false_In mn _ Hnot mn Hin) as C. rewrite bytes_eqb_refl in C. discriminate.
  Qed.

  (* ---- lists --------------------------------------------------------------------------------- *)

  Lemma mapM_exists : forall {A B} (f : A -> bres B) (P : B -> Prop) (h : B -> A) l,
    Forall (fun x => exists y, f x = Ok y /\ P y /\ h y = x) l ->
    exists ys, mapM f l = Ok ys /\ Forall P ys /\ map h ys = l.
  Proof.
    intros A B f P h l H; induction H as [|x l [y [Hy [Py Hh]]] _ [ys [Hys [Pys Hm]]]].
    - exists []. repeat split; constructor.
    - exists (y :: ys). simpl. rewrite Hy. simpl. rewrite Hys. simpl.
      repeat split; [constructor; assumption | congruence].
  Qed.

  (* ---- ordered maps -------------------------------------------------------------------------- *)

  Lemma gv_eqb_str : forall a b, gv_eqb (GString a) (GString b) = bytes_eqb a b.
  Proof. reflexivity. Qed.

  Lemma gv_eqb_str_l : forall a g, gv_eqb (GString a) g = true -> g = GString a.
  Proof.
    intros a g H. destruct g; simpl in H; try discriminate.
    apply bytes_eqb_eq in H. subst. reflexivity.
  Qed.

  Lemma get_set_same : forall k v m, gomap_get (GString k) (gomap_set (GString k) v m) = Some v.
  Proof.
    intros k v m; induction m as [|[k' v'] m IH].
    - cbn [gomap_set gomap_get]. rewrite gv_eqb_str, bytes_eqb_refl. reflexivity.
    - cbn [gomap_set]. destruct (gv_eqb (GString k) k') eqn:E; cbn [gomap_get].
      + rewrite gv_eqb_str, bytes_eqb_refl. reflexivity.
      + rewrite E. exact IH.
  Qed.

  Lemma get_set_other : forall k k0 v m, bytes_eqb k0 k = false ->
    gomap_get (GString k0) (gomap_set (GString k) v m) = gomap_get (GString k0) m.
  Proof.
    intros k k0 v m H; induction m as [|[k' v'] m IH].
    - cbn [gomap_set gomap_get]. rewrite gv_eqb_str, H. reflexivity.
    - cbn [gomap_set]. destruct (gv_eqb (GString k) k') eqn:E; cbn [gomap_get].
      + apply gv_eqb_str_l in E. subst k'. rewrite gv_eqb_str, H. reflexivity.
      + destruct (gv_eqb (GString k0) k'); [reflexivity | exact IH].
  Qed.

  Lemma nodup_head : forall k l, names_nodup (k :: l) = true ->
    (forall x, In x l -> bytes_eqb x k = false) /\ names_nodup l = true.
  Proof.
    intros k l H. simpl in H. apply andb_prop in H. destruct H as [H1 H2]. split; [|assumption].
    apply negb_true_iff in H1. intros x Hx.
    rewrite bytes_eqb_sym. exact (existsb_false_In k l H1 x Hx).
  Qed.

  Section MapEntries.
    Variable one : bytes -> dm -> bres (gv * gv).
    Variable okc : gv -> bool.
    Variable denc : gv -> dm.

    Lemma map_entries_ok : forall m keys0 vals0,
      Forall (fun kv => exists vg, one (fst kv) (snd kv) = Ok (GString (fst kv), vg)
                                   /\ okc vg = true /\ denc vg = snd kv) m ->
      names_nodup (map fst m) = true ->
      exists vs,
        asm_map_entries one m keys0 vals0 = Ok (keys0 ++ map GString (map fst m), vs)
        /\ (forall k0, (forall x, In x (map fst m) -> bytes_eqb k0 x = false) ->
                       gomap_get (GString k0) vs = gomap_get (GString k0) vals0)
        /\ Forall (fun kv => exists vg, gomap_get (GString (fst kv)) vs = Some vg
                                        /\ okc vg = true /\ denc vg = snd kv) m.
    Proof.
      induction m as [|[k v] m IH]; intros keys0 vals0 HF Hnd.
      - exists vals0. simpl. rewrite app_nil_r. repeat split; auto.
      - inversion HF as [|? ? [vg [Hone [Hok Hden]]] HF']; subst. simpl in Hone, Hok, Hden.
        simpl map in Hnd. destruct (nodup_head _ _ Hnd) as [Hfresh Hnd'].
        destruct (IH (keys0 ++ [GString k]) (gomap_set (GString k) vg vals0) HF' Hnd') as [vs [Hrun [Hother Hall]]].
        exists vs. cbn [asm_map_entries]. rewrite Hone. cbn [bind fst snd].
        split; [|split].
        + rewrite Hrun. rewrite <- app_assoc. reflexivity.
        + intros k0 Hk0. rewrite Hother.
          * apply get_set_other. apply Hk0. left; reflexivity.
          * intros x Hx. apply Hk0. right; exact Hx.
        + constructor.
          * exists vg. simpl. split; [|split; assumption].
            rewrite Hother; [apply get_set_same|].
            intros x Hx. rewrite bytes_eqb_sym. apply Hfresh. exact Hx.
          * exact Hall.
    Qed.
  End MapEntries.

  Lemma gv_nodup_strings : forall ks, names_nodup ks = true -> gv_nodup (map GString ks) = true.
  Proof.
    induction ks as [|k ks IH]; intros H; [reflexivity|].
    cbn [names_nodup map gv_nodup] in *. apply andb_prop in H. destruct H as [H1 H2]. rewrite (IH H2), andb_true_r.
    rewrite existsb_map_strings. exact H1.
  Qed.

  (* ---- struct fields ------------------------------------------------------------------------- *)

  Lemma field_asm : forall lv f s v, asm_spec lv (f_type f) ->
    field_ok (fun _ => bindable (f_type f)) (f_type f) (f_opt f) (f_nul f) s = true ->
    fits_child (fits q lv n32 (f_type f)) (f_nul f) (if f_opt f then deref1 s else s) v = true ->
    exists g, asm_field (asm q lv n32 (f_type f)) f s (zero_of s) v = Ok g
              /\ ok_field (gv_ok q n32 (f_type f)) (f_opt f) (f_nul f) s g = true
              /\ den_field (denote lv (f_type f)) (f_opt f) (f_nul f) g = Some v.
  Proof.
    intros lv f s v IH Hs Hf. unfold asm_field, field_ok, ok_field, den_field in *.
    set (t := f_type f) in *.
    destruct (f_opt f); destruct (f_nul f).
    - (* optional nullable *)
      destruct s as [| | | | | | | s1 | | |]; try discriminate.
      apply andb_prop in Hs. destruct Hs as [Hs Hp]. simpl in Hf.
      destruct (child_asm lv t true s1 v IH Hs Hf) as [x [Ha [Hok Hden]]].
      exists (GPtr x). rewrite Ha. cbn [bind unptr]. repeat split; try assumption. rewrite Hden. reflexivity.
    - (* optional *)
      destruct s as [| | | | |k| | s1 | | |]; try discriminate.
      + destruct k; try discriminate. simpl in Hf.
        destruct (child_asm lv t false (SLink LIface) v IH Hs Hf) as [x [Ha [Hok Hden]]].
        exists x. rewrite Ha. unfold ok_child in Hok. simpl in Hok.
        assert (t = TLink) by (destruct t; simpl in Hs; try discriminate; reflexivity).
        rewrite H in *. destruct x; simpl in Hok; try discriminate.
        repeat split. simpl in Hden. simpl. rewrite Hden. reflexivity.
      + simpl in Hf.
        destruct (child_asm lv t false SNode v IH Hs Hf) as [x [Ha [Hok Hden]]].
        exists x. rewrite Ha. unfold ok_child in Hok. simpl in Hok.
        assert (t = TAny) by (destruct t; simpl in Hs; try discriminate; reflexivity).
        rewrite H in *. destruct x; simpl in Hok; try discriminate.
        simpl in Hden. subst d.
        split; [reflexivity|]. split; [|reflexivity].
        simpl. exact Hok.
      + simpl in Hf.
        pose proof (bindable_noptr _ _ Hs) as Hnp.
        assert (Hl : loc_ok (fun _ => bindable t) t s1 = true).
        { destruct s1; simpl in *; try assumption; discriminate. }
        destruct (child_asm lv t false s1 v IH Hl Hf) as [x [Ha [Hok Hden]]].
        exists (GPtr x). rewrite Ha. cbn [bind unptr]. repeat split; try assumption.
        unfold den_child in *. rewrite Hden. reflexivity.
    - destruct (child_asm lv t true s v IH Hs Hf) as [x [Ha [Hok Hden]]].
      exists x. rewrite Ha. repeat split; try assumption. rewrite Hden. reflexivity.
    - destruct (child_asm lv t false s v IH Hs Hf) as [x [Ha [Hok Hden]]].
      exists x. rewrite Ha. repeat split; try assumption. rewrite Hden. reflexivity.
  Qed.

  Lemma optional_zero : forall t (nl : bool) s, field_ok (fun _ => bindable t) t true nl s = true ->
    zero_of s = GNil.
  Proof.
    intros t nl s H. unfold field_ok in H.
    destruct s as [| | | | |k| | | | |]; try reflexivity; destruct nl; try discriminate.
    destruct k; try discriminate; reflexivity.
  Qed.

  Definition by_name lv fs (ss : list (bytes * shape)) (k : bytes) (v : dm) (gs : list gv) (done : list bool)
    : bres (list gv * list bool) :=
    with_field k
      (fun i f => do g1 <- asm_field (asm q lv n32 (f_type f)) f (nth_shape i ss) (nth_gv i gs) v;
                  Ok (set_nth i g1 gs, set_nth i true done))
      (Err XInvalidKey) fs O.

  Lemma with_field_found : forall {R} k (body : nat -> fld -> R) none pre f post i,
    (forall x, In x pre -> bytes_eqb k (f_name x) = false) -> bytes_eqb k (f_name f) = true ->
    with_field k body none (pre ++ f :: post) i = body (i + length pre)%nat f.
  Proof.
    intros R k body none pre; induction pre as [|p pre IH]; intros f post i Hpre Hf.
    - cbn [app with_field length]. rewrite Hf. rewrite Nat.add_0_r. reflexivity.
    - cbn [app with_field length]. rewrite (Hpre p (or_introl eq_refl)).
      rewrite IH; [f_equal; lia | intros x Hx; apply Hpre; right; exact Hx | exact Hf].
  Qed.

  Lemma nodup_app_head : forall (pre : list fld) f post,
    names_nodup (map f_name (pre ++ f :: post)) = true ->
    forall x, In x pre -> bytes_eqb (f_name f) (f_name x) = false.
  Proof.
    induction pre as [|p pre IH]; intros f post H x Hx; [contradiction|].
    cbn [app map] in H. destruct (nodup_head _ _ H) as [Hfresh Hnd].
    destruct Hx as [->|Hx].
    - apply Hfresh. rewrite map_app. apply in_or_app. right. left. reflexivity.
    - eapply IH; eassumption.
  Qed.

  Lemma struct_entries : forall lv (key : fld -> bytes) (keymap : bytes -> bytes) fs ss,
    names_nodup (map f_name fs) = true ->
    (forall f, In f fs -> keymap (key f) = f_name f) ->
    forall post pre spre spost gpre dpre m,
      fs = pre ++ post -> ss = spre ++ spost ->
      length spre = length pre -> length gpre = length pre -> length dpre = length pre ->
      Forall (fun f => asm_spec lv (f_type f)) post ->
      fields_bindable (fun f => bindable (f_type f)) post spost = true ->
      fits_fields (fun f => fits q lv n32 (f_type f)) key post spost m = true ->
      exists gpost dpost,
        asm_entries (fun k v gs done => by_name lv fs ss (keymap k) v gs done) m
                    (gpre ++ map (fun f => zero_of (snd f)) spost) (dpre ++ map (fun _ => false) post)
        = Ok (gpre ++ gpost, dpre ++ dpost)
        /\ ok_fields (fun f => gv_ok q n32 (f_type f)) post spost gpost = true
        /\ map (fun e => (key (fst e), snd e)) (den_fields (fun f => denote lv (f_type f)) post gpost) = m
        /\ missing_required post dpost = false.
  Proof.
    intros lv key keymap fs ss Hnd Hkm.
    induction post as [|f post IH]; intros pre spre spost gpre dpre m Hfs Hss Hl1 Hl2 Hl3 HF Hb Hfit.
    - destruct spost; simpl in Hb; try discriminate. simpl in Hfit.
      destruct m; try discriminate.
      exists [], []. simpl. repeat split; reflexivity.
    - destruct spost as [|[sn s] spost]; simpl in Hb; try discriminate.
      apply andb_prop in Hb. destruct Hb as [Hb1 Hb2].
      inversion HF as [|? ? HF1 HF2]; subst x l.
      assert (Hfs' : fs = (pre ++ [f]) ++ post) by (rewrite <- app_assoc; exact Hfs).
      assert (Hss' : ss = (spre ++ [(sn, s)]) ++ spost) by (rewrite <- app_assoc; exact Hss).
      assert (Hlen : forall {A} (l : list A) (x : A), length l = length pre -> length (l ++ [x]) = length (pre ++ [f])).
      { intros A l x E. rewrite !app_length. simpl. lia. }
      cbn [fits_fields] in Hfit.
      assert (Habsent : f_opt f = true ->
                fits_fields (fun f => fits q lv n32 (f_type f)) key post spost m = true ->
                exists gpost dpost,
                  asm_entries (fun k v gs done => by_name lv fs ss (keymap k) v gs done) m
                    (gpre ++ map (fun f => zero_of (snd f)) ((sn, s) :: spost)) (dpre ++ map (fun _ => false) (f :: post))
                  = Ok (gpre ++ gpost, dpre ++ dpost)
                  /\ ok_fields (fun f => gv_ok q n32 (f_type f)) (f :: post) ((sn, s) :: spost) gpost = true
                  /\ map (fun e => (key (fst e), snd e)) (den_fields (fun f => denote lv (f_type f)) (f :: post) gpost) = m
                  /\ missing_required (f :: post) dpost = false).
      { intros Hopt Hrest.
        destruct (IH (pre ++ [f]) (spre ++ [(sn, s)]) spost (gpre ++ [zero_of s]) (dpre ++ [false]) m
                    Hfs' Hss' (Hlen _ _ _ Hl1) (Hlen _ _ _ Hl2) (Hlen _ _ _ Hl3) HF2 Hb2 Hrest)
          as [gpost [dpost [Hrun [Hok [Hden Hmiss]]]]].
        exists (zero_of s :: gpost), (false :: dpost).
        cbn [map snd]. rewrite <- !app_assoc in Hrun. cbn [app] in Hrun.
        split; [exact Hrun|].
        rewrite Hopt in Hb1.
        rewrite (optional_zero _ _ _ Hb1).
        cbn [ok_fields den_fields missing_required]. unfold ok_field, den_field. rewrite Hopt.
        repeat split; try assumption. }
      destruct m as [|[k v] m].
      + apply andb_prop in Hfit. destruct Hfit as [Hopt Hrest]. apply Habsent; assumption.
      + destruct (bytes_eqb k (key f)) eqn:Ek.
        * (* the entry of this field *)
          apply andb_prop in Hfit. destruct Hfit as [Hfv Hrest].
          apply bytes_eqb_eq in Ek. subst k.
          destruct (field_asm lv f s v HF1 Hb1 Hfv) as [g1 [Ha [Hok1 Hden1]]].
          destruct (IH (pre ++ [f]) (spre ++ [(sn, s)]) spost (gpre ++ [g1]) (dpre ++ [true]) m
                      Hfs' Hss' (Hlen _ _ _ Hl1) (Hlen _ _ _ Hl2) (Hlen _ _ _ Hl3) HF2 Hb2 Hrest)
            as [gpost [dpost [Hrun [Hok [Hden Hmiss]]]]].
          exists (g1 :: gpost), (true :: dpost).
          split; [|split; [|split]].
          -- cbn [asm_entries map snd].
             assert (Hin : In f fs) by (rewrite Hfs; apply in_or_app; right; left; reflexivity).
             rewrite (Hkm f Hin). unfold by_name at 1.
             rewrite Hfs at 1.
             rewrite with_field_found;
               [| intros x Hx; apply (nodup_app_head pre f post); [rewrite <- Hfs; exact Hnd | exact Hx]
                | apply bytes_eqb_refl ].
             cbn [Nat.add].
             unfold nth_shape, nth_gv. rewrite Hss, <- Hl1, nth_app_here. cbn [snd].
             rewrite Hl1, <- Hl2, nth_app_here, Ha. cbn [bind fst snd].
             rewrite set_nth_app. rewrite Hl2, <- Hl3, set_nth_app.
             rewrite <- !app_assoc in Hrun. cbn [app] in Hrun. rewrite <- Hss. exact Hrun.
          -- cbn [ok_fields]. rewrite Hok1, Hok. reflexivity.
          -- cbn [den_fields]. rewrite Hden1. cbn [map fst snd]. rewrite Hden. reflexivity.
          -- cbn [missing_required]. rewrite Hmiss. rewrite andb_false_r. reflexivity.
        * apply andb_prop in Hfit. destruct Hfit as [Hopt Hrest]. apply Habsent; assumption.
  Qed.

  Lemma find_rkey_found : forall fs, names_nodup (map f_rkey fs) = true ->
    forall f, In f fs -> find_rkey (f_rkey f) fs = Some (f_name f).
  Proof.
    induction fs as [|p fs IH]; intros Hnd f Hin; [contradiction|].
    cbn [map] in Hnd. destruct (nodup_head _ _ Hnd) as [Hfresh Hnd'].
    cbn [find_rkey]. destruct Hin as [->|Hin].
    - rewrite bytes_eqb_refl. reflexivity.
    - rewrite (Hfresh (f_rkey f) (in_map f_rkey fs f Hin)). apply IH; assumption.
  Qed.

  Lemma missing_all_done : forall fs, missing_required fs (map (fun _ => true) fs) = false.
  Proof. induction fs; [reflexivity|]. simpl. rewrite andb_false_r. exact IHfs. Qed.

  Lemma tuple_asm : forall lv fs ss l,
    Forall (fun f => asm_spec lv (f_type f)) fs ->
    fields_bindable (fun f => bindable (f_type f)) fs ss = true ->
    forallb (fun f => negb (f_opt f)) fs = true ->
    fits_tuple (fun f => fits q lv n32 (f_type f)) fs ss l = true ->
    exists gs, asm_tuple (fun f => asm q lv n32 (f_type f)) fs ss (map (fun f => zero_of (snd f)) ss) l
               = Ok (gs, map (fun _ => true) fs)
               /\ ok_fields (fun f => gv_ok q n32 (f_type f)) fs ss gs = true
               /\ den_tuple (fun f => denote lv (f_type f)) fs gs = l.
  Proof.
    intros lv. induction fs as [|f fs IH]; intros ss l HF Hb Hno Hfit.
    - destruct ss; simpl in Hb; try discriminate. destruct l; simpl in Hfit; try discriminate.
      exists []. repeat split.
    - destruct ss as [|[sn s] ss]; simpl in Hb; try discriminate.
      destruct l as [|v l]; simpl in Hfit; try discriminate.
      apply andb_prop in Hb. destruct Hb as [Hb1 Hb2].
      apply andb_prop in Hfit. destruct Hfit as [Hf1 Hf2].
      cbn [forallb] in Hno. apply andb_prop in Hno. destruct Hno as [Hn1 Hn2].
      apply negb_true_iff in Hn1.
      inversion HF as [|? ? HF1 HF2]; subst.
      assert (Hf1' : fits_child (fits q lv n32 (f_type f)) (f_nul f) (if f_opt f then deref1 s else s) v = true)
        by (rewrite Hn1; exact Hf1).
      destruct (field_asm lv f s v HF1 Hb1 Hf1') as [g1 [Ha [Hok1 Hden1]]].
      destruct (IH ss l HF2 Hb2 Hn2 Hf2) as [gs [Hrun [Hok Hden]]].
      exists (g1 :: gs). cbn [asm_tuple map snd]. rewrite Ha. cbn [bind]. rewrite Hrun. cbn [bind fst snd].
      split; [reflexivity|]. split.
      + cbn [ok_fields]. rewrite Hok1, Hok. reflexivity.
      + cbn [den_tuple]. rewrite Hden1, Hden. reflexivity.
  Qed.

  (* ---- unions -------------------------------------------------------------------------------- *)

  Definition mkey (byname : bool) (m : bytes * sty) : bytes := if byname then sty_name (snd m) else fst m.

  Lemma with_member_found : forall {R} byname k (body : nat -> bytes * sty -> R) none pre m post i,
    (forall x, In x pre -> bytes_eqb k (mkey byname x) = false) -> bytes_eqb k (mkey byname m) = true ->
    with_member byname k body none (pre ++ m :: post) i = body (i + length pre)%nat m.
  Proof.
    intros R byname k body none pre; induction pre as [|p pre IH]; intros m post i Hpre Hm.
    - cbn [app with_member length]. unfold mkey in Hm. rewrite Hm. rewrite Nat.add_0_r. reflexivity.
    - cbn [app with_member length]. pose proof (Hpre p (or_introl eq_refl)) as Hp. unfold mkey in Hp. rewrite Hp.
      rewrite IH; [f_equal; lia | intros x Hx; apply Hpre; right; exact Hx | exact Hm].
  Qed.

  Lemma with_member_true_inv : forall byname k (body : nat -> bytes * sty -> bool) ms i,
    with_member byname k body false ms i = true ->
    exists pre m post, ms = pre ++ m :: post
      /\ (forall x, In x pre -> bytes_eqb k (mkey byname x) = false)
      /\ bytes_eqb k (mkey byname m) = true /\ body (i + length pre)%nat m = true.
  Proof.
    intros byname k body; induction ms as [|p ms IH]; intros i H; [discriminate|].
    cbn [with_member] in H. destruct (bytes_eqb k (if byname then sty_name (snd p) else fst p)) eqn:E.
    - exists [], p, ms. cbn [app length]. rewrite Nat.add_0_r. repeat split; try assumption. intros x [].
    - destruct (IH (S i) H) as [pre [m [post [-> [Hpre [Hm Hb]]]]]].
      exists (p :: pre), m, post. cbn [app length]. repeat split; try assumption.
      + intros x [<-|Hx]; [exact E | apply Hpre; exact Hx].
      + replace (i + S (length pre))%nat with (S i + length pre)%nat by lia. exact Hb.
  Qed.

  Lemma members_split : forall pre m post ss,
    members_bindable (fun m => bindable (snd m)) (pre ++ m :: post) ss = true ->
    exists spre sn ms1 spost, ss = spre ++ (sn, SPtr ms1) :: spost /\ length spre = length pre
      /\ bindable (snd m) ms1 = true /\ is_any (snd m) = false
      /\ members_bindable (fun m => bindable (snd m)) pre spre = true
      /\ members_bindable (fun m => bindable (snd m)) post spost = true.
  Proof.
    induction pre as [|p pre IH]; intros m post ss H.
    - cbn [app] in H. destruct ss as [|[sn s] ss]; simpl in H; try discriminate.
      destruct s as [| | | | | | | ms1 | | |]; try discriminate.
      apply andb3 in H. destruct H as [H1 [H2 H3]]. apply negb_true_iff in H2.
      exists [], sn, ms1, ss. repeat split; assumption.
    - cbn [app] in H. destruct ss as [|[sn s] ss]; simpl in H; try discriminate.
      destruct s as [| | | | | | | ms0 | | |]; try discriminate.
      apply andb3 in H. destruct H as [H1 [H2 H3]].
      destruct (IH m post ss H3) as [spre [sn' [ms1 [spost [-> [Hl [Hb [Ha [Hp Hq]]]]]]]]].
      exists ((sn, SPtr ms0) :: spre), sn', ms1, spost. cbn [app length].
      repeat split; try assumption; try (f_equal; assumption).
      simpl. rewrite H1, H2, Hp. reflexivity.
  Qed.

  Lemma ok_members_nil : forall (ok : bytes * sty -> shape -> gv -> bool) ms ss seen,
    members_bindable (fun m => bindable (snd m)) ms ss = true ->
    ok_members ok ms ss (map (fun _ => GNil) ss) seen = seen.
  Proof.
    induction ms as [|m ms IH]; intros ss seen H.
    - destruct ss; simpl in H; try discriminate. reflexivity.
    - destruct ss as [|[sn s] ss]; simpl in H; try discriminate.
      destruct s; try discriminate. apply andb3 in H. destruct H as [_ [_ H]].
      cbn [map ok_members]. apply IH. exact H.
  Qed.

  Lemma ok_members_at : forall (ok : bytes * sty -> shape -> gv -> bool) pre m post spre sn ms1 spost x,
    members_bindable (fun m => bindable (snd m)) pre spre = true ->
    members_bindable (fun m => bindable (snd m)) post spost = true ->
    ok_members ok (pre ++ m :: post) (spre ++ (sn, SPtr ms1) :: spost)
               (map (fun _ => GNil) spre ++ GPtr x :: map (fun _ => GNil) spost) false = ok m ms1 x.
  Proof.
    induction pre as [|p pre IH]; intros m post spre sn ms1 spost x Hp Hq.
    - destruct spre; simpl in Hp; try discriminate.
      cbn [app map ok_members negb andb]. rewrite (ok_members_nil ok post spost true Hq).
      rewrite andb_true_r. reflexivity.
    - destruct spre as [|[sn0 s0] spre]; simpl in Hp; try discriminate.
      destruct s0; try discriminate. apply andb3 in Hp. destruct Hp as [_ [_ Hp]].
      cbn [app map ok_members]. apply IH; assumption.
  Qed.

  Lemma den_union_at : forall (den : bytes * sty -> gv -> dm) wrapm pre m post (spre : list (bytes * shape)) x rest,
    length spre = length pre ->
    den_union den wrapm (pre ++ m :: post) (map (fun _ => GNil) spre ++ GPtr x :: rest) = wrapm m (den m x).
  Proof.
    induction pre as [|p pre IH]; intros m post spre x rest Hl.
    - destruct spre; simpl in Hl; try discriminate. reflexivity.
    - destruct spre; simpl in Hl; try discriminate. cbn [app map den_union]. apply IH. lia.
  Qed.

  Lemma union_set_at : forall (spre : list (bytes * shape)) e spost x,
    union_set (spre ++ e :: spost) (length spre) x
    = GStruct (map (fun _ => GNil) spre ++ GPtr x :: map (fun _ => GNil) spost).
  Proof.
    intros. unfold union_set. rewrite map_app. cbn [map].
    rewrite <- (map_length (fun _ => GNil) spre). rewrite set_nth_app. reflexivity.
  Qed.

  Definition member_body lv (ss : list (bytes * shape)) (v : dm) (i : nat) (m : bytes * sty) : bres gv :=
    match nth_shape i ss with
    | SPtr ms1 => do x <- asm q lv n32 (snd m) ms1 (zero_of ms1) false v; Ok (union_set ss i x)
    | _ => Err PReflect
    end.

  (* one member assembled into the union struct *)
  Lemma member_asm : forall lv byname k ms ss v wrapm (none : bres gv),
    Forall (fun m => asm_spec lv (snd m)) ms ->
    members_bindable (fun m => bindable (snd m)) ms ss = true ->
    with_member byname k (fun i m => fits_child (fits q lv n32 (snd m)) false (nth_shape i ss) v) false ms O = true ->
    exists pre m post x,
      ms = pre ++ m :: post /\ bytes_eqb k (mkey byname m) = true /\
      with_member byname k (member_body lv ss v) none ms O = Ok (union_set ss (length pre) x)
      /\ ok_members (fun m => gv_ok q n32 (snd m)) ms ss
                    (match union_set ss (length pre) x with GStruct gs => gs | _ => [] end) false = true
      /\ den_union (fun m => denote lv (snd m)) wrapm ms
                   (match union_set ss (length pre) x with GStruct gs => gs | _ => [] end) = wrapm m v.
  Proof.
    intros lv byname k ms ss v wrapm none HF Hb Hfit.
    destruct (with_member_true_inv byname k _ ms O Hfit) as [pre [m [post [Hms [Hpre [Hm Hbody]]]]]].
    cbn [Nat.add] in Hbody. subst ms.
    destruct (members_split pre m post ss Hb) as [spre [sn [ms1 [spost [Hss [Hl [Hbm [Hany [Hp Hq]]]]]]]]].
    assert (Hnth : nth_shape (length pre) ss = SPtr ms1).
    { unfold nth_shape. rewrite Hss, <- Hl, nth_app_here. reflexivity. }
    rewrite Hnth in Hbody. unfold fits_child in Hbody.
    assert (HFm : asm_spec lv (snd m)).
    { rewrite Forall_forall in HF. apply HF. apply in_or_app. right. left. reflexivity. }
    assert (Hloc : loc_ok (fun _ => bindable (snd m)) (snd m) ms1 = true).
    { pose proof (bindable_noptr _ _ Hbm). destruct ms1; simpl in *; try assumption; discriminate. }
    assert (Hd : deref1 ms1 = ms1) by (pose proof (bindable_noptr _ _ Hbm); destruct ms1; simpl in *; try reflexivity; discriminate).
    assert (Hfit' : fits q lv n32 (snd m) (deref1 ms1) v = true).
    { rewrite Hd. destruct v; try discriminate; exact Hbody. }
    destruct (HFm ms1 v Hloc Hfit') as [x [Ha [Hok Hden]]].
    exists pre, m, post, x. split; [reflexivity|]. split; [exact Hm|].
    split; [|split].
    - rewrite with_member_found; [| exact Hpre | exact Hm]. cbn [Nat.add].
      unfold member_body. rewrite Hnth, Ha. reflexivity.
    - rewrite Hss at 2. rewrite <- Hl, union_set_at. rewrite Hss.
      rewrite ok_members_at by assumption.
      unfold ok_loc in Hok. pose proof (bindable_noptr _ _ Hbm). destruct ms1; simpl in *; try assumption; discriminate.
    - rewrite Hss. rewrite <- Hl, union_set_at. rewrite den_union_at by assumption. rewrite Hden. reflexivity.
  Qed.

  (* ---- the theorem --------------------------------------------------------------------------- *)

  Lemma inner_zero : forall s, inner s (zero_of s) = (deref1 s, zero_of (deref1 s)).
  Proof. destruct s; reflexivity. Qed.

  Lemma loc_ok_shape : forall t s, loc_ok (fun _ => bindable t) t s = true ->
    bindable t (deref1 s) = true /\ (s = deref1 s \/ s = SPtr (deref1 s)).
  Proof.
    intros t s H. split; [apply loc_ok_direct; assumption|].
    destruct s; simpl; auto.
  Qed.

  Lemma asm_list_unfold : forall lv n e nl s cur nul l,
    asm q lv n32 (TList n e nl) s cur nul (DList l) =
    let sc := inner s cur in
    match fst sc with
    | SSlice _ es =>
        do gs <- mapM (asm q lv n32 e es (zero_of es) nl) l;
        let old := match snd sc with GSlice o => o | _ => [] end in
        Ok (put s (match old ++ gs with [] => snd sc | all => GSlice all end))
    | _ => Err PReflect
    end.
  Proof. reflexivity. Qed.

  Lemma asm_map_unfold : forall lv n kt vt nl s cur nul m,
    asm q lv n32 (TMap n kt vt nl) s cur nul (DMap m) =
    let sc := inner s cur in
    match fst sc, snd sc with
    | SStruct _ [(_, SSlice _ ks); (_, SGoMap mk mv)], GStruct [gk; gm] =>
        let keys0 := match gk with GSlice l => l | _ => [] end in
        let vals0 := match gm with GGoMap x => x | _ => [] end in
        do kv <- asm_map_entries
                   (fun k v =>
                      do kg <- asm q lv n32 kt mk (zero_of mk) false (DString k);
                      do vg <- asm q lv n32 vt mv (zero_of mv) nl v;
                      Ok (kg, vg)) m keys0 vals0;
        Ok (put s (GStruct [match fst kv with [] => gk | ks' => GSlice ks' end; GGoMap (snd kv)]))
    | _, _ => Err PReflect
    end.
  Proof. reflexivity. Qed.

  Definition finish (fs : list fld) (s : shape) (st : list gv * list bool) : bres gv :=
    if missing_required fs (snd st) then Err XMissing else Ok (put s (GStruct (fst st))).

  Lemma asm_struct_type_unfold : forall n (fs : list fld) r s cur nul m,
    asm q LType n32 (TStruct n fs r) s cur nul (DMap m) =
    let sc := inner s cur in
    match fst sc, snd sc with
    | SStruct _ ss, GStruct gs0 =>
        do st <- asm_entries (fun k v gs done => by_name LType fs ss k v gs done) m gs0 (map (fun _ : fld => false) fs);
        finish fs s st
    | _, _ => Err PReflect
    end.
  Proof. reflexivity. Qed.

  Lemma asm_struct_map_unfold : forall n (fs : list fld) s cur nul m,
    asm q LRepr n32 (TStruct n fs SRMap) s cur nul (DMap m) =
    let sc := inner s cur in
    match fst sc, snd sc with
    | SStruct _ ss, GStruct gs0 =>
        do st <- asm_entries (fun k v gs done =>
                                by_name LRepr fs ss (match find_rkey k fs with Some x => x | None => k end) v gs done)
                             m gs0 (map (fun _ : fld => false) fs);
        finish fs s st
    | _, _ => Err PReflect
    end.
  Proof. reflexivity. Qed.

  Lemma asm_struct_tuple_unfold : forall n (fs : list fld) s cur nul l,
    asm q LRepr n32 (TStruct n fs SRTuple) s cur nul (DList l) =
    let sc := inner s cur in
    match fst sc, snd sc with
    | SStruct _ ss, GStruct gs0 =>
        do st <- asm_tuple (fun f => asm q LRepr n32 (f_type f)) fs ss gs0 l; finish fs s st
    | _, _ => Err PReflect
    end.
  Proof. reflexivity. Qed.

  Lemma union_one_entry : forall (one : bytes -> dm -> bres gv) k v (s : shape),
    (do o <- asm_union_entries one [(k, v)] None;
     match o with Some g => Ok (put s g) | None => Err XUnion end)
    = do g <- one k v; Ok (put s g).
  Proof. intros. cbn [asm_union_entries]. destruct (one k v); reflexivity. Qed.

  Lemma asm_union_type_unfold : forall n ms r s cur nul k v,
    asm q LType n32 (TUnion n ms r) s cur nul (DMap [(k, v)]) =
    match fst (inner s cur) with
    | SStruct _ ss =>
        do g <- with_member true k (member_body LType ss v) (Err XUnion) ms O; Ok (put s g)
    | _ => Err PReflect
    end.
  Proof.
    intros.
    transitivity (match fst (inner s cur) with
                  | SStruct _ ss =>
                      do o <- asm_union_entries (fun k v => with_member true k (member_body LType ss v) (Err XUnion) ms O) [(k, v)] None;
                      match o with Some g => Ok (put s g) | None => Err XUnion end
                  | _ => Err PReflect
                  end).
    - destruct r; reflexivity.
    - destruct (fst (inner s cur)); try reflexivity. apply union_one_entry.
  Qed.

  Lemma asm_union_keyed_unfold : forall n ms s cur nul k v,
    asm q LRepr n32 (TUnion n ms URKeyed) s cur nul (DMap [(k, v)]) =
    match fst (inner s cur) with
    | SStruct _ ss =>
        do g <- match find_member_by_disc k ms O with
                | Some _ => with_member false k (member_body LRepr ss v) (Err XUnion) ms O
                | None => with_member true k (member_body LRepr ss v) (Err XUnion) ms O
                end; Ok (put s g)
    | _ => Err PReflect
    end.
  Proof.
    intros.
    transitivity (match fst (inner s cur) with
                  | SStruct _ ss =>
                      do o <- asm_union_entries
                                (fun k v => match find_member_by_disc k ms O with
                                            | Some _ => with_member false k (member_body LRepr ss v) (Err XUnion) ms O
                                            | None => with_member true k (member_body LRepr ss v) (Err XUnion) ms O
                                            end) [(k, v)] None;
                      match o with Some g => Ok (put s g) | None => Err XUnion end
                  | _ => Err PReflect
                  end).
    - reflexivity.
    - destruct (fst (inner s cur)); try reflexivity. apply union_one_entry.
  Qed.

  Lemma asm_union_kinded_unfold : forall n ms s cur nul d, d <> DNull -> shape_is_ptr s = false ->
    asm q LRepr n32 (TUnion n ms URKinded) s cur nul d =
    match fst (inner s cur) with
    | SStruct _ ss => with_member false (kind_name d) (member_body LRepr ss d) (Err XWrongKind) ms O
    | _ => Err PReflect
    end.
  Proof. intros n ms s cur nul d Hd Hs. destruct d; try congruence; destruct s; try discriminate; reflexivity. Qed.

  Lemma find_disc_some : forall k ms i pre m post,
    ms = pre ++ m :: post -> bytes_eqb k (fst m) = true -> find_member_by_disc k ms i <> None.
  Proof.
    intros k ms i pre; revert ms i. induction pre as [|[pd pt] pre IH]; intros ms i m post -> Hm.
    - destruct m as [d t]. cbn [app find_member_by_disc]. simpl in Hm. rewrite Hm. discriminate.
    - cbn [app find_member_by_disc]. destruct (bytes_eqb k pd); [discriminate|].
      eapply IH; [reflexivity | exact Hm].
  Qed.

  Lemma with_member_ext_bool : forall byname k (b1 b2 : nat -> bytes * sty -> bool) none ms i,
    (forall i m, b1 i m = b2 i m) ->
    with_member byname k b1 none ms i = with_member byname k b2 none ms i.
  Proof.
    intros byname k b1 b2 none ms; induction ms as [|p ms IH]; intros i H; [reflexivity|].
    cbn [with_member]. rewrite H. rewrite (IH (S i) H). reflexivity.
  Qed.

  Lemma keys_slice : forall (l : list gv), l <> [] ->
    (match l with [] => GNil | g :: r => GSlice (g :: r) end) = GSlice l.
  Proof. intros l H; destruct l; [congruence | reflexivity]. Qed.

  Theorem asm_denote : forall lv t, asm_spec lv t.
  Proof.
    intros lv. induction t using sty_ind2; unfold asm_spec; intros s d Hl Hf;
      destruct (loc_ok_shape _ _ Hl) as [Hb Hsh].
    - (* bool *)
      destruct (deref1 s) eqn:Es; simpl in Hb; try discriminate. destruct d; simpl in Hf; try discriminate.
      eexists. split; [reflexivity|]. apply put_built; [assumption | rewrite Es; reflexivity | reflexivity].
    - (* int *)
      destruct (deref1 s) eqn:Es; simpl in Hb; try discriminate. destruct d; simpl in Hf; try discriminate.
      exists (put s (GInt z)). split.
      + cbn [asm asm_scalar]. apply (asm_int_ok s k z Hl Es Hf).
      + apply put_built; [assumption | rewrite Es; exact Hf | reflexivity].
    - (* float *)
      destruct (deref1 s) eqn:Es; simpl in Hb; try discriminate.
      destruct single; destruct d; simpl in Hf; try discriminate.
      + apply N.eqb_eq in Hf.
        exists (put s (GFloat bits)). split.
        * cbn [asm asm_scalar]. rewrite Es, Hf. reflexivity.
        * apply put_built; [assumption | rewrite Es; simpl; rewrite Hf; apply N.eqb_refl | reflexivity].
      + exists (put s (GFloat bits)). split.
        * cbn [asm asm_scalar]. rewrite Es. reflexivity.
        * apply put_built; [assumption | rewrite Es; reflexivity | reflexivity].
    - (* string *)
      destruct (deref1 s) eqn:Es; simpl in Hb; try discriminate. destruct d; simpl in Hf; try discriminate.
      eexists. split; [reflexivity|]. apply put_built; [assumption | rewrite Es; reflexivity | reflexivity].
    - (* bytes *)
      destruct (deref1 s) eqn:Es; simpl in Hb; try discriminate. destruct d; simpl in Hf; try discriminate.
      eexists. split; [reflexivity|].
      apply put_built; [assumption | rewrite Es; destruct s0; reflexivity | destruct s0; reflexivity].
    - (* link *)
      destruct (deref1 s) eqn:Es; simpl in Hb; try discriminate. destruct d; simpl in Hf; try discriminate.
      eexists. split; [reflexivity|]. apply put_built; [assumption | rewrite Es; reflexivity | reflexivity].
    - (* any *)
      destruct (deref1 s) eqn:Es; simpl in Hb; try discriminate.
      destruct d; simpl in Hf; try discriminate;
        (eexists; split; [reflexivity|]; apply put_built; [assumption | rewrite Es; reflexivity | reflexivity]).
    - (* list *)
      destruct (deref1 s) as [| | | | | | | |sn es| |] eqn:Es; simpl in Hb; try discriminate.
      destruct d; simpl in Hf; try discriminate.
      assert (HF : Forall (fun x => exists g, asm q lv n32 t es (zero_of es) nl x = Ok g
                                        /\ ok_child (gv_ok q n32 t) nl es g = true
                                        /\ den_child (denote lv t) nl g = x) l).
      { apply forallb_Forall in Hf. eapply Forall_impl; [|exact Hf].
        intros x Hx. apply child_asm; assumption. }
      destruct (mapM_exists _ (fun g => ok_child (gv_ok q n32 t) nl es g = true) (den_child (denote lv t) nl) l HF)
        as [gs [Hrun [Hoks Hmap]]].
      rewrite asm_list_unfold, inner_zero, Es. cbn [fst snd zero_of]. rewrite Hrun. cbn [bind app].
      eexists. split; [reflexivity|].
      apply put_built; [assumption | |].
      + rewrite Es. destruct gs; [reflexivity|]. cbn [gv_ok].
        apply forallb_forall. rewrite Forall_forall in Hoks. exact Hoks.
      + destruct gs; simpl in *; [subst; reflexivity|]. rewrite <- Hmap. reflexivity.
    - (* map *)
      destruct (deref1 s) as [| | | | | | | | |sn fs|] eqn:Es; simpl in Hb; try discriminate.
      destruct fs as [|[k1 s1] fs]; try discriminate.
      destruct fs as [|[k2 s2] fs]; try (destruct s1 as [| | | | | | | |? [| | | | | | | | | |]| |]; discriminate).
      destruct s1 as [| | | | | | | |n1 ks| |]; try discriminate.
      destruct ks; try discriminate.
      destruct s2 as [| | | | | | | | | |mk mv]; try discriminate.
      destruct mk; try discriminate.
      destruct fs; try discriminate.
      apply andb_prop in Hb. destruct Hb as [Hk Hv].
      destruct t1; try discriminate.
      destruct d; simpl in Hf; try discriminate.
      apply andb_prop in Hf. destruct Hf as [Hnd Hfv].
      set (one := fun (k : bytes) (v : dm) =>
                    do kg <- asm q lv n32 TString SString (zero_of SString) false (DString k);
                    do vg <- asm q lv n32 t2 mv (zero_of mv) nl v; Ok (kg, vg)).
      assert (HF : Forall (fun kv => exists vg, one (fst kv) (snd kv) = Ok (GString (fst kv), vg)
                                       /\ ok_child (gv_ok q n32 t2) nl mv vg = true
                                       /\ den_child (denote lv t2) nl vg = snd kv) m).
      { apply forallb_Forall in Hfv. eapply Forall_impl; [|exact Hfv].
        intros [k v] Hx. simpl in Hx.
        destruct (child_asm lv t2 nl mv v IHt2 Hv Hx) as [vg [Ha [Hok Hden]]].
        exists vg. unfold one. cbn [fst snd]. rewrite Ha. repeat split; assumption. }
      destruct (map_entries_ok one _ _ m [] [] HF Hnd) as [vs [Hrun [_ Hall]]].
      rewrite asm_map_unfold, inner_zero, Es.
      change (zero_of (SStruct sn [(k1, SSlice n1 SString); (k2, SGoMap SString mv)])) with (GStruct [GNil; GNil]).
      cbn [fst snd]. fold one. rewrite Hrun. cbn [bind fst snd app].
      eexists. split; [reflexivity|].
      rewrite Forall_forall in Hall.
      apply put_built; [assumption | |].
      + rewrite Es. cbn [gv_ok].
        destruct m as [|kv0 m0]; [reflexivity|].
        set (mm := kv0 :: m0) in *.
        rewrite (keys_slice (map GString (map fst mm))) by (subst mm; discriminate).
        cbn [andb]. rewrite (gv_nodup_strings _ Hnd). cbn [andb].
        apply andb_true_intro. split.
        * apply forallb_forall. intros x Hx. apply in_map_iff in Hx. destruct Hx as [k [<- _]]. reflexivity.
        * apply forallb_forall. intros x Hx. apply in_map_iff in Hx. destruct Hx as [k [<- Hk']].
          apply in_map_iff in Hk'. destruct Hk' as [[k0 v0] [<- Hin]].
          destruct (Hall _ Hin) as [vg [Hg [Hok _]]]. cbn [fst] in *. rewrite Hg. exact Hok.
      + cbn [denote unptr].
        destruct m as [|kv0 m0]; [reflexivity|].
        set (mm := kv0 :: m0) in *.
        rewrite (keys_slice (map GString (map fst mm))) by (subst mm; discriminate).
        f_equal. rewrite map_map, map_map.
        rewrite <- (map_id mm) at 2. apply map_ext_in. intros [k v] Hin.
        destruct (Hall _ Hin) as [vg [Hg [_ Hden]]]. cbn [fst snd] in *. rewrite Hg, Hden. reflexivity.
    - (* struct *)
      destruct (deref1 s) as [| | | | | | | | |sn ss|] eqn:Es; simpl in Hb; try discriminate.
      apply andb_prop in Hb. destruct Hb as [Hb Hr].
      apply andb3 in Hb. destruct Hb as [Hb [Hnn Hnr]].
      assert (Hz : zero_of (SStruct sn ss) = GStruct (map (fun f => zero_of (snd f)) ss)) by reflexivity.
      destruct lv.
      + (* type level: a map of field names *)
        simpl in Hf. destruct d; try (destruct r; discriminate).
        assert (Hf' : fits_fields (fun f => fits q LType n32 (f_type f)) f_name fs ss m = true)
          by (destruct r; exact Hf).
        destruct (struct_entries LType f_name (fun k => k) fs ss Hnn (fun f _ => eq_refl)
                    fs [] [] ss [] [] m eq_refl eq_refl eq_refl eq_refl eq_refl H Hb Hf')
          as [gpost [dpost [Hrun [Hok [Hden Hmiss]]]]].
        cbn [app] in Hrun. cbn beta in Hrun.
        rewrite asm_struct_type_unfold, inner_zero, Es, Hz. cbn [fst snd]. rewrite Hrun. cbn [bind].
        unfold finish. cbn [fst snd]. rewrite Hmiss.
        eexists. split; [reflexivity|].
        apply put_built; [assumption | rewrite Es; exact Hok |].
        cbn [denote unptr]. destruct r; rewrite Hden; reflexivity.
      + destruct r.
        * (* representation: map of (renamed) keys *)
          simpl in Hf. destruct d; try discriminate.
          assert (Hkm : forall f, In f fs ->
                     (fun k => match find_rkey k fs with Some x => x | None => k end) (f_rkey f) = f_name f).
          { intros f Hin. cbn beta. rewrite (find_rkey_found fs Hnr f Hin). reflexivity. }
          destruct (struct_entries LRepr f_rkey _ fs ss Hnn Hkm
                      fs [] [] ss [] [] m eq_refl eq_refl eq_refl eq_refl eq_refl H Hb Hf)
            as [gpost [dpost [Hrun [Hok [Hden Hmiss]]]]].
          cbn [app] in Hrun. cbn beta in Hrun.
          rewrite asm_struct_map_unfold, inner_zero, Es, Hz. cbn [fst snd]. rewrite Hrun. cbn [bind].
          unfold finish. cbn [fst snd]. rewrite Hmiss.
          eexists. split; [reflexivity|].
          apply put_built; [assumption | rewrite Es; exact Hok |].
          cbn [denote unptr]. rewrite Hden. reflexivity.
        * (* representation: tuple *)
          simpl in Hf. destruct d; try discriminate.
          destruct (tuple_asm LRepr fs ss l H Hb Hr Hf) as [gs [Hrun [Hok Hden]]].
          rewrite asm_struct_tuple_unfold, inner_zero, Es, Hz. cbn [fst snd]. rewrite Hrun. cbn [bind].
          unfold finish. cbn [fst snd]. rewrite missing_all_done.
          eexists. split; [reflexivity|].
          apply put_built; [assumption | rewrite Es; exact Hok |].
          cbn [denote unptr]. rewrite Hden. reflexivity.
    - (* union *)
      destruct (deref1 s) as [| | | | | | | | |sn ss|] eqn:Es; simpl in Hb; try discriminate.
      apply andb_prop in Hb. destruct Hb as [Hb Hkwf].
      apply andb3 in Hb. destruct Hb as [Hb [Hnn Hnd]].
      assert (Hinner : fst (inner s (zero_of s)) = SStruct sn ss) by (rewrite inner_zero, Es; reflexivity).
      destruct lv.
      + simpl in Hf. destruct d; try (destruct r; discriminate).
        destruct m as [|[k v] [|]]; try (destruct r; discriminate).
        assert (Hf' : with_member true k (fun i m => fits_child (fits q LType n32 (snd m)) false (nth_shape i ss) v) false ms 0 = true)
          by (destruct r; exact Hf).
        destruct (member_asm LType true k ms ss v (fun m d => DMap [(sty_name (snd m), d)]) (Err XUnion) H Hb Hf')
          as [pre [mb [post [x [Hms [Hk [Hrun [Hok Hden]]]]]]]].
        rewrite asm_union_type_unfold, Hinner. rewrite Hrun. cbn [bind].
        eexists. split; [reflexivity|].
        apply put_built; [assumption | rewrite Es; unfold union_set in *; exact Hok |].
        unfold union_set in *. cbn [denote unptr]. 
        apply bytes_eqb_eq in Hk. unfold mkey in Hk. subst k.
        destruct r; exact Hden.
      + destruct r.
        * simpl in Hf. destruct d; try discriminate.
          destruct m as [|[k v] [|]]; try discriminate.
          destruct (member_asm LRepr false k ms ss v (fun m d => DMap [(fst m, d)]) (Err XUnion) H Hb Hf)
            as [pre [mb [post [x [Hms [Hk [Hrun [Hok Hden]]]]]]]].
          rewrite asm_union_keyed_unfold, Hinner.
          pose proof (find_disc_some k ms 0 pre mb post Hms Hk) as Hsome.
          destruct (find_member_by_disc k ms 0); [|congruence].
          rewrite Hrun. cbn [bind].
          eexists. split; [reflexivity|].
          apply put_built; [assumption | rewrite Es; unfold union_set in *; exact Hok |].
          unfold union_set in *. cbn [denote unptr].
          apply bytes_eqb_eq in Hk. unfold mkey in Hk. subst k. exact Hden.
        * assert (Hd : d <> DNull) by (intros ->; simpl in Hf; discriminate).
          assert (Hf' : with_member false (kind_name d)
                          (fun i m => fits_child (fits q LRepr n32 (snd m)) false (nth_shape i ss) d) false ms 0 = true).
          { simpl in Hf. destruct d; try congruence;
              (erewrite with_member_ext_bool; [exact Hf|]; intros i mb0; unfold fits_child;
               destruct (nth_shape i ss); reflexivity). }
          destruct (member_asm LRepr false (kind_name d) ms ss d (fun m d => d) (Err XWrongKind) H Hb Hf')
            as [pre [mb [post [x [Hms [Hk [Hrun [Hok Hden]]]]]]]].
          assert (Hs : s = SStruct sn ss).
          { simpl in Hl. destruct s; simpl in Es; try discriminate; try exact Es.
            simpl in Hl. rewrite andb_false_r in Hl. discriminate. }
          rewrite asm_union_kinded_unfold; [|assumption|rewrite Hs; reflexivity]. rewrite Hinner. rewrite Hrun.
          eexists. split; [reflexivity|].
          unfold built.
          split.
          -- rewrite Hs. unfold ok_loc, union_set in *. exact Hok.
          -- unfold union_set in *. cbn [denote unptr]. exact Hden.
        * discriminate Hkwf.
    - (* enum *)
      destruct (deref1 s) eqn:Es; simpl in Hb; try discriminate.
      apply andb_prop in Hb. destruct Hb as [Hb Hsmall].
      destruct lv.
      + simpl in Hf. destruct d; try (destruct r; discriminate).
        assert (He : enum_by_name s0 ms <> None) by (destruct r; destruct (enum_by_name s0 ms); congruence).
        exists (put s (GString s0)). split.
        * cbn [asm asm_enum]. rewrite Es. destruct r; reflexivity.
        * apply put_built; [assumption | rewrite Es; simpl; destruct (enum_by_name s0 ms); congruence |].
          simpl. unfold den_enum. reflexivity.
      + destruct r.
        * simpl in Hf. destruct d; try discriminate.
          destruct (enum_by_repr s0 ms) as [m|] eqn:Er; try discriminate.
          destruct (enum_by_repr_name ms s0 m Hb Er) as [ir Hn].
          exists (put s (GString m)). split.
          -- cbn [asm asm_enum]. rewrite Er, Es. reflexivity.
          -- apply put_built; [assumption | rewrite Es; simpl; rewrite Hn; reflexivity |].
             simpl. unfold den_enum. rewrite Hn. reflexivity.
        * simpl in Hf. destruct d; try discriminate.
          apply andb_prop in Hf. destruct Hf as [Hlt Hf].
          destruct (enum_by_int z ms) as [m|] eqn:Er; try discriminate.
          destruct (enum_by_int_name ms z m Hb Er) as [sr Hn].
          exists (put s (GString m)). split.
          -- cbn [asm asm_enum].
             assert ((two63z <=? z)%Z = false) as -> by (apply Z.leb_gt; apply Z.ltb_lt in Hlt; exact Hlt).
             rewrite Er, Es. reflexivity.
          -- apply put_built; [assumption | rewrite Es; simpl; rewrite Hn; reflexivity |].
             simpl. unfold den_enum. rewrite Hn. reflexivity.
  Qed.
End AsmFaithful.
