(* Proofs/BindAsm.v — writing is faithful: on a bindable pair, assembling a data tree that fits the
   type (at type level or at representation level) into the zero Go value succeeds, yields a well
   formed Go value, and that value denotes exactly the tree that was assembled. *)
Require Import IP.Base.Bytes IP.DM.Value IP.Bind.GoVal IP.Bind.Bind IP.Bind.Spec IP.Proofs.BindFacts.
From Coq Require Import ZifyN ZifyNat ZifyBool.
Open Scope N_scope.

Lemma dm_null_dec : forall d : dm, {d = DNull} + {d <> DNull}.
Proof. destruct d; (left; reflexivity) || (right; discriminate). Qed.

Lemma existsb_map_strings : forall k ks,
  existsb (gv_eqb (GString k)) (map GString ks) = existsb (bytes_eqb k) ks.
Proof. intros k ks; induction ks; [reflexivity|]. cbn [map existsb]. rewrite IHks. reflexivity. Qed.

Section AsmFaithful.
  Variable q : quirks.
  Variable n32 : N -> N.

  Definition built (lv : level) (t : sty) (s : shape) (d : dm) (g : gv) : Prop :=
    ok_loc (gv_ok q n32 t) s g = true /\ denote lv t g = d.

  Definition asm_spec (lv : level) (t : sty) : Prop :=
    forall s d, loc_ok (fun _ => bindable t) t s = true ->
      fits q lv n32 t (deref1 s) d = true ->
      exists g, asm q lv n32 t s (zero_of s) false d = Ok g /\ built lv t s d g.

  (* ---- generic facts ------------------------------------------------------------------------ *)

  Lemma asm_nullable_irrel : forall lv t s cur nl d, d <> DNull ->
    asm q lv n32 t s cur nl d = asm q lv n32 t s cur false d.
  Proof. intros lv t s cur nl d H. destruct t; destruct d; try reflexivity; congruence. Qed.

  Lemma fits_nonnull : forall lv t s, fits q lv n32 t s DNull = false.
  Proof.
    intros lv t s. destruct t; simpl; try reflexivity;
      repeat match goal with
             | |- context [match ?x with _ => _ end] => destruct x; try reflexivity
             end.
  Qed.

  Lemma loc_ok_direct : forall t s, loc_ok (fun _ => bindable t) t s = true ->
    bindable t (deref1 s) = true.
  Proof.
    intros t s H. destruct s; simpl in *; try assumption.
    apply andb3 in H. tauto.
  Qed.

  Lemma nullable_loc_ok : forall t s, nullable_ok (fun _ => bindable t) t s = true ->
    loc_ok (fun _ => bindable t) t s = true.
  Proof.
    intros t s H. destruct s as [| | | | |k| | | | |]; simpl in *; try discriminate; try assumption.
    destruct k; try discriminate; assumption.
  Qed.

  Lemma nullable_zero : forall t s, nullable_ok (fun _ => bindable t) t s = true -> zero_of s = GNil.
  Proof.
    intros t s H. destruct s as [| | | | |k| | | | |]; simpl in *; try discriminate; try reflexivity.
    destruct k; try discriminate; reflexivity.
  Qed.

  Lemma nullable_built_nonnil : forall lv t s g, nullable_ok (fun _ => bindable t) t s = true ->
    ok_loc (gv_ok q n32 t) s g = true -> g <> GNil /\ denote lv t (unptr g) = denote lv t g.
  Proof.
    intros lv t s g Hs Hg.
    destruct s as [| | | | |k| | s1 | | |]; simpl in Hs; try discriminate.
    - destruct k; try discriminate.
      assert (t = TLink) by (destruct t; simpl in Hs; try discriminate; reflexivity). subst.
      destruct g; simpl in Hg; try discriminate. split; [discriminate | reflexivity].
    - assert (t = TAny) by (destruct t; simpl in Hs; try discriminate; reflexivity). subst.
      destruct g; simpl in Hg; try discriminate. split; [discriminate | reflexivity].
    - destruct g; simpl in Hg; try discriminate. split; [discriminate|].
      simpl. symmetry. apply denote_ptr. intros w ->. rewrite gv_ok_noptr in Hg. discriminate.
  Qed.

  (* a position that may be null *)
  Lemma child_asm : forall lv t (nl : bool) s d, asm_spec lv t ->
    (if nl then nullable_ok (fun _ => bindable t) t s else loc_ok (fun _ => bindable t) t s) = true ->
    fits_child (fits q lv n32 t) nl s d = true ->
    exists g, asm q lv n32 t s (zero_of s) nl d = Ok g
              /\ ok_child (gv_ok q n32 t) nl s g = true
              /\ den_child (denote lv t) nl g = d.
  Proof.
    intros lv t nl s d IH Hs Hf. unfold fits_child in Hf.
    destruct nl.
    - destruct (dm_null_dec d) as [->|Hd].
      + exists (zero_of s). split.
        * destruct t; reflexivity.
        * rewrite (nullable_zero t s Hs). split; reflexivity.
      + assert (Hf' : fits q lv n32 t (deref1 s) d = true) by (destruct d; congruence).
        destruct (IH s d (nullable_loc_ok t s Hs) Hf') as [g [Ha [Hok Hden]]].
        exists g. rewrite asm_nullable_irrel by assumption. split; [assumption|].
        destruct (nullable_built_nonnil lv t s g Hs Hok) as [Hnn Hun].
        unfold ok_child, den_child. destruct g; try congruence; split; try assumption;
          try (rewrite Hun; assumption).
    - assert (Hd : d <> DNull) by (intros ->; discriminate).
      assert (Hf' : fits q lv n32 t (deref1 s) d = true) by (destruct d; congruence).
      destruct (IH s d Hs Hf') as [g [Ha [Hok Hden]]].
      exists g. split; [assumption|]. split; assumption.
  Qed.

  (* ---- scalars ------------------------------------------------------------------------------- *)

  Lemma asm_int_ok : forall s k z,
    loc_ok (fun _ => bindable TInt) TInt s = true -> deref1 s = SInt k -> int_ok q k z = true ->
    asm_int q s z = Ok (put s (GInt z)).
  Proof.
    intros s k z Hl Hd Hi. unfold int_ok in Hi. apply andb_prop in Hi. destruct Hi as [Hin _].
    unfold asm_int. rewrite Hd.
    destruct s as [| k0 | | | | | | s1 | | |]; simpl in Hd; try discriminate.
    - inversion Hd; subst k0.
      destruct (ik_unsigned k) eqn:Hu.
      + rewrite (unsigned_nonneg k z Hu Hin). rewrite Hin. rewrite andb_false_r.
        rewrite (ik_narrow_in k z Hin). reflexivity.
      + rewrite Hin. rewrite andb_false_r.
        pose proof (signed_below_two63 k z Hu Hin) as Hlt.
        assert ((two63z <=? z)%Z = false) as ->.
        { apply Z.leb_gt. apply Z.ltb_lt in Hlt. exact Hlt. }
        rewrite (ik_narrow_in k z Hin). reflexivity.
    - subst s1. simpl in Hl. rewrite andb_true_r in Hl.
      assert (Hu : ik_unsigned k = false) by (apply negb_true_iff; exact Hl).
      rewrite Hu. rewrite Hin. rewrite andb_false_r.
      pose proof (signed_below_two63 k z Hu Hin) as Hlt.
      assert ((two63z <=? z)%Z = false) as ->.
      { apply Z.leb_gt. apply Z.ltb_lt in Hlt. exact Hlt. }
      rewrite (ik_narrow_in k z Hin). reflexivity.
  Qed.

  (* a value put into a location is well formed there and denotes what the bare value denotes *)
  Lemma put_built : forall lv t s x d,
    loc_ok (fun _ => bindable t) t s = true ->
    gv_ok q n32 t (deref1 s) x = true -> denote lv t x = d ->
    built lv t s d (put s x).
  Proof.
    intros lv t s x d Hl Hok Hden. unfold built.
    destruct s; simpl in *; try (split; assumption).
    split; [assumption|].
    rewrite denote_ptr; [assumption|].
    intros w ->. rewrite gv_ok_noptr in Hok. discriminate.
  Qed.

  (* ---- enums --------------------------------------------------------------------------------- *)

  Lemma enum_by_repr_name : forall ms x m,
    names_nodup (map (fun e : bytes * bytes * Z => fst (fst e)) ms) = true ->
    enum_by_repr x ms = Some m -> exists ir, enum_by_name m ms = Some (x, ir).
  Proof.
    induction ms as [|[[mn sr] ir] ms IH]; intros x m Hnd H; [discriminate|].
    simpl in *. apply andb_prop in Hnd. destruct Hnd as [Hnot Hnd].
    destruct (bytes_eqb x sr) eqn:E.
    - inversion H; subst m. rewrite bytes_eqb_refl. apply bytes_eqb_eq in E. subst. eauto.
    - destruct (IH x m Hnd H) as [ir' Hn].
      destruct (bytes_eqb m mn) eqn:E2; [|eauto].
      apply bytes_eqb_eq in E2. subst m. exfalso.
      apply negb_true_iff in Hnot.
      assert (Hin : In mn (map (fun e : bytes * bytes * Z => fst (fst e)) ms)).
      { clear - Hn. induction ms as [|[[a b] c] ms IHm]; simpl in *; [discriminate|].
        destruct (bytes_eqb mn a) eqn:E3; [left; symmetry; apply bytes_eqb_eq; assumption | right; auto]. }
      pose proof (existsb_false_In mn _ Hnot mn Hin) as C. rewrite bytes_eqb_refl in C. discriminate.
  Qed.

  Lemma enum_by_int_name : forall ms z m,
    names_nodup (map (fun e : bytes * bytes * Z => fst (fst e)) ms) = true ->
    enum_by_int z ms = Some m -> exists sr, enum_by_name m ms = Some (sr, z).
  Proof.
    induction ms as [|[[mn sr] ir] ms IH]; intros z m Hnd H; [discriminate|].
    simpl in *. apply andb_prop in Hnd. destruct Hnd as [Hnot Hnd].
    destruct (Z.eqb z ir) eqn:E.
    - inversion H; subst m. rewrite bytes_eqb_refl. apply Z.eqb_eq in E. subst. eauto.
    - destruct (IH z m Hnd H) as [sr' Hn].
      destruct (bytes_eqb m mn) eqn:E2; [|eauto].
      apply bytes_eqb_eq in E2. subst m. exfalso.
      apply negb_true_iff in Hnot.
      assert (Hin : In mn (map (fun e : bytes * bytes * Z => fst (fst e)) ms)).
      { clear - Hn. induction ms as [|[[a b] c] ms IHm]; simpl in *; [discriminate|].
        destruct (bytes_eqb mn a) eqn:E3; [left; symmetry; apply bytes_eqb_eq; assumption | right; auto]. }
      pose proof (existsb_false_In mn _ Hnot mn Hin) as C. rewrite bytes_eqb_refl in C. discriminate.
  Qed.

  (* ---- lists --------------------------------------------------------------------------------- *)

  Lemma mapM_exists : forall {A B} (f : A -> bres B) (P : B -> Prop) (h : B -> A) l,
    Forall (fun x => exists y, f x = Ok y /\ P y /\ h y = x) l ->
    exists ys, mapM f l = Ok ys /\ Forall P ys /\ map h ys = l.
  Proof.
    intros A B f P h l H; induction H as [|x l [y [Hy [Py Hh]]] _ [ys [Hys [Pys Hm]]]].
    - exists []. repeat split; constructor.
    - exists (y :: ys). simpl. rewrite Hy. simpl. rewrite Hys. simpl.
      repeat split; [constructor; assumption | congruence].
  Qed.

  (* ---- ordered maps -------------------------------------------------------------------------- *)

  Lemma gv_eqb_str : forall a b, gv_eqb (GString a) (GString b) = bytes_eqb a b.
  Proof. reflexivity. Qed.

  Lemma gv_eqb_str_l : forall a g, gv_eqb (GString a) g = true -> g = GString a.
  Proof.
    intros a g H. destruct g; simpl in H; try discriminate.
    apply bytes_eqb_eq in H. subst. reflexivity.
  Qed.

  Lemma get_set_same : forall k v m, gomap_get (GString k) (gomap_set (GString k) v m) = Some v.
  Proof.
    intros k v m; induction m as [|[k' v'] m IH].
    - cbn [gomap_set gomap_get]. rewrite gv_eqb_str, bytes_eqb_refl. reflexivity.
    - cbn [gomap_set]. destruct (gv_eqb (GString k) k') eqn:E; cbn [gomap_get].
      + rewrite gv_eqb_str, bytes_eqb_refl. reflexivity.
      + rewrite E. exact IH.
  Qed.

  Lemma get_set_other : forall k k0 v m, bytes_eqb k0 k = false ->
    gomap_get (GString k0) (gomap_set (GString k) v m) = gomap_get (GString k0) m.
  Proof.
    intros k k0 v m H; induction m as [|[k' v'] m IH].
    - cbn [gomap_set gomap_get]. rewrite gv_eqb_str, H. reflexivity.
    - cbn [gomap_set]. destruct (gv_eqb (GString k) k') eqn:E; cbn [gomap_get].
      + apply gv_eqb_str_l in E. subst k'. rewrite gv_eqb_str, H. reflexivity.
      + destruct (gv_eqb (GString k0) k'); [reflexivity | exact IH].
  Qed.

  Lemma nodup_head : forall k l, names_nodup (k :: l) = true ->
    (forall x, In x l -> bytes_eqb x k = false) /\ names_nodup l = true.
  Proof.
    intros k l H. simpl in H. apply andb_prop in H. destruct H as [H1 H2]. split; [|assumption].
    apply negb_true_iff in H1. intros x Hx.
    rewrite bytes_eqb_sym. exact (existsb_false_In k l H1 x Hx).
  Qed.

  Section MapEntries.
    Variable one : bytes -> dm -> bres (gv * gv).
    Variable okc : gv -> bool.
    Variable denc : gv -> dm.

    Lemma map_entries_ok : forall m keys0 vals0,
      Forall (fun kv => exists vg, one (fst kv) (snd kv) = Ok (GString (fst kv), vg)
                                   /\ okc vg = true /\ denc vg = snd kv) m ->
      names_nodup (map fst m) = true ->
      exists vs,
        asm_map_entries one m keys0 vals0 = Ok (keys0 ++ map GString (map fst m), vs)
        /\ (forall k0, (forall x, In x (map fst m) -> bytes_eqb k0 x = false) ->
                       gomap_get (GString k0) vs = gomap_get (GString k0) vals0)
        /\ Forall (fun kv => exists vg, gomap_get (GString (fst kv)) vs = Some vg
                                        /\ okc vg = true /\ denc vg = snd kv) m.
    Proof.
      induction m as [|[k v] m IH]; intros keys0 vals0 HF Hnd.
      - exists vals0. simpl. rewrite app_nil_r. repeat split; auto.
      - inversion HF as [|? ? [vg [Hone [Hok Hden]]] HF']; subst. simpl in Hone, Hok, Hden.
        simpl map in Hnd. destruct (nodup_head _ _ Hnd) as [Hfresh Hnd'].
        destruct (IH (keys0 ++ [GString k]) (gomap_set (GString k) vg vals0) HF' Hnd') as [vs [Hrun [Hother Hall]]].
        exists vs. cbn [asm_map_entries]. rewrite Hone. cbn [bind fst snd].
        split; [|split].
        + rewrite Hrun. rewrite <- app_assoc. reflexivity.
        + intros k0 Hk0. rewrite Hother.
          * apply get_set_other. apply Hk0. left; reflexivity.
          * intros x Hx. apply Hk0. right; exact Hx.
        + constructor.
          * exists vg. simpl. split; [|split; assumption].
            rewrite Hother; [apply get_set_same|].
            intros x Hx. rewrite bytes_eqb_sym. apply Hfresh. exact Hx.
          * exact Hall.
    Qed.
  End MapEntries.

  Lemma gv_nodup_strings : forall ks, names_nodup ks = true -> gv_nodup (map GString ks) = true.
  Proof.
    induction ks as [|k ks IH]; intros H; [reflexivity|].
    cbn [names_nodup map gv_nodup] in *. apply andb_prop in H. destruct H as [H1 H2]. rewrite (IH H2), andb_true_r.
    rewrite existsb_map_strings. exact H1.
  Qed.

  (* ---- struct fields ------------------------------------------------------------------------- *)

  Lemma field_asm : forall lv f s v, asm_spec lv (f_type f) ->
    field_ok (fun _ => bindable (f_type f)) (f_type f) (f_opt f) (f_nul f) s = true ->
    fits_child (fits q lv n32 (f_type f)) (f_nul f) (if f_opt f then deref1 s else s) v = true ->
    exists g, asm_field (asm q lv n32 (f_type f)) f s (zero_of s) v = Ok g
              /\ ok_field (gv_ok q n32 (f_type f)) (f_opt f) (f_nul f) s g = true
              /\ den_field (denote lv (f_type f)) (f_opt f) (f_nul f) g = Some v.
  Proof.
    intros lv f s v IH Hs Hf. unfold asm_field, field_ok, ok_field, den_field in *.
    set (t := f_type f) in *.
    destruct (f_opt f); destruct (f_nul f).
    - (* optional nullable *)
      destruct s as [| | | | | | | s1 | | |]; try discriminate.
      apply andb_prop in Hs. destruct Hs as [Hs Hp]. simpl in Hf.
      destruct (child_asm lv t true s1 v IH Hs Hf) as [x [Ha [Hok Hden]]].
      exists (GPtr x). rewrite Ha. cbn [bind unptr]. repeat split; try assumption. rewrite Hden. reflexivity.
    - (* optional *)
      destruct s as [| | | | |k| | s1 | | |]; try discriminate.
      + destruct k; try discriminate. simpl in Hf.
        destruct (child_asm lv t false (SLink LIface) v IH Hs Hf) as [x [Ha [Hok Hden]]].
        exists x. rewrite Ha. unfold ok_child in Hok. simpl in Hok.
        assert (t = TLink) by (destruct t; simpl in Hs; try discriminate; reflexivity).
        rewrite H in *. destruct x; simpl in Hok; try discriminate.
        repeat split. simpl in Hden. simpl. rewrite Hden. reflexivity.
      + simpl in Hf.
        destruct (child_asm lv t false SNode v IH Hs Hf) as [x [Ha [Hok Hden]]].
        exists x. rewrite Ha. unfold ok_child in Hok. simpl in Hok.
        assert (t = TAny) by (destruct t; simpl in Hs; try discriminate; reflexivity).
        rewrite H in *. destruct x; simpl in Hok; try discriminate.
        repeat split. simpl in Hden. simpl. rewrite Hden. reflexivity.
      + simpl in Hf.
        pose proof (bindable_noptr _ _ Hs) as Hnp.
        assert (Hl : loc_ok (fun _ => bindable t) t s1 = true).
        { destruct s1; simpl in *; try assumption; discriminate. }
        destruct (child_asm lv t false s1 v IH Hl Hf) as [x [Ha [Hok Hden]]].
        exists (GPtr x). rewrite Ha. cbn [bind unptr]. repeat split; try assumption.
        unfold den_child in *. rewrite Hden. reflexivity.
    - destruct (child_asm lv t true s v IH Hs Hf) as [x [Ha [Hok Hden]]].
      exists x. rewrite Ha. repeat split; try assumption. rewrite Hden. reflexivity.
    - destruct (child_asm lv t false s v IH Hs Hf) as [x [Ha [Hok Hden]]].
      exists x. rewrite Ha. repeat split; try assumption. rewrite Hden. reflexivity.
  Qed.

  Lemma optional_zero : forall t (nl : bool) s, field_ok (fun _ => bindable t) t true nl s = true ->
    zero_of s = GNil.
  Proof.
    intros t nl s H. unfold field_ok in H.
    destruct s as [| | | | |k| | | | |]; try reflexivity; destruct nl; try discriminate.
    destruct k; try discriminate; reflexivity.
  Qed.

  Definition by_name lv fs (ss : list (bytes * shape)) (k : bytes) (v : dm) (gs : list gv) (done : list bool)
    : bres (list gv * list bool) :=
    with_field k
      (fun i f => do g1 <- asm_field (asm q lv n32 (f_type f)) f (nth_shape i ss) (nth_gv i gs) v;
                  Ok (set_nth i g1 gs, set_nth i true done))
      (Err XInvalidKey) fs O.

  Lemma with_field_found : forall {R} k (body : nat -> fld -> R) none pre f post i,
    (forall x, In x pre -> bytes_eqb k (f_name x) = false) -> bytes_eqb k (f_name f) = true ->
    with_field k body none (pre ++ f :: post) i = body (i + length pre)%nat f.
  Proof.
    intros R k body none pre; induction pre as [|p pre IH]; intros f post i Hpre Hf.
    - cbn [app with_field length]. rewrite Hf. rewrite Nat.add_0_r. reflexivity.
    - cbn [app with_field length]. rewrite (Hpre p (or_introl eq_refl)).
      rewrite IH; [f_equal; lia | intros x Hx; apply Hpre; right; exact Hx | exact Hf].
  Qed.

  Lemma nodup_app_head : forall (pre : list fld) f post,
    names_nodup (map f_name (pre ++ f :: post)) = true ->
    forall x, In x pre -> bytes_eqb (f_name f) (f_name x) = false.
  Proof.
    induction pre as [|p pre IH]; intros f post H x Hx; [contradiction|].
    cbn [app map] in H. destruct (nodup_head _ _ H) as [Hfresh Hnd].
    destruct Hx as [->|Hx].
    - apply Hfresh. rewrite map_app. apply in_or_app. right. left. reflexivity.
    - eapply IH; eassumption.
  Qed.

  Lemma struct_entries : forall lv (key : fld -> bytes) (keymap : bytes -> bytes) fs ss,
    names_nodup (map f_name fs) = true ->
    (forall f, In f fs -> keymap (key f) = f_name f) ->
    forall post pre spre spost gpre dpre m,
      fs = pre ++ post -> ss = spre ++ spost ->
      length spre = length pre -> length gpre = length pre -> length dpre = length pre ->
      Forall (fun f => asm_spec lv (f_type f)) post ->
      fields_bindable (fun f => bindable (f_type f)) post spost = true ->
      fits_fields (fun f => fits q lv n32 (f_type f)) key post spost m = true ->
      exists gpost dpost,
        asm_entries (fun k v gs done => by_name lv fs ss (keymap k) v gs done) m
                    (gpre ++ map (fun f => zero_of (snd f)) spost) (dpre ++ map (fun _ => false) post)
        = Ok (gpre ++ gpost, dpre ++ dpost)
        /\ ok_fields (fun f => gv_ok q n32 (f_type f)) post spost gpost = true
        /\ map (fun e => (key (fst e), snd e)) (den_fields (fun f => denote lv (f_type f)) post gpost) = m
        /\ missing_required post dpost = false.
  Proof.
    intros lv key keymap fs ss Hnd Hkm.
    induction post as [|f post IH]; intros pre spre spost gpre dpre m Hfs Hss Hl1 Hl2 Hl3 HF Hb Hfit.
    - destruct spost; simpl in Hb; try discriminate. simpl in Hfit.
      destruct m; try discriminate.
      exists [], []. simpl. repeat split; reflexivity.
    - destruct spost as [|[sn s] spost]; simpl in Hb; try discriminate.
      apply andb_prop in Hb. destruct Hb as [Hb1 Hb2].
      inversion HF as [|? ? HF1 HF2]; subst x l.
      assert (Hfs' : fs = (pre ++ [f]) ++ post) by (rewrite <- app_assoc; exact Hfs).
      assert (Hss' : ss = (spre ++ [(sn, s)]) ++ spost) by (rewrite <- app_assoc; exact Hss).
      assert (Hlen : forall {A} (l : list A) (x : A), length l = length pre -> length (l ++ [x]) = length (pre ++ [f])).
      { intros A l x E. rewrite !app_length. simpl. lia. }
      cbn [fits_fields] in Hfit.
      assert (Habsent : f_opt f = true ->
                fits_fields (fun f => fits q lv n32 (f_type f)) key post spost m = true ->
                exists gpost dpost,
                  asm_entries (fun k v gs done => by_name lv fs ss (keymap k) v gs done) m
                    (gpre ++ map (fun f => zero_of (snd f)) ((sn, s) :: spost)) (dpre ++ map (fun _ => false) (f :: post))
                  = Ok (gpre ++ gpost, dpre ++ dpost)
                  /\ ok_fields (fun f => gv_ok q n32 (f_type f)) (f :: post) ((sn, s) :: spost) gpost = true
                  /\ map (fun e => (key (fst e), snd e)) (den_fields (fun f => denote lv (f_type f)) (f :: post) gpost) = m
                  /\ missing_required (f :: post) dpost = false).
      { intros Hopt Hrest.
        destruct (IH (pre ++ [f]) (spre ++ [(sn, s)]) spost (gpre ++ [zero_of s]) (dpre ++ [false]) m
                    Hfs' Hss' (Hlen _ _ _ Hl1) (Hlen _ _ _ Hl2) (Hlen _ _ _ Hl3) HF2 Hb2 Hrest)
          as [gpost [dpost [Hrun [Hok [Hden Hmiss]]]]].
        exists (zero_of s :: gpost), (false :: dpost).
        cbn [map snd]. rewrite <- !app_assoc in Hrun. cbn [app] in Hrun.
        split; [exact Hrun|].
        rewrite Hopt in Hb1.
        rewrite (optional_zero _ _ _ Hb1).
        cbn [ok_fields den_fields missing_required]. unfold ok_field, den_field. rewrite Hopt.
        repeat split; try assumption. }
      destruct m as [|[k v] m].
      + apply andb_prop in Hfit. destruct Hfit as [Hopt Hrest]. apply Habsent; assumption.
      + destruct (bytes_eqb k (key f)) eqn:Ek.
        * (* the entry of this field *)
          apply andb_prop in Hfit. destruct Hfit as [Hfv Hrest].
          apply bytes_eqb_eq in Ek. subst k.
          destruct (field_asm lv f s v HF1 Hb1 Hfv) as [g1 [Ha [Hok1 Hden1]]].
          destruct (IH (pre ++ [f]) (spre ++ [(sn, s)]) spost (gpre ++ [g1]) (dpre ++ [true]) m
                      Hfs' Hss' (Hlen _ _ _ Hl1) (Hlen _ _ _ Hl2) (Hlen _ _ _ Hl3) HF2 Hb2 Hrest)
            as [gpost [dpost [Hrun [Hok [Hden Hmiss]]]]].
          exists (g1 :: gpost), (true :: dpost).
          split; [|split; [|split]].
          -- cbn [asm_entries map snd].
             assert (Hin : In f fs) by (rewrite Hfs; apply in_or_app; right; left; reflexivity).
             rewrite (Hkm f Hin). unfold by_name at 1.
             rewrite Hfs at 1.
             rewrite with_field_found;
               [| intros x Hx; apply (nodup_app_head pre f post); [rewrite <- Hfs; exact Hnd | exact Hx]
                | apply bytes_eqb_refl ].
             cbn [Nat.add].
             unfold nth_shape, nth_gv. rewrite Hss, <- Hl1, nth_app_here. cbn [snd].
             rewrite Hl1, <- Hl2, nth_app_here, Ha. cbn [bind fst snd].
             rewrite set_nth_app. rewrite Hl2, <- Hl3, set_nth_app.
             rewrite <- !app_assoc in Hrun. cbn [app] in Hrun. rewrite <- Hss. exact Hrun.
          -- cbn [ok_fields]. rewrite Hok1, Hok. reflexivity.
          -- cbn [den_fields]. rewrite Hden1. cbn [map fst snd]. rewrite Hden. reflexivity.
          -- cbn [missing_required]. rewrite Hmiss. rewrite andb_false_r. reflexivity.
        * apply andb_prop in Hfit. destruct Hfit as [Hopt Hrest]. apply Habsent; assumption.
  Qed.
End AsmFaithful.
