(* Proofs/NodeC12.v — the protocol theorems of C12 for the basicnode assemblers: a repeated key is
   reported by the call that supplies it and leaves the assembler as it was; a call of a kind the
   position cannot hold is reported by that call and leaves the assembler as it was; any-kind
   positions never refuse. *)
Require Import IP.Base.Bytes IP.DM.Value IP.Node.Basic IP.Node.Protocol
  IP.Proofs.NodeBuild IP.Proofs.NodeRoot.
Open Scope N_scope.

(* the rejected key is a no-op on the state; its last call reports repeated_key *)
Lemma dup_call_noop : forall q t m r k rej more,
  DupCall k rej -> mem_key k m = true ->
  run_tol q (SOpen (FMap t m MaInitial :: r)) (map fst rej ++ more) =
  pre (map snd rej) (run_tol q (SOpen (FMap t m MaInitial :: r)) more).
Proof.
  intros q t m r k rej more Hd Hm. inversion Hd; subst.
  - cbn [map fst snd app].
    rewrite (run_tol_err q _ (AssembleEntry k) ERepeatedKey (SOpen (FMap t m MaInitial :: r))); auto.
    simpl. rewrite Hm. reflexivity.
  - cbn [map fst snd ok app].
    rewrite (run_tol_ok q _ AssembleKey (SOpen (FMap t m MaMidKey :: r))) by reflexivity.
    rewrite !map_app, <- ?app_assoc. rewrite key_tries by auto.
    cbn [map fst snd app].
    rewrite (run_tol_err q _ g ERepeatedKey (SOpen (FMap t m MaInitial :: r)))
      by (apply (key_give_dup q t m r k g); auto).
    rewrite !pre_pre. cbn [app]. rewrite <- ?app_assoc. reflexivity.
Qed.

Lemma dup_call_last : forall k rej, DupCall k rej -> exists front o, rej = front ++ [(o, SErr ERepeatedKey)].
Proof.
  intros k rej H. inversion H; subst.
  - exists [], (AssembleEntry k). reflexivity.
  - exists (ok AssembleKey :: tries), g. reflexivity.
Qed.

(* run (pre ++ rejected ++ post) = run (pre ++ post), with the rejected calls' results spliced
   into the trace *)
Theorem dup_rollback : forall q s0 pre_ops rej post tr t m r k,
  run_tol q s0 pre_ops = (tr, Some (SOpen (FMap t m MaInitial :: r))) ->
  mem_key k m = true -> DupCall k rej ->
  run_tol q s0 (pre_ops ++ map fst rej ++ post) =
    pre (tr ++ map snd rej) (run_tol q (SOpen (FMap t m MaInitial :: r)) post) /\
  run_tol q s0 (pre_ops ++ post) =
    pre tr (run_tol q (SOpen (FMap t m MaInitial :: r)) post).
Proof.
  intros. split.
  - rewrite run_tol_app, H. rewrite (dup_call_noop q t m r k rej post); auto. rewrite pre_pre. reflexivity.
  - rewrite run_tol_app, H. reflexivity.
Qed.

Corollary dup_rollback_state : forall q s0 pre_ops rej post tr t m r k,
  run_tol q s0 pre_ops = (tr, Some (SOpen (FMap t m MaInitial :: r))) ->
  mem_key k m = true -> DupCall k rej ->
  snd (run_tol q s0 (pre_ops ++ map fst rej ++ post)) = snd (run_tol q s0 (pre_ops ++ post)).
Proof.
  intros. destruct (dup_rollback q s0 pre_ops rej post tr t m r k H H0 H1) as [A B].
  rewrite A, B. reflexivity.
Qed.

(* a key already accepted by the assembler is in its lookup container: the refusal fires *)
Lemma accepted_key_refused : forall ks t m k, minv ks t m -> In k ks -> mem_key k m = true.
Proof. intros. apply (minv_mem ks t m k H). auto. Qed.

(* bad kind at a key assembler: reported by the call, state unchanged *)
Theorem key_bad_kind : forall q t m r o c,
  KeyTry (o, c) ->
  exists e, c = SErr e /\ step q (SOpen (FMap t m MaMidKey :: r)) o = OErr e (SOpen (FMap t m MaMidKey :: r)).
Proof.
  intros q t m r o c H. inversion H; subst.
  - exists EWrongKind. split; auto. destruct o; simpl in H1; try discriminate; reflexivity.
  - exists EOther. split; auto. simpl. rewrite H1. reflexivity.
Qed.

(* bad kind at a typed root builder: reported by the call, state unchanged *)
Theorem root_bad_kind : forall q p o,
  root_wrong p o = true -> step q (init p) o = OErr EWrongKind (init p).
Proof. exact root_wrong_step. Qed.

(* positions that take any kind (anyBuilder, map values, list values) never refuse a call *)
Theorem any_position_accepts : forall q top rest o,
  accepts_any top -> is_node_op o = true -> exists s', step q (SOpen (top :: rest)) o = OOk s'.
Proof.
  intros q top rest o Ha Ho. rewrite step_value; auto.
  assert (Hd : forall n, exists s', deliver (top :: rest) n = OOk s').
  { intros n. rewrite deliver_receives by (apply accepts_receives; auto). eexists. reflexivity. }
  destruct o; simpl in Ho; try discriminate; simpl; try apply Hd; eexists; reflexivity.
Qed.

(* satisfiability of the hypotheses: a concrete annotated script with every kind of injection *)
Example injected_script :
  AScript (DMap [([97], DInt 1); ([98], DList [DNull])])
    [ ok (BeginMap 7);
      ok (AssembleEntry [97]); ok (AssignInt 1);
      (AssembleEntry [97], SErr ERepeatedKey);
      ok AssembleKey; (AssignInt 5, SErr EWrongKind); (AssignString [97], SErr ERepeatedKey);
      ok AssembleKey; (AssignNode (NInt 3), SErr EOther); ok (AssignString [98]); ok AssembleValue;
        ok (BeginList (-4)); ok AssembleValue; ok AssignNull; ok Finish;
      ok Finish ].
Proof.
  apply AS_map.
  apply (MB_entry AScript [] [97] (DInt 1) _ [ok (AssignInt 1)]); [simpl; tauto|constructor|].
  apply (MB_dup_entry AScript [[97]] [97]); [simpl; auto|].
  apply (MB_dup_key AScript [[97]] [97] _ [(AssignInt 5, SErr EWrongKind)] (AssignString [97])); [simpl; auto| | constructor |].
  { constructor; [|constructor]. apply KT_wrong. reflexivity. }
  apply (MB_key AScript [[97]] [98] (DList [DNull]) [] [(AssignNode (NInt 3), SErr EOther)] (AssignString [98])
           [ok (BeginList (-4)); ok AssembleValue; ok AssignNull; ok Finish]).
  - simpl. intros [H|H]; [discriminate|auto].
  - constructor; [|constructor]. apply (KT_node (NInt 3) EWrongKind). reflexivity.
  - constructor.
  - apply AS_list. apply (LB_value AScript DNull [] [ok AssignNull]); constructor.
  - constructor.
Qed.
