(* Proofs/HeapPrims.v — builders, value/key assemblers, the subset matcher and the dispatch of one
   API call: each preserves the ownership invariant, given what [legal] demands. *)
Require Import IP.Base.Bytes IP.DM.Value IP.Gen.FromGo IP.Heap.GoMem IP.Heap.BasicHeap.
Require Import IP.Proofs.HeapMem IP.Proofs.HeapLogic IP.Proofs.HeapSteps IP.Proofs.HeapOps.
From Coq Require Import List Arith Bool Lia ZArith.
Import ListNotations.
Local Open Scope nat_scope.

Ltac crash0 :=
  match goal with
  | He : _ = (_, _), HI : Inv ?tg ?h |- exists _, Step ?tg ?h _ _ /\ _ =>
      cbv beta iota in He; rewrite ?exec_crash in He; inversion He; subst;
      exists tg; split; [apply step_refl; assumption | exact I]
  end.
Ltac crashS S :=
  match goal with
  | He : _ = (_, _) |- _ =>
      cbv beta iota in He; rewrite ?exec_crash in He; inversion He; subst;
      eexists; split; [exact S | exact I]
  end.
Ltac doneS S :=
  match goal with
  | He : _ = (_, _) |- _ =>
      cbv beta iota in He; rewrite ?exec_ret in He; inversion He; subst;
      eexists; split; [exact S | try exact I]
  end.
Ltac neq := let E := fresh in intro E; subst; congruence.

Definition a_bslice (s : slice) : assertion := fun tg h => bslice_ok tg h s.

(* ------------------------------------------------------------------ plainBytes builder *)

Lemma bytes_cell_ok : forall tg h a v, Inv tg h -> hget h a = Some (CPtr v) -> is_asm_val v ->
  tg a = TAsm /\ asm_ok tg h a v.
Proof. intros; eapply inv_asm; eauto. Qed.

(* overwrite an assembler cell by one that is well-formed now *)
Lemma t_wr_asm : forall A a v (p : mprog A) (P : assertion) (Q : A -> assertion),
  (forall tg h c0, Inv tg h -> P tg h -> hget h a = Some c0 -> tg a = TAsm /\ asm_ok tg h a v) ->
  stable P -> triple P p Q -> triple P (wrv a v p) Q.
Proof.
  intros * Hok Hst T. unfold wrv. eapply triple_wr; [|exact T].
  intros tg h c0 HI HP Ga. destruct (Hok tg h c0 HI HP Ga) as [Ta Ha].
  exists tg. assert (S : Step tg h tg (hset h a (CPtr v))) by (eapply step_write_asm; eauto).
  split; [assumption|]. eapply Hst; eauto. exact (proj2 S).
Qed.

Lemma t_bytes_assign_node : forall a r,
  triple (fun tg h => fref tg h r /\ exists w, hget h a = Some (CPtr (VBytesB w))) (bytes_assign_node a r) tt_post.
Proof.
  intros a r tg h ar o h' HI [HP [w Ga]] He. unfold bytes_assign_node, wrv in He.
  pose proof (step_refl _ _ HI) as S0.
  destruct (inv_asm _ _ _ _ HI Ga I) as [Ta Hok].
  destruct r as [| | |sl|x| | |d]; try crash0; try doneS S0.
  - rewrite exec_new in He. destruct (halloc ar h (CRdr (RdBytes sl 0))) as [h1 x] eqn:A1.
    destruct (hget_halloc_new _ _ _ _ _ _ A1) as [N1 O1].
    assert (S1 : Step tg h (set_tag tg x TFrozen) h1) by (eapply step_new_frozen; eauto; exact HP).
    assert (Ga1 : hget h1 a = Some (CPtr (VBytesB w))) by (eapply hget_halloc_mono; eauto).
    rewrite exec_wr, Ga1, exec_ret in He. inversion He; subst.
    eexists; split; [|exact I]. eapply step_trans; [exact S1|].
    eapply step_write_asm; eauto. destruct S1; assumption.
    + rewrite set_tag_other; [assumption | neq].
    + cbn. split; [apply set_tag_same | eauto].
  - rewrite exec_wr, Ga, exec_ret in He. inversion He; subst.
    eexists; split; [|exact I]. eapply step_write_asm; eauto.
  - destruct d; try doneS S0.
    rewrite exec_new in He. destruct (halloc ar h (CBytes s)) as [h1 y] eqn:A1.
    destruct (hget_halloc_new _ _ _ _ _ _ A1) as [N1 O1].
    assert (S1 : Step tg h (set_tag tg y TFrozen) h1) by (eapply step_new_frozen; eauto; exact I).
    assert (Ga1 : hget h1 a = Some (CPtr (VBytesB w))) by (eapply hget_halloc_mono; eauto).
    rewrite exec_wr, Ga1, exec_ret in He. inversion He; subst.
    eexists; split; [|exact I]. eapply step_trans; [exact S1|].
    eapply step_write_asm; eauto. destruct S1; assumption.
    + rewrite set_tag_other; [assumption | neq].
    + cbn. unfold bslice_ok; cbn. split; [apply set_tag_same | eauto].
Qed.

(* ------------------------------------------------------------------ NewBuilder *)

Definition handle_ok (hd : handle) : assertion := fun tg h =>
  match hd with
  | HNode r => fref tg h r
  | HSlice s => bslice_ok tg h s
  | HReader x => rdr_at x tg h
  | _ => True
  end.

Definition pout_ok (o : pout) : assertion := fun tg h =>
  match o with
  | POk hd => handle_ok hd tg h
  | PErr _ => True
  | PAcc x => ares_ok x tg h
  end.

Lemma t_new_builder : forall p, triple a_true (new_builder p) pout_ok.
Proof.
  intros p tg h ar o h' HI _ He. unfold new_builder, newv in He.
  destruct p.
  - (* any *)
    rewrite exec_new in He. destruct (halloc ar h (CPtr (VAnyB AKInvalid masm0 lasm0 RNil))) as [h1 a] eqn:A1.
    rewrite exec_ret in He. inversion He; subst.
    exists (set_tag tg a TAsm). split; [|exact I].
    eapply step_new; eauto. intros tg1 -> HE Hx. unfold cell_ok_at. rewrite set_tag_same.
    eexists; split; [eassumption|]. cbn. unfold masm_ok, lasm_ok; cbn.
    split; [split; [discriminate | split; [discriminate | exact I]]|].
    split; [split; [discriminate | exact I]|].
    split; [exact I|]. split; [left; reflexivity | intros; split; reflexivity].
  - (* map *)
    rewrite exec_new in He. destruct (halloc ar h (CPtr (VMapHdr nil_slice None))) as [h1 s] eqn:A1.
    rewrite exec_new in He.
    match type of He with context [halloc ar h1 ?c] => destruct (halloc ar h1 c) as [h2 a] eqn:A2 end.
    rewrite exec_ret in He. inversion He; subst.
    destruct (hget_halloc_new _ _ _ _ _ _ A1) as [N1 O1]. destruct (hget_halloc_new _ _ _ _ _ _ A2) as [N2 O2].
    assert (S1 : Step tg h (set_tag tg s (TOwned a)) h1) by (eapply step_new_owned; eauto; exact I).
    assert (Hsa : s <> a) by neq.
    exists (set_tag (set_tag tg s (TOwned a)) a TAsm). split; [|exact I]. eapply step_trans; [exact S1|].
    eapply step_new; [exact (proj1 S1) | exact A2 |]. intros tg1 -> HE Hx.
    unfold cell_ok_at. rewrite set_tag_same. eexists. split; [eassumption|]. cbn. unfold masm_ok; cbn.
    split; [discriminate|]. split; [discriminate|].
    rewrite set_tag_other by assumption. rewrite set_tag_same. split; [reflexivity|].
    exists nil_slice, None. split; [eapply hget_halloc_mono; eauto|]. split; exact I.
  - (* list *)
    rewrite exec_new in He. destruct (halloc ar h (CPtr (VListHdr nil_slice))) as [h1 s] eqn:A1.
    rewrite exec_new in He.
    match type of He with context [halloc ar h1 ?c] => destruct (halloc ar h1 c) as [h2 a] eqn:A2 end.
    rewrite exec_ret in He. inversion He; subst.
    destruct (hget_halloc_new _ _ _ _ _ _ A1) as [N1 O1]. destruct (hget_halloc_new _ _ _ _ _ _ A2) as [N2 O2].
    assert (S1 : Step tg h (set_tag tg s (TOwned a)) h1) by (eapply step_new_owned; eauto; exact I).
    assert (Hsa : s <> a) by neq.
    exists (set_tag (set_tag tg s (TOwned a)) a TAsm). split; [|exact I]. eapply step_trans; [exact S1|].
    eapply step_new; [exact (proj1 S1) | exact A2 |]. intros tg1 -> HE Hx.
    unfold cell_ok_at. rewrite set_tag_same. eexists. split; [eassumption|]. cbn. unfold lasm_ok; cbn.
    split; [discriminate|].
    rewrite set_tag_other by assumption. rewrite set_tag_same. split; [reflexivity|].
    exists nil_slice. split; [eapply hget_halloc_mono; eauto|]. exact I.
  - (* scalar *)
    rewrite exec_new in He. destruct (halloc ar h (CPtr (VScalar (zero_scalar k)))) as [h1 w] eqn:A1.
    rewrite exec_new in He.
    match type of He with context [halloc ar h1 ?c] => destruct (halloc ar h1 c) as [h2 a] eqn:A2 end.
    rewrite exec_ret in He. inversion He; subst.
    destruct (hget_halloc_new _ _ _ _ _ _ A1) as [N1 O1]. destruct (hget_halloc_new _ _ _ _ _ _ A2) as [N2 O2].
    assert (S1 : Step tg h (set_tag tg w (TOwned a)) h1) by (eapply step_new_owned; eauto; exact I).
    assert (Hsa : w <> a) by neq.
    exists (set_tag (set_tag tg w (TOwned a)) a TAsm). split; [|exact I]. eapply step_trans; [exact S1|].
    eapply step_new; [exact (proj1 S1) | exact A2 |]. intros tg1 -> HE Hx.
    unfold cell_ok_at. rewrite set_tag_same. eexists. split; [eassumption|]. cbn.
    rewrite set_tag_other by assumption. rewrite set_tag_same. split; [reflexivity|].
    eexists. eapply hget_halloc_mono; eauto.
  - (* bytes *)
    rewrite exec_new in He. destruct (halloc ar h (CPtr (VBytesB (RBytesP nil_slice)))) as [h1 a] eqn:A1.
    rewrite exec_ret in He. inversion He; subst.
    exists (set_tag tg a TAsm). split; [|exact I].
    eapply step_new; eauto. intros tg1 -> HE Hx. unfold cell_ok_at. rewrite set_tag_same.
    eexists; split; [eassumption|]. cbn. exact I.
Qed.

(* ------------------------------------------------------------------ Begin / Assign on a NodeBuilder *)

Definition bop_args_ok (o : bop) : assertion := fun tg h =>
  match o with
  | BAssignBytes s => bslice_ok tg h s
  | BAssignNode r => fref tg h r
  | _ => True
  end.

(* what [legal] demands: no Begin on a finished assembler, no second Assign on a scalar builder *)
Definition builder_legal (v : val) (o : bop) : Prop :=
  match v, o with
  | VMapB m, BBeginMap _ => m_st m <> MFinished
  | VListB l, BBeginList _ => l_st l <> LFinished
  | VAnyB _ m l _, BBeginMap _ | VAnyB _ m l _, BBeginList _ => m_st m <> MFinished /\ l_st l <> LFinished
  | VScalB _ _ done, BAssign _ | VScalB _ _ done, BAssignNode _ | VScalB _ _ done, BAssignBytes _ => done = false
  | _, _ => True
  end.

Definition bop_pre (a : addr) (o : bop) : assertion := fun tg h =>
  bop_args_ok o tg h /\ forall v, hget h a = Some (CPtr v) -> builder_legal v o.

(* the scalar builder's assignment: `*na.w = v`, after which the cell is part of a finished node *)
Lemma scalar_assign_step : forall tg h a k w sv,
  Inv tg h -> hget h a = Some (CPtr (VScalB k w false)) ->
  exists tg', Step tg h tg' (hset (hset h w (CPtr (VScalar sv))) a (CPtr (VScalB k w true))).
Proof.
  intros * HI Ga. destruct (inv_asm _ _ _ _ HI Ga I) as [Ta [Tw [sv0 Gw]]].
  assert (Hwa : w <> a) by neq.
  assert (S1 : Step tg h tg (hset h w (CPtr (VScalar sv)))) by (eapply step_write_data; eauto; exact I).
  set (h1 := hset h w (CPtr (VScalar sv))) in *.
  assert (Ga1 : hget h1 a = Some (CPtr (VScalB k w false))) by (unfold h1; rewrite hget_hset_other; auto).
  assert (Gw1 : hget h1 w = Some (CPtr (VScalar sv))) by (unfold h1; rewrite hget_hset, addr_eqb_refl, Gw; reflexivity).
  exists (set_tags tg [w] TFrozen). eapply step_trans; [exact S1|].
  eapply step_freeze; eauto. destruct S1; assumption.
  - intros x [<-|[]]. assumption.
  - intros tg' h' -> -> HE Hout Hin Hh. split.
    + intros x [<-|[]]. exists (CPtr (VScalar sv)). split; [assumption | exact I].
    + cbn. split; [apply Hin; left; reflexivity|]. exists sv. rewrite Hh; auto.
Qed.

Lemma t_builder_op : forall cf a o, triple (bop_pre a o) (builder_op cf a o) tt_post.
Proof.
  intros cf a o tg h ar out h' HI [Hargs Hleg] He. unfold builder_op, rdv in He.
  pose proof (step_refl _ _ HI) as S0.
  rewrite exec_rd in He. destruct (hget h a) as [[| |v| |]|] eqn:Ga; try crash0.
  specialize (Hleg v eq_refl).
  destruct v; try crash0.
  - (* plainMap__Builder *)
    destruct o; try doneS S0.
    + eapply t_map_begin; eauto. intros v m0 Gv Vm. rewrite Ga in Gv. inversion Gv; subst v. cbn in Vm. inversion Vm; subst m0. exact Hleg.
    + eapply t_map_assign_node; eauto.
  - (* plainList__Builder *)
    destruct o; try doneS S0.
    + eapply t_list_begin; eauto. intros v l0 Gv Vm. rewrite Ga in Gv. inversion Gv; subst v. cbn in Vm. inversion Vm; subst l0. exact Hleg.
    + eapply t_list_assign_node; eauto.
  - (* anyBuilder *)
    destruct k; try crash0.
    destruct (inv_asm _ _ _ _ HI Ga I) as [Ta (Hm & Hl & Hsc & Hd & Hk)].
    destruct (Hk eq_refl) as [Wm Wl].
    destruct o.
    + (* BeginMap *)
      destruct Hleg as [Lm Ll]. unfold newv, wrv in He.
      rewrite exec_new in He. destruct (halloc ar h (CPtr (VMapHdr nil_slice None))) as [h1 s] eqn:A1.
      destruct (hget_halloc_new _ _ _ _ _ _ A1) as [N1 O1].
      assert (S1 : Step tg h (set_tag tg s (TOwned a)) h1) by (eapply step_new_owned; eauto; exact I).
      assert (Hsa : s <> a) by neq.
      assert (Ga1 : hget h1 a = Some (CPtr (VAnyB AKInvalid m l sc))) by (eapply hget_halloc_mono; eauto).
      rewrite exec_wr, Ga1 in He.
      destruct (inv_asm _ _ _ _ (proj1 S1) Ga1 I) as [Ta1 (Hm1 & Hl1 & Hsc1 & _ & _)].
      match type of He with context [hset h1 a (CPtr ?v)] => set (v' := v) in * end.
      assert (S2 : Step (set_tag tg s (TOwned a)) h1 (set_tag tg s (TOwned a)) (hset h1 a (CPtr v'))).
      { eapply step_write_asm; eauto. destruct S1; assumption. unfold v'. cbn.
        split; [|split; [assumption|split; [assumption|split; [right; assumption | discriminate]]]].
        destruct Hm1 as (F1 & F2 & _). unfold masm_ok; cbn. split; [assumption|]. split; [assumption|].
        assert (X : set_tag tg s (TOwned a) s = TOwned a /\
                    exists t g, hget h1 s = Some (CPtr (VMapHdr t g)) /\
                      slice_ok (set_tag tg s (TOwned a)) h1 (TOwned a) t /\ gomap_ok (set_tag tg s (TOwned a)) h1 (TOwned a) g).
        { split; [apply set_tag_same|]. exists nil_slice, None. split; [assumption|]. split; exact I. }
        destruct (m_st m); try exact X. congruence. }
      pose proof (step_trans _ _ _ _ _ _ S1 S2) as S12.
      destruct (t_map_begin a hint _ _ ar out h' (proj1 S12)) as (tg3 & S3 & _); [|exact He|].
      { intros v0 m0 Gv Vm. rewrite hget_hset, addr_eqb_refl, Ga1 in Gv. inversion Gv; subst v0.
        unfold v' in Vm. cbn in Vm. inversion Vm; subst m0. cbn. exact Lm. }
      exists tg3. split; [eapply step_trans; eauto | destruct out; exact I].
    + (* BeginList *)
      destruct Hleg as [Lm Ll]. unfold newv, wrv in He.
      rewrite exec_new in He. destruct (halloc ar h (CPtr (VListHdr nil_slice))) as [h1 s] eqn:A1.
      destruct (hget_halloc_new _ _ _ _ _ _ A1) as [N1 O1].
      assert (S1 : Step tg h (set_tag tg s (TOwned a)) h1) by (eapply step_new_owned; eauto; exact I).
      assert (Hsa : s <> a) by neq.
      assert (Ga1 : hget h1 a = Some (CPtr (VAnyB AKInvalid m l sc))) by (eapply hget_halloc_mono; eauto).
      rewrite exec_wr, Ga1 in He.
      destruct (inv_asm _ _ _ _ (proj1 S1) Ga1 I) as [Ta1 (Hm1 & Hl1 & Hsc1 & _ & _)].
      match type of He with context [hset h1 a (CPtr ?v)] => set (v' := v) in * end.
      assert (S2 : Step (set_tag tg s (TOwned a)) h1 (set_tag tg s (TOwned a)) (hset h1 a (CPtr v'))).
      { eapply step_write_asm; eauto. destruct S1; assumption. unfold v'. cbn.
        split; [assumption|]. split; [|split; [assumption|split; [left; assumption | discriminate]]].
        destruct Hl1 as (F1 & _). unfold lasm_ok; cbn. split; [assumption|].
        assert (X : set_tag tg s (TOwned a) s = TOwned a /\
                    exists x, hget h1 s = Some (CPtr (VListHdr x)) /\
                      slice_ok (set_tag tg s (TOwned a)) h1 (TOwned a) x).
        { split; [apply set_tag_same|]. exists nil_slice. split; [assumption|]. exact I. }
        destruct (l_st l); try exact X. congruence. }
      pose proof (step_trans _ _ _ _ _ _ S1 S2) as S12.
      destruct (t_list_begin a hint _ _ ar out h' (proj1 S12)) as (tg3 & S3 & _); [|exact He|].
      { intros v0 l0 Gv Vm. rewrite hget_hset, addr_eqb_refl, Ga1 in Gv. inversion Gv; subst v0.
        unfold v' in Vm. cbn in Vm. inversion Vm; subst l0. cbn. exact Ll. }
      exists tg3. split; [eapply step_trans; eauto | destruct out; exact I].
    + (* Assign scalar / null *)
      destruct v as [|sv]; unfold wrv in He.
      * rewrite exec_wr, Ga, exec_ret in He. inversion He; subst.
        eexists; split; [|exact I]. eapply step_write_asm; eauto; cbn;
        (split; [assumption|split; [assumption|split; [assumption|split; [assumption|discriminate]]]]).
      * unfold new_scalar_node, newv in He. rewrite exec_bind, exec_new in He.
        destruct (halloc ar h (CPtr (VScalar sv))) as [h1 x] eqn:A1.
        destruct (hget_halloc_new _ _ _ _ _ _ A1) as [N1 O1].
        assert (S1 : Step tg h (set_tag tg x TFrozen) h1) by (eapply step_new_frozen; eauto; exact I).
        assert (Ga1 : hget h1 a = Some (CPtr (VAnyB AKInvalid m l sc))) by (eapply hget_halloc_mono; eauto).
        destruct (inv_asm _ _ _ _ (proj1 S1) Ga1 I) as [Ta1 (Hm1 & Hl1 & Hsc1 & Hd1 & _)].
        rewrite exec_ret, exec_wr, Ga1, exec_ret in He. inversion He; subst.
        eexists; split; [|exact I]. eapply step_trans; [exact S1|].
        eapply step_write_asm; eauto. destruct S1; assumption. cbn.
        split; [assumption|split; [assumption|split; [|split; [assumption|discriminate]]]].
        split; [apply set_tag_same | eauto].
    + (* AssignBytes *)
      unfold wrv in He. rewrite exec_wr, Ga, exec_ret in He. inversion He; subst.
      eexists; split; [|exact I]. eapply step_write_asm; eauto; cbn;
      (split; [assumption|split; [assumption|split; [exact Hargs|split; [assumption|discriminate]]]]).
    + (* AssignNode *)
      unfold wrv in He. rewrite exec_wr, Ga, exec_ret in He. inversion He; subst.
      eexists; split; [|exact I]. eapply step_write_asm; eauto; cbn;
      (split; [assumption|split; [assumption|split; [exact Hargs|split; [assumption|discriminate]]]]).
  - (* scalar builders *)
    destruct o; try doneS S0.
    + destruct v as [|sv]; [doneS S0|]. cbn in Hleg. subst done.
      destruct (skind_eqb k (scalar_kind sv)); [|doneS S0].
      destruct (inv_asm _ _ _ _ HI Ga I) as [Ta [Tw [sv0 Gw]]].
      unfold wrv in He. rewrite exec_wr, Gw in He.
      assert (Ga1 : hget (hset h w (CPtr (VScalar sv))) a = Some (CPtr (VScalB k w false))).
      { rewrite hget_hset_other; [assumption | neq]. }
      rewrite exec_wr, Ga1, exec_ret in He. inversion He; subst.
      destruct (scalar_assign_step tg h a k w sv HI Ga) as [tg' S']. exists tg'. split; [exact S' | exact I].
    + cbn in Hleg. subst done.
      rewrite exec_bind in He.
      destruct (exec ar (acc_prog cf r (AScalar k)) h) as [[x|] h0] eqn:Ea;
        pose proof (exec_wfree _ _ (acc_wfree cf r (AScalar k) ltac:(destruct r; reflexivity)) _ _ _ _ Ea); subst h0;
        [|crashS S0].
      destruct x; try doneS S0.
      destruct (inv_asm _ _ _ _ HI Ga I) as [Ta [Tw [sv0 Gw]]].
      unfold wrv in He. rewrite exec_wr, Gw in He.
      assert (Ga1 : hget (hset h w (CPtr (VScalar s))) a = Some (CPtr (VScalB k w false))).
      { rewrite hget_hset_other; [assumption | neq]. }
      rewrite exec_wr, Ga1, exec_ret in He. inversion He; subst.
      destruct (scalar_assign_step tg h a k w s HI Ga) as [tg' S']. exists tg'. split; [exact S' | exact I].
  - (* bytes builder *)
    destruct o; try doneS S0.
    + unfold wrv in He. rewrite exec_wr, Ga, exec_ret in He. inversion He; subst.
      destruct (inv_asm _ _ _ _ HI Ga I) as [Ta _].
      eexists; split; [|exact I]. eapply step_write_asm; eauto; exact Hargs.
    + eapply t_bytes_assign_node; eauto.
Qed.

(* ------------------------------------------------------------------ Build / Reset *)

Lemma wfree_builder_build : forall a, wfree (builder_build a).
Proof.
  intros a. unfold builder_build, rdv. constructor. intros c. destruct c; try constructor.
  destruct v; try constructor.
  - destruct (mst_eqb (m_st m) MFinished); [destruct (m_w m)|]; constructor.
  - destruct (lst_eqb (l_st l) LFinished); [destruct (l_w l)|]; constructor.
  - destruct k; try constructor.
    + destruct (mst_eqb (m_st m) MFinished); [destruct (m_w m)|]; constructor.
    + destruct (lst_eqb (l_st l) LFinished); [destruct (l_w l)|]; constructor.
Qed.

(* Build on a scalar builder needs a done builder (else the live cell would be handed out) *)
Definition build_pre (a : addr) : assertion := fun _ h =>
  forall k w done, hget h a = Some (CPtr (VScalB k w done)) -> done = true.

Lemma t_builder_build : forall a, triple (build_pre a) (builder_build a) pout_ok.
Proof.
  intros a. apply triple_wfree; [apply wfree_builder_build|].
  intros tg h ar o HI HP He. unfold builder_build, rdv in He.
  rewrite exec_rd in He. destruct (hget h a) as [[| |v| |]|] eqn:Ga; try (rewrite ?exec_crash in He; discriminate).
  destruct v; try (rewrite exec_crash in He; discriminate).
  - destruct (inv_asm _ _ _ _ HI Ga I) as [Ta (_ & _ & Hw)].
    destruct (mst_eqb (m_st m) MFinished) eqn:St; [|rewrite exec_crash in He; discriminate].
    apply mst_eqb_eq in St. destruct (m_w m) as [s|]; [|rewrite exec_crash in He; discriminate].
    rewrite exec_ret in He. inversion He; subst. cbn. rewrite St in Hw. exact Hw.
  - destruct (inv_asm _ _ _ _ HI Ga I) as [Ta (_ & Hw)].
    destruct (lst_eqb (l_st l) LFinished) eqn:St; [|rewrite exec_crash in He; discriminate].
    apply lst_eqb_eq in St. destruct (l_w l) as [s|]; [|rewrite exec_crash in He; discriminate].
    rewrite exec_ret in He. inversion He; subst. cbn. rewrite St in Hw. exact Hw.
  - destruct (inv_asm _ _ _ _ HI Ga I) as [Ta ((_ & _ & Hwm) & (_ & Hwl) & Hsc & _)].
    destruct k; try (rewrite exec_crash in He; discriminate).
    + destruct (mst_eqb (m_st m) MFinished) eqn:St; [|rewrite exec_crash in He; discriminate].
      apply mst_eqb_eq in St. destruct (m_w m) as [s|]; [|rewrite exec_crash in He; discriminate].
      rewrite exec_ret in He. inversion He; subst. cbn. rewrite St in Hwm. exact Hwm.
    + destruct (lst_eqb (l_st l) LFinished) eqn:St; [|rewrite exec_crash in He; discriminate].
      apply lst_eqb_eq in St. destruct (l_w l) as [s|]; [|rewrite exec_crash in He; discriminate].
      rewrite exec_ret in He. inversion He; subst. cbn. rewrite St in Hwl. exact Hwl.
    + rewrite exec_ret in He. inversion He; subst. exact I.
    + rewrite exec_ret in He. inversion He; subst. exact Hsc.
  - destruct (inv_asm _ _ _ _ HI Ga I) as [Ta [Tw Gw]].
    rewrite exec_ret in He. inversion He; subst. cbn.
    rewrite (HP k w done Ga) in Tw. split; assumption.
  - destruct (inv_asm _ _ _ _ HI Ga I) as [Ta Hw].
    rewrite exec_ret in He. inversion He; subst. exact Hw.
Qed.

Lemma t_builder_reset : forall a, triple a_true (builder_reset a) tt_post.
Proof.
  intros a tg h ar o h' HI _ He. unfold builder_reset, rdv, newv, wrv in He.
  pose proof (step_refl _ _ HI) as S0.
  rewrite exec_rd in He. destruct (hget h a) as [[| |v| |]|] eqn:Ga; try crash0.
  destruct v; try crash0.
  - destruct (inv_asm _ _ _ _ HI Ga I) as [Ta _].
    rewrite exec_new in He. destruct (halloc ar h (CPtr (VMapHdr nil_slice None))) as [h1 s] eqn:A1.
    destruct (hget_halloc_new _ _ _ _ _ _ A1) as [N1 O1].
    assert (S1 : Step tg h (set_tag tg s (TOwned a)) h1) by (eapply step_new_owned; eauto; exact I).
    assert (Hsa : s <> a) by neq.
    assert (Ga1 : hget h1 a = Some (CPtr (VMapB m))) by (eapply hget_halloc_mono; eauto).
    rewrite exec_wr, Ga1, exec_ret in He. inversion He; subst.
    eexists; split; [|exact I]. eapply step_trans; [exact S1|].
    eapply step_write_asm; [exact (proj1 S1) | rewrite set_tag_other; auto | exact Ga1 |].
    cbn. unfold masm_ok; cbn. split; [discriminate|]. split; [discriminate|].
    split; [apply set_tag_same|]. exists nil_slice, None. split; [assumption|]. split; exact I.
  - destruct (inv_asm _ _ _ _ HI Ga I) as [Ta _].
    rewrite exec_new in He. destruct (halloc ar h (CPtr (VListHdr nil_slice))) as [h1 s] eqn:A1.
    destruct (hget_halloc_new _ _ _ _ _ _ A1) as [N1 O1].
    assert (S1 : Step tg h (set_tag tg s (TOwned a)) h1) by (eapply step_new_owned; eauto; exact I).
    assert (Hsa : s <> a) by neq.
    assert (Ga1 : hget h1 a = Some (CPtr (VListB l))) by (eapply hget_halloc_mono; eauto).
    rewrite exec_wr, Ga1, exec_ret in He. inversion He; subst.
    eexists; split; [|exact I]. eapply step_trans; [exact S1|].
    eapply step_write_asm; [exact (proj1 S1) | rewrite set_tag_other; auto | exact Ga1 |].
    cbn. unfold lasm_ok; cbn. split; [discriminate|].
    split; [apply set_tag_same|]. exists nil_slice. split; [assumption|]. exact I.
  - destruct (inv_asm _ _ _ _ HI Ga I) as [Ta _].
    rewrite exec_wr, Ga, exec_ret in He. inversion He; subst.
    eexists; split; [|exact I]. eapply step_write_asm; eauto.
    cbn. unfold masm_ok, lasm_ok; cbn.
    split; [split; [discriminate | split; [discriminate | exact I]]|].
    split; [split; [discriminate | exact I]|].
    split; [exact I|]. split; [left; reflexivity | intros; split; reflexivity].
  - destruct (inv_asm _ _ _ _ HI Ga I) as [Ta _].
    rewrite exec_new in He. destruct (halloc ar h (CPtr (VScalar (zero_scalar k)))) as [h1 s] eqn:A1.
    destruct (hget_halloc_new _ _ _ _ _ _ A1) as [N1 O1].
    assert (S1 : Step tg h (set_tag tg s (TOwned a)) h1) by (eapply step_new_owned; eauto; exact I).
    assert (Hsa : s <> a) by neq.
    assert (Ga1 : hget h1 a = Some (CPtr (VScalB k w done))) by (eapply hget_halloc_mono; eauto).
    rewrite exec_wr, Ga1, exec_ret in He. inversion He; subst.
    eexists; split; [|exact I]. eapply step_trans; [exact S1|].
    eapply step_write_asm; [exact (proj1 S1) | rewrite set_tag_other; auto | exact Ga1 |].
    cbn. split; [apply set_tag_same | eauto].
  - destruct (inv_asm _ _ _ _ HI Ga I) as [Ta _].
    rewrite exec_wr, Ga, exec_ret in He. inversion He; subst.
    eexists; split; [|exact I]. eapply step_write_asm; eauto; cbn; exact I.
Qed.

(* ------------------------------------------------------------------ value and key assemblers *)

Lemma t_value_op : forall cf pf a o, triple (bop_args_ok o) (value_op cf pf a o) tt_post.
Proof.
  intros cf pf a o. destruct o; cbn [value_op].
  - apply triple_pre_true. apply t_val_begin_map.
  - apply triple_pre_true. apply t_val_begin_list.
  - apply triple_pre_true. eapply triple_bind; [apply t_sval_node|]. intros r. apply t_va_assign.
  - eapply triple_conseq; [apply (t_va_assign cf pf a (RBytesP s)) | | auto]. intros tg h _ H. exact H.
  - eapply triple_conseq; [apply (t_va_assign cf pf a r) | | auto]. intros tg h _ H. exact H.
Qed.

Lemma t_key_op : forall cf a o, triple (bop_args_ok o) (key_op cf a o) tt_post.
Proof.
  intros cf a o tg h ar out h' HI HP He. unfold key_op in He.
  pose proof (step_refl _ _ HI) as S0.
  destruct o; try doneS S0.
  - destruct v as [|[]]; try doneS S0. eapply t_key_assign_string; eauto; exact I.
  - rewrite exec_bind in He.
    destruct (exec ar (acc_prog cf r (AScalar KString)) h) as [[x|] h0] eqn:Ea;
      pose proof (exec_wfree _ _ (acc_wfree cf r (AScalar KString) ltac:(destruct r; reflexivity)) _ _ _ _ Ea); subst h0;
      [|crashS S0].
    destruct x; try doneS S0. destruct s; try doneS S0.
    eapply t_key_assign_string; eauto; exact I.
Qed.

Definition asm_pre (hd : handle) (o : bop) : assertion :=
  match hd with
  | HBuilder a => bop_pre a o
  | _ => bop_args_ok o
  end.

Lemma t_asm_op : forall cf hd o, triple (asm_pre hd o) (asm_op cf hd o) tt_post.
Proof.
  intros cf hd o. destruct hd; cbn [asm_op asm_pre]; try apply triple_crash.
  - apply t_builder_op.
  - apply t_key_op.
  - apply t_value_op.
  - apply t_value_op.
Qed.

(* ------------------------------------------------------------------ Slice.Slice *)

(* allocate a frozen cell and go on *)
Lemma new_frozen_then : forall A tg h ar c (k : addr -> mprog A) o h' (Q : A -> assertion),
  Inv tg h -> frozen_ok tg h c -> exec ar (New c k) h = (o, h') ->
  (forall x tg1 h1, Step tg h tg1 h1 -> tg1 x = TFrozen -> hget h1 x = Some c -> exec ar (k x) h1 = (o, h') ->
     exists tg', Step tg1 h1 tg' h' /\ match o with Done a => Q a tg' h' | Crashed => True end) ->
  exists tg', Step tg h tg' h' /\ match o with Done a => Q a tg' h' | Crashed => True end.
Proof.
  intros * HI Fc He Hk. rewrite exec_new in He. destruct (halloc ar h c) as [h1 x] eqn:A1.
  destruct (hget_halloc_new _ _ _ _ _ _ A1) as [N1 O1].
  assert (S1 : Step tg h (set_tag tg x TFrozen) h1) by (eapply step_new_frozen; eauto).
  destruct (Hk x _ _ S1 (set_tag_same _ _ _) N1 He) as (tg' & S' & Ho).
  exists tg'. split; [eapply step_trans; eauto | assumption].
Qed.

Lemma t_match_subset : forall cf r from to, triple (a_fref r) (match_subset cf r from to) pout_ok.
Proof.
  intros cf r from to tg h ar out h' HI HP He. unfold match_subset in He. unfold a_fref in HP.
  pose proof (step_refl _ _ HI) as S0.
  destruct (nref_kind r) eqn:Kr; try doneS S0; try crash0.
  - (* string *)
    rewrite exec_bind in He.
    destruct (exec ar (acc_prog cf r (AScalar KString)) h) as [[x|] h0] eqn:Ea;
      pose proof (exec_wfree _ _ (acc_wfree cf r (AScalar KString) ltac:(destruct r; reflexivity)) _ _ _ _ Ea); subst h0;
      [|crashS S0].
    destruct x; try doneS S0. destruct s; try doneS S0.
    destruct (go_sliceBounds from to (Z.of_nat (length s))) as [[ok f] t]. destruct ok; [|doneS S0].
    rewrite exec_bind in He.
    match type of He with context [new_scalar_node ?sv] =>
      destruct (exec ar (new_scalar_node sv) h) as [o1 h1] eqn:En;
      destruct (t_new_scalar_node sv tg h ar o1 h1 HI I En) as (tg1 & S1 & F1) end.
    destruct o1 as [n|]; [|crashS S1].
    rewrite exec_ret in He. inversion He; subst. exists tg1. split; [exact S1 | exact F1].
  - (* bytes *)
    destruct r as [| | |sl|rd| | |d]; try discriminate; try crash0.
    + (* plainBytes: a fresh bytes.Reader *)
      eapply new_frozen_then; eauto; [exact HP|].
      intros x tg1 h1 S1 Tx Gx He1. cbv beta in He1.
      assert (Rx : rdr_at x tg1 h1) by (split; eauto).
      rewrite exec_bind in He1. destruct (exec ar (rd_seek_end x) h1) as [o2 h2] eqn:E2.
      destruct (t_rd_seek_end x tg1 h1 ar o2 h2 (proj1 S1) Rx E2) as (tg2 & S2 & _).
      destruct o2 as [len|]; [|crashS S2].
      pose proof (rdr_at_stable x _ _ _ _ Rx (proj2 S2)) as Rx2.
      rewrite exec_bind in He1. destruct (exec ar (rd_seek x 0) h2) as [o3 h3] eqn:E3.
      destruct (t_rd_seek x 0 tg2 h2 ar o3 h3 (proj1 S2) Rx2 E3) as (tg3 & S3 & _).
      pose proof (step_trans _ _ _ _ _ _ S2 S3) as S23.
      destruct o3 as [[]|]; [|crashS S23].
      pose proof (rdr_at_stable x _ _ _ _ Rx2 (proj2 S3)) as Rx3.
      destruct (go_sliceBounds from to (Z.of_nat len)) as [[ok f] t]. destruct ok; [|doneS S23].
      assert (X : exists tg', Step tg3 h3 tg' h' /\ match out with Done a => pout_ok a tg' h' | Crashed => True end).
      { refine (new_frozen_then _ tg3 h3 ar _ _ out h' pout_ok (proj1 S3) _ He1 _); [exact Rx3|].
        intros y tg4 h4 S4 Ty Gy He4. cbv beta in He4. rewrite exec_ret in He4. inversion He4; subst.
        exists tg4. split; [apply step_refl; exact (proj1 S4) | cbn; split; eauto]. }
      destruct X as (tg5 & S5 & Ho). exists tg5. split; [eapply step_trans; [exact S23 | exact S5] | exact Ho].
    + (* streamBytes *)
      assert (Rx : rdr_at rd tg h) by exact HP.
      destruct (cf_stream_shared cf).
      * rewrite exec_bind in He. destruct (exec ar (rd_seek_end rd) h) as [o2 h2] eqn:E2.
        destruct (t_rd_seek_end rd tg h ar o2 h2 HI Rx E2) as (tg2 & S2 & _).
        destruct o2 as [len|]; [|crashS S2].
        pose proof (rdr_at_stable rd _ _ _ _ Rx (proj2 S2)) as Rx2.
        rewrite exec_bind in He. destruct (exec ar (rd_seek rd 0) h2) as [o3 h3] eqn:E3.
        destruct (t_rd_seek rd 0 tg2 h2 ar o3 h3 (proj1 S2) Rx2 E3) as (tg3 & S3 & _).
        pose proof (step_trans _ _ _ _ _ _ S2 S3) as S23.
        destruct o3 as [[]|]; [|crashS S23].
        pose proof (rdr_at_stable rd _ _ _ _ Rx2 (proj2 S3)) as Rx3.
        destruct (go_sliceBounds from to (Z.of_nat len)) as [[ok f] t]. destruct ok; [|doneS S23].
        assert (X : exists tg', Step tg3 h3 tg' h' /\ match out with Done a => pout_ok a tg' h' | Crashed => True end).
        { refine (new_frozen_then _ tg3 h3 ar _ _ out h' pout_ok (proj1 S3) _ He _); [exact Rx3|].
          intros y tg4 h4 S4 Ty Gy He4. cbv beta in He4. rewrite exec_ret in He4. inversion He4; subst.
          exists tg4. split; [apply step_refl; exact (proj1 S4) | cbn; split; eauto]. }
        destruct X as (tg5 & S5 & Ho). exists tg5. split; [eapply step_trans; [exact S23 | exact S5] | exact Ho].
      * rewrite exec_bind in He.
        destruct (exec ar (rd_content rd_fuel rd) h) as [[data|] h0] eqn:Ec;
          pose proof (exec_wfree _ _ (wfree_rd_content rd_fuel rd) _ _ _ _ Ec); subst h0; [|crashS S0].
        destruct (go_sliceBounds from to (Z.of_nat (length data))) as [[ok f] t]. destruct ok; [|doneS S0].
        eapply new_frozen_then; eauto; [exact Rx|].
        intros y tg4 h4 S4 Ty Gy He4. cbv beta in He4. rewrite exec_ret in He4. inversion He4; subst.
        exists tg4. split; [apply step_refl; exact (proj1 S4) | cbn; split; eauto].
    + (* foreign bytes *)
      destruct d; try discriminate; try crash0.
      destruct (go_sliceBounds from to (Z.of_nat (length s))) as [[ok f] t]. destruct ok; [|doneS S0].
      eapply new_frozen_then; eauto; [exact I|].
      intros y tg4 h4 S4 Ty Gy He4. cbv beta in He4. rewrite exec_ret in He4. inversion He4; subst.
      exists tg4. split; [apply step_refl; exact (proj1 S4)|]. cbn. unfold bslice_ok; cbn. split; eauto.
Qed.

(* ------------------------------------------------------------------ one API call *)

Definition prim_pre (p : prim) : assertion := fun tg h =>
  Forall (fun hd => handle_ok hd tg h) (prim_operands p) /\ legal_heap h p = true.

Lemma slice_handle_ok : forall tg h s sl, handle_ok s tg h -> is_slice_handle s = Some sl -> bslice_ok tg h sl.
Proof.
  intros tg h s sl H E. destruct s; cbn in E; try discriminate.
  - destruct r; try discriminate. inversion E; subst. exact H.
  - inversion E; subst. exact H.
Qed.

Lemma legal_builder : forall h a o p,
  (match o with
   | BBeginMap hint => p = PBeginMap (HBuilder a) hint
   | BBeginList hint => p = PBeginList (HBuilder a) hint
   | BAssign v => p = PAssign (HBuilder a) v
   | BAssignBytes _ => exists s, p = PAssignBytes (HBuilder a) s
   | BAssignNode _ => exists n, p = PAssignNode (HBuilder a) n
   end) ->
  legal_heap h p = true -> forall v, hget h a = Some (CPtr v) -> builder_legal v o.
Proof.
  intros h a o p Hp Hl v Gv. unfold legal_heap, cell_val in Hl.
  destruct o.
  - subst p. rewrite Gv in Hl. destruct v; cbn; auto.
    + intros E. rewrite E in Hl. discriminate.
    + apply andb_true_iff in Hl. destruct Hl as [H1 H2]. split; intros E; rewrite E in *; discriminate.
  - subst p. rewrite Gv in Hl. destruct v; cbn; auto.
    + intros E. rewrite E in Hl. discriminate.
    + apply andb_true_iff in Hl. destruct Hl as [H1 H2]. split; intros E; rewrite E in *; discriminate.
  - subst p. rewrite Gv in Hl. destruct v; cbn; auto; destruct done; [discriminate | reflexivity].
  - destruct Hp as [s0 ->]. rewrite Gv in Hl. destruct v; cbn; auto; destruct done; [discriminate | reflexivity].
  - destruct Hp as [n0 ->]. rewrite Gv in Hl. destruct v; cbn; auto; destruct done; [discriminate | reflexivity].
Qed.

Definition prim_post (p : prim) (o : pout) : assertion := fun tg h =>
  returns_caps p = true -> pout_ok o tg h.

Lemma triple_post_any : forall A (P : assertion) (p : mprog A) (Q : A -> assertion),
  triple P p tt_post -> (forall a tg h, Q a tg h) -> triple P p Q.
Proof. intros * T HQ. eapply triple_conseq; [exact T | auto | intros; apply HQ]. Qed.

Lemma t_prim_prog : forall cf p, triple (prim_pre p) (prim_prog cf p) (prim_post p).
Proof.
  intros cf p. destruct p; cbn [prim_prog].
  - eapply triple_conseq; [apply t_new_builder | intros; exact I | intros a tg h _ _ F; discriminate F].
  - (* BeginMap *)
    apply triple_post_any; [|intros a tg hh F; discriminate F].
    eapply triple_conseq; [apply (t_asm_op cf h (BBeginMap hint)) | | auto].
    intros tg hp HI [Hop Hl]. destruct h; cbn; auto. split; [exact I|].
    eapply legal_builder; eauto; cbn; eauto.
  - (* BeginList *)
    apply triple_post_any; [|intros a tg hh F; discriminate F].
    eapply triple_conseq; [apply (t_asm_op cf h (BBeginList hint)) | | auto].
    intros tg hp HI [Hop Hl]. destruct h; cbn; auto. split; [exact I|].
    eapply legal_builder; eauto; cbn; eauto.
  - (* AssembleEntry *)
    apply triple_post_any; [|intros a tg hh F; discriminate F].
    destruct h; try apply triple_crash. apply triple_pre_true. apply t_map_assemble_entry.
  - apply triple_post_any; [|intros a tg hh F; discriminate F].
    destruct h; try apply triple_crash. apply triple_pre_true. apply t_map_assemble_key.
  - apply triple_post_any; [|intros a tg hh F; discriminate F].
    destruct h; try apply triple_crash; apply triple_pre_true; [apply t_map_assemble_value | apply t_list_assemble_value].
  - (* Assign *)
    apply triple_post_any; [|intros a tg hh F; discriminate F].
    eapply triple_conseq; [apply (t_asm_op cf h (BAssign v)) | | auto].
    intros tg hp HI [Hop Hl]. destruct h; cbn; auto. split; [exact I|].
    eapply legal_builder; eauto; cbn; eauto.
  - (* AssignBytes *)
    apply triple_post_any; [|intros a tg hh F; discriminate F].
    destruct (is_slice_handle s) as [sl|] eqn:Es; [|apply triple_crash].
    eapply triple_conseq; [apply (t_asm_op cf h (BAssignBytes sl)) | | auto].
    intros tg hp HI [Hop Hl]. cbn in Hop. inversion Hop as [|? ? H1 H2]; subst. inversion H2 as [|? ? H3 _]; subst.
    pose proof (slice_handle_ok _ _ _ _ H3 Es) as Hsl.
    destruct h; cbn; auto. split; [exact Hsl|].
    eapply legal_builder; eauto; cbn; eauto.
  - (* AssignNode *)
    apply triple_post_any; [|intros a tg hh F; discriminate F].
    destruct n; try apply triple_crash.
    eapply triple_conseq; [apply (t_asm_op cf h (BAssignNode r)) | | auto].
    intros tg hp HI [Hop Hl]. cbn in Hop. inversion Hop as [|? ? H1 H2]; subst. inversion H2 as [|? ? H3 _]; subst.
    destruct h; cbn; auto. split; [exact H3|].
    eapply legal_builder; eauto; cbn; eauto.
  - (* Finish *)
    apply triple_post_any; [|intros a tg hh F; discriminate F].
    destruct h; try apply triple_crash; apply triple_pre_true; [apply t_map_finish | apply t_list_finish].
  - (* Build *)
    destruct h; try apply triple_crash.
    eapply triple_conseq; [apply (t_builder_build a) | | intros o tg hp _ H _; exact H].
    intros tg hp HI [Hop Hl] k w done Ga. unfold legal_heap, cell_val in Hl. rewrite Ga in Hl. exact Hl.
  - (* Reset *)
    apply triple_post_any; [|intros a tg hh F; discriminate F].
    destruct h; try apply triple_crash. apply triple_pre_true. apply t_builder_reset.
  - (* Read *)
    destruct n; try apply triple_crash.
    eapply triple_bind with (Q1 := ares_ok).
    + eapply triple_conseq; [apply (t_acc_prog cf r a) | | auto].
      intros tg hp HI [Hop Hl]. cbn in Hop. inversion Hop; subst. assumption.
    + intros x. apply triple_ret. intros tg hp H _. exact H.
  - (* NewSlice *)
    intros tg h ar o h' HI _ He.
    eapply new_frozen_then; eauto; [exact I|].
    intros y tg4 h4 S4 Ty Gy He4. cbv beta in He4. rewrite exec_ret in He4. inversion He4; subst.
    exists tg4. split; [apply step_refl; exact (proj1 S4)|]. intros _. cbn. unfold bslice_ok; cbn. split; eauto.
  - (* NewBytesNode *)
    destruct (is_slice_handle s) as [sl|] eqn:Es; [|apply triple_crash].
    apply triple_ret. intros tg hp [Hop Hl] _. cbn in Hop. inversion Hop; subst.
    cbn. eapply slice_handle_ok; eauto.
  - (* NewStreamNode *)
    destruct (is_slice_handle s) as [sl|] eqn:Es; [|apply triple_crash].
    intros tg h ar o h' HI [Hop Hl] He. cbn in Hop. inversion Hop; subst.
    pose proof (slice_handle_ok _ _ _ _ H1 Es) as Hsl.
    eapply new_frozen_then; eauto; [exact Hsl|].
    intros y tg4 h4 S4 Ty Gy He4. cbv beta in He4. rewrite exec_ret in He4. inversion He4; subst.
    exists tg4. split; [apply step_refl; exact (proj1 S4)|]. intros _. cbn. split; eauto.
  - (* NewScalarNode *)
    eapply triple_bind with (Q1 := fun r => a_fref r).
    + apply triple_pre_true. apply t_sval_node.
    + intros r. apply triple_ret. intros tg hp H _. exact H.
  - (* Foreign *)
    apply triple_ret. intros tg hp _ _. exact I.
  - (* MatchSubset *)
    destruct n; try apply triple_crash.
    eapply triple_conseq; [apply (t_match_subset cf r from to) | | intros o tg hp _ H _; exact H].
    intros tg hp HI [Hop Hl]. cbn in Hop. inversion Hop; subst. assumption.
  - (* AsLargeBytes *)
    destruct n; try apply triple_crash. destruct r; try apply triple_crash;
      try (apply triple_ret; intros tg hp _ _; exact I).
    + (* plainBytes: a fresh bytes.Reader *)
      intros tg h ar o h' HI [Hop Hl] He. cbn in Hop. inversion Hop as [|? ? H1 _]; subst.
      eapply new_frozen_then; eauto; [exact H1|].
      intros y tg4 h4 S4 Ty Gy He4. cbv beta in He4. rewrite exec_ret in He4. inversion He4; subst.
      exists tg4. split; [apply step_refl; exact (proj1 S4)|]. intros _. cbn. split; eauto.
    + (* streamBytes *)
      destruct (cf_stream_shared cf).
      * apply triple_ret. intros tg hp [Hop Hl] _. cbn in Hop. inversion Hop; subst. assumption.
      * intros tg h ar o h' HI [Hop Hl] He. cbn in Hop. inversion Hop as [|? ? H1 _]; subst.
        eapply new_frozen_then; eauto; [exact H1|].
        intros y tg4 h4 S4 Ty Gy He4. cbv beta in He4. rewrite exec_ret in He4. inversion He4; subst.
        exists tg4. split; [apply step_refl; exact (proj1 S4)|]. intros _. cbn. split; eauto.
  - (* reader Read *)
    apply triple_post_any; [|intros a tg hh F; discriminate F].
    destruct r; try apply triple_crash.
    eapply triple_bind with (Q1 := tt_post).
    + eapply triple_conseq; [apply (t_rd_read rd_fuel a k) | | auto].
      intros tg hp HI [Hop Hl]. cbn in Hop. inversion Hop; subst. assumption.
    + intros bs. apply triple_ret. intros; exact I.
  - (* reader Seek *)
    apply triple_post_any; [|intros a tg hh F; discriminate F].
    destruct r; try apply triple_crash.
    eapply triple_bind with (Q1 := tt_post).
    + eapply triple_conseq; [apply (t_rd_seekw rd_fuel a off wh) | | auto].
      intros tg hp HI [Hop Hl]. cbn in Hop. inversion Hop; subst. assumption.
    + intros z. apply triple_ret. intros; exact I.
  - (* CallerWrite: never legal *)
    intros tg h ar o h' HI [_ Hl]. discriminate Hl.
Qed.
