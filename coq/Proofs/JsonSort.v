(* Proofs/JsonSort.v — facts about key-sorting a value: insertion-order independence, and
   json_safe / depth are preserved by sorting. *)
Require Import IP.Base.Bytes IP.DM.Value IP.Codec.Utf8 IP.Codec.Base64 IP.Codec.DagJson.
Require Import IP.Proofs.BytesFacts IP.Proofs.JsonUnm.
From Coq Require Import Permutation Sorting.Sorted.
Open Scope N_scope.

Notation sortv := (sort_maps bytes_ltb).
Definition S_ (kv : bytes * dm) : bytes * dm := (fst kv, sortv (snd kv)).

Lemma sortv_map m : sortv (DMap m) = DMap (sort_kv bytes_ltb (map S_ m)).
Proof. reflexivity. Qed.

(* the same value up to the insertion order of map entries, at every level *)
Inductive pm : dm -> dm -> Prop :=
| pm_same v : pm v v
| pm_list l l' : Forall2 pm l l' -> pm (DList l) (DList l')
| pm_map m m1 m' : Permutation m m1 ->
    Forall2 (fun a b => fst a = fst b /\ pm (snd a) (snd b)) m1 m' -> pm (DMap m) (DMap m').

(* every map has pairwise distinct keys *)
Fixpoint uniq (v : dm) : bool :=
  match v with
  | DList l => forallb uniq l
  | DMap m => nodup_keys m && forallb (fun kv => uniq (snd kv)) m
  | _ => true
  end.

Definition sort_inv := @sort_perm_invariant dm bytes_ltb bytes_ltb_irrefl bytes_ltb_trans bytes_ltb_total.
Definition sort_prm := @sort_perm dm bytes_ltb.

Lemma keys_S m : map fst (map S_ m) = map fst m.
Proof. rewrite map_map. apply map_ext. intros []; reflexivity. Qed.

Theorem pm_sort v1 : uniq v1 = true -> forall v2, pm v1 v2 -> sortv v1 = sortv v2.
Proof.
  induction v1 as [| | | | | | |l IH|m IH] using dm_ind2; intros U v2 H; inversion H; subst; try reflexivity.
  - (* list *)
    cbn [sort_maps]. f_equal. cbn [uniq] in U.
    match goal with F : Forall2 pm l _ |- _ => induction F as [|a b r r' Hab Hr IHr] end; [reflexivity|].
    inversion IH; subst. cbn [forallb] in U. apply andb_true_iff in U. destruct U as [Ua Ur].
    cbn [map]. f_equal; [auto|]. apply IHr; try assumption. constructor. exact Hr.
  - (* map *)
    rewrite !sortv_map. f_equal. cbn [uniq] in U. apply andb_true_iff in U. destruct U as [ND Uv].
    match goal with P : Permutation m ?m1, F : Forall2 _ ?m1 _ |- _ => rename m1 into mm; rename P into Pm; rename F into F2 end.
    assert (E : map S_ mm = map S_ m').
    { assert (Hall : Forall (fun kv => uniq (snd kv) = true /\ forall v2, uniq (snd kv) = true -> pm (snd kv) v2 -> sortv (snd kv) = sortv v2) mm).
      { apply Forall_forall. intros kv Hin. apply (Permutation_in _ (Permutation_sym Pm)) in Hin.
        rewrite Forall_forall in IH. rewrite forallb_forall in Uv. split; [now apply Uv|]. intros. now apply IH. }
      clear -F2 Hall. induction F2 as [|a b r r' [Hk Hv] Hr IHr]; [reflexivity|].
      inversion Hall as [|? ? [Ua Ha] Hall']; subst. cbn [map]. f_equal; [|auto].
      unfold S_. rewrite Hk. f_equal. now apply Ha. }
    rewrite <- E. apply sort_inv.
    + unfold keys. rewrite keys_S. now apply nodup_keys_NoDup.
    + now apply Permutation_map.
Qed.

(* ---------------------------------------------------------------- sorting keeps a value safe *)

Lemma NoDup_nodup_keys {V} (m : list (bytes * V)) : NoDup (map fst m) -> nodup_keys m = true.
Proof.
  induction m as [|[k x] r IH]; intros H; [reflexivity|]. cbn [map fst] in H. inversion H; subst.
  cbn [nodup_keys]. rewrite IH by assumption. rewrite andb_true_r. apply negb_true_iff.
  destruct (existsb (bytes_eqb k) (map fst r)) eqn:E; [|reflexivity].
  apply existsb_exists in E. destruct E as (k' & Hin & Heq). apply bytes_eqb_eq in Heq. subst. contradiction.
Qed.

Lemma sort_len (l : list (bytes * dm)) : length (sort_kv bytes_ltb l) = length l.
Proof. symmetry. apply Permutation_length. apply sort_prm. Qed.

Lemma reserved_long (l : list (bytes * dm)) : (2 <= length l)%nat -> reserved_shape l = false.
Proof.
  destruct l as [|a [|b r]]; cbn [length]; try lia. intros _. destruct a as [k v]; destruct v; try reflexivity.
  destruct m as [|[k2 y] [|]]; try reflexivity; destruct y; reflexivity.
Qed.

Lemma reserved_inner_long k (l : list (bytes * dm)) : (2 <= length l)%nat -> reserved_shape [(k, DMap l)] = false.
Proof. destruct l as [|a [|b r]]; cbn [length]; try lia. intros _. destruct a as [k2 v]; destruct v; reflexivity. Qed.

Lemma reserved_sort m : reserved_shape (sort_kv bytes_ltb (map S_ m)) = reserved_shape m.
Proof.
  destruct m as [|[k x] [|b r]].
  - reflexivity.
  - cbn [map sort_kv insert_kv]. unfold S_. cbn [fst snd].
    destruct x as [| | | | | | |l|mm]; try reflexivity.
    destruct mm as [|[k2 y] [|b2 r2]].
    + reflexivity.
    + cbn [sort_maps map sort_kv insert_kv fst snd]. destruct y; reflexivity.
    + rewrite sortv_map. rewrite !reserved_inner_long; [reflexivity|cbn; lia|rewrite sort_len, map_length; cbn; lia].
  - rewrite !reserved_long; [reflexivity|cbn; lia|rewrite sort_len, map_length; cbn; lia].
Qed.

Theorem safe_sort co gf v : json_safe co gf v = true -> json_safe co gf (sortv v) = true.
Proof.
  induction v as [| | | | | | |l IH|m IH] using dm_ind2; intros Sf; try exact Sf.
  - cbn [sort_maps json_safe] in *. rewrite forallb_forall in *. intros y Hy. apply in_map_iff in Hy.
    destruct Hy as (x & <- & Hx). rewrite Forall_forall in IH. apply IH; auto.
  - rewrite sortv_map. cbn [json_safe] in *. apply andb_true_iff in Sf. destruct Sf as [Sf S3].
    apply andb_true_iff in Sf. destruct Sf as [S1 S2].
    assert (Pm : Permutation (map S_ m) (sort_kv bytes_ltb (map S_ m))) by apply sort_prm.
    apply andb_true_iff. split; [apply andb_true_iff; split|].
    + apply NoDup_nodup_keys. eapply Permutation_NoDup; [apply Permutation_map; exact Pm|].
      rewrite keys_S. now apply nodup_keys_NoDup.
    + now rewrite reserved_sort.
    + rewrite forallb_forall in *. intros kv Hkv. apply (Permutation_in _ (Permutation_sym Pm)) in Hkv.
      apply in_map_iff in Hkv. destruct Hkv as (kv0 & <- & Hin). specialize (S3 kv0 Hin).
      apply andb_true_iff in S3. destruct S3 as [Sk Sv]. unfold S_. cbn [fst snd]. rewrite Sk. cbn [andb].
      rewrite Forall_forall in IH. now apply IH.
Qed.

Lemma fold_max_bound {A} (g : A -> N) (l : list A) B : (forall x, In x l -> g x <= B) ->
  fold_right (fun y a => N.max (g y) a) 0 l <= B.
Proof.
  induction l as [|y r IH]; intros H; cbn [fold_right]; [lia|].
  assert (g y <= B) by (apply H; now left). assert (fold_right (fun y a => N.max (g y) a) 0 r <= B) by (apply IH; intros; apply H; now right). lia.
Qed.

Lemma fold_max_le' {A} (g : A -> N) (l : list A) x : In x l -> g x <= fold_right (fun y a => N.max (g y) a) 0 l.
Proof. induction l as [|y r IH]; intros H; [contradiction|]. destruct H as [->|H]; cbn [fold_right]; [lia|specialize (IH H); lia]. Qed.

Theorem depth_sort v : jdepth (sortv v) <= jdepth v.
Proof.
  induction v as [| | | | | | |l IH|m IH] using dm_ind2; try (cbn; lia).
  - cbn [sort_maps jdepth]. apply N.add_le_mono_l. apply fold_max_bound. intros y Hy.
    apply in_map_iff in Hy. destruct Hy as (x & <- & Hx). rewrite Forall_forall in IH.
    pose proof (IH x Hx). pose proof (fold_max_le' jdepth l x Hx). lia.
  - rewrite sortv_map. cbn [jdepth]. apply N.add_le_mono_l. apply fold_max_bound. intros kv Hkv.
    apply (Permutation_in _ (Permutation_sym (sort_prm (map S_ m)))) in Hkv.
    apply in_map_iff in Hkv. destruct Hkv as (kv0 & <- & Hin). rewrite Forall_forall in IH.
    pose proof (IH kv0 Hin). pose proof (fold_max_le' (fun kv => jdepth (snd kv)) m kv0 Hin) as Hm. cbn beta in Hm.
    unfold S_. cbn [snd]. lia.
Qed.

(* the emitted maps have their keys in strictly increasing bytewise order *)
Fixpoint maps_sorted (v : dm) : Prop :=
  match v with
  | DList l => (fix go (l : list dm) : Prop := match l with [] => True | x :: r => maps_sorted x /\ go r end) l
  | DMap m => StronglySorted (fun a b => bytes_ltb (fst a) (fst b) = true) m /\
              (fix go (m : list (bytes * dm)) : Prop := match m with [] => True | kv :: r => maps_sorted (snd kv) /\ go r end) m
  | _ => True
  end.
