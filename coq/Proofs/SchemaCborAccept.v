(* Proofs/SchemaCborAccept.v — a typed builder fed by the dag-cbor decoder accepts exactly the byte
   strings that are ONE well-formed DAG-CBOR item denoting a tree that conforms to the type:
   the composition of [decode_iff] (Proofs/CborComplete.v: the decoder model is characterised by the
   SPEC checker [chk] from both sides) with [accept_iff] (Proofs/SchemaBuild.v: representation builder
   accepts <-> conforms_r).  The statement speaks of "decode to a tree, then feed the builder"; that the
   Go decoder, which drives the typed assembler directly, does the same is tied by the correspondence
   run (records "bytes" of harness/cmd/c09). *)
Require Import IP.Base.Bytes IP.DM.Value IP.Codec.Cid IP.Codec.Cbor IP.Codec.CborSpec.
Require Import IP.Schema.Types IP.Schema.View IP.Schema.Conform IP.Schema.Sem.
Require Import IP.Proofs.CborDec IP.Proofs.CborSound IP.Proofs.CborComplete.
Require Import IP.Proofs.SchemaBuild IP.Proofs.SchemaShape IP.Proofs.SchemaRefute.
Open Scope N_scope.

(* strict dag-cbor decoding of the repaired tree, links allowed, whole input consumed *)
Definition strict_dagcbor (o : dopts) : Prop :=
  d_reject_tags o = true /\ d_relaxed o = false /\ d_allow_links o = true /\ (0 <= budget0 o)%Z.

(* within the decoder's configured limits *)
Definition fits (o : dopts) (d : dm) : Prop :=
  lim_ok d /\ (Z.of_nat (dm_depth d) <= max_depth o)%Z /\ (cost d <= budget0 o)%Z.

Theorem bytes_accept_iff e o t bs v :
  (e = Bind \/ e = Gen) -> wf t = true -> strict_dagcbor o -> wfb bs ->
  ((exists d, decode o bs = Ok (d, []) /\ rbuild e qoff t d = BOk v) <->
   (exists d, chk true true true d bs = Some [] /\ fits o d /\ conforms_r t d = Some v)).
Proof.
  intros He Hwf (Hrt & Hs & Hl & Hb) Hw.
  assert (Hst : strict e qoff) by (destruct He; subst; [apply strict_bind_qoff|apply strict_gen_qoff]).
  split.
  - intros (d & Hd & Hr). exists d.
    apply (decode_iff o bs d [] Hrt Hs Hb Hw) in Hd. rewrite Hl in Hd.
    destruct Hd as (Hc & Hlim & Hdep & Hco & _).
    repeat split; auto. apply (accept_iff e qoff LRepr t d v Hst Hwf). exact Hr.
  - intros (d & Hc & (Hlim & Hdep & Hco) & Hcf). exists d. split.
    + apply (decode_iff o bs d [] Hrt Hs Hb Hw). rewrite Hl. repeat split; auto.
    + apply (accept_iff e qoff LRepr t d v Hst Hwf). exact Hcf.
Qed.

(* nothing else is accepted, nothing panics, and what is built lies in the type *)
Theorem bytes_built_in_type e o t bs d v :
  (e = Bind \/ e = Gen) -> wf t = true ->
  decode o bs = Ok (d, []) -> rbuild e qoff t d = BOk v -> has_shape t v = true.
Proof.
  intros He Hwf _ Hr.
  assert (Hst : strict e qoff) by (destruct He; subst; [apply strict_bind_qoff|apply strict_gen_qoff]).
  exact (built_in_type e qoff LRepr t d v Hst Hwf Hr).
Qed.

Theorem bytes_no_panic e o t bs d :
  (e = Bind \/ e = Gen) -> wf t = true -> decode o bs = Ok (d, []) -> rbuild e qoff t d <> BPanic.
Proof.
  intros He Hwf _.
  assert (Hst : strict e qoff) by (destruct He; subst; [apply strict_bind_qoff|apply strict_gen_qoff]).
  exact (no_panic e qoff LRepr t d Hst Hwf).
Qed.

(* the hypotheses are satisfiable and both sides are inhabited: the struct { a Int (rename "x"), b optional
   nullable String, c nullable Int, d optional String } and the bytes a2 61 63 f6 61 78 01 = {"c":null,"x":1} *)
Definition ex_opts : dopts := dagcbor_dopts true.
Definition ex_bytes : bytes := [162; 97; 99; 246; 97; 120; 1].

Example bytes_accept_example :
  strict_dagcbor ex_opts /\ wfb ex_bytes /\ wf tSM = true /\
  decode ex_opts ex_bytes = Ok (DMap [(sc, DNull); (sx, DInt 1)], []) /\
  rbuild Bind qoff tSM (DMap [(sc, DNull); (sx, DInt 1)]) = BOk (VStruct [MVal (VInt 1); MAbsent; MNull; MAbsent]) /\
  chk true true true (DMap [(sc, DNull); (sx, DInt 1)]) ex_bytes = Some [].
Proof.
  split; [|split; [|split; [|split; [|split]]]].
  - unfold strict_dagcbor, ex_opts. vm_compute. repeat split; discriminate.
  - unfold wfb, ex_bytes. repeat constructor.
  - vm_compute. reflexivity.
  - vm_compute. reflexivity.
  - vm_compute. reflexivity.
  - vm_compute. reflexivity.
Qed.
