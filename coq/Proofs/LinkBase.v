(* Proofs/LinkBase.v — basic facts about the link model: BuildLink is idempotent through the
   link's own prototype, a freshly built link verifies, the honest writer accepts everything,
   finite-map facts about the storage. *)
Require Import IP.Base.Bytes IP.DM.Value IP.Link.LinkSys IP.Link.LinkSpec IP.Proofs.BytesFacts.
From Coq Require Import ZifyN ZifyNat ZifyBool.
Open Scope N_scope.

(* ---------------------------------------------------------------- take *)

Lemma take_all {A} (l : list A) : take (lenN l) l = Some (l, []).
Proof. pose proof (take_app l []) as H. now rewrite app_nil_r in H. Qed.

Lemma take_prefix_again {A} n (l p s : list A) :
  take n l = Some (p, s) -> take (lenN p) l = Some (p, s).
Proof. intros H. apply take_some in H as [-> _]. apply take_app. Qed.

Lemma prefixN_all (l : bytes) : prefixN (lenN l) l = l.
Proof. unfold prefixN. now rewrite take_all. Qed.

(* ---------------------------------------------------------------- BuildLink *)

Lemma link_eqb_refl l : link_eqb l l = true.
Proof. apply bytes_eqb_refl. Qed.

Lemma link_eqb_binary a b : link_eqb a b = true <-> link_binary a = link_binary b.
Proof. apply bytes_eqb_eq. Qed.

(* the multihash type of the prototype read back from a built link is the one it was built with *)
Lemma build_link_mhtype lp d l :
  build_link lp d = Some l -> lp_mhtype (link_proto l) = lp_mhtype lp.
Proof.
  unfold build_link. intros H.
  destruct (N.eqb_spec (lp_version lp) 0) as [V0|V0]; cbn [andb] in H.
  - destruct (N.eqb_spec (lp_mhtype lp) mh_sha2_256) as [M|M]; cbn [negb orb] in H; [|discriminate].
    destruct (negb (lp_mhlen lp =? 32)%Z && negb (lp_mhlen lp =? -1)%Z); [discriminate|].
    match type of H with match ?x with _ => _ end = _ => destruct x as [dg|]; [|discriminate] end.
    destruct (lenN dg =? 32); inversion H; subst. cbn. now rewrite M.
  - match type of H with match ?x with _ => _ end = _ => destruct x as [dg|]; [|discriminate] end.
    destruct (lp_version lp =? 1); inversion H; subst. reflexivity.
Qed.

(* building again from the built link's own prototype and the same sum gives the same link: the
   prototype read back carries the digest length, and truncating to it a second time is a no-op *)
Lemma build_link_idem lp d l :
  build_link lp d = Some l -> build_link (link_proto l) d = Some l.
Proof.
  unfold build_link. intros H.
  destruct (N.eqb_spec (lp_version lp) 0) as [V0|V0]; cbn [andb] in H.
  - (* v0 *)
    destruct (N.eqb_spec (lp_mhtype lp) mh_sha2_256) as [M|M]; cbn [negb orb] in H; [|discriminate].
    destruct (negb (lp_mhlen lp =? 32)%Z && negb (lp_mhlen lp =? -1)%Z) eqn:L; [discriminate|].
    rewrite M in H. change (mh_sha2_256 =? mh_identity) with false in H. cbv iota in H.
    assert (Hd : exists dg s, d = dg ++ s /\
              (if lenN dg =? 32
               then Some {| l_v0 := true; l_codec := mc_dagpb; l_mhtype := mh_sha2_256; l_digest := dg |}
               else None) = Some l).
    { destruct (lp_mhlen lp =? -1)%Z.
      - exists d, []. now rewrite app_nil_r.
      - destruct (lp_mhlen lp <? 0)%Z; [discriminate|].
        destruct (take (Z.to_N (lp_mhlen lp)) d) as [[p s]|] eqn:T; [|discriminate].
        apply take_some in T as [-> _]. eauto. }
    destruct Hd as (dg & s & -> & Hl).
    destruct (N.eqb_spec (lenN dg) 32) as [L32|]; [|discriminate]. inversion Hl; subst l. clear Hl.
    cbn [link_proto l_v0 lp_version lp_mhtype lp_mhlen lp_codec].
    change (0 =? 0) with true. change (mh_sha2_256 =? mh_sha2_256) with true.
    change (mh_sha2_256 =? mh_identity) with false. cbn [negb orb andb Z.eqb Z.ltb Z.compare Pos.eqb].
    change (Z.to_N 32) with 32. rewrite <- L32, take_app. rewrite L32. reflexivity.
  - (* v1 (or an unknown version, which panics) *)
    destruct (N.eqb_spec (lp_version lp) 1) as [V1|V1].
    + assert (Hd : exists dg s, d = dg ++ s /\ (lp_mhtype lp = mh_identity -> s = []) /\
                l = {| l_v0 := false; l_codec := lp_codec lp; l_mhtype := lp_mhtype lp; l_digest := dg |}).
      { destruct (N.eqb_spec (lp_mhtype lp) mh_identity) as [I|I].
        - cbn in H. inversion H; subst. exists d, []. rewrite app_nil_r. repeat split; auto.
        - destruct (lp_mhlen lp =? -1)%Z.
          + inversion H; subst. exists d, []. rewrite app_nil_r. repeat split; auto.
          + destruct (lp_mhlen lp <? 0)%Z; [discriminate|].
            destruct (take (Z.to_N (lp_mhlen lp)) d) as [[p s]|] eqn:T; [|discriminate].
            apply take_some in T as [-> _]. inversion H; subst. exists p, s. repeat split; auto.
            intros; contradiction. }
      destruct Hd as (dg & s & -> & Hid & ->).
      cbn [link_proto l_v0 lp_version lp_mhtype lp_mhlen lp_codec l_codec l_mhtype l_digest].
      change (1 =? 0) with false. cbn [andb]. change (1 =? 1) with true.
      destruct (N.eqb_spec (lp_mhtype lp) mh_identity) as [I|I].
      * rewrite (Hid I), app_nil_r. reflexivity.
      * replace (Z.of_N (lenN dg) =? -1)%Z with false by lia.
        replace (Z.of_N (lenN dg) <? 0)%Z with false by lia.
        rewrite N2Z.id, take_app. reflexivity.
    + match type of H with match ?x with _ => _ end = _ => destruct x; discriminate end.
Qed.

Section Facts.
  Variable hasher_ok : N -> bool.
  Variable hash : N -> bytes -> bytes.
  Variable codecs : N -> option codec.

  (* a link built from the hash of some bytes verifies against those bytes *)
  Lemma verify_built lp bs l :
    build_link lp (hash (lp_mhtype lp) bs) = Some l -> verify hash l bs = VOk.
  Proof.
    intros H. unfold verify. rewrite (build_link_mhtype _ _ _ H), (build_link_idem _ _ _ H).
    now rewrite link_eqb_refl.
  Qed.

  Lemma verify_ok_binary l bs :
    verify hash l bs = VOk <->
    exists l2, build_link (link_proto l) (hash (lp_mhtype (link_proto l)) bs) = Some l2 /\
               link_binary l2 = link_binary l.
  Proof.
    unfold verify. destruct (build_link _ _) as [l2|].
    - destruct (link_eqb l2 l) eqn:E.
      + apply link_eqb_binary in E. split; eauto.
      + split; [discriminate|]. intros (l3 & H & B). inversion H; subst.
        apply link_eqb_binary in B. congruence.
    - split; [discriminate|]. intros (l3 & H & _). discriminate.
  Qed.

  Lemma verify_mismatch_binary l bs :
    verify hash l bs = VMismatch <->
    exists l2, build_link (link_proto l) (hash (lp_mhtype (link_proto l)) bs) = Some l2 /\
               link_binary l2 <> link_binary l.
  Proof.
    unfold verify. destruct (build_link _ _) as [l2|].
    - destruct (link_eqb l2 l) eqn:E.
      + apply link_eqb_binary in E. split; [discriminate|]. intros (l3 & H & B). inversion H; subst. contradiction.
      + split; eauto. intros _. exists l2. split; auto. intros B. apply link_eqb_binary in B. congruence.
    - split; [discriminate|]. intros (l3 & H & _). discriminate.
  Qed.
End Facts.

(* ---------------------------------------------------------------- the write phase of Store *)

(* the honest writer accepts everything, whatever the latch and the encoder do *)
Lemma write_all_honest latch ignored used chunks :
  write_all latch ignored None [] used false false chunks = (concat chunks, concat chunks, false, false).
Proof.
  revert used; induction chunks as [|c r IH]; intros used; cbn [write_all concat]; [reflexivity|].
  rewrite andb_false_r. cbn [orb negb tl]. now rewrite IH.
Qed.

(* once the latch holds an error (and the tree has the latch), the phase ends in an error *)
Lemma write_all_latched ignored cap sched used stuck chunks w h e l :
  write_all true ignored cap sched used stuck true chunks = (w, h, e, l) -> e = true \/ l = true.
Proof.
  revert sched used stuck w h e l; induction chunks as [|c r IH]; intros sched used stuck w h e l;
    cbn [write_all andb].
  - intros E; inversion E; auto.
  - destruct ignored; [apply IH|]. intros E; inversion E; auto.
Qed.

(* with the latch, or with an encoder that stops at a failed write: if the phase ends without an
   error, the writer accepted — and the hasher saw — exactly the encoder's output *)
Lemma write_all_clean latch ignored cap sched used stuck chunks w h l :
  latch || negb ignored = true ->
  write_all latch ignored cap sched used stuck false chunks = (w, h, false, l) ->
  latch && l = false ->
  w = concat chunks /\ h = concat chunks.
Proof.
  intros Hm. revert sched used stuck w h l; induction chunks as [|c r IH]; intros sched used stuck w h l;
    cbn [write_all concat].
  - intros E _; inversion E; auto.
  - rewrite andb_false_r.
    set (fits := match cap with None => true | Some k => used + lenN c <=? k end).
    set (stuck' := stuck || negb fits).
    assert (OKc : forall w h l,
              (let '(w0, h0, e0, l0) := write_all latch ignored cap (tl sched) (used + lenN c) stuck' false r in
               (c ++ w0, c ++ h0, e0, l0)) = (w, h, false, l) ->
              latch && l = false -> w = c ++ concat r /\ h = c ++ concat r).
    { intros w1 h1 l1.
      destruct (write_all latch ignored cap (tl sched) (used + lenN c) stuck' false r) as [[[w0 h0] e0] l0] eqn:R.
      intros E L; inversion E; subst. destruct (IH _ _ _ _ _ _ R L) as [-> ->]. auto. }
    assert (FAIL : forall used' p w h l,
              (if ignored then
                 let '(w0, h0, e0, l0) := write_all latch ignored cap (tl sched) used' stuck' true r in
                 (p ++ w0, h0, e0, l0)
               else (p, [], true, true)) = (w, h, false, l) ->
              latch && l = false -> False).
    { intros used' p w1 h1 l1. destruct ignored; [|intros E; inversion E].
      cbn in Hm. rewrite orb_false_r in Hm. subst latch.
      destruct (write_all true true cap (tl sched) used' stuck' true r) as [[[w0 h0] e0] l0] eqn:R.
      intros E L; inversion E; subst. cbn in L. subst.
      apply write_all_latched in R as [R|R]; discriminate. }
    destruct (if stuck' then WFail else match sched with a :: _ => a | [] => WOk end) as [| |n].
    + apply OKc.
    + intros E L. exfalso. apply (FAIL used [] w h l); auto.
      destruct ignored; [|exact E].
      destruct (write_all latch true cap (tl sched) used stuck' true r) as [[[w0 h0] e0] l0]. exact E.
    + destruct (lenN c <=? n); [apply OKc|].
      intros E L. exfalso. eapply (FAIL (used + n) (prefixN n c)); eauto.
Qed.

(* the capacity-limited writer never accepts more than its capacity *)
Lemma write_all_cap latch ignored k sched used stuck latched chunks w h e l :
  used <= k ->
  write_all latch ignored (Some k) sched used stuck latched chunks = (w, h, e, l) ->
  used + lenN w <= k.
Proof.
  revert sched used stuck latched w h e l; induction chunks as [|c r IH];
    intros sched used stuck latched w h e l U; cbn [write_all].
  - intros E; inversion E; subst. unfold lenN; cbn. lia.
  - destruct (latch && latched).
    + destruct ignored; [apply IH; auto|]. intros E; inversion E; subst. unfold lenN; cbn. lia.
    + destruct (N.leb_spec (used + lenN c) k) as [F|F]; cbn [negb].
      * rewrite orb_false_r.
        assert (OKc : forall w h e l,
                  (let '(w0, h0, e0, l0) := write_all latch ignored (Some k) (tl sched) (used + lenN c) stuck latched r in
                   (c ++ w0, c ++ h0, e0, l0)) = (w, h, e, l) -> used + lenN w <= k).
        { intros w1 h1 e1 l1.
          destruct (write_all latch ignored (Some k) (tl sched) (used + lenN c) stuck latched r) as [[[w0 h0] e0] l0] eqn:R.
          intros E; inversion E; subst. pose proof (IH _ _ _ _ _ _ _ _ F R). rewrite lenN_app. lia. }
        destruct (if stuck then WFail else match sched with a :: _ => a | [] => WOk end) as [| |n].
        -- apply OKc.
        -- destruct ignored; [apply IH; auto|]. intros E; inversion E; subst. unfold lenN; cbn. lia.
        -- destruct (N.leb_spec (lenN c) n) as [G|G]; [apply OKc|].
           assert (P : lenN (prefixN n c) = n).
           { unfold prefixN. rewrite take_spec. destruct (N.ltb_spec (lenN c) n); [lia|].
             unfold lenN in *. rewrite firstn_length. lia. }
           assert (U' : used + n <= k) by lia.
           destruct ignored.
           ++ destruct (write_all latch true (Some k) (tl sched) (used + n) stuck true r) as [[[w0 h0] e0] l0] eqn:R.
              pose proof (IH _ _ _ _ _ _ _ _ U' R) as Q.
              intros E; inversion E; subst. rewrite lenN_app, P. lia.
           ++ intros E; inversion E; subst. rewrite P. lia.
      * rewrite orb_true_r.
        destruct ignored; [apply IH; auto|]. intros E; inversion E; subst. unfold lenN; cbn. lia.
Qed.

(* ---------------------------------------------------------------- storage as a finite map *)

Lemma lookup_remove_key st k k' :
  lookup (remove_key st k) k' = if bytes_eqb k' k then None else lookup st k'.
Proof.
  induction st as [|[k0 b0] r IH]; cbn [remove_key lookup].
  - now destruct (bytes_eqb k' k).
  - destruct (bytes_eqb k k0) eqn:E0.
    + apply bytes_eqb_eq in E0; subst k0. rewrite IH.
      destruct (bytes_eqb k' k) eqn:E1; reflexivity.
    + cbn [lookup]. rewrite IH. destruct (bytes_eqb k' k0) eqn:E1; [|reflexivity].
      apply bytes_eqb_eq in E1; subst k0.
      destruct (bytes_eqb k' k) eqn:E2; [|reflexivity].
      apply bytes_eqb_eq in E2; subst. rewrite bytes_eqb_refl in E0. discriminate.
Qed.

Lemma lookup_put_other sk st k b k' : k' <> k -> lookup (put sk st k b) k' = lookup st k'.
Proof.
  intros N. unfold put.
  assert (Hne : bytes_eqb k' k = false).
  { destruct (bytes_eqb k' k) eqn:E; [apply bytes_eqb_eq in E; contradiction|reflexivity]. }
  destruct (lookup st k); [destruct (sk_overwrite sk)|]; cbn [lookup]; rewrite ?Hne, ?lookup_remove_key, ?Hne; reflexivity.
Qed.

Lemma lookup_put_same sk st k b :
  lookup (put sk st k b) k = match lookup st k with
                             | Some old => if sk_overwrite sk then Some b else Some old
                             | None => Some b
                             end.
Proof.
  unfold put. destruct (lookup st k) eqn:L; [destruct (sk_overwrite sk)|]; cbn [lookup];
    rewrite ?bytes_eqb_refl; auto.
Qed.

Lemma lookup_put_cases sk st k b k' x :
  lookup (put sk st k b) k' = Some x -> (k' = k /\ x = b) \/ lookup st k' = Some x.
Proof.
  destruct (bytes_eqb k' k) eqn:E.
  - apply bytes_eqb_eq in E; subst k'. rewrite lookup_put_same.
    destruct (lookup st k) as [old|] eqn:L; [destruct (sk_overwrite sk)|]; intros H; inversion H; subst; auto.
  - rewrite lookup_put_other; auto. intros ->. rewrite bytes_eqb_refl in E. discriminate.
Qed.
