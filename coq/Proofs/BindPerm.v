(* Proofs/BindPerm.v — assembling is insensitive to the order in which map entries are delivered.
   If a tree d fits the type and d' is d up to the order of map entries at every level ([perm_eq],
   the relation of Proofs/CborEnc.v under which a key-sorting encoder is invariant), then building
   d' succeeds, gives a well-formed Go value, and that value denotes d up to entry order: Go structs
   come out identical (fields have their place), Go maps keep the delivered order in Keys, Any keeps
   the delivered tree. *)
Require Import IP.Base.Bytes IP.DM.Value IP.Bind.GoVal IP.Bind.Bind IP.Bind.Spec.
Require Import IP.Proofs.BindFacts IP.Proofs.BindView IP.Proofs.BindAsm IP.Proofs.BindFits.
Require Import IP.Proofs.CborEnc.
From Coq Require Import Permutation ZifyN ZifyNat ZifyBool.
Open Scope N_scope.

(* ---- inversion of perm_eq -------------------------------------------------------------------- *)

Definition is_container (d : dm) : bool := match d with DList _ | DMap _ => true | _ => false end.

Lemma pe_scalar : forall d d', perm_eq d d' -> is_container d = false -> d' = d.
Proof. intros d d' H Hc. inversion H; subst; simpl in Hc; try discriminate; reflexivity. Qed.

Lemma F2_refl : forall {A} (R : A -> A -> Prop) l, (forall x, R x x) -> Forall2 R l l.
Proof. intros A R l H; induction l; constructor; auto. Qed.

Lemma pe_list_inv : forall l d', perm_eq (DList l) d' -> exists l', d' = DList l' /\ Forall2 perm_eq l l'.
Proof.
  intros l d' H. inversion H; subst.
  - exists l. split; [reflexivity|]. apply F2_refl. apply pe_refl.
  - eauto.
Qed.

Definition ent_rel (a b : bytes * dm) : Prop := fst a = fst b /\ perm_eq (snd a) (snd b).

Lemma pe_map_inv : forall m d', perm_eq (DMap m) d' ->
  exists m2 m', d' = DMap m' /\ Forall2 ent_rel m m2 /\ Permutation m2 m'.
Proof.
  intros m d' H. inversion H; subst.
  - exists m, m. split; [reflexivity|]. split; [|apply Permutation_refl].
    apply F2_refl. intros x. split; [reflexivity | apply pe_refl].
  - exists m2, m2'. auto.
Qed.

Lemma pe_nonnull : forall d d', perm_eq d d' -> d <> DNull -> d' <> DNull.
Proof. intros d d' H Hn. inversion H; subst; try assumption; discriminate. Qed.

Lemma pe_kind : forall d d', perm_eq d d' -> kind_name d' = kind_name d.
Proof. intros d d' H. inversion H; subst; reflexivity. Qed.

Lemma F2_cons_inv : forall {A B} (R : A -> B -> Prop) a l l2, Forall2 R (a :: l) l2 ->
  exists b l2', l2 = b :: l2' /\ R a b /\ Forall2 R l l2'.
Proof. intros A B R a l l2 H. inversion H; subst. eauto. Qed.

Lemma F2_in_r : forall {A B} (R : A -> B -> Prop) l l' b, Forall2 R l l' -> In b l' -> exists a, In a l /\ R a b.
Proof.
  intros A B R l l' b H; induction H as [|x y l l' Hxy _ IH]; intros Hin; [contradiction|].
  destruct Hin as [<-|Hin]; [exists x; split; [left; reflexivity | exact Hxy]|].
  destruct (IH Hin) as [a [Ha Hr]]. exists a. split; [right; exact Ha | exact Hr].
Qed.

Lemma F2_impl_in : forall {A B} (R Q : A -> B -> Prop) l l',
  Forall2 R l l' -> (forall a b, In a l -> In b l' -> R a b -> Q a b) -> Forall2 Q l l'.
Proof.
  intros A B R Q l l' H; induction H as [|x y l l' Hxy _ IH]; intros HQ; constructor.
  - apply HQ; [left; reflexivity | left; reflexivity | exact Hxy].
  - apply IH. intros a b Ha Hb. apply HQ; right; assumption.
Qed.

(* boolean / propositional no-duplicates *)
Lemma names_nodup_NoDup : forall l, names_nodup l = true <-> NoDup l.
Proof.
  induction l as [|x l IH]; simpl; split; intros H; try constructor; try reflexivity.
  - apply andb_prop in H. destruct H as [H1 H2]. apply negb_true_iff in H1.
    intros Hin. pose proof (existsb_false_In x l H1 x Hin) as C. rewrite bytes_eqb_refl in C. discriminate.
  - apply IH. apply andb_prop in H. tauto.
  - inversion H as [|? ? Hn Hnd]; subst. apply andb_true_intro. split; [|apply IH; exact Hnd].
    apply negb_true_iff. destruct (existsb (bytes_eqb x) l) eqn:E; [|reflexivity].
    apply existsb_exists in E. destruct E as [y [Hy Hxy]]. apply bytes_eqb_eq in Hxy. subst. contradiction.
Qed.

Lemma nodup_key_unique : forall {V} (m : list (bytes * V)) a a',
  NoDup (map fst m) -> In a m -> In a' m -> fst a = fst a' -> a = a'.
Proof.
  intros V m; induction m as [|x m IH]; intros a a' Hnd Ha Ha' Hk; [contradiction|].
  inversion Hnd as [|? ? Hn Hnd']; subst.
  destruct Ha as [<-|Ha]; destruct Ha' as [<-|Ha']; try reflexivity.
  - exfalso. apply Hn. rewrite Hk. apply in_map. exact Ha'.
  - exfalso. apply Hn. rewrite <- Hk. apply in_map. exact Ha.
  - apply IH; assumption.
Qed.

Section AsmPerm.
  Variable q : quirks.
  Variable n32 : N -> N.

  Definition asmp_spec (lv : level) (t : sty) : Prop :=
    forall s d d', loc_ok (fun _ => bindable t) t s = true ->
      fits q lv n32 t (deref1 s) d = true -> perm_eq d d' ->
      exists g, asm q lv n32 t s (zero_of s) false d' = Ok g
                /\ ok_loc (gv_ok q n32 t) s g = true
                /\ perm_eq d (denote lv t g).

  (* types whose values are never containers: the exact theorem applies unchanged *)
  Lemma scalar_case : forall lv t,
    (forall s d, fits q lv n32 t s d = true -> is_container d = false) -> asmp_spec lv t.
  Proof.
    intros lv t Hsc s d d' Hl Hf Hp.
    rewrite (pe_scalar d d' Hp (Hsc _ _ Hf)).
    destruct (asm_denote q n32 lv t s d Hl Hf) as [g [Ha [Hok Hden]]].
    exists g. repeat split; try assumption. rewrite Hden. apply pe_refl.
  Qed.

  Lemma put_ok : forall lv t s x,
    loc_ok (fun _ => bindable t) t s = true -> gv_ok q n32 t (deref1 s) x = true ->
    ok_loc (gv_ok q n32 t) s (put s x) = true /\ denote lv t (put s x) = denote lv t x.
  Proof. intros lv t s x Hl Hok. exact (put_built q n32 lv t s x (denote lv t x) Hl Hok eq_refl). Qed.

  (* a position that may be null *)
  Lemma child_asm_p : forall lv t (nl : bool) s d d', asmp_spec lv t ->
    (if nl then nullable_ok (fun _ => bindable t) t s else loc_ok (fun _ => bindable t) t s) = true ->
    fits_child (fits q lv n32 t) nl s d = true -> perm_eq d d' ->
    exists g, asm q lv n32 t s (zero_of s) nl d' = Ok g
              /\ ok_child (gv_ok q n32 t) nl s g = true
              /\ perm_eq d (den_child (denote lv t) nl g).
  Proof.
    intros lv t nl s d d' IH Hs Hf Hp. unfold fits_child in Hf.
    destruct (dm_null_dec d) as [->|Hd].
    - rewrite (pe_scalar DNull d' Hp eq_refl). subst nl.
      exists (zero_of s). split; [destruct t; reflexivity|].
      rewrite (nullable_zero t s Hs). split; [reflexivity | apply pe_refl].
    - assert (Hf' : fits q lv n32 t (deref1 s) d = true) by (destruct d; congruence).
      pose proof (pe_nonnull d d' Hp Hd) as Hd'.
      destruct nl.
      + destruct (IH s d d' (nullable_loc_ok t s Hs) Hf' Hp) as [g [Ha [Hok Hden]]].
        exists g. rewrite asm_nullable_irrel by assumption. split; [assumption|].
        destruct (nullable_built_nonnil q n32 lv t s g Hs Hok) as [Hnn Hun].
        unfold ok_child, den_child. destruct g; try congruence; split; try assumption;
          try (rewrite Hun; assumption).
      + destruct (IH s d d' Hs Hf' Hp) as [g [Ha [Hok Hden]]].
        exists g. repeat split; assumption.
  Qed.

  (* struct fields *)
  Lemma field_asm_p : forall lv f s v v', asmp_spec lv (f_type f) ->
    field_ok (fun _ => bindable (f_type f)) (f_type f) (f_opt f) (f_nul f) s = true ->
    fits_child (fits q lv n32 (f_type f)) (f_nul f) (if f_opt f then deref1 s else s) v = true ->
    perm_eq v v' ->
    exists g dd, asm_field (asm q lv n32 (f_type f)) f s (zero_of s) v' = Ok g
              /\ ok_field (gv_ok q n32 (f_type f)) (f_opt f) (f_nul f) s g = true
              /\ den_field (denote lv (f_type f)) (f_opt f) (f_nul f) g = Some dd /\ perm_eq v dd.
  Proof.
    intros lv f s v v' IH Hs Hf Hp. unfold asm_field, field_ok, ok_field, den_field in *.
    set (t := f_type f) in *.
    destruct (f_opt f); destruct (f_nul f).
    - destruct s as [| | | | | | | s1 | | |]; try discriminate.
      apply andb_prop in Hs. destruct Hs as [Hs Hpt]. simpl in Hf.
      destruct (child_asm_p lv t true s1 v v' IH Hs Hf Hp) as [x [Ha [Hok Hden]]].
      exists (GPtr x), (den_child (denote lv t) true x). rewrite Ha. cbn [bind unptr]. repeat split; assumption.
    - destruct s as [| | | | |k| | s1 | | |]; try discriminate.
      + destruct k; try discriminate. simpl in Hf.
        destruct (child_asm_p lv t false (SLink LIface) v v' IH Hs Hf Hp) as [x [Ha [Hok Hden]]].
        exists x, (den_child (denote lv t) false x). rewrite Ha. unfold ok_child in Hok. simpl in Hok.
        assert (t = TLink) by (destruct t; simpl in Hs; try discriminate; reflexivity).
        rewrite H in *. destruct x; simpl in Hok; try discriminate.
        repeat split; try assumption.
      + simpl in Hf.
        destruct (child_asm_p lv t false SNode v v' IH Hs Hf Hp) as [x [Ha [Hok Hden]]].
        exists x, (den_child (denote lv t) false x). rewrite Ha. unfold ok_child in Hok. simpl in Hok.
        assert (t = TAny) by (destruct t; simpl in Hs; try discriminate; reflexivity).
        rewrite H in *. destruct x; simpl in Hok; try discriminate.
        repeat split; try assumption.
      + simpl in Hf.
        pose proof (bindable_noptr _ _ Hs) as Hnp.
        assert (Hl : loc_ok (fun _ => bindable t) t s1 = true).
        { destruct s1; simpl in *; try assumption; discriminate. }
        destruct (child_asm_p lv t false s1 v v' IH Hl Hf Hp) as [x [Ha [Hok Hden]]].
        exists (GPtr x), (den_child (denote lv t) false x). rewrite Ha. cbn [bind unptr]. repeat split; assumption.
    - destruct (child_asm_p lv t true s v v' IH Hs Hf Hp) as [x [Ha [Hok Hden]]].
      exists x, (den_child (denote lv t) true x). rewrite Ha. repeat split; assumption.
    - destruct (child_asm_p lv t false s v v' IH Hs Hf Hp) as [x [Ha [Hok Hden]]].
      exists x, (den_child (denote lv t) false x). rewrite Ha. repeat split; assumption.
  Qed.

  (* lists *)
  Lemma mapM_exists2 : forall {A B C} (f : B -> bres C) (P : C -> Prop) (R : A -> C -> Prop) (l : list A) (l' : list B),
    Forall2 (fun a b => exists y, f b = Ok y /\ P y /\ R a y) l l' ->
    exists ys, mapM f l' = Ok ys /\ Forall P ys /\ Forall2 R l ys.
  Proof.
    intros A B C f P R l l' H; induction H as [|a b l l' [y [Hy [Py Ry]]] _ [ys [Hys [Pys Rys]]]].
    - exists []. repeat split; constructor.
    - exists (y :: ys). simpl. rewrite Hy. simpl. rewrite Hys. simpl.
      repeat split; constructor; assumption.
  Qed.

  (* ---- ordered maps -------------------------------------------------------------------------- *)

  Lemma map_entries_okP : forall (one : bytes -> dm -> bres (gv * gv)) (P : bytes * dm -> gv -> Prop) m keys0 vals0,
    Forall (fun kv => exists vg, one (fst kv) (snd kv) = Ok (GString (fst kv), vg) /\ P kv vg) m ->
    names_nodup (map fst m) = true ->
    exists vs,
      asm_map_entries one m keys0 vals0 = Ok (keys0 ++ map GString (map fst m), vs)
      /\ (forall k0, (forall x, In x (map fst m) -> bytes_eqb k0 x = false) ->
                     gomap_get (GString k0) vs = gomap_get (GString k0) vals0)
      /\ Forall (fun kv => exists vg, gomap_get (GString (fst kv)) vs = Some vg /\ P kv vg) m.
  Proof.
    intros one P. induction m as [|[k v] m IH]; intros keys0 vals0 HF Hnd.
    - exists vals0. simpl. rewrite app_nil_r. repeat split; auto.
    - inversion HF as [|? ? [vg [Hone HP]] HF']; subst. simpl in Hone.
      simpl map in Hnd. destruct (nodup_head _ _ Hnd) as [Hfresh Hnd'].
      destruct (IH (keys0 ++ [GString k]) (gomap_set (GString k) vg vals0) HF' Hnd') as [vs [Hrun [Hother Hall]]].
      exists vs. cbn [asm_map_entries]. rewrite Hone. cbn [bind fst snd].
      split; [|split].
      + rewrite Hrun. rewrite <- app_assoc. reflexivity.
      + intros k0 Hk0. rewrite Hother.
        * apply get_set_other. apply Hk0. left; reflexivity.
        * intros x Hx. apply Hk0. right; exact Hx.
      + constructor.
        * exists vg. simpl. split; [|exact HP].
          rewrite Hother; [apply get_set_same|].
          intros x Hx. rewrite bytes_eqb_sym. apply Hfresh. exact Hx.
        * exact Hall.
  Qed.

  Lemma F2_map_fst : forall (m m2 : list (bytes * dm)), Forall2 ent_rel m m2 -> map fst m2 = map fst m.
  Proof. intros m m2 H; induction H as [|a b l l' [Hk _] _ IH]; [reflexivity|]. simpl. rewrite IH, Hk. reflexivity. Qed.

  Lemma F2_map_r : forall {A B C} (R : A -> C -> Prop) (G : B -> C) l l',
    Forall2 (fun a b => R a (G b)) l l' -> Forall2 R l (map G l').
  Proof. intros A B C R G l l' H; induction H; simpl; constructor; auto. Qed.

  (* ---- struct entries: same keys in field order, values up to entry order ------------------- *)

  Lemma struct_entries_p : forall lv (key : fld -> bytes) (keymap : bytes -> bytes) fs ss,
    names_nodup (map f_name fs) = true ->
    (forall f, In f fs -> keymap (key f) = f_name f) ->
    forall post pre spre spost gpre dpre m m2,
      fs = pre ++ post -> ss = spre ++ spost ->
      length spre = length pre -> length gpre = length pre -> length dpre = length pre ->
      Forall (fun f => asmp_spec lv (f_type f)) post ->
      fields_bindable (fun f => bindable (f_type f)) post spost = true ->
      fits_fields (fun f => fits q lv n32 (f_type f)) key post spost m = true ->
      Forall2 ent_rel m m2 ->
      exists gpost dpost,
        asm_entries (fun k v gs done => by_name q n32 lv fs ss (keymap k) v gs done) m2
                    (gpre ++ map (fun f => zero_of (snd f)) spost) (dpre ++ map (fun _ => false) post)
        = Ok (gpre ++ gpost, dpre ++ dpost)
        /\ ok_fields (fun f => gv_ok q n32 (f_type f)) post spost gpost = true
        /\ Forall2 ent_rel m (map (fun e => (key (fst e), snd e)) (den_fields (fun f => denote lv (f_type f)) post gpost))
        /\ missing_required post dpost = false.
  Proof.
    intros lv key keymap fs ss Hnd Hkm.
    induction post as [|f post IH]; intros pre spre spost gpre dpre m m2 Hfs Hss Hl1 Hl2 Hl3 HF Hb Hfit HR.
    - destruct spost; simpl in Hb; try discriminate. simpl in Hfit.
      destruct m; try discriminate. inversion HR as [E1 E2|]. subst m2.
      exists [], []. simpl. repeat split; try reflexivity. constructor.
    - destruct spost as [|[sn s] spost]; simpl in Hb; try discriminate.
      apply andb_prop in Hb. destruct Hb as [Hb1 Hb2].
      inversion HF as [|? ? HF1 HF2]; subst x l.
      assert (Hfs' : fs = (pre ++ [f]) ++ post) by (rewrite <- app_assoc; exact Hfs).
      assert (Hss' : ss = (spre ++ [(sn, s)]) ++ spost) by (rewrite <- app_assoc; exact Hss).
      assert (Hlen : forall {A} (l : list A) (x : A), length l = length pre -> length (l ++ [x]) = length (pre ++ [f])).
      { intros A l x E. rewrite !app_length. simpl. lia. }
      cbn [fits_fields] in Hfit.
      assert (Habsent : f_opt f = true ->
                fits_fields (fun f => fits q lv n32 (f_type f)) key post spost m = true ->
                exists gpost dpost,
                  asm_entries (fun k v gs done => by_name q n32 lv fs ss (keymap k) v gs done) m2
                    (gpre ++ map (fun f => zero_of (snd f)) ((sn, s) :: spost)) (dpre ++ map (fun _ => false) (f :: post))
                  = Ok (gpre ++ gpost, dpre ++ dpost)
                  /\ ok_fields (fun f => gv_ok q n32 (f_type f)) (f :: post) ((sn, s) :: spost) gpost = true
                  /\ Forall2 ent_rel m (map (fun e => (key (fst e), snd e)) (den_fields (fun f => denote lv (f_type f)) (f :: post) gpost))
                  /\ missing_required (f :: post) dpost = false).
      { intros Hopt Hrest.
        destruct (IH (pre ++ [f]) (spre ++ [(sn, s)]) spost (gpre ++ [zero_of s]) (dpre ++ [false]) m m2
                    Hfs' Hss' (Hlen _ _ _ Hl1) (Hlen _ _ _ Hl2) (Hlen _ _ _ Hl3) HF2 Hb2 Hrest HR)
          as [gpost [dpost [Hrun [Hok [Hden Hmiss]]]]].
        exists (zero_of s :: gpost), (false :: dpost).
        cbn [map snd]. rewrite <- !app_assoc in Hrun. cbn [app] in Hrun.
        split; [exact Hrun|].
        rewrite Hopt in Hb1.
        rewrite (optional_zero _ _ _ Hb1).
        cbn [ok_fields den_fields missing_required]. unfold ok_field, den_field. rewrite Hopt.
        repeat split; try assumption. }
      destruct m as [|[k v] m].
      + apply andb_prop in Hfit. destruct Hfit as [Hopt Hrest]. apply Habsent; assumption.
      + destruct (bytes_eqb k (key f)) eqn:Ek.
        * apply andb_prop in Hfit. destruct Hfit as [Hfv Hrest].
          apply bytes_eqb_eq in Ek. subst k.
          destruct (F2_cons_inv _ _ _ _ HR) as [[k2 v2] [m2' [Em2 [[Hk Hpv] HR']]]].
          cbn [fst snd] in Hk, Hpv. subst k2. subst m2.
          destruct (field_asm_p lv f s v v2 HF1 Hb1 Hfv Hpv) as [g1 [dd [Ha [Hok1 [Hden1 Hpd]]]]].
          destruct (IH (pre ++ [f]) (spre ++ [(sn, s)]) spost (gpre ++ [g1]) (dpre ++ [true]) m m2'
                      Hfs' Hss' (Hlen _ _ _ Hl1) (Hlen _ _ _ Hl2) (Hlen _ _ _ Hl3) HF2 Hb2 Hrest HR')
            as [gpost [dpost [Hrun [Hok [Hden Hmiss]]]]].
          exists (g1 :: gpost), (true :: dpost).
          split; [|split; [|split]].
          -- cbn [asm_entries map snd].
             assert (Hin : In f fs) by (rewrite Hfs; apply in_or_app; right; left; reflexivity).
             rewrite (Hkm f Hin). unfold by_name at 1.
             rewrite Hfs at 1.
             rewrite with_field_found;
               [| intros x Hx; apply (nodup_app_head pre f post); [rewrite <- Hfs; exact Hnd | exact Hx]
                | apply bytes_eqb_refl ].
             cbn [Nat.add].
             unfold nth_shape, nth_gv. rewrite Hss, <- Hl1, nth_app_here. cbn [snd].
             rewrite Hl1, <- Hl2, nth_app_here, Ha. cbn [bind fst snd].
             rewrite set_nth_app. rewrite Hl2, <- Hl3, set_nth_app.
             rewrite <- !app_assoc in Hrun. cbn [app] in Hrun. rewrite <- Hss. exact Hrun.
          -- cbn [ok_fields]. rewrite Hok1, Hok. reflexivity.
          -- cbn [den_fields]. rewrite Hden1. cbn [map fst snd]. constructor; [split; [reflexivity | exact Hpd] | exact Hden].
          -- cbn [missing_required]. rewrite Hmiss. rewrite andb_false_r. reflexivity.
        * apply andb_prop in Hfit. destruct Hfit as [Hopt Hrest]. apply Habsent; assumption.
  Qed.

  (* the names the entries of a fitting struct map resolve to are distinct *)
  Lemma fits_fields_names : forall (F : fld -> shape -> dm -> bool) (key : fld -> bytes) (keymap : bytes -> bytes) fs,
    (forall f, In f fs -> keymap (key f) = f_name f) ->
    forall ss m, names_nodup (map f_name fs) = true -> fits_fields F key fs ss m = true ->
    NoDup (map (fun kv => keymap (fst kv)) m) /\ (forall kv, In kv m -> In (keymap (fst kv)) (map f_name fs)).
  Proof.
    intros F key keymap fs. induction fs as [|f fs IH]; intros Hkm ss m Hnd Hfit.
    - destruct ss; simpl in Hfit; try discriminate. destruct m; try discriminate. split; [constructor | intros kv []].
    - destruct ss as [|[sn s] ss]; simpl in Hfit; try discriminate.
      cbn [map] in Hnd. destruct (nodup_head _ _ Hnd) as [Hfresh Hnd'].
      assert (Hkm' : forall f0, In f0 fs -> keymap (key f0) = f_name f0) by (intros f0 H0; apply Hkm; right; exact H0).
      assert (Hrestcase : forall m0, fits_fields F key fs ss m0 = true ->
                NoDup (map (fun kv => keymap (fst kv)) m0) /\
                (forall kv, In kv m0 -> In (keymap (fst kv)) (map f_name (f :: fs)))).
      { intros m0 H0. destruct (IH Hkm' ss m0 Hnd' H0) as [H1 H2]. split; [exact H1|].
        intros kv Hkv. right. apply H2. exact Hkv. }
      destruct m as [|[k v] m].
      + apply andb_prop in Hfit. destruct Hfit as [_ Hrest]. apply Hrestcase. exact Hrest.
      + destruct (bytes_eqb k (key f)) eqn:Ek.
        * apply andb_prop in Hfit. destruct Hfit as [_ Hrest].
          apply bytes_eqb_eq in Ek. subst k.
          destruct (IH Hkm' ss m Hnd' Hrest) as [H1 H2].
          cbn [map fst]. rewrite (Hkm f (or_introl eq_refl)). split.
          -- constructor; [|exact H1]. intros Hin. apply in_map_iff in Hin. destruct Hin as [kv [Hkv Hin]].
             pose proof (H2 kv Hin) as Hn. rewrite Hkv in Hn.
             pose proof (Hfresh _ Hn) as C. rewrite bytes_eqb_refl in C. discriminate.
          -- intros kv [<-|Hkv]; [left; cbn [fst]; symmetry; apply Hkm; left; reflexivity | right; apply H2; exact Hkv].
        * apply andb_prop in Hfit. destruct Hfit as [_ Hrest]. apply Hrestcase. exact Hrest.
  Qed.

  (* ---- delivering the entries in another order ---------------------------------------------- *)

  Lemma with_field_find : forall {R} k (body : nat -> fld -> R) none fs j,
    with_field k body none fs j = match find_field k fs j with Some (i, f) => body i f | None => none end.
  Proof.
    intros R k body none fs; induction fs as [|f fs IH]; intros j; [reflexivity|].
    cbn [with_field find_field]. destruct (bytes_eqb k (f_name f)); [reflexivity | apply IH].
  Qed.

  Lemma find_field_spec : forall k fs j i f, find_field k fs j = Some (i, f) ->
    (j <= i)%nat /\ nth_error fs (i - j) = Some f /\ f_name f = k.
  Proof.
    intros k fs; induction fs as [|x fs IH]; intros j i f H; [discriminate|].
    cbn [find_field] in H. destruct (bytes_eqb k (f_name x)) eqn:E.
    - inversion H; subst. rewrite Nat.sub_diag. repeat split; [lia | symmetry; apply bytes_eqb_eq; exact E].
    - destruct (IH (S j) i f H) as [Hle [Hn Hk]]. split; [lia|]. split; [|exact Hk].
      replace (i - j)%nat with (S (i - S j)) by lia. exact Hn.
  Qed.

  Lemma nth_set_nth_other : forall {A} (l : list A) i j x d, i <> j -> nth i (set_nth j x l) d = nth i l d.
  Proof.
    intros A l; induction l as [|y l IH]; intros i j x d H; destruct j; destruct i; simpl; try reflexivity; try congruence.
    apply IH. congruence.
  Qed.

  Lemma set_nth_comm : forall {A} (l : list A) i j x y, i <> j ->
    set_nth i x (set_nth j y l) = set_nth j y (set_nth i x l).
  Proof.
    intros A l; induction l as [|z l IH]; intros i j x y H; destruct j; destruct i; simpl; try reflexivity; try congruence.
    f_equal. apply IH. congruence.
  Qed.

  Lemma step_comm : forall lv fs ss n1 v1 n2 v2 gs done gs1 done1 gs2 done2,
    n1 <> n2 ->
    by_name q n32 lv fs ss n1 v1 gs done = Ok (gs1, done1) ->
    by_name q n32 lv fs ss n2 v2 gs1 done1 = Ok (gs2, done2) ->
    exists gs1' done1', by_name q n32 lv fs ss n2 v2 gs done = Ok (gs1', done1')
                        /\ by_name q n32 lv fs ss n1 v1 gs1' done1' = Ok (gs2, done2).
  Proof.
    intros lv fs ss n1 v1 n2 v2 gs done gs1 done1 gs2 done2 Hne H1 H2.
    unfold by_name in *. rewrite with_field_find in *.
    destruct (find_field n1 fs 0) as [[i1 f1]|] eqn:E1; [|discriminate].
    destruct (find_field n2 fs 0) as [[i2 f2]|] eqn:E2; [|discriminate].
    assert (Hi : i1 <> i2).
    { intros ->. destruct (find_field_spec _ _ _ _ _ E1) as [_ [Ha Hb]].
      destruct (find_field_spec _ _ _ _ _ E2) as [_ [Hc Hd]]. rewrite Ha in Hc. inversion Hc; subst. congruence. }
    destruct (asm_field (asm q lv n32 (f_type f1)) f1 (nth_shape i1 ss) (nth_gv i1 gs) v1) as [g1|] eqn:A1;
      cbn [bind] in H1; [|discriminate].
    inversion H1; subst gs1 done1. clear H1.
    unfold nth_gv in H2. rewrite nth_set_nth_other in H2 by congruence. fold (nth_gv i2 gs) in H2.
    destruct (asm_field (asm q lv n32 (f_type f2)) f2 (nth_shape i2 ss) (nth_gv i2 gs) v2) as [g2|] eqn:A2;
      cbn [bind] in H2; [|discriminate].
    inversion H2; subst gs2 done2. clear H2.
    exists (set_nth i2 g2 gs), (set_nth i2 true done). cbn [bind]. split; [reflexivity|].
    rewrite with_field_find, E1.
    unfold nth_gv. rewrite nth_set_nth_other by congruence. fold (nth_gv i1 gs). rewrite A1. cbn [bind].
    rewrite (set_nth_comm gs i1 i2) by congruence. rewrite (set_nth_comm done i1 i2) by congruence. reflexivity.
  Qed.

  Lemma asm_entries_perm : forall lv fs ss (keymap : bytes -> bytes) L1 L2, Permutation L1 L2 ->
    NoDup (map (fun kv : bytes * dm => keymap (fst kv)) L1) ->
    forall gs done r,
      asm_entries (fun k v gs done => by_name q n32 lv fs ss (keymap k) v gs done) L1 gs done = Ok r ->
      asm_entries (fun k v gs done => by_name q n32 lv fs ss (keymap k) v gs done) L2 gs done = Ok r.
  Proof.
    intros lv fs ss keymap L1 L2 HP. induction HP as [| [k v] l l' HP IH | [k1 v1] [k2 v2] l | l l' l'' HP1 IH1 HP2 IH2];
      intros Hnd gs done r H.
    - exact H.
    - cbn [asm_entries] in *. inversion Hnd; subst.
      destruct (by_name q n32 lv fs ss (keymap k) v gs done) as [st|]; cbn [bind] in *; [|discriminate].
      apply IH; assumption.
    - cbn [asm_entries] in *. cbn [map fst] in Hnd.
      inversion Hnd as [|? ? Hn1 Hnd1]; subst. 
      assert (Hne : keymap k2 <> keymap k1) by (intros E; apply Hn1; left; symmetry; exact E).
      destruct (by_name q n32 lv fs ss (keymap k2) v2 gs done) as [[gs1 done1]|] eqn:B1; cbn [bind fst snd] in H; [|discriminate].
      destruct (by_name q n32 lv fs ss (keymap k1) v1 gs1 done1) as [[gs2 done2]|] eqn:B2; cbn [bind fst snd] in H; [|discriminate].
      destruct (step_comm lv fs ss _ v2 _ v1 gs done gs1 done1 gs2 done2 Hne B1 B2) as [gs1' [done1' [C1 C2]]].
      rewrite C1. cbn [bind fst snd]. rewrite C2. cbn [bind fst snd]. exact H.
    - apply IH2; [|apply IH1; assumption].
      eapply Permutation_NoDup; [|exact Hnd]. apply Permutation_map. exact HP1.
  Qed.

  (* ---- tuples -------------------------------------------------------------------------------- *)

  Lemma tuple_asm_p : forall lv fs ss l l',
    Forall (fun f => asmp_spec lv (f_type f)) fs ->
    fields_bindable (fun f => bindable (f_type f)) fs ss = true ->
    forallb (fun f => negb (f_opt f)) fs = true ->
    fits_tuple (fun f => fits q lv n32 (f_type f)) fs ss l = true ->
    Forall2 perm_eq l l' ->
    exists gs, asm_tuple (fun f => asm q lv n32 (f_type f)) fs ss (map (fun f => zero_of (snd f)) ss) l'
               = Ok (gs, map (fun _ => true) fs)
               /\ ok_fields (fun f => gv_ok q n32 (f_type f)) fs ss gs = true
               /\ Forall2 perm_eq l (den_tuple (fun f => denote lv (f_type f)) fs gs).
  Proof.
    intros lv. induction fs as [|f fs IH]; intros ss l l' HF Hb Hno Hfit HR.
    - destruct ss; simpl in Hb; try discriminate. destruct l; simpl in Hfit; try discriminate.
      inversion HR; subst. exists []. repeat split. constructor.
    - destruct ss as [|[sn s] ss]; simpl in Hb; try discriminate.
      destruct l as [|v l]; simpl in Hfit; try discriminate.
      inversion HR as [|? v' ? l2 Hpv HR']; subst.
      apply andb_prop in Hb. destruct Hb as [Hb1 Hb2].
      apply andb_prop in Hfit. destruct Hfit as [Hf1 Hf2].
      cbn [forallb] in Hno. apply andb_prop in Hno. destruct Hno as [Hn1 Hn2].
      apply negb_true_iff in Hn1.
      inversion HF as [|? ? HF1 HF2]; subst.
      assert (Hf1' : fits_child (fits q lv n32 (f_type f)) (f_nul f) (if f_opt f then deref1 s else s) v = true)
        by (rewrite Hn1; exact Hf1).
      destruct (field_asm_p lv f s v v' HF1 Hb1 Hf1' Hpv) as [g1 [dd [Ha [Hok1 [Hden1 Hpd]]]]].
      destruct (IH ss l l2 HF2 Hb2 Hn2 Hf2 HR') as [gs [Hrun [Hok Hden]]].
      exists (g1 :: gs). cbn [asm_tuple map snd]. rewrite Ha. cbn [bind]. rewrite Hrun. cbn [bind fst snd].
      split; [reflexivity|]. split.
      + cbn [ok_fields]. rewrite Hok1, Hok. reflexivity.
      + cbn [den_tuple]. rewrite Hden1. constructor; assumption.
  Qed.

  (* ---- unions -------------------------------------------------------------------------------- *)

  Lemma member_asm_p : forall lv byname k ms ss v v' wrapm (none : bres gv),
    Forall (fun m => asmp_spec lv (snd m)) ms ->
    members_bindable (fun m => bindable (snd m)) ms ss = true ->
    with_member byname k (fun i m => fits_child (fits q lv n32 (snd m)) false (nth_shape i ss) v) false ms O = true ->
    perm_eq v v' ->
    exists pre m post x,
      ms = pre ++ m :: post /\ bytes_eqb k (mkey byname m) = true /\
      with_member byname k (member_body q n32 lv ss v') none ms O = Ok (union_set ss (length pre) x)
      /\ ok_members (fun m => gv_ok q n32 (snd m)) ms ss
                    (match union_set ss (length pre) x with GStruct gs => gs | _ => [] end) false = true
      /\ den_union (fun m => denote lv (snd m)) wrapm ms
                   (match union_set ss (length pre) x with GStruct gs => gs | _ => [] end)
         = wrapm m (denote lv (snd m) x)
      /\ perm_eq v (denote lv (snd m) x).
  Proof.
    intros lv byname k ms ss v v' wrapm none HF Hb Hfit Hp.
    destruct (with_member_true_inv byname k _ ms O Hfit) as [pre [m [post [Hms [Hpre [Hm Hbody]]]]]].
    cbn [Nat.add] in Hbody. subst ms.
    destruct (members_split pre m post ss Hb) as [spre [sn [ms1 [spost [Hss [Hl [Hbm [Hany [Hpp Hq]]]]]]]]].
    assert (Hnth : nth_shape (length pre) ss = SPtr ms1).
    { unfold nth_shape. rewrite Hss, <- Hl, nth_app_here. reflexivity. }
    rewrite Hnth in Hbody. unfold fits_child in Hbody.
    assert (HFm : asmp_spec lv (snd m)).
    { rewrite Forall_forall in HF. apply HF. apply in_or_app. right. left. reflexivity. }
    assert (Hloc : loc_ok (fun _ => bindable (snd m)) (snd m) ms1 = true).
    { pose proof (bindable_noptr _ _ Hbm). destruct ms1; simpl in *; try assumption; discriminate. }
    assert (Hd : deref1 ms1 = ms1) by (pose proof (bindable_noptr _ _ Hbm); destruct ms1; simpl in *; try reflexivity; discriminate).
    assert (Hfit' : fits q lv n32 (snd m) (deref1 ms1) v = true).
    { rewrite Hd. destruct v; try discriminate; exact Hbody. }
    destruct (HFm ms1 v v' Hloc Hfit' Hp) as [x [Ha [Hok Hden]]].
    exists pre, m, post, x. split; [reflexivity|]. split; [exact Hm|].
    split; [|split; [|split]].
    - rewrite with_member_found; [| exact Hpre | exact Hm]. cbn [Nat.add].
      unfold member_body. rewrite Hnth, Ha. reflexivity.
    - rewrite Hss at 2. rewrite <- Hl, union_set_at. rewrite Hss.
      rewrite ok_members_at by assumption.
      unfold ok_loc in Hok. pose proof (bindable_noptr _ _ Hbm). destruct ms1; simpl in *; try assumption; discriminate.
    - rewrite Hss. rewrite <- Hl, union_set_at. rewrite den_union_at by assumption. reflexivity.
    - exact Hden.
  Qed.

  (* ---- the theorem --------------------------------------------------------------------------- *)

  Ltac no_container :=
    intros s d H; destruct d; try reflexivity; simpl in H;
    repeat match goal with
           | H : context [match ?x with _ => _ end] |- _ => destruct x; try discriminate
           end; discriminate.

  Theorem asm_perm : forall lv t, asmp_spec lv t.
  Proof.
    intros lv. induction t using sty_ind2.
    - apply scalar_case. no_container.
    - apply scalar_case. no_container.
    - apply scalar_case. no_container.
    - apply scalar_case. no_container.
    - apply scalar_case. no_container.
    - apply scalar_case. no_container.
    - (* any: the delivered tree is kept *)
      intros s d d' Hl Hf Hp. destruct (loc_ok_shape _ _ Hl) as [Hb Hsh].
      destruct (deref1 s) eqn:Es; simpl in Hb; try discriminate.
      assert (Hd : d <> DNull) by (intros ->; simpl in Hf; discriminate).
      pose proof (pe_nonnull d d' Hp Hd) as Hd'.
      exists (put s (GNode d')). split; [destruct d'; try congruence; reflexivity|].
      destruct (put_ok lv TAny s (GNode d') Hl) as [Hok Hden].
      { rewrite Es. destruct d'; try congruence; reflexivity. }
      split; [exact Hok|]. rewrite Hden. exact Hp.
    - (* list *)
      intros s d d' Hl Hf Hp. destruct (loc_ok_shape _ _ Hl) as [Hb Hsh].
      destruct (deref1 s) as [| | | | | | | |sn es| |] eqn:Es; simpl in Hb; try discriminate.
      destruct d; simpl in Hf; try discriminate.
      destruct (pe_list_inv l d' Hp) as [l' [-> HR]].
      assert (HF : Forall2 (fun a b => exists g, asm q lv n32 t es (zero_of es) nl b = Ok g
                                        /\ ok_child (gv_ok q n32 t) nl es g = true
                                        /\ perm_eq a (den_child (denote lv t) nl g)) l l').
      { rewrite forallb_forall in Hf. eapply F2_impl_in; [exact HR|].
        intros a b Ha Hb' Hab. apply child_asm_p; auto. }
      destruct (mapM_exists2 _ (fun g => ok_child (gv_ok q n32 t) nl es g = true)
                  (fun a g => perm_eq a (den_child (denote lv t) nl g)) l l' HF) as [gs [Hrun [Hoks Hmap]]].
      rewrite asm_list_unfold, inner_zero, Es. cbn [fst snd zero_of]. rewrite Hrun. cbn [bind app].
      destruct gs as [|g0 gs0].
      + eexists. split; [reflexivity|].
        destruct (put_ok lv (TList n t nl) s GNil Hl) as [Hok Hden]; [rewrite Es; reflexivity|].
        split; [exact Hok|]. rewrite Hden. inversion Hmap; subst. apply pe_refl.
      + eexists. split; [reflexivity|].
        destruct (put_ok lv (TList n t nl) s (GSlice (g0 :: gs0)) Hl) as [Hok Hden].
        { rewrite Es. cbn [gv_ok]. apply forallb_forall. rewrite Forall_forall in Hoks. exact Hoks. }
        split; [exact Hok|]. rewrite Hden.
        cbn [denote unptr]. apply pe_list. apply F2_map_r. exact Hmap.
    - (* map *)
      intros s d d' Hl Hf Hp. destruct (loc_ok_shape _ _ Hl) as [Hb Hsh].
      destruct (deref1 s) as [| | | | | | | | |sn fs|] eqn:Es; simpl in Hb; try discriminate.
      destruct fs as [|[k1 s1] fs]; try discriminate.
      destruct fs as [|[k2 s2] fs]; try (destruct s1 as [| | | | | | | |? [| | | | | | | | | |]| |]; discriminate).
      destruct s1 as [| | | | | | | |n1 ks| |]; try discriminate.
      destruct ks; try discriminate.
      destruct s2 as [| | | | | | | | | |mk mv]; try discriminate.
      destruct mk; try discriminate.
      destruct fs; try discriminate.
      apply andb_prop in Hb. destruct Hb as [Hk Hv].
      destruct t1; try discriminate.
      destruct d; simpl in Hf; try discriminate.
      apply andb_prop in Hf. destruct Hf as [Hnd Hfv].
      destruct (pe_map_inv m d' Hp) as [m2 [m' [-> [HR HP]]]].
      pose proof (proj1 (names_nodup_NoDup _) Hnd) as HndP.
      assert (Hnd' : names_nodup (map fst m') = true).
      { apply names_nodup_NoDup. eapply Permutation_NoDup; [apply Permutation_map; exact HP|].
        rewrite (F2_map_fst m m2 HR). exact HndP. }
      set (one := fun (k : bytes) (v : dm) =>
                    do kg <- asm q lv n32 TString SString (zero_of SString) false (DString k);
                    do vg <- asm q lv n32 t2 mv (zero_of mv) nl v; Ok (kg, vg)).
      set (P := fun (kv : bytes * dm) (vg : gv) =>
                  ok_child (gv_ok q n32 t2) nl mv vg = true /\
                  forall a, In a m -> fst a = fst kv -> perm_eq (snd a) (den_child (denote lv t2) nl vg)).
      assert (HFp : Forall (fun kv => exists vg, one (fst kv) (snd kv) = Ok (GString (fst kv), vg) /\ P kv vg) m').
      { rewrite Forall_forall. intros b Hb'.
        assert (Hb2 : In b m2) by (eapply Permutation_in; [apply Permutation_sym; exact HP | exact Hb']).
        destruct (F2_in_r _ _ _ _ HR Hb2) as [a1 [Ha1 [Hk1 Hp1]]].
        rewrite forallb_forall in Hfv. pose proof (Hfv a1 Ha1) as Hfa.
        destruct (child_asm_p lv t2 nl mv (snd a1) (snd b) IHt2 Hv Hfa Hp1) as [vg [Ha [Hok Hden]]].
        exists vg. unfold one. rewrite Ha. split; [reflexivity|]. split; [exact Hok|].
        intros a Ha0 Hka. rewrite (nodup_key_unique m a a1 HndP Ha0 Ha1); [exact Hden | congruence]. }
      destruct (map_entries_okP one P m' [] [] HFp Hnd') as [vs [Hrun [_ Hall]]].
      rewrite asm_map_unfold, inner_zero, Es.
      change (zero_of (SStruct sn [(k1, SSlice n1 SString); (k2, SGoMap SString mv)])) with (GStruct [GNil; GNil]).
      cbn [fst snd]. fold one. rewrite Hrun. cbn [bind fst snd app].
      eexists. split; [reflexivity|].
      rewrite Forall_forall in Hall.
      match goal with |- ok_loc _ s (put s ?x) = true /\ _ => destruct (put_ok lv (TMap n TString t2 nl) s x Hl) as [Hok Hden] end.
      { rewrite Es. cbn [gv_ok].
        destruct m' as [|kv0 m0]; [reflexivity|].
        set (mm := kv0 :: m0) in *.
        rewrite (keys_slice (map GString (map fst mm))) by (subst mm; discriminate).
        cbn [andb]. rewrite (gv_nodup_strings _ Hnd'). cbn [andb].
        apply andb_true_intro. split.
        * apply forallb_forall. intros x Hx. apply in_map_iff in Hx. destruct Hx as [k [<- _]]. reflexivity.
        * apply forallb_forall. intros x Hx. apply in_map_iff in Hx. destruct Hx as [k [<- Hk']].
          apply in_map_iff in Hk'. destruct Hk' as [[k0 v0] [<- Hin]].
          destruct (Hall _ Hin) as [vg [Hg [Hok _]]]. cbn [fst] in *. rewrite Hg. exact Hok. }
      split; [exact Hok|]. rewrite Hden.
      destruct m' as [|kv0 m0].
      { apply Permutation_sym, Permutation_nil in HP. subst m2. inversion HR; subst.
        cbn [denote unptr map]. apply pe_refl. }
      set (mm := kv0 :: m0) in *.
      rewrite (keys_slice (map GString (map fst mm))) by (subst mm; discriminate).
      cbn [denote unptr]. rewrite map_map, map_map.
      set (G := fun kv : bytes * dm =>
                  (fst kv, match gomap_get (GString (fst kv)) vs with
                           | Some v => den_child (denote lv t2) nl v
                           | None => DNull
                           end)).
      apply (pe_map m (map G m2) (map G mm)); [|apply Permutation_map; exact HP].
      apply F2_map_r. eapply F2_impl_in; [exact HR|].
      intros a b Ha Hb2 [Hkab Hpab]. split; [exact Hkab|]. cbn [G snd].
      assert (Hb' : In b mm) by (eapply Permutation_in; [exact HP | exact Hb2]).
      destruct (Hall _ Hb') as [vg [Hg [_ HPa]]]. rewrite Hg. apply HPa; assumption.
    - (* struct *)
      intros s d d' Hl Hf Hp. destruct (loc_ok_shape _ _ Hl) as [Hb Hsh].
      destruct (deref1 s) as [| | | | | | | | |sn ss|] eqn:Es; simpl in Hb; try discriminate.
      apply andb_prop in Hb. destruct Hb as [Hb Hr].
      apply andb3 in Hb. destruct Hb as [Hb [Hnn Hnr]].
      assert (Hz : zero_of (SStruct sn ss) = GStruct (map (fun f => zero_of (snd f)) ss)) by reflexivity.
      destruct lv.
      + simpl in Hf. destruct d; try (destruct r; discriminate).
        assert (Hf' : fits_fields (fun f => fits q LType n32 (f_type f)) f_name fs ss m = true)
          by (destruct r; exact Hf).
        destruct (pe_map_inv m d' Hp) as [m2 [m' [-> [HR HP]]]].
        destruct (struct_entries_p LType f_name (fun k => k) fs ss Hnn (fun f _ => eq_refl)
                    fs [] [] ss [] [] m m2 eq_refl eq_refl eq_refl eq_refl eq_refl H Hb Hf' HR)
          as [gpost [dpost [Hrun [Hok [Hden Hmiss]]]]].
        cbn [app] in Hrun. cbn beta in Hrun.
        destruct (fits_fields_names _ f_name (fun k => k) fs (fun f _ => eq_refl) ss m Hnn Hf') as [Hndn _].
        assert (Hndn2 : NoDup (map (fun kv : bytes * dm => fst kv) m2)).
        { rewrite <- (map_ext _ _ (fun kv : bytes * dm => eq_refl (fst kv))). 
          change (map (fun kv : bytes * dm => fst kv) m2) with (map fst m2).
          rewrite (F2_map_fst m m2 HR). exact Hndn. }
        pose proof (asm_entries_perm LType fs ss (fun k => k) m2 m' HP Hndn2 _ _ _ Hrun) as Hrun'.
        cbn beta in Hrun'.
        rewrite asm_struct_type_unfold, inner_zero, Es, Hz. cbn [fst snd]. rewrite Hrun'. cbn [bind].
        unfold finish. cbn [fst snd]. rewrite Hmiss.
        eexists. split; [reflexivity|].
        destruct (put_ok LType (TStruct n fs r) s (GStruct gpost) Hl) as [Hok' Hden'].
        { rewrite Es. exact Hok. }
        split; [exact Hok'|]. rewrite Hden'. rewrite denote_struct_unfold.
        eapply pe_map; [|apply Permutation_refl]. destruct r; exact Hden.
      + destruct r.
        * simpl in Hf. destruct d; try discriminate.
          set (keymap := fun k => match find_rkey k fs with Some x => x | None => k end).
          assert (Hkm : forall f, In f fs -> keymap (f_rkey f) = f_name f).
          { intros f Hin. unfold keymap. rewrite (find_rkey_found fs Hnr f Hin). reflexivity. }
          destruct (pe_map_inv m d' Hp) as [m2 [m' [-> [HR HP]]]].
          destruct (struct_entries_p LRepr f_rkey keymap fs ss Hnn Hkm
                      fs [] [] ss [] [] m m2 eq_refl eq_refl eq_refl eq_refl eq_refl H Hb Hf HR)
            as [gpost [dpost [Hrun [Hok [Hden Hmiss]]]]].
          cbn [app] in Hrun.
          destruct (fits_fields_names _ f_rkey keymap fs Hkm ss m Hnn Hf) as [Hndn _].
          assert (Hndn2 : NoDup (map (fun kv : bytes * dm => keymap (fst kv)) m2)).
          { rewrite <- (map_map fst keymap). rewrite (F2_map_fst m m2 HR). rewrite map_map. exact Hndn. }
          pose proof (asm_entries_perm LRepr fs ss keymap m2 m' HP Hndn2 _ _ _ Hrun) as Hrun'.
          unfold keymap in Hrun'. cbn beta in Hrun'.
          rewrite asm_struct_map_unfold, inner_zero, Es, Hz. cbn [fst snd]. rewrite Hrun'. cbn [bind].
          unfold finish. cbn [fst snd]. rewrite Hmiss.
          eexists. split; [reflexivity|].
          destruct (put_ok LRepr (TStruct n fs SRMap) s (GStruct gpost) Hl) as [Hok' Hden'].
          { rewrite Es. exact Hok. }
          split; [exact Hok'|]. rewrite Hden'. rewrite denote_struct_unfold.
          eapply pe_map; [exact Hden | apply Permutation_refl].
        * simpl in Hf. destruct d; try discriminate.
          destruct (pe_list_inv l d' Hp) as [l' [-> HR]].
          destruct (tuple_asm_p LRepr fs ss l l' H Hb Hr Hf HR) as [gs [Hrun [Hok Hden]]].
          rewrite asm_struct_tuple_unfold, inner_zero, Es, Hz. cbn [fst snd]. rewrite Hrun. cbn [bind].
          unfold finish. cbn [fst snd]. rewrite missing_all_done.
          eexists. split; [reflexivity|].
          destruct (put_ok LRepr (TStruct n fs SRTuple) s (GStruct gs) Hl) as [Hok' Hden'].
          { rewrite Es. exact Hok. }
          split; [exact Hok'|]. rewrite Hden'. rewrite denote_struct_unfold.
          apply pe_list. exact Hden.
    - (* union *)
      intros s d d' Hl Hf Hp. destruct (loc_ok_shape _ _ Hl) as [Hb Hsh].
      destruct (deref1 s) as [| | | | | | | | |sn ss|] eqn:Es; simpl in Hb; try discriminate.
      apply andb_prop in Hb. destruct Hb as [Hb Hkwf].
      apply andb3 in Hb. destruct Hb as [Hb [Hnn Hnd]].
      assert (Hinner : fst (inner s (zero_of s)) = SStruct sn ss) by (rewrite inner_zero, Es; reflexivity).
      assert (Hsingle : forall k v, perm_eq (DMap [(k, v)]) d' -> exists v', d' = DMap [(k, v')] /\ perm_eq v v').
      { intros k v Hp0. destruct (pe_map_inv _ _ Hp0) as [m2 [m' [-> [HR HP]]]].
        destruct (F2_cons_inv _ _ _ _ HR) as [[k2 v2] [m2' [-> [[Hk Hpv] HR']]]].
        inversion HR'; subst. cbn [fst snd] in *. subst k2.
        apply Permutation_length_1_inv in HP. subst m'. eauto. }
      destruct lv.
      + simpl in Hf. destruct d; try (destruct r; discriminate).
        destruct m as [|[k v] [|]]; try (destruct r; discriminate).
        assert (Hf' : with_member true k (fun i m => fits_child (fits q LType n32 (snd m)) false (nth_shape i ss) v) false ms 0 = true)
          by (destruct r; exact Hf).
        destruct (Hsingle k v Hp) as [v' [-> Hpv]].
        destruct (member_asm_p LType true k ms ss v v' (fun m d => DMap [(sty_name (snd m), d)]) (Err XUnion) H Hb Hf' Hpv)
          as [pre [mb [post [x [Hms [Hk [Hrun [Hok [Hden Hpx]]]]]]]]].
        rewrite asm_union_type_unfold, Hinner. rewrite Hrun. cbn [bind].
        eexists. split; [reflexivity|].
        destruct (put_ok LType (TUnion n ms r) s (union_set ss (length pre) x) Hl) as [Hok' Hden'].
        { rewrite Es. unfold union_set in *. exact Hok. }
        split; [exact Hok'|]. rewrite Hden'. unfold union_set in *. rewrite denote_union_unfold.
        apply bytes_eqb_eq in Hk. unfold mkey in Hk. subst k.
        assert (Hd2 : den_union (fun m => denote LType (snd m))
                        (fun m d => match r with URKeyed | URKinded | URStringprefix => DMap [(sty_name (snd m), d)] end) ms
                        (set_nth (length pre) (GPtr x) (map (fun _ => GNil) ss))
                      = DMap [(sty_name (snd mb), denote LType (snd mb) x)]) by (destruct r; exact Hden).
        destruct r; (rewrite Hd2 || (cbn; rewrite Hd2));
          (eapply pe_map; [|apply Permutation_refl]; constructor; [split; [reflexivity | exact Hpx] | constructor]).
      + destruct r.
        * simpl in Hf. destruct d; try discriminate.
          destruct m as [|[k v] [|]]; try discriminate.
          destruct (Hsingle k v Hp) as [v' [-> Hpv]].
          destruct (member_asm_p LRepr false k ms ss v v' (fun m d => DMap [(fst m, d)]) (Err XUnion) H Hb Hf Hpv)
            as [pre [mb [post [x [Hms [Hk [Hrun [Hok [Hden Hpx]]]]]]]]].
          rewrite asm_union_keyed_unfold, Hinner.
          pose proof (find_disc_some k ms 0 pre mb post Hms Hk) as Hsome.
          destruct (find_member_by_disc k ms 0); [|congruence].
          rewrite Hrun. cbn [bind].
          eexists. split; [reflexivity|].
          destruct (put_ok LRepr (TUnion n ms URKeyed) s (union_set ss (length pre) x) Hl) as [Hok' Hden'].
          { rewrite Es. unfold union_set in *. exact Hok. }
          split; [exact Hok'|]. rewrite Hden'. unfold union_set in *. rewrite denote_union_unfold.
          apply bytes_eqb_eq in Hk. unfold mkey in Hk. subst k. cbn beta iota. rewrite Hden.
          eapply pe_map; [|apply Permutation_refl]. constructor; [split; [reflexivity | exact Hpx] | constructor].
        * assert (Hd : d <> DNull) by (intros ->; simpl in Hf; discriminate).
          pose proof (pe_nonnull d d' Hp Hd) as Hd'.
          assert (Hf' : with_member false (kind_name d')
                          (fun i m => fits_child (fits q LRepr n32 (snd m)) false (nth_shape i ss) d) false ms 0 = true).
          { rewrite (pe_kind d d' Hp). simpl in Hf. destruct d; try congruence;
              (erewrite with_member_ext_bool; [exact Hf|]; intros i mb0; unfold fits_child;
               destruct (nth_shape i ss); reflexivity). }
          destruct (member_asm_p LRepr false (kind_name d') ms ss d d' (fun m d => d) (Err XWrongKind) H Hb Hf' Hp)
            as [pre [mb [post [x [Hms [Hk [Hrun [Hok [Hden Hpx]]]]]]]]].
          assert (Hs : s = SStruct sn ss).
          { simpl in Hl. destruct s; simpl in Es; try discriminate; try exact Es.
            simpl in Hl. rewrite andb_false_r in Hl. discriminate. }
          rewrite asm_union_kinded_unfold; [|assumption|rewrite Hs; reflexivity]. rewrite Hinner. rewrite Hrun.
          eexists. split; [reflexivity|].
          split.
          -- rewrite Hs. unfold ok_loc. unfold union_set in *. exact Hok.
          -- unfold union_set in *. rewrite denote_union_unfold. cbn beta iota. rewrite Hden. exact Hpx.
        * discriminate Hkwf.
    - (* enum *)
      apply scalar_case. no_container.
  Qed.
End AsmPerm.
