(* Proofs/NodeRead.v — the read API on well-formed nodes: length, iterators and the four lookup
   forms agree (carried by the invariant "m and t hold the same entries, keys of t duplicate-free");
   kind-inappropriate accessors return wrong-kind. *)
Require Import IP.Base.Bytes IP.DM.Value IP.Node.Basic IP.Node.Protocol IP.Proofs.NodeBuild.
Open Scope N_scope.

(* ------------------------------------------------------------------ iterators *)
Lemma it_done_app : forall A (p s : list A), it_done (p ++ s) (length p) = match s with [] => true | _ => false end.
Proof.
  intros. unfold it_done. rewrite app_length. destruct s; simpl.
  - rewrite Nat.add_0_r. apply Nat.leb_refl.
  - apply Nat.leb_gt. lia.
Qed.

Lemma drain_S : forall A f (l : list A) i,
  drain (S f) l i =
  if it_done l i then ([], match it_next l i with Err e => Some e | Ok _ => None end)
  else match it_next l i with
       | Ok (a, i') => let (r, e) := drain f l i' in (a :: r, e)
       | Err e => ([], Some e)
       end.
Proof. reflexivity. Qed.

Lemma drain_suffix : forall A (s p : list A),
  drain (S (length s)) (p ++ s) (length p) = (s, Some EOverread).
Proof.
  induction s as [|a s]; intros p.
  - rewrite drain_S. unfold it_next. rewrite it_done_app. reflexivity.
  - change (length (a :: s)) with (S (length s)). rewrite drain_S.
    unfold it_next. rewrite it_done_app.
    rewrite nth_error_app2 by lia. rewrite Nat.sub_diag. simpl nth_error.
    replace (p ++ a :: s) with ((p ++ [a]) ++ s) by (rewrite <- app_assoc; reflexivity).
    replace (S (length p)) with (length (p ++ [a])) by (rewrite app_length; simpl; lia).
    rewrite IHs. reflexivity.
Qed.

(* for !Done { Next } yields every entry once, in order; one more Next is an over-read error *)
Theorem iterate_all : forall A (l : list A), iterate l = (l, Some EOverread).
Proof. intros. unfold iterate. apply (drain_suffix A l []). Qed.

(* ------------------------------------------------------------------ maps *)
Definition entries_of (n : node) : list (bytes * node) :=
  match n with NMap t _ | NFMap t => t | _ => [] end.
Definition items_of (n : node) : list node :=
  match n with NList x | NFList x => x | _ => [] end.

Lemma assoc_in_nodup : forall V (l : list (bytes * V)) k v,
  NoDup (map fst l) -> In (k, v) l -> assoc k l = Some v.
Proof.
  induction l as [|[k' v'] l]; simpl; intros k v Hnd Hin; [contradiction|].
  inversion Hnd; subst. destruct Hin as [E|Hin].
  - inversion E; subst. rewrite bytes_eqb_refl. reflexivity.
  - destruct (bytes_eqb k k') eqn:E.
    + apply bytes_eqb_eq in E. subst. exfalso. apply H1. apply (in_map fst) in Hin. auto.
    + auto.
Qed.

Definition look (n : node) (k : bytes) : res err node :=
  match assoc k (entries_of n) with Some v => Ok v | None => Err ENotExists end.

Theorem map_views : forall n, wf n -> kind_of n = KMap ->
  length_of n = Z.of_nat (length (entries_of n)) /\
  (exists es, map_entries n = Some es /\ iterate es = (es, Some EOverread) /\
              es = map (fun kv => (NString (fst kv), snd kv)) (entries_of n)) /\
  NoDup (map fst (entries_of n)) /\
  (forall k, lookup_by_string n k = look n k) /\
  (forall k v, In (k, v) (entries_of n) -> lookup_by_string n k = Ok v) /\
  (forall k, lookup_by_node n (NString k) = lookup_by_string n k) /\
  (forall kn e, as_string kn = Err e -> lookup_by_node n kn = Err e) /\
  (forall sg, lookup_by_segment n sg = lookup_by_string n (seg_string sg)) /\
  (forall i, lookup_by_index n i = Err EWrongKind).
Proof.
  intros n Hw Hk. destruct n; simpl in Hk; try discriminate; inversion Hw; subst.
  - (* plainMap: lookups read m, iteration reads t *)
    assert (Hl : forall k, lookup_by_string (NMap t m) k = look (NMap t m) k).
    { intros k. unfold look. simpl. rewrite H2. reflexivity. }
    repeat split; auto.
    + eexists. split; [reflexivity|]. split; [apply iterate_all|reflexivity].
    + intros k v Hin. rewrite Hl. unfold look. simpl. rewrite (assoc_in_nodup _ t k v); auto.
    + intros kn e He. simpl. rewrite He. reflexivity.
  - assert (Hl : forall k, lookup_by_string (NFMap t) k = look (NFMap t) k) by reflexivity.
    repeat split; auto.
    + eexists. split; [reflexivity|]. split; [apply iterate_all|reflexivity].
    + intros k v Hin. rewrite Hl. unfold look. simpl. rewrite (assoc_in_nodup _ t k v); auto.
    + intros kn e He. simpl. rewrite He. reflexivity.
Qed.

(* ------------------------------------------------------------------ lists *)
Definition at_index (n : node) (i : Z) : res err node :=
  if (i <? 0)%Z then Err ENotExists
  else match nth_error (items_of n) (Z.to_nat i) with Some v => Ok v | None => Err ENotExists end.

Lemma index_nth : forall (x : list node) i,
  (if (i <? 0)%Z then Err ENotExists
   else if (Z.of_nat (length x) <=? i)%Z then Err ENotExists
   else match nth_error x (Z.to_nat i) with Some v => Ok v | None => Err ENotExists end) =
  (if (i <? 0)%Z then Err ENotExists
   else match nth_error x (Z.to_nat i) with Some v => Ok v | None => @Err err node ENotExists end).
Proof.
  intros. destruct (i <? 0)%Z eqn:E1; auto.
  destruct (Z.of_nat (length x) <=? i)%Z eqn:E2; auto.
  destruct (nth_error x (Z.to_nat i)) eqn:E3; auto. exfalso.
  assert (Hs : nth_error x (Z.to_nat i) <> None) by congruence.
  apply nth_error_Some in Hs. apply Z.leb_le in E2. apply Z.ltb_ge in E1. lia.
Qed.

Lemma seg_int_index : forall i, (0 <= i)%Z -> seg_index (seg_of_int i) = Some i.
Proof.
  intros. unfold seg_index, seg_of_int. simpl.
  destruct (i <? 0)%Z eqn:E; auto. apply Z.ltb_lt in E. lia.
Qed.

Lemma seg_string_index : forall s, seg_index (seg_of_string s) = parse_int s.
Proof. reflexivity. Qed.

Theorem list_views : forall n, kind_of n = KList ->
  length_of n = Z.of_nat (length (items_of n)) /\
  (exists xs, list_entries n = Some xs /\ iterate xs = (xs, Some EOverread) /\ xs = items_of n) /\
  (forall i, lookup_by_index n i = at_index n i) /\
  (forall sg, lookup_by_segment n sg =
              match seg_index sg with Some i => lookup_by_index n i | None => Err EInvalidSegment end) /\
  (forall i, (0 <= i)%Z -> lookup_by_segment n (seg_of_int i) = lookup_by_index n i) /\
  (forall s i, parse_int s = Some i -> lookup_by_segment n (seg_of_string s) = lookup_by_index n i) /\
  (forall k, lookup_by_string n k = Err EWrongKind).
Proof.
  intros n Hk. destruct n; simpl in Hk; try discriminate.
  - split; [reflexivity|]. split.
    { eexists. split; [reflexivity|]. split; [apply iterate_all|reflexivity]. }
    split. { intros i. unfold at_index. simpl. apply index_nth. }
    split. { reflexivity. }
    split. { intros i Hi. unfold lookup_by_segment. rewrite seg_int_index; auto. }
    split. { intros s i Hp. unfold lookup_by_segment. rewrite seg_string_index, Hp. reflexivity. }
    reflexivity.
  - split; [reflexivity|]. split.
    { eexists. split; [reflexivity|]. split; [apply iterate_all|reflexivity]. }
    split. { intros i. unfold at_index. simpl. apply index_nth. }
    split. { reflexivity. }
    split. { intros i Hi. unfold lookup_by_segment. rewrite seg_int_index; auto. }
    split. { intros s i Hp. unfold lookup_by_segment. rewrite seg_string_index, Hp. reflexivity. }
    reflexivity.
Qed.

(* ------------------------------------------------------------------ wrong kind *)
(* every accessor / lookup that does not fit the node's kind answers with the wrong-kind error
   (an error value, not a panic) *)
Theorem wrong_kind_table : forall n,
  (kind_of n <> KBool -> as_bool n = Err EWrongKind) /\
  (kind_of n <> KInt -> as_int n = Err EWrongKind) /\
  (kind_of n <> KFloat -> as_float n = Err EWrongKind) /\
  (kind_of n <> KString -> as_string n = Err EWrongKind) /\
  (kind_of n <> KBytes -> as_bytes n = Err EWrongKind) /\
  (kind_of n <> KLink -> as_link n = Err EWrongKind) /\
  (kind_of n <> KMap -> forall k, lookup_by_string n k = Err EWrongKind) /\
  (kind_of n <> KList -> forall i, lookup_by_index n i = Err EWrongKind) /\
  (kind_of n <> KMap -> kind_of n <> KList ->
     (forall k, lookup_by_node n k = Err EWrongKind) /\
     (forall sg, lookup_by_segment n sg = Err EWrongKind)) /\
  (kind_of n <> KMap -> map_entries n = None) /\
  (kind_of n <> KList -> list_entries n = None) /\
  (kind_of n <> KMap -> kind_of n <> KList -> length_of n = (-1)%Z).
Proof.
  destruct n; simpl; repeat split; intros; try congruence; auto.
Qed.

(* the kind-appropriate accessor succeeds (ints above MaxInt64 excepted: AsInt cannot carry them) *)
Theorem right_kind_table : forall n,
  (kind_of n = KBool -> exists b, as_bool n = Ok b) /\
  (kind_of n = KInt -> (exists z, as_int n = Ok z) \/ (exists z, n = NUint z /\ (two63z <= z)%Z /\ as_int n = Err EOther)) /\
  (kind_of n = KFloat -> exists f, as_float n = Ok f) /\
  (kind_of n = KString -> exists s, as_string n = Ok s) /\
  (kind_of n = KBytes -> exists s, as_bytes n = Ok s) /\
  (kind_of n = KLink -> exists c, as_link n = Ok c).
Proof.
  destruct n; simpl; repeat split; intros; try discriminate; eauto.
  destruct (z <? two63z)%Z eqn:E; [left; eauto|right; exists z; repeat split; auto; lia].
Qed.
