(* Proofs/TravCompile.v — what compile (the Parse* functions) returns is a closed declared selector. *)
Require Import IP.Base.Bytes IP.DM.Value IP.Base.GoSem IP.Trav.Selector IP.Proofs.TravSel IP.Proofs.TravSlice IP.Proofs.TravDenote.
From Coq Require Import Lia.
Open Scope Z_scope.

Lemma cbind_ok {A B} (r : cr A) (f : A -> cr B) x :
  cbind r f = COk x -> exists a, r = COk a /\ f a = COk x.
Proof. destruct r; cbn; try discriminate. eauto. Qed.

Ltac inv_cbind H :=
  repeat (let a := fresh "a" in let E := fresh "E" in
          apply cbind_ok in H; destruct H as (a & E & H)).

Lemma as_int_in64 v z : as_int v = Some z -> in64 z.
Proof.
  destruct v; try discriminate. cbn. unfold int64_lim, in64, two63.
  destruct (Z.leb_spec (-9223372036854775808) z0); destruct (Z.ltb_spec z0 9223372036854775808); cbn;
    intros E; inversion E; subst; lia.
Qed.

Lemma fields_wf b (rec : dm -> cr (sel * bool)) :
  (forall x se, rec x = COk se -> srcw b (fst se)) ->
  forall l r, compile_fields rec l = COk r -> Forall (fun kv => srcw b (snd kv)) (fst r).
Proof.
  intros Hrec. induction l as [|[fk x] t IH]; intros r H.
  - inversion H; subst. constructor.
  - cbn [compile_fields] in H. inv_cbind H. inversion H; subst. cbn. constructor; [cbn; eauto|eauto].
Qed.

Lemma members_wf b (rec : dm -> cr (sel * bool)) :
  (forall x se, rec x = COk se -> srcw b (fst se)) ->
  forall l r, compile_members rec l = COk r -> Forall (srcw b) (fst r).
Proof.
  intros Hrec. induction l as [|x t IH]; intros r H.
  - inversion H; subst. constructor.
  - cbn [compile_members] in H. inv_cbind H. inversion H; subst. cbn. constructor; eauto.
Qed.

Lemma compile_f_wf : forall fuel inrec v se, compile_f fuel inrec v = COk se -> srcw inrec (fst se).
Proof.
  induction fuel as [|f IH]; intros inrec v se H; [discriminate|].
  cbn [compile_f] in H.
  destruct v; try discriminate. destruct m as [|[k body] [|? ?]]; try discriminate.
  destruct (bytes_eqb k k_fields).
  { inv_cbind H. inversion H; subst. cbn. constructor. eapply fields_wf; [|eassumption]. intros; eapply IH; eauto. }
  destruct (bytes_eqb k k_all).
  { inv_cbind H. inversion H; subst. cbn. constructor. eapply IH; eauto. }
  destruct (bytes_eqb k k_index).
  { inv_cbind H. inversion H; subst. cbn. constructor. eapply IH; eauto. }
  destruct (bytes_eqb k k_range).
  { inv_cbind H. destruct (_ <=? _) in H; [discriminate|]. inv_cbind H. inversion H; subst. cbn.
    constructor. eapply IH; eauto. }
  destruct (bytes_eqb k k_union).
  { destruct body; try discriminate. inv_cbind H. inversion H; subst. cbn. constructor.
    eapply members_wf; [|eassumption]. intros; eapply IH; eauto. }
  destruct (bytes_eqb k k_rec).
  { inv_cbind H. destruct (negb _) in H; [discriminate|].
    destruct (assoc k_stop _) in H.
    - inv_cbind H. inversion H; subst. cbn. constructor. eapply IH; eauto.
    - inversion H; subst. cbn. constructor. eapply IH; eauto. }
  destruct (bytes_eqb k k_edge).
  { inv_cbind H. destruct inrec; [|discriminate]. inversion H; subst. constructor. }
  destruct (bytes_eqb k k_interp); [discriminate|].
  destruct (bytes_eqb k k_matcher); [|discriminate].
  inv_cbind H. inversion H; subst. cbn.
  unfold parse_matcher in *. destruct body; try discriminate.
  destruct (assoc k_subset m) as [sv|]; [|inversion E; subst; constructor; exact I].
  destruct sv; try discriminate.
  destruct (assoc k_from m0) as [fv|]; [|discriminate].
  destruct (as_int fv) as [fromN|] eqn:Ef; [|discriminate].
  destruct (assoc k_to m0) as [tv|]; [|discriminate].
  destruct (as_int tv) as [toN|] eqn:Et; [|discriminate].
  destruct ((0 <=? toN) && (toN <? fromN))%bool; [discriminate|].
  inversion E; subst. constructor. split; eapply as_int_in64; eassumption.
Qed.

Theorem compile_wf v s : compile v = COk s -> srcw false s.
Proof.
  unfold compile. intros H. apply cbind_ok in H. destruct H as (se & E & H). inversion H; subst.
  eapply compile_f_wf; eauto.
Qed.
