(* Proofs/XformWalk.v — WalkTransforming (selector fragment of Xform/WalkT.v): the identity law on
   link-free trees, and the witness that a walk across a link returns the *inlined* block instead of
   a link (the stored-and-re-linked clause of C16 fails for the selector-driven transform). *)
Require Import IP.Base.Bytes IP.DM.Value IP.Xform.Transform IP.Xform.WalkT.
From Coq Require Import Lia.
Open Scope Z_scope.

Section WalkId.
  Variable sq : squirks.
  Variable st : store.
  Definition gsame : dm -> option dm := fun _ => None.   (* the callback hands back the node it was given *)

  Lemma load_child_link_free v : link_free v = true -> load_child st v = Ok v.
  Proof. destruct v; try reflexivity. discriminate. Qed.

  Section Loops.
    Variable rec : sel -> path -> dm -> list (path * dm) -> res xerr (dm * list (path * dm)).
    Hypothesis Hrec : forall sn pth v log r, link_free v = true -> rec sn pth v log = Ok r -> fst r = v.
    Variable here : path.
    Variable s : sel.
    Variable attn : option (list pseg).

    Lemma wt_list_id : forall l i log x,
      forallb link_free l = true -> wt_list sq st rec here s attn i l log = Ok x -> fst x = l.
    Proof.
      induction l as [|v r IH]; intros i log x Hl; simpl.
      - intro E; inversion E; reflexivity.
      - simpl in Hl. apply andb_true_iff in Hl as [Hv Hr].
        assert (Hcopy : forall lg, (do y <- wt_list sq st rec here s attn (i + 1) r lg; Ok (v :: fst y, snd y)) = Ok x -> fst x = v :: r).
        { intros lg. destruct (wt_list sq st rec here s attn (i + 1) r lg) as [y|e] eqn:EL; [|discriminate].
          cbn. intro E; inversion E; subst. cbn. f_equal. eapply IH; eassumption. }
        destruct (attends attn (PI i)); [|apply Hcopy].
        destruct (explore sq s true (PI i)) as [[sn|]|e]; cbn; [| apply Hcopy | discriminate].
        rewrite (load_child_link_free v Hv). cbn.
        match goal with |- context [rec ?a ?b ?c ?d] => destruct (rec a b c d) as [x0|e] eqn:ER end; [|discriminate]. cbn.
        destruct (wt_list sq st rec here s attn (i + 1) r (snd x0)) as [y|e] eqn:EL; [|discriminate].
        cbn. intro E; inversion E; subst. cbn. f_equal.
        + eapply Hrec; eassumption.
        + eapply IH; eassumption.
    Qed.

    Lemma wt_map_id : forall m log x,
      forallb (fun kv => link_free (snd kv)) m = true -> wt_map sq st rec here s attn m log = Ok x -> fst x = m.
    Proof.
      induction m as [|[k v] r IH]; intros log x Hl; simpl.
      - intro E; inversion E; reflexivity.
      - simpl in Hl. apply andb_true_iff in Hl as [Hv Hr].
        assert (Hcopy : forall lg, (do y <- wt_map sq st rec here s attn r lg; Ok ((k, v) :: fst y, snd y)) = Ok x -> fst x = (k, v) :: r).
        { intros lg. destruct (wt_map sq st rec here s attn r lg) as [y|e] eqn:EL; [|discriminate].
          cbn. intro E; inversion E; subst. cbn. f_equal. eapply IH; eassumption. }
        destruct (attends attn (PK k)); [|apply Hcopy].
        destruct (explore sq s false (PK k)) as [[sn|]|e]; cbn; [| apply Hcopy | discriminate].
        rewrite (load_child_link_free v Hv). cbn.
        match goal with |- context [rec ?a ?b ?c ?d] => destruct (rec a b c d) as [x0|e] eqn:ER end; [|discriminate]. cbn.
        destruct (wt_map sq st rec here s attn r (snd x0)) as [y|e] eqn:EL; [|discriminate].
        cbn. intro E; inversion E; subst. cbn. f_equal.
        + f_equal. eapply Hrec; eassumption.
        + eapply IH; eassumption.
    Qed.
  End Loops.

  (* An identity walk over a tree without links returns an equal tree, whatever the selector. *)
  Theorem walk_identity_link_free : forall fuel s here n log r,
    link_free n = true -> wt sq gsame st fuel s here n log = Ok r -> fst r = n.
  Proof.
    induction fuel as [|fu IH]; intros s here n log r Hn; [discriminate|].
    cbn [wt]. replace (if decide s then gsame n else None) with (@None dm) by (destruct (decide s); reflexivity).
    destruct n; try (intro E; inversion E; reflexivity).
    - destruct (wt_list sq st (wt sq gsame st fu) here s (interests sq s) 0 l _) as [x|e] eqn:EL; [|discriminate].
      cbn. intro E; inversion E; subst. cbn. f_equal.
      eapply wt_list_id; [|exact Hn|exact EL]. intros; eapply IH; eassumption.
    - destruct (wt_map sq st (wt sq gsame st fu) here s (interests sq s) m _) as [x|e] eqn:EL; [|discriminate].
      cbn. intro E; inversion E; subst. cbn. f_equal.
      eapply wt_map_id; [|exact Hn|exact EL]. intros; eapply IH; eassumption.
  Qed.
End WalkId.

(* the usual "match everything" selector: R(none, Union[Matcher, All(Edge)]) *)
Definition sel_all : sel := let sq := SUnion [SMatch; SAll SEdge] in SRec sq sq None.

(* Across a link the walk returns the loaded block in place of the link: not an equal tree, nothing stored. *)
Lemma walk_identity_inlines_links : forall sq,
  exists st root r, wt sq gsame st 20 sel_all [] root [] = Ok r /\ fst r <> root /\ fst r = inline 5 st root.
Proof.
  intros [[|] [|] [|]];
    (exists [([9%N], DList [DInt 1])], (DMap [([97%N], DLink [9%N])]); eexists;
     split; [vm_compute; reflexivity|]; split; [discriminate | reflexivity]).
Qed.

Example walk_identity_satisfiable :
  link_free (DMap [([97%N], DList [DInt 1; DInt 2])]) = true /\
  exists r, wt sq_new gsame [] 20 sel_all [] (DMap [([97%N], DList [DInt 1; DInt 2])]) [] = Ok r.
Proof. split; [reflexivity|]. eexists. vm_compute. reflexivity. Qed.
