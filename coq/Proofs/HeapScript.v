(* Proofs/HeapScript.v — the clients of coq/Heap/Script.v (dump, encode, walk, Copy, FocusedTransform,
   the value producers, one script step, the re-dump of all registers) do nothing to the heap but
   make API calls: each is a finite sequence of [xs] steps.  Hence, when the legality flag they carry
   is still true at the end, the state they reach is the state of a Legal history of API calls —
   and C11's theorems apply to everything the harness runs. *)
Require Import IP.Base.Bytes IP.DM.Value IP.Heap.GoMem IP.Heap.BasicHeap IP.Heap.Script.
Require Import IP.Proofs.HeapOps IP.Proofs.HeapC11.
From Coq Require Import List Arith Bool ZArith.
Import ListNotations.
Local Open Scope nat_scope.

Section Steps.
  Variable cf : cfg.

  Inductive Steps : X -> X -> Prop :=
  | st_refl : forall x, Steps x x
  | st_step : forall x p x' r x'', xs cf x p = (x', r) -> Steps x' x'' -> Steps x x''.

  Lemma steps_trans : forall a b c, Steps a b -> Steps b c -> Steps a c.
  Proof. induction 1; intros; [assumption | econstructor; eauto]. Qed.

  Lemma steps_xs : forall x p x' r, xs cf x p = (x', r) -> Steps x x'.
  Proof. intros; econstructor; [eassumption | constructor]. Qed.

  Lemma steps_xs' : forall x p, Steps x (fst (xs cf x p)).
  Proof. intros. destruct (xs cf x p) eqn:E. eapply steps_xs; eauto. Qed.

  (* a fold whose every iteration is a sequence of steps *)
  Lemma fold_steps : forall (A B : Type) (f : B -> A -> B) (proj : B -> X) l b0,
    (forall b a, Steps (proj b) (proj (f b a))) -> Steps (proj b0) (proj (fold_left f l b0)).
  Proof.
    induction l as [|a l IH]; cbn; intros b0 H; [constructor|].
    eapply steps_trans; [apply H | apply IH; assumption].
  Qed.

  (* what a sequence of steps means: a Legal history, when the flag survived *)
  Theorem steps_legal_history : forall x x', Steps x x' -> snd x' = true ->
    snd x = true /\ exists hs, legalh cf (fst x) hs = true /\ runh cf (fst x) hs = fst x'.
  Proof.
    induction 1 as [x | x p x' r x'' E S IH]; intros Hf.
    - split; [assumption|]. exists []. split; reflexivity.
    - destruct (IH Hf) as [Hf' (hs & Hl & Hr)]. unfold xs in E. destruct x as [ps lg].
      destruct (pstep cf ps p) as [ps' r'] eqn:Ep. inversion E; subst. cbn in *.
      apply andb_true_iff in Hf'. destruct Hf' as [-> Hleg]. split; [reflexivity|].
      exists (p :: hs). cbn. rewrite Ep. cbn. rewrite Hleg, Hl. split; [reflexivity | exact Hr].
  Qed.

  Ltac sx :=
    repeat match goal with
    | |- Steps ?x (fst (let '(_, _) := xs cf ?x ?p in _)) =>
        let x1 := fresh "x" in let r1 := fresh "r" in let E := fresh "E" in
        destruct (xs cf x p) as [x1 r1] eqn:E; eapply steps_trans; [eapply steps_xs; exact E|]
    | |- Steps ?x ?x => constructor
    end.

  Lemma lookup_kind_steps : forall x r a, Steps x (fst (lookup_kind cf x r a)).
  Proof. intros. unfold lookup_kind. destruct (xs cf x (PRead (HNode r) a)) eqn:E. cbn. eapply steps_xs; eauto. Qed.

  Lemma dump_steps : forall fuel x r, Steps x (fst (dump cf fuel x r)).
  Proof.
    induction fuel as [|f IH]; intros x r; cbn [dump]; [constructor|].
    destruct (nref_kind r); try (cbn; constructor);
      try (destruct (kind_skind _); [|cbn; constructor];
           match goal with |- context [xs cf x ?p] => destruct (xs cf x p) eqn:E end; cbn; eapply steps_xs; eauto).
    - (* bytes *)
      destruct (xs cf x (PRead (HNode r) ABytes)) as [x1 r1] eqn:E1.
      destruct (xs cf x1 (PRead (HNode r) ALarge)) as [x2 r2] eqn:E2.
      assert (Steps x x2) by (eapply steps_trans; eapply steps_xs; eauto).
      destruct r1 as [[| |[]]|]; cbn; assumption.
    - (* list *)
      destruct (xs cf x (PRead (HNode r) ALength)) as [x1 r1] eqn:E1.
      destruct (xs cf x1 (PRead (HNode r) AItems)) as [x2 r2] eqn:E2.
      assert (S12 : Steps x x2) by (eapply steps_trans; eapply steps_xs; eauto).
      destruct r1 as [[| |[]]|]; try (cbn; assumption).
      destruct r2 as [[| |[]]|]; try (cbn; assumption).
      match goal with |- context [fold_left ?f l (x2, [])] =>
        pose proof (fold_steps _ _ f fst l (x2, [])) as F1; destruct (fold_left f l (x2, [])) as [x3 ds] eqn:E3 end.
      match goal with |- context [fold_left ?f ?ll (x3, [])] =>
        pose proof (fold_steps _ _ f fst ll (x3, [])) as F2; destruct (fold_left f ll (x3, [])) as [x4 ks] eqn:E4 end.
      cbn in *. eapply steps_trans; [exact S12|]. eapply steps_trans; [apply F1 | apply F2].
      + intros [xa ds0] c. cbn. specialize (IH xa c). destruct (dump cf f xa c). exact IH.
      + intros [xa ks0] i. cbn. pose proof (lookup_kind_steps xa r (ALookupI (Z.of_nat i))) as L.
        destruct (lookup_kind cf xa r (ALookupI (Z.of_nat i))). exact L.
    - (* map *)
      destruct (xs cf x (PRead (HNode r) ALength)) as [x1 r1] eqn:E1.
      destruct (xs cf x1 (PRead (HNode r) AEntries)) as [x2 r2] eqn:E2.
      assert (S12 : Steps x x2) by (eapply steps_trans; eapply steps_xs; eauto).
      destruct r1 as [[| |[]]|]; try (cbn; assumption).
      destruct r2 as [[| |[]]|]; try (cbn; assumption).
      match goal with |- context [fold_left ?f l (x2, [])] =>
        pose proof (fold_steps _ _ f fst l (x2, [])) as F1; destruct (fold_left f l (x2, [])) as [x3 ds] eqn:E3 end.
      match goal with |- context [fold_left ?f l (x3, [])] =>
        pose proof (fold_steps _ _ f fst l (x3, [])) as F2; destruct (fold_left f l (x3, [])) as [x4 ks] eqn:E4 end.
      match goal with |- context [fold_left ?f probe_keys (x4, [])] =>
        pose proof (fold_steps _ _ f fst probe_keys (x4, [])) as F3; destruct (fold_left f probe_keys (x4, [])) as [x5 ps] eqn:E5 end.
      cbn in *. eapply steps_trans; [exact S12|]. eapply steps_trans; [apply F1 | eapply steps_trans; [apply F2 | apply F3]].
      + intros [xa ds0] c. cbn. specialize (IH xa (snd c)). destruct (dump cf f xa (snd c)). exact IH.
      + intros [xa ks0] kc. cbn. pose proof (lookup_kind_steps xa r (ALookupS (fst kc))) as L.
        destruct (lookup_kind cf xa r (ALookupS (fst kc))). exact L.
      + intros [xa ks0] k. cbn. pose proof (lookup_kind_steps xa r (ALookupS k)) as L.
        destruct (lookup_kind cf xa r (ALookupS k)). exact L.
  Qed.

  Lemma encread_steps : forall fuel x r, Steps x (fst (encread cf fuel x r)).
  Proof.
    induction fuel as [|f IH]; intros x r; cbn [encread]; [constructor|].
    destruct (nref_kind r); try (cbn; constructor);
      try (destruct (kind_skind _); [|cbn; constructor];
           match goal with |- context [xs cf x ?p] => destruct (xs cf x p) eqn:E end; cbn; eapply steps_xs; eauto).
    - destruct (xs cf x (PRead (HNode r) ABytes)) as [x1 r1] eqn:E1. cbn. eapply steps_xs; eauto.
    - destruct (xs cf x (PRead (HNode r) ALength)) as [x1 r1] eqn:E1.
      destruct (xs cf x1 (PRead (HNode r) AItems)) as [x2 r2] eqn:E2.
      assert (S12 : Steps x x2) by (eapply steps_trans; eapply steps_xs; eauto).
      destruct r2 as [[| |[]]|]; try (cbn; assumption).
      eapply steps_trans; [exact S12|].
      match goal with |- context [fold_left ?f l (x2, true)] => apply (fold_steps _ _ f fst l (x2, true)) end.
      intros [xa ok] c. cbn. specialize (IH xa c). destruct (encread cf f xa c). exact IH.
    - destruct (xs cf x (PRead (HNode r) ALength)) as [x1 r1] eqn:E1.
      destruct (xs cf x1 (PRead (HNode r) AEntries)) as [x2 r2] eqn:E2.
      assert (S12 : Steps x x2) by (eapply steps_trans; eapply steps_xs; eauto).
      destruct r2 as [[| |[]]|]; try (cbn; assumption).
      eapply steps_trans; [exact S12|].
      match goal with |- context [fold_left ?f ?ll (x2, true)] => apply (fold_steps _ _ f fst ll (x2, true)) end.
      intros [xa ok] c. cbn. specialize (IH xa (snd c)). destruct (encread cf f xa (snd c)). exact IH.
  Qed.

  Lemma count_steps : forall fuel x r, Steps x (fst (count cf fuel x r)).
  Proof.
    induction fuel as [|f IH]; intros x r; cbn [count]; [constructor|].
    destruct (nref_kind r); try (cbn; constructor).
    - destruct (xs cf x (PRead (HNode r) AItems)) as [x2 r2] eqn:E2.
      assert (S12 : Steps x x2) by (eapply steps_xs; eauto).
      destruct r2 as [[| |[]]|]; try (cbn; assumption).
      eapply steps_trans; [exact S12|].
      match goal with |- context [fold_left ?f l (x2, 1)] => apply (fold_steps _ _ f fst l (x2, 1)) end.
      intros [xa n] c. cbn. specialize (IH xa c). destruct (count cf f xa c). exact IH.
    - destruct (xs cf x (PRead (HNode r) AEntries)) as [x2 r2] eqn:E2.
      assert (S12 : Steps x x2) by (eapply steps_xs; eauto).
      destruct r2 as [[| |[]]|]; try (cbn; assumption).
      eapply steps_trans; [exact S12|].
      match goal with |- context [fold_left ?f l (x2, 1)] => apply (fold_steps _ _ f fst l (x2, 1)) end.
      intros [xa n] c. cbn. specialize (IH xa (snd c)). destruct (count cf f xa (snd c)). exact IH.
  Qed.

  Lemma xh_steps : forall x p, Steps x (fst (fst (xh cf x p))).
  Proof. intros. unfold xh. destruct (xs cf x p) eqn:E. cbn. eapply steps_xs; eauto. Qed.

  (* destructure the next [xh] / [xs] call of the goal and account for it *)
  Ltac nx :=
    cbn [fst];
    match goal with
    | |- Steps ?x ?x => constructor
    | |- Steps ?x (fst (if ?b then _ else _)) => destruct b
    | |- Steps ?x (fst (fst (if ?b then _ else _))) => destruct b
    | |- Steps ?x (fst (fst (fst (if ?b then _ else _)))) => destruct b
    | |- Steps ?x (fst ?t) =>
        match t with
        | context [xh cf x ?p] =>
            let x1 := fresh "x" in let o1 := fresh "o" in let h1 := fresh "h" in let E := fresh "E" in
            pose proof (xh_steps x p) as E; destruct (xh cf x p) as [[x1 o1] h1]; cbn [fst] in E;
            eapply steps_trans; [exact E|]; clear E
        | context [xs cf x ?p] =>
            let x1 := fresh "x" in let r1 := fresh "r" in let E := fresh "E" in
            pose proof (steps_xs' x p) as E; destruct (xs cf x p) as [x1 r1]; cbn [fst] in E;
            eapply steps_trans; [exact E|]; clear E
        end
    end.

  (* the element loops of [assemble], by name *)
  Definition golist (la : handle) : X -> list dm -> X * sobs :=
    fix go (x : X) (l : list dm) {struct l} : X * sobs :=
      match l with
      | [] => (x, OOk)
      | c :: rest =>
          let '(xa, oa, va) := xh cf x (PAssembleValue la) in
          if negb (is_ok oa) then (xa, oa) else
          let '(xb, ob) := assemble cf xa va c in
          if negb (is_ok ob) then (xb, ob) else go xb rest
      end.
  Definition gomap (ma : handle) : X -> list (bytes * dm) -> X * sobs :=
    fix go (x : X) (m : list (bytes * dm)) {struct m} : X * sobs :=
      match m with
      | [] => (x, OOk)
      | (k, c) :: rest =>
          let '(xa, oa, va) := xh cf x (PAssembleEntry ma k) in
          if negb (is_ok oa) then (xa, oa) else
          let '(xb, ob) := assemble cf xa va c in
          if negb (is_ok ob) then (xb, ob) else go xb rest
      end.

  Lemma assemble_list_eq : forall x h l, assemble cf x h (DList l) =
    let '(x1, o1, la) := xh cf x (PBeginList h (length l)) in
    if negb (is_ok o1) then (x1, o1) else
    let '(x2, o2) := golist la x1 l in
    if negb (is_ok o2) then (x2, o2) else
    let '(x3, r) := xs cf x2 (PFinish la) in (x3, res_obs r).
  Proof. reflexivity. Qed.

  Lemma assemble_map_eq : forall x h m, assemble cf x h (DMap m) =
    let '(x1, o1, ma) := xh cf x (PBeginMap h (length m)) in
    if negb (is_ok o1) then (x1, o1) else
    let '(x2, o2) := gomap ma x1 m in
    if negb (is_ok o2) then (x2, o2) else
    let '(x3, r) := xs cf x2 (PFinish ma) in (x3, res_obs r).
  Proof. reflexivity. Qed.

  Lemma assemble_steps : forall d x h, Steps x (fst (assemble cf x h d)).
  Proof.
    induction d using dm_ind2; intros x h; try (cbn [assemble]; repeat nx; fail).
    - (* list *)
      rewrite assemble_list_eq. nx. nx; [nx|].
      assert (G : forall l', Forall (fun d => forall x h, Steps x (fst (assemble cf x h d))) l' ->
                  forall x1, Steps x1 (fst (golist h0 x1 l'))).
      { induction 1 as [|c rest Hc Hrest IHr]; intros x1; [cbn; constructor|].
        cbn [golist]. nx. nx; [nx|].
        pose proof (Hc x2 h1) as Ec. destruct (assemble cf x2 h1 c) as [xb ob]. cbn [fst] in Ec.
        eapply steps_trans; [exact Ec|]. destruct (negb (is_ok ob)); [cbn [fst]; constructor | apply IHr]. }
      specialize (G l H x0). destruct (golist h0 x0 l) as [x2 o2]. cbn [fst] in G.
      eapply steps_trans; [exact G|]. repeat nx.
    - (* map *)
      rewrite assemble_map_eq. nx. nx; [nx|].
      assert (G : forall m', Forall (fun kv => forall x h, Steps x (fst (assemble cf x h (snd kv)))) m' ->
                  forall x1, Steps x1 (fst (gomap h0 x1 m'))).
      { induction 1 as [|[k c] rest Hc Hrest IHr]; intros x1; [cbn; constructor|].
        cbn [gomap]. nx. nx; [nx|].
        pose proof (Hc x2 h1) as Ec. cbn [snd] in Ec. destruct (assemble cf x2 h1 c) as [xb ob]. cbn [fst] in Ec.
        eapply steps_trans; [exact Ec|]. destruct (negb (is_ok ob)); [cbn [fst]; constructor | apply IHr]. }
      specialize (G m H x0). destruct (gomap h0 x0 m) as [x2 o2]. cbn [fst] in G.
      eapply steps_trans; [exact G|]. repeat nx.
  Qed.
  Lemma build_of_steps : forall x b, Steps x (fst (fst (build_of cf x b))).
  Proof. intros. unfold build_of. pose proof (xh_steps x (PBuild b)) as E. destruct (xh cf x (PBuild b)) as [[x1 o] n]. exact E. Qed.

  Lemma make_steps : forall x d, Steps x (fst (fst (make cf x d))).
  Proof.
    intros. unfold make.
    pose proof (xh_steps x (PNewBuilder PrAny)) as E. destruct (xh cf x (PNewBuilder PrAny)) as [[x1 o1] b]. cbn [fst] in E.
    eapply steps_trans; [exact E|].
    pose proof (assemble_steps d x1 b) as A. destruct (assemble cf x1 b d) as [x2 o]. cbn [fst] in A.
    eapply steps_trans; [exact A|]. destruct (negb (is_ok o)); [cbn; constructor | apply build_of_steps].
  Qed.

  Ltac fold1 pr :=
    match goal with
    | |- Steps ?x (fst (let '(_, _) := fold_left ?f ?l ?b0 in _)) =>
        let F := fresh "F" in
        assert (F : Steps (pr b0) (pr (fold_left f l b0))); [apply (fold_steps _ _ f pr l b0) | ]
    end.

  Lemma copy_into_steps : forall x r h, Steps x (fst (copy_into cf x r h)).
  Proof.
    intros x r h. unfold copy_into.
    destruct (nref_kind r); try (repeat nx; fail);
      try (destruct (kind_skind _); [|repeat nx]; nx; destruct r0 as [[| |[]]|]; repeat nx).
    - (* bytes *)
      nx. destruct r0 as [[| |[| | | | | | |b [sl|]]]|]; repeat nx.
    - (* list *)
      nx. destruct r0 as [[| |[]]|]; try (repeat nx; fail). nx. nx; [nx|]. nx.
      destruct r0 as [[| |[]]|]; try (repeat nx; fail).
      match goal with |- context [fold_left ?f l (x2, OOk)] =>
        pose proof (fold_steps _ _ f fst l (x2, OOk)) as F; destruct (fold_left f l (x2, OOk)) as [x4 o4] end.
      cbn [fst] in F. eapply steps_trans; [apply F|]; [|repeat nx].
      intros [xa oa] c. cbn [fst]. destruct (negb (is_ok oa)); [constructor|]. repeat nx.
    - (* map *)
      nx. destruct r0 as [[| |[]]|]; try (repeat nx; fail). nx. nx; [nx|]. nx.
      destruct r0 as [[| |[]]|]; try (repeat nx; fail).
      match goal with |- context [fold_left ?f l (x2, OOk)] =>
        pose proof (fold_steps _ _ f fst l (x2, OOk)) as F; destruct (fold_left f l (x2, OOk)) as [x4 o4] end.
      cbn [fst] in F. eapply steps_trans; [apply F|]; [|repeat nx].
      intros [xa oa] c. cbn [fst]. destruct (negb (is_ok oa)); [constructor|]. repeat nx.
  Qed.

  Lemma copy_steps : forall x r p, Steps x (fst (fst (copy cf x r p))).
  Proof.
    intros. unfold copy.
    pose proof (xh_steps x (PNewBuilder p)) as E. destruct (xh cf x (PNewBuilder p)) as [[x1 o1] b]. cbn [fst] in E.
    eapply steps_trans; [exact E|].
    pose proof (copy_into_steps x1 r b) as A. destruct (copy_into cf x1 r b) as [x2 o]. cbn [fst] in A.
    eapply steps_trans; [exact A|]. destruct (negb (is_ok o)); [cbn; constructor | apply build_of_steps].
  Qed.
  Ltac nf IH :=
    match goal with
    | |- context [ftrans cf ?f ?xx ?nn ?hh ?pp ?rr] =>
        let E := fresh "E" in
        pose proof (IH xx nn hh pp rr) as E; destruct (ftrans cf f xx nn hh pp rr) as [? ?]; cbn [fst] in E;
        eapply steps_trans; [exact E|]; clear E
    end.

  Lemma ftrans_steps : forall fuel x n na p repl, Steps x (fst (ftrans cf fuel x n na p repl)).
  Proof.
    induction fuel as [|f IH]; intros x n na p repl; cbn [ftrans]; [constructor|].
    destruct p as [|sg p2]; [repeat nx|].
    destruct n as [r|].
    2:{ nx. nx; [nx|]. nx. nx; [nx|]. nx. nx; [nx|]. nx. nx; [nx|]. nf IH. repeat nx. }
    destruct (nref_kind r); try (cbn; constructor).
    - (* list *)
      nx. destruct r0 as [[| |[]]|]; try (repeat nx; fail). nx. nx; [nx|].
      destruct sg as [k|ti]; [nx|]. nx.
      destruct r0 as [[| |[]]|]; try (repeat nx; fail).
      match goal with |- context [fold_left ?ff l (?x2, OOk, false, 0)] =>
        pose proof (fold_steps _ _ ff (fun acc => fst (fst (fst acc))) l (x2, OOk, false, 0)) as F;
        destruct (fold_left ff l (x2, OOk, false, 0)) as [[[x4 o4] replaced] idx] end.
      cbn [fst] in F. eapply steps_trans; [apply F|]; [|repeat nx].
      intros [[[xa oa] rep] i] c. cbn [fst]. destruct (negb (is_ok oa)); [constructor|].
      nx. nx; [nx|]. destruct (i =? ti); [|repeat nx]. nf IH. repeat nx.
    - (* map *)
      nx. destruct r0 as [[| |[]]|]; try (repeat nx; fail). nx. nx; [nx|].
      match goal with |- context [xs cf (match p2 with [] => ?a | _ :: _ => ?b end) ?pp] =>
        assert (S2 : Steps b (match p2 with [] => a | _ :: _ => b end))
          by (destruct p2; [apply steps_xs' | constructor]);
        generalize dependent (match p2 with [] => a | _ :: _ => b end) end.
      intros x2' S2. eapply steps_trans; [exact S2|]. nx.
      destruct r0 as [[| |[]]|]; try (repeat nx; fail).
      match goal with |- context [fold_left ?ff l (?x2, OOk, false)] =>
        pose proof (fold_steps _ _ ff (fun acc => fst (fst acc)) l (x2, OOk, false)) as F;
        destruct (fold_left ff l (x2, OOk, false)) as [[x4 o4] replaced] end.
      cbn [fst] in F. eapply steps_trans; [apply F|].
      + intros [[xa oa] rep] kc. cbn [fst]. destruct (negb (is_ok oa)); [constructor|].
        nx. nx; [nx|]. nx. nx; [nx|]. nx. nx; [nx|].
        destruct (bytes_eqb (fst kc) (seg_string sg)); [|repeat nx].
        destruct p2; [repeat nx|]. nf IH. repeat nx.
      + nx; [nx|]. destruct replaced; [repeat nx|]. destruct p2; [|cbn; constructor].
        nx. nx; [nx|]. nx. nx; [nx|]. nx. nx; [nx|]. nf IH. repeat nx.
  Qed.

  (* from here on the recursive clients are used through their lemmas only: never unfold them on
     their (large, literal) fuel *)
  Arguments ftrans : simpl never.
  Arguments dump : simpl never.
  Arguments encread : simpl never.
  Arguments count : simpl never.
  Arguments assemble : simpl never.
  Arguments copy_into : simpl never.

  Lemma transform_steps : forall x r p repl, Steps x (fst (fst (transform cf x r p repl))).
  Proof.
    intros. unfold transform.
    destruct r; try (cbn [fst]; constructor); (nx; nf (ftrans_steps 64); nx; [nx | apply build_of_steps]).
  Qed.

  (* ---------------------------------------------------------------- script steps *)

  Lemma sstep_steps : forall st o, Steps (sx st) (sx (fst (sstep cf st o))).
  Proof.
    intros st o. unfold sstep.
    assert (P1 : forall p, Steps (sx st) (sx (fst (let '(x1, ob, h) := xh cf (sx st) p in
                                                  (push x1 st (if is_ok ob then h else HNone), ob))))).
    { intros p. pose proof (xh_steps (sx st) p) as E. destruct (xh cf (sx st) p) as [[x1 ob] h]. exact E. }
    destruct o; try apply P1;
      try (destruct (match reg st n with HNode r => Some r | _ => None end) as [r|] eqn:En; [|cbn [fst sx push]; constructor]).
    - pose proof (make_steps (sx st) d) as E. destruct (make cf (sx st) d) as [[x1 ob] h]. exact E.
    - pose proof (copy_steps (sx st) r p) as E. destruct (copy cf (sx st) r p) as [[x1 ob] h]. exact E.
    - pose proof (steps_xs' (sx st) (PRead (HNode r) (ALookupS k))) as E.
      destruct (xs cf (sx st) (PRead (HNode r) (ALookupS k))) as [x1 res]. exact E.
    - pose proof (steps_xs' (sx st) (PRead (HNode r) (ALookupI i))) as E.
      destruct (xs cf (sx st) (PRead (HNode r) (ALookupI i))) as [x1 res]. exact E.
    - pose proof (xh_steps (sx st) (PMatchSubset (HNode r) from to)) as E.
      destruct (xh cf (sx st) (PMatchSubset (HNode r) from to)) as [[x1 ob] h]. exact E.
    - destruct (match reg st repl with HNode r0 => Some r0 | _ => None end) as [rr|]; [|cbn [fst sx push]; constructor].
      pose proof (transform_steps (sx st) r p rr) as E. destruct (transform cf (sx st) r p rr) as [[x1 ob] h]. exact E.
    - pose proof (encread_steps dump_fuel (sx st) r) as E. destruct (encread cf dump_fuel (sx st) r) as [x1 ok]. exact E.
    - pose proof (count_steps dump_fuel (sx st) r) as E. destruct (count cf dump_fuel (sx st) r) as [x1 c]. exact E.
    - pose proof (steps_xs' (sx st) (PReaderRead (reg st r) k)) as E.
      destruct (xs cf (sx st) (PReaderRead (reg st r) k)) as [x1 res]. exact E.
    - pose proof (steps_xs' (sx st) (PReaderSeek (reg st r) off wh)) as E.
      destruct (xs cf (sx st) (PReaderSeek (reg st r) off wh)) as [x1 res]. exact E.
  Qed.

  Lemma redump_steps : forall st, Steps (sx st) (sx (fst (redump cf st))).
  Proof.
    intros st. unfold redump.
    match goal with |- context [fold_left ?f (sregs st) (sx st, [], 0)] =>
      pose proof (fold_steps _ _ f (fun acc => fst (fst acc)) (sregs st) (sx st, [], 0)) as F;
      destruct (fold_left f (sregs st) (sx st, [], 0)) as [[x out] i] end.
    cbn [fst sx] in *. apply F. intros [[xa outa] ia] h. cbn [fst].
    destruct h; try constructor.
    pose proof (dump_steps dump_fuel xa r) as E1. destruct (dump cf dump_fuel xa r) as [x1 d1]. cbn [fst] in E1.
    pose proof (dump_steps dump_fuel x1 r) as E2. destruct (dump cf dump_fuel x1 r) as [x2 d2]. cbn [fst] in E2.
    cbn [fst]. eapply steps_trans; eauto.
  Qed.

  Lemma sstep_full_steps : forall st o, Steps (sx st) (sx (fst (fst (sstep_full cf st o)))).
  Proof.
    intros st o. unfold sstep_full.
    pose proof (sstep_steps st o) as E1. destruct (sstep cf st o) as [st1 ob]. cbn [fst] in E1.
    pose proof (redump_steps st1) as E2. destruct (redump cf st1) as [st2 ds]. cbn [fst] in *.
    eapply steps_trans; eauto.
  Qed.

  Fixpoint run_script (st : sstate) (os : list sop) : sstate :=
    match os with [] => st | o :: r => run_script (fst (fst (sstep_full cf st o))) r end.

  Lemma run_script_steps : forall os st, Steps (sx st) (sx (run_script st os)).
  Proof.
    induction os as [|o os IH]; intros st; cbn; [constructor|].
    eapply steps_trans; [apply sstep_full_steps | apply IH].
  Qed.

  (* Everything the C11 harness does — every script, with the re-dump of every register after every
     step — is, while its legality flag is true, a Legal history of API calls from the empty heap. *)
  Theorem script_is_legal_history : forall os,
    slegal (run_script sinit os) = true ->
    exists hs, legalh cf pinit hs = true /\ runh cf pinit hs = fst (sx (run_script sinit os)).
  Proof.
    intros os Hl. destruct (steps_legal_history _ _ (run_script_steps os sinit) Hl) as [_ H]. exact H.
  Qed.
  Lemma run_script_app : forall os1 os2 st, run_script st (os1 ++ os2) = run_script (run_script st os1) os2.
  Proof. induction os1; cbn; intros; auto. Qed.

  Lemma legalh_app_intro : forall hs1 hs2 ps, legalh cf ps hs1 = true -> legalh cf (runh cf ps hs1) hs2 = true ->
    legalh cf ps (hs1 ++ hs2) = true.
  Proof.
    induction hs1; cbn; intros hs2 ps H1 H2; [assumption|].
    apply andb_true_iff in H1. destruct H1 as [Ha Hb]. rewrite Ha. cbn. apply IHhs1; assumption.
  Qed.

  (* C11 for what the harness runs: a node register read after a prefix of a script reads the same
     after the whole script, re-dumps included *)
  Theorem script_stable : forall os1 os2,
    slegal (run_script sinit (os1 ++ os2)) = true ->
    forall r, known_b (kn (fst (sx (run_script sinit os1)))) (HNode r) = true ->
    forall a, cf_stream_shared cf = false \/ stream_acc r a = false ->
    read_obs cf (fst (sx (run_script sinit os1))) r a = read_obs cf (fst (sx (run_script sinit (os1 ++ os2)))) r a.
  Proof.
    intros os1 os2 Hl r Hk a Hs. rewrite run_script_app in *.
    destruct (steps_legal_history _ _ (run_script_steps os2 (run_script sinit os1)) Hl) as [Hl1 (hs2 & L2 & R2)].
    destruct (steps_legal_history _ _ (run_script_steps os1 sinit) Hl1) as [_ (hs1 & L1 & R1)].
    cbn [fst sx sinit] in *. rewrite <- R2, <- R1 in *. rewrite <- runh_app.
    apply stable_gen; [|assumption|assumption]. apply legalh_app_intro; assumption.
  Qed.
End Steps.
