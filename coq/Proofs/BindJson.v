(* Proofs/BindJson.v — Marshal / Unmarshal through the concrete DAG-JSON model (Codec/DagJson.v):
   the instance of BindCbor.v's generic lemma for the codec facts of Proofs/JsonPerm.v.
   The strconv float text (A1, A2) and the CID text round trip (CID) remain hypotheses. *)
Require Import IP.Base.Bytes IP.DM.Value IP.Bind.GoVal IP.Bind.Bind IP.Bind.Spec.
Require Import IP.Proofs.BindFacts IP.Proofs.BindView IP.Proofs.BindAsm IP.Proofs.BindFits IP.Proofs.BindRefute
  IP.Proofs.BindPerm IP.Proofs.BindCbor.
Require Import IP.Codec.DagJson IP.Proofs.CborEnc IP.Proofs.JsonEnc IP.Proofs.JsonMain IP.Proofs.JsonPerm.
Open Scope N_scope.

Definition json_bdec parse_float cid_parse : bytes -> bres dm := json_dec parse_float cid_parse XOther.

(* Marshal with dag-json, Unmarshal the text with dag-json into a fresh value: no premise about the codec is
   left except A1, A2, CID and that the representation is in dag-json's domain (json_within: finite floats
   none of which is an integer below 1e21, valid UTF-8 strings and keys, int64 ints, defined CIDs, distinct
   keys and no reserved shape inside Any content, depth <= 1024) *)
Theorem marshal_roundtrip_dagjson : forall fmt_float parse_float cid_str cid_parse cid_ok,
  A1 fmt_float parse_float -> A2 fmt_float -> CID cid_str cid_parse cid_ok ->
  forall q n32 t s g,
  is_any t = false -> bindable t s = true -> gv_ok q n32 t s g = true ->
  json_within cid_ok (denote LRepr t g) ->
  exists b g',
    marshal q (json_enc fmt_float cid_str) t s g = Ok b /\
    unmarshal q n32 (json_bdec parse_float cid_parse) t s b = Ok g' /\
    gv_ok q n32 t s g' = true /\
    perm_eq (denote LRepr t g) (denote LRepr t g') /\
    marshal q (json_enc fmt_float cid_str) t s g' = Ok b.
Proof.
  intros fmt_float parse_float cid_str cid_parse cid_ok H1 H2 H3 q n32 t s g Hany Hb Hg Hw.
  apply (marshal_remarshal_perm q n32 (json_enc fmt_float cid_str) (json_bdec parse_float cid_parse) (json_within cid_ok)
           (fun d Hd => json_codec_perm fmt_float parse_float cid_str cid_parse cid_ok H1 H2 H3 XOther d Hd)
           (json_enc_perm fmt_float cid_str) t s g Hany Hb Hg Hw).
  exact (json_safe_keys_nodup _ _ _ (proj1 Hw)).
Qed.

(* ---- non-vacuity: the ordered map {String:Int} of BindCbor.v, Keys not in bytewise order *)
Example dagjson_hyps_sat : forall q n32 cid_ok,
  is_any t_msi = false /\ bindable t_msi s_msi = true /\ gv_ok q n32 t_msi s_msi g_msi = true /\
  json_within cid_ok (denote LRepr t_msi g_msi).
Proof.
  intros. repeat split; try reflexivity; try (vm_compute; congruence).
Qed.

(* the round trip really reorders: text {"a":2,"b":1}; the fresh value has Keys [a; b] and the same entries *)
Example dagjson_roundtrip_reorders :
  let b := json_enc (fun _ => []) (fun c => c) (denote LRepr t_msi g_msi) in
  b = [123; 34; 97; 34; 58; 50; 44; 34; 98; 34; 58; 49; 125] /\
  unmarshal pinned (fun x => x) (json_bdec (fun _ => None) (fun _ => None)) t_msi s_msi b
  = Ok (GStruct [GSlice [GString [97]; GString [98]]; GGoMap [(GString [97], GInt 2); (GString [98], GInt 1)]]).
Proof. split; vm_compute; reflexivity. Qed.
