(* Proofs/CborEnc.v — facts about the encoder model: a pure closed form [encb], the length law
   (EncodedLength = produced length), and independence of map insertion order. *)
Require Import IP.Base.Bytes IP.DM.Value IP.Codec.Cid IP.Codec.Cbor IP.Gen.FromGo IP.Proofs.BytesFacts.
From Coq Require Import ZifyN ZifyNat ZifyBool Permutation Sorted.
Ltac Zify.zify_post_hook ::= Z.div_mod_to_equations.
Open Scope N_scope.

(* ------------------------------------------------------------ pure closed form of the encoder *)

Definition enc_entry (body : bytes * bytes) : bytes := enc_str (fst body) ++ snd body.

Fixpoint encb (m : sortmode) (v : dm) : bytes :=
  match v with
  | DNull => [246]
  | DBool false => [244]
  | DBool true => [245]
  | DInt z => enc_int z
  | DFloat f => 251 :: be 8 f
  | DString s => enc_str s
  | DBytes s => head 2 (lenN s) ++ s
  | DLink c => enc_link c
  | DList l => head 4 (lenN l) ++ concat (map (encb m) l)
  | DMap es =>
      head 5 (lenN es) ++
      concat (map enc_entry (sort_entries m (map (fun kv => (fst kv, encb m (snd kv))) es)))
  end.

Lemma enc_ok o v : e_allow_links o = true -> enc o v = Ok (encb (e_sort o) v).
Proof.
  intros Hl. induction v as [| b | z | f | s | s | c | l IH | es IH] using dm_ind2; cbn [enc encb]; try reflexivity.
  - destruct b; reflexivity.
  - now rewrite Hl.
  - assert (E : (fix go (l : list dm) : res eerr bytes :=
                   match l with
                   | [] => Ok []
                   | x :: r => do a <- enc o x; do b <- go r; Ok (a ++ b)
                   end) l = Ok (concat (map (encb (e_sort o)) l))).
    { induction IH as [|x r Hx _ IHr]; [reflexivity|]. cbn [map concat]. rewrite Hx, IHr. reflexivity. }
    rewrite E. reflexivity.
  - assert (E : (fix go (m : list (bytes * dm)) : res eerr (list (bytes * bytes)) :=
                   match m with
                   | [] => Ok []
                   | (k, x) :: r => do a <- enc o x; do b <- go r; Ok ((k, a) :: b)
                   end) es = Ok (map (fun kv => (fst kv, encb (e_sort o) (snd kv))) es)).
    { induction IH as [|[k x] r Hx _ IHr]; [reflexivity|]. cbn [map fst snd] in *. rewrite Hx, IHr. reflexivity. }
    rewrite E. reflexivity.
Qed.

Lemma enc_nolinks_err o c : e_allow_links o = false -> enc o (DLink c) = Err EELink.
Proof. intros H. cbn. now rewrite H. Qed.

(* sorting only looks at keys, so it commutes with a map over the values *)
Lemma insert_map_snd {A B} ltb (g : A -> B) kv (l : list (bytes * A)) :
  insert_kv ltb (fst kv, g (snd kv)) (map (fun e => (fst e, g (snd e))) l) =
  map (fun e => (fst e, g (snd e))) (insert_kv ltb kv l).
Proof.
  induction l as [|x r IH]; cbn; [reflexivity|].
  destruct (ltb (fst x) (fst kv)); cbn; [now rewrite IH|reflexivity].
Qed.

Lemma sort_map_snd {A B} ltb (g : A -> B) (l : list (bytes * A)) :
  sort_kv ltb (map (fun e => (fst e, g (snd e))) l) = map (fun e => (fst e, g (snd e))) (sort_kv ltb l).
Proof.
  induction l as [|x r IH]; cbn; [reflexivity|]. rewrite IH. apply insert_map_snd.
Qed.

Lemma sort_entries_map_snd {A B} m (g : A -> B) (l : list (bytes * A)) :
  sort_entries m (map (fun e => (fst e, g (snd e))) l) = map (fun e => (fst e, g (snd e))) (sort_entries m l).
Proof. destruct m; cbn; [reflexivity| |]; apply sort_map_snd. Qed.

Lemma encb_map m es :
  encb m (DMap es) =
  head 5 (lenN es) ++ concat (map (fun kv => enc_str (fst kv) ++ encb m (snd kv)) (sort_entries m es)).
Proof.
  cbn [encb]. f_equal. rewrite sort_entries_map_snd, map_map. reflexivity.
Qed.

(* ------------------------------------------------------------ head facts *)

Lemma head_length mj a : length (head mj a) =
  if a <? 24 then 1%nat else if a <? 256 then 2%nat else if a <? 65536 then 3%nat
  else if a <? 4294967296 then 5%nat else 9%nat.
Proof.
  unfold head.
  destruct (a <? 24); [reflexivity|]. destruct (a <? 256); [reflexivity|].
  destruct (a <? 65536); [cbn [length]; now rewrite be_length|].
  destruct (a <? 4294967296); cbn [length]; now rewrite be_length.
Qed.

Lemma uint_length_head mj a : uint_length a = Z.of_nat (length (head mj a)).
Proof.
  rewrite head_length. unfold uint_length, go_uintLength.
  destruct (N.ltb_spec a 24); destruct (Z.ltb_spec (Z.of_N a) 24); try lia.
  destruct (N.ltb_spec a 256); destruct (Z.ltb_spec (Z.of_N a) 256); try lia.
  destruct (N.ltb_spec a 65536); destruct (Z.ltb_spec (Z.of_N a) 65536); try lia.
  destruct (N.ltb_spec a 4294967296); destruct (Z.ltb_spec (Z.of_N a) 4294967296); try lia.
  destruct (Z.ltb_spec (Z.of_N a) 0); lia.
Qed.

(* ------------------------------------------------------------ the length law *)

Definition zlen (bs : bytes) : Z := Z.of_nat (length bs).

(* ints must be in the range a node can hold: [-2^63, 2^64) *)
Fixpoint int_ok (v : dm) : Prop :=
  match v with
  | DInt z => (- two63z <= z < two64z)%Z
  | DList l => (fix all (l : list dm) := match l with [] => True | x :: r => int_ok x /\ all r end) l
  | DMap m => (fix all (m : list (bytes * dm)) := match m with [] => True | (_, x) :: r => int_ok x /\ all r end) m
  | _ => True
  end.

Lemma int_ok_list l : int_ok (DList l) <-> Forall int_ok l.
Proof.
  cbn [int_ok]. induction l as [|x r IH]; [split; constructor|].
  rewrite IH. split; [intros [? ?]; now constructor|intros H; inversion H; auto].
Qed.
Lemma int_ok_map m : int_ok (DMap m) <-> Forall (fun kv => int_ok (snd kv)) m.
Proof.
  cbn [int_ok]. induction m as [|[k x] r IH]; [split; constructor|].
  rewrite IH. split; [intros [? ?]; now constructor|intros H; inversion H; auto].
Qed.

Lemma zlen_app a b : zlen (a ++ b) = (zlen a + zlen b)%Z.
Proof. unfold zlen. rewrite app_length. lia. Qed.

Lemma zlen_lenN (s : bytes) : Z.of_N (lenN s) = zlen s.
Proof. unfold zlen, lenN. lia. Qed.

(* the sum of entry lengths does not depend on the order of the entries *)
Lemma zlen_concat_perm (l1 l2 : list bytes) : Permutation l1 l2 -> zlen (concat l1) = zlen (concat l2).
Proof.
  induction 1; cbn [concat]; rewrite ?zlen_app; try lia.
Qed.

Lemma sort_entries_perm {V} m (l : list (bytes * V)) : Permutation l (sort_entries m l).
Proof. destruct m; cbn; [reflexivity| |]; apply sort_perm. Qed.

Theorem enc_len_correct m v : int_ok v -> enc_len true v = Ok (zlen (encb m v)).
Proof.
  induction v as [| b | z | f | s | s | c | l IH | es IH] using dm_ind2; intros Hok; cbn [enc_len encb].
  - reflexivity.
  - destruct b; reflexivity.
  - cbn [int_ok] in Hok. unfold enc_int, two63z, two64z in *.
    destruct (Z.leb_spec 9223372036854775808 z).
    + destruct (Z.leb_spec 0 z); [|lia]. now rewrite (uint_length_head 0).
    + destruct (Z.ltb_spec z 0); destruct (Z.leb_spec 0 z); try lia.
      * rewrite (uint_length_head 1). replace (- z - 1)%Z with (-1 - z)%Z by lia. reflexivity.
      * now rewrite (uint_length_head 0).
  - unfold zlen. cbn [length]. now rewrite be_length.
  - unfold enc_str. rewrite zlen_app, (uint_length_head 3), zlen_lenN. reflexivity.
  - rewrite zlen_app, (uint_length_head 2), zlen_lenN. reflexivity.
  - unfold enc_link. rewrite !zlen_app.
    replace (Z.to_N (Z.of_N (lenN c) + 1)) with (lenN c + 1) by lia.
    rewrite (uint_length_head 2).
    assert (Hh : zlen (head 6 go_linkTag) = 2%Z) by reflexivity. rewrite Hh.
    unfold zlen, lenN. cbn [length]. f_equal. lia.
  - apply int_ok_list in Hok.
    assert (G : forall acc, (fix go (l : list dm) (acc : Z) : res lerr Z :=
                   match l with
                   | [] => Ok acc
                   | x :: r => do a <- enc_len true x; go r (acc + a)%Z
                   end) l acc = Ok (acc + zlen (concat (map (encb m) l)))%Z).
    { induction IH as [|x r Hx _ IHr]; intros acc; cbn [map concat].
      - unfold zlen. cbn. f_equal. lia.
      - inversion Hok as [|? ? Hx' Hr']; subst. rewrite (Hx Hx'). cbn [bind].
        rewrite (IHr Hr'), zlen_app. f_equal. lia. }
    rewrite G, zlen_app, (uint_length_head 4). reflexivity.
  - apply int_ok_map in Hok.
    assert (G : forall acc, (fix go (m0 : list (bytes * dm)) (acc : Z) : res lerr Z :=
                   match m0 with
                   | [] => Ok acc
                   | (k, x) :: r =>
                       let kl := (uint_length (lenN k) + Z.of_N (lenN k))%Z in
                       do a <- enc_len true x; go r (acc + kl + a)%Z
                   end) es acc =
               Ok (acc + zlen (concat (map enc_entry (map (fun kv => (fst kv, encb m (snd kv))) es))))%Z).
    { induction IH as [|[k x] r Hx _ IHr]; intros acc; cbn [map concat fst snd] in *.
      - unfold zlen. cbn. f_equal. lia.
      - inversion Hok as [|? ? Hx' Hr']; subst. cbn [snd] in Hx'. rewrite (Hx Hx'). cbn [bind].
        rewrite (IHr Hr'), (uint_length_head 3). f_equal.
        change (enc_entry (k, encb m x)) with ((head 3 (lenN k) ++ k) ++ encb m x).
        unfold zlen, lenN. rewrite !app_length. lia. }
    rewrite G, zlen_app, (uint_length_head 5). do 2 f_equal.
    apply zlen_concat_perm, Permutation_map, sort_entries_perm.
Qed.

(* ------------------------------------------------------------ order independence *)

Definition mode_ltb (m : sortmode) : bytes -> bytes -> bool :=
  match m with SortLexical => bytes_ltb | _ => rfc_ltb end.

(* two values are the same up to the order of map entries (at every level) *)
Inductive perm_eq : dm -> dm -> Prop :=
| pe_refl v : perm_eq v v
| pe_list l1 l2 : Forall2 perm_eq l1 l2 -> perm_eq (DList l1) (DList l2)
| pe_map m1 m2 m2' :
    Forall2 (fun a b => fst a = fst b /\ perm_eq (snd a) (snd b)) m1 m2 ->
    Permutation m2 m2' -> perm_eq (DMap m1) (DMap m2').

Fixpoint keys_nodup (v : dm) : Prop :=
  match v with
  | DList l => (fix all (l : list dm) := match l with [] => True | x :: r => keys_nodup x /\ all r end) l
  | DMap m => NoDup (map fst m) /\
              (fix all (m : list (bytes * dm)) := match m with [] => True | (_, x) :: r => keys_nodup x /\ all r end) m
  | _ => True
  end.

Lemma keys_nodup_list l : keys_nodup (DList l) <-> Forall keys_nodup l.
Proof.
  cbn [keys_nodup]. induction l as [|x r IH]; [split; constructor|].
  rewrite IH. split; [intros [? ?]; now constructor|intros H; inversion H; auto].
Qed.
Lemma keys_nodup_map m : keys_nodup (DMap m) <-> NoDup (map fst m) /\ Forall (fun kv => keys_nodup (snd kv)) m.
Proof.
  cbn [keys_nodup]. split; intros [H1 H2]; (split; [exact H1|]); clear H1.
  - induction m as [|[k x] r IH]; [constructor|]. destruct H2. constructor; auto.
  - induction m as [|[k x] r IH]; [exact I|]. inversion H2 as [|? ? Ha Hb]; subst. split; [exact Ha|apply IH; exact Hb].
Qed.

Lemma sorted_mode_unique {V} m (l1 l2 : list (bytes * V)) :
  m <> SortNone -> NoDup (map fst l1) -> Permutation l1 l2 -> sort_entries m l1 = sort_entries m l2.
Proof.
  intros Hm Hnd Hp. destruct m; [congruence| |]; cbn [sort_entries].
  - apply sort_perm_invariant; [apply bytes_ltb_irrefl|apply bytes_ltb_trans|apply bytes_ltb_total|assumption|assumption].
  - apply sort_perm_invariant; [apply rfc_ltb_irrefl|apply rfc_ltb_trans|apply rfc_ltb_total|assumption|assumption].
Qed.

Lemma F2_length {A B} (R : A -> B -> Prop) l1 l2 : Forall2 R l1 l2 -> length l1 = length l2.
Proof. induction 1; cbn; congruence. Qed.

Theorem encb_perm_invariant m v1 v2 :
  m <> SortNone -> perm_eq v1 v2 -> keys_nodup v1 -> encb m v1 = encb m v2.
Proof.
  intros Hm. revert v2.
  induction v1 as [| b | z | f | s | s | c | l IH | es IH] using dm_ind2; intros v2 Hp Hnd;
    inversion Hp; subst; try reflexivity.
  - (* list *)
    cbn [encb]. apply keys_nodup_list in Hnd.
    assert (lenN l = lenN l2) as -> by (unfold lenN; now erewrite F2_length by eassumption).
    f_equal. f_equal.
    match goal with H : Forall2 perm_eq l l2 |- _ => rename H into HF end.
    clear Hp. induction HF as [|x y r r' Hxy _ IHr]; [reflexivity|].
    inversion IH as [|? ? IHx IHr']; inversion Hnd as [|? ? Hvx Hvr]; subst. cbn [map].
    f_equal; [apply IHx; assumption|apply IHr; assumption].
  - (* map *)
    match goal with H : Forall2 _ es ?mm, H' : Permutation ?mm _ |- _ => rename H into HF; rename H' into HP; rename mm into m2 end.
    apply keys_nodup_map in Hnd as [Hk Hv].
    rewrite !encb_map.
    assert (lenN es = lenN m2') as ->.
    { unfold lenN. erewrite (F2_length _ _ _ HF), (Permutation_length HP). reflexivity. }
    f_equal. f_equal.
    (* first: pointwise equal encodings between es and m2 *)
    assert (Hmap : map (fun kv => (fst kv, encb m (snd kv))) es = map (fun kv => (fst kv, encb m (snd kv))) m2).
    { clear HP Hk Hp. induction HF as [|x y r r' [Hk' Hxy] _ IHr]; [reflexivity|].
      inversion IH as [|? ? IHx IHr']; inversion Hv as [|? ? Hvx Hvr]; subst. cbn [map].
      f_equal; [|apply IHr; assumption].
      rewrite Hk'. f_equal. apply IHx; assumption. }
    (* then: sort is permutation invariant *)
    transitivity (map enc_entry (sort_entries m (map (fun kv => (fst kv, encb m (snd kv))) es))).
    { rewrite sort_entries_map_snd, map_map. reflexivity. }
    transitivity (map enc_entry (sort_entries m (map (fun kv => (fst kv, encb m (snd kv))) m2'))).
    2:{ rewrite sort_entries_map_snd, map_map. reflexivity. }
    f_equal. rewrite Hmap. apply sorted_mode_unique; [assumption| |now apply Permutation_map].
    rewrite map_map. cbn [fst].
    assert (Hke : map fst es = map (fun x : bytes * dm => fst x) m2).
    { clear -HF. induction HF as [|x y r r' [Hk' _] _ IHr]; [reflexivity|]. cbn. now rewrite Hk', IHr. }
    rewrite <- Hke.
    exact Hk.
Qed.
