(* Proofs/XformFocus.v — the model of focusedTransform (quirks repaired) computes the SPEC xupd:
   lemma [ft_corr], by induction on the fuel. *)
Require Import IP.Base.Bytes IP.DM.Value IP.Xform.Transform IP.Proofs.XformBase.
From Coq Require Import Lia.
Open Scope Z_scope.

(* ---------------------------------------------------------------- the copy loops, closed forms *)
Section LoopFacts.
  Variable rec : option dm -> asm -> path -> world -> res xerr (slot * world).

  Lemma list_loop_miss ti p2 l : forall i w,
    (ti < i \/ i + Z.of_nat (length l) <= ti) -> list_loop rec ti p2 i l w = Ok (l, false, w).
  Proof.
    induction l as [|v r IH]; intros i w H; simpl; [reflexivity|].
    assert (E : (ti =? i) = false) by (apply Z.eqb_neq; simpl length in H; lia).
    rewrite E, IH; [reflexivity|]. simpl length in H. lia.
  Qed.

  Lemma list_loop_hit p2 l : forall i j w v,
    nth_error l j = Some v ->
    list_loop rec (i + Z.of_nat j) p2 i l w =
    match rec (Some v) AElem p2 w with
    | Ok (s, w1) => Ok (firstn j l ++ slot_list s ++ skipn (S j) l, true, w1)
    | Err e => Err e
    end.
  Proof.
    induction l as [|x r IH]; intros i j w v H; [destruct j; discriminate|].
    destruct j as [|j]; simpl in H.
    - inversion H; subst. simpl. rewrite Z.add_0_r, Z.eqb_refl.
      destruct (rec (Some v) AElem p2 w) as [[s w1]|e]; simpl; [|reflexivity].
      rewrite list_loop_miss by lia. reflexivity.
    - remember (i + Z.of_nat (S j)) as ti eqn:Eti. simpl list_loop.
      assert (E : (ti =? i) = false) by (apply Z.eqb_neq; lia).
      rewrite E. replace ti with ((i + 1) + Z.of_nat j) by lia.
      rewrite (IH (i + 1) j w v H).
      destruct (rec (Some v) AElem p2 w) as [[s w1]|e]; reflexivity.
  Qed.

  Lemma map_loop_miss seg e n2 p2 m : forall w,
    find_kv seg m = None -> map_loop rec seg e n2 p2 m w = Ok (m, false, w).
  Proof.
    induction m as [|[k v] r IH]; intros w H; simpl; [reflexivity|].
    simpl in H. destruct (bytes_eqb k seg); [discriminate|]. now rewrite IH.
  Qed.

  Lemma uniq_head_rest {A} k seg (r : list (bytes * A)) :
    negb (mem_key k r) && uniqb r = true -> bytes_eqb k seg = true -> find_kv seg r = None.
  Proof.
    intros H E. apply andb_true_iff in H as [H _]. apply negb_true_iff in H.
    apply xb_eqb_eq in E; subst. now apply mem_key_find.
  Qed.

  Lemma map_loop_hit_some seg e y p2 m : forall w v,
    uniqb m = true -> find_kv seg m = Some v ->
    map_loop rec seg e (Some y) p2 m w = Ok (replace_kv seg y m, true, w).
  Proof.
    induction m as [|[k x] r IH]; intros w v Hu H; [discriminate|].
    simpl in *. destruct (bytes_eqb k seg) eqn:E.
    - rewrite map_loop_miss by (eapply uniq_head_rest; [exact Hu | exact E]). reflexivity.
    - apply andb_true_iff in Hu as [_ Hu]. now rewrite (IH w v Hu H).
  Qed.

  Lemma map_loop_hit_del seg p2 m : forall w v,
    uniqb m = true -> find_kv seg m = Some v ->
    map_loop rec seg true None p2 m w = Ok (remove_kv seg m, true, w).
  Proof.
    induction m as [|[k x] r IH]; intros w v Hu H; [discriminate|].
    simpl in *. destruct (bytes_eqb k seg) eqn:E.
    - rewrite map_loop_miss by (eapply uniq_head_rest; [exact Hu | exact E]). reflexivity.
    - apply andb_true_iff in Hu as [_ Hu]. now rewrite (IH w v Hu H).
  Qed.

  Lemma map_loop_hit_rec seg p2 m : forall w v,
    uniqb m = true -> find_kv seg m = Some v ->
    map_loop rec seg false None p2 m w =
    match rec (Some v) AVal p2 w with
    | Ok (s, w1) => Ok (match s with Put y => replace_kv seg y m | Skip => remove_kv seg m end, true, w1)
    | Err e => Err e
    end.
  Proof.
    induction m as [|[k x] r IH]; intros w v Hu H; [discriminate|].
    simpl in *. destruct (bytes_eqb k seg) eqn:E.
    - inversion H; subst.
      destruct (rec (Some v) AVal p2 w) as [[s w1]|e0]; simpl; [|reflexivity].
      rewrite map_loop_miss by (eapply uniq_head_rest; [exact Hu | exact E]).
      destruct s; reflexivity.
    - apply andb_true_iff in Hu as [_ Hu]. rewrite (IH w v Hu H).
      destruct (rec (Some v) AVal p2 w) as [[s w1]|e0]; [|reflexivity].
      destruct s; reflexivity.
  Qed.
End LoopFacts.

(* raw commutes with the association-list operations *)
Notation rawm := (map (fun kt : bytes * xt => (fst kt, raw (snd kt)))).

Lemma replace_kv_raw s c m : replace_kv s (raw c) (rawm m) = rawm (replace_kv s c m).
Proof.
  induction m as [|[k x] r IH]; simpl; [reflexivity|].
  destruct (bytes_eqb k s); simpl; [reflexivity | now rewrite IH].
Qed.
Lemma remove_kv_raw s m : remove_kv s (rawm m) = rawm (remove_kv s m).
Proof.
  induction m as [|[k x] r IH]; simpl; [reflexivity|].
  destruct (bytes_eqb k s); simpl; [reflexivity | now rewrite IH].
Qed.

Lemma Forall_replace_kv {A} (P : bytes * A -> Prop) s c m :
  (forall k, P (k, c)) -> Forall P m -> Forall P (replace_kv s c m).
Proof.
  intros Hc H. induction H as [|[k x] r Hx Hr IH]; simpl; [constructor|].
  destruct (bytes_eqb k s); constructor; auto.
Qed.
Lemma Forall_remove_kv {A} (P : bytes * A -> Prop) s m : Forall P m -> Forall P (remove_kv s m).
Proof.
  intros H. induction H as [|[k x] r Hx Hr IH]; simpl; [constructor|].
  destruct (bytes_eqb k s); [assumption | constructor; auto].
Qed.
Lemma find_kv_Forall {A} (P : bytes * A -> Prop) s m c : Forall P m -> find_kv s m = Some c -> exists k, P (k, c).
Proof.
  intros H. induction H as [|[k x] r Hx Hr IH]; simpl; [discriminate|].
  destruct (bytes_eqb k s); [|exact IH]. intro E; inversion E; subst. now exists k.
Qed.

(* ---------------------------------------------------------------- correspondence *)
Section Focus.
  Variable ltb : bytes -> bytes -> bool.
  Variable mklink : dm -> cid.
  Variable f : option dm -> option dm.
  Variable cp : bool.
  Variable fault : bool.
  (* the callback only hands out nodes with unique map keys (every real node is such) *)
  Hypothesis f_wf : forall x v, owf x -> f x = Some v -> wf_dm v = true.

  (* no block of the store sits under the link of a different block (no hash collision in the store) *)
  Definition coherent (s : store) : Prop := forall b v, lookup (mklink b) s = Some v -> v = b.

  Notation FT := (ft ltb mklink q_fixed f cp fault).
  Notation XU := (xupd ltb mklink f cp).

  Definition slot_of (ot : option xt) : slot := match ot with Some t => Put (raw t) | None => Skip end.
  Definition ovalid (S : store) (ot : option xt) : Prop := match ot with Some t => valid S t | None => True end.
  Definition owfx (ot : option xt) : Prop := match ot with Some t => wfx t | None => True end.

  Definition good (w w' : world) (s : slot) (ot : option xt) (seen : option dm) : Prop :=
    s = slot_of ot /\ extends (w_store w) (w_store w') /\
    (forall S, extends (w_store w') S -> coherent S -> ovalid S ot) /\ owfx ot /\
    exists k, (1 <= k)%nat /\ w_log w' = w_log w ++ repeat seen k.

  (* failures that are not the transform's: the model ran out of fuel, or a store was refused
     (by the codec or the storage) - the SPEC does not speak about those *)
  Notation env_err e := (e = EFuel \/ e = EStore) (only parsing).

  Definition corr (w : world) (out : res xerr (slot * world)) (sres : xres) : Prop :=
    match sres with
    | XNeedLoad => True
    | XOk ot seen => match out with Ok (s, w') => good w w' s ot seen | Err e => env_err e end
    | XErr e' => match out with Ok _ => False | Err e => env_err e \/ e = e' end
    end.

  Definition na_ok (na : asm) (p : path) : Prop :=
    match na with ARoot _ => False | AVal => p <> [] | _ => True end.
  Definition cur_ok (st : store) (cur : option xt) : Prop :=
    match cur with Some t => valid st t /\ wfx t | None => True end.

  Lemma Forall_splice {A} (P : A -> Prop) l : forall j mid,
    Forall P l -> Forall P mid -> Forall P (firstn j l ++ mid ++ skipn (S j) l).
  Proof.
    induction l as [|x r IHl]; intros j mid Hl Hm.
    - rewrite firstn_nil, skipn_nil, app_nil_r. exact Hm.
    - inversion Hl; subst. destruct j; simpl.
      + apply Forall_app; split; assumption.
      + constructor; [assumption | now apply IHl].
  Qed.

  Lemma good_log_step w w0 w' s ot seen :
    w_store w0 = w_store w -> w_log w0 = w_log w ++ [seen] ->
    good w0 w' s ot seen -> good w w' s ot seen.
  Proof.
    intros Hs Hl (H1 & H2 & H3 & H4 & k & Hk & H5). repeat split; auto.
    - now rewrite <- Hs.
    - exists (S k). split; [lia|]. rewrite H5, Hl, <- app_assoc. reflexivity.
  Qed.

  Lemma xupd_block st c t1 s p2 :
    XU st (Some (XBlock c t1)) (s :: p2) =
    match XU st (Some t1) (s :: p2) with
    | XOk (Some r) seen => XOk (Some (reblock ltb mklink r)) seen
    | e => e
    end.
  Proof.
    cbn [xupd strip]. destruct (strip t1) as [u k].
    destruct u as [v|l|m|c' t']; cbn [rewrap].
    - destruct v; try reflexivity. destruct (lookup c0 st); reflexivity.
    - destruct (list_seg s); try reflexivity.
      + destruct ((0 <=? z) && (z <? Z.of_nat (length l))); [|reflexivity].
        destruct (XU st (nth_error l (Z.to_nat z)) p2); reflexivity.
      + destruct (negb (is_empty p2) && negb cp); [reflexivity|].
        destruct (XU st None p2); reflexivity.
    - destruct (find_kv s m).
      + destruct (XU st (Some x) p2) as [[c'|] seen| |]; reflexivity.
      + destruct (negb (is_empty p2) && negb cp); [reflexivity|].
        destruct (XU st None p2); reflexivity.
    - reflexivity.
  Qed.

  Lemma xupd_cons_some st t s p2 seen : XU st (Some t) (s :: p2) <> XOk None seen.
  Proof.
    cbn [xupd]. destruct (strip t) as [u k].
    destruct u as [v|l|m|c' t'].
    - destruct v; try discriminate. destruct (lookup c st); discriminate.
    - destruct (list_seg s); try discriminate.
      + destruct ((0 <=? z) && (z <? Z.of_nat (length l))); [|discriminate].
        destruct (XU st (nth_error l (Z.to_nat z)) p2); discriminate.
      + destruct (negb (is_empty p2) && negb cp); [discriminate|].
        destruct (XU st None p2); discriminate.
    - destruct (find_kv s m).
      + destruct (XU st (Some x) p2) as [[c'|] seen'| |]; discriminate.
      + destruct (negb (is_empty p2) && negb cp); [discriminate|].
        destruct (XU st None p2); discriminate.
    - discriminate.
  Qed.

  (* the target was not found in a map / is appended to a list: the tail of both cases *)
  Lemma ft_corr_new fu na' p2 w w0 (mk : slot -> dm) (mkx : option xt -> xt) seen0 j :
    corr w0 (FT fu None na' p2 w0) (XU (w_store w0) None p2) ->
    w_store w0 = w_store w -> w_log w0 = w_log w ++ repeat seen0 j ->
    (forall seen, XU (w_store w0) None p2 = XOk None seen \/ (exists c, XU (w_store w0) None p2 = XOk (Some c) seen) -> j = O \/ seen = seen0) ->
    (forall ot, mk (slot_of ot) = raw (mkx ot)) ->
    (forall S ot, extends (w_store w) S -> coherent S -> ovalid S ot -> valid S (mkx ot)) ->
    (forall ot, owfx ot -> wfx (mkx ot)) ->
    corr w (do sw <- FT fu None na' p2 w0; let '(s0, w2) := sw in Ok (Put (mk s0), w2))
           (match XU (w_store w0) None p2 with XOk c seen => XOk (Some (mkx c)) seen | e => e end).
  Proof.
    intros Hc Hs Hl Hseen Hraw Hval Hwf.
    destruct (XU (w_store w0) None p2) as [c seen| e |] eqn:EX;
      destruct (FT fu None na' p2 w0) as [[s0 w2]|e0]; simpl in *; auto.
    destruct Hc as (H1 & H2 & H3 & H4 & k & Hk & H5).
    assert (Hse : j = O \/ seen = seen0).
    { apply (Hseen seen). destruct c; [right; eauto | left; reflexivity]. }
    repeat split.
    - subst s0. now rewrite Hraw.
    - now rewrite <- Hs.
    - intros S HS HcS. apply Hval; auto.
      rewrite <- Hs. eapply extends_trans; eassumption.
    - now apply Hwf.
    - exists (j + k)%nat. split; [lia|]. rewrite H5, Hl, <- app_assoc, repeat_app.
      destruct Hse as [->| ->]; reflexivity.
  Qed.

  Lemma mk_map_raw s m ot :
    DMap (rawm m ++ slot_entry s (slot_of ot)) = raw (XMap (m ++ opt_list (option_map (pair s) ot))).
  Proof. destruct ot; simpl; rewrite map_app; reflexivity. Qed.
  Lemma mk_list_raw l ot :
    DList (map raw l ++ slot_list (slot_of ot)) = raw (XList (l ++ opt_list ot)).
  Proof. destruct ot; simpl; rewrite map_app; reflexivity. Qed.

  Lemma ft_corr : forall fuel cur na p w,
    na_ok na p -> cur_ok (w_store w) cur ->
    corr w (FT fuel (option_map raw cur) na p w) (XU (w_store w) cur p).
  Proof.
    induction fuel as [|fu IH]; intros cur na p w Hna Hcur.
    { simpl. unfold corr. destruct (XU (w_store w) cur p); auto. }
    destruct p as [|s p2].
    { (* base case: the callback, then AssignNode *)
      cbn [ft xupd]. set (n := option_map raw cur). unfold corr.
      destruct (f n) as [v|] eqn:Ef; cbn [option_map assign_node].
      - destruct na; try contradiction; (repeat split;
          [cbn [slot_of]; now rewrite raw_inject | apply extends_refl
          | intros; apply valid_inject | apply wfx_inject; eapply f_wf; [|eassumption]; subst n; destruct cur; simpl; [apply wfx_raw_wf; apply Hcur | exact I]
          | exists 1%nat; split; [lia | reflexivity]]).
      - destruct na; try contradiction; try (exfalso; now apply Hna);
          (repeat split; [apply extends_refl | exists 1%nat; split; [lia | reflexivity]]). }
    destruct cur as [t|].
    2:{ (* creating parents: a one-entry map per remaining segment *)
      cbn [ft option_map xupd].
      apply (ft_corr_new fu ANewKey p2 w w (fun s0 => DMap (slot_entry s s0))
               (fun c => XMap (opt_list (option_map (pair s) c))) None 0).
      - apply (IH None); exact I.
      - reflexivity.
      - simpl. now rewrite app_nil_r.
      - intros; now left.
      - intros [c|]; reflexivity.
      - intros S [c|] _ _ Hv; constructor; simpl; auto.
      - intros [c|] Hw; constructor; simpl; auto. }
    destruct Hcur as [Hv Hw].
    destruct t as [v|l|m|c t1].
    - (* a scalar, or a link that is not expanded *)
      inversion Hw as [v0 Hsc | | | ]; subst.
      cbn [ft option_map raw xupd strip].
      destruct v; try discriminate; simpl; auto.
      destruct (lookup c (w_store w)); simpl; auto.
    - (* list *)
      inversion Hv as [ | l0 Hvl | | ]; subst. inversion Hw as [ | l0 Hwl | | ]; subst.
      cbn [ft option_map raw xupd strip rewrap].
      destruct (list_seg s) as [z| |] eqn:Els.
      + (* numeric index *)
        cbn [q_neg_index_append q_fixed negb andb]. rewrite andb_true_r.
        destruct (z <? 0) eqn:Ez.
        { assert (E0 : (0 <=? z) = false) by (apply Z.leb_gt; apply Z.ltb_lt in Ez; lia).
          rewrite E0. simpl. auto. }
        assert (E0 : (0 <=? z) = true) by (apply Z.leb_le; apply Z.ltb_ge in Ez; lia).
        rewrite E0. cbn [andb].
        destruct (z <? Z.of_nat (length l)) eqn:Elen.
        * (* in range *)
          apply Z.ltb_lt in Elen. apply Z.leb_le in E0.
          set (j := Z.to_nat z).
          destruct (nth_error l j) as [x|] eqn:Enth.
          2:{ apply nth_error_None in Enth. lia. }
          assert (Hx : valid (w_store w) x /\ wfx x).
          { apply nth_error_In in Enth. rewrite Forall_forall in Hvl, Hwl. auto. }
          pose proof (list_loop_hit (FT fu) p2 (map raw l) 0 j w (raw x)
                        (map_nth_error raw j l Enth)) as HL.
          replace (0 + Z.of_nat j) with z in HL by (unfold j; lia). rewrite HL. clear HL.
          pose proof (IH (Some x) AElem p2 w I Hx) as Hc. cbn [option_map] in Hc.
          destruct (XU (w_store w) (Some x) p2) as [oc seen| e |];
            destruct (FT fu (Some (raw x)) AElem p2 w) as [[s0 w1]|e0]; cbn [corr] in *; auto.
          destruct Hc as (H2 & H3 & H4 & H5 & H6).
          repeat split; auto.
          -- subst s0. cbn [slot_of raw]. f_equal. rewrite !map_app, firstn_map, skipn_map.
             destruct oc; reflexivity.
          -- intros S HS HcS. constructor. apply Forall_splice.
             ++ rewrite Forall_forall in *. intros y Hy. eapply valid_mono; [|apply Hvl; exact Hy].
                eapply extends_trans; eassumption.
             ++ specialize (H4 S HS HcS). destruct oc; simpl; auto.
          -- constructor. apply Forall_splice; [assumption|]. destruct oc; simpl; auto.
        * (* beyond the bounds *)
          apply Z.ltb_ge in Elen.
          rewrite list_loop_miss by (rewrite map_length; lia). simpl. auto.
      + (* "-": append *)
        cbn [negb andb]. simpl (-1 <? 0). cbn [andb].
        rewrite list_loop_miss by lia. cbn [bind].
        simpl (0 <=? -1). cbn [q_append_parents q_fixed negb]. rewrite andb_true_r.
        destruct (negb (is_empty p2) && negb cp) eqn:Epar; [simpl; auto|].
        apply (ft_corr_new fu AAppend p2 w w (fun s0 => DList (map raw l ++ slot_list s0))
                 (fun c => XList (l ++ opt_list c)) None 0).
        * apply (IH None); exact I.
        * reflexivity.
        * simpl. now rewrite app_nil_r.
        * intros; now left.
        * intros ot. apply mk_list_raw.
        * intros S ot HS HcS Hov. constructor. apply Forall_app. split.
          -- rewrite Forall_forall in *. intros y Hy. eapply valid_mono; [exact HS | auto].
          -- destruct ot; simpl; auto.
        * intros ot Hov. constructor. apply Forall_app. split; [assumption|]. destruct ot; simpl; auto.
      + simpl. auto.
    - (* map *)
      inversion Hv as [ | | m0 Hvm | ]; subst. inversion Hw as [ | | m0 Hwu Hwm | ]; subst.
      cbn [ft option_map raw xupd strip rewrap].
      rewrite (find_kv_map raw s m).
      assert (Hu : uniqb (rawm m) = true) by now rewrite uniqb_map.
      destruct (find_kv s m) as [c|] eqn:Ef; cbn [option_map].
      + (* the key exists *)
        assert (Hfr : find_kv s (rawm m) = Some (raw c)) by now rewrite (find_kv_map raw s m), Ef.
        assert (Hc : valid (w_store w) c /\ wfx c).
        { destruct (find_kv_Forall _ s m c Hvm Ef) as [k Hk].
          destruct (find_kv_Forall _ s m c Hwm Ef) as [k' Hk']. auto. }
        destruct p2 as [|s2 p3]; cbn [is_empty].
        * (* last segment: replace in place or drop *)
          cbn [xupd option_map].
          destruct (f (Some (raw c))) as [y|] eqn:Efy.
          -- rewrite (map_loop_hit_some _ s true y [] (rawm m) _ (raw c) Hu Hfr). simpl.
             repeat split.
             ++ cbn [slot_of raw]. f_equal. now rewrite <- replace_kv_raw, raw_inject.
             ++ apply extends_refl.
             ++ intros S HS HcS. constructor. apply Forall_replace_kv.
                ** intros; apply valid_inject.
                ** rewrite Forall_forall in *. intros y0 Hy0. eapply valid_mono; [exact HS | auto].
             ++ constructor; [now apply uniqb_replace|]. apply Forall_replace_kv; [|assumption].
                intros; apply wfx_inject. eapply f_wf; [|eassumption]. simpl. apply wfx_raw_wf, Hc.
             ++ exists 1%nat. split; [lia | reflexivity].
          -- rewrite (map_loop_hit_del _ s [] (rawm m) _ (raw c) Hu Hfr). simpl.
             repeat split.
             ++ cbn [slot_of raw]. f_equal. now rewrite remove_kv_raw.
             ++ apply extends_refl.
             ++ intros S HS HcS. constructor. apply Forall_remove_kv.
                rewrite Forall_forall in *. intros y0 Hy0. eapply valid_mono; [exact HS | auto].
             ++ constructor; [now apply uniqb_remove | now apply Forall_remove_kv].
             ++ exists 1%nat. split; [lia | reflexivity].
        * (* go deeper *)
          rewrite (map_loop_hit_rec _ s (s2 :: p3) (rawm m) _ (raw c) Hu Hfr).
          assert (Hne : na_ok AVal (s2 :: p3)) by (simpl; discriminate).
          pose proof (IH (Some c) AVal (s2 :: p3) w Hne Hc) as Hcc. cbn [option_map] in Hcc.
          destruct (XU (w_store w) (Some c) (s2 :: p3)) as [[c'|] seen| e |];
            destruct (FT fu (Some (raw c)) AVal (s2 :: p3) w) as [[s0 w1]|e0]; simpl in *; auto;
            destruct Hcc as (H4 & H5 & H6 & H7 & H8); subst s0; cbn [slot_of]; simpl.
          -- repeat split; auto.
             ++ cbn [slot_of raw]. f_equal. now rewrite replace_kv_raw.
             ++ intros S HS HcS. constructor. apply Forall_replace_kv.
                ** intros. apply (H6 S HS HcS).
                ** rewrite Forall_forall in *. intros y0 Hy0. eapply valid_mono; [|apply Hvm; exact Hy0].
                   eapply extends_trans; eassumption.
             ++ constructor; [now apply uniqb_replace|]. apply Forall_replace_kv; auto.
          -- repeat split; auto.
             ++ cbn [slot_of raw]. f_equal. now rewrite remove_kv_raw.
             ++ intros S HS HcS. constructor. apply Forall_remove_kv.
                rewrite Forall_forall in *. intros y0 Hy0. eapply valid_mono; [|apply Hvm; exact Hy0].
                eapply extends_trans; eassumption.
             ++ constructor; [now apply uniqb_remove | now apply Forall_remove_kv].
      + (* the key does not exist *)
        assert (Hfr : find_kv s (rawm m) = None) by now rewrite (find_kv_map raw s m), Ef.
        assert (Hmem : mem_key s m = false) by now apply mem_key_find.
        rewrite (map_loop_miss _ s _ _ p2 (rawm m) _ Hfr). cbn [bind].
        assert (Hmk : forall ot, DMap (rawm m ++ slot_entry s (slot_of ot))
                                 = raw (XMap (m ++ opt_list (option_map (pair s) ot))))
          by (intro; apply mk_map_raw).
        assert (Hmv : forall S ot, extends (w_store w) S -> coherent S -> ovalid S ot ->
                                   valid S (XMap (m ++ opt_list (option_map (pair s) ot)))).
        { intros S ot HS HcS Hov. constructor. apply Forall_app. split.
          - rewrite Forall_forall in *. intros y Hy. eapply valid_mono; [exact HS | auto].
          - destruct ot; simpl; auto. }
        assert (Hmw : forall ot, owfx ot -> wfx (XMap (m ++ opt_list (option_map (pair s) ot)))).
        { intros ot Hov. destruct ot as [c|]; simpl.
          - constructor; [now apply uniqb_snoc|]. apply Forall_app. split; auto.
          - rewrite app_nil_r. now constructor. }
        destruct p2 as [|s2 p3]; cbn [is_empty negb andb].
        * (* last segment: insert (the callback runs a second time), or nothing to remove *)
          destruct (f None) as [y|] eqn:Efn; cbn [is_none andb negb q_missing_delete_nil q_fixed].
          -- apply (ft_corr_new fu ANewKey [] w (log_call None w)
                      (fun s0 => DMap (rawm m ++ slot_entry s s0))
                      (fun c => XMap (m ++ opt_list (option_map (pair s) c))) None 1); auto.
             ++ apply (IH None ANewKey [] (log_call None w)); exact I.
             ++ intros seen [E|[c E]]; simpl in E; inversion E; now right.
          -- cbn [xupd option_map]. rewrite Efn. cbn [option_map opt_list]. simpl.
             repeat split.
             ++ cbn [slot_of raw]. f_equal. now rewrite app_nil_r.
             ++ apply extends_refl.
             ++ intros S HS HcS. apply (Hmv S None HS HcS I).
             ++ apply (Hmw None I).
             ++ exists 1%nat. split; [lia | reflexivity].
        * (* missing parent *)
          destruct (negb cp) eqn:Ecp; cbn [negb andb]; [simpl; auto|].
          apply (ft_corr_new fu ANewKey (s2 :: p3) w w
                   (fun s0 => DMap (rawm m ++ slot_entry s s0))
                   (fun c => XMap (m ++ opt_list (option_map (pair s) c))) None 0); auto.
          -- apply (IH None); exact I.
          -- simpl. now rewrite app_nil_r.
    - (* an expanded link: load, transform inside, store, re-link *)
      inversion Hv as [ | | | c0 t0 Hlk Hvt ]; subst. inversion Hw as [ | | | c0 t0 Hwt ]; subst.
      cbn [ft option_map raw]. unfold w_store in Hlk |- * at 1.
      rewrite Hlk. rewrite xupd_block.
      pose proof (IH (Some t1) AAny (s :: p2) w I (conj Hvt Hwt)) as Hc. cbn [option_map] in Hc.
      pose proof (xupd_cons_some (w_store w) t1 s p2) as Hnn.
      destruct (XU (w_store w) (Some t1) (s :: p2)) as [[r|] seen| e |];
        try (exfalso; now apply (Hnn seen));
        destruct (FT fu (Some (raw t1)) AAny (s :: p2) w) as [[s0 w1]|e0]; simpl in *; auto;
        try contradiction.
      destruct Hc as (H4 & H5 & H6 & H7 & H8). subst s0; cbn [slot_of]; simpl.
      destruct (fault || has_refused (raw r)); [simpl; auto|]. simpl.
      repeat split; auto.
      + eapply extends_trans; [exact H5 | apply put_extends].
      + intros S HS HcS. unfold reblock.
        assert (HS1 : extends (w_store w1) S).
        { eapply extends_trans; [apply put_extends | exact HS]. }
        constructor.
        * destruct (put_lookup (mklink (canon ltb (raw r))) (canon ltb (raw r)) (w_store w1))
            as [x [Hx _]].
          apply HS in Hx. rewrite (raw_canon_x ltb r H7).
          rewrite Hx. f_equal. now apply (HcS (canon ltb (raw r)) x).
        * apply valid_canon_x. apply (H6 S HS1 HcS).
      + constructor. now apply wfx_canon_x.
  Qed.
End Focus.
