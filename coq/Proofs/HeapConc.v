(* Proofs/HeapConc.v — instances of the data-race-freedom theorem for the clauses of C20, and what
   C11's ownership invariant contributes: a Legal API call never STORES to a frozen cell (a cell of a
   finished node), reader positions apart, and allocates only in the caller's arena. *)
Require Import IP.Base.Bytes IP.DM.Value IP.Heap.GoMem IP.Heap.BasicHeap IP.Heap.Footprint IP.Heap.Conc.
Require Import IP.Proofs.HeapMem IP.Proofs.HeapLogic IP.Proofs.HeapSteps IP.Proofs.HeapOps IP.Proofs.HeapPrims IP.Proofs.HeapDrf.
From Coq Require Import List Arith Bool Lia.
Import ListNotations.
Local Open Scope nat_scope.

(* ------------------------------------------------------------------ read-only threads *)

Lemma wfp_writes : forall l, wfp l = writes l.
Proof.
  unfold wfp. induction l as [|[a|a|a] l IH]; cbn; [reflexivity | exact IH | |]; rewrite IH; reflexivity.
Qed.

Section Readers.
  Variables V R : Type.

  (* any number of threads that only load: every interleaving is race-free and each thread gets the
     result it gets alone — whatever they read *)
  Theorem readers_drf : forall (h0 : heap V) (ts : list (thread V R)),
    NoDup (map t_ar ts) -> (forall t, In t ts -> nth (t_ar t) h0 [] = []) ->
    (forall t, In t ts -> wfree (t_prog t)) ->
    race_free (h0, ts) /\
    forall s i t o, nth_error (snd (sched_run s (h0, ts))) i = Some t -> finished t = Some o ->
      exists t0 : thread V R, nth_error ts i = Some t0 /\ alone_out h0 t0 = o.
  Proof.
    intros h0 ts Hnd Hemp Hw. apply drf_of_premise. split; [assumption|]. split; [assumption|].
    intros i j ti tj Hij Hi Hj a Ha. exfalso.
    unfold alone_log, alone in Ha. destruct (run (t_ar ti) (t_prog ti) h0) as [[o h'] l] eqn:E. cbn [snd] in Ha.
    destruct (wfree_run _ _ _ (Hw ti (nth_error_In _ _ Hi)) _ _ _ _ _ E) as [_ Hl].
    rewrite wfp_writes, Hl in Ha. contradiction.
  Qed.
End Readers.

(* sequences of reads of nodes other than stream reads are such threads *)
Definition pure_read (p : prim) : Prop :=
  exists r a, p = PRead (HNode r) a /\ stream_acc r a = false.

Lemma prims_reads_wfree : forall cf l, Forall pure_read l -> wfree (prims_prog cf l).
Proof.
  induction l as [|p l IH]; cbn; intros HF; [constructor|]. inversion HF as [|? ? (r & a & -> & Hs) Hl]; subst.
  apply wfree_bind.
  - cbn. apply wfree_bind; [apply acc_wfree; assumption | intros; constructor].
  - intros o. apply wfree_bind; [apply IH; assumption | intros; constructor].
Qed.

(* ------------------------------------------------------------------ what the ownership invariant gives *)

(* A Legal call never stores to a cell of a finished node, except a reader's position. *)
Theorem legal_call_stores : forall cf tg h ar p o h' l,
  Inv tg h -> prim_pre p tg h -> run ar (prim_prog cf p) h = (o, h', l) ->
  forall a, In a (stores l) -> tg a = TFrozen -> exists r, hget h a = Some (CRdr r).
Proof.
  intros * HI HP Hr a Ha Ta.
  assert (He : exec ar (prim_prog cf p) h = (o, h')) by (unfold exec; rewrite Hr; reflexivity).
  destruct (t_prim_prog cf p tg h ar o h' HI HP He) as (tg' & [_ HE] & _).
  destruct (inv_frozen _ _ _ HI Ta) as [c [Gc _]].
  apply hget_some in Gc. destruct Gc as [v Gv].
  destruct c as [sl|es|x|bs|r]; try (exfalso;
    destruct (run_store_bumps _ _ _ _ _ _ _ _ Hr a _ v Ha Gv) as (c' & v' & G' & Hlt);
    rewrite (ext_unwritten _ _ _ _ _ _ _ HE Ta Gv ltac:(discriminate)) in G'; inversion G'; lia).
  exists r. apply hget_some. eauto.
Qed.

(* every allocation of a run lands in the runner's arena, at an address free in the initial heap *)
Lemma run_new_arena : forall V A (p : prog V A) ar h o h' l, run ar p h = (o, h', l) ->
  forall a, In (ENew a) l -> fst a = ar /\ hget h a = None.
Proof.
  induction p as [x0 | a k IH | a c k IH | c k IH | ]; cbn; intros ar h o h' l Hr x Hin.
  - inversion Hr; subst. contradiction.
  - destruct (hget h a) as [c|] eqn:E.
    + destruct (run ar (k c) h) as [[o1 h1] l1] eqn:R. inversion Hr; subst.
      destruct Hin as [F|Hin]; [discriminate|]. eapply IH; eauto.
    + inversion Hr; subst. destruct Hin as [F|[]]. discriminate.
  - destruct (hget h a) eqn:E.
    + destruct (run ar k (hset h a c)) as [[o1 h1] l1] eqn:R. inversion Hr; subst.
      destruct Hin as [F|Hin]; [discriminate|]. destruct (IH _ _ _ _ _ R _ Hin) as [H1 H2]. split; [assumption|].
      destruct (addr_dec a x) as [->|Hn].
      * erewrite hget_hset_same in H2 by eauto. discriminate.
      * rewrite hget_hset_other in H2 by assumption. assumption.
    + inversion Hr; subst. destruct Hin as [F|[]]. discriminate.
  - destruct (halloc ar h c) as [h1 a] eqn:Ea.
    destruct (run ar (k a) h1) as [[o1 h2] l2] eqn:R. inversion Hr; subst.
    destruct Hin as [F|Hin].
    + inversion F; subst. split; [unfold halloc in Ea; inversion Ea; reflexivity | eapply hget_halloc_new; eauto].
    + destruct (IH _ _ _ _ _ _ R _ Hin) as [H1 H2]. split; [assumption|].
      destruct (hget h x) eqn:G; [|reflexivity]. erewrite hget_halloc_mono in H2 by eauto. discriminate.
  - inversion Hr; subst. contradiction.
Qed.
