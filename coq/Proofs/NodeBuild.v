(* Proofs/NodeBuild.v — every annotated legal script (Node/Protocol.v) runs on the model of the
   basicnode assemblers with exactly the annotated per-call results and builds a well-formed node
   whose abstract value is the value the script denotes.  C01_build_read and the C12 theorems are
   corollaries. *)
Require Import IP.Base.Bytes IP.DM.Value IP.Node.Basic IP.Node.Protocol.
Open Scope N_scope.

(* ------------------------------------------------------------------ byte-string equality *)
Lemma bytes_eqb_refl : forall a, bytes_eqb a a = true.
Proof. induction a; simpl; auto. rewrite N.eqb_refl. auto. Qed.

Lemma bytes_eqb_eq : forall a b, bytes_eqb a b = true <-> a = b.
Proof.
  induction a; destruct b; simpl; split; intros H; try discriminate; auto.
  - apply andb_true_iff in H. destruct H as [H1 H2]. apply N.eqb_eq in H1. apply IHa in H2. congruence.
  - inversion H; subst. rewrite N.eqb_refl. simpl. apply bytes_eqb_refl.
Qed.

Lemma bytes_eqb_neq : forall a b, bytes_eqb a b = false <-> a <> b.
Proof.
  intros. split; intros H.
  - intros E. apply bytes_eqb_eq in E. congruence.
  - destruct (bytes_eqb a b) eqn:E; auto. apply bytes_eqb_eq in E. contradiction.
Qed.

Lemma assoc_app_none : forall V k (l r : list (bytes * V)),
  assoc k l = None -> assoc k (l ++ r) = assoc k r.
Proof.
  induction l as [|[k' v] l]; simpl; intros; auto.
  destruct (bytes_eqb k k'); try discriminate. auto.
Qed.

Lemma assoc_app_some : forall V k (l r : list (bytes * V)) v,
  assoc k l = Some v -> assoc k (l ++ r) = Some v.
Proof.
  induction l as [|[k' v'] l]; simpl; intros; try discriminate.
  destruct (bytes_eqb k k'); auto.
Qed.

Lemma assoc_none_iff : forall V k (l : list (bytes * V)), assoc k l = None <-> ~ In k (map fst l).
Proof.
  induction l as [|[k' v] l]; simpl; split; intros; auto.
  - destruct (bytes_eqb k k') eqn:E; try discriminate.
    apply bytes_eqb_neq in E. intros [H1|H1]; [congruence|]. apply IHl in H; auto.
  - destruct (bytes_eqb k k') eqn:E.
    + apply bytes_eqb_eq in E. subst. exfalso. apply H. auto.
    + apply IHl. intros H1. apply H. auto.
Qed.

Lemma mem_key_assoc : forall V k (l : list (bytes * V)), mem_key k l = true <-> assoc k l <> None.
Proof.
  induction l as [|[k' v] l]; simpl; split; intros; try discriminate; try congruence.
  - destruct (bytes_eqb k k'); try discriminate. simpl in H. apply IHl; auto.
  - destruct (bytes_eqb k k'); simpl; auto. apply IHl; auto.
Qed.

(* ------------------------------------------------------------------ run_tol algebra *)
Definition pre (tr : list sres) (r : list sres * option state) : list sres * option state :=
  (tr ++ fst r, snd r).

Lemma pre_nil : forall r, pre [] r = r.
Proof. destruct r; reflexivity. Qed.

Lemma pre_pre : forall a b r, pre a (pre b r) = pre (a ++ b) r.
Proof. intros. unfold pre. simpl. rewrite app_assoc. reflexivity. Qed.

Lemma run_tol_ok : forall q s o s' r,
  step q s o = OOk s' -> run_tol q s (o :: r) = pre [SOk] (run_tol q s' r).
Proof. intros. simpl. rewrite H. destruct (run_tol q s' r). reflexivity. Qed.

Lemma run_tol_err : forall q s o e s' r,
  step q s o = OErr e s' -> run_tol q s (o :: r) = pre [SErr e] (run_tol q s' r).
Proof. intros. simpl. rewrite H. destruct (run_tol q s' r). reflexivity. Qed.

Lemma run_tol_app : forall q ops s more,
  run_tol q s (ops ++ more) =
  match run_tol q s ops with
  | (tr, Some s') => pre tr (run_tol q s' more)
  | (tr, None) => (tr, None)
  end.
Proof.
  induction ops; intros; simpl.
  - rewrite pre_nil. reflexivity.
  - destruct (step q s a) eqn:E; auto; rewrite IHops;
      destruct (run_tol q s0 ops) as [tr [s'|]]; auto;
      unfold pre; simpl; destruct (run_tol q s' more); reflexivity.
Qed.

(* a run whose calls all succeed is a run of [steps] *)
Lemma run_tol_steps : forall q ops s s',
  run_tol q s ops = (map (fun _ => SOk) ops, Some s') -> steps q s ops = OOk s'.
Proof.
  induction ops; simpl; intros.
  - inversion H; subst; auto.
  - destruct (step q s a) eqn:E.
    + destruct (run_tol q s0 ops) eqn:R. inversion H; subst. apply IHops. rewrite R. reflexivity.
    + destruct (run_tol q s0 ops). inversion H.
    + inversion H.
    + inversion H.
Qed.

(* ------------------------------------------------------------------ positions *)
(* the frame on top is waiting for a value of any kind *)
Definition accepts_any (f : frame) : Prop :=
  match f with
  | FRoot PAny | FMap _ _ (MaMidValue _) | FList _ LaMidValue => True
  | _ => False
  end.

(* the stack can receive a finished value *)
Definition receives (stk : list frame) : Prop :=
  match stk with
  | FRoot _ :: _ | FMap _ _ (MaMidValue _) :: _ | FList _ LaMidValue :: _ => True
  | _ => False
  end.

Definition deliver_st (stk : list frame) (n : node) : state :=
  match stk with
  | FRoot p :: _ => SDone p n
  | FMap t m (MaMidValue k) :: r => SOpen (FMap (t ++ [(k, n)]) ((k, n) :: m) MaInitial :: r)
  | FList x LaMidValue :: r => SOpen (FList (x ++ [n]) LaInitial :: r)
  | _ => SOpen stk
  end.

Lemma deliver_receives : forall stk n, receives stk -> deliver stk n = OOk (deliver_st stk n).
Proof.
  intros [|[p|t m [| |k|k]|x []] r] n H; simpl in *; try contradiction; reflexivity.
Qed.

Lemma accepts_receives : forall top rest, accepts_any top -> receives (top :: rest).
Proof. intros [[]|t m []|x []] rest H; simpl in *; auto. Qed.

(* NodeAssembler calls *)
Definition is_node_op (o : aop) : bool :=
  match o with AssembleKey | AssembleValue | AssembleEntry _ | Finish => false | _ => true end.

Lemma step_value : forall q top rest o,
  accepts_any top -> is_node_op o = true ->
  step q (SOpen (top :: rest)) o = value_op (top :: rest) o.
Proof.
  intros q [[]|t m []|x []] rest o H Ho; simpl in H; try contradiction;
    destruct o; simpl in Ho; try discriminate; reflexivity.
Qed.

Lemma value_scalar : forall stk o n,
  scalar_of o = Some n -> value_op stk o = deliver stk n.
Proof. intros stk o n H. destruct o; simpl in H; inversion H; subst; reflexivity. Qed.

(* ------------------------------------------------------------------ key assembler *)
Lemma key_tries : forall q t m r tries,
  Forall KeyTry tries -> forall more,
  run_tol q (SOpen (FMap t m MaMidKey :: r)) (map fst tries ++ more) =
  pre (map snd tries) (run_tol q (SOpen (FMap t m MaMidKey :: r)) more).
Proof.
  induction 1; intros; simpl app.
  - rewrite pre_nil. reflexivity.
  - inversion H; subst; cbn [map fst snd].
    + rewrite (run_tol_err q _ o EWrongKind (SOpen (FMap t m MaMidKey :: r))).
      * rewrite IHForall. rewrite pre_pre. reflexivity.
      * destruct o; simpl in H1; try discriminate; reflexivity.
    + rewrite (run_tol_err q _ (AssignNode n) EOther (SOpen (FMap t m MaMidKey :: r))).
      * rewrite IHForall. rewrite pre_pre. reflexivity.
      * simpl. rewrite H1. reflexivity.
Qed.

Lemma key_give_fresh : forall q t m r k g,
  KeyGive k g -> mem_key k m = false ->
  step q (SOpen (FMap t m MaMidKey :: r)) g = OOk (SOpen (FMap t m (MaExpectValue k) :: r)).
Proof. intros. inversion H; subst; simpl; try rewrite H1; rewrite H0; reflexivity. Qed.

Lemma key_give_dup : forall q t m r k g,
  KeyGive k g -> mem_key k m = true ->
  step q (SOpen (FMap t m MaMidKey :: r)) g = OErr ERepeatedKey (SOpen (FMap t m MaInitial :: r)).
Proof. intros. inversion H; subst; simpl; try rewrite H1; rewrite H0; reflexivity. Qed.

(* ------------------------------------------------------------------ the map invariant *)
Definition absent (kv : bytes * node) : bytes * dm := (fst kv, abs (snd kv)).

(* ks: keys accepted so far (newest first); t, m: the two containers of the map under assembly *)
Definition minv (ks : list bytes) (t m : list (bytes * node)) : Prop :=
  map fst t = rev ks /\ NoDup ks /\ (forall k, assoc k m = assoc k t) /\
  Forall (fun kv => wf (snd kv)) t.

Lemma minv_nil : minv [] [] [].
Proof. repeat split; simpl; auto. constructor. Qed.

Lemma minv_mem : forall ks t m k, minv ks t m -> (mem_key k m = true <-> In k ks).
Proof.
  intros ks t m k (Hk & Hn & Ha & Hw). rewrite mem_key_assoc. rewrite Ha.
  split; intros H.
  - destruct (assoc k t) eqn:E; try congruence.
    apply in_rev. rewrite <- Hk.
    destruct (in_dec (list_eq_dec N.eq_dec) k (map fst t)); auto.
    apply assoc_none_iff in n0. congruence.
  - intros E. apply assoc_none_iff in E. apply E. rewrite Hk. apply in_rev. rewrite rev_involutive. auto.
Qed.

Lemma minv_mem_false : forall ks t m k, minv ks t m -> ~ In k ks -> mem_key k m = false.
Proof.
  intros. destruct (mem_key k m) eqn:E; auto. apply (minv_mem _ _ _ k H) in E. contradiction.
Qed.

Lemma minv_put : forall ks t m k n,
  minv ks t m -> ~ In k ks -> wf n -> minv (k :: ks) (t ++ [(k, n)]) ((k, n) :: m).
Proof.
  intros ks t m k n (Hk & Hn & Ha & Hw) Hin Hwf. repeat split.
  - rewrite map_app. simpl. rewrite Hk. reflexivity.
  - constructor; auto.
  - intros k0. simpl. destruct (bytes_eqb k0 k) eqn:E.
    + apply bytes_eqb_eq in E. subst k0.
      assert (assoc k t = None).
      { apply assoc_none_iff. rewrite Hk. intros H. apply in_rev in H. contradiction. }
      rewrite assoc_app_none; auto. simpl. rewrite bytes_eqb_refl. reflexivity.
    + rewrite Ha. destruct (assoc k0 t) eqn:E2.
      * symmetry. apply assoc_app_some. auto.
      * rewrite assoc_app_none; auto. simpl. rewrite E. reflexivity.
  - apply Forall_app. split; auto.
Qed.

Lemma minv_wf : forall ks t m, minv ks t m -> wf (NMap t m).
Proof.
  intros ks t m (Hk & Hn & Ha & Hw). constructor; auto.
  rewrite Hk. apply NoDup_rev. auto.
Qed.

(* ------------------------------------------------------------------ the main induction *)

(* what a legal script for v does at a position that takes any kind *)
Definition VP (v : dm) : Prop :=
  forall aops, AScript v aops ->
  forall q top rest more, accepts_any top ->
  exists n, abs n = v /\ wf n /\
    run_tol q (SOpen (top :: rest)) (map fst aops ++ more) =
    pre (map snd aops) (run_tol q (deliver_st (top :: rest) n) more).

Lemma single_value : forall q top rest more o n,
  accepts_any top -> is_node_op o = true -> value_op (top :: rest) o = deliver (top :: rest) n ->
  run_tol q (SOpen (top :: rest)) (map fst [ok o] ++ more) =
  pre (map snd [ok o]) (run_tol q (deliver_st (top :: rest) n) more).
Proof.
  intros. simpl. rewrite <- run_tol_ok with (s := SOpen (top :: rest)) (o := o); auto.
  rewrite step_value; auto. rewrite H1. apply deliver_receives. apply accepts_receives; auto.
Qed.

Lemma list_body : forall l body,
  ListBody AScript l body -> Forall VP l ->
  forall q x stk more, receives stk ->
  exists ns, map abs ns = l /\ Forall wf ns /\
    run_tol q (SOpen (FList x LaInitial :: stk)) (map fst body ++ more) =
    pre (map snd body) (run_tol q (deliver_st stk (NList (x ++ ns))) more).
Proof.
  induction 1; intros HP q x stk more Hr.
  - exists []. repeat split; auto. rewrite app_nil_r. simpl app.
    rewrite (run_tol_ok q _ Finish (deliver_st stk (NList x))).
    + reflexivity.
    + simpl. apply deliver_receives; auto.
  - inversion HP as [|v0 rest0 Hv Hrest]; subst.
    destruct (Hv s H q (FList x LaMidValue) stk (map fst body ++ more) I) as (n & Hn & Hw & Hrun).
    destruct (IHListBody Hrest q (x ++ [n]) stk more Hr) as (ns & Hns & Hws & Hrun2).
    exists (n :: ns). repeat split.
    + simpl. congruence.
    + constructor; auto.
    + cbn [map fst snd ok app].
      rewrite (run_tol_ok q _ AssembleValue (SOpen (FList x LaMidValue :: stk))) by reflexivity.
      rewrite !map_app, <- !app_assoc. rewrite Hrun. simpl deliver_st.
      rewrite Hrun2. rewrite !pre_pre.
      replace ((x ++ [n]) ++ ns) with (x ++ n :: ns) by (rewrite <- app_assoc; reflexivity).
      cbn [app]. rewrite <- ?app_assoc. reflexivity.
Qed.

Lemma map_body : forall ks rest body,
  MapBody AScript ks rest body -> Forall (fun kv => VP (snd kv)) rest ->
  forall q t m stk more, minv ks t m -> receives stk ->
  exists ks' t' m', minv ks' t' m' /\ map absent t' = map absent t ++ rest /\
    run_tol q (SOpen (FMap t m MaInitial :: stk)) (map fst body ++ more) =
    pre (map snd body) (run_tol q (deliver_st stk (NMap t' m')) more).
Proof.
  induction 1; intros HP q t m stk more Hinv Hr.
  - (* finish *)
    exists ks, t, m. split; [exact Hinv|split].
    + rewrite app_nil_r. reflexivity.
    + simpl app. rewrite (run_tol_ok q _ Finish (deliver_st stk (NMap t m))).
      * reflexivity.
      * simpl. apply deliver_receives; auto.
  - (* entry shortcut *)
    inversion HP as [|kv0 rest0 Hv Hrest]; subst. simpl in Hv.
    destruct (Hv s H0 q (FMap t m (MaMidValue k)) stk (map fst body ++ more) I) as (n & Hn & Hw & Hrun).
    destruct (IHMapBody Hrest q (t ++ [(k, n)]) ((k, n) :: m) stk more (minv_put _ _ _ _ _ Hinv H Hw) Hr)
      as (ks' & t' & m' & Hinv' & Habs & Hrun2).
    exists ks', t', m'. split; [exact Hinv'|split].
    + rewrite Habs. rewrite map_app. simpl. unfold absent at 2. simpl. rewrite Hn.
      rewrite <- app_assoc. reflexivity.
    + cbn [map fst snd ok app].
      rewrite (run_tol_ok q _ (AssembleEntry k) (SOpen (FMap t m (MaMidValue k) :: stk))).
      * rewrite !map_app, <- !app_assoc. rewrite Hrun. simpl deliver_st.
        rewrite Hrun2. rewrite !pre_pre. cbn [app]. rewrite <- ?app_assoc. reflexivity.
      * simpl. rewrite (minv_mem_false _ _ _ _ Hinv H). reflexivity.
  - (* key + value *)
    inversion HP as [|kv0 rest0 Hv Hrest]; subst. simpl in Hv.
    destruct (Hv s H2 q (FMap t m (MaMidValue k)) stk (map fst body ++ more) I) as (n & Hn & Hw & Hrun).
    destruct (IHMapBody Hrest q (t ++ [(k, n)]) ((k, n) :: m) stk more (minv_put _ _ _ _ _ Hinv H Hw) Hr)
      as (ks' & t' & m' & Hinv' & Habs & Hrun2).
    exists ks', t', m'. split; [exact Hinv'|split].
    + rewrite Habs. rewrite map_app. simpl. unfold absent at 2. simpl. rewrite Hn.
      rewrite <- app_assoc. reflexivity.
    + cbn [map fst snd ok app].
      rewrite (run_tol_ok q _ AssembleKey (SOpen (FMap t m MaMidKey :: stk))) by reflexivity.
      rewrite !map_app, <- !app_assoc. rewrite key_tries by auto.
      cbn [map fst snd ok app].
      rewrite (run_tol_ok q _ g (SOpen (FMap t m (MaExpectValue k) :: stk)))
        by (apply (key_give_fresh q t m stk k g); auto; apply (minv_mem_false _ _ _ _ Hinv H)).
      rewrite (run_tol_ok q _ AssembleValue (SOpen (FMap t m (MaMidValue k) :: stk))) by reflexivity.
      rewrite !map_app, <- ?app_assoc. rewrite Hrun. simpl deliver_st.
      rewrite Hrun2. rewrite !pre_pre. cbn [map fst snd ok app].
      rewrite <- ?app_assoc. cbn [app]. reflexivity.
  - (* repeated key through AssembleEntry: refused, nothing changes *)
    destruct (IHMapBody HP q t m stk more Hinv Hr) as (ks' & t' & m' & Hinv' & Habs & Hrun2).
    exists ks', t', m'. split; [exact Hinv'|split; [exact Habs|]].
    cbn [map fst snd app].
    rewrite (run_tol_err q _ (AssembleEntry k) ERepeatedKey (SOpen (FMap t m MaInitial :: stk))).
    + rewrite Hrun2. rewrite pre_pre. reflexivity.
    + simpl. apply (minv_mem _ _ _ k Hinv) in H. rewrite H. reflexivity.
  - (* repeated key through the key assembler: refused, back to "expect key" *)
    destruct (IHMapBody HP q t m stk more Hinv Hr) as (ks' & t' & m' & Hinv' & Habs & Hrun2).
    exists ks', t', m'. split; [exact Hinv'|split; [exact Habs|]].
    cbn [map fst snd ok app].
    rewrite (run_tol_ok q _ AssembleKey (SOpen (FMap t m MaMidKey :: stk))) by reflexivity.
    rewrite !map_app, <- ?app_assoc. rewrite key_tries by auto.
    cbn [map fst snd app].
    rewrite (run_tol_err q _ g ERepeatedKey (SOpen (FMap t m MaInitial :: stk)))
      by (apply (key_give_dup q t m stk k g); auto; apply (minv_mem _ _ _ k Hinv); auto).
    rewrite Hrun2. rewrite !pre_pre. cbn [map fst snd app].
    rewrite <- ?app_assoc. cbn [app]. reflexivity.
Qed.

Lemma abs_map_absent : forall t m, abs (NMap t m) = DMap (map absent t).
Proof. reflexivity. Qed.

(* a node handed to AssignNode at an any-kind position is kept as it is *)
Lemma node_value : forall n, wf n -> VP (abs n) -> True.
Proof. auto. Qed.

Theorem value_script : forall v, VP v.
Proof.
  induction v using dm_ind2; intros aops HS q top rest more Hacc.
  all: inversion HS; subst.
  all: try (eexists; split; [|split; [|apply single_value; auto; reflexivity]]; [reflexivity|constructor]).
  all: try (exists n; split; [auto|split; [auto|apply single_value; auto; reflexivity]]).
  - (* list *)
    destruct (list_body l body H1 H q [] (top :: rest) more (accepts_receives _ _ Hacc))
      as (ns & Hns & Hws & Hrun).
    exists (NList ns). repeat split.
    + simpl. congruence.
    + constructor; auto.
    + cbn [map fst snd ok app].
      rewrite (run_tol_ok q _ (BeginList h) (SOpen (FList [] LaInitial :: top :: rest))).
      * rewrite Hrun. rewrite pre_pre. reflexivity.
      * rewrite step_value; auto.
  - (* map *)
    destruct (map_body [] m body H1 H q [] [] (top :: rest) more minv_nil (accepts_receives _ _ Hacc))
      as (ks' & t' & m' & Hinv' & Habs & Hrun).
    exists (NMap t' m'). repeat split.
    + rewrite abs_map_absent. rewrite Habs. reflexivity.
    + apply (minv_wf _ _ _ Hinv').
    + cbn [map fst snd ok app].
      rewrite (run_tol_ok q _ (BeginMap h) (SOpen (FMap [] [] MaInitial :: top :: rest))).
      * rewrite Hrun. rewrite pre_pre. reflexivity.
      * rewrite step_value; auto.
Qed.
