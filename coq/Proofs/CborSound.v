(* Proofs/CborSound.v — C03: whatever the decoder model accepts is, according to the independent
   SPEC checker [chk] of Codec/CborSpec.v, one well-formed item denoting exactly the value built. *)
Require Import IP.Base.Bytes IP.DM.Value IP.Codec.Cid IP.Codec.Cbor IP.Codec.CborSpec IP.Gen.FromGo.
Require Import IP.Proofs.BytesFacts IP.Proofs.CborEnc IP.Proofs.CborDec.
From Coq Require Import ZifyN ZifyNat ZifyBool.
Ltac Zify.zify_post_hook ::= Z.div_mod_to_equations.
Open Scope N_scope.

Definition wfb (bs : bytes) : Prop := Forall (fun b => b < 256) bs.

Lemma wfb_take n (l p s : bytes) : wfb l -> take n l = Some (p, s) -> wfb p /\ wfb s.
Proof. intros H Ht. apply take_some in Ht as [-> _]. now apply Forall_app in H. Qed.

(* the model's head-argument reader and the SPEC's head reader are the same function of the bytes *)
Lemma rd_head_dec_arg strict b r :
  rd_head strict (b :: r) =
  match dec_arg strict (b mod 32) r with Some (a, r') => Some (b / 32, a, r') | None => None end.
Proof.
  cbn [rd_head]. unfold dec_arg.
  destruct (b mod 32 <? 24); [reflexivity|].
  destruct (b mod 32 =? 24); [destruct (take 1 r) as [[x r']|]; [|reflexivity]; destruct (strict && _); reflexivity|].
  destruct (b mod 32 =? 25); [destruct (take 2 r) as [[x r']|]; [|reflexivity]; destruct (strict && _); reflexivity|].
  destruct (b mod 32 =? 26); [destruct (take 4 r) as [[x r']|]; [|reflexivity]; destruct (strict && _); reflexivity|].
  destruct (b mod 32 =? 27); [destruct (take 8 r) as [[x r']|]; [|reflexivity]; destruct (strict && _); reflexivity|].
  reflexivity.
Qed.

Lemma dec_arg_wf strict ai r a r' : wfb r -> dec_arg strict ai r = Some (a, r') -> a < two64 /\ wfb r' /\ (ai < 24 -> a = ai).
Proof.
  intros Hw. unfold dec_arg, two64.
  destruct (N.ltb_spec ai 24); [intros E; inversion E; subst; repeat split; auto; lia|].
  assert (G : forall w lo, match take (N.of_nat w) r with
            | Some (x, r'0) => let v := unbe x 0 in if strict && (v <? lo) then None else Some (v, r'0)
            | None => None end = Some (a, r') -> (w <= 8)%nat -> a < 18446744073709551616 /\ wfb r' /\ (ai < 24 -> a = ai)).
  { intros w lo. destruct (take (N.of_nat w) r) as [[x s]|] eqn:Et; [|discriminate].
    destruct (wfb_take _ _ _ _ Hw Et) as [Hx Hs]. apply take_some in Et as [_ Hl].
    cbv zeta. destruct (strict && _); [discriminate|]. intros E Hw8; inversion E; subst.
    pose proof (unbe_bound x 0 Hx) as Hb. unfold lenN in Hl.
    assert (256 ^ N.of_nat (length x) <= 256 ^ 8) by (apply N.pow_le_mono_r; lia).
    change (256 ^ 8) with 18446744073709551616 in *. repeat split; auto; lia. }
  destruct (ai =? 24); [intros E; apply (G 1%nat 24 E); lia|].
  destruct (ai =? 25); [intros E; apply (G 2%nat 256 E); lia|].
  destruct (ai =? 26); [intros E; apply (G 4%nat 65536 E); lia|].
  destruct (ai =? 27); [intros E; apply (G 8%nat 4294967296 E); lia|discriminate].
Qed.

(* the decoder's two-step widening of a binary16 pattern (refmt: half -> single bits, then Go's
   float64(float32)) agrees with the SPEC's direct one, for every 16-bit pattern: field arithmetic, no sweep *)
(* the three fields of a binary32 pattern assembled from sign, exponent and mantissa *)
Lemma w32_fields s e m : s < 2 -> e < 256 -> m < 8388608 ->
  (s * 2147483648 + e * 8388608 + m) / 2147483648 = s /\
  ((s * 2147483648 + e * 8388608 + m) / 8388608) mod 256 = e /\
  (s * 2147483648 + e * 8388608 + m) mod 8388608 = m.
Proof. intros. lia. Qed.

Lemma widen32_fields s e m : s < 2 -> e < 256 -> m < 8388608 ->
  widen32 (s * 2147483648 + e * 8388608 + m) =
  let sign := s * 9223372036854775808 in
  if e =? 0 then
    if m =? 0 then sign
    else let p := N.log2 m in sign + (p + 874) * 4503599627370496 + (m - 2 ^ p) * 2 ^ (52 - p)
  else if e =? 255 then sign + 2047 * 4503599627370496 + m * 536870912
  else sign + (e + 896) * 4503599627370496 + m * 536870912.
Proof.
  intros Hs He Hm. destruct (w32_fields s e m Hs He Hm) as (E1 & E2 & E3).
  unfold widen32. rewrite E1, E2, E3. reflexivity.
Qed.

Lemma widen16_agree y : y < 65536 -> widen16 y = widen16_spec y.
Proof.
  intros Hy. unfold widen16, widen16_spec, half_to_single.
  assert (Hs : (y / 32768) mod 2 < 2) by lia.
  assert (He : (y / 1024) mod 32 < 32) by lia.
  assert (Hm : y mod 1024 < 1024) by lia.
  generalize dependent ((y / 32768) mod 2). intros s Hs.
  generalize dependent ((y / 1024) mod 32). intros e He.
  generalize dependent (y mod 1024). intros m Hm. clear y Hy. cbv zeta.
  destruct (N.eqb_spec e 0) as [->|He0].
  - destruct (N.eqb_spec m 0) as [->|Hm0].
    + replace (s * 2147483648) with (s * 2147483648 + 0 * 8388608 + 0) by lia.
      rewrite widen32_fields by lia. reflexivity.
    + pose proof (N.log2_spec m ltac:(lia)) as [Hlo Hhi]. set (p := N.log2 m) in *.
      assert (Hp : p <= 9).
      { destruct (N.le_gt_cases p 9) as [|Hgt]; [assumption|]. exfalso.
        assert (2 ^ 10 <= 2 ^ p) by (apply N.pow_le_mono_r; lia). change (2 ^ 10) with 1024 in *. lia. }
      assert (Hsplit : 2 ^ p * 2 ^ (23 - p) = 8388608).
      { rewrite <- N.pow_add_r. replace (p + (23 - p)) with 23 by lia. reflexivity. }
      assert (Hsucc : 2 ^ N.succ p = 2 * 2 ^ p) by (rewrite N.pow_succ_r'; reflexivity).
      set (k := (m - 2 ^ p) * 2 ^ (23 - p)).
      assert (Hk : k < 8388608).
      { unfold k. rewrite <- Hsplit. apply N.mul_lt_mono_pos_r; [|lia].
        assert (0 < 2 ^ (23 - p)) by (apply N.neq_0_lt_0, N.pow_nonzero; lia). assumption. }
      replace (s * 2147483648 + (p + 103) * 8388608 + k) with (s * 2147483648 + (p + 103) * 8388608 + k) by reflexivity.
      rewrite widen32_fields by lia. cbv zeta.
      destruct (N.eqb_spec (p + 103) 0); [lia|]. destruct (N.eqb_spec (p + 103) 255); [lia|].
      replace (p + 103 + 896) with (p + 999) by lia. f_equal.
      unfold k. rewrite <- N.mul_assoc. f_equal.
      change 536870912 with (2 ^ 29). rewrite <- N.pow_add_r. f_equal. lia.
  - destruct (N.eqb_spec e 31) as [->|He31].
    + destruct (N.eqb_spec m 0) as [->|Hm0].
      * replace (s * 2147483648 + 2139095040) with (s * 2147483648 + 255 * 8388608 + 0) by lia.
        rewrite widen32_fields by lia. cbv zeta. cbn [N.eqb Pos.eqb]. lia.
      * replace (s * 2147483648 + 2139095040 + m * 8192) with (s * 2147483648 + 255 * 8388608 + m * 8192) by lia.
        rewrite widen32_fields by lia. cbv zeta. cbn [N.eqb Pos.eqb]. lia.
    + rewrite widen32_fields by lia. cbv zeta.
      destruct (N.eqb_spec (e + 112) 0); [lia|]. destruct (N.eqb_spec (e + 112) 255); [lia|]. lia.
Qed.

Lemma finite_iff f : f64_finite f = negb (f64_is_nan f || f64_is_inf f).
Proof. unfold f64_finite, f64_is_nan, f64_is_inf. destruct (f64_exp f =? 2047); destruct (f64_man f =? 0); reflexivity. Qed.

(* named versions of chk's inner loops *)
Fixpoint chk_list (strict links nw : bool) (l : list dm) (bs : bytes) : option bytes :=
  match l with
  | [] => Some bs
  | x :: l' => match chk strict links nw x bs with Some bs' => chk_list strict links nw l' bs' | None => None end
  end.

Fixpoint chk_ents (strict links nw : bool) (m : list (bytes * dm)) (bs : bytes) : option bytes :=
  match m with
  | [] => Some bs
  | (k, x) :: m' =>
    match rd_head strict bs with
    | Some (3, ka, r1) =>
      match take ka r1 with
      | Some (k', r2) =>
        if bytes_eqb k k' then
          match chk strict links nw x r2 with Some bs' => chk_ents strict links nw m' bs' | None => None end
        else None
      | None => None
      end
    | _ => None
    end
  end.

Fixpoint nodup_go {V} (m : list (bytes * V)) (seen : list bytes) : bool :=
  match m with
  | [] => true
  | (k, _) :: r => negb (existsb (bytes_eqb k) seen) && nodup_go r (k :: seen)
  end.

Lemma chk_list_unfold strict links nw l bs :
  chk strict links nw (DList l) bs =
  match rd_head strict bs with
  | Some (4, a, r) => if negb (a =? lenN l) then None else chk_list strict links nw l r
  | _ => None
  end.
Proof.
  cbn [chk]. destruct (rd_head strict bs) as [[[mj a] r]|]; [|reflexivity].
  destruct mj as [|p]; [reflexivity|]. do 3 (destruct p as [p|p|]; try reflexivity).
  destruct (negb (a =? lenN l)); [reflexivity|].
  revert r. induction l as [|x l' IH]; intros r; [reflexivity|]. cbn [chk_list].
  destruct (chk strict links nw x r); [apply IH|reflexivity].
Qed.

Lemma chk_map_unfold strict links nw m bs :
  chk strict links nw (DMap m) bs =
  match rd_head strict bs with
  | Some (5, a, r) => if negb (a =? lenN m) || negb (nodup_go m []) then None else chk_ents strict links nw m r
  | _ => None
  end.
Proof.
  cbn [chk]. destruct (rd_head strict bs) as [[[mj a] r]|]; [|reflexivity].
  destruct mj as [|p]; [reflexivity|]. do 3 (destruct p as [p|p|]; try reflexivity).
  assert (E : nodup_keys m = nodup_go m []).
  { unfold nodup_keys. generalize (@nil bytes). induction m as [|[k x] m' IH]; intros seen; [reflexivity|].
    cbn [nodup_go]. now rewrite IH. }
  rewrite E. clear E. destruct (negb (a =? lenN m) || negb (nodup_go m [])); [reflexivity|].
  revert r. induction m as [|[k x] m' IH]; intros r; [reflexivity|]. cbn [chk_ents].
  destruct (rd_head strict r) as [[[mj2 a2] r1]|]; [|reflexivity].
  destruct mj2 as [|p]; [reflexivity|]. do 2 (destruct p as [p|p|]; try reflexivity).
  destruct (take a2 r1) as [[k' r2]|]; [|reflexivity].
  destruct (bytes_eqb k k'); [|reflexivity].
  destruct (chk strict links nw x r2); [apply IH|reflexivity].
Qed.

Section Sound.
  Variable o : dopts.
  Hypothesis Hrt : d_reject_tags o = true.
  Local Notation strict := (negb (d_relaxed o)).
  Local Notation links := (d_allow_links o).

  (* what a successful [dec_val] means, depending on whether a tag has already been read *)
  Definition val_sound (tag : option N) (bs : bytes) (v : dm) (r : bytes) : Prop :=
    match tag with
    | None => chk strict links true v bs = Some r
    | Some t =>
      t = 42 /\ links = true /\ exists c n r1, v = DLink c /\ cid_valid c = true /\
        rd_head strict bs = Some (2, n, r1) /\ take n r1 = Some (0 :: c, r)
    end.

  Definition P_val (f : nat) : Prop := forall depth bud pre tag bs v b r,
    wfb bs -> dec_val f o depth bud pre tag bs = Ok (v, b, r) -> val_sound tag bs v r /\ wfb r.
  Definition P_items (f : nat) : Prop := forall depth bud n bs vs b r,
    wfb bs -> dec_items f o depth bud n bs = Ok (vs, b, r) ->
    chk_list strict links true vs bs = Some r /\ lenN vs = n /\ wfb r.
  Definition P_ents (f : nat) : Prop := forall depth bud n seen bs vs b r,
    wfb bs -> dec_entries f o depth bud n seen bs = Ok (vs, b, r) ->
    chk_ents strict links true vs bs = Some r /\ lenN vs = n /\ nodup_go vs seen = true /\ wfb r.

  (* post with a tag present always fails on the repaired tree *)
  Lemma post_tagged bud pre t k x : post o bud pre (Some t) k = Ok x -> False.
  Proof. unfold post. destruct (prespend bud pre); cbn [bind]; [|discriminate]. now rewrite Hrt. Qed.

  Lemma post_untagged bud pre k x : post o bud pre None k = Ok x -> exists b1, k b1 = Ok x.
  Proof. unfold post. destruct (prespend bud pre) as [b1|]; cbn [bind]; [|discriminate]. eauto. Qed.

  Lemma dec_key_sound bs k r : wfb bs -> dec_key strict true bs = Some (k, r) ->
    exists ka r1, rd_head strict bs = Some (3, ka, r1) /\ take ka r1 = Some (k, r) /\ wfb r.
  Proof.
    intros Hw. unfold dec_key. destruct bs as [|b t]; [discriminate|].
    rewrite andb_false_r. unfold dec_key_str.
    destruct (b =? 127); [discriminate|]. destruct (N.eqb_spec (b / 32) 3) as [E3|]; [|discriminate].
    unfold dec_len. rewrite rd_head_dec_arg.
    inversion Hw as [|? ? _ Ht]; subst.
    destruct (dec_arg strict (b mod 32) t) as [[a r']|] eqn:Ea; [|discriminate].
    destruct (dec_arg_wf _ _ _ _ _ Ht Ea) as (_ & Hr' & _).
    destruct (two63 <=? a); [discriminate|]. destruct (str_cap <? a); [discriminate|].
    intros Hk. exists a, r'. rewrite E3. repeat split; auto. now destruct (wfb_take _ _ _ _ Hr' Hk).
  Qed.

  Lemma sound_step f : P_val f -> P_items f -> P_ents f -> P_val (S f) /\ P_items (S f) /\ P_ents (S f).
  Proof.
    intros IHv IHi IHe. split; [|split].
    - (* dec_val *)
      intros depth bud pre tag bs v b r Hw. cbn [dec_val]. unfold dec_val_body.
      destruct bs as [|b0 t]; [discriminate|]. inversion Hw as [|? ? Hb0 Ht]; subst.
      (* scalars that ignore nothing: with a tag they fail, without they are checked directly *)
      destruct ((b0 =? 246) || (b0 =? 247)) eqn:En.
      { destruct tag; [intros HH; exfalso; eapply post_tagged; eauto|].
        intros HH. apply post_untagged in HH as (b1 & HH). inversion HH; subst. split; [|assumption].
        cbn [val_sound chk]. apply orb_true_iff in En as [E|E]; apply N.eqb_eq in E; subst; reflexivity. }
      destruct (N.eqb_spec b0 244) as [->|].
      { destruct tag; [intros HH; exfalso; eapply post_tagged; eauto|].
        intros HH. apply post_untagged in HH as (b1 & HH). destruct (spend b1 1); cbn [bind] in HH; [|discriminate].
        inversion HH; subst. split; [reflexivity|assumption]. }
      destruct (N.eqb_spec b0 245) as [->|].
      { destruct tag; [intros HH; exfalso; eapply post_tagged; eauto|].
        intros HH. apply post_untagged in HH as (b1 & HH). destruct (spend b1 1); cbn [bind] in HH; [|discriminate].
        inversion HH; subst. split; [reflexivity|assumption]. }
      destruct ((b0 =? 249) || (b0 =? 250) || (b0 =? 251)) eqn:Ef.
      { destruct (take _ t) as [[x r1]|] eqn:Et; [|discriminate].
        destruct (wfb_take _ _ _ _ Ht Et) as [Hx Hr1].
        destruct (check_float _ _) as [fv|] eqn:Ec; [|discriminate].
        destruct tag; [intros HH; exfalso; eapply post_tagged; eauto|].
        intros HH. apply post_untagged in HH as (b1 & HH). destruct (spend b1 1); cbn [bind] in HH; [|discriminate].
        inversion HH; subst. split; [|assumption]. cbn [val_sound].
        unfold check_float in Ec.
        destruct (strict && (f64_is_nan _ || f64_is_inf _)) eqn:Es; [discriminate|]. inversion Ec; subst fv. clear Ec.
        assert (Hfin : strict && negb (f64_finite (if b0 =? 249 then widen16 (unbe x 0) else if b0 =? 250 then widen32 (unbe x 0) else unbe x 0)) = false).
        { rewrite finite_iff, negb_involutive. exact Es. }
        destruct (N.eqb_spec b0 249) as [->|].
        { cbn [chk]. rewrite Hfin. cbn [N.eqb Pos.eqb] in Et. rewrite Et.
          apply take_some in Et as [_ Hl]. pose proof (unbe_bound x 0 Hx) as Hb.
          assert (Hlx : length x = 2%nat) by (unfold lenN in Hl; lia). rewrite Hlx in Hb. cbn in Hb.
          rewrite <- widen16_agree by lia. now rewrite N.eqb_refl. }
        destruct (N.eqb_spec b0 250) as [->|].
        { cbn [chk]. rewrite Hfin. cbn [N.eqb Pos.eqb] in Et. rewrite Et.
          change (widen32_spec (unbe x 0)) with (widen32 (unbe x 0)). now rewrite N.eqb_refl. }
        assert (b0 = 251) as ->.
        { cbn [orb] in Ef. now apply N.eqb_eq in Ef. }
        cbn [chk]. rewrite Hfin. cbn [N.eqb Pos.eqb] in Et. rewrite Et. now rewrite N.eqb_refl. }
      destruct ((b0 =? 95) || (b0 =? 127) || (b0 =? 159) || (b0 =? 191)); [discriminate|].
      destruct (N.leb_spec 224 b0); [discriminate|].
      destruct (dec_arg _ (b0 mod 32) t) as [[a r1]|] eqn:Ea; [|discriminate].
      destruct (dec_arg_wf _ _ _ _ _ Ht Ea) as (Ha64 & Hr1 & _).
      assert (Hrd : rd_head strict (b0 :: t) = Some (b0 / 32, a, r1)) by (rewrite rd_head_dec_arg, Ea; reflexivity).
      assert (Hmj : b0 / 32 < 7) by lia.
      revert Hrd. generalize (b0 / 32) Hmj. intros mj Hmj7 Hrd. unfold dec_major.
      destruct (N.eqb_spec mj 0) as [->|].
      { destruct tag; [intros HH; exfalso; eapply post_tagged; eauto|].
        intros HH. apply post_untagged in HH as (b1 & HH). destruct (spend b1 1); cbn [bind] in HH; [|discriminate].
        inversion HH; subst. split; [|assumption]. cbn [val_sound chk]. rewrite Hrd. cbn [N.eqb andb].
        now rewrite Z.eqb_refl. }
      destruct (N.eqb_spec mj 1) as [->|].
      { destruct (N.ltb_spec two63 ((a + 1) mod two64)); [discriminate|].
        destruct tag; [intros HH; exfalso; eapply post_tagged; eauto|].
        intros HH. apply post_untagged in HH as (b1 & HH). destruct (spend b1 1); cbn [bind] in HH; [|discriminate].
        inversion HH; subst. split; [|assumption]. cbn [val_sound chk]. rewrite Hrd.
        cbn [N.eqb Pos.eqb andb]. unfold two64, two63 in *.
        destruct (N.eq_dec a 18446744073709551615) as [->|Hne].
        - cbn. reflexivity.
        - replace ((a + 1) mod 18446744073709551616) with (a + 1) in * by lia.
          destruct (N.ltb_spec a 9223372036854775808); [|lia]. cbn [andb].
          destruct (Z.eqb_spec (-1 - Z.of_N a) (- Z.of_N (a + 1))); [reflexivity|lia]. }
      destruct (N.leb_spec two63 a); [discriminate|].
      destruct (N.eqb_spec mj 2) as [->|].
      { destruct (str_cap <? a); [discriminate|].
        destruct (take a r1) as [[s r2]|] eqn:Et; [|discriminate].
        destruct (wfb_take _ _ _ _ Hr1 Et) as [_ Hr2].
        destruct (prespend bud pre); cbn [bind]; [|discriminate].
        destruct (spend _ _); cbn [bind]; [|discriminate].
        destruct tag as [tg|].
        - destruct (N.eqb_spec tg go_linkTag) as [->|]; cbn [andb]; [|discriminate].
          destruct (d_allow_links o) eqn:El; [|discriminate].
          destruct s as [|[|p] c]; try discriminate. destruct (cid_valid c) eqn:Ec; [|discriminate].
          intros HH; inversion HH; subst. split; [|assumption]. cbn [val_sound].
          split; [reflexivity|]. split; [exact El|]. exists c, a, r1. auto.
        - intros HH; inversion HH; subst. split; [|assumption]. cbn [val_sound chk]. rewrite Hrd, Et.
          now rewrite bytes_eqb_refl. }
      destruct (N.eqb_spec mj 3) as [->|].
      { destruct (str_cap <? a); [discriminate|].
        destruct (take a r1) as [[s r2]|] eqn:Et; [|discriminate].
        destruct (wfb_take _ _ _ _ Hr1 Et) as [_ Hr2].
        destruct tag; [intros HH; exfalso; eapply post_tagged; eauto|].
        intros HH. apply post_untagged in HH as (b1 & HH). destruct (spend b1 _); cbn [bind] in HH; [|discriminate].
        inversion HH; subst. split; [|assumption]. cbn [val_sound chk]. rewrite Hrd, Et. now rewrite bytes_eqb_refl. }
      destruct (N.eqb_spec mj 4) as [->|].
      { destruct tag; [intros HH; exfalso; eapply post_tagged; eauto|].
        intros HH. apply post_untagged in HH as (b1 & HH).
        destruct (_ <=? _)%Z; [discriminate|]. destruct (spend b1 _) as [b2|]; cbn [bind] in HH; [|discriminate].
        destruct (dec_items f o depth b2 a r1) as [[[vs b3] r3]|] eqn:Ed; cbn [bind] in HH; [|discriminate].
        inversion HH; subst. destruct (IHi _ _ _ _ _ _ _ Hr1 Ed) as (Hc & Hl & Hw3). split; [|assumption].
        cbn [val_sound]. rewrite chk_list_unfold, Hrd, Hl, N.eqb_refl. exact Hc. }
      destruct (N.eqb_spec mj 5) as [->|].
      { destruct tag; [intros HH; exfalso; eapply post_tagged; eauto|].
        intros HH. apply post_untagged in HH as (b1 & HH).
        destruct (_ <=? _)%Z; [discriminate|]. destruct (spend b1 _) as [b2|]; cbn [bind] in HH; [|discriminate].
        destruct (dec_entries f o depth b2 a [] r1) as [[[vs b3] r3]|] eqn:Ed; cbn [bind] in HH; [|discriminate].
        inversion HH; subst. destruct (IHe _ _ _ _ _ _ _ _ Hr1 Ed) as (Hc & Hl & Hn & Hw3). split; [|assumption].
        cbn [val_sound]. rewrite chk_map_unfold, Hrd, Hl, N.eqb_refl, Hn. exact Hc. }
      assert (mj = 6) as -> by lia.
      destruct tag; [discriminate|].
      intros HH. destruct (IHv _ _ _ _ _ _ _ _ Hr1 HH) as [Hs Hw3]. split; [|assumption].
      cbn [val_sound] in *. destruct Hs as (-> & Hlk & c & nn & r2 & -> & Hcid & Hrd2 & Htk).
      cbn [chk]. rewrite Hlk, Hcid, Hrd. cbn [negb orb]. rewrite Hrd2, Htk. now rewrite bytes_eqb_refl.
    - (* dec_items *)
      intros depth bud n bs vs b r Hw. cbn [dec_items]. unfold dec_items_body.
      destruct (N.eqb_spec n 0) as [->|].
      { intros HH; inversion HH; subst. repeat split; auto. }
      destruct (dec_val f o (depth + 1) bud (Some go_listEntryCost) None bs) as [[[v b2] bs2]|] eqn:Ed; cbn [bind]; [|discriminate].
      destruct (IHv _ _ _ _ _ _ _ _ Hw Ed) as [Hs Hw2].
      destruct (dec_items f o depth b2 (n - 1) bs2) as [[[vs' b3] bs3]|] eqn:Ed2; cbn [bind]; [|discriminate].
      destruct (IHi _ _ _ _ _ _ _ Hw2 Ed2) as (Hc & Hl & Hw3).
      intros HH; inversion HH; subst. cbn [val_sound] in Hs. cbn [chk_list]. rewrite Hs.
      repeat split; auto. rewrite lenN_cons. lia.
    - (* dec_entries *)
      intros depth bud n seen bs vs b r Hw. cbn [dec_entries]. unfold dec_entries_body.
      destruct (N.eqb_spec n 0) as [->|].
      { intros HH; inversion HH; subst. repeat split; auto. }
      rewrite Hrt.
      destruct (dec_key strict true bs) as [[k bs1]|] eqn:Ek; [|discriminate].
      destruct (dec_key_sound _ _ _ Hw Ek) as (ka & r1 & Hrd & Htk & Hw1).
      destruct (spend bud _) as [bud1|]; cbn [bind]; [|discriminate].
      destruct (existsb (bytes_eqb k) seen) eqn:Ex; [discriminate|].
      destruct (dec_val f o (depth + 1) bud1 None None bs1) as [[[v b2] bs2]|] eqn:Ed; cbn [bind]; [|discriminate].
      destruct (IHv _ _ _ _ _ _ _ _ Hw1 Ed) as [Hs Hw2].
      destruct (dec_entries f o depth b2 (n - 1) (k :: seen) bs2) as [[[vs' b3] bs3]|] eqn:Ed2; cbn [bind]; [|discriminate].
      destruct (IHe _ _ _ _ _ _ _ _ Hw2 Ed2) as (Hc & Hl & Hn & Hw3).
      intros HH; inversion HH; subst. cbn [val_sound] in Hs. cbn [chk_ents nodup_go].
      rewrite Hrd, Htk, bytes_eqb_refl, Hs, Ex, Hn.
      repeat split; auto. rewrite lenN_cons. lia.
  Qed.

  Lemma sound_all : forall f, P_val f /\ P_items f /\ P_ents f.
  Proof.
    induction f as [|f (IHv & IHi & IHe)].
    - unfold P_val, P_items, P_ents. split; [|split]; intros; cbn in *; discriminate.
    - now apply sound_step.
  Qed.

  (* C03 (with the refmt wrap of -2^64 tolerated): acceptance implies the consumed prefix is one
     well-formed item denoting exactly the value, and nothing is left unless stop-at-end was asked *)
  Theorem decode_sound bs v rest : wfb bs -> decode o bs = Ok (v, rest) ->
    chk strict links true v bs = Some rest /\ (d_dont_parse_beyond o = false -> rest = []).
  Proof.
    intros Hw. unfold decode.
    destruct (dec_val (dec_fuel bs) o 0 (budget0 o) None None bs) as [[[v' b] r]|] eqn:Ed; [|discriminate].
    destruct (sound_all (dec_fuel bs)) as [Hv _]. destruct (Hv _ _ _ _ _ _ _ _ Hw Ed) as [Hs _].
    cbn [val_sound] in Hs.
    destruct (d_dont_parse_beyond o).
    - intros H; inversion H; subst. split; [exact Hs|discriminate].
    - destruct r; [|discriminate]. intros H; inversion H; subst. split; [exact Hs|reflexivity].
  Qed.
End Sound.
