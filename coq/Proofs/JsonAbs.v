(* Proofs/JsonAbs.v — dagjson's look-ahead window abstracted to (number of buffered tokens, logical
   token stream), and the lock-step simulation: whenever the abstract unmarshal succeeds, the model
   unmarshal (tokenizer + window) succeeds with the same value. *)
Require Import IP.Base.Bytes IP.DM.Value IP.Codec.Utf8 IP.Codec.Base64 IP.Codec.DagJson.
Require Import IP.Proofs.JsonTok.
Open Scope N_scope.

Definition astate := (nat * list tok)%type.

Definition anext (s : astate) : res jderr (tok * astate) :=
  match snd s with t :: L => Ok (t, (pred (fst s), L)) | [] => Err JDOther end.

(* tokSrc.Step behind the window's back: only sound when nothing is buffered *)
Definition anext_direct (s : astate) : res jderr (tok * astate) :=
  match fst s, snd s with
  | O, t :: L => Ok (t, (O, L))
  | _, _ => Err JDStale
  end.

Definition apeek (k : nat) (s : astate) : res jderr (tok * astate) :=
  match nth_error (snd s) (pred k) with
  | None => Err JDOther
  | Some t =>
    if Nat.ltb (fst s) k then (if Nat.eqb (fst s) (pred k) then Ok (t, (k, snd s)) else Err JDStale)
    else Ok (t, s)
  end.

(* st.shift = 0: whatever is buffered is dropped *)
Definition aclear (s : astate) : astate := (O, skipn (fst s) (snd s)).

Section Abs.
  Variable parse_float : bytes -> option N.
  Variable cid_parse : bytes -> option bytes.

  Definition alink (s : astate) : res jderr (option bytes * astate) :=
    do p1 <- apeek 1 s; let '(t1, s1) := p1 in
    match t1 with
    | TString k =>
      if negb (bytes_eqb k slash) then Ok (None, s1) else
      do p2 <- apeek 2 s1; let '(t2, s2) := p2 in
      match t2 with
      | TString str =>
        do p3 <- apeek 3 s2; let '(t3, s3) := p3 in
        match t3 with
        | TMapClose =>
          match cid_parse str with
          | Some c => Ok (Some c, aclear s3)
          | None => Err JDOther
          end
        | _ => Ok (None, s3)
        end
      | _ => Ok (None, s2)
      end
    | _ => Ok (None, s1)
    end.

  Definition abytes (s : astate) : res jderr (option bytes * astate) :=
    do p1 <- apeek 1 s; let '(t1, s1) := p1 in
    match t1 with
    | TString k =>
      if negb (bytes_eqb k slash) then Ok (None, s1) else
      do p2 <- apeek 2 s1; let '(t2, s2) := p2 in
      match t2 with
      | TMapOpen =>
        do p3 <- apeek 3 s2; let '(t3, s3) := p3 in
        match t3 with
        | TString w =>
          if negb (bytes_eqb w bytes_word) then Ok (None, s3) else
          do p4 <- apeek 4 s3; let '(t4, s4) := p4 in
          match t4 with
          | TString str =>
            do p5 <- apeek 5 s4; let '(t5, s5) := p5 in
            match t5 with
            | TMapClose =>
              do p6 <- apeek 6 s5; let '(t6, s6) := p6 in
              match t6 with
              | TMapClose =>
                match b64_decode_go str with
                | Some b => Ok (Some b, aclear s6)
                | None => Err JDOther
                end
              | _ => Ok (None, s6)
              end
            | _ => Ok (None, s5)
            end
          | _ => Ok (None, s4)
          end
        | _ => Ok (None, s3)
        end
      | _ => Ok (None, s2)
      end
    | _ => Ok (None, s1)
    end.

  Fixpoint aunm (fuel : nat) (o : jdopts) (depth : Z) (t : tok) (s : astate) {struct fuel}
    : res jderr (dm * astate) :=
    match fuel with O => Err JDFuel | S f =>
    match t with
    | TMapOpen =>
      if (jmax_depth o <=? depth)%Z then Err JDDepth else
      do r1 <- (if jd_links o then alink s else Ok (None, s));
      match r1 with
      | (Some c, s1) => Ok (DLink c, s1)
      | (None, s1) =>
        do r2 <- (if jd_bytes o then abytes s1 else Ok (None, s1));
        match r2 with
        | (Some b, s2) => Ok (DBytes b, s2)
        | (None, s2) =>
          do r3 <- aunm_map f o depth [] s2;
          let '(m, s3) := r3 in Ok (DMap m, s3)
        end
      end
    | TMapClose => Err JDOther
    | TArrOpen =>
      if (jmax_depth o <=? depth)%Z then Err JDDepth else
      do r <- aunm_list f o depth s;
      let '(l, s') := r in Ok (DList l, s')
    | TArrClose => Err JDOther
    | TNull => Ok (DNull, s)
    | TString x => Ok (DString x, s)
    | TBool b => Ok (DBool b, s)
    | TInt z => Ok (DInt z, s)
    | TFloat x => Ok (DFloat x, s)
    end end
  with aunm_map (fuel : nat) (o : jdopts) (depth : Z) (seen : list bytes) (s : astate) {struct fuel}
    : res jderr (list (bytes * dm) * astate) :=
    match fuel with O => Err JDFuel | S f =>
    do p <- anext s; let '(t, s1) := p in
    match t with
    | TMapClose => Ok ([], s1)
    | TString k =>
      if existsb (bytes_eqb k) seen then Err JDOther else
      do p2 <- anext s1; let '(t2, s2) := p2 in
      do r <- aunm f o (depth + 1) t2 s2; let '(v, s3) := r in
      do r' <- aunm_map f o depth (k :: seen) s3; let '(m, s4) := r' in
      Ok ((k, v) :: m, s4)
    | _ => Err JDOther
    end end
  with aunm_list (fuel : nat) (o : jdopts) (depth : Z) (s : astate) {struct fuel}
    : res jderr (list dm * astate) :=
    match fuel with O => Err JDFuel | S f =>
    do p <- anext_direct s; let '(t, s1) := p in
    match t with
    | TArrClose => Ok ([], s1)
    | _ =>
      do r <- aunm f o (depth + 1) t s1; let '(v, s2) := r in
      do r' <- aunm_list f o depth s2; let '(l, s3) := r' in
      Ok (v :: l, s3)
    end end.

  (* unfolding equations (cbn does not refold the mutual fixpoints) *)
  Lemma unm_S f o depth t s : unm parse_float cid_parse (S f) o depth t s =
    match t with
    | TMapOpen =>
      if (jmax_depth o <=? depth)%Z then Err JDDepth else
      do r1 <- (if jd_links o then link_lookahead parse_float cid_parse s else Ok (None, s));
      match r1 with
      | (Some c, s1) => Ok (DLink c, s1)
      | (None, s1) =>
        do r2 <- (if jd_bytes o then bytes_lookahead parse_float s1 else Ok (None, s1));
        match r2 with
        | (Some b, s2) => Ok (DBytes b, s2)
        | (None, s2) =>
          do r3 <- unm_map parse_float cid_parse f o depth [] s2;
          let '(m, s3) := r3 in Ok (DMap m, s3)
        end
      end
    | TMapClose => Err JDOther
    | TArrOpen =>
      if (jmax_depth o <=? depth)%Z then Err JDDepth else
      do r <- unm_list parse_float cid_parse f o depth s;
      let '(l, s') := r in Ok (DList l, s')
    | TArrClose => Err JDOther
    | TNull => Ok (DNull, s)
    | TString x => Ok (DString x, s)
    | TBool b => Ok (DBool b, s)
    | TInt z => Ok (DInt z, s)
    | TFloat x => Ok (DFloat x, s)
    end.
  Proof. reflexivity. Qed.

  Lemma unm_map_S f o depth seen s : unm_map parse_float cid_parse (S f) o depth seen s =
    (do p <- next parse_float s; let '(t, s1) := p in
    match t with
    | TMapClose => Ok ([], s1)
    | TString k =>
      if existsb (bytes_eqb k) seen then Err JDOther else
      do p2 <- next parse_float s1; let '(t2, s2) := p2 in
      do r <- unm parse_float cid_parse f o (depth + 1) t2 s2; let '(v, s3) := r in
      do r' <- unm_map parse_float cid_parse f o depth (k :: seen) s3; let '(m, s4) := r' in
      Ok ((k, v) :: m, s4)
    | _ => Err JDOther
    end).
  Proof. reflexivity. Qed.

  Lemma unm_list_S f o depth s : unm_list parse_float cid_parse (S f) o depth s =
    (do p <- next_direct parse_float s; let '(t, s1) := p in
    match t with
    | TArrClose => Ok ([], s1)
    | _ =>
      do r <- unm parse_float cid_parse f o (depth + 1) t s1; let '(v, s2) := r in
      do r' <- unm_list parse_float cid_parse f o depth s2; let '(l, s3) := r' in
      Ok (v :: l, s3)
    end).
  Proof. reflexivity. Qed.

  Lemma aunm_S f o depth t s : aunm (S f) o depth t s =
    match t with
    | TMapOpen =>
      if (jmax_depth o <=? depth)%Z then Err JDDepth else
      do r1 <- (if jd_links o then alink s else Ok (None, s));
      match r1 with
      | (Some c, s1) => Ok (DLink c, s1)
      | (None, s1) =>
        do r2 <- (if jd_bytes o then abytes s1 else Ok (None, s1));
        match r2 with
        | (Some b, s2) => Ok (DBytes b, s2)
        | (None, s2) =>
          do r3 <- aunm_map f o depth [] s2;
          let '(m, s3) := r3 in Ok (DMap m, s3)
        end
      end
    | TMapClose => Err JDOther
    | TArrOpen =>
      if (jmax_depth o <=? depth)%Z then Err JDDepth else
      do r <- aunm_list f o depth s;
      let '(l, s') := r in Ok (DList l, s')
    | TArrClose => Err JDOther
    | TNull => Ok (DNull, s)
    | TString x => Ok (DString x, s)
    | TBool b => Ok (DBool b, s)
    | TInt z => Ok (DInt z, s)
    | TFloat x => Ok (DFloat x, s)
    end.
  Proof. reflexivity. Qed.

  Lemma aunm_map_S f o depth seen s : aunm_map (S f) o depth seen s =
    (do p <- anext s; let '(t, s1) := p in
    match t with
    | TMapClose => Ok ([], s1)
    | TString k =>
      if existsb (bytes_eqb k) seen then Err JDOther else
      do p2 <- anext s1; let '(t2, s2) := p2 in
      do r <- aunm f o (depth + 1) t2 s2; let '(v, s3) := r in
      do r' <- aunm_map f o depth (k :: seen) s3; let '(m, s4) := r' in
      Ok ((k, v) :: m, s4)
    | _ => Err JDOther
    end).
  Proof. reflexivity. Qed.

  Lemma aunm_list_S f o depth s : aunm_list (S f) o depth s =
    (do p <- anext_direct s; let '(t, s1) := p in
    match t with
    | TArrClose => Ok ([], s1)
    | _ =>
      do r <- aunm f o (depth + 1) t s1; let '(v, s2) := r in
      do r' <- aunm_list f o depth s2; let '(l, s3) := r' in
      Ok (v :: l, s3)
    end).
  Proof. reflexivity. Qed.

  (* ---------------------------------------------------------------- simulation *)

  Variable tsE : tstate.
  Variable bsE : bytes.

  Definition Rel (ls : lsrc) (s : astate) : Prop :=
    fst s = length (lb ls) /\
    exists Ls, snd s = lb ls ++ Ls /\ Yields parse_float (lts ls) (lin ls) Ls tsE bsE.

  Lemma pull_lock ls t Ls : lb ls = [] -> Yields parse_float (lts ls) (lin ls) (t :: Ls) tsE bsE ->
    exists ls', pull parse_float ls = Ok (t, ls') /\ lb ls' = [] /\ Yields parse_float (lts ls') (lin ls') Ls tsE bsE.
  Proof.
    intros Hb Y. inversion Y as [|? ? ? ts1 bs1 ? ? ? St Y']; subst.
    unfold pull. rewrite St. eexists. split; [reflexivity|]. cbn. split; assumption.
  Qed.

  Lemma next_lock s t s' ls : anext s = Ok (t, s') -> Rel ls s -> exists ls', next parse_float ls = Ok (t, ls') /\ Rel ls' s'.
  Proof.
    destruct s as [n L]. unfold anext. cbn [fst snd]. destruct L as [|t0 L']; [discriminate|].
    intros E (Hn & Ls & HL & Y). inversion E; subst. cbn [fst snd] in *.
    unfold next. destruct (lb ls) as [|k b] eqn:Hb.
    - cbn [app] in HL. subst Ls. destruct (pull_lock ls t L' Hb Y) as (ls' & P & Hb' & Y').
      exists ls'. split; [assumption|]. split; [cbn [fst]; rewrite Hb'; cbn in Hn; cbn; lia|]. exists L'. rewrite Hb'. split; [reflexivity|assumption].
    - cbn [app] in HL. inversion HL; subst. eexists. split; [reflexivity|]. split; [reflexivity|].
      exists Ls. cbn. split; [reflexivity|assumption].
  Qed.

  Lemma next_direct_lock s t s' ls : anext_direct s = Ok (t, s') -> Rel ls s ->
    exists ls', next_direct parse_float ls = Ok (t, ls') /\ Rel ls' s'.
  Proof.
    destruct s as [n L]. unfold anext_direct. cbn [fst snd]. destruct n; [|discriminate]. destruct L as [|t0 L']; [discriminate|].
    intros E (Hn & Ls & HL & Y). inversion E; subst. cbn [fst snd] in *.
    assert (Hb : lb ls = []) by (destruct (lb ls); [reflexivity|discriminate]).
    rewrite Hb in HL. cbn [app] in HL. subst Ls.
    destruct (pull_lock ls t L' Hb Y) as (ls' & P & Hb' & Y').
    exists ls'. split; [assumption|]. split; [cbn; now rewrite Hb'|]. exists L'. rewrite Hb'. split; [reflexivity|assumption].
  Qed.

  Lemma peek_lock k s t s' ls : (1 <= k)%nat -> apeek k s = Ok (t, s') -> Rel ls s ->
    exists ls', peek parse_float k ls = Ok (t, ls') /\ Rel ls' s'.
  Proof.
    destruct s as [n L]. unfold apeek. cbn [fst snd]. intros Hk E (Hn & Ls & HL & Y). cbn [fst snd] in *.
    destruct (nth_error L (pred k)) as [t0|] eqn:Nth; [|discriminate].
    unfold peek. rewrite <- Hn.
    destruct (Nat.ltb_spec n k) as [Lt|Ge].
    - destruct (Nat.eqb_spec n (pred k)) as [En|]; [|discriminate]. inversion E; subst t0 s'. clear E.
      rewrite HL in Nth. rewrite <- En, Hn in Nth. rewrite nth_error_app2 in Nth by lia.
      rewrite Nat.sub_diag in Nth. destruct Ls as [|t1 Ls']; [discriminate|]. cbn in Nth. inversion Nth; subst t1.
      inversion Y as [|? ? ? ts1 bs1 ? ? ? St Y']; subst.
      unfold pull. rewrite St. cbn [bind lb lts lin].
      rewrite nth_error_app2 by lia. replace (pred k - length (lb ls))%nat with O by lia. cbn [nth_error].
      eexists. split; [reflexivity|]. split.
      + cbn [fst lb]. rewrite app_length. cbn. lia.
      + exists Ls'. cbn [snd lb lts lin]. split; [now rewrite <- app_assoc|assumption].
    - inversion E; subst t0 s'. cbn [bind].
      rewrite HL in Nth. rewrite nth_error_app1 in Nth by lia. rewrite Nth.
      eexists. split; [reflexivity|]. split; [assumption|]. exists Ls. split; assumption.
  Qed.

  Lemma clear_lock s ls : Rel ls s -> Rel (clear ls) (aclear s).
  Proof.
    destruct s as [n L]. intros (Hn & Ls & HL & Y). cbn [fst snd] in *. unfold aclear, clear. split; [reflexivity|].
    exists Ls. cbn [fst snd lb lts lin app]. split; [|assumption].
    rewrite HL, Hn. now rewrite skipn_app, skipn_all, Nat.sub_diag.
  Qed.

  Ltac peek_step k H R :=
    let P := fresh "P" in let t := fresh "t" in let s := fresh "s" in
    let ls := fresh "ls" in let E := fresh "E" in let R' := fresh "R" in
    match type of H with
    | context[apeek k ?s0] => destruct (apeek k s0) as [[t s]|] eqn:P; cbn [bind] in H; [|discriminate];
        destruct (peek_lock k s0 t s _ ltac:(lia) P R) as (ls & E & R'); rewrite E; cbn [bind]; clear R P E
    end.

  Ltac done_none H := inversion H; subst; eexists; split; [reflexivity|assumption].

  Lemma link_lock s r s' ls : alink s = Ok (r, s') -> Rel ls s ->
    exists ls', link_lookahead parse_float cid_parse ls = Ok (r, ls') /\ Rel ls' s'.
  Proof.
    intros H R. unfold alink in H. unfold link_lookahead.
    peek_step 1%nat H R. destruct t; try (done_none H).
    destruct (negb (bytes_eqb s1 slash)); [done_none H|].
    peek_step 2%nat H R0. destruct t; try (done_none H).
    peek_step 3%nat H R. destruct t; try (done_none H).
    destruct (cid_parse s3); [|discriminate]. inversion H; subst.
    eexists. split; [reflexivity|]. now apply clear_lock.
  Qed.

  Lemma bytes_lock s r s' ls : abytes s = Ok (r, s') -> Rel ls s ->
    exists ls', bytes_lookahead parse_float ls = Ok (r, ls') /\ Rel ls' s'.
  Proof.
    intros H R. unfold abytes in H. unfold bytes_lookahead.
    peek_step 1%nat H R. destruct t; try (done_none H).
    destruct (negb (bytes_eqb s1 slash)); [done_none H|].
    peek_step 2%nat H R0. destruct t; try (done_none H).
    peek_step 3%nat H R. destruct t; try (done_none H).
    destruct (negb (bytes_eqb s4 bytes_word)); [done_none H|].
    peek_step 4%nat H R0. destruct t; try (done_none H).
    peek_step 5%nat H R. destruct t; try (done_none H).
    peek_step 6%nat H R0. destruct t; try (done_none H).
    destruct (b64_decode_go s6); [|discriminate]. inversion H; subst.
    eexists. split; [reflexivity|]. now apply clear_lock.
  Qed.

  Theorem unm_lock fuel :
    (forall o d t s v s' ls, aunm fuel o d t s = Ok (v, s') -> Rel ls s ->
       exists ls', unm parse_float cid_parse fuel o d t ls = Ok (v, ls') /\ Rel ls' s') /\
    (forall o d seen s m s' ls, aunm_map fuel o d seen s = Ok (m, s') -> Rel ls s ->
       exists ls', unm_map parse_float cid_parse fuel o d seen ls = Ok (m, ls') /\ Rel ls' s') /\
    (forall o d s l s' ls, aunm_list fuel o d s = Ok (l, s') -> Rel ls s ->
       exists ls', unm_list parse_float cid_parse fuel o d ls = Ok (l, ls') /\ Rel ls' s').
  Proof.
    induction fuel as [|f (IHu & IHm & IHl)]; [repeat split; intros; discriminate|].
    repeat split.
    - intros o d t s v s' ls H R. rewrite aunm_S in H. rewrite unm_S.
      destruct t; try discriminate; try (inversion H; subst; eexists; split; [reflexivity|assumption]).
      + (* map open *)
        destruct (jmax_depth o <=? d)%Z; [discriminate|].
        destruct (jd_links o).
        * destruct (alink s) as [[r1 s1]|] eqn:A1; cbn [bind] in H; [|discriminate].
          destruct (link_lock _ _ _ _ A1 R) as (ls1 & E1 & R1). rewrite E1. cbn [bind].
          destruct r1 as [c|]; [inversion H; subst; eexists; split; [reflexivity|assumption]|]. cbn [bind].
          destruct (jd_bytes o).
          -- destruct (abytes s1) as [[r2 s2]|] eqn:A2; cbn [bind] in H; [|discriminate].
             destruct (bytes_lock _ _ _ _ A2 R1) as (ls2 & E2 & R2). rewrite E2. cbn [bind].
             destruct r2 as [b|]; [inversion H; subst; eexists; split; [reflexivity|assumption]|]. cbn [bind].
             destruct (aunm_map f o d [] s2) as [[m s3]|] eqn:A3; cbn [bind] in H; [|discriminate].
             destruct (IHm _ _ _ _ _ _ _ A3 R2) as (ls3 & E3 & R3). rewrite E3. cbn [bind].
             inversion H; subst. eexists; split; [reflexivity|assumption].
          -- cbn [bind] in *.
             destruct (aunm_map f o d [] s1) as [[m s3]|] eqn:A3; cbn [bind] in H; [|discriminate].
             destruct (IHm _ _ _ _ _ _ _ A3 R1) as (ls3 & E3 & R3). rewrite E3. cbn [bind].
             inversion H; subst. eexists; split; [reflexivity|assumption].
        * cbn [bind] in *. destruct (jd_bytes o).
          -- destruct (abytes s) as [[r2 s2]|] eqn:A2; cbn [bind] in H; [|discriminate].
             destruct (bytes_lock _ _ _ _ A2 R) as (ls2 & E2 & R2). rewrite E2. cbn [bind].
             destruct r2 as [b|]; [inversion H; subst; eexists; split; [reflexivity|assumption]|]. cbn [bind].
             destruct (aunm_map f o d [] s2) as [[m s3]|] eqn:A3; cbn [bind] in H; [|discriminate].
             destruct (IHm _ _ _ _ _ _ _ A3 R2) as (ls3 & E3 & R3). rewrite E3. cbn [bind].
             inversion H; subst. eexists; split; [reflexivity|assumption].
          -- cbn [bind] in *.
             destruct (aunm_map f o d [] s) as [[m s3]|] eqn:A3; cbn [bind] in H; [|discriminate].
             destruct (IHm _ _ _ _ _ _ _ A3 R) as (ls3 & E3 & R3). rewrite E3. cbn [bind].
             inversion H; subst. eexists; split; [reflexivity|assumption].
      + (* array open *)
        destruct (jmax_depth o <=? d)%Z; [discriminate|].
        destruct (aunm_list f o d s) as [[l s1]|] eqn:A; cbn [bind] in H; [|discriminate].
        destruct (IHl _ _ _ _ _ _ A R) as (ls1 & E1 & R1). rewrite E1. cbn [bind].
        inversion H; subst. eexists; split; [reflexivity|assumption].
    - intros o d seen s m s' ls H R. rewrite aunm_map_S in H. rewrite unm_map_S.
      destruct (anext s) as [[t s1]|] eqn:N1; cbn [bind] in H; [|discriminate].
      destruct (next_lock _ _ _ _ N1 R) as (ls1 & E1 & R1). rewrite E1. cbn [bind].
      destruct t; try discriminate.
      + inversion H; subst. eexists; split; [reflexivity|assumption].
      + destruct (existsb (bytes_eqb s0) seen); [discriminate|].
        destruct (anext s1) as [[t2 s2]|] eqn:N2; cbn [bind] in H; [|discriminate].
        destruct (next_lock _ _ _ _ N2 R1) as (ls2 & E2 & R2). rewrite E2. cbn [bind].
        destruct (aunm f o (d + 1) t2 s2) as [[v s3]|] eqn:U; cbn [bind] in H; [|discriminate].
        destruct (IHu _ _ _ _ _ _ _ U R2) as (ls3 & E3 & R3). rewrite E3. cbn [bind].
        destruct (aunm_map f o d (s0 :: seen) s3) as [[m' s4]|] eqn:M; cbn [bind] in H; [|discriminate].
        destruct (IHm _ _ _ _ _ _ _ M R3) as (ls4 & E4 & R4). rewrite E4. cbn [bind].
        inversion H; subst. eexists; split; [reflexivity|assumption].
    - intros o d s l s' ls H R. rewrite aunm_list_S in H. rewrite unm_list_S.
      destruct (anext_direct s) as [[t s1]|] eqn:N1; cbn [bind] in H; [|discriminate].
      destruct (next_direct_lock _ _ _ _ N1 R) as (ls1 & E1 & R1). rewrite E1. cbn [bind].
      assert (G : forall t', t' = t -> t' <> TArrClose ->
                  exists ls', (do r <- unm parse_float cid_parse f o (d + 1) t ls1; let '(v, s2) := r in
                               do r' <- unm_list parse_float cid_parse f o d s2; let '(l0, s3) := r' in
                               Ok (v :: l0, s3)) = Ok (l, ls') /\ Rel ls' s').
      { intros t' -> NC. destruct t; try congruence;
        (destruct (aunm f o (d + 1) _ s1) as [[v s2]|] eqn:U; cbn [bind] in H; [|discriminate];
         destruct (IHu _ _ _ _ _ _ _ U R1) as (ls2 & E2 & R2); rewrite E2; cbn [bind];
         destruct (aunm_list f o d s2) as [[l' s3]|] eqn:M; cbn [bind] in H; [|discriminate];
         destruct (IHl _ _ _ _ _ _ M R2) as (ls3 & E3 & R3); rewrite E3; cbn [bind];
         inversion H; subst; eexists; split; [reflexivity|assumption]). }
      destruct t; try (apply (G _ eq_refl); discriminate).
      inversion H; subst. eexists; split; [reflexivity|assumption].
  Qed.
End Abs.
