(* Schema/View.v — what a node shows through its read API (an "observed view"), the canonical view of
   a plain data model tree, and the string split/join used by stringjoin.  MODEL file. *)
Require Import IP.Base.Bytes IP.DM.Value IP.Schema.Types.
Open Scope N_scope.

(* Kind()+As*() of a scalar; Length() and the (index,value) / (key,value) pairs of the iterator for
   recursive kinds; OAbsent is datamodel.Absent; OErr is a failed or panicking read. *)
Inductive ov :=
| OScalar (d : dm)
| OAbsent
| OErr (panic : bool)
| OList (len : Z) (its : list (Z * ov))
| OMap (len : Z) (ents : list (bytes * ov)).

Fixpoint indexed {A} (i : Z) (l : list A) : list (Z * A) :=
  match l with [] => [] | x :: r => (i, x) :: indexed (i + 1)%Z r end.

(* the view of a plain tree held by a well-behaved node: lengths are counts, indices are positions *)
Fixpoint ov_of_dm (d : dm) : ov :=
  match d with
  | DList l => OList (Z.of_nat (length l)) (indexed 0%Z (map ov_of_dm l))
  | DMap m => OMap (Z.of_nat (length m)) (map (fun kv => (fst kv, ov_of_dm (snd kv))) m)
  | _ => OScalar d
  end.

(* An item of [OList] whose index is [lookup_only] is a position the iterator does not yield but
   LookupByIndex (below Length()) does: it arises only when Length() exceeds the iterated count. *)
Definition lookup_only : Z := (-1)%Z.

(* what copying the node through its iterators (datamodel.Copy) yields; None if a read fails *)
Fixpoint ov_to_dm (o : ov) : option dm :=
  match o with
  | OScalar d => Some d
  | OAbsent | OErr _ => None
  | OList _ its =>
      match (fix go (l : list (Z * ov)) : option (list dm) :=
               match l with
               | [] => Some []
               | x :: r => if (fst x =? lookup_only)%Z then go r else
                           match ov_to_dm (snd x), go r with
                           | Some d, Some ds => Some (d :: ds) | _, _ => None end
               end) its with
      | Some ds => Some (DList ds) | None => None end
  | OMap _ ents =>
      match (fix go (l : list (bytes * ov)) : option (list (bytes * dm)) :=
               match l with
               | [] => Some []
               | x :: r => match ov_to_dm (snd x), go r with
                           | Some d, Some ds => Some ((fst x, d) :: ds) | _, _ => None end
               end) ents with
      | Some ds => Some (DMap ds) | None => None end
  end.


(* what datamodel.Copy carries over: like [ov_to_dm], but an Absent child is skipped (Copy: "if
   v.IsAbsent() { continue }") — the type-level view of a struct shows absent fields as Absent *)
Fixpoint ov_copy (o : ov) : option dm :=
  match o with
  | OScalar d => Some d
  | OAbsent | OErr _ => None
  | OList _ its =>
      match (fix go (l : list (Z * ov)) : option (list dm) :=
               match l with
               | [] => Some []
               | x :: r =>
                   match snd x with
                   | OAbsent => go r
                   | _ => match ov_copy (snd x), go r with
                          | Some d, Some ds => Some (d :: ds) | _, _ => None end
                   end
               end) its with
      | Some ds => Some (DList ds) | None => None end
  | OMap _ ents =>
      match (fix go (l : list (bytes * ov)) : option (list (bytes * dm)) :=
               match l with
               | [] => Some []
               | x :: r =>
                   match snd x with
                   | OAbsent => go r
                   | _ => match ov_copy (snd x), go r with
                          | Some d, Some ds => Some ((fst x, d) :: ds) | _, _ => None end
                   end
               end) ents with
      | Some ds => Some (DMap ds) | None => None end
  end.

(* what dag-cbor's marshal reads: Kind, then Length + LookupByIndex for a list, Length + MapIterator
   (with a count check) for a map; datamodel.Absent has Kind_Null and is written as null *)
Fixpoint ov_enc_dm (o : ov) : option dm :=
  match o with
  | OScalar d => Some d
  | OAbsent => Some DNull
  | OErr _ => None
  | OList len its =>
      if (len =? Z.of_nat (length its))%Z then
        match (fix go (l : list (Z * ov)) : option (list dm) :=
                 match l with
                 | [] => Some []
                 | x :: r => match ov_enc_dm (snd x), go r with
                             | Some d, Some ds => Some (d :: ds) | _, _ => None end
                 end) its with
        | Some ds => Some (DList ds) | None => None end
      else None
  | OMap len ents =>
      if (len =? Z.of_nat (length ents))%Z then
        match (fix go (l : list (bytes * ov)) : option (list (bytes * dm)) :=
                 match l with
                 | [] => Some []
                 | x :: r => match ov_enc_dm (snd x), go r with
                             | Some d, Some ds => Some ((fst x, d) :: ds) | _, _ => None end
                 end) ents with
        | Some ds => Some (DMap ds) | None => None end
      else None
  end.

(* the view is that of a well-behaved node *)
Fixpoint ov_consistent (o : ov) : bool :=
  match o with
  | OScalar _ => true
  | OAbsent | OErr _ => false
  | OList len its =>
      (len =? Z.of_nat (length its))%Z &&
      (fix go (i : Z) (l : list (Z * ov)) : bool :=
         match l with [] => true | x :: r => (fst x =? i)%Z && ov_consistent (snd x) && go (i + 1)%Z r end)
        0%Z its
  | OMap len ents =>
      (len =? Z.of_nat (length ents))%Z &&
      (fix go (l : list (bytes * ov)) : bool :=
         match l with [] => true | x :: r => ov_consistent (snd x) && go r end) ents
  end.

Definition str_of_ov (o : ov) : option bytes :=
  match o with OScalar (DString s) => Some s | _ => None end.

(* ------------------------------------------------------------------ join / split *)

Fixpoint join (d : bytes) (parts : list bytes) : bytes :=
  match parts with
  | [] => []
  | [p] => p
  | p :: r => p ++ d ++ join d r
  end.

(* Go's strings.Split for a non-empty separator: non-overlapping occurrences, left to right.
   [skip] counts the remaining bytes of a separator that has just been matched. *)
Fixpoint split_go (d : bytes) (skip : nat) (cur : bytes) (s : bytes) : list bytes :=
  match s with
  | [] => [rev cur]
  | c :: r =>
    match skip with
    | S k => split_go d k cur r
    | O => if is_prefix d s then rev cur :: split_go d (length d - 1) [] r
           else split_go d O (c :: cur) r
    end
  end.
Definition split (d s : bytes) : list bytes := split_go d 0 [] s.

(* does [d] occur in [s] *)
Fixpoint contains (d s : bytes) : bool :=
  match s with
  | [] => match d with [] => true | _ => false end
  | _ :: r => is_prefix d s || contains d r
  end.

(* stringprefix: the member a string addresses and the rest of the string.  Without a delimiter the
   first member (in declaration order) whose discriminant is a prefix; with one, the string is cut at
   the first delimiter and the part before it must be a discriminant *)
Definition sp_parse (dl : bytes) (ms : list (minfo * ty)) (s : bytes) : option (nat * (minfo * ty) * bytes) :=
  match dl with
  | [] =>
      match find_idx (fun m => is_prefix (m_disc (fst m)) s) ms with
      | Some (i, m) => Some (i, m, drop (length (m_disc (fst m))) s)
      | None => None
      end
  | _ =>
      match split_first dl [] s with
      | Some (p, rest) =>
          match find_idx (fun m => bytes_eqb (m_disc (fst m)) p) ms with
          | Some (i, m) => Some (i, m, rest)
          | None => None
          end
      | None => None
      end
  end.

(* generic option helpers *)
Fixpoint mapM {A B} (f : A -> option B) (l : list A) : option (list B) :=
  match l with
  | [] => Some []
  | x :: r => match f x with
              | Some y => match mapM f r with Some ys => Some (y :: ys) | None => None end
              | None => None
              end
  end.

Fixpoint assoc {V} (k : bytes) (m : list (bytes * V)) : option V :=
  match m with [] => None | kv :: r => if bytes_eqb k (fst kv) then Some (snd kv) else assoc k r end.

Fixpoint zip {A B} (a : list A) (b : list B) : list (A * B) :=
  match a, b with x :: a', y :: b' => (x, y) :: zip a' b' | _, _ => [] end.

Definition is_absent {A} (m : maybe A) : bool := match m with MAbsent => true | _ => false end.

(* fields paired with their slots, absent ones dropped *)
Definition present {F} (fs : list F) (vs : list (maybe tv)) : list (F * maybe tv) :=
  filter (fun x => negb (is_absent (snd x))) (zip fs vs).
