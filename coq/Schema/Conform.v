(* Schema/Conform.v — SPEC of the schema layer, written from the IPLD schema specification and not
   from the Go code: the value space of a type ([has_type]), the representation a typed value has
   under its strategy ([repr_spec], a plain data model tree), the type-level data it denotes
   ([tdm_spec]), the type-level view ([tview_spec]) and decidable conformance at both levels
   ([conforms_t], [conforms_r]: the unique typed value a tree denotes, or None).
   MODEL file: definitions only.  All functions are open-recursive steps closed by [fuel_rec]. *)
Require Import IP.Base.Bytes IP.DM.Value IP.Schema.Types IP.Schema.View.
Open Scope N_scope.

Definition str_of (d : dm) : bytes := match d with DString s => s | _ => [] end.

(* ------------------------------------------------------------------ representation of a value *)
Section Repr.
  Variable rec : ty -> tv -> dm.

  Definition repr_maybe (t : ty) (m : maybe tv) : dm :=
    match m with MVal v => rec t v | _ => DNull end.

  Definition repr_step (t : ty) (v : tv) : dm :=
    match t, v with
    | TBool, VBool b => DBool b
    | TInt _, VInt z => DInt z
    | TFloat, VFloat f => DFloat f
    | TString, VString s => DString s
    | TBytes, VBytes s => DBytes s
    | TLink, VLink c => DLink c
    | TAny, VAny d => d
    | TList _ e, VList l => DList (map (repr_maybe e) l)
    | TMap _ e, VMap m => DMap (map (fun kv => (fst kv, repr_maybe e (snd kv))) m)
    | TStruct SMap fs, VStruct vs =>
        DMap (map (fun x => (f_key (fst (fst x)), repr_maybe (snd (fst x)) (snd x))) (present fs vs))
    | TStruct STuple fs, VStruct vs =>
        DList (map (fun x => repr_maybe (snd (fst x)) (snd x)) (present fs vs))
    | TStruct (SStringjoin d) fs, VStruct vs =>
        DString (join d (map (fun x => str_of (repr_maybe (snd (fst x)) (snd x))) (zip fs vs)))
    | TStruct SListpairs fs, VStruct vs =>
        DList (map (fun x => DList [DString (f_name (fst (fst x))); repr_maybe (snd (fst x)) (snd x)])
                   (present fs vs))
    | TUnion r ms, VUnion i v =>
        match nth_error ms i with
        | None => DNull
        | Some m =>
          match r with
          | UKeyed => DMap [(m_disc (fst m), rec (snd m) v)]
          | UKinded => rec (snd m) v
          | UStringprefix dl => DString (m_disc (fst m) ++ dl ++ str_of (rec (snd m) v))
          end
        end
    | TEnum ir es, VEnum s =>
        match find (fun e => bytes_eqb (e_name e) s) es with
        | None => DNull
        | Some e => if ir then DInt (e_int e) else DString (e_str e)
        end
    | _, _ => DNull
    end.
End Repr.

Definition repr_f : nat -> ty -> tv -> dm := fuel_rec repr_step (fun _ _ => DNull).
Definition repr_spec (t : ty) (v : tv) : dm := repr_f (fuel_of t) t v.

(* ------------------------------------------------------------------ type-level data of a value *)
Section TDm.
  Variable rec : ty -> tv -> dm.

  Definition tdm_maybe (t : ty) (m : maybe tv) : dm :=
    match m with MVal v => rec t v | _ => DNull end.

  Definition tdm_step (t : ty) (v : tv) : dm :=
    match t, v with
    | TBool, VBool b => DBool b
    | TInt _, VInt z => DInt z
    | TFloat, VFloat f => DFloat f
    | TString, VString s => DString s
    | TBytes, VBytes s => DBytes s
    | TLink, VLink c => DLink c
    | TAny, VAny d => d
    | TList _ e, VList l => DList (map (tdm_maybe e) l)
    | TMap _ e, VMap m => DMap (map (fun kv => (fst kv, tdm_maybe e (snd kv))) m)
    | TStruct _ fs, VStruct vs =>
        DMap (map (fun x => (f_name (fst (fst x)), tdm_maybe (snd (fst x)) (snd x))) (present fs vs))
    | TUnion _ ms, VUnion i v =>
        match nth_error ms i with
        | None => DNull
        | Some m => DMap [(m_name (fst m), rec (snd m) v)]
        end
    | TEnum _ _, VEnum s => DString s
    | _, _ => DNull
    end.
End TDm.

Definition tdm_f : nat -> ty -> tv -> dm := fuel_rec tdm_step (fun _ _ => DNull).
Definition tdm_spec (t : ty) (v : tv) : dm := tdm_f (fuel_of t) t v.

(* ------------------------------------------------------------------ type-level view *)
(* like the view of [tdm_spec], except that a struct shows every field, absent ones as Absent *)
Section TView.
  Variable rec : ty -> tv -> ov.

  Definition tview_maybe (t : ty) (m : maybe tv) : ov :=
    match m with MVal v => rec t v | MNull => OScalar DNull | MAbsent => OAbsent end.

  Definition tview_step (t : ty) (v : tv) : ov :=
    match t, v with
    | TBool, VBool b => OScalar (DBool b)
    | TInt _, VInt z => OScalar (DInt z)
    | TFloat, VFloat f => OScalar (DFloat f)
    | TString, VString s => OScalar (DString s)
    | TBytes, VBytes s => OScalar (DBytes s)
    | TLink, VLink c => OScalar (DLink c)
    | TAny, VAny d => ov_of_dm d
    | TList _ e, VList l => OList (Z.of_nat (length l)) (indexed 0%Z (map (tview_maybe e) l))
    | TMap _ e, VMap m => OMap (Z.of_nat (length m)) (map (fun kv => (fst kv, tview_maybe e (snd kv))) m)
    | TStruct _ fs, VStruct vs =>
        OMap (Z.of_nat (length fs))
             (map (fun x => (f_name (fst (fst x)), tview_maybe (snd (fst x)) (snd x))) (zip fs vs))
    | TUnion _ ms, VUnion i v =>
        match nth_error ms i with
        | None => OErr false
        | Some m => OMap 1%Z [(m_name (fst m), rec (snd m) v)]
        end
    | TEnum _ _, VEnum s => OScalar (DString s)
    | _, _ => OErr false
    end.
End TView.

Definition tview_f : nat -> ty -> tv -> ov := fuel_rec tview_step (fun _ _ => OErr false).
Definition tview_spec (t : ty) (v : tv) : ov := tview_f (fuel_of t) t v.

(* ------------------------------------------------------------------ value space *)
Section Has.
  Variable rec : ty -> tv -> bool.
  Variable rep : ty -> tv -> dm.     (* representation of children (for stringjoin's delimiter rule) *)

  Definition has_maybe (opt nul : bool) (t : ty) (m : maybe tv) : bool :=
    match m with MAbsent => opt | MNull => nul | MVal v => rec t v end.

  Fixpoint has_fields (fs : list (finfo * ty)) (vs : list (maybe tv)) : bool :=
    match fs, vs with
    | [], [] => true
    | f :: fr, v :: vr => has_maybe (f_opt (fst f)) (f_nul (fst f)) (snd f) v && has_fields fr vr
    | _, _ => false
    end.

  Definition has_step (t : ty) (v : tv) : bool :=
    match t, v with
    | TBool, VBool _ | TFloat, VFloat _ | TString, VString _ | TBytes, VBytes _ | TLink, VLink _ => true
    | TInt W64, VInt z => in_int64 z
    | TInt W8, VInt z => in_int8 z
    | TAny, VAny d => negb (kind_eqb (kind_of d) KNull) && dm_wf d
    | TList nul e, VList l => forallb (has_maybe false nul e) l
    | TMap nul e, VMap m => nodupb (map fst m) && forallb (fun kv => has_maybe false nul e (snd kv)) m
    | TStruct r fs, VStruct vs =>
        has_fields fs vs &&
        match r with
        | STuple => trailing_opt (map is_absent vs)
        | SStringjoin d =>
            forallb (fun x => negb (contains d (str_of (repr_maybe rep (snd (fst x)) (snd x))))) (zip fs vs)
        | _ => true
        end
    | TUnion _ ms, VUnion i v =>
        match nth_error ms i with Some m => rec (snd m) v | None => false end
    | TEnum _ es, VEnum s => existsb (fun e => bytes_eqb (e_name e) s) es
    | _, _ => false
    end.
End Has.

Fixpoint has_f (n : nat) : ty -> tv -> bool :=
  match n with O => fun _ _ => false | S n' => has_step (has_f n') (repr_f n') end.
Definition has_type (t : ty) (v : tv) : bool := has_f (fuel_of t) t v.


(* the value space without the two conditions that only concern representability (tuple: absent
   fields form a suffix; stringjoin: field strings are free of the delimiter): what every accepted
   tree must land in, at either level *)
Section Shape.
  Variable rec : ty -> tv -> bool.

  Definition shape_step (t : ty) (v : tv) : bool :=
    match t, v with
    | TBool, VBool _ | TFloat, VFloat _ | TString, VString _ | TBytes, VBytes _ | TLink, VLink _ => true
    | TInt W64, VInt z => in_int64 z
    | TInt W8, VInt z => in_int8 z
    | TAny, VAny d => negb (kind_eqb (kind_of d) KNull) && dm_wf d
    | TList nul e, VList l => forallb (has_maybe rec false nul e) l
    | TMap nul e, VMap m => nodupb (map fst m) && forallb (fun kv => has_maybe rec false nul e (snd kv)) m
    | TStruct _ fs, VStruct vs => has_fields rec fs vs
    | TUnion _ ms, VUnion i v =>
        match nth_error ms i with Some m => rec (snd m) v | None => false end
    | TEnum _ es, VEnum s => existsb (fun e => bytes_eqb (e_name e) s) es
    | _, _ => false
    end.
End Shape.

Definition shape_f : nat -> ty -> tv -> bool := fuel_rec shape_step (fun _ _ => false).
Definition has_shape (t : ty) (v : tv) : bool := shape_f (fuel_of t) t v.

(* ------------------------------------------------------------------ conformance *)
Section Conf.
  Variable lvl : level.
  Variable rec : ty -> dm -> option tv.

  Definition conf_maybe (nul : bool) (t : ty) (d : dm) : option (maybe tv) :=
    match d with
    | DNull => if nul then Some MNull else None
    | _ => match rec t d with Some v => Some (MVal v) | None => None end
    end.

  (* a struct read as a map whose keys are [key f]: no repeated key, no unknown key, every
     non-optional field present, null only where nullable *)
  Definition conf_fields (key : finfo -> bytes) (fs : list (finfo * ty)) (m : list (bytes * dm))
    : option tv :=
    if nodupb (map fst m) &&
       forallb (fun kv => existsb (fun f => bytes_eqb (key (fst f)) (fst kv)) fs) m
    then match mapM (fun f => match assoc (key (fst f)) m with
                              | None => if f_opt (fst f) then Some MAbsent else None
                              | Some d => conf_maybe (f_nul (fst f)) (snd f) d
                              end) fs with
         | Some vs => Some (VStruct vs)
         | None => None
         end
    else None.

  (* positional: elements fill the fields in order; only optional fields may be missing at the end *)
  Fixpoint conf_tuple (fs : list (finfo * ty)) (l : list dm) : option (list (maybe tv)) :=
    match fs, l with
    | [], [] => Some []
    | [], _ :: _ => None
    | f :: fr, [] =>
        if f_opt (fst f) then
          match conf_tuple fr [] with Some vs => Some (MAbsent :: vs) | None => None end
        else None
    | f :: fr, d :: lr =>
        match conf_maybe (f_nul (fst f)) (snd f) d, conf_tuple fr lr with
        | Some v, Some vs => Some (v :: vs)
        | _, _ => None
        end
    end.

  Definition pair_of (d : dm) : option (bytes * dm) :=
    match d with DList [DString k; x] => Some (k, x) | _ => None end.

  Fixpoint conf_join (fs : list (finfo * ty)) (parts : list bytes) : option (list (maybe tv)) :=
    match fs, parts with
    | [], [] => Some []
    | f :: fr, p :: pr =>
        match rec (snd f) (DString p), conf_join fr pr with
        | Some v, Some vs => Some (MVal v :: vs)
        | _, _ => None
        end
    | _, _ => None
    end.

  Definition conf_scalar (t : ty) (d : dm) : option tv :=
    match t, d with
    | TBool, DBool b => Some (VBool b)
    | TInt W64, DInt z => if in_int64 z then Some (VInt z) else None
    | TInt W8, DInt z => if in_int8 z then Some (VInt z) else None
    | TFloat, DFloat f => Some (VFloat f)
    | TString, DString s => Some (VString s)
    | TBytes, DBytes s => Some (VBytes s)
    | TLink, DLink c => Some (VLink c)
    | TAny, d => if negb (kind_eqb (kind_of d) KNull) && dm_wf d then Some (VAny d) else None
    | _, _ => None
    end.

  Definition conf_member (ms : list (minfo * ty)) (p : minfo -> bool) (d : dm) : option tv :=
    match find_idx (fun m => p (fst m)) ms with
    | Some (i, m) => match rec (snd m) d with Some v => Some (VUnion i v) | None => None end
    | None => None
    end.

  (* null conforms to no type: it is accepted only by a nullable slot ([conf_maybe]) *)
  Definition conf_step (t : ty) (d : dm) : option tv :=
    if kind_eqb (kind_of d) KNull then None else
    match t with
    | TList nul e =>
        match d with
        | DList l => match mapM (conf_maybe nul e) l with Some vs => Some (VList vs) | None => None end
        | _ => None
        end
    | TMap nul e =>
        match d with
        | DMap m =>
            if nodupb (map fst m) then
              match mapM (fun kv => match conf_maybe nul e (snd kv) with
                                    | Some v => Some (fst kv, v) | None => None end) m with
              | Some vs => Some (VMap vs) | None => None end
            else None
        | _ => None
        end
    | TStruct r fs =>
        match lvl, r, d with
        | LType, _, DMap m => conf_fields f_name fs m
        | LRepr, SMap, DMap m => conf_fields f_key fs m
        | LRepr, STuple, DList l =>
            match conf_tuple fs l with Some vs => Some (VStruct vs) | None => None end
        | LRepr, SStringjoin dl, DString s =>
            match conf_join fs (split dl s) with Some vs => Some (VStruct vs) | None => None end
        | LRepr, SListpairs, DList l =>
            match mapM pair_of l with Some m => conf_fields f_name fs m | None => None end
        | _, _, _ => None
        end
    | TUnion r ms =>
        match lvl, r, d with
        | LType, _, DMap [(k, x)] => conf_member ms (fun m => bytes_eqb (m_name m) k) x
        | LRepr, UKeyed, DMap [(k, x)] => conf_member ms (fun m => bytes_eqb (m_disc m) k) x
        | LRepr, UKinded, x => conf_member ms (fun m => kind_eqb (m_kind m) (kind_of x)) x
        | LRepr, UStringprefix dl, DString s =>
            match sp_parse dl ms s with
            | Some (i, m, rest) =>
                match rec (snd m) (DString rest) with
                | Some v => Some (VUnion i v) | None => None end
            | None => None
            end
        | _, _, _ => None
        end
    | TEnum ir es =>
        match lvl, d with
        | LType, DString s =>
            if existsb (fun e => bytes_eqb (e_name e) s) es then Some (VEnum s) else None
        | LRepr, DString s =>
            if ir then None else
            match find (fun e => bytes_eqb (e_str e) s) es with
            | Some e => Some (VEnum (e_name e)) | None => None end
        | LRepr, DInt z =>
            if ir then
              match find (fun e => Z.eqb (e_int e) z) es with
              | Some e => Some (VEnum (e_name e)) | None => None end
            else None
        | _, _ => None
        end
    | _ => conf_scalar t d
    end.
End Conf.

Definition conf_f (lvl : level) : nat -> ty -> dm -> option tv :=
  fuel_rec (conf_step lvl) (fun _ _ => None).
Definition conforms_t (t : ty) (d : dm) : option tv := conf_f LType (fuel_of t) t d.
Definition conforms_r (t : ty) (d : dm) : option tv := conf_f LRepr (fuel_of t) t d.
