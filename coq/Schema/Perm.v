(* Schema/Perm.v — "the same up to the order of map entries": on data model trees ([peq]) and on typed
   values ([veq]: entries of typed maps and the content of Any).  What a codec that canonicalises map
   order preserves.  MODEL file: definitions only. *)
Require Import IP.Base.Bytes IP.DM.Value IP.Schema.Types.
From Coq Require Import Permutation.

Inductive peq : dm -> dm -> Prop :=
| peq_refl d : peq d d
| peq_list l l' : Forall2 peq l l' -> peq (DList l) (DList l')
| peq_map m m1 m' :
    Forall2 (fun a b => fst a = fst b /\ peq (snd a) (snd b)) m m1 -> Permutation m1 m' ->
    peq (DMap m) (DMap m').

Inductive meq (R : tv -> tv -> Prop) : maybe tv -> maybe tv -> Prop :=
| meq_absent : meq R MAbsent MAbsent
| meq_null : meq R MNull MNull
| meq_val x y : R x y -> meq R (MVal x) (MVal y).

Inductive veq : tv -> tv -> Prop :=
| veq_refl v : veq v v
| veq_any d d' : peq d d' -> veq (VAny d) (VAny d')
| veq_list l l' : Forall2 (meq veq) l l' -> veq (VList l) (VList l')
| veq_struct l l' : Forall2 (meq veq) l l' -> veq (VStruct l) (VStruct l')
| veq_union i v v' : veq v v' -> veq (VUnion i v) (VUnion i v')
| veq_map m m1 m' :
    Forall2 (fun a b => fst a = fst b /\ meq veq (snd a) (snd b)) m m1 -> Permutation m1 m' ->
    veq (VMap m) (VMap m').
