(* Schema/Types.v — schema types, typed values, well-formedness.  MODEL file: definitions only.

   A schema type is a finite tree (the harness generates acyclic schemas of depth <= 4; bindnode's
   type inference refuses cyclic schemas).  Names matter only where the library looks at them:
   struct field names / serial names, union member type names / discriminants, enum members.
   Map keys are plain strings (typed keys are outside the modelled set).

   [wf] is OUR precondition on schemas, as a boolean: the library validates almost none of it. *)
Require Import IP.Base.Bytes IP.DM.Value.
Open Scope N_scope.

Inductive kind := KNull | KBool | KInt | KFloat | KString | KBytes | KLink | KList | KMap.

Definition kind_eqb (a b : kind) : bool :=
  match a, b with
  | KNull, KNull | KBool, KBool | KInt, KInt | KFloat, KFloat | KString, KString
  | KBytes, KBytes | KLink, KLink | KList, KList | KMap, KMap => true
  | _, _ => false
  end.

Definition kind_of (d : dm) : kind :=
  match d with
  | DNull => KNull | DBool _ => KBool | DInt _ => KInt | DFloat _ => KFloat
  | DString _ => KString | DBytes _ => KBytes | DLink _ => KLink
  | DList _ => KList | DMap _ => KMap
  end.

(* the Go integer type an Int is bound to: inferred Go types use int (64 bit); W8 = a declared int8 *)
Inductive intw := W64 | W8.

Inductive srepr := SMap | STuple | SStringjoin (delim : bytes) | SListpairs.
(* stringprefix: [delim] sits between the discriminant and the member's string; the schema DSL
   compiler always sets it to "" (the discriminant is then the whole prefix) *)
Inductive urepr := UKeyed | UKinded | UStringprefix (delim : bytes).

Record finfo := { f_name : bytes;     (* field name (type level key) *)
                  f_key : bytes;      (* serial key under the map representation (= f_name unless renamed) *)
                  f_opt : bool; f_nul : bool }.
Record minfo := { m_name : bytes;     (* member type name (type level key) *)
                  m_disc : bytes;     (* keyed: discriminant key; stringprefix: prefix *)
                  m_kind : kind }.    (* kinded: the kind the strategy table maps to this member *)
Record einfo := { e_name : bytes;     (* member name (type level string) *)
                  e_str : bytes;      (* string representation (= e_name unless given) *)
                  e_int : Z }.        (* int representation *)

Inductive ty :=
| TBool | TInt (w : intw) | TFloat | TString | TBytes | TLink | TAny
| TList (nul : bool) (e : ty)
| TMap (nul : bool) (e : ty)
| TStruct (r : srepr) (fs : list (finfo * ty))
| TUnion (r : urepr) (ms : list (minfo * ty))
| TEnum (int_repr : bool) (es : list einfo).

(* the two levels a typed node can be read or built at *)
Inductive level := LType | LRepr.

(* a slot that may be absent (optional struct field), null (nullable) or hold a value *)
Inductive maybe (A : Type) := MAbsent | MNull | MVal (a : A).
Arguments MAbsent {A}.
Arguments MNull {A}.
Arguments MVal {A} a.

(* typed values.  VEnum carries the member NAME as stored by the engines (bindnode stores a Go
   string and does not validate it at type level, so any string can occur under the quirks).
   VMap keeps entries in insertion order. *)
Inductive tv :=
| VBool (b : bool) | VInt (z : Z) | VFloat (f : N) | VString (s : bytes) | VBytes (s : bytes)
| VLink (c : bytes) | VAny (d : dm)
| VList (l : list (maybe tv))
| VMap (m : list (bytes * maybe tv))
| VStruct (fs : list (maybe tv))
| VUnion (i : nat) (v : tv)
| VEnum (s : bytes).

(* ------------------------------------------------------------------ small list helpers *)

Fixpoint nodupb (l : list bytes) : bool :=
  match l with [] => true | x :: r => negb (existsb (bytes_eqb x) r) && nodupb r end.

Fixpoint find_idx {A} (p : A -> bool) (l : list A) : option (nat * A) :=
  match l with
  | [] => None
  | x :: r => if p x then Some (O, x)
              else match find_idx p r with Some (i, y) => Some (S i, y) | None => None end
  end.

Fixpoint is_prefix (p s : bytes) : bool :=
  match p, s with
  | [], _ => true
  | _ :: _, [] => false
  | x :: p', y :: s' => (x =? y) && is_prefix p' s'
  end.

Fixpoint drop {A} (n : nat) (l : list A) : list A :=
  match n, l with O, _ => l | S n', [] => [] | S n', _ :: r => drop n' r end.

(* strings.SplitN(s, d, 2) for a non-empty d: the parts around the FIRST occurrence of d *)
Fixpoint split_first (d : bytes) (acc : bytes) (s : bytes) : option (bytes * bytes) :=
  match s with
  | [] => None
  | c :: r => if is_prefix d s then Some (rev acc, drop (length d) s) else split_first d (c :: acc) r
  end.

(* the first occurrence of the delimiter in  discriminant ++ delimiter  is the delimiter itself *)
Definition first_delim_ok (dl disc : bytes) : bool :=
  match split_first dl [] (disc ++ dl) with
  | Some (p, r) => bytes_eqb p disc && match r with [] => true | _ => false end
  | None => false
  end.

(* no element is a prefix of a different element *)
Fixpoint prefix_free (l : list bytes) : bool :=
  match l with
  | [] => true
  | x :: r => forallb (fun y => negb (is_prefix x y) && negb (is_prefix y x)) r && prefix_free r
  end.

Fixpoint nodup_kinds (l : list kind) : bool :=
  match l with [] => true | x :: r => negb (existsb (kind_eqb x) r) && nodup_kinds r end.

Fixpoint nodupz (l : list Z) : bool :=
  match l with [] => true | x :: r => negb (existsb (Z.eqb x) r) && nodupz r end.

(* once an optional field appears every later field is optional (tuple representation) *)
Fixpoint trailing_opt (l : list bool) : bool :=
  match l with
  | [] => true
  | true :: r => forallb (fun b => b) r
  | false :: r => trailing_opt r
  end.

(* ------------------------------------------------------------------ representation kind *)

(* the data model kind of a type's representation, when it does not depend on the value *)
Definition repr_kind (t : ty) : option kind :=
  match t with
  | TBool => Some KBool | TInt _ => Some KInt | TFloat => Some KFloat | TString => Some KString
  | TBytes => Some KBytes | TLink => Some KLink | TAny => None
  | TList _ _ => Some KList | TMap _ _ => Some KMap
  | TStruct SMap _ => Some KMap
  | TStruct STuple _ | TStruct SListpairs _ => Some KList
  | TStruct (SStringjoin _) _ => Some KString
  | TUnion UKeyed _ => Some KMap
  | TUnion UKinded _ => None
  | TUnion (UStringprefix _) _ => Some KString
  | TEnum true _ => Some KInt
  | TEnum false _ => Some KString
  end.

Definition okind_eqb (a : option kind) (k : kind) : bool :=
  match a with Some k' => kind_eqb k' k | None => false end.

Definition is_sum_repr (t : ty) : bool :=
  match t with TUnion UKinded _ | TUnion (UStringprefix _) _ => true | _ => false end.

(* ------------------------------------------------------------------ well-formed schemas *)

Definition wf_struct_local (r : srepr) (fs : list (finfo * ty)) : bool :=
  nodupb (map (fun f => f_name (fst f)) fs) &&
  match r with
  | SMap => nodupb (map (fun f => f_key (fst f)) fs)
  | STuple =>
      trailing_opt (map (fun f => f_opt (fst f)) fs) &&
      forallb (fun f => bytes_eqb (f_key (fst f)) (f_name (fst f))) fs
  | SStringjoin d =>
      (match d with [_] => true | _ => false end) &&
      (match fs with [] => false | _ => true end) &&
      forallb (fun f => negb (f_opt (fst f)) && negb (f_nul (fst f)) &&
                        okind_eqb (repr_kind (snd f)) KString &&
                        bytes_eqb (f_key (fst f)) (f_name (fst f))) fs
  | SListpairs => forallb (fun f => bytes_eqb (f_key (fst f)) (f_name (fst f))) fs
  end.

Definition wf_union_local (r : urepr) (ms : list (minfo * ty)) : bool :=
  nodupb (map (fun m => m_name (fst m)) ms) &&
  match r with
  | UKeyed => nodupb (map (fun m => m_disc (fst m)) ms)
  | UKinded =>
      nodup_kinds (map (fun m => m_kind (fst m)) ms) &&
      forallb (fun m => okind_eqb (repr_kind (snd m)) (m_kind (fst m)) &&
                        negb (kind_eqb (m_kind (fst m)) KNull)) ms
  | UStringprefix dl =>
      (match dl with
       | [] => prefix_free (map (fun m => m_disc (fst m)) ms)
       | _ => nodupb (map (fun m => m_disc (fst m)) ms) &&
              forallb (fun m => first_delim_ok dl (m_disc (fst m))) ms
       end) &&
      forallb (fun m => okind_eqb (repr_kind (snd m)) KString) ms
  end.

Definition wf_enum_local (ir : bool) (es : list einfo) : bool :=
  nodupb (map e_name es) &&
  (if ir then nodupz (map e_int es) else nodupb (map e_str es)).

Fixpoint wf (t : ty) : bool :=
  match t with
  | TList _ e | TMap _ e => wf e
  | TStruct r fs =>
      wf_struct_local r fs &&
      (fix all (l : list (finfo * ty)) : bool :=
         match l with [] => true | f :: r => wf (snd f) && all r end) fs
  | TUnion r ms =>
      wf_union_local r ms &&
      (fix all (l : list (minfo * ty)) : bool :=
         match l with [] => true | m :: r => wf (snd m) && all r end) ms
  | TEnum ir es => wf_enum_local ir es
  | _ => true
  end.

Fixpoint ty_depth (t : ty) : nat :=
  match t with
  | TList _ e | TMap _ e => S (ty_depth e)
  | TStruct _ fs =>
      S ((fix mx (l : list (finfo * ty)) : nat :=
            match l with [] => O | f :: r => Nat.max (ty_depth (snd f)) (mx r) end) fs)
  | TUnion _ ms =>
      S ((fix mx (l : list (minfo * ty)) : nat :=
            match l with [] => O | m :: r => Nat.max (ty_depth (snd m)) (mx r) end) ms)
  | _ => O
  end.

(* open recursion with fuel: every semantic function of the schema cluster is a [step] closed by
   [fuel_rec]; all are run with the same fuel [S (ty_depth t)] *)
Fixpoint fuel_rec {A} (step : (ty -> A) -> ty -> A) (base : ty -> A) (n : nat) : ty -> A :=
  match n with O => base | S n' => step (fuel_rec step base n') end.

Definition fuel_of (t : ty) : nat := S (ty_depth t).

(* ------------------------------------------------------------------ the code generator's set *)

(* generate.go's type switch: no enum, any, listpairs (map keys are strings here by construction) *)
Fixpoint gen_supported (t : ty) : bool :=
  match t with
  | TAny | TEnum _ _ => false
  | TInt W8 => false
  | TList _ e | TMap _ e => gen_supported e
  | TStruct r fs =>
      (match r with SListpairs => false | _ => true end) &&
      (fix all (l : list (finfo * ty)) : bool :=
         match l with [] => true | f :: r => gen_supported (snd f) && all r end) fs
  | TUnion _ ms =>
      (fix all (l : list (minfo * ty)) : bool :=
         match l with [] => true | m :: r => gen_supported (snd m) && all r end) ms
  | _ => true
  end.

(* data model trees that are values: no repeated key in any map *)
Fixpoint dm_wf (d : dm) : bool :=
  match d with
  | DList l => (fix all (l : list dm) : bool := match l with [] => true | x :: r => dm_wf x && all r end) l
  | DMap m =>
      nodupb (map fst m) &&
      (fix all (m : list (bytes * dm)) : bool :=
         match m with [] => true | kv :: r => dm_wf (snd kv) && all r end) m
  | _ => true
  end.

Definition in_int64 (z : Z) : bool := (- two63z <=? z)%Z && (z <? two63z)%Z.
Definition in_int8 (z : Z) : bool := (-128 <=? z)%Z && (z <? 128)%Z.
Definition wrap_to (bits : Z) (z : Z) : Z :=
  let m := (2 ^ bits)%Z in let h := (2 ^ (bits - 1))%Z in ((z + h) mod m - h)%Z.
